#!/usr/bin/env python3
"""Generate the Lean obligations of C02: every line's translated program matches the instruction of the official form.

    python gen_c02.py [--out-dir DIR] [--table table.json] [--quiet]

Inputs (all regenerated in-process from $HABUTAX_REPO on every run): the instruction table of tools/c02_instructions.py
(template accessibility text + cited transcriptions) and the intermediate representation of tools/translate.py -- the very
terms that translate.py writes to Gen/Forms<year>_<k>.lean, so that the theorems can name the definitions of those files.

Emits under <out-dir> (default /verif/lean/HabuVerif/Gen):

    C02_<year>.lean    one theorem per (line, instruction)
    C02.lean           imports the three
    c02_obligations.json   every emitted theorem with its status, the inferred shape of the code and the instruction
    c02_failed.json        obligations that are FALSE on this tree, with the witness (what the code computes instead)

Per instruction `i` of line `d` (`HabuVerif/Spec/Instr.lean`):

    covered and agreeing      theorem c02_<y>_<form>_<line> : matchesInstr <d> <i> = true := by decide +kernel
    covered, NOT agreeing     -- FAILED-OBLIGATION c02_<y>_<form>_<line> {"code_computes": ..., "form_says": ...}
                              theorem c02_<y>_<form>_<line> : matchesInstr <d> <i> = false := by decide +kernel   (proved negation)
    code outside the fragment theorem c02_<y>_<form>_<line>_uncovered : covered <d> = false := by decide +kernel
                              (listed as `uncovered` with the reason; not a failure)

The verdict is computed here by a line-by-line Python mirror of `toArith` / `infer` / `Shape.agrees`; if the mirror and
the Lean definitions ever disagree the generated module stops building (in either direction), which is the alarm.
A false obligation therefore never breaks the build.  Output is deterministic.
"""
import argparse
import json
import os
import re
import struct
import sys
from fractions import Fraction

HERE = os.path.dirname(os.path.abspath(__file__))
if HERE not in sys.path:
    sys.path.insert(0, HERE)

YEARS = (2021, 2022, 2023)


# --------------------------------------------------------------------------------------------------
# mirror of HabuVerif/Spec/Instr.lean
# --------------------------------------------------------------------------------------------------
def int_const(e):
    if e[0] == 'const' and e[1][0] == 'int':
        return e[1][1]
    if e[0] == 'bin' and e[1] in ('add', 'sub'):
        a, b = int_const(e[2]), int_const(e[3])
        if a is None or b is None:
            return None
        return a + b if e[1] == 'add' else a - b
    return None


def range_strs(a, b):
    return [str(a + k) for k in range(max(0, b - a))]


def static_items(e):
    if e[0] == 'const' and e[1][0] == 'str':
        return list(e[1][1])
    if e[0] == 'call' and e[1] == 'range' and len(e[2]) == 1:
        n = int_const(e[2][0])
        return None if n is None else range_strs(0, n)
    if e[0] == 'call' and e[1] == 'range' and len(e[2]) == 2:
        m, n = int_const(e[2][0]), int_const(e[2][1])
        return None if m is None or n is None else range_strs(m, n)
    if e[0] == 'call' and e[1] == 'list' and len(e[2]) == 1:
        return static_items(e[2][0])
    if e[0] == 'bin' and e[1] == 'add':
        a, b = static_items(e[2]), static_items(e[3])
        return None if a is None or b is None else a + b
    return None


def static_name(x, it, elt):
    if elt[0] != 'readV' or elt[1][0] != 'fstr':
        return None
    out = ''
    for p in elt[1][1]:
        if p[0] == 'const' and p[1][0] == 'str':
            out += p[1][1]
        elif p[0] == 'var' and p[1] == x:
            out += it
        else:
            return None
    return out


CMPS = ('lt', 'le', 'gt', 'ge')


def to_arith(e):
    """IR expression -> arithmetic reading (tuples) or None"""
    k = e[0]
    if k == 'readV' and e[1][0] == 'const' and e[1][1][0] == 'str':
        return ('read', e[1][1][1])
    if k == 'const' and e[1][0] == 'float':
        return ('lit', e[1][1].lower())
    if k == 'const' and e[1][0] == 'none':
        return ('none',)
    if k == 'notImpl' and e[1] == []:
        return ('notImpl',)
    if k == 'bin' and e[1] in ('add', 'sub', 'mul'):
        a, b = to_arith(e[2]), to_arith(e[3])
        return None if a is None or b is None else (e[1], a, b)
    if k == 'call' and e[1] in ('max', 'min') and len(e[2]) == 2:
        a, b = to_arith(e[2][0]), to_arith(e[2][1])
        return None if a is None or b is None else (e[1], a, b)
    if k == 'call' and e[1] == 'sum' and len(e[2]) == 1 and e[2][0][0] == 'listComp':
        _, elt, xs, it, conds = e[2][0]
        if len(xs) != 1 or conds != []:
            return None
        items = static_items(it)
        if items is None:
            return None
        names = [static_name(xs[0], i, elt) for i in items]
        return None if any(n is None for n in names) else ('sum', names)
    if k == 'ite':
        c, t, el = e[1], to_arith(e[2]), to_arith(e[3])
        if t is None or el is None:
            return None
        if c[0] == 'cmp' and len(c[2]) == 1 and len(c[3]) == 1:
            a, b = to_arith(c[1]), to_arith(c[3][0])
            if c[2][0] in CMPS and a is not None and b is not None:
                return ('iteCmp', c[2][0], a, b, t, el)
        return ('guard', t, el)
    return None


def terms(a):
    if a[0] == 'read':
        return [a[1]]
    if a[0] == 'sum':
        return list(a[1])
    if a[0] == 'add':
        x, y = terms(a[1]), terms(a[2])
        return None if x is None or y is None else x + y
    return None


def is_zero_lit(a):
    return a[0] == 'lit' and a[1] in ('0000000000000000', '8000000000000000')


def rate_product(a):
    if a[0] == 'mul' and a[1][0] == 'read' and a[2][0] == 'lit':
        return a[1][1], a[2][1]
    if a[0] == 'mul' and a[1][0] == 'lit' and a[2][0] == 'read':
        return a[2][1], a[1][1]
    return None


def infer_flat(e):
    k = e[0]
    if k == 'none':
        return ('blank',)
    if k == 'notImpl':
        return ('decline',)
    if k == 'read':
        return ('carry', e[1])
    if k in ('sub', 'mul', 'min', 'max') and e[1][0] == 'read' and e[2][0] == 'read':
        return ({'sub': 'sub', 'mul': 'mul', 'min': 'smaller', 'max': 'larger'}[k], e[1][1], e[2][1])
    if k == 'max':
        x, y = e[1], e[2]
        body = y if is_zero_lit(x) else (x if is_zero_lit(y) else None)
        if body is None:
            return None
        if body[0] == 'sub' and body[1][0] == 'read' and body[2][0] == 'read':
            return ('subFloor0', body[1][1], body[2][1])
        rp = rate_product(body)
        if rp is not None:
            return ('mulRateFloor0', rp[0], rp[1])
        t = terms(body)
        return None if t is None else ('addFloor0', t)
    if k == 'min':
        x, y = e[1], e[2]
        body = y if is_zero_lit(x) else (x if is_zero_lit(y) else None)
        if body is not None:
            t = terms(body)
            return None if t is None else ('addCap0', t)
        rp = rate_product(y)
        if x[0] == 'read' and rp is not None:
            return ('mulRateCap', rp[0], rp[1], x[1])
        rp = rate_product(x)
        if rp is not None and y[0] == 'read':
            return ('mulRateCap', rp[0], rp[1], y[1])
        return None
    rp = rate_product(e)
    if rp is not None:
        return ('mulRate', rp[0], rp[1])
    if is_zero_lit(e):
        return ('blank',)
    t = terms(e)
    return None if t is None else ('add', t)


def mk_cond(op, a, b, t, e):
    if op == 'gt':
        return ('condGt', a, b, t, e)
    if op == 'lt':
        return ('condGt', b, a, t, e)
    if op == 'le':
        return ('condGt', a, b, e, t)
    return ('condGt', b, a, e, t)


def infer(a):
    if a[0] == 'iteCmp':
        _, op, x, y, t, e = a
        if x[0] != 'read' or y[0] != 'read':
            return None
        ti, ei = infer(t), infer(e)
        return None if ti is None or ei is None else mk_cond(op, x[1], y[1], ti, ei)
    if a[0] == 'guard':
        ti, ei = infer(a[1]), infer(a[2])
        if ti is None or ei is None:
            return None
        if ti == ('decline',):
            return ei
        if ei == ('decline',):
            return ti
        if ei == ('blank',):
            return ('guarded', ti)
        return ('either', ti, ei)
    return infer_flat(a)


def same_perm(xs, ys):
    return sorted(xs) == sorted(ys)


def same_pair(a, b, c, d):
    return (a == c and b == d) or (a == d and b == c)


def rate_is(hexbits, num, den):
    if den == 0:
        return False
    try:
        x = num / den                     # CPython int / int: correctly rounded (== F64.ofScaled false (num * one) den)
    except OverflowError:
        return False
    return struct.pack('>d', x).hex() == hexbits


def is_blank_or_decline(s):
    return s[0] in ('blank', 'decline')


def as_floor(i):
    if i[0] == 'subFloor0':
        return i[1], i[2]
    if i[0] == 'cond' and i[4][0] == 'sub' and i[5] == ('blank',):
        c, x, y, (_, a, b) = i[1], i[2], i[3], i[4]
        if c in ('gt', 'ge'):
            return (a, b) if (x == a and y == b) else None
        return (a, b) if (x == b and y == a) else None
    return None


def agrees(s, i):
    k = s[0]
    if k == 'decline':
        return True
    if k == 'guarded':
        if i[0] == 'cond' and i[5] == ('blank',) and agrees(s[1], i[4]):
            return True
        return agrees(s[1], i)
    if k == 'either':
        if not agrees(s[1], i):
            return False
        return agrees(s[2], i) or (i[0] == 'sub' and agrees(s[2], ('carry', i[1])))
    if k == 'blank':
        return i == ('blank',)
    if k == 'carry':
        return i[0] == 'carry' and s[1] == i[1]
    if k == 'add':
        if i[0] == 'add':
            return same_perm(s[1], i[1])
        return i[0] == 'carry' and len(s[1]) == 1 and s[1][0] == i[1]
    if k in ('addFloor0', 'addCap0'):
        return i[0] == k and same_perm(s[1], i[1])
    if k == 'sub':
        return i[0] == 'sub' and s[1] == i[1] and s[2] == i[2]
    if k == 'subFloor0':
        f = as_floor(i)
        return f is not None and f == (s[1], s[2])
    if k in ('smaller', 'larger', 'mul'):
        return i[0] == k and same_pair(s[1], s[2], i[1], i[2])
    if k in ('mulRate', 'mulRateFloor0'):
        return i[0] == k and s[1] == i[1] and rate_is(s[2], i[2], i[3])
    if k == 'mulRateCap':
        return i[0] == k and s[1] == i[1] and s[3] == i[4] and rate_is(s[2], i[2], i[3])
    if k == 'condGt':
        _, x, y, t, e = s
        f = as_floor(i)
        if f is not None:
            a, b = f
            if (x == b and y == a and is_blank_or_decline(t) and agrees(e, ('sub', a, b))) or \
               (x == a and y == b and agrees(t, ('sub', a, b)) and is_blank_or_decline(e)):
                return True
        if i[0] == 'cond':
            _, c, a, b, ti, ei = i
            if c == 'gt' and x == a and y == b and agrees(t, ti) and agrees(e, ei):
                return True
            if c == 'lt' and x == b and y == a and agrees(t, ti) and agrees(e, ei):
                return True
            if c == 'le' and x == a and y == b and agrees(t, ei) and agrees(e, ti):
                return True
            if c == 'ge' and x == b and y == a and agrees(t, ei) and agrees(e, ti):
                return True
        return (t == ('decline',) and agrees(e, i)) or (e == ('decline',) and agrees(t, i))
    return False


def drop_blank_shape(blank, s):
    k = s[0]
    if k in ('add', 'addFloor0', 'addCap0'):
        return (k, [n for n in s[1] if n not in blank])
    if k == 'condGt':
        return ('condGt', s[1], s[2], drop_blank_shape(blank, s[3]), drop_blank_shape(blank, s[4]))
    if k == 'guarded':
        return ('guarded', drop_blank_shape(blank, s[1]))
    if k == 'either':
        return ('either', drop_blank_shape(blank, s[1]), drop_blank_shape(blank, s[2]))
    return s


def drop_blank_instr(blank, i):
    k = i[0]
    if k in ('add', 'addFloor0', 'addCap0'):
        return (k, [n for n in i[1] if n not in blank])
    if k == 'cond':
        return ('cond', i[1], i[2], i[3], drop_blank_instr(blank, i[4]), drop_blank_instr(blank, i[5]))
    return i


def _names(t):
    out = set()
    if isinstance(t, (list, tuple)):
        for x in t:
            out |= _names(x)
    elif isinstance(t, str):
        out.add(t)
    return out


# ---- mirror of the certified fragment (Spec.certified) -------------------------------------------------------
def is_value(a):
    k = a[0]
    if k in ('read', 'lit'):
        return True
    if k in ('add', 'sub', 'mul', 'max', 'min'):
        return is_value(a[1]) and is_value(a[2])
    return False


def is_result(a):
    if a[0] == 'none':
        return True
    if a[0] == 'iteCmp':
        return is_value(a[2]) and is_value(a[3]) and is_result(a[4]) and is_result(a[5])
    return is_value(a)


def chain_names(a):
    if a[0] == 'read':
        return [a[1]]
    if a[0] == 'add' and a[2][0] == 'read':
        ns = chain_names(a[1])
        return None if ns is None else ns + [a[2][1]]
    return None


def chain_is(b, ls):
    ns = chain_names(b)
    return ns is not None and len(ns) <= 20 and same_perm(ns, ls)


def is_zero_a(a):
    return a[0] == 'lit' and a[1] == '0000000000000000'


def is_blank_a(a):
    return a[0] == 'none' or is_zero_a(a)


def floor_body(x, y):
    return y if is_zero_a(x) else (x if is_zero_a(y) else None)


def is_sub_of(a, p, q):
    return a[0] == 'sub' and a[1][0] == 'read' and a[2][0] == 'read' and a[1][1] == p and a[2][1] == q


def certifies_flat(a, i):
    k = i[0]
    if k == 'blank':
        return is_blank_a(a)
    if k == 'carry':
        return a[0] == 'read' and a[1] == i[1]
    if k == 'sub':
        return is_sub_of(a, i[1], i[2])
    if k in ('smaller', 'larger'):
        want = 'min' if k == 'smaller' else 'max'
        return a[0] == want and a[1][0] == 'read' and a[2][0] == 'read' and same_pair(a[1][1], a[2][1], i[1], i[2])
    if k in ('subFloor0', 'addFloor0'):
        if a[0] != 'max':
            return False
        b = floor_body(a[1], a[2])
        if b is None:
            return False
        return is_sub_of(b, i[1], i[2]) if k == 'subFloor0' else chain_is(b, i[1])
    if k == 'addCap0':
        if a[0] != 'min':
            return False
        b = floor_body(a[1], a[2])
        return b is not None and chain_is(b, i[1])
    if k == 'add':
        return chain_is(a, i[1])
    return False


FLIP = {'lt': 'gt', 'gt': 'lt', 'le': 'ge', 'ge': 'le'}
NEG = {'lt': 'ge', 'ge': 'lt', 'gt': 'le', 'le': 'gt'}


def same_test(op, x, y, c, p, q):
    return (op == c and x == p and y == q) or (op == FLIP[c] and x == q and y == p)


def tests_above(op, x, y, p, q):
    g = op in ('gt', 'ge')
    return (g and x == p and y == q) or ((not g) and x == q and y == p)


def certifies(a, i):
    if a[0] == 'iteCmp' and a[2][0] == 'read' and a[3][0] == 'read':
        _, op, (_, x), (_, y), t, e = a
        if i[0] == 'cond':
            _, c, p, q, ti, ei = i
            if same_test(op, x, y, c, p, q) and certifies(t, ti) and certifies(e, ei):
                return True
            if same_test(op, x, y, NEG[c], p, q) and certifies(t, ei) and certifies(e, ti):
                return True
        f = as_floor(i)
        if f is not None:
            p, q = f
            if tests_above(op, x, y, p, q) and is_sub_of(t, p, q) and is_blank_a(e):
                return True
            if tests_above(op, x, y, q, p) and is_blank_a(t) and is_sub_of(e, p, q):
                return True
        return False
    return certifies_flat(a, i)


def certified(line, ins):
    if line['kind'] != ['float', 2] and tuple(line['kind']) != ('float', 2):
        return False
    body = line['body']
    if len(body) != 1 or body[0][0] != 'ret':
        return False
    a = to_arith(body[0][1])
    return a is not None and is_result(a) and certifies(a, ins)


def line_shape(line):
    """(shape | None, reason when None)"""
    if line['kind'][0] != 'float':
        return None, f'not a FloatField ({line["kind"][0]})'
    body = line['body']
    if len(body) != 1 or body[0][0] != 'ret':
        return None, 'the line function is not a single return expression (statements, helper functions)'
    a = to_arith(body[0][1])
    if a is None:
        return None, 'the expression is outside the arithmetic fragment (inputs, thresholds, helper calls, other builtins)'
    s = infer(a)
    if s is None:
        return None, 'arithmetic, but not one of the canonical shapes'
    return s, None


# --------------------------------------------------------------------------------------------------
# instructions: table (json) -> mirror tuples and Lean terms
# --------------------------------------------------------------------------------------------------
class NoLeanInstr(Exception):
    pass


def rate_frac(s):
    f = Fraction(s)
    if f < 0:
        raise NoLeanInstr('negative rate')
    return f.numerator, f.denominator


def instr_of(op, args):
    def name(x):
        if not isinstance(x, str):
            raise NoLeanInstr('constant operand (an amount printed on the form, possibly by filing status)')
        return x
    if op == 'blank':
        return ('blank',)
    if op == 'carry':
        return ('carry', name(args[0]))
    if op in ('add', 'addfloor0', 'addcap0'):
        return ({'add': 'add', 'addfloor0': 'addFloor0', 'addcap0': 'addCap0'}[op], [name(a) for a in args])
    if op in ('sub', 'subfloor0', 'smaller', 'larger', 'mul'):
        return ({'sub': 'sub', 'subfloor0': 'subFloor0', 'smaller': 'smaller', 'larger': 'larger', 'mul': 'mul'}[op],
                name(args[0]), name(args[1]))
    if op in ('mulrate', 'mulratefloor0'):
        n, d = rate_frac(args[1])
        return ('mulRate' if op == 'mulrate' else 'mulRateFloor0', name(args[0]), n, d)
    if op == 'mulratecap':
        n, d = rate_frac(args[1])
        return ('mulRateCap', name(args[0]), n, d, name(args[2]))
    if op == 'ratiocap1':
        return ('ratioCap1', name(args[0]), name(args[1]))
    if op == 'cond':
        c = args[0]
        return ('cond', c['cmp'], name(c['a']), name(c['b']),
                instr_of(args[1]['op'], args[1].get('args', [])), instr_of(args[2]['op'], args[2].get('args', [])))
    raise NoLeanInstr(f'op {op}')


def lean_str(s):
    import translate
    return translate.lean_str(s)


def lean_instr(i):
    k = i[0]
    if k == 'blank':
        return '.blank'
    if k == 'carry':
        return f'(.carry {lean_str(i[1])})'
    if k in ('add', 'addFloor0', 'addCap0'):
        return f'(.{k} [{", ".join(lean_str(x) for x in i[1])}])'
    if k in ('sub', 'subFloor0', 'smaller', 'larger', 'mul', 'ratioCap1'):
        return f'(.{k} {lean_str(i[1])} {lean_str(i[2])})'
    if k in ('mulRate', 'mulRateFloor0'):
        return f'(.{k} {lean_str(i[1])} {i[2]} {i[3]})'
    if k == 'mulRateCap':
        return f'(.mulRateCap {lean_str(i[1])} {i[2]} {i[3]} {lean_str(i[4])})'
    if k == 'cond':
        return f'(.cond .{i[1]} {lean_str(i[2])} {lean_str(i[3])} {lean_instr(i[4])} {lean_instr(i[5])})'
    raise ValueError(i)


def show(t):
    """compact text of a shape / instruction tuple for witnesses"""
    if isinstance(t, (list, tuple)):
        if t and isinstance(t[0], str) and t[0] in ('lit',):
            return struct.unpack('>d', bytes.fromhex(t[1]))[0].__repr__()
        return '(' + ' '.join(show(x) for x in t) + ')' if isinstance(t, tuple) else '[' + ', '.join(show(x) for x in t) + ']'
    if isinstance(t, str) and re.fullmatch(r'[0-9a-f]{16}', t):
        return repr(struct.unpack('>d', bytes.fromhex(t))[0])
    return str(t)


def ident(s):
    import translate
    return translate.ident(s)


def comment_safe(s):
    s = str(s).replace('\n', ' ').replace('\r', ' ')
    s = s.replace('-/', '- /').replace('/-', '/ -')
    return s.encode('ascii', 'backslashreplace').decode('ascii')


# --------------------------------------------------------------------------------------------------
def generate(table, irs, out_dir):
    os.makedirs(out_dir, exist_ok=True)
    own = re.compile(r'^(C02_\d{4}\.lean|C02\.lean|c02_failed\.json|c02_obligations\.json)$')
    for fn in os.listdir(out_dir):
        if own.match(fn):
            os.remove(os.path.join(out_dir, fn))
    obligations, failed = [], []
    files = {}
    summary = {}
    for Y in YEARS:
        ir = irs.get(Y)
        if ir is None:
            continue
        classes = {c['name']: c for c in ir['classes']}
        always_blank = {}
        for cname, cc in classes.items():
            always_blank[cname] = {l['name'] for l in cc['lines'] if line_shape(l)[0] == ('blank',)}
        lines = [
            f'import HabuVerif.Spec.Instr',
            f'import HabuVerif.Gen.Catalogue{Y}',
            '/-!',
            f'# C02 obligations for tax year {Y}  (GENERATED by tools/gen_c02.py -- do not edit)',
            '',
            'One theorem per (line, instruction of the official form): the translated program of the line',
            '(`Gen/Forms*.lean`) has a canonical arithmetic shape and that shape agrees with the instruction',
            '(`Spec.matchesInstr`), or -- for code outside the arithmetic fragment -- `covered = false`.',
            '-/',
            'set_option autoImplicit false',
            'set_option maxRecDepth 100000',
            '',
            f'namespace HabuVerif.Gen.C02_{Y}',
            f'open HabuVerif HabuVerif.Dsl HabuVerif.Spec HabuVerif.Gen.Y{Y}',
            '',
        ]
        st = summary.setdefault(str(Y), {})
        used = set()
        for r in [x for x in table['instructions'] if x['year'] == Y]:
            form, line = r['form'], r['line']
            c = classes.get(form)
            fs = st.setdefault(form, {'instructions': 0, 'proved': 0, 'proved_guarded': 0, 'failed': 0, 'uncovered': 0})
            fs['instructions'] += 1
            base = f'c02_{Y}_{ident(form)}_{ident(line)}'
            oid = base
            k = 1
            while oid in used:
                k += 1
                oid = f'{base}_{k}'
            used.add(oid)
            rec = {'id': oid, 'property': 'C02', 'year': Y, 'form': form, 'line': line,
                   'instruction': {'op': r['op'], 'args': r['args']}, 'source': r['source'], 'text': r.get('text', '')[:200],
                   'module': f'HabuVerif.Gen.C02_{Y}'}
            if r.get('when'):
                rec['when'] = r['when']
            idx = None
            if c is not None:
                for n, l in enumerate(c['lines']):
                    if l['name'] == line:
                        idx = n
            if idx is None:
                rec.update(status='uncovered', reason='the translator has no program for this line')
                fs['uncovered'] += 1
                obligations.append(rec)
                continue
            ldef = f'c_{ident(form)}_l{idx}_{ident(line)}'
            l = c['lines'][idx]
            shape, why = line_shape(l)
            try:
                ins = instr_of(r['op'], r['args'])
            except NoLeanInstr as e:
                ins = None
                why_i = str(e)
            lines.append(f'/-- {comment_safe(form)} line {comment_safe(line)}: {comment_safe(r.get("text", "")[:160])}  [{comment_safe(r["source"][:120])}] -/')
            if shape is None:
                rec.update(status='uncovered', reason=why)
                fs['uncovered'] += 1
                lines.append(f'theorem {oid}_uncovered : covered {ldef} = false := by decide +kernel')
                rec['theorem'] = oid + '_uncovered'
            elif ins is None:
                rec.update(status='uncovered', reason='the instruction has no Lean form: ' + why_i, code_computes=show(shape))
                fs['uncovered'] += 1
                lines.append(f'theorem {oid}_covered : covered {ldef} = true := by decide +kernel')
                rec['theorem'] = oid + '_covered'
            else:
                ok = agrees(shape, ins)
                rec['code_computes'] = show(shape)
                if ok:
                    guarded = shape[0] in ('guarded', 'either')
                    rec.update(status='proved', guarded=guarded, theorem=oid)
                    fs['proved_guarded' if guarded else 'proved'] += 1
                    lines.append(f'theorem {oid} : matchesInstr {ldef} {lean_instr(ins)} = true := by decide +kernel')
                    if certified(l, ins):
                        # the narrow check for which Proofs/InstrSound.lean proves the cents-level statement
                        rec['certified'] = oid + '_certified'
                        fs['certified'] = fs.get('certified', 0) + 1
                        lines.append(f'theorem {oid}_certified : certified {ldef} {lean_instr(ins)} = true := by decide +kernel')
                elif agrees(drop_blank_shape(always_blank[form], shape), drop_blank_instr(always_blank[form], ins)):
                    dropped = sorted(n for n in always_blank[form]
                                     if n in json.dumps([shape, list(ins)]) and
                                     (n in _names(shape)) != (n in _names(ins)))
                    rec.update(status='proved', guarded=shape[0] == 'guarded', theorem=oid, mod_blank=dropped,
                               note='proved modulo operands whose own code can only produce a blank: ' + ', '.join(dropped))
                    fs['proved_mod_blank'] = fs.get('proved_mod_blank', 0) + 1
                    lines.append(f'-- modulo always-blank operands {comment_safe(dropped)}: code {comment_safe(show(shape))}')
                    lines.append(f'theorem {oid} : matchesInstrModBlank c_{ident(form)} {ldef} {lean_instr(ins)} = true := by decide +kernel')
                else:
                    w = {'year': Y, 'form': form, 'line': line, 'code_computes': show(shape), 'form_says': show(ins),
                         'text': r.get('text', '')[:200], 'source': r['source']}
                    rec.update(status='failed', theorem=oid, witness=w)
                    fs['failed'] += 1
                    lines.append(f'-- FAILED-OBLIGATION {oid} {comment_safe(json.dumps(w, sort_keys=True))}')
                    lines.append(f'theorem {oid} : matchesInstr {ldef} {lean_instr(ins)} = false := by decide +kernel')
                    failed.append({'id': oid, 'property': 'C02', 'year': Y, 'form': form, 'line': line,
                                   'check': 'the code of the line has the shape the official instruction describes',
                                   'witnesses': [w]})
            lines.append('')
            obligations.append(rec)
        lines.append(f'end HabuVerif.Gen.C02_{Y}')
        lines.append('')
        files[f'C02_{Y}.lean'] = '\n'.join(lines)
    tot = {'instructions': 0, 'proved': 0, 'proved_guarded': 0, 'proved_mod_blank': 0, 'certified': 0, 'failed': 0, 'uncovered': 0}
    for Y, d in summary.items():
        for f, x in d.items():
            for k in tot:
                tot[k] += x.get(k, 0)
    files['C02.lean'] = '\n'.join([f'import HabuVerif.Gen.C02_{Y}' for Y in YEARS if Y in irs] + [
        '/-!', '# C02 generated obligations (GENERATED by tools/gen_c02.py -- do not edit)', '',
        f'{tot["instructions"]} instructions: {tot["proved"]} proved, {tot["proved_mod_blank"]} proved modulo always-blank operands,',
        f'{tot["certified"]} of the proved ones also `certified` (cents-level soundness: Proofs/InstrSound.lean),',
        f'{tot["proved_guarded"]} proved under a guard',
        f'(the line is what the form says or blank), {tot["failed"]} false on this tree (proved negations, see',
        f'`c02_failed.json`), {tot["uncovered"]} uncovered (code outside the arithmetic fragment, see `c02_obligations.json`).',
        '-/', ''])
    files['c02_failed.json'] = json.dumps(failed, indent=1, sort_keys=True) + '\n'
    files['c02_obligations.json'] = json.dumps({'summary': summary, 'totals': tot, 'obligations': obligations},
                                               indent=1, sort_keys=True) + '\n'
    for fn, text in files.items():
        with open(os.path.join(out_dir, fn), 'w') as fh:
            fh.write(text)
    return obligations, failed, summary, tot


def load(table_path=None):
    import translate
    if table_path:
        with open(table_path) as fh:
            table = json.load(fh)
    else:
        import c02_instructions
        table = c02_instructions.build()
    irs = {}
    for Y in YEARS:
        ir, _rep = translate.translate_year(Y)
        irs[Y] = json.loads(json.dumps(ir))
    return table, irs


def main(argv=None):
    ap = argparse.ArgumentParser()
    ap.add_argument('--table')
    ap.add_argument('--out-dir', default='/verif/lean/HabuVerif/Gen')
    ap.add_argument('--quiet', action='store_true')
    a = ap.parse_args(argv)
    table, irs = load(a.table)
    obligations, failed, summary, tot = generate(table, irs, a.out_dir)
    if not a.quiet:
        print(json.dumps({'totals': tot, 'failed': [f['id'] for f in failed],
                          'per_year': {Y: {k: sum(x.get(k, 0) for x in d.values()) for k in tot} for Y, d in summary.items()}},
                         indent=1))
    return 0


if __name__ == '__main__':
    sys.exit(main())
