#!/venv/bin/python
"""Translator: habutax form definitions (Python) -> terms of the Lean DSL (HabuVerif.Dsl).

For every form class of a tax year the class is INSTANTIATED (for instance-taking forms with a
sample of instances); inputs, fields, thresholds are read off the live objects; every field's value
function is located in its source file with `ast` (by code position), and translated by a small
partial evaluator: names are resolved against the live function object (closure cells, defaults,
globals, builtins), attribute chains against the live objects (a failing `getattr` becomes an
explicit `raise AttributeError` node, so the model has the error the code has), helper functions
are inlined.  A construct outside the DSL becomes `unsupported "<what>"` for that line only.

Output: an intermediate representation (nested lists, JSON-able) with two back ends:
  * Lean source  (`emit_lean`)  -> lean/HabuVerif/Gen/Forms<year>_<k>.lean, Catalogue<year>.lean,
    TaxTable<year>.lean and Gen/translate_report.json
  * wire format  (`wire_*`)     -> prefix-coded token lines read by `HabuVerif/Drv/RealDrv.lean`
    (used by the `dsl` correspondence stream for generated toy forms).

The translator is validated, not trusted: both streams of tools/harness (dsl_stream, real_stream)
compare the evaluation of its output with the real Python.
"""
import ast
import builtins
import collections
import enum as pyenum
import inspect
import json
import math
import os
import struct
import sys
import types
import warnings

REPO = os.environ.get('HABUTAX_REPO', '/repo')
sys.dont_write_bytecode = True
if REPO not in sys.path:
    sys.path.insert(0, REPO)
warnings.simplefilter('ignore', SyntaxWarning)

MAX_INLINE_LEAVES = 64        # larger constant containers become globals
MAX_HELPER_DEPTH = 12


# ------------------------------------------------------------------------------------ AST lookup

_file_cache = {}


def _file_index(filename):
    if filename not in _file_cache:
        with open(filename, encoding='utf-8') as f:
            src = f.read()
        tree = ast.parse(src, filename)
        idx = collections.defaultdict(list)
        for n in ast.walk(tree):
            if isinstance(n, (ast.FunctionDef, ast.Lambda)):
                idx[n.lineno].append(n)
        _file_cache[filename] = (tree, idx)
    return _file_cache[filename]


def find_node(func):
    """AST node (FunctionDef / Lambda) of a live function object, by file, line and columns."""
    code = func.__code__
    try:
        _tree, idx = _file_index(code.co_filename)
    except (OSError, SyntaxError):
        return None
    is_lambda = code.co_name == '<lambda>'
    cands = [n for n in idx.get(code.co_firstlineno, []) if isinstance(n, ast.Lambda) == is_lambda]
    if not is_lambda:
        cands = [n for n in cands if n.name == code.co_name]
    if len(cands) == 1:
        return cands[0]
    pos = [p for p in code.co_positions() if p[0] is not None and p[2] is not None]
    ok = []
    for n in cands:
        if all((n.lineno, n.col_offset) <= (p[0], p[2]) and (p[1], p[3]) <= (n.end_lineno, n.end_col_offset)
               for p in pos):
            ok.append(n)
    if ok:
        ok.sort(key=lambda n: (n.end_lineno - n.lineno, n.end_col_offset - n.col_offset))
        return ok[0]
    return None


# ------------------------------------------------------------------------------------ values

def f64_bits(x):
    return struct.unpack('>Q', struct.pack('>d', x))[0]


class Unreifiable(Exception):
    pass


# marker objects for the two accessors
class _Accessor:
    def __init__(self, which):
        self.which = which

    def __repr__(self):
        return f'<accessor {self.which}>'


class _LoadedForm:
    """result of `field.form(name)`: a form looked up in the solver at run time"""
    def __init__(self, name_ir):
        self.name_ir = name_ir


S = collections.namedtuple('S', 'obj')      # static: a live Python object
D = collections.namedtuple('D', 'ir')       # dynamic: an IR expression


def count_leaves(v):
    if isinstance(v, (tuple, list)):
        return 1 + sum(count_leaves(x) for x in v)
    if isinstance(v, dict):
        return 1 + sum(count_leaves(x) for x in v.values()) + len(v)
    return 1


MODEL_TYPES = (str, int, float, bool, list, tuple, dict, type(None))


def attr_of_some_model_type(name):
    """is `name` an attribute of any Python type a DSL value can have (enum members included)?"""
    if any(hasattr(t, name) for t in MODEL_TYPES):
        return True
    if name in ('name', 'value') or name.startswith('_'):
        return True
    return False


class Translator:
    def __init__(self, year, classes, habutax_enum_module=None, sample_instances=None):
        self.year = year
        self.classes = list(classes)
        self.enum_mod = habutax_enum_module
        self.enum_ids = {}          # id(enum class) -> identifier
        self.enum_members = {}      # identifier -> [member names]
        self.globals = {}           # global name -> value IR
        self.report = {'year': year, 'classes': [], 'unsupported': [], 'attrErrors': [],
                       'notes': [], 'lines': 0, 'distinct_functions': 0}
        self.sample_instances = sample_instances
        self._fn_seen = set()
        self._cur_class = None
        self._cur_line = None

    # -------------------------------------------------------------------------------- enums
    def enum_id(self, ecls):
        key = id(ecls)
        if key in self.enum_ids:
            return self.enum_ids[key][0]       # (the class object is kept alive: ids are not reused)
        ident = None
        if self.enum_mod is not None:
            for k, v in vars(self.enum_mod).items():
                if v is ecls:
                    ident = k
                    break
        members = list(ecls.__members__.keys())
        if ident is None:
            # an enum created inside a form's __init__ is a NEW class on every instantiation; all
            # instantiations of one form class are identified (same name, same members)
            owner = self._cur_class.form_name if self._cur_class is not None else '?'
            ident = f'{owner}/{ecls.__name__}'
            if ident in self.enum_members and self.enum_members[ident] != members:
                ident = f'{ident}#{len(self.enum_members)}'
        self.enum_ids[key] = (ident, ecls)
        if ident in self.enum_members and self.enum_members[ident] != members:
            self.note(f'enum identifier clash for {ident}')
        self.enum_members[ident] = members
        return ident

    # -------------------------------------------------------------------------------- reporting
    def note(self, text):
        self.report['notes'].append(text)

    def where(self, fn, node):
        try:
            fname = os.path.relpath(fn.__code__.co_filename, REPO)
        except Exception:  # noqa: BLE001
            fname = '?'
        return f'{fname}:{getattr(node, "lineno", 0)}:{getattr(node, "col_offset", 0)}'

    def unsupported(self, fn, node, what):
        loc = self.where(fn, node)
        self.report['unsupported'].append({
            'where': loc, 'construct': what,
            'class': getattr(self._cur_class, 'form_name', None), 'line': self._cur_line})
        return ['unsupported', f'{what} at {loc}']

    def attr_error(self, fn, node, what):
        loc = self.where(fn, node)
        rec = {'where': loc, 'attribute': what,
               'class': getattr(self._cur_class, 'form_name', None), 'line': self._cur_line}
        if rec not in self.report['attrErrors']:
            self.report['attrErrors'].append(rec)
        return ['raise', 'attributeError']

    # -------------------------------------------------------------------------------- constants
    def reify(self, obj, allow_global_name=None):
        """live constant -> value IR"""
        if obj is None:
            return ['none']
        if isinstance(obj, bool):
            return ['bool', obj]
        if isinstance(obj, pyenum.Enum):
            return ['enumv', self.enum_id(type(obj)), obj.name]
        if type(obj) is int:
            return ['int', obj]
        if type(obj) is float:
            return ['float', '%016x' % f64_bits(obj), repr(obj)]
        if type(obj) is str:
            return ['str', obj]
        if type(obj) is tuple:
            return ['tuple', [self.reify(x) for x in obj]]
        if type(obj) is list:
            return ['list', [self.reify(x) for x in obj]]
        if type(obj) is dict:
            ks = []
            for k in obj.keys():
                if not (k is None or type(k) in (bool, int, float, str) or isinstance(k, pyenum.Enum)):
                    raise Unreifiable(f'dict key of type {type(k).__name__}')
                ks.append(self.reify(k))
            return ['dict', ks, [self.reify(x) for x in obj.values()]]
        raise Unreifiable(f'object of type {type(obj).__name__}')

    def const_expr(self, fn, node, obj, global_name=None):
        """expression IR for a live constant"""
        try:
            if global_name is not None and isinstance(obj, (tuple, list)) and count_leaves(obj) > MAX_INLINE_LEAVES:
                gname = f'{fn.__module__.split(".")[-1]}.{global_name}'
                if gname not in self.globals:
                    self.globals[gname] = self.reify(obj)
                return ['global', gname]
            return ['const', self.reify(obj)]
        except Unreifiable as e:
            return self.unsupported(fn, node, f'static value: {e}')

    # -------------------------------------------------------------------------------- scopes
    class Scope:
        def __init__(self, fn, static, local_names, field):
            self.fn = fn                  # live function object (for free variables)
            self.static = dict(static)    # name -> S(...)
            self.locals = set(local_names)
            self.field = field            # the live field whose line is being translated
            self.depth = 0

        def child(self, extra_locals):
            c = Translator.Scope(self.fn, {k: v for k, v in self.static.items() if k not in extra_locals},
                                 self.locals | set(extra_locals), self.field)
            c.depth = self.depth
            return c

    @staticmethod
    def bound_names(node):
        """names bound in a function body (Python: these are local for the whole body);
        comprehension targets are local to the comprehension and not included"""
        names = set()

        def visit(n, top):
            if isinstance(n, (ast.Lambda, ast.FunctionDef, ast.ListComp, ast.GeneratorExp,
                              ast.SetComp, ast.DictComp)) and not top:
                if isinstance(n, ast.FunctionDef):
                    names.add(n.name)
                if isinstance(n, ast.FunctionDef) or isinstance(n, ast.Lambda):
                    return
                # comprehension: only the first iterable is evaluated in the enclosing scope, and a
                # walrus could bind outside; neither binds a name here
                return
            if isinstance(n, ast.Name) and isinstance(n.ctx, (ast.Store, ast.Del)):
                names.add(n.id)
            for c in ast.iter_child_nodes(n):
                visit(c, False)
        body = node.body if isinstance(node.body, list) else [node.body]
        for b in body:
            visit(b, False)
        return names

    def resolve_free(self, fn, name):
        code = fn.__code__
        if name in code.co_freevars:
            try:
                return True, fn.__closure__[code.co_freevars.index(name)].cell_contents
            except ValueError:
                return False, None      # empty cell
        if name in fn.__globals__:
            return True, fn.__globals__[name]
        if hasattr(builtins, name):
            return True, getattr(builtins, name)
        return False, None

    # -------------------------------------------------------------------------------- expressions
    def ev(self, node, sc):
        """S(live object) or D(expression IR)"""
        fn = sc.fn
        if isinstance(node, ast.Constant):
            v = node.value
            if v is None or type(v) in (bool, int, float, str):
                return D(['const', self.reify(v)])
            return D(self.unsupported(fn, node, f'constant of type {type(v).__name__}'))
        if isinstance(node, ast.Name):
            if node.id in sc.static:
                return sc.static[node.id]
            if node.id in sc.locals:
                return D(['var', node.id])
            found, obj = self.resolve_free(fn, node.id)
            if not found:
                return D(['raise', 'nameError'])
            return S(obj)
        if isinstance(node, ast.Attribute):
            base = self.ev(node.value, sc)
            if isinstance(base, S):
                obj = base.obj
                if isinstance(obj, (_Accessor, _LoadedForm)):
                    return S(('attr-of', obj, node.attr))
                try:
                    return S(getattr(obj, node.attr))
                except AttributeError:
                    return D(self.attr_error(fn, node, ast.unparse(node)))
            # attribute of a run-time value (method calls are handled at the Call)
            if attr_of_some_model_type(node.attr):
                return D(self.unsupported(fn, node, f'attribute .{node.attr} of a run-time value'))
            return D(['attr', base.ir, node.attr])
        if isinstance(node, ast.JoinedStr):
            parts = []
            for p in node.values:
                if isinstance(p, ast.Constant) and isinstance(p.value, str):
                    parts.append(['const', ['str', p.value]])
                elif isinstance(p, ast.FormattedValue):
                    if p.conversion != -1 or p.format_spec is not None:
                        return D(self.unsupported(fn, p, 'f-string conversion / format spec'))
                    parts.append(self.dyn(p.value, sc))
                else:
                    return D(self.unsupported(fn, p, 'f-string part'))
            return D(['fstr', parts])
        if isinstance(node, ast.BinOp):
            ops = {ast.Add: 'add', ast.Sub: 'sub', ast.Mult: 'mul', ast.Div: 'div'}
            if type(node.op) not in ops:
                return D(self.unsupported(fn, node, f'operator {type(node.op).__name__}'))
            return D(['bin', ops[type(node.op)], self.dyn(node.left, sc), self.dyn(node.right, sc)])
        if isinstance(node, ast.UnaryOp):
            ops = {ast.USub: 'neg', ast.UAdd: 'pos', ast.Not: 'not'}
            if type(node.op) not in ops:
                return D(self.unsupported(fn, node, f'operator {type(node.op).__name__}'))
            return D([ops[type(node.op)], self.dyn(node.operand, sc)])
        if isinstance(node, ast.BoolOp):
            op = 'and' if isinstance(node.op, ast.And) else 'or'
            vals = [self.dyn(x, sc) for x in node.values]
            ir = vals[-1]
            for x in reversed(vals[:-1]):
                ir = [op, x, ir]
            return D(ir)
        if isinstance(node, ast.Compare):
            ops = {ast.Eq: 'eq', ast.NotEq: 'ne', ast.Lt: 'lt', ast.LtE: 'le', ast.Gt: 'gt', ast.GtE: 'ge',
                   ast.In: 'in_', ast.NotIn: 'notIn', ast.Is: 'is_', ast.IsNot: 'isNot'}
            return D(['cmp', self.dyn(node.left, sc), [ops[type(o)] for o in node.ops],
                      [self.dyn(c, sc) for c in node.comparators]])
        if isinstance(node, ast.IfExp):
            return D(['ite', self.dyn(node.test, sc), self.dyn(node.body, sc), self.dyn(node.orelse, sc)])
        if isinstance(node, ast.Tuple):
            if any(isinstance(e, ast.Starred) for e in node.elts):
                return D(self.unsupported(fn, node, 'starred element'))
            return D(['tuple', [self.dyn(e, sc) for e in node.elts]])
        if isinstance(node, ast.List):
            if any(isinstance(e, ast.Starred) for e in node.elts):
                return D(self.unsupported(fn, node, 'starred element'))
            return D(['list', [self.dyn(e, sc) for e in node.elts]])
        if isinstance(node, ast.Dict):
            ks = []
            for k in node.keys:
                if not (isinstance(k, ast.Constant) and (k.value is None or type(k.value) in (bool, int, float, str))):
                    return D(self.unsupported(fn, node, 'dict literal with a non-constant key'))
                ks.append(self.reify(k.value))
            # a repeated key keeps its first position and takes the last value: not modelled
            if len(set(json.dumps(k) for k in ks)) != len(ks):
                return D(self.unsupported(fn, node, 'dict literal with repeated keys'))
            return D(['dict', ks, [self.dyn(v, sc) for v in node.values]])
        if isinstance(node, ast.Subscript):
            return self.ev_subscript(node, sc)
        if isinstance(node, ast.Call):
            return self.ev_call(node, sc)
        if isinstance(node, ast.ListComp):
            return D(self.comprehension('listComp', node, sc))
        if isinstance(node, ast.GeneratorExp):
            return D(self.unsupported(fn, node, 'generator expression outside sum(...)'))
        return D(self.unsupported(fn, node, type(node).__name__))

    def dyn(self, node, sc):
        """expression IR of a node (static results are turned into constants)"""
        r = self.ev(node, sc)
        if isinstance(r, D):
            return r.ir
        return self.static_to_ir(r.obj, node, sc)

    def static_to_ir(self, obj, node, sc):
        gname = node.id if isinstance(node, ast.Name) else None
        if isinstance(obj, tuple) and len(obj) == 3 and obj[0] == 'attr-of':
            return self.unsupported(sc.fn, node, f'attribute {obj[2]} of an accessor / loaded form')
        return self.const_expr(sc.fn, node, obj, gname)

    def comprehension(self, kind, node, sc):
        fn = sc.fn
        if len(node.generators) != 1:
            return self.unsupported(fn, node, 'comprehension with several for clauses')
        g = node.generators[0]
        if g.is_async:
            return self.unsupported(fn, node, 'async comprehension')
        targets = self.targets(g.target)
        if targets is None:
            return self.unsupported(fn, node, 'comprehension target')
        it = self.iter_expr(g.iter, sc)
        inner = sc.child(targets)
        conds = [self.dyn(c, inner) for c in g.ifs]
        elt = self.dyn(node.elt, inner)
        return [kind, elt, targets, it, conds]

    @staticmethod
    def targets(t):
        if isinstance(t, ast.Name):
            return [t.id]
        if isinstance(t, ast.Tuple) and all(isinstance(e, ast.Name) for e in t.elts) and len(t.elts) >= 2:
            return [e.id for e in t.elts]
        return None

    def iter_expr(self, node, sc):
        """iterable of a for / comprehension: `range(...)` is allowed here (it is a list in the model)"""
        if isinstance(node, ast.Call) and not node.keywords:
            f = self.ev(node.func, sc)
            if isinstance(f, S) and f.obj is builtins.range:
                return ['call', 'range', [self.dyn(a, sc) for a in node.args]]
        return self.dyn(node, sc)

    def ev_subscript(self, node, sc):
        fn = sc.fn
        base = self.ev(node.value, sc)
        if isinstance(node.slice, ast.Slice):
            sl = node.slice
            if sl.step is not None:
                return D(self.unsupported(fn, node, 'slice with a step'))
            if isinstance(base, S) and isinstance(base.obj, (_Accessor, _LoadedForm)):
                return D(self.unsupported(fn, node, 'slice of an accessor'))
            b = base.ir if isinstance(base, D) else self.static_to_ir(base.obj, node.value, sc)
            lo = self.dyn(sl.lower, sc) if sl.lower is not None else ['const', ['none']]
            hi = self.dyn(sl.upper, sc) if sl.upper is not None else ['const', ['none']]
            return D(['slice', b, lo, hi])
        if isinstance(base, S):
            obj = base.obj
            if isinstance(obj, _Accessor):
                return D(['readI' if obj.which == 'i' else 'readV', self.dyn(node.slice, sc)])
            if isinstance(obj, type) and issubclass(obj, pyenum.Enum):
                idx = self.ev(node.slice, sc)
                if isinstance(idx, D) and idx.ir[0] == 'const' and idx.ir[1][0] == 'str':
                    try:
                        return S(obj[idx.ir[1][1]])
                    except KeyError:
                        return D(['raise', 'keyError'])
                return D(self.unsupported(fn, node, 'enum class subscript with a run-time key'))
            b = self.static_to_ir(obj, node.value, sc)
            return D(['index', b, self.dyn(node.slice, sc)])
        return D(['index', base.ir, self.dyn(node.slice, sc)])

    # ---- calls
    def call_args(self, node, sc, names):
        """positional + keyword arguments mapped onto parameter names; None if they do not fit"""
        if any(isinstance(a, ast.Starred) for a in node.args) or any(k.arg is None for k in node.keywords):
            return None
        if len(node.args) > len(names):
            return None
        out = {}
        for n, a in zip(names, node.args):
            out[n] = a
        for k in node.keywords:
            if k.arg not in names or k.arg in out:
                return None
            out[k.arg] = k.value
        return out

    BUILTINS = {builtins.sum: 'sum', builtins.min: 'min', builtins.max: 'max', builtins.float: 'float',
                builtins.str: 'str', builtins.len: 'len', builtins.round: 'round', math.ceil: 'ceil',
                builtins.list: 'list'}
    METHODS = ('upper', 'lower', 'strip', 'split', 'join')

    def ev_call(self, node, sc):
        fn = sc.fn
        import habutax.fields as hfields
        import habutax.form as hform
        # method call on a run-time value?
        if isinstance(node.func, ast.Attribute):
            base = self.ev(node.func.value, sc)
            if isinstance(base, D) or (isinstance(base, S) and type(base.obj) is str):
                b = base.ir if isinstance(base, D) else ['const', ['str', base.obj]]
                name = node.func.attr
                if name in self.METHODS:
                    if node.keywords or any(isinstance(a, ast.Starred) for a in node.args):
                        return D(self.unsupported(fn, node, f'keyword arguments to .{name}()'))
                    return D(['method', name, b, [self.dyn(a, sc) for a in node.args]])
                if not attr_of_some_model_type(name):
                    return D(['attrFail', b])
                return D(self.unsupported(fn, node, f'method .{name}()'))
            f = self.ev(node.func, sc)
        else:
            f = self.ev(node.func, sc)
        if isinstance(f, D):
            if f.ir[0] == 'raise':
                return f            # the callee expression itself fails (s.not_implmented)
            return D(self.unsupported(fn, node, 'call of a run-time value'))
        obj = f.obj
        # builtins
        try:
            bname = self.BUILTINS.get(obj)
        except TypeError:
            bname = None
        if bname is not None:
            if node.keywords or any(isinstance(a, ast.Starred) for a in node.args):
                return D(self.unsupported(fn, node, f'keyword arguments to {bname}()'))
            if bname == 'sum' and len(node.args) == 1 and isinstance(node.args[0], ast.GeneratorExp):
                return D(self.comprehension('sumGen', node.args[0], sc))
            if bname == 'list' and len(node.args) == 1:
                return D(['call', 'list', [self.iter_expr(node.args[0], sc)]])
            return D(['call', bname, [self.dyn(a, sc) for a in node.args]])
        if obj is builtins.range:
            return D(self.unsupported(fn, node, 'range(...) outside an iteration'))
        # bound methods of the framework
        if isinstance(obj, types.MethodType):
            func, owner = obj.__func__, obj.__self__
            if func is hfields.Field.not_implemented:
                if owner is not sc.field:
                    return D(self.unsupported(fn, node, 'not_implemented of another field'))
                args = self.call_args(node, sc, ['detailed'])
                if args is None:
                    return D(self.unsupported(fn, node, 'arguments of not_implemented'))
                return D(['notImpl', [self.dyn(a, sc) for a in args.values()]])
            if func is hfields.Field.threshold or func is hform.Form.threshold:
                form_ok = owner is sc.field or owner is sc.field._form
                args = self.call_args(node, sc, ['name', 'requested_key'])
                if not form_ok or args is None or 'name' not in args:
                    return D(self.unsupported(fn, node, 'threshold call'))
                has_key = 'requested_key' in args
                return D(['threshold', self.dyn(args['name'], sc), has_key,
                          self.dyn(args['requested_key'], sc) if has_key else ['const', ['none']]])
            if func is hfields.Field.form and owner is sc.field:
                args = self.call_args(node, sc, ['form_name'])
                if args is None:
                    return D(self.unsupported(fn, node, 'arguments of form()'))
                if 'form_name' not in args:
                    return S(owner._form)
                a = self.ev(args['form_name'], sc)
                if isinstance(a, S) and a.obj is None:
                    return S(owner._form)
                return S(_LoadedForm(a.ir if isinstance(a, D) else self.static_to_ir(a.obj, args['form_name'], sc)))
            if func is hform.Form.instance and owner is sc.field._form and not node.args and not node.keywords:
                return D(['instance'])
            return D(self.unsupported(fn, node, f'method {getattr(func, "__qualname__", func)}'))
        if isinstance(obj, tuple) and len(obj) == 3 and obj[0] == 'attr-of' and isinstance(obj[1], _LoadedForm):
            if obj[2] == 'threshold':
                args = self.call_args(node, sc, ['name', 'requested_key'])
                if args is None or 'name' not in args:
                    return D(self.unsupported(fn, node, 'threshold call'))
                has_key = 'requested_key' in args
                return D(['thresholdOf', obj[1].name_ir, self.dyn(args['name'], sc), has_key,
                          self.dyn(args['requested_key'], sc) if has_key else ['const', ['none']]])
            return D(self.unsupported(fn, node, f'method .{obj[2]} of a loaded form'))
        # helper functions
        if isinstance(obj, types.FunctionType):
            return D(self.inline_helper(obj, node, sc))
        return D(self.unsupported(fn, node, f'call of {type(obj).__name__}'))

    def inline_helper(self, helper, node, sc):
        fn = sc.fn
        hnode = find_node(helper)
        if hnode is None:
            return self.unsupported(fn, node, f'helper {helper.__name__}: source not found')
        if sc.depth >= MAX_HELPER_DEPTH:
            return self.unsupported(fn, node, f'helper {helper.__name__}: nesting too deep (recursion?)')
        a = hnode.args
        if a.vararg or a.kwarg or a.kwonlyargs or a.posonlyargs:
            return self.unsupported(fn, node, f'helper {helper.__name__}: unusual signature')
        pnames = [p.arg for p in a.args]
        args = self.call_args(node, sc, pnames)
        if args is None:
            return self.unsupported(fn, node, f'helper {helper.__name__}: arguments do not fit')
        defaults = dict(zip(pnames[len(pnames) - len(helper.__defaults__ or ()):], helper.__defaults__ or ()))
        static, dyn_params, dyn_args, dflt_ir = {}, [], [], []
        for p in pnames:
            if p in args:
                r = self.ev(args[p], sc)
                if isinstance(r, S) and self.is_object(r.obj):
                    static[p] = r
                else:
                    dyn_params.append(p)
                    dyn_args.append(r.ir if isinstance(r, D) else self.static_to_ir(r.obj, args[p], sc))
            elif p in defaults:
                try:
                    dflt_ir.append([p, self.reify(defaults[p])])
                except Unreifiable:
                    static[p] = S(defaults[p])
            else:
                return ['raise', 'typeError']       # missing argument
        bound = self.bound_names(hnode) | set(pnames)
        for p in static:
            if p in self.bound_names(hnode):
                return self.unsupported(fn, node, f'helper {helper.__name__}: object parameter {p} is reassigned')
        inner = Translator.Scope(helper, static, bound - set(static), sc.field)
        inner.depth = sc.depth + 1
        body = self.body_of(hnode, inner)
        return ['callHelper', dyn_params, dyn_args, dflt_ir, body]

    @staticmethod
    def is_object(obj):
        """live objects that cannot be DSL values: passed on statically"""
        import habutax.fields as hfields
        import habutax.form as hform
        return isinstance(obj, (_Accessor, _LoadedForm, hfields.Field, hform.Form, types.ModuleType,
                                types.FunctionType, types.MethodType, type)) or \
            (isinstance(obj, tuple) and len(obj) == 3 and obj[0] == 'attr-of')

    # -------------------------------------------------------------------------------- statements
    def body_of(self, node, sc):
        if isinstance(node, ast.Lambda):
            return [['ret', self.dyn(node.body, sc)]]
        stmts = list(node.body)
        if stmts and isinstance(stmts[0], ast.Expr) and isinstance(stmts[0].value, ast.Constant) \
                and isinstance(stmts[0].value.value, str):
            stmts = stmts[1:]       # docstring
        return self.block(stmts, sc)

    def block(self, stmts, sc):
        return [self.stmt(s, sc) for s in stmts]

    def stmt(self, s, sc):
        fn = sc.fn

        def uns(what):
            return ['expr', self.unsupported(fn, s, what)]
        if isinstance(s, ast.Return):
            return ['ret', self.dyn(s.value, sc) if s.value is not None else ['const', ['none']]]
        if isinstance(s, ast.Assign):
            if len(s.targets) != 1:
                return uns('chained assignment')
            t = s.targets[0]
            names = self.targets(t)
            if names is None or any(n in sc.static for n in names):
                return uns('assignment target')
            if isinstance(t, ast.Name):
                r = self.ev(s.value, sc)
                if isinstance(r, S) and self.is_object(r.obj):
                    # alias of a live object (`statuses = enum.filing_status`): a static binding,
                    # accepted when it is the only binding of the name, at the top level of the
                    # function body, and textually before every use
                    if not self.single_toplevel_binding(sc, s, t.id):
                        return uns('assignment of an object to a re-bound / conditional local')
                    sc.static[t.id] = r
                    sc.locals.discard(t.id)
                    return ['pass']
                return ['assign', t.id, r.ir if isinstance(r, D) else self.static_to_ir(r.obj, s.value, sc)]
            return ['unpack', names, self.dyn(s.value, sc)]
        if isinstance(s, ast.AugAssign):
            ops = {ast.Add: 'add', ast.Sub: 'sub', ast.Mult: 'mul', ast.Div: 'div'}
            if not isinstance(s.target, ast.Name) or s.target.id in sc.static or type(s.op) not in ops:
                return uns('augmented assignment')
            return ['aug', s.target.id, ops[type(s.op)], self.dyn(s.value, sc)]
        if isinstance(s, ast.If):
            return ['ifS', self.dyn(s.test, sc), self.block(s.body, sc), self.block(s.orelse, sc)]
        if isinstance(s, ast.For):
            names = self.targets(s.target)
            if s.orelse or names is None or any(n in sc.static for n in names):
                return uns('for statement form')
            return ['forS', names, self.iter_expr(s.iter, sc), self.block(s.body, sc)]
        if isinstance(s, ast.Expr):
            v = s.value
            if isinstance(v, ast.Call) and isinstance(v.func, ast.Attribute) and v.func.attr == 'append' \
                    and isinstance(v.func.value, ast.Name) and v.func.value.id in sc.locals \
                    and v.func.value.id not in sc.static and len(v.args) == 1 and not v.keywords \
                    and not isinstance(v.args[0], ast.Starred):
                return ['append', v.func.value.id, self.dyn(v.args[0], sc)]
            r = self.ev(v, sc)
            if isinstance(r, S) and isinstance(r.obj, _LoadedForm):
                return ['expr', ['loadedForm', r.obj.name_ir]]      # `s.form('1040')` for its effect
            return ['expr', r.ir if isinstance(r, D) else self.static_to_ir(r.obj, v, sc)]
        if isinstance(s, ast.Assert):
            return ['assertS', self.dyn(s.test, sc),
                    self.dyn(s.msg, sc) if s.msg is not None else ['const', ['none']]]
        if isinstance(s, ast.Continue):
            return ['continueS']
        if isinstance(s, ast.Break):
            return ['breakS']
        if isinstance(s, ast.Pass):
            return ['pass']
        return uns(type(s).__name__)

    def single_toplevel_binding(self, sc, assign, name):
        node = find_node(sc.fn)
        if node is None or isinstance(node, ast.Lambda) or assign not in node.body:
            return False
        stores, loads = [], []
        for n in ast.walk(node):
            if isinstance(n, ast.Name) and n.id == name:
                (stores if isinstance(n.ctx, (ast.Store, ast.Del)) else loads).append(n)
            if isinstance(n, ast.arg) and n.arg == name:
                return False
        if len(stores) != 1:
            return False
        end = (assign.end_lineno, assign.end_col_offset)
        return all((n.lineno, n.col_offset) >= end for n in loads)

    # -------------------------------------------------------------------------------- lines
    def line_body(self, field):
        """(defaults IR, body IR) of a field's value function"""
        func = field._value.__func__
        node = find_node(func)
        if node is None:
            return [], [['expr', ['unsupported', f'source of {func.__qualname__} not found']]]
        key = (func.__code__.co_filename, node.lineno, node.col_offset)
        if key not in self._fn_seen:
            self._fn_seen.add(key)
            self.report['distinct_functions'] += 1
        a = node.args
        if a.vararg or a.kwarg or a.kwonlyargs or a.posonlyargs or len(a.args) < 3:
            return [], [['expr', self.unsupported(func, node, 'unusual signature of a value function')]]
        pnames = [p.arg for p in a.args]
        extra = pnames[3:]
        dflt = func.__defaults__ or ()
        if len(dflt) < len(extra):
            return [], [['expr', self.unsupported(func, node, 'value function parameter without a default')]]
        dvals = dict(zip(pnames[len(pnames) - len(dflt):], dflt))
        static = {pnames[0]: S(field), pnames[1]: S(_Accessor('i')), pnames[2]: S(_Accessor('v'))}
        defaults = []
        for p in extra:
            try:
                defaults.append([p, self.reify(dvals[p])])
            except Unreifiable:
                static[p] = S(dvals[p])
        bound = self.bound_names(node) | set(extra)
        if any(p in self.bound_names(node) for p in static):
            return [], [['expr', self.unsupported(func, node, 'parameter is reassigned')]]
        sc = Translator.Scope(func, static, bound - set(static), field)
        return defaults, self.body_of(node, sc)

    def field_kind(self, f):
        import habutax.fields as hf
        t = type(f)
        if t is hf.StringField:
            return ['str']
        if t is hf.BooleanField:
            return ['bool']
        if t is hf.IntegerField:
            return ['int']
        if t is hf.FloatField:
            if type(f._places) is not int or f._places < 0:
                return None
            return ['float', f._places]
        if t is hf.EnumField:
            return ['enum', self.enum_id(f._type)]
        return None

    def input_kind(self, i):
        import habutax.inputs as hi
        t = type(i)
        if t is hi.StringInput:
            return ['str']
        if t is hi.BooleanInput:
            return ['bool']
        if t is hi.IntegerInput:
            return ['int']
        if t is hi.FloatInput:
            return ['float']
        if t is hi.SSNInput:
            return ['ssn']
        if t is hi.EnumInput:
            return ['enum', self.enum_id(i.enum), bool(i.allow_empty)]
        if t is hi.RegexInput:
            return ['regex', regex_ir(i._regex_str)]
        return None

    def thresholds_ir(self, form):
        out = []
        ths = form._thresholds
        if not isinstance(ths, dict):
            self.note(f'{form.name()}: thresholds is not a dict')
            return out
        for name, t in ths.items():
            if type(name) is not str:
                self.note(f'{form.name()}: threshold name {name!r} is not a str')
                continue
            try:
                if isinstance(t, dict):
                    rows = []
                    for k, v in t.items():
                        if type(k) is tuple:
                            rows.append([['many', [self.reify(x) for x in k]], self.reify(v)])
                        else:
                            rows.append([['one', self.reify(k)], self.reify(v)])
                    out.append([name, ['table', rows]])
                else:
                    out.append([name, ['scalar', self.reify(t)]])
            except Unreifiable as e:
                self.note(f'{form.name()}: threshold {name}: {e}')
        return out

    # -------------------------------------------------------------------------------- classes
    def instances_for(self, cls):
        vi = getattr(cls, 'valid_instances', None)
        if vi:
            return list(vi), [None, '0', 'zz']
        if self.sample_instances is not None:
            return list(self.sample_instances), []
        return [None, '0', '7'], []

    def translate_instance(self, cls, inst):
        form = cls(instance=inst)
        self._cur_class = cls
        inputs = []
        for i in form.inputs():
            k = self.input_kind(i)
            if k is None:
                self.report['unsupported'].append({'where': cls.__name__, 'construct': f'input class {type(i).__name__}',
                                                   'class': cls.form_name, 'line': i.base_name()})
                k = ['regex', ['unsupported']]
            inputs.append([i.base_name(), k])
        req = form.required_fields()
        lines = []
        for idx, f in enumerate(form.fields()):
            self._cur_line = f.base_name()
            kind = self.field_kind(f)
            if kind is None:
                self.report['unsupported'].append({'where': cls.__name__, 'construct': f'field class {type(f).__name__}',
                                                   'class': cls.form_name, 'line': f.base_name()})
                kind, defaults, body = ['str'], [], [['expr', ['unsupported', f'field class {type(f).__name__}']]]
            else:
                defaults, body = self.line_body(f)
            lines.append({'name': f.base_name(), 'kind': kind, 'required': idx < len(req),
                          'defaults': defaults, 'body': body})
        self._cur_line = None
        return {'name': cls.form_name, 'inputs': inputs, 'lines': lines, 'thresholds': self.thresholds_ir(form)}

    def translate_class(self, cls):
        good, bad = self.instances_for(cls)
        variants = []
        n_after = None
        for inst in good:
            try:
                variants.append((inst, self.translate_instance(cls, inst)))
            except Exception as e:  # noqa: BLE001
                self.note(f'{cls.__name__}(instance={inst!r}) failed: {type(e).__name__}: {e}')
                continue
            # report entries only once per class
            if n_after is None:
                n_after = (len(self.report['unsupported']), len(self.report['attrErrors']))
            else:
                del self.report['unsupported'][n_after[0]:]
                del self.report['attrErrors'][n_after[1]:]
        if not variants:
            self.note(f'{cls.__name__}: no instance could be constructed')
            return None
        rule = ['any']
        if getattr(cls, 'valid_instances', None):
            rule = ['oneOf', list(cls.valid_instances)]
            for inst in bad:
                try:
                    cls(instance=inst)
                    self.note(f'{cls.__name__}: constructor accepts instance {inst!r} outside valid_instances')
                    rule = ['any']
                except Exception:  # noqa: BLE001
                    pass
        elif len(variants) != len(good):
            self.note(f'{cls.__name__}: constructor rejects some sampled instances')
        base = variants[0][1]
        # the declaration must not depend on the instance
        for inst, v in variants[1:]:
            if json.dumps(v['inputs']) != json.dumps(base['inputs']) or \
                    [l['name'] for l in v['lines']] != [l['name'] for l in base['lines']] or \
                    json.dumps(v['thresholds']) != json.dumps(base['thresholds']):
                self.note(f'{cls.__name__}: inputs / line names / thresholds depend on the instance ({inst!r})')
                self.report['unsupported'].append({'where': cls.__name__, 'construct': 'instance-dependent class shape',
                                                   'class': cls.form_name, 'line': None})
            for l0, l1 in zip(base['lines'], v['lines']):
                if json.dumps(l0) != json.dumps(l1):
                    self.report['unsupported'].append({'where': cls.__name__, 'construct': 'instance-dependent line definition',
                                                       'class': cls.form_name, 'line': l0['name']})
                    l0['body'] = [['expr', ['unsupported', f'definition depends on the instance ({inst!r})']]]
        names = [l['name'] for l in base['lines']]
        dups = sorted({n for n in names if names.count(n) > 1})
        if dups:
            self.note(f'{cls.__name__}: duplicate line names {dups}')
        base['instRule'] = rule
        self.report['lines'] += len(base['lines'])
        self.report['classes'].append({'class': cls.__name__, 'form': cls.form_name, 'lines': len(base['lines']),
                                       'inputs': len(base['inputs']), 'instances': [i for i, _ in variants]})
        return base

    def run(self):
        classes = []
        for cls in self.classes:
            c = self.translate_class(cls)
            if c is not None:
                classes.append(c)
        return {'year': self.year, 'classes': classes,
                'enums': [[k, v] for k, v in self.enum_members.items()],
                'globals': [[k, v] for k, v in self.globals.items()]}


# ------------------------------------------------------------------------------------ regex

def regex_ir(src):
    """the regex as the tiny AST of HabuVerif.Dsl.Re, through Python's own parser"""
    try:
        import re._parser as sre_parse
        import re._constants as sre_c
    except ImportError:       # pragma: no cover
        import sre_parse
        import sre_constants as sre_c
    try:
        parsed = sre_parse.parse(src)
    except Exception:  # noqa: BLE001
        return ['unsupported']
    if parsed.state.flags & ~sre_c.SRE_FLAG_UNICODE:
        return ['unsupported']

    def seq(items):
        out = ['eps']
        for it in reversed(items):
            out = it if out == ['eps'] else ['seq', it, out]
        return out

    def cls_ranges(items):
        rs, neg = [], False
        for op, av in items:
            if op == sre_c.NEGATE:
                neg = True
            elif op == sre_c.LITERAL:
                rs.append([av, av])
            elif op == sre_c.RANGE:
                rs.append([av[0], av[1]])
            else:
                return None
        return ['cls', rs, neg]

    def tr(p):
        items = []
        for op, av in p:
            if op == sre_c.LITERAL:
                items.append(['cls', [[av, av]], False])
            elif op == sre_c.IN:
                c = cls_ranges(av)
                items.append(c if c is not None else ['unsupported'])
            elif op == sre_c.AT:
                if av == sre_c.AT_BEGINNING:
                    items.append(['bol'])
                elif av == sre_c.AT_END:
                    items.append(['eol'])
                else:
                    items.append(['unsupported'])
            elif op == sre_c.SUBPATTERN:
                group, add_flags, del_flags, sub = av
                items.append(['unsupported'] if add_flags or del_flags else tr(sub))
            elif op == sre_c.BRANCH:
                alts = [tr(a) for a in av[1]]
                out = alts[-1]
                for a in reversed(alts[:-1]):
                    out = ['alt', a, out]
                items.append(out)
            elif op == sre_c.MAX_REPEAT:
                lo, hi, sub = av
                items.append(['rep', tr(sub), lo, None if hi == sre_c.MAXREPEAT else hi])
            else:
                items.append(['unsupported'])
        return seq(items)
    return tr(parsed)


# ------------------------------------------------------------------------------------ Lean back end

def lean_str(s):
    out = ['"']
    for ch in s:
        o = ord(ch)
        if ch == '\\':
            out.append('\\\\')
        elif ch == '"':
            out.append('\\"')
        elif ch == '\n':
            out.append('\\n')
        elif ch == '\t':
            out.append('\\t')
        elif ch == '\r':
            out.append('\\r')
        elif o < 32 or o == 127 or o > 126:
            out.append('\\u{%x}' % o)
        else:
            out.append(ch)
    out.append('"')
    return ''.join(out)


def lean_list(items, chunk=200):
    """list literal, in chunks of at most `chunk` elements"""
    if len(items) <= chunk:
        return '[' + ', '.join(items) + ']'
    parts = ['[' + ', '.join(items[k:k + chunk]) + ']' for k in range(0, len(items), chunk)]
    return '(' + ' ++ '.join(parts) + ')'


def lean_int(n):
    return f'({n})' if n < 0 else str(n)


def lean_val(v):
    k = v[0]
    if k == 'none':
        return 'Val.none'
    if k == 'bool':
        return f'(Val.bool {"true" if v[1] else "false"})'
    if k == 'int':
        return f'(Val.int {lean_int(v[1])})'
    if k == 'float':
        txt = v[2].replace('-/', '- /')
        return f'(Val.float (F64.ofBits 0x{v[1]}) /- {txt} -/)'
    if k == 'str':
        return f'(Val.str {lean_str(v[1])})'
    if k == 'enumv':
        return f'(Val.enumv {lean_str(v[1])} {lean_str(v[2])})'
    if k in ('tuple', 'list'):
        if v[1] and all(x[0] == 'int' for x in v[1]):
            return f'(Val.{k} (ints {lean_list([lean_int(x[1]) for x in v[1]])}))'
        return f'(Val.{k} {lean_list([lean_val(x) for x in v[1]])})'
    if k == 'dict':
        return f'(Val.dict {lean_list([lean_val(x) for x in v[1]])} {lean_list([lean_val(x) for x in v[2]])})'
    raise ValueError(v)


def lean_global_defs(name, v, chunk=200):
    """a large constant: its top-level elements in chunk definitions of at most `chunk` elements"""
    if v[0] in ('tuple', 'list') and len(v[1]) > chunk:
        out, parts = [], []
        for k in range(0, len(v[1]), chunk):
            pn = f'{name}_{k // chunk}'
            parts.append(pn)
            items = ',\n   '.join(lean_val(x) for x in v[1][k:k + chunk])
            out.append(f'def {pn} : List Val :=\n  [{items}]\n')
        out.append(f'def {name} : Val :=\n  Val.{v[0]} ({" ++ ".join(parts)})\n')
        return '\n'.join(out)
    return f'def {name} : Val :=\n  {lean_val(v)}\n'


def lean_strs(xs):
    return lean_list([lean_str(x) for x in xs])


def lean_expr(e):
    k = e[0]
    L = lean_expr
    if k == 'const':
        return f'(.const {lean_val(e[1])})'
    if k == 'var':
        return f'(.var {lean_str(e[1])})'
    if k in ('readI', 'readV', 'neg', 'pos', 'not', 'attrFail', 'loadedForm'):
        return f'(.{k} {L(e[1])})'
    if k == 'fstr':
        return f'(.fstr {lean_list([L(x) for x in e[1]])})'
    if k == 'bin':
        return f'(.bin .{e[1]} {L(e[2])} {L(e[3])})'
    if k in ('and', 'or'):
        return f'(.{k} {L(e[1])} {L(e[2])})'
    if k == 'cmp':
        return f'(.cmp {L(e[1])} {lean_list(["." + o for o in e[2]])} {lean_list([L(x) for x in e[3]])})'
    if k == 'ite':
        return f'(.ite {L(e[1])} {L(e[2])} {L(e[3])})'
    if k == 'call':
        return f'(.call .{e[1]} {lean_list([L(x) for x in e[2]])})'
    if k == 'method':
        return f'(.method .{e[1]} {L(e[2])} {lean_list([L(x) for x in e[3]])})'
    if k == 'attr':
        return f'(.attr {L(e[1])} {lean_str(e[2])})'
    if k == 'raise':
        return f'(.raise .{e[1]})'
    if k == 'threshold':
        return f'(.threshold {L(e[1])} {"true" if e[2] else "false"} {L(e[3])})'
    if k == 'thresholdOf':
        return f'(.thresholdOf {L(e[1])} {L(e[2])} {"true" if e[3] else "false"} {L(e[4])})'
    if k == 'instance':
        return '.instance'
    if k == 'notImpl':
        return f'(.notImpl {lean_list([L(x) for x in e[1]])})'
    if k in ('tuple', 'list'):
        return f'(.{k} {lean_list([L(x) for x in e[1]])})'
    if k == 'dict':
        return f'(.dict {lean_list([lean_val(x) for x in e[1]])} {lean_list([L(x) for x in e[2]])})'
    if k == 'index':
        return f'(.index {L(e[1])} {L(e[2])})'
    if k == 'slice':
        return f'(.slice {L(e[1])} {L(e[2])} {L(e[3])})'
    if k in ('listComp', 'sumGen'):
        return f'(.{k} {L(e[1])} {lean_strs(e[2])} {L(e[3])} {lean_list([L(x) for x in e[4]])})'
    if k == 'callHelper':
        dfl = lean_list([f'({lean_str(n)}, {lean_val(v)})' for n, v in e[3]])
        return f'(.callHelper {lean_strs(e[1])} {lean_list([L(x) for x in e[2]])} {dfl} {lean_block(e[4])})'
    if k == 'global':
        return f'(.global {lean_str(e[1])})'
    if k == 'unsupported':
        return f'(.unsupported {lean_str(e[1])})'
    raise ValueError(e)


def lean_stmt(s):
    k = s[0]
    if k == 'assign':
        return f'(.assign {lean_str(s[1])} {lean_expr(s[2])})'
    if k == 'unpack':
        return f'(.unpack {lean_strs(s[1])} {lean_expr(s[2])})'
    if k == 'aug':
        return f'(.aug {lean_str(s[1])} .{s[2]} {lean_expr(s[3])})'
    if k == 'ifS':
        return f'(.ifS {lean_expr(s[1])} {lean_block(s[2])} {lean_block(s[3])})'
    if k == 'forS':
        return f'(.forS {lean_strs(s[1])} {lean_expr(s[2])} {lean_block(s[3])})'
    if k in ('ret', 'expr'):
        return f'(.{k} {lean_expr(s[1])})'
    if k == 'assertS':
        return f'(.assertS {lean_expr(s[1])} {lean_expr(s[2])})'
    if k == 'append':
        return f'(.append {lean_str(s[1])} {lean_expr(s[2])})'
    if k in ('continueS', 'breakS', 'pass'):
        return f'.{k}'
    raise ValueError(s)


def lean_block(b):
    return lean_list([lean_stmt(s) for s in b])


def lean_re(r):
    k = r[0]
    if k in ('eps', 'bol', 'eol', 'unsupported'):
        return f'.{k}'
    if k == 'cls':
        rs = lean_list([f'({a}, {b})' for a, b in r[1]])
        return f'(.cls {rs} {"true" if r[2] else "false"})'
    if k in ('seq', 'alt'):
        return f'(.{k} {lean_re(r[1])} {lean_re(r[2])})'
    if k == 'rep':
        hi = 'none' if r[3] is None else f'(some {r[3]})'
        return f'(.rep {lean_re(r[1])} {r[2]} {hi})'
    raise ValueError(r)


def lean_field_kind(k):
    if k[0] == 'float':
        return f'(.float {k[1]})'
    if k[0] == 'enum':
        return f'(.enum {lean_str(k[1])})'
    return f'.{k[0]}'


def lean_input_kind(k):
    if k[0] == 'enum':
        return f'(.enum {lean_str(k[1])} {"true" if k[2] else "false"})'
    if k[0] == 'regex':
        return f'(.regex {lean_re(k[1])})'
    return f'.{k[0]}'


def lean_thresh(t):
    if t[0] == 'scalar':
        return f'(.scalar {lean_val(t[1])})'
    rows = []
    for key, v in t[1]:
        kk = f'(.one {lean_val(key[1])})' if key[0] == 'one' else f'(.many {lean_list([lean_val(x) for x in key[1]])})'
        rows.append(f'({kk}, {lean_val(v)})')
    return f'(.table {lean_list(rows)})'


def ident(s):
    out = []
    for ch in s:
        out.append(ch if ch.isalnum() else '_')
    return ''.join(out)


HEADER = '''/- GENERATED by tools/translate.py from the habutax working tree — do not edit. -/
import HabuVerif.Dsl.Syntax
set_option autoImplicit false
set_option maxRecDepth 100000
namespace HabuVerif.Gen.Y{year}
open HabuVerif HabuVerif.Dsl

'''


def lean_class_text(c):
    """definitions of one class: one def per line, then the ClassDecl"""
    cid = 'c_' + ident(c['name'])
    out = []
    lnames = []
    for k, l in enumerate(c['lines']):
        ln = f'{cid}_l{k}_{ident(l["name"])}'
        lnames.append(ln)
        dfl = lean_list([f'({lean_str(n)}, {lean_val(v)})' for n, v in l['defaults']])
        out.append(f'def {ln} : LineDecl :=\n  {{ name := {lean_str(l["name"])}, kind := {lean_field_kind(l["kind"])}, '
                   f'required := {"true" if l["required"] else "false"}, defaults := {dfl},\n'
                   f'    body := {lean_block(l["body"])} }}\n')
    inputs = lean_list([f'{{ name := {lean_str(n)}, kind := {lean_input_kind(k)} }}' for n, k in c['inputs']])
    ths = lean_list([f'({lean_str(n)}, {lean_thresh(t)})' for n, t in c['thresholds']])
    rule = '.any' if c['instRule'][0] == 'any' else f'(.oneOf {lean_strs(c["instRule"][1])})'
    out.append(f'def {cid} : ClassDecl :=\n  {{ name := {lean_str(c["name"])}, instRule := {rule},\n'
               f'    inputs := {inputs},\n    lines := {lean_list(lnames)},\n    thresholds := {ths} }}\n')
    return cid, '\n'.join(out)


def emit_lean(year_ir, out_dir, nchunks=6):
    """write Gen/Forms<year>_<k>.lean, Gen/TaxTable<year>.lean, Gen/Catalogue<year>.lean; returns paths"""
    year = year_ir['year']
    os.makedirs(out_dir, exist_ok=True)
    texts = [lean_class_text(c) for c in year_ir['classes']]
    # balance chunks by size, deterministically
    order = sorted(range(len(texts)), key=lambda k: (-len(texts[k][1]), k))
    bins = [[] for _ in range(nchunks)]
    sizes = [0] * nchunks
    for k in order:
        b = sizes.index(min(sizes))
        bins[b].append(k)
        sizes[b] += len(texts[k][1])
    written = {}
    mods = []
    for b, ks in enumerate(bins):
        if not ks:
            continue
        body = HEADER.format(year=year) + '\n'.join(texts[k][1] for k in sorted(ks)) + f'\nend HabuVerif.Gen.Y{year}\n'
        name = f'Forms{year}_{b}'
        written[os.path.join(out_dir, name + '.lean')] = body
        mods.append(name)
    # globals (tax tables)
    gl = []
    for gname, v in year_ir['globals']:
        gl.append(lean_global_defs(f'g_{ident(gname)}', v))
    tt = HEADER.format(year=year) + '\n'.join(gl) + \
        f'\ndef globals : List (String × Val) :=\n  {lean_list([f"({lean_str(g)}, g_{ident(g)})" for g, _ in year_ir["globals"]])}\n' + \
        f'\nend HabuVerif.Gen.Y{year}\n'
    written[os.path.join(out_dir, f'TaxTable{year}.lean')] = tt
    enums = lean_list([f'({lean_str(e)}, {lean_strs(ms)})' for e, ms in year_ir['enums']])
    cat = '/- GENERATED by tools/translate.py from the habutax working tree — do not edit. -/\n' + \
        'import HabuVerif.Dsl.Cat\n' + ''.join(f'import HabuVerif.Gen.{m}\n' for m in mods) + \
        f'import HabuVerif.Gen.TaxTable{year}\n' + \
        f'set_option autoImplicit false\nnamespace HabuVerif.Gen\nopen HabuVerif HabuVerif.Dsl\n\n' + \
        f'def year{year} : YearDecl :=\n  {{ year := {year},\n    classes := ' + \
        lean_list([f'Y{year}.{cid}' for cid, _ in texts]) + f',\n    enums := {enums},\n    globals := Y{year}.globals }}\n\n' + \
        f'def cat{year} : Cat String String String Val String := mkCat year{year}\n\nend HabuVerif.Gen\n'
    written[os.path.join(out_dir, f'Catalogue{year}.lean')] = cat
    # the catalogue is well formed (instance of the general theorem; Proofs side, not linked into the driver)
    written[os.path.join(out_dir, f'CatWF{year}.lean')] = \
        '/- GENERATED by tools/translate.py — do not edit. -/\n' + \
        f'import HabuVerif.Proofs.DslCatWF\nimport HabuVerif.Gen.Catalogue{year}\n' + \
        'namespace HabuVerif.Gen\nopen HabuVerif\n\n' + \
        f'/-- the solver metatheory (stated for every catalogue with `CatWF`) applies to the {year} forms -/\n' + \
        f'theorem cat{year}_wf : CatWF cat{year} := Dsl.mkCat_wf _\n\nend HabuVerif.Gen\n'
    changed = []
    for path, text in written.items():
        try:
            with open(path, encoding='utf-8') as f:
                if f.read() == text:
                    continue
        except FileNotFoundError:
            pass
        with open(path, 'w', encoding='utf-8') as f:
            f.write(text)
        changed.append(path)
    return sorted(written), changed


# ------------------------------------------------------------------------------------ wire back end
# prefix-coded tokens separated by single spaces; strings are hex of their UTF-8 bytes behind `s`

def w_str(s):
    return 's' + s.encode('utf-8').hex()


def w_list(items):
    out = [str(len(items))]
    for it in items:
        out += it
    return out


def w_val(v):
    k = v[0]
    if k == 'none':
        return ['none']
    if k == 'bool':
        return ['bool', '1' if v[1] else '0']
    if k == 'int':
        return ['int', str(v[1])]
    if k == 'float':
        return ['float', v[1]]
    if k == 'str':
        return ['str', w_str(v[1])]
    if k == 'enumv':
        return ['enumv', w_str(v[1]), w_str(v[2])]
    if k in ('tuple', 'list'):
        return [k] + w_list([w_val(x) for x in v[1]])
    if k == 'dict':
        return ['dict'] + w_list([w_val(x) for x in v[1]]) + w_list([w_val(x) for x in v[2]])
    raise ValueError(v)


def w_strs(xs):
    return w_list([[w_str(x)] for x in xs])


def w_expr(e):
    k = e[0]
    W = w_expr
    if k == 'const':
        return ['const'] + w_val(e[1])
    if k == 'var':
        return ['var', w_str(e[1])]
    if k in ('readI', 'readV', 'neg', 'pos', 'not', 'attrFail', 'loadedForm'):
        return [k] + W(e[1])
    if k == 'fstr':
        return ['fstr'] + w_list([W(x) for x in e[1]])
    if k == 'bin':
        return ['bin', e[1]] + W(e[2]) + W(e[3])
    if k in ('and', 'or'):
        return [k] + W(e[1]) + W(e[2])
    if k == 'cmp':
        return ['cmp'] + W(e[1]) + w_list([[o] for o in e[2]]) + w_list([W(x) for x in e[3]])
    if k == 'ite':
        return ['ite'] + W(e[1]) + W(e[2]) + W(e[3])
    if k == 'call':
        return ['call', e[1]] + w_list([W(x) for x in e[2]])
    if k == 'method':
        return ['method', e[1]] + W(e[2]) + w_list([W(x) for x in e[3]])
    if k == 'attr':
        return ['attr'] + W(e[1]) + [w_str(e[2])]
    if k == 'raise':
        return ['raise', e[1]]
    if k == 'threshold':
        return ['threshold'] + W(e[1]) + ['1' if e[2] else '0'] + W(e[3])
    if k == 'thresholdOf':
        return ['thresholdOf'] + W(e[1]) + W(e[2]) + ['1' if e[3] else '0'] + W(e[4])
    if k == 'instance':
        return ['instance']
    if k == 'notImpl':
        return ['notImpl'] + w_list([W(x) for x in e[1]])
    if k in ('tuple', 'list'):
        return [k + 'E'] + w_list([W(x) for x in e[1]])
    if k == 'dict':
        return ['dictE'] + w_list([w_val(x) for x in e[1]]) + w_list([W(x) for x in e[2]])
    if k == 'index':
        return ['index'] + W(e[1]) + W(e[2])
    if k == 'slice':
        return ['slice'] + W(e[1]) + W(e[2]) + W(e[3])
    if k in ('listComp', 'sumGen'):
        return [k] + W(e[1]) + w_strs(e[2]) + W(e[3]) + w_list([W(x) for x in e[4]])
    if k == 'callHelper':
        return ['callHelper'] + w_strs(e[1]) + w_list([W(x) for x in e[2]]) + \
            w_list([[w_str(n)] + w_val(v) for n, v in e[3]]) + w_block(e[4])
    if k == 'global':
        return ['global', w_str(e[1])]
    if k == 'unsupported':
        return ['unsupported', w_str(e[1])]
    raise ValueError(e)


def w_stmt(s):
    k = s[0]
    if k == 'assign':
        return ['assign', w_str(s[1])] + w_expr(s[2])
    if k == 'unpack':
        return ['unpack'] + w_strs(s[1]) + w_expr(s[2])
    if k == 'aug':
        return ['aug', w_str(s[1]), s[2]] + w_expr(s[3])
    if k == 'ifS':
        return ['ifS'] + w_expr(s[1]) + w_block(s[2]) + w_block(s[3])
    if k == 'forS':
        return ['forS'] + w_strs(s[1]) + w_expr(s[2]) + w_block(s[3])
    if k in ('ret', 'expr'):
        return [k] + w_expr(s[1])
    if k == 'assertS':
        return ['assertS'] + w_expr(s[1]) + w_expr(s[2])
    if k == 'append':
        return ['append', w_str(s[1])] + w_expr(s[2])
    if k in ('continueS', 'breakS', 'pass'):
        return [k]
    raise ValueError(s)


def w_block(b):
    return w_list([w_stmt(s) for s in b])


def w_re(r):
    k = r[0]
    if k in ('eps', 'bol', 'eol', 'unsupported'):
        return [k]
    if k == 'cls':
        return ['cls'] + w_list([[str(a), str(b)] for a, b in r[1]]) + ['1' if r[2] else '0']
    if k in ('seq', 'alt'):
        return [k] + w_re(r[1]) + w_re(r[2])
    if k == 'rep':
        return ['rep'] + w_re(r[1]) + [str(r[2]), 'inf' if r[3] is None else str(r[3])]
    raise ValueError(r)


def w_field_kind(k):
    if k[0] == 'float':
        return ['float', str(k[1])]
    if k[0] == 'enum':
        return ['enum', w_str(k[1])]
    return [k[0]]


def w_input_kind(k):
    if k[0] == 'enum':
        return ['enum', w_str(k[1]), '1' if k[2] else '0']
    if k[0] == 'regex':
        return ['regex'] + w_re(k[1])
    return [k[0]]


def w_thresh(t):
    if t[0] == 'scalar':
        return ['scalar'] + w_val(t[1])
    rows = []
    for key, v in t[1]:
        kk = ['one'] + w_val(key[1]) if key[0] == 'one' else ['many'] + w_list([w_val(x) for x in key[1]])
        rows.append(kk + w_val(v))
    return ['table'] + w_list(rows)


def wire_year(year_ir):
    """protocol lines that (re)define a catalogue in the driver's `real`/`dsl` mode"""
    out = []
    for e, ms in year_ir['enums']:
        out.append(' '.join(['enum', w_str(e)] + w_strs(ms)))
    for g, v in year_ir['globals']:
        out.append(' '.join(['global', w_str(g)] + w_val(v)))
    for c in year_ir['classes']:
        rule = ['any'] if c['instRule'][0] == 'any' else ['oneOf'] + w_strs(c['instRule'][1])
        out.append(' '.join(['class', w_str(c['name'])] + rule))
        for n, k in c['inputs']:
            out.append(' '.join(['input', w_str(c['name']), w_str(n)] + w_input_kind(k)))
        for n, t in c['thresholds']:
            out.append(' '.join(['threshold', w_str(c['name']), w_str(n)] + w_thresh(t)))
        for l in c['lines']:
            out.append(' '.join(['line', w_str(c['name']), w_str(l['name'])] + w_field_kind(l['kind']) +
                                ['1' if l['required'] else '0'] +
                                w_list([[w_str(n)] + w_val(v) for n, v in l['defaults']]) + w_block(l['body'])))
    return out


# ------------------------------------------------------------------------------------ main

def translate_year(year):
    from habutax.forms import available_forms
    import habutax.enum as henum
    t = Translator(year, available_forms[year], habutax_enum_module=henum)
    ir = t.run()
    return ir, t.report


def main(argv):
    import time
    verif = os.path.dirname(os.path.dirname(os.path.abspath(__file__)))
    out_dir = os.path.join(verif, 'lean', 'HabuVerif', 'Gen')
    years = [2021, 2022, 2023]
    args = list(argv)
    while args:
        a = args.pop(0)
        if a == '--out':
            out_dir = args.pop(0)
        elif a == '--years':
            years = [int(y) for y in args.pop(0).split(',')]
    t0 = time.time()
    reports = {}
    files = []
    for y in years:
        ir, rep = translate_year(y)
        paths, _changed = emit_lean(ir, out_dir)
        rep['files'] = [os.path.basename(p) for p in paths]
        reports[str(y)] = rep
        files += paths
    summary = {'years': reports, 'seconds': round(time.time() - t0, 2)}
    rp = os.path.join(out_dir, 'translate_report.json')
    text = json.dumps(summary, indent=1, sort_keys=True)
    with open(rp, 'w', encoding='utf-8') as f:
        f.write(text)
    for y in years:
        r = reports[str(y)]
        print(f'{y}: {len(r["classes"])} classes, {r["lines"]} lines, {r["distinct_functions"]} functions, '
              f'{len(r["unsupported"])} unsupported, {len(r["attrErrors"])} attrErrors, {len(r["notes"])} notes')
    return 0


if __name__ == '__main__':
    sys.exit(main(sys.argv[1:]))
