#!/venv/bin/python
"""Entry point of every registered check:  check.py <property-id> <quick|thorough> [--replay FILE]

Per property: (1) obligations — the Lean theorems of HabuVerif/Props/<id>.lean must be accepted by
the kernel with no axioms beyond propext / Classical.choice / Quot.sound, no sorry etc.;
(2) tie — the correspondence streams the property's model parts depend on must agree with the real
code on this run's cases; (3) statement — the property's own statement evaluated as an oracle on the
real executions.  A broken obligation or tie is not by itself a violation: the property's search
looks for a failing input on the real code; VIOLATION lines carry the replay (or
`no-failing-input-found`).  Exit 0 = held, 1 = violation, 2 = tool trouble.
"""
import json
import os
import sys
import time
import traceback

HERE = os.path.dirname(os.path.abspath(__file__))
sys.path.insert(0, os.path.join(HERE, 'harness'))
sys.dont_write_bytecode = True

import common  # noqa: E402
import lean_tools  # noqa: E402
import props  # noqa: E402


def main(argv):
    if len(argv) < 2:
        print(__doc__)
        return 2
    pid = argv[0]
    tier = argv[1] if argv[1] in ('quick', 'thorough') else 'quick'
    os.environ['VERIF_TIER'] = tier
    if '--replay' in argv:
        path = argv[argv.index('--replay') + 1]
        return props.replay(pid, path)
    t0 = time.time()
    seed = common.seed()
    ctx = props.Context(pid, tier, seed)
    try:
        lean_tools.prepare(ctx)
        props.run_property(ctx)
    except lean_tools.ToolTrouble as e:
        print(f'TOOL-TROUBLE property={pid}: {e}')
        return 2
    except Exception:  # noqa: BLE001
        traceback.print_exc()
        print(f'TOOL-TROUBLE property={pid}: internal error in the check')
        return 2
    ctx.finish(time.time() - t0)
    return 1 if ctx.violations else 0


if __name__ == '__main__':
    sys.exit(main(sys.argv[1:]))
