#!/usr/bin/env python3
"""Generate the Lean obligations of C08 (year- and status-indexed statutory amounts are the official ones).

    python gen_c08.py [--out-dir DIR] [--quiet]
    python gen_c08.py --write-spec FILE      render Spec/Statutory.lean from c08_statutory.json (done once, committed)

Inputs
  * tools/c08_statutory.json   the independent table (year, status | all, amount id) -> exact decimal, with citations.
                               `HabuVerif/Spec/Statutory.lean` is its committed Lean mirror; this generator re-renders the
                               mirror and REFUSES to run when the committed file differs (exit 2: tool trouble).
  * tools/c08_map.json         the reviewed mapping  site -> amount id + how to observe it (see below)
  * the working tree at $HABUTAX_REPO (default /repo) through tools/translate.py (line programs, threshold tables: the
    same intermediate representation the Lean model `Gen/Forms<year>_<k>.lean` is printed from) and through the REAL
    habutax classes (the truth value of every evaluation is computed by calling the real line function / the real
    `Form.threshold`; see `RealYear`).

Output (under <out-dir>, default /verif/lean/HabuVerif/Gen)
    C08_<year>_<k>.lean    one obligation per (year, filing status, amount, site), `decide +kernel` (at most 60 per module;
                           an evaluation through the full DSL evaluator costs 0.2-0.4 s of kernel time, almost all of it
                           String operations on line names, so the modules are kept small and lake checks them in parallel)
    C08_<year>.lean        imports the year's modules
    C08.lean               imports the three
    c08_failed.json        obligations that are FALSE on this tree with the witness evaluations
    c08_obligations.json   every obligation with its status, the site survey and the uncovered sites

Obligations.  For a threshold table entry mapped to amount `a`:

    theorem c08_<y>_<status>_<a>__th_<form>_<name> :
      (do let a0 <- Statutory.amount <y> .<status> .<a>
          pure (allTrue [thresholdIs Y<y>.c_<form>.thresholds "<name>" (some <status member>) a0])) = some true

For a line site the map gives the tiny stores and the points to evaluate; values may mention published amounts
(`{"amt": id, "times": k, "plus": d}`), so the statement itself says "with the compared quantity AT the published limit
the line answers X, one cent above it answers Y":

    theorem c08_<y>_<status>_<a>__ln_<form>_<line>[_<tag>] :
      (do let a0 <- Statutory.amount ...; let a1 <- ...
          pure (allTrue [lineGives year<y> Y<y>.c_<form> <inst> Y<y>.c_<form>_l<k>_<line> [inputs] [values] (expected), ...])) = some true

In the generated text the statement of an obligation is `def <id>_check : Option Bool := (do ...)` and the theorem is
`theorem <id> : <id>_check = some true`.  Starting a kernel check costs about half a second in this sandbox while one
more evaluation inside a running check costs about 0.05 s, so the holding obligations of a module are decided TOGETHER
(`theorem c08_batch_<year>_<k> : allSome [<id>_check, ...] = true := by decide +kernel`) and each `<id>` is projected out
of the batch with `C08.allSome_cons` (no re-evaluation, no definitional unfolding).  `--no-batch` gives one
`decide +kernel` per obligation (about four times slower; useful to locate a disagreement).

Each evaluation is first decided here by running the REAL code on the same stores (typed values, `MissingInput` /
`UnmetDependency` for names outside the stores).  When some evaluation fails, the obligation is emitted on its own as

    -- FAILED-OBLIGATION <id> <witness json>
    theorem <id> : <id>_check = some false := by decide +kernel      (the proved negation)
    theorem <id>_rest : (... failing points dropped ...) = some true (when points remain)

so everything else keeps being checked; if the real code and the Lean model ever disagree on an evaluation the generated
module does not build, which is the intended alarm.  Output is deterministic.  Only files written by this generator are
touched.

Map entries (tools/c08_map.json).  `thresholds`: {form, name, amount[, instance, times]}.  `lines`: {form, line[, years,
instance], checks: [...]}; a check has `amount` (names the obligation), optional `tag`, `years`, `statuses` (default: the
five statuses when a mentioned amount depends on the status, else the single pseudo-status `all`), `per_status`,
`inputs` / `values` (the tiny stores; names without a dot are relative to the form; values: true/false, ints,
`{"f": expr}` float, `{"i": expr}` int, `"$status"` / `"$status:mfj"` the filing-status member, other strings) and the
evaluations: explicit `points` [{inputs, values, expect, what}] and/or the shorthands
`echo` (the line returns the amount: {type, times}), `gate` ({probe: "v:<line>" | "i:<input>", of: expr, delta, below, at,
above}: the probe is set to the amount -delta / +0 / +delta and the outcomes are as given) and `coef` ({probe, n, op:
mul|div, type}: probe n gives n x amount, or probe n x amount gives n).  expr: a decimal string or {amt, times, plus, div}.
expect: {float: expr} | {int: expr} | {bool: b} | {str: s} | "notimpl" | {needV: line}.  `ignore`: {form, line, values,
why[, years]}: literals deliberately not checked, with the reason.
"""
import argparse
import json
import math
import os
import re
import sys
import warnings
from fractions import Fraction

HERE = os.path.dirname(os.path.abspath(__file__))
VERIF = os.path.dirname(HERE)
if HERE not in sys.path:
    sys.path.insert(0, HERE)

import c08_sites  # noqa: E402

YEARS = (2021, 2022, 2023)
STATUSES = ('single', 'mfj', 'mfs', 'hoh', 'qss')
STAT_PATH = os.path.join(HERE, 'c08_statutory.json')
MAP_PATH = os.path.join(HERE, 'c08_map.json')
SPEC_LEAN = os.path.join(VERIF, 'lean', 'HabuVerif', 'Spec', 'Statutory.lean')
MEMBER_OF = {
    2021: {'single': 'Single', 'mfj': 'MarriedFilingJointly', 'mfs': 'MarriedFilingSeparately', 'hoh': 'HeadOfHousehold',
           'qss': 'QualifyingWidowWidower'},
    2022: {'single': 'Single', 'mfj': 'MarriedFilingJointly', 'mfs': 'MarriedFilingSeparately', 'hoh': 'HeadOfHousehold',
           'qss': 'QualifyingSurvivingSpouse'},
}
MEMBER_OF[2023] = MEMBER_OF[2022]


class ToolTrouble(Exception):
    pass


def _repo():
    return os.environ.get('HABUTAX_REPO', '/repo')


# --------------------------------------------------------------------------------------------------
# the statutory table
# --------------------------------------------------------------------------------------------------
def load_statutory(path=STAT_PATH):
    with open(path, encoding='utf-8') as fh:
        return json.load(fh)


class Statutory(object):
    def __init__(self, data):
        self.data = data
        self.by_id = {a['id']: a for a in data['amounts']}

    def amount(self, year, status, aid):
        """Fraction or None"""
        a = self.by_id.get(aid)
        if a is None:
            return None
        v = a['values'].get(str(year))
        if v is None:
            return None
        s = v.get('all', v.get(status))
        return None if s is None else Fraction(s)

    def per_status(self, year, aid):
        a = self.by_id.get(aid)
        v = a and a['values'].get(str(year))
        return bool(v) and 'all' not in v

    def cite(self, year, aid):
        a = self.by_id.get(aid)
        return (a or {}).get('cite', {}).get(str(year))


def camel(s):
    parts = s.split('_')
    return parts[0] + ''.join(p[:1].upper() + p[1:] for p in parts[1:])


def lean_dec(fr):
    """`dec mant places` for an exact decimal Fraction"""
    fr = Fraction(fr)
    places = 0
    while (fr * 10 ** places).denominator != 1:
        places += 1
        if places > 12:
            raise ValueError(f'not a short decimal: {fr}')
    mant = int(fr * 10 ** places)
    return f'dec {mant} {places}' if mant >= 0 else f'dec ({mant}) {places}'


def lean_str(s):
    out = ['"']
    for ch in s:
        if ch == '"':
            out.append('\\"')
        elif ch == '\\':
            out.append('\\\\')
        elif ch == '\n':
            out.append('\\n')
        elif ord(ch) < 32 or ord(ch) > 126:
            out.append('\\u{%x}' % ord(ch))
        else:
            out.append(ch)
    out.append('"')
    return ''.join(out)


def render_spec(data):
    ids = [a['id'] for a in data['amounts']]
    L = []
    L.append('/-!')
    L.append('# C08 oracle: the published, year- and status-indexed statutory amounts')
    L.append('')
    L.append('Lean mirror of `tools/c08_statutory.json` (rendered by `tools/gen_c08.py --write-spec`, then COMMITTED: it is')
    L.append('not regenerated from the habutax tree and no number in it was read from the code).  `amount y s a` is the')
    L.append('published value of amount `a` for tax year `y` and filing status `s` as an exact rational (dollars; rates as')
    L.append('fractions), `none` when the table has no confident entry (such triples are reported as not covered).')
    L.append('`qss` is "Qualifying widow(er)" for 2021 and "Qualifying surviving spouse" from 2022.  Sources per entry:')
    L.append('`citation`.  Amounts the author of the table could not state with confidence are listed in `unverified`')
    L.append('(no value is recorded for them).  Core only.')
    L.append('-/')
    L.append('set_option autoImplicit false')
    L.append('set_option maxRecDepth 100000')
    L.append('')
    L.append('namespace HabuVerif.Spec.Statutory')
    L.append('')
    L.append('inductive Status where')
    L.append('  | single | mfj | mfs | hoh | qss')
    L.append('deriving DecidableEq, Repr, Inhabited')
    L.append('')
    L.append('/-- amount identifiers (the JSON ids in camel case) -/')
    L.append('inductive Amt where')
    for a in data['amounts']:
        L.append(f'  /-- {a["title"]} -/')
        L.append(f'  | {camel(a["id"])}')
    L.append('deriving DecidableEq, Repr, Inhabited')
    L.append('')
    L.append('/-- the exact decimal `mant · 10^(-places)` -/')
    L.append('def dec (mant : Int) (places : Nat) : Rat := mkRat mant (10 ^ places)')
    L.append('')
    L.append('structure Row where')
    L.append('  year : Nat')
    L.append('  /-- `none`: the amount does not depend on the filing status -/')
    L.append('  status : Option Status')
    L.append('  amt : Amt')
    L.append('  value : Rat')
    L.append('')
    rows = []
    for a in data['amounts']:
        for y in sorted(a['values']):
            v = a['values'][y]
            if 'all' in v:
                rows.append(f'  ⟨{y}, none, .{camel(a["id"])}, {lean_dec(Fraction(v["all"]))}⟩')
            else:
                for s in STATUSES:
                    rows.append(f'  ⟨{y}, some .{s}, .{camel(a["id"])}, {lean_dec(Fraction(v[s]))}⟩')
    L.append('def rows : List Row := [')
    L.append(',\n'.join(rows))
    L.append(']')
    L.append('')
    L.append('def Row.covers (r : Row) (y : Nat) (s : Status) (a : Amt) : Bool :=')
    L.append('  r.year == y && decide (r.amt = a) &&')
    L.append('    (match r.status with')
    L.append('     | none => true')
    L.append('     | some t => decide (t = s))')
    L.append('')
    L.append('/-- the published value, `none` when the table has no entry -/')
    L.append('def amount (y : Nat) (s : Status) (a : Amt) : Option Rat :=')
    L.append('  (rows.find? fun r => r.covers y s a).map (·.value)')
    L.append('')
    cites = []
    for a in data['amounts']:
        for y in sorted(a.get('cite', {})):
            cites.append(f'  ({y}, .{camel(a["id"])}, {lean_str(a["cite"][y])})')
    L.append('/-- where each entry was taken from -/')
    L.append('def citations : List (Nat × Amt × String) := [')
    L.append(',\n'.join(cites))
    L.append(']')
    L.append('')
    L.append('def citation (y : Nat) (a : Amt) : Option String :=')
    L.append('  (citations.find? fun c => c.1 == y && decide (c.2.1 = a)).map (·.2.2)')
    L.append('')
    L.append('/-- amounts used by the shipped forms for which NO value is recorded (not covered by C08) -/')
    L.append('def unverified : List (String × String) := [')
    L.append(',\n'.join(f'  ({lean_str(u["id"])}, {lean_str(u["what"] + ": " + u["why"])})' for u in data.get('unverified', [])))
    L.append(']')
    L.append('')
    L.append('end HabuVerif.Spec.Statutory')
    L.append('')
    return '\n'.join(L)


# --------------------------------------------------------------------------------------------------
# the REAL code as the mirror: line functions and Form.threshold called directly on tiny typed stores
# --------------------------------------------------------------------------------------------------
class RealYear(object):
    """The real form classes of one year, instantiated against a stub solver; `eval_line` calls the real
    `Field.value(inputs, values)` with accessors that raise the real MissingInput / UnmetDependency for names outside
    the given stores."""

    def __init__(self, year):
        repo = _repo()
        if not sys.path or sys.path[0] != repo:
            sys.path.insert(0, repo)
        sys.dont_write_bytecode = True
        with warnings.catch_warnings():
            warnings.simplefilter('ignore')
            import habutax.forms as hforms
            import habutax.form as hform
            import habutax.inputs as hinputs
            import habutax.values as hvalues
            import habutax.fields as hfields
            import habutax.enum as henum
        self.year = year
        self.hform, self.hinputs, self.hvalues, self.hfields, self.henum = hform, hinputs, hvalues, hfields, henum
        self.classes = {c.form_name: c for c in hforms.available_forms[year]}
        self.forms = _FormsDict(self)
        self._status_enum = None

    def form(self, name):
        return self.forms[name]

    def status_enum(self):
        if self._status_enum is None:
            f = self.form('1040')
            for i in f.inputs():
                if i.base_name() == 'filing_status':
                    self._status_enum = i.enum
        return self._status_enum

    def status_member(self, status):
        return self.status_enum()[MEMBER_OF[self.year][status]]

    def field(self, form_name, line):
        f = self.form(form_name)
        for fld in f.fields():
            if fld.base_name() == line:
                return f, fld
        raise KeyError(f'{self.year}: form {form_name} has no line {line!r}')

    def eval_line(self, form_name, line, inputs, values):
        """-> ('val', x) | ('notimpl',) | ('needV', name) | ('needI', name) | ('err', ExceptionName)"""
        form, fld = self.field(form_name, line)
        hi, hv = self.hinputs, self.hvalues

        class Inputs(dict):
            def __missing__(self, key):
                raise hi.MissingInput(key)

        class Values(dict):
            def __missing__(self, key):
                raise hv.UnmetDependency(key)

        acc_i = self.hform.FormAccessor(Inputs(inputs), form)
        acc_v = self.hform.FormAccessor(Values(values), form)
        try:
            return ('val', fld.value(acc_i, acc_v))
        except hv.UnmetDependency as e:
            return ('needV', e.dependency)
        except hi.MissingInput as e:
            return ('needI', e.input_name)
        except self.hfields.FieldNotImplemented:
            return ('notimpl',)
        except Exception as e:  # noqa: BLE001
            return ('err', type(e).__name__)

    def threshold(self, form_name, name, key):
        """-> ('ok', v) | ('err', ExceptionName)"""
        try:
            f = self.form(form_name)
            return ('ok', f.threshold(name, key) if key is not None else f.threshold(name))
        except Exception as e:  # noqa: BLE001
            return ('err', type(e).__name__)


class _FormsDict(dict):
    """`solver.forms`: every form of the year counts as loaded (constructed on first use)"""

    def __init__(self, ry):
        super().__init__()
        self.ry = ry
        self.forms = self          # the stub solver IS this object: `form.solver().forms[name]`

    def __missing__(self, name):
        cname, inst = self.ry.hform.name_and_instance(name)
        cls = self.ry.classes[cname]
        with warnings.catch_warnings():
            warnings.simplefilter('ignore')
            f = cls(solver=self, instance=inst)
        self[name] = f
        return f


# --------------------------------------------------------------------------------------------------
# expressions over published amounts
# --------------------------------------------------------------------------------------------------
def expr_amounts(e):
    """amount ids mentioned by a value expression"""
    if isinstance(e, dict) and 'amt' in e:
        return [e['amt']]
    return []


def expr_value(e, lookup):
    """Fraction of a value expression; lookup(id) -> Fraction"""
    if isinstance(e, dict):
        v = lookup(e['amt']) * Fraction(str(e.get('times', '1'))) + Fraction(str(e.get('plus', '0')))
        if 'div' in e:
            v = v / Fraction(str(e['div']))
        return v
    return Fraction(str(e))


def expr_lean(e, names):
    """Lean Rat term of a value expression; names: id -> bound variable"""
    if isinstance(e, dict):
        t = names[e['amt']]
        times = Fraction(str(e.get('times', '1')))
        plus = Fraction(str(e.get('plus', '0')))
        if times != 1:
            t = f'{t} * Statutory.{lean_dec(times)}'
        if plus > 0:
            t = f'{t} + Statutory.{lean_dec(plus)}'
        elif plus < 0:
            t = f'{t} - Statutory.{lean_dec(-plus)}'
        if 'div' in e:
            t = f'({t}) / Statutory.{lean_dec(Fraction(str(e["div"])))}'
        return f'({t})' if ' ' in t else t
    return f'(Statutory.{lean_dec(Fraction(str(e)))})'


class Ctx(object):
    """what is needed to turn map entries into Python values and Lean terms for one (year, status)"""

    def __init__(self, year, status, stat, real, enum_id, names):
        self.year, self.status, self.stat, self.real, self.enum_id, self.names = year, status, stat, real, enum_id, names

    def lookup(self, aid):
        v = self.stat.amount(self.year, 'single' if self.status == 'all' else self.status, aid)
        if v is None:
            raise KeyError(aid)
        return v

    def py_value(self, v):
        if isinstance(v, bool):
            return v
        if isinstance(v, int):
            return v
        if isinstance(v, str):
            if v == '$status':
                return self.real.status_member(self.status)
            if v.startswith('$status:'):
                return self.real.status_member(v.split(':', 1)[1])
            return v
        if isinstance(v, dict):
            if 'f' in v:
                return float(expr_value(v['f'], self.lookup))
            if 'i' in v:
                q = expr_value(v['i'], self.lookup)
                if q.denominator != 1:
                    raise ValueError(f'int value is not integral: {q}')
                return int(q)
            if 'enum' in v:
                return getattr(self.real.henum, v['enum'][0])[v['enum'][1]]
        raise ValueError(f'c08_map: cannot read store value {v!r}')

    def lean_value(self, v):
        if isinstance(v, bool):
            return f'.bool {"true" if v else "false"}'
        if isinstance(v, int):
            return f'.int {v}' if v >= 0 else f'.int ({v})'
        if isinstance(v, str):
            if v == '$status':
                return f'.enumv {lean_str(self.enum_id)} {lean_str(MEMBER_OF[self.year][self.status])}'
            if v.startswith('$status:'):
                return f'.enumv {lean_str(self.enum_id)} {lean_str(MEMBER_OF[self.year][v.split(":", 1)[1]])}'
            return f'.str {lean_str(v)}'
        if isinstance(v, dict):
            if 'f' in v:
                return f'flt {expr_lean(v["f"], self.names)}'
            if 'i' in v:
                q = expr_value(v['i'], self.lookup)
                return f'.int {int(q)}' if q >= 0 else f'.int ({int(q)})'
            if 'enum' in v:
                return f'.enumv {lean_str(v["enum"][0])} {lean_str(v["enum"][1])}'
        raise ValueError(f'c08_map: cannot render store value {v!r}')


def value_amounts(v):
    if isinstance(v, dict):
        for k in ('f', 'i'):
            if k in v:
                return expr_amounts(v[k])
    return []


def expect_amounts(e):
    if isinstance(e, dict):
        for k in ('float', 'int'):
            if k in e:
                return expr_amounts(e[k])
    return []


def expect_matches(e, out, lookup):
    if e == 'notimpl':
        return out == ('notimpl',)
    if 'needV' in e:
        return out == ('needV', e['needV'])
    if out[0] != 'val':
        return False
    if 'str' in e:
        return type(out[1]) is str and out[1] == e['str']
    x = out[1]
    if 'bool' in e:
        return type(x) is bool and x == bool(e['bool'])
    if 'float' in e:
        q = expr_value(e['float'], lookup)
        return type(x) is float and math.isfinite(x) and x == float(q)
    if 'int' in e:
        q = expr_value(e['int'], lookup)
        return type(x) is int and Fraction(x) == q
    raise ValueError(f'c08_map: cannot read expectation {e!r}')


def expect_lean(e, names):
    if e == 'notimpl':
        return '.notImpl'
    if 'needV' in e:
        return f'(.needV {lean_str(e["needV"])})'
    if 'str' in e:
        return f'(.str {lean_str(e["str"])})'
    if 'bool' in e:
        return f'(.bool {"true" if e["bool"] else "false"})'
    if 'float' in e:
        return f'(.float {expr_lean(e["float"], names)})'
    if 'int' in e:
        return f'(.int {expr_lean(e["int"], names)})'
    raise ValueError(f'c08_map: cannot render expectation {e!r}')


def show_out(out):
    if out[0] == 'val':
        x = out[1]
        return {'val': x if isinstance(x, (bool, int, float, str)) or x is None else str(x)}
    return {out[0]: out[1] if len(out) > 1 else True}


# --------------------------------------------------------------------------------------------------
# expanding the map
# --------------------------------------------------------------------------------------------------
def expand_points(chk):
    """the explicit evaluation points of a check (the `gate` / `echo` / `coef` shorthands expanded)"""
    pts = [dict(p) for p in chk.get('points', [])]
    if 'echo' in chk:
        e = chk['echo']
        kind = e.get('type', 'float')
        pts.append({'expect': {kind: {'amt': e.get('amt', chk['amount']), 'times': e.get('times', '1')}},
                    'what': 'the line returns the published amount'})
    if 'gate' in chk:
        g = chk['gate']
        amt_expr = dict(g.get('of', {'amt': chk['amount']}))
        delta = Fraction(str(g.get('delta', '0.01')))
        base_plus = Fraction(str(amt_expr.get('plus', '0')))
        store, name = g['probe'].split(':', 1)
        typ = g.get('type', 'f')
        for where, d in (('below', -delta), ('at', Fraction(0)), ('above', delta)):
            if where not in g:
                continue
            ex = dict(amt_expr)
            ex['plus'] = str(base_plus + d)
            pts.append({('values' if store == 'v' else 'inputs'): {name: {typ: ex}}, 'expect': g[where],
                        'what': f'{name} {where} the published limit' + ('' if where == 'at' else f' by {delta}')})
    if 'coef' in chk:
        c = chk['coef']
        store, name = c['probe'].split(':', 1)
        n = Fraction(str(c.get('n', '10000000')))
        amt_expr = {'amt': c.get('amt', chk['amount'])}
        typ = c.get('type', 'f')
        if c.get('op', 'mul') == 'mul':
            pts.append({('values' if store == 'v' else 'inputs'): {name: ({typ: str(n)} if typ == 'f' else int(n))},
                        'expect': {c.get('result', 'float'): dict(amt_expr, times=str(n))},
                        'what': f'{name} = {n}: the line returns {n} x the published amount'})
        else:   # probe / amount
            pts.append({('values' if store == 'v' else 'inputs'): {name: {typ: dict(amt_expr, times=str(n))}},
                        'expect': {c.get('result', 'float'): str(n)},
                        'what': f'{name} = {n} x the published amount: the line returns {n}'})
    return pts


def check_amounts(chk):
    """every amount id a check mentions (primary first)"""
    ids = [chk['amount']]
    for p in expand_points(chk):
        for store in ('inputs', 'values'):
            for v in p.get(store, {}).values():
                ids += value_amounts(v)
        ids += expect_amounts(p.get('expect'))
    for store in ('inputs', 'values'):
        for v in chk.get(store, {}).values():
            ids += value_amounts(v)
    for d in chk.get('derived', []):
        ids += expr_amounts(d)
    out = []
    for i in ids:
        if i not in out:
            out.append(i)
    return out


def qualify(form_name, key):
    return key if '.' in key else f'{form_name}.{key}'


# --------------------------------------------------------------------------------------------------
# Lean text
# --------------------------------------------------------------------------------------------------
def lean_ident(s):
    out = re.sub(r'[^A-Za-z0-9]', '_', s)
    return out


def comment_safe(s):
    s = str(s).replace('\n', ' ').replace('\r', ' ')
    s = s.replace('-/', '- /').replace('/-', '/ -')
    return s.encode('ascii', 'backslashreplace').decode('ascii')


CHUNK = 60      # obligations per generated module (modules are checked in parallel by lake)
BATCH = True    # prove the holding obligations of a module by one kernel evaluation (--no-batch: one each)


class Module(object):
    def __init__(self, year, doc, part=None):
        self.name = f'HabuVerif.Gen.C08_{year}' + ('' if part is None else f'_{part}')
        self.lines = ['import HabuVerif.Refl.C08Checks', f'import HabuVerif.Gen.Catalogue{year}', '/-!']
        self.lines += doc
        self.lines += ['-/', 'set_option autoImplicit false', 'set_option maxRecDepth 100000', '',
                       'namespace HabuVerif.Gen', 'open HabuVerif HabuVerif.Dsl HabuVerif.Spec HabuVerif.C08', '']

    def add(self, *ls):
        self.lines.extend(ls)

    def text(self):
        return '\n'.join(self.lines + ['', 'end HabuVerif.Gen', ''])


class Chunked(object):
    """a year's obligations spread over modules of at most CHUNK obligations.  Inside a module the holding
    obligations are proved TOGETHER by one kernel evaluation (`c08_batch_<year>_<k>`): starting a kernel check costs
    about half a second in this sandbox while one more evaluation inside a running check costs about 0.05 s; each
    obligation's own theorem is then a projection of the batch (`allSome_cons`), which re-evaluates nothing."""

    def __init__(self, year, doc, batch=True):
        self.year, self.doc, self.batch = year, doc, batch
        self.parts = []
        self.held = []
        self.count = CHUNK

    @property
    def name(self):
        return self.parts[-1].name

    def begin(self):
        if self.count >= CHUNK:
            self.flush()
            self.parts.append(Module(self.year, self.doc, part=len(self.parts)))
            self.count = 0
        self.count += 1

    def add(self, *ls):
        self.parts[-1].add(*ls)

    def hold(self, oid):
        self.held.append(oid)

    def flush(self):
        if not self.parts or not self.held:
            self.held = []
            return
        m = self.parts[-1]
        if not self.batch:
            for oid in self.held:
                m.add(f'theorem {oid} : {oid}_check = some true := by decide +kernel', '')
            self.held = []
            return
        bname = f'c08_batch_{self.year}_{len(self.parts) - 1}'
        m.add(f'/-- the {len(self.held)} holding obligations of this module, decided by ONE kernel evaluation -/',
              f'theorem {bname} : allSome [', ',\n'.join(f'    {oid}_check' for oid in self.held),
              '  ] = true := by decide +kernel', '')
        for k, oid in enumerate(self.held):
            term = bname
            for _ in range(k):
                term = f'(allSome_cons _ _ {term}).2'
            m.add(f'theorem {oid} : {oid}_check = some true := (allSome_cons _ _ {term}).1')
        m.add('')
        self.held = []


def lean_store(pairs):
    return '[' + ', '.join(f'({lean_str(n)}, {v})' for n, v in pairs) + ']'


def statement(binds, items):
    """binds: [(var, year, status, amount id)]; items: [Lean Bool terms]"""
    L = ['(do']
    for var, y, s, aid in binds:
        L.append(f'    let {var} ← Statutory.amount {y} .{s} .{camel(aid)}')
    L.append('    pure (allTrue [')
    L.append(',\n'.join('      ' + it for it in items))
    L.append('    ]))')
    return '\n'.join(L)


class Registry(object):
    def __init__(self):
        self.obligations = []
        self.failed = []

    def emit(self, mod, oid, rec, binds, items, oks, witnesses):
        """items/oks parallel.  A holding obligation becomes `def <oid>_check`, a member of the module's batch theorem
        and `theorem <oid> : <oid>_check = some true` (projected out of the batch without re-evaluation); a failing one
        is emitted on its own as the proved negation (+ `<oid>_rest`)."""
        mod.begin()
        rec = dict(rec, id=oid, module=mod.name, holds=all(oks), points=len(items))
        mod.add(f'def {oid}_check : Option Bool :=\n  {statement(binds, items)}', '')
        if all(oks):
            mod.hold(oid)
        else:
            for w in witnesses:
                mod.add(f'-- FAILED-OBLIGATION {oid} {comment_safe(json.dumps(w, sort_keys=True, default=str))}')
            mod.add(f'theorem {oid} : {oid}_check = some false := by decide +kernel', '')
            rest = [it for it, ok in zip(items, oks) if ok]
            if rest:
                mod.add(f'theorem {oid}_rest :\n  {statement(binds, rest)} = some true := by decide +kernel', '')
                rec['rest'] = oid + '_rest'
            rec['witnesses'] = witnesses
            self.failed.append({k: rec[k] for k in ('id', 'property', 'year', 'status', 'amount', 'site', 'check', 'witnesses')})
        self.obligations.append(rec)


# --------------------------------------------------------------------------------------------------
# generation
# --------------------------------------------------------------------------------------------------
def class_ident(form):
    return 'c_' + ''.join(ch if ch.isalnum() else '_' for ch in form)


def line_ident(ir_class, line):
    for k, l in enumerate(ir_class['lines']):
        if l['name'] == line:
            return f'{class_ident(ir_class["name"])}_l{k}_' + ''.join(ch if ch.isalnum() else '_' for ch in line)
    return None


def gen_year(year, stat, cmap, reg, notes):
    ir = c08_sites.load_ir(year)
    enum_id, members = c08_sites.status_enum_of(ir)
    real = RealYear(year)
    classes = {c['name']: c for c in ir['classes']}
    doc = [f'# C08 obligations for tax year {year} (GENERATED by tools/gen_c08.py -- do not edit)', '',
           'One theorem per (year, filing status, statutory amount, site); see `Refl/C08Checks.lean` for the',
           'checks and `Spec/Statutory.lean` for the published amounts they are compared with.']
    mod = Chunked(year, doc, batch=BATCH)
    n_before = len(reg.obligations)
    not_covered = []

    def statuses_for(entry, aids):
        if entry.get('statuses'):
            return list(entry['statuses'])
        per = entry.get('per_status')
        if per is None:
            per = any(stat.per_status(year, a) for a in aids)
        return list(STATUSES) if per else ['all']

    # ---- threshold tables
    for e in cmap.get('thresholds', []):
        if not c08_sites.applies(e, year) or not e.get('amount'):
            continue
        c = classes.get(e['form'])
        t = c and dict((n, t) for n, t in c['thresholds']).get(e['name'])
        if t is None:
            if e.get('years') is None and not any(e['name'] == n for cc in classes.values() for n, _ in cc['thresholds']):
                continue        # this year does not use threshold tables for the amount (2021/2022: inline chains)
            notes.append(f'{year}: mapped threshold {e["form"]}.{e["name"]} does not exist on this tree')
            continue
        aid = e['amount']
        is_table = t[0] == 'table'
        for status in (STATUSES if is_table else ['all']):
            lk = 'single' if status == 'all' else status
            if stat.amount(year, lk, aid) is None:
                not_covered.append({'year': year, 'status': status, 'amount': aid, 'site': f'th:{e["form"]}.{e["name"]}',
                                    'why': 'no confident published value in the table'})
                continue
            key = real.status_member(status) if is_table else None
            out = real.threshold(e['form'] if not e.get('instance') else f"{e['form']}:{e['instance']}", e['name'], key)
            want = stat.amount(year, lk, aid) * Fraction(str(e.get('times', '1')))
            ok = out[0] == 'ok' and type(out[1]) in (int, float) and \
                ((type(out[1]) is int and Fraction(out[1]) == want) or (type(out[1]) is float and out[1] == float(want)))
            keyterm = f'(some (.enumv {lean_str(enum_id)} {lean_str(MEMBER_OF[year][status])}))' if is_table else 'none'
            a0 = 'a0' if Fraction(str(e.get('times', '1'))) == 1 else f'(a0 * Statutory.{lean_dec(Fraction(str(e["times"])))})'
            item = f'thresholdIs Y{year}.{class_ident(e["form"])}.thresholds {lean_str(e["name"])} {keyterm} {a0}'
            oid = f'c08_{year}_{status}_{aid}__th_{lean_ident(e["form"])}_{lean_ident(e["name"])}'
            wit = [] if ok else [{'site': f'{e["form"]} thresholds[{e["name"]!r}]', 'status': status,
                                  'published': str(want), 'found': show_out(('val', out[1]) if out[0] == 'ok' else out),
                                  'cite': stat.cite(year, aid)}]
            reg.emit(mod, oid, {'property': 'C08', 'year': year, 'status': status, 'amount': aid,
                                'site': f'th:{e["form"]}.{e["name"]}', 'kind': 'threshold',
                                'check': 'the threshold table entry equals the published amount'},
                     [('a0', year, lk, aid)], [item], [ok], wit)

    # ---- line programs
    for e in cmap.get('lines', []):
        if not c08_sites.applies(e, year):
            continue
        for chk in e.get('checks', []):
            if not c08_sites.applies(chk, year):
                continue
            form, line = e['form'], e['line']
            inst = chk.get('instance', e.get('instance'))
            fname = form if inst is None else f'{form}:{inst}'
            c = classes.get(form)
            lid = c and line_ident(c, line)
            if lid is None:
                notes.append(f'{year}: mapped line {form}.{line} does not exist on this tree')
                continue
            aids = check_amounts(chk)
            pts = expand_points(chk)
            for status in statuses_for(chk, aids):
                lk = 'single' if status == 'all' else status
                missing = [a for a in aids if stat.amount(year, lk, a) is None]
                if missing:
                    not_covered.append({'year': year, 'status': status, 'amount': chk['amount'], 'site': f'ln:{form}.{line}',
                                        'why': f'no confident published value for {missing}'})
                    continue
                names = {a: f'a{k}' for k, a in enumerate(aids)}
                ctx = Ctx(year, status, stat, real, enum_id, names)
                items, oks, wits = [], [], []
                for k, p in enumerate(pts):
                    ins = dict(chk.get('inputs', {}))
                    ins.update(p.get('inputs', {}))
                    vals = dict(chk.get('values', {}))
                    vals.update(p.get('values', {}))
                    if status == 'all':
                        ins = {n: v for n, v in ins.items() if v != '$status'}
                    py_i = {qualify(fname, n): ctx.py_value(v) for n, v in ins.items()}
                    py_v = {qualify(fname, n): ctx.py_value(v) for n, v in vals.items()}
                    out = real.eval_line(fname, line, py_i, py_v)
                    ok = expect_matches(p['expect'], out, ctx.lookup)
                    li = lean_store([(qualify(fname, n), ctx.lean_value(v)) for n, v in ins.items()])
                    lv = lean_store([(qualify(fname, n), ctx.lean_value(v)) for n, v in vals.items()])
                    instterm = 'none' if inst is None else f'(some {lean_str(inst)})'
                    items.append(f'lineGives year{year} Y{year}.{class_ident(form)} {instterm} Y{year}.{lid} {li} {lv} '
                                 f'{expect_lean(p["expect"], names)}')
                    oks.append(ok)
                    if not ok:
                        wits.append({'site': f'{fname}.{line}', 'status': status, 'point': k, 'what': p.get('what', ''),
                                     'inputs': {n: str(v) for n, v in py_i.items()}, 'values': {n: repr(v) for n, v in py_v.items()},
                                     'expected': p['expect'], 'published': {a: str(ctx.lookup(a)) for a in aids},
                                     'real': show_out(out), 'cite': stat.cite(year, chk['amount'])})
                tag = ('_' + lean_ident(chk['tag'])) if chk.get('tag') else ''
                oid = f'c08_{year}_{status}_{chk["amount"]}__ln_{lean_ident(form)}_{lean_ident(line)}{tag}'
                reg.emit(mod, oid, {'property': 'C08', 'year': year, 'status': status, 'amount': chk['amount'], 'amounts': aids,
                                    'site': f'ln:{fname}.{line}', 'kind': 'line',
                                    'check': chk.get('what', 'the line, evaluated at the published amount and one step either side, answers as published')},
                         [(names[a], year, lk, a) for a in aids], items, oks, wits)
    mod.flush()
    return mod, not_covered, len(reg.obligations) - n_before


OWN_FILES = re.compile(r'^(C08_\d{4}(_\d+)?\.lean|C08\.lean|c08_failed\.json|c08_obligations\.json)$')


def check_spec_mirror(data):
    want = render_spec(data)
    try:
        have = open(SPEC_LEAN, encoding='utf-8').read()
    except FileNotFoundError:
        raise ToolTrouble(f'{SPEC_LEAN} is missing (render it with --write-spec)')
    if have != want:
        raise ToolTrouble('lean/HabuVerif/Spec/Statutory.lean is not the mirror of tools/c08_statutory.json '
                          '(re-render with gen_c08.py --write-spec and review the diff)')


def generate(out_dir, check_mirror=True):
    data = load_statutory()
    if check_mirror:
        check_spec_mirror(data)
    stat = Statutory(data)
    with open(MAP_PATH, encoding='utf-8') as fh:
        cmap = json.load(fh)
    os.makedirs(out_dir, exist_ok=True)
    for fn in os.listdir(out_dir):
        if OWN_FILES.match(fn):
            os.remove(os.path.join(out_dir, fn))
    reg = Registry()
    notes = []
    mods = []
    summary = {}
    not_covered = []
    survey = {}
    for y in YEARS:
        mod, nc, n = gen_year(y, stat, cmap, reg, notes)
        mods.append(mod)
        not_covered += nc
        sites = c08_sites.classify(c08_sites.find_sites(y), cmap, stat,
                                   failed_sites={f['site'] for f in reg.failed if f['year'] == y})
        survey[str(y)] = sites
        summary[str(y)] = dict(c08_sites.summary({str(y): sites})[str(y)], obligations=n,
                               failed=sum(1 for f in reg.failed if f['year'] == y))
    agg = [f'import HabuVerif.Gen.C08_{m.year}' for m in mods]
    agg += ['/-!', '# C08 generated obligations (GENERATED by tools/gen_c08.py -- do not edit)', '',
            f'{len(reg.obligations)} obligations, {len(reg.failed)} of them false on this tree (proved negations; see',
            '`c08_failed.json`).', '-/', '']
    files = {'C08.lean': '\n'.join(agg)}
    for m in mods:
        n = sum(1 for o in reg.obligations if o['year'] == m.year)
        nf = sum(1 for f in reg.failed if f['year'] == m.year)
        files[f'C08_{m.year}.lean'] = '\n'.join(
            ['import ' + p.name for p in m.parts] +
            ['/-!', f'# C08 obligations for tax year {m.year} (GENERATED by tools/gen_c08.py -- do not edit)', '',
             f'{n} obligations in {len(m.parts)} modules, {nf} of them false on this tree (proved negations).', '-/', ''])
        for p in m.parts:
            files[p.name.rsplit('.', 1)[1] + '.lean'] = p.text()
    files['c08_failed.json'] = json.dumps(reg.failed, indent=1, sort_keys=True, default=str) + '\n'
    uncovered = [dict(year=int(y), **{k: s.get(k) for k in ('kind', 'form', 'line', 'name', 'value', 'statuses', 'class', 'state')})
                 for y, ss in survey.items() for s in ss if s['state'] in ('uncovered', 'mismatch')]
    seen = set()
    for ob in reg.obligations:
        for a in ob.get('amounts', [ob['amount']]):
            for st in (STATUSES if ob['status'] == 'all' else [ob['status']]):
                seen.add((ob['year'], st, a))
    no_site = sorted({(int(y), a['id']) for a in data['amounts'] for y in a['values']
                      if not any((int(y), st, a['id']) in seen for st in STATUSES)})
    files['c08_obligations.json'] = json.dumps(
        {'summary': summary, 'obligations': reg.obligations, 'not_covered_triples': not_covered,
         'table_entries_without_site': [{'year': y, 'amount': a} for y, a in no_site],
         'uncovered_sites': uncovered, 'unverified_amounts': data.get('unverified', []), 'notes': notes},
        indent=1, sort_keys=True, default=str) + '\n'
    for fn, text in files.items():
        with open(os.path.join(out_dir, fn), 'w', encoding='utf-8') as fh:
            fh.write(text)
    return reg, summary, notes


def main(argv=None):
    ap = argparse.ArgumentParser()
    ap.add_argument('--out-dir', default=os.path.join(VERIF, 'lean', 'HabuVerif', 'Gen'))
    ap.add_argument('--write-spec')
    ap.add_argument('--no-mirror-check', action='store_true')
    ap.add_argument('--quiet', action='store_true')
    ap.add_argument('--no-batch', action='store_true', help='one kernel evaluation per obligation (slow; to locate a model/real disagreement)')
    args = ap.parse_args(argv)
    global BATCH
    BATCH = not args.no_batch
    if args.write_spec:
        with open(args.write_spec, 'w', encoding='utf-8') as fh:
            fh.write(render_spec(load_statutory()))
        return 0
    try:
        reg, summary, notes = generate(args.out_dir, check_mirror=not args.no_mirror_check)
    except ToolTrouble as e:
        print(f'gen_c08: {e}', file=sys.stderr)
        return 2
    if not args.quiet:
        print(json.dumps({'obligations': len(reg.obligations), 'failed': [f['id'] for f in reg.failed],
                          'summary': summary, 'notes': notes}, indent=1))
    return 0


if __name__ == '__main__':
    sys.exit(main())
