#!/usr/bin/env python3
"""Generate the Lean reflection obligations of C07 (income tax follows the statutory rate schedule).

    python gen_c07.py [--out-dir DIR] [--brackets FILE] [--quiet]

For each tax year 2021..2023 reads `$HABUTAX_REPO/habutax/forms/ty<year>/f1040_figure_tax.py` (default /repo)

  * `TAX_TABLE` and `TAX_WORKSHEET_VALUES`: from the SOURCE TEXT with `ast`; every numeric literal is converted from
    its text with `fractions.Fraction` (never through float) and cross-checked against the imported module;
  * the comparison operators of `figure_tax_table` / `figure_tax_worksheet`, the table/worksheet switch and the
    status -> index chain of `figure_tax`: read off the AST, then validated behaviourally (the real functions are
    called at probe incomes and compared with the Python mirror of the Lean model);

and EMITS under <out-dir> (default /verif/lean/HabuVerif/Gen)

    C07_<year>.lean        data + obligations (`decide +kernel`) + the per-year instances of the general theorems
    C07.lean               imports the three
    c07_failed.json        obligations that are FALSE on this tree, with concrete witnesses
    c07_obligations.json   every obligation with its status and the counts behind it

Obligations per year (checks: HabuVerif/Spec/FigureTax.lean; meaning: HabuVerif/Proofs/C07Lemmas.lean):

    table_literals_<y>    every TAX_TABLE literal is a whole number >= 0 and every row has 6 entries
    table_ordered_<y>     rows are non-empty and never overlap / go backwards, the last ends at or before 100000
    table_contiguous_<y>  first row starts at 0, each starts where the previous ended, last ends at 100000, lo < hi
    table_gaps_<y>        (always proved) the exact list of holes `tableGaps 0 table 100000 = [...]`
    table_cells_<y>       every cell = schedule at the row midpoint rounded half-up to dollars
    table_monotone_<y>    each column non-decreasing down the rows
    table_width_<y>       no row wider than $50
    worksheet_<y>         4 sections: rows chain from 100000 to >= 10^12, each row is the bracket formula on its
                          interval (slope and intercept compared as rationals), junction with the last table cell
                          (also stated per section: worksheet_<y>_<col>, junction_<y>_<col>)
    code_shape_<y>        the comparison operators / switch are the ones the general theorems cover
    status_columns_<y>    every status is sent to its statutory column
    qss_eq_mfj_<y>        QualifyingSurvivingSpouse(/QualifyingWidowWidower) and MFJ are sent to the same data

Each is evaluated here first (a line-by-line Python mirror of the Lean check; the bracket ends are parsed out of
Spec/Brackets.lean so that there is one source of truth).  A false obligation is emitted as

    -- FAILED-OBLIGATION <id> <witness json>
    theorem <id> : <check> = false := by decide +kernel            (the proved negation)

so the other obligations keep being checked; if mirror and Lean ever disagree the generated module does not build.
Output is deterministic (no timestamps).  Only files written by this generator are touched.
"""
import argparse
import ast
import importlib
import json
import os
import re
import sys
import warnings
from fractions import Fraction

HERE = os.path.dirname(os.path.abspath(__file__))
VERIF = os.path.dirname(HERE)
REPO = os.environ.get('HABUTAX_REPO', '/repo')
YEARS = (2021, 2022, 2023)
CHUNK = 200
COLS = ('single', 'mfj', 'mfs', 'hoh')
STATUSES = ('single', 'mfj', 'mfs', 'hoh', 'qss')
SPEC_COL = {'single': 'single', 'mfj': 'mfj', 'mfs': 'mfs', 'hoh': 'hoh', 'qss': 'mfj'}
MEMBER_TO_STATUS = {
    'Single': 'single', 'MarriedFilingJointly': 'mfj', 'MarriedFilingSeparately': 'mfs', 'HeadOfHousehold': 'hoh',
    'QualifyingSurvivingSpouse': 'qss', 'QualifyingWidowWidower': 'qss',
}
TABLE_TOP = 100000
WS_TOP = Fraction(10 ** 12)
LOWER_PCTS = (10, 12, 22, 24, 32, 35)
TOP_PCT = 37
MAX_WIDTH = 50
CMP_OF_AST = {ast.Lt: 'lt', ast.LtE: 'le', ast.Gt: 'gt', ast.GtE: 'ge'}
CFG_STD = dict(switchCmp='lt', switchAt=Fraction(100000), tblLo='ge', tblHi='lt', wsFirstLo='ge', wsRestLo='gt',
               wsHi='le')
CFG_STD2021 = dict(CFG_STD, wsRestLo='ge')


class Unrecognised(Exception):
    pass


# --------------------------------------------------------------------------------------------------
# reading the statutory schedule out of Spec/Brackets.lean (single source of truth for the mirror)
# --------------------------------------------------------------------------------------------------
def read_brackets(path):
    text = open(path, encoding='utf-8').read()
    out = {}
    for m in re.finditer(r'\|\s*\.y(\d{4}),\s*\.(\w+)\s*=>\s*\[([0-9,\s]+)\]', text):
        out[(int(m.group(1)), m.group(2))] = [int(t) for t in m.group(3).split(',')]
    want = {(y, c) for y in YEARS for c in COLS}
    if set(out) != want or any(len(v) != 6 for v in out.values()):
        raise SystemExit(f'gen_c07: cannot read the 12 schedules out of {path}')
    pcts = re.search(r'def lowerPcts : List Nat := \[([0-9,\s]+)\]', text)
    top = re.search(r'def topPct : Nat := (\d+)', text)
    if not pcts or [int(t) for t in pcts.group(1).split(',')] != list(LOWER_PCTS) or not top or int(top.group(1)) != TOP_PCT:
        raise SystemExit(f'gen_c07: rates in {path} differ from the mirror')
    return out


# --------------------------------------------------------------------------------------------------
# Python mirror of Spec/Brackets.lean and Spec/FigureTax.lean
# --------------------------------------------------------------------------------------------------
def tax_above_n(prev2, brs, top, x2):
    """== Spec.taxAboveN (truncated subtraction as in Nat)"""
    total = 0
    for e, r in brs:
        if x2 <= 2 * e:
            return total + r * max(x2 - prev2, 0)
        total += r * max(2 * e - prev2, 0)
        prev2 = 2 * e
    return total + top * max(x2 - prev2, 0)


def table_cell_n(ends, lo, hi):
    """== Spec.tableCellN"""
    return (tax_above_n(0, list(zip(ends, LOWER_PCTS)), TOP_PCT, lo + hi) + 100) // 200


def rows_ordered(cur, tbl, top):
    for r in tbl:
        if not (cur <= r[0] and r[0] < r[1]):
            return False
        cur = r[1]
    return cur <= top


def table_gaps(cur, tbl, top):
    gaps = []
    for r in tbl:
        if cur != r[0]:
            gaps.append((cur, r[0]))
        cur = r[1]
    if cur != top:
        gaps.append((cur, top))
    return gaps


def col_monotone(tbl, k):
    return all(tbl[i][2 + k] <= tbl[i + 1][2 + k] for i in range(len(tbl) - 1))


def rows_width_le(w, tbl):
    return all(r[1] <= r[0] + w for r in tbl)


def pieces(ends):
    """== Spec.pieces 0 0 (brackets y c) topRate : list of (lo, hi|None, slope, icpt)"""
    out, prev, acc = [], Fraction(0), Fraction(0)
    for e, p in zip(ends, LOWER_PCTS):
        e, r = Fraction(e), Fraction(p, 100)
        out.append((prev, e, r, acc - r * prev))
        acc = acc + r * (e - prev)
        prev = e
    top = Fraction(TOP_PCT, 100)
    out.append((prev, None, top, acc - top * prev))
    return out


def ws_row_ok(ends, w):
    lo, hi, rate, sub = w
    return any(p[0] <= lo and (p[1] is None or hi <= p[1]) and rate == p[2] and -sub == p[3] for p in pieces(ends))


def ws_chain(ends, cur, rows):
    """== Spec.wsChain; returns (end | None, index of the first offending row | None)"""
    for i, w in enumerate(rows):
        if not (w[0] == cur and w[0] < w[1] and ws_row_ok(ends, w)):
            return None, i
        cur = w[1]
    return cur, None


def ws_section_ok(ends, rows):
    e, _ = ws_chain(ends, Fraction(TABLE_TOP), rows)
    return e is not None and WS_TOP <= e


def junction_ok(tbl, k, rows):
    if not tbl or not rows:
        return False
    return Fraction(tbl[-1][2 + k]) <= TABLE_TOP * rows[0][2] - rows[0][3]


def cmp_holds(op, a, b):
    if op == 'lt':
        return a < b
    if op == 'le':
        return a <= b
    if op == 'gt':
        return a > b
    return a >= b


def figure_tax_q(d, x, st):
    """== Spec.figureTaxQ : ('ok', Fraction) | ('assertion',) | ('typeError',)"""
    cfg = d['cfg']
    col = d['statusCol'].get(st)
    if cmp_holds(cfg['switchCmp'], x, cfg['switchAt']):
        for r in d['table']:
            if cmp_holds(cfg['tblLo'], x, r[0]) and cmp_holds(cfg['tblHi'], x, r[1]):
                if col is None:
                    return ('typeError',)
                return ('ok', Fraction(r[2 + COLS.index(col)]))
        return ('assertion',)
    if col is None:
        return ('typeError',)
    first = True
    for w in d['ws'][col]:
        lower = cmp_holds(cfg['wsFirstLo'] if first else cfg['wsRestLo'], x, w[0])
        if lower and cmp_holds(cfg['wsHi'], x, w[1]):
            return ('ok', x * w[2] - w[3])
        first = False
    return ('assertion',)


# --------------------------------------------------------------------------------------------------
# reading the source
# --------------------------------------------------------------------------------------------------
class Source(object):
    def __init__(self, path):
        self.path = path
        self.text = open(path, encoding='utf-8').read()
        self.lines = [l.encode('utf-8') for l in self.text.split('\n')]
        self.tree = ast.parse(self.text, filename=path)

    def segment(self, node):
        if node.lineno != node.end_lineno:
            return ast.get_source_segment(self.text, node)
        return self.lines[node.lineno - 1][node.col_offset:node.end_col_offset].decode('utf-8')

    def assigned(self, name):
        for st in self.tree.body:
            if isinstance(st, ast.Assign) and len(st.targets) == 1 and isinstance(st.targets[0], ast.Name) \
                    and st.targets[0].id == name:
                return st.value
        raise Unrecognised(f'no module-level assignment to {name}')

    def function(self, name):
        for st in self.tree.body:
            if isinstance(st, ast.FunctionDef) and st.name == name:
                return st
        raise Unrecognised(f'no function {name}')


def fraction_of_text(text):
    t = text.replace('_', '').strip()
    try:
        return Fraction(t)
    except (ValueError, ZeroDivisionError):
        pass
    return Fraction(int(t, 0))


def literal(src, node, runtime):
    """(Fraction, source text, note).  The value is taken from the literal TEXT; `runtime` (the object the
    imported module holds at this position) only cross-checks it.  Non-literal expressions fall back to the
    exact value of the runtime number and are noted."""
    neg = False
    inner = node
    while isinstance(inner, ast.UnaryOp) and isinstance(inner.op, (ast.USub, ast.UAdd)):
        if isinstance(inner.op, ast.USub):
            neg = not neg
        inner = inner.operand
    text = src.segment(node)
    if isinstance(inner, ast.Constant) and type(inner.value) in (int, float):
        try:
            q = fraction_of_text(src.segment(inner))
            if neg:
                q = -q
            ok = (isinstance(runtime, (int, float)) and not isinstance(runtime, bool) and
                  (runtime == q if isinstance(runtime, int) else float(q) == runtime))
            if not ok:
                raise SystemExit(f'gen_c07: {src.path}:{node.lineno}: literal {text!r} read as {q} but the module holds {runtime!r}')
            return q, text, None
        except ValueError:
            pass
    if isinstance(runtime, bool) or not isinstance(runtime, (int, float)):
        raise Unrecognised(f'{src.path}:{node.lineno}: {text!r} is not a number ({runtime!r})')
    if isinstance(runtime, float) and (runtime != runtime or runtime in (float('inf'), float('-inf'))):
        raise Unrecognised(f'{src.path}:{node.lineno}: {text!r} is not finite')
    return Fraction(runtime), text, 'not a plain literal: value taken from the imported module'


def seq_elts(node, what):
    if not isinstance(node, (ast.Tuple, ast.List)):
        raise Unrecognised(f'{what}: not a tuple/list display at line {getattr(node, "lineno", "?")}')
    return node.elts


def read_table(src, mod):
    """rows: list of dict(values=[Fraction..], texts=[..], line=int); notes."""
    elts = seq_elts(src.assigned('TAX_TABLE'), 'TAX_TABLE')
    rt = mod.TAX_TABLE
    if len(rt) != len(elts):
        raise SystemExit('gen_c07: TAX_TABLE: source and module differ in length')
    rows, notes = [], []
    for node, rrow in zip(elts, rt):
        cells = seq_elts(node, 'TAX_TABLE row')
        if len(cells) != len(rrow):
            raise SystemExit(f'gen_c07: TAX_TABLE row at line {node.lineno}: source and module differ')
        vals, texts = [], []
        for cnode, rv in zip(cells, rrow):
            q, t, note = literal(src, cnode, rv)
            vals.append(q)
            texts.append(t)
            if note:
                notes.append(f'line {cnode.lineno}: {t}: {note}')
        rows.append(dict(values=vals, texts=texts, line=node.lineno))
    return rows, notes


def read_worksheet(src, mod):
    secs = seq_elts(src.assigned('TAX_WORKSHEET_VALUES'), 'TAX_WORKSHEET_VALUES')
    rt = mod.TAX_WORKSHEET_VALUES
    if len(rt) != len(secs):
        raise SystemExit('gen_c07: TAX_WORKSHEET_VALUES: source and module differ in length')
    out, notes = [], []
    for snode, rsec in zip(secs, rt):
        rnodes = seq_elts(snode, 'worksheet section')
        if len(rnodes) != len(rsec):
            raise SystemExit(f'gen_c07: worksheet section at line {snode.lineno}: source and module differ')
        rows = []
        for rnode, rrow in zip(rnodes, rsec):
            cells = seq_elts(rnode, 'worksheet row')
            if len(cells) != 4 or len(rrow) != 4:
                raise Unrecognised(f'worksheet row at line {rnode.lineno} does not have 4 entries')
            vals, texts = [], []
            for cnode, rv in zip(cells, rrow):
                q, t, note = literal(src, cnode, rv)
                vals.append(q)
                texts.append(t)
                if note:
                    notes.append(f'line {cnode.lineno}: {t}: {note}')
            rows.append(dict(values=vals, texts=texts, line=rnode.lineno))
        out.append(rows)
    return out, notes


# ---- the three functions ---------------------------------------------------------------------------
def strip_doc(body):
    if body and isinstance(body[0], ast.Expr) and isinstance(body[0].value, ast.Constant) and \
            isinstance(body[0].value.value, str):
        return body[1:]
    return body


def is_name(n, ident):
    return isinstance(n, ast.Name) and n.id == ident


def is_sub(n, base, idx):
    return isinstance(n, ast.Subscript) and is_name(n.value, base) and isinstance(n.slice, ast.Constant) and \
        type(n.slice.value) is int and n.slice.value == idx


def cmp_amount_row(n, amount, row, idx):
    """`amount OP row[idx]` -> op name"""
    if isinstance(n, ast.Compare) and len(n.ops) == 1 and is_name(n.left, amount) and \
            is_sub(n.comparators[0], row, idx) and type(n.ops[0]) in CMP_OF_AST:
        return CMP_OF_AST[type(n.ops[0])]
    raise Unrecognised(f'line {n.lineno}: expected `{amount} <cmp> {row}[{idx}]`')


def is_assert_false(st):
    return isinstance(st, ast.Assert) and isinstance(st.test, ast.Constant) and st.test.value is False


def args_of(fn, n):
    a = fn.args
    if a.vararg or a.kwarg or a.kwonlyargs or a.defaults or a.posonlyargs or len(a.args) != n:
        raise Unrecognised(f'{fn.name}: unexpected signature')
    return [x.arg for x in a.args]


def parse_table_fn(fn):
    amount, col = args_of(fn, 2)
    body = strip_doc(fn.body)
    if len(body) != 2 or not isinstance(body[0], ast.For) or not is_assert_false(body[1]):
        raise Unrecognised('figure_tax_table: expected `for ...` followed by `assert False`')
    loop = body[0]
    if not (isinstance(loop.target, ast.Name) and is_name(loop.iter, 'TAX_TABLE') and not loop.orelse
            and len(loop.body) == 1 and isinstance(loop.body[0], ast.If) and not loop.body[0].orelse):
        raise Unrecognised('figure_tax_table: unexpected loop')
    row = loop.target.id
    test = loop.body[0].test
    if not (isinstance(test, ast.BoolOp) and isinstance(test.op, ast.And) and len(test.values) == 2):
        raise Unrecognised('figure_tax_table: unexpected row test')
    lo = cmp_amount_row(test.values[0], amount, row, 0)
    hi = cmp_amount_row(test.values[1], amount, row, 1)
    ret = loop.body[0].body
    ok = (len(ret) == 1 and isinstance(ret[0], ast.Return) and isinstance(ret[0].value, ast.Call)
          and is_name(ret[0].value.func, 'float') and len(ret[0].value.args) == 1 and not ret[0].value.keywords
          and isinstance(ret[0].value.args[0], ast.Subscript) and is_name(ret[0].value.args[0].value, row)
          and is_name(ret[0].value.args[0].slice, col))
    if not ok:
        raise Unrecognised('figure_tax_table: expected `return float(row[filing_status_column])`')
    return lo, hi


def is_formula(n, amount, row):
    """`amount * row[2] - row[3]`"""
    return (isinstance(n, ast.BinOp) and isinstance(n.op, ast.Sub) and is_sub(n.right, row, 3)
            and isinstance(n.left, ast.BinOp) and isinstance(n.left.op, ast.Mult)
            and is_name(n.left.left, amount) and is_sub(n.left.right, row, 2))


def is_ws_iter(n, idx):
    return (isinstance(n, ast.Subscript) and is_name(n.value, 'TAX_WORKSHEET_VALUES')
            and isinstance(n.slice, ast.BinOp) and isinstance(n.slice.op, ast.Sub) and is_name(n.slice.left, idx)
            and isinstance(n.slice.right, ast.Constant) and type(n.slice.right.value) is int
            and n.slice.right.value == 2)


def is_assign_const(st, name, value):
    return (isinstance(st, ast.Assign) and len(st.targets) == 1 and is_name(st.targets[0], name)
            and isinstance(st.value, ast.Constant) and st.value.value is value)


def parse_worksheet_fn(fn):
    amount, idx = args_of(fn, 2)
    body = strip_doc(fn.body)
    if len(body) == 2 and isinstance(body[0], ast.For) and is_assert_false(body[1]):
        # 2021 shape: no first-row distinction
        loop = body[0]
        if not (isinstance(loop.target, ast.Name) and is_ws_iter(loop.iter, idx) and not loop.orelse
                and len(loop.body) == 1 and isinstance(loop.body[0], ast.If) and not loop.body[0].orelse):
            raise Unrecognised('figure_tax_worksheet: unexpected loop')
        row = loop.target.id
        test = loop.body[0].test
        if not (isinstance(test, ast.BoolOp) and isinstance(test.op, ast.And) and len(test.values) == 2):
            raise Unrecognised('figure_tax_worksheet: unexpected row test')
        lo = cmp_amount_row(test.values[0], amount, row, 0)
        hi = cmp_amount_row(test.values[1], amount, row, 1)
        ret = loop.body[0].body
        if not (len(ret) == 1 and isinstance(ret[0], ast.Return) and is_formula(ret[0].value, amount, row)):
            raise Unrecognised('figure_tax_worksheet: expected `return amount * row[2] - row[3]`')
        return lo, lo, hi
    if len(body) == 3 and isinstance(body[0], ast.Assign) and isinstance(body[1], ast.For) and is_assert_false(body[2]):
        if not (len(body[0].targets) == 1 and isinstance(body[0].targets[0], ast.Name)
                and isinstance(body[0].value, ast.Constant) and body[0].value.value is True):
            raise Unrecognised('figure_tax_worksheet: expected `first_row = True`')
        flag = body[0].targets[0].id
        loop = body[1]
        if not (isinstance(loop.target, ast.Name) and is_ws_iter(loop.iter, idx) and not loop.orelse
                and len(loop.body) == 3):
            raise Unrecognised('figure_tax_worksheet: unexpected loop')
        row = loop.target.id
        s0, s1, s2 = loop.body
        if not (isinstance(s0, ast.Assign) and len(s0.targets) == 1 and isinstance(s0.targets[0], ast.Name)
                and isinstance(s0.value, ast.IfExp) and is_name(s0.value.test, flag)):
            raise Unrecognised('figure_tax_worksheet: expected `meets_lower_bound = ... if first_row else ...`')
        meets = s0.targets[0].id
        first_lo = cmp_amount_row(s0.value.body, amount, row, 0)
        rest_lo = cmp_amount_row(s0.value.orelse, amount, row, 0)
        if not (isinstance(s1, ast.If) and not s1.orelse and isinstance(s1.test, ast.BoolOp)
                and isinstance(s1.test.op, ast.And) and len(s1.test.values) == 2 and is_name(s1.test.values[0], meets)):
            raise Unrecognised('figure_tax_worksheet: unexpected row test')
        hi = cmp_amount_row(s1.test.values[1], amount, row, 1)
        if not (len(s1.body) == 1 and isinstance(s1.body[0], ast.Return) and is_formula(s1.body[0].value, amount, row)):
            raise Unrecognised('figure_tax_worksheet: expected `return amount * row[2] - row[3]`')
        if not is_assign_const(s2, flag, False):
            raise Unrecognised('figure_tax_worksheet: expected `first_row = False`')
        return first_lo, rest_lo, hi
    raise Unrecognised('figure_tax_worksheet: unexpected body')


def member_of(n, status_arg):
    if isinstance(n, ast.Attribute) and is_name(n.value, status_arg) and n.attr in MEMBER_TO_STATUS:
        return n.attr
    raise Unrecognised(f'line {n.lineno}: expected `{status_arg}.<member>`')


def parse_figure_tax(fn, src):
    amount, status = args_of(fn, 2)
    body = strip_doc(fn.body)
    if len(body) != 4:
        raise Unrecognised('figure_tax: unexpected body')
    s0, chain, sw, last = body
    if not (isinstance(s0, ast.Assign) and len(s0.targets) == 1 and isinstance(s0.targets[0], ast.Name)
            and isinstance(s0.value, ast.Constant) and s0.value.value is None):
        raise Unrecognised('figure_tax: expected `filing_status_index = None`')
    idx = s0.targets[0].id
    mapping = []          # (member, index) in evaluation order; the first hit wins
    node = chain
    while True:
        if not isinstance(node, ast.If):
            raise Unrecognised('figure_tax: expected an if/elif chain')
        t = node.test
        if not (isinstance(t, ast.Compare) and len(t.ops) == 1 and is_name(t.left, status)):
            raise Unrecognised(f'figure_tax: line {t.lineno}: unexpected status test')
        if isinstance(t.ops[0], (ast.Is, ast.Eq)):
            members = [member_of(t.comparators[0], status)]
        elif isinstance(t.ops[0], ast.In) and isinstance(t.comparators[0], (ast.List, ast.Tuple)):
            members = [member_of(e, status) for e in t.comparators[0].elts]
        else:
            raise Unrecognised(f'figure_tax: line {t.lineno}: unexpected status test')
        if not (len(node.body) == 1 and isinstance(node.body[0], ast.Assign) and len(node.body[0].targets) == 1
                and is_name(node.body[0].targets[0], idx) and isinstance(node.body[0].value, ast.Constant)
                and type(node.body[0].value.value) is int):
            raise Unrecognised(f'figure_tax: line {node.lineno}: expected `{idx} = <int>`')
        for m in members:
            mapping.append((m, node.body[0].value.value))
        if not node.orelse:
            break
        if len(node.orelse) != 1:
            raise Unrecognised('figure_tax: unexpected else branch')
        node = node.orelse[0]
    if not (isinstance(sw, ast.If) and not sw.orelse and isinstance(sw.test, ast.Compare) and len(sw.test.ops) == 1
            and is_name(sw.test.left, amount) and type(sw.test.ops[0]) in CMP_OF_AST):
        raise Unrecognised('figure_tax: unexpected table/worksheet switch')
    at_node = sw.test.comparators[0]
    if not (isinstance(at_node, ast.Constant) and type(at_node.value) in (int, float)):
        raise Unrecognised('figure_tax: switch point is not a literal')
    switch_at = fraction_of_text(src.segment(at_node))

    def is_call(st, fname):
        return (isinstance(st, ast.Return) and isinstance(st.value, ast.Call) and is_name(st.value.func, fname)
                and len(st.value.args) == 2 and not st.value.keywords and is_name(st.value.args[0], amount)
                and is_name(st.value.args[1], idx))
    if not (len(sw.body) == 1 and is_call(sw.body[0], 'figure_tax_table') and is_call(last, 'figure_tax_worksheet')):
        raise Unrecognised('figure_tax: unexpected calls')
    return CMP_OF_AST[type(sw.test.ops[0])], switch_at, mapping


def enum_members(fs_enum):
    """name -> member of a habutax enum class (tolerant of how `make` builds it)"""
    out = {}
    for name in MEMBER_TO_STATUS:
        if hasattr(fs_enum, name):
            out[name] = getattr(fs_enum, name)
    return out


def year_enum(year):
    import habutax.enum as henum
    if year == 2021 and hasattr(henum, 'filing_status_2021'):
        return henum.filing_status_2021
    return henum.filing_status


def read_year(year):
    """Everything the obligations are about, plus `shape_error` when the functions are not recognised."""
    path = os.path.join(REPO, 'habutax', 'forms', f'ty{year}', 'f1040_figure_tax.py')
    src = Source(path)
    with warnings.catch_warnings():
        warnings.simplefilter('ignore')
        mod = importlib.import_module(f'habutax.forms.ty{year}.f1040_figure_tax')
    if os.path.realpath(mod.__file__) != os.path.realpath(path):
        raise SystemExit(f'gen_c07: imported {mod.__file__}, expected {path}')
    info = dict(year=year, path=path, notes=[], shape_error=None)
    raw_rows, notes = read_table(src, mod)
    info['notes'] += notes
    # ---- table: whole numbers only
    table, bad_literals = [], []
    for i, r in enumerate(raw_rows):
        vals = r['values']
        if len(vals) != 6:
            bad_literals.append(dict(row=i, line=r['line'], problem=f'{len(vals)} entries instead of 6', text=r['texts']))
            continue
        bad = [k for k, q in enumerate(vals) if q.denominator != 1 or q < 0]
        if bad:
            for k in bad:
                bad_literals.append(dict(row=i, line=r['line'], column=k, text=r['texts'][k],
                                         problem='not a whole number >= 0'))
            continue
        table.append(tuple(int(q) for q in vals))
    info['table'] = table
    info['table_source_rows'] = len(raw_rows)
    info['bad_literals'] = bad_literals
    # ---- worksheet
    try:
        secs, notes = read_worksheet(src, mod)
        info['notes'] += notes
        if len(secs) != 4:
            raise Unrecognised(f'TAX_WORKSHEET_VALUES has {len(secs)} sections instead of 4')
        info['ws'] = {c: [tuple(r['values']) for r in secs[k]] for k, c in enumerate(COLS)}
        info['ws_texts'] = {c: [r['texts'] for r in secs[k]] for k, c in enumerate(COLS)}
    except Unrecognised as e:
        info['shape_error'] = str(e)
        info['ws'] = {c: [] for c in COLS}
        info['ws_texts'] = {c: [] for c in COLS}
    # ---- code shape
    cfg, status_col = None, None
    if info['shape_error'] is None:
        try:
            tlo, thi = parse_table_fn(src.function('figure_tax_table'))
            wfirst, wrest, whi = parse_worksheet_fn(src.function('figure_tax_worksheet'))
            sw, at, mapping = parse_figure_tax(src.function('figure_tax'), src)
            cfg = dict(switchCmp=sw, switchAt=at, tblLo=tlo, tblHi=thi, wsFirstLo=wfirst, wsRestLo=wrest, wsHi=whi)
            members = enum_members(year_enum(year))
            status_col = {s: None for s in STATUSES}
            seen = set()
            for m, ix in mapping:
                if m not in members:
                    raise Unrecognised(f'figure_tax mentions {m}, which the {year} enumeration does not have')
                s = MEMBER_TO_STATUS[m]
                if s in seen:
                    continue
                seen.add(s)
                if ix not in (2, 3, 4, 5):
                    raise Unrecognised(f'figure_tax sends {m} to index {ix} (outside 2..5)')
                status_col[s] = COLS[ix - 2]
            present = {MEMBER_TO_STATUS[m] for m in members}
            if present != set(STATUSES):
                raise Unrecognised(f'the {year} filing-status enumeration does not have the five expected members')
        except Unrecognised as e:
            info['shape_error'] = str(e)
    info['cfg'] = cfg
    info['statusCol'] = status_col
    if info['shape_error'] is None:
        err = probe(info, mod, year)
        if err:
            info['shape_error'] = 'behavioural probe disagrees with the extracted shape: ' + err
    return info


def probe(info, mod, year):
    """Call the REAL figure_tax at probe incomes and compare with the mirror of the model on the extracted data."""
    members = enum_members(year_enum(year))
    by_status = {}
    for name, m in members.items():
        by_status.setdefault(MEMBER_TO_STATUS[name], m)
    d = dict(cfg=info['cfg'], statusCol=info['statusCol'], table=info['table'], ws=info['ws'])
    if info['bad_literals']:
        return None         # the model's table is not the code's table; covered by table_literals
    pts = {Fraction(0), Fraction(1, 100), Fraction(499, 100), Fraction(5), Fraction(TABLE_TOP) - Fraction(1, 100),
           Fraction(TABLE_TOP), Fraction(TABLE_TOP) + Fraction(1, 100), WS_TOP, WS_TOP + 1, Fraction(-1)}
    tbl = info['table']
    for r in tbl[::97] + tbl[-3:]:
        pts |= {Fraction(r[0]), Fraction(r[1]), Fraction(r[1]) - Fraction(1, 100)}
    for g in table_gaps(0, tbl, TABLE_TOP):
        pts |= {Fraction(g[0]), Fraction(g[1]) - Fraction(1, 100), Fraction(g[1])}
    for c in COLS:
        for w in info['ws'][c]:
            pts |= {w[0], w[0] + Fraction(1, 100), w[1], w[1] - Fraction(1, 100)}
    for st in STATUSES:
        for x in sorted(pts):
            xf = float(x)
            want = figure_tax_q(d, Fraction(xf), st)      # the model at exactly the number the code receives
            try:
                got = ('ok', mod.figure_tax(xf, by_status[st]))
            except AssertionError:
                got = ('assertion',)
            except TypeError:
                got = ('typeError',)
            except Exception as e:      # noqa: BLE001
                got = (type(e).__name__,)
            if got[0] != want[0]:
                return f'{st} at {xf!r}: real {got}, model {want}'
            if got[0] == 'ok':
                w = float(want[1])
                if abs(got[1] - w) > 1e-6 * max(1.0, abs(w)):
                    return f'{st} at {xf!r}: real {got[1]!r}, model {w!r}'
    return None


# --------------------------------------------------------------------------------------------------
# Lean text
# --------------------------------------------------------------------------------------------------
def comment_safe(s):
    s = str(s).replace('\n', ' ').replace('\r', ' ')
    s = s.replace('-/', '- /').replace('/-', '/ -')
    return s.encode('ascii', 'backslashreplace').decode('ascii')


def lean_rat(q):
    q = Fraction(q)
    n, d = q.numerator, q.denominator
    body = f'{abs(n)}' if d == 1 else f'{abs(n)} / {d}'
    return f'(-({body}) : Rat)' if n < 0 else f'({body} : Rat)'


def lean_bool(b):
    return 'true' if b else 'false'


def lean_pairs(ps):
    return '([' + ', '.join(f'({a}, {b})' for a, b in ps) + '] : List (Nat × Nat))'


class Emitter(object):
    def __init__(self, year):
        self.year = year
        self.lines = []
        self.obligations = []
        self.failed = []

    def add(self, *ls):
        self.lines.extend(ls)

    def obligation(self, oid, check, expr, holds, witnesses=None, counts=None, doc=None):
        """`expr` is a Lean Bool expression; proves `= true` or, when it is false on this tree, `= false`."""
        rec = dict(id=oid, property='C07', year=self.year, check=check, holds=bool(holds), counts=counts or {},
                   module=f'HabuVerif.Gen.C07_{self.year}')
        docline = [f'/-- {comment_safe(doc)} -/'] if doc else []
        if holds:
            self.add(*docline)
            self.add(f'theorem {oid} : {expr} = true := by decide +kernel')
        else:
            ws = witnesses or [{}]
            for w in ws:
                self.add(f'-- FAILED-OBLIGATION {oid} {comment_safe(json.dumps(w, sort_keys=True))}')
            self.add(*docline)
            self.add(f'theorem {oid} : {expr} = false := by decide +kernel')
            rec['witnesses'] = ws
            self.failed.append(dict(id=oid, property='C07', year=self.year, check=check, witnesses=ws))
        self.add('')
        self.obligations.append(rec)
        return holds

    def unverifiable(self, oid, check, why):
        self.add(f'-- FAILED-OBLIGATION {oid} {comment_safe(json.dumps({"unverifiable": why}, sort_keys=True))}')
        self.add('')
        w = [{'unverifiable': why}]
        self.obligations.append(dict(id=oid, property='C07', year=self.year, check=check, holds=False, counts={},
                                     module=f'HabuVerif.Gen.C07_{self.year}', witnesses=w))
        self.failed.append(dict(id=oid, property='C07', year=self.year, check=check, witnesses=w))


def fmt_money(q):
    return str(int(q)) if Fraction(q).denominator == 1 else f'{float(q):.2f}'


def emit_year(info, ends):
    Y = info['year']
    yl = f'.y{Y}'
    em = Emitter(Y)
    tbl = info['table']
    shape_ok = info['shape_error'] is None
    em.add('import HabuVerif.Proofs.C07Lemmas',
           '/-!',
           f'# C07 obligations for tax year {Y}  (GENERATED by tools/gen_c07.py -- do not edit)',
           '',
           f'Data read from `habutax/forms/ty{Y}/f1040_figure_tax.py`: {len(tbl)} table rows '
           f'({info["table_source_rows"]} in the source), '
           f'{sum(len(info["ws"][c]) for c in COLS)} worksheet rows; decimal literals carried exactly as rationals.',
           'All theorems are about the exact-rational reading of the data (`Spec/FigureTax.lean`), not about binary64.',
           '-/',
           'set_option autoImplicit false',
           'set_option maxRecDepth 1000000',
           '',
           'namespace HabuVerif.Gen',
           'open HabuVerif.Spec HabuVerif.C07',
           '')
    for n in info['notes']:
        em.add(f'-- NOTE {comment_safe(n)}')
    # ---- data ---------------------------------------------------------------------------------
    names = []
    for n, start in enumerate(range(0, len(tbl), CHUNK)):
        nm = f'table_{Y}_c{n}'
        names.append(nm)
        em.add(f'def {nm} : List TRow := [')
        chunk = tbl[start:start + CHUNK]
        for i, r in enumerate(chunk):
            sep = ',' if i + 1 < len(chunk) else ''
            em.add('  ⟨%d, %d, %d, %d, %d, %d⟩%s' % (r + (sep,)))
        em.add(']')
    em.add(f'/-- `TAX_TABLE` of {Y}. -/')
    em.add(f'def table_{Y} : List TRow := ' + (' ++ '.join(names) if names else '[]'))
    em.add('')
    em.add(f'/-- `TAX_WORKSHEET_VALUES` of {Y}, by column. -/')
    em.add(f'def ws_{Y} : Col → List WRow')
    for c in COLS:
        rows = info['ws'][c]
        if not rows:
            em.add(f'  | .{c} => []')
            continue
        em.add(f'  | .{c} => [')
        for i, (w, t) in enumerate(zip(rows, info['ws_texts'][c])):
            sep = ',' if i + 1 < len(rows) else ''
            em.add(f'      ⟨{lean_rat(w[0])}, {lean_rat(w[1])}, {lean_rat(w[2])}, {lean_rat(w[3])}⟩{sep}'
                   f'  -- {comment_safe(", ".join(t))}')
        em.add('    ]')
    em.add('')
    if shape_ok:
        cfg = info['cfg']
        em.add(f'/-- Comparison operators and switch point as found in the {Y} source. -/')
        em.add(f'def cfg_{Y} : Cfg :=')
        em.add('  { switchCmp := .%s, switchAt := %s, tblLo := .%s, tblHi := .%s, wsFirstLo := .%s, wsRestLo := .%s, '
               'wsHi := .%s }' % (cfg['switchCmp'], lean_rat(cfg['switchAt']), cfg['tblLo'], cfg['tblHi'],
                                   cfg['wsFirstLo'], cfg['wsRestLo'], cfg['wsHi']))
        em.add('')
        em.add(f'/-- The if/elif chain of `figure_tax` ({Y}): status -> column (`none`: the index stays `None`). -/')
        em.add(f'def statusCol_{Y} : Status → Option Col')
        for s in STATUSES:
            c = info['statusCol'][s]
            em.add(f'  | .{s} => ' + ('none' if c is None else f'some .{c}'))
    else:
        em.add(f'-- NOTE code shape not recognised: {comment_safe(info["shape_error"])}')
        em.add(f'def cfg_{Y} : Cfg := default')
        em.add('')
        em.add(f'def statusCol_{Y} : Status → Option Col := fun _ => none')
    em.add('')
    em.add(f'def data_{Y} : FTData := ⟨cfg_{Y}, statusCol_{Y}, table_{Y}, ws_{Y}⟩')
    em.add('')
    # ---- obligations ----------------------------------------------------------------------------
    T = f'table_{Y}'
    bad = info['bad_literals']
    em.add(f'/-- Entries of `TAX_TABLE` the generator could not carry as natural numbers (their rows are left out of'
           f' `{T}`). -/')
    em.add(f'def tableNonNat_{Y} : Nat := {len(bad)}')
    ok_lit = em.obligation(f'table_literals_{Y}', 'tableLiterals', f'(tableNonNat_{Y} == 0)', not bad,
                           witnesses=bad[:20], counts=dict(rows=info['table_source_rows'], bad=len(bad)))
    ordered = rows_ordered(0, tbl, TABLE_TOP)
    w_ord = []
    if not ordered:
        cur = 0
        for i, r in enumerate(tbl):
            if not (cur <= r[0] and r[0] < r[1]):
                w_ord.append(dict(row=i, lo=r[0], hi=r[1], previous_end=cur))
                break
            cur = r[1]
        else:
            w_ord.append(dict(last_end=cur, top=TABLE_TOP))
    ok_ord = em.obligation(f'table_ordered_{Y}', 'rowsOrdered', f'rowsOrdered 0 {T} tableTop', ordered,
                           witnesses=w_ord, counts=dict(rows=len(tbl)))
    gaps = table_gaps(0, tbl, TABLE_TOP)
    contiguous = ordered and not gaps
    w_con = [dict(missing_from=a, missing_to=b) if a < b else dict(overlap_from=b, overlap_to=a) for a, b in gaps]
    if not ordered:
        w_con = w_ord + w_con
    ok_con = em.obligation(f'table_contiguous_{Y}', 'tableContiguous', f'tableContiguous 0 {T} tableTop', contiguous,
                           witnesses=w_con[:20], counts=dict(rows=len(tbl), gaps=len(gaps)),
                           doc='first row starts at 0, each row starts where the previous ended, the last ends at 100000, lo < hi')
    em.add('/-- The exact list of places where a row does not start where the previous one ended. -/')
    em.add(f'theorem table_gaps_{Y} : tableGaps 0 {T} tableTop = {lean_pairs(gaps)} := by decide +kernel')
    em.add('')
    bad_rows = [(r[0], r[1]) for r in tbl
                if tuple(r[2:]) != tuple(table_cell_n(ends[(Y, c)], r[0], r[1]) for c in COLS)]
    w_cells = []
    for r in tbl:
        exp = tuple(table_cell_n(ends[(Y, c)], r[0], r[1]) for c in COLS)
        if tuple(r[2:]) != exp:
            for k, c in enumerate(COLS):
                if r[2 + k] != exp[k]:
                    w_cells.append(dict(lo=r[0], hi=r[1], column=c, found=r[2 + k], expected=exp[k]))
    ok_cells = em.obligation(f'table_cells_{Y}', 'cellsOkN', f'cellsOkN {yl} {T}', not bad_rows,
                             witnesses=w_cells[:20], counts=dict(cells=4 * len(tbl), wrong=len(w_cells)),
                             doc='every cell is the statutory schedule at the row midpoint, rounded half-up to whole dollars')
    if bad_rows:
        em.add('/-- Exactly these rows have a wrong cell; all others are right. -/')
        em.add(f'theorem table_cells_bad_{Y} : cellsBad {yl} {T} = {lean_pairs(bad_rows)} := by decide +kernel')
        em.add('')
    else:
        em.add(f'/-- The same, with the official `Rat` definition `tableCell`. -/')
        em.add(f'theorem table_cells_spec_{Y} : ∀ r ∈ {T}, ∀ c : Col, r.cell c = tableCell {yl} c r.lo r.hi :=')
        em.add(f'  cellsOk_of_N table_cells_{Y}')
        em.add('')
    mono = [col_monotone(tbl, k) for k in range(4)]
    w_mono = []
    for k, c in enumerate(COLS):
        for i in range(len(tbl) - 1):
            if tbl[i][2 + k] > tbl[i + 1][2 + k]:
                w_mono.append(dict(column=c, lo=tbl[i + 1][0], value=tbl[i + 1][2 + k], previous=tbl[i][2 + k]))
    ok_mono = em.obligation(f'table_monotone_{Y}', 'tableMonotone', f'tableMonotone {T}', all(mono),
                            witnesses=w_mono[:20], counts=dict(rows=len(tbl), decreases=len(w_mono)))
    width = rows_width_le(MAX_WIDTH, tbl)
    w_width = [dict(lo=r[0], hi=r[1]) for r in tbl if r[1] > r[0] + MAX_WIDTH][:20]
    ok_width = em.obligation(f'table_width_{Y}', 'rowsWidthLe', f'rowsWidthLe {MAX_WIDTH} {T}', width, witnesses=w_width)
    # worksheet, per section then altogether
    sec_ok, jun_ok, w_ws = {}, {}, []
    for k, c in enumerate(COLS):
        rows = info['ws'][c]
        e, bad_i = ws_chain(ends[(Y, c)], Fraction(TABLE_TOP), rows)
        sec_ok[c] = e is not None and WS_TOP <= e
        ws_w = []
        if e is None:
            w = rows[bad_i]
            ws_w.append(dict(column=c, row=bad_i, lo=fmt_money(w[0]), hi=fmt_money(w[1]), rate=str(w[2]),
                             subtract=fmt_money(w[3]), problem=ws_problem(ends[(Y, c)], rows, bad_i)))
        elif not sec_ok[c]:
            ws_w.append(dict(column=c, problem=f'rows end at {fmt_money(e)}, below 10^12' if rows else 'no rows'))
        em.obligation(f'worksheet_{Y}_{c}', 'wsSectionOk', f'wsSectionOk {yl} .{c} (ws_{Y} .{c})', sec_ok[c],
                      witnesses=ws_w, counts=dict(rows=len(rows)))
        jun_ok[c] = junction_ok(tbl, k, rows)
        ju_w = []
        if not jun_ok[c]:
            ju_w.append(dict(column=c, last_cell=tbl[-1][2 + k] if tbl else None,
                             worksheet_at_100000=fmt_money(TABLE_TOP * rows[0][2] - rows[0][3]) if rows else None))
        em.obligation(f'junction_{Y}_{c}', 'junctionOk', f'junctionOk {T} .{c} (ws_{Y} .{c})', jun_ok[c], witnesses=ju_w)
        w_ws += ws_w + ju_w
    ws_all = all(sec_ok.values()) and all(jun_ok.values())
    ok_ws = em.obligation(f'worksheet_{Y}', 'worksheetOk', f'worksheetOk {yl} data_{Y}', ws_all, witnesses=w_ws,
                          counts=dict(rows=sum(len(info['ws'][c]) for c in COLS)),
                          doc='rows chain from 100000 to 10^12, each is the bracket formula on its interval (as linear functions), junctions')
    # code shape / statuses
    if shape_ok:
        cfg = info['cfg']
        is_std = cfg in (CFG_STD, CFG_STD2021)
        w_shape = [dict(found={k: (str(v) if isinstance(v, Fraction) else v) for k, v in cfg.items()},
                        expected='switch `< 100000`; table `>=`,`<`; worksheet first `>=`, rest `>` (2021: `>=`), upper `<=`')]
        ok_shape = em.obligation(f'code_shape_{Y}', 'cfgIsStd', f'cfg_{Y}.isStd', is_std, witnesses=w_shape)
        sc = info['statusCol']
        st_ok = all(sc[s] == SPEC_COL[s] for s in STATUSES)
        w_st = [dict(status=s, column=sc[s], expected=SPEC_COL[s]) for s in STATUSES if sc[s] != SPEC_COL[s]]
        ok_status = em.obligation(f'status_columns_{Y}', 'statusColsOk', f'statusColsOk data_{Y}', st_ok, witnesses=w_st)
        q_ok = sc['qss'] == sc['mfj']
        ok_qss = em.obligation(f'qss_eq_mfj_{Y}', 'qssEqMfj', f'qssEqMfj data_{Y}', q_ok,
                               witnesses=[dict(qss=sc['qss'], mfj=sc['mfj'])])
    else:
        ok_shape = ok_status = ok_qss = False
        for oid, chk in ((f'code_shape_{Y}', 'cfgIsStd'), (f'status_columns_{Y}', 'statusColsOk'),
                         (f'qss_eq_mfj_{Y}', 'qssEqMfj')):
            em.unverifiable(oid, chk, info['shape_error'])
    # ---- instances of the general theorems ---------------------------------------------------------
    base = ok_lit and ok_shape and ok_ord and ok_cells and ok_ws and ok_status
    full = base and ok_con and ok_mono
    D = f'data_{Y}'
    top = '1000000000000'
    if ok_qss:
        em.add(f'/-- C07 ({Y}): a qualifying surviving spouse is taxed exactly like married filing jointly. -/')
        em.add(f'theorem figure_tax_qss_eq_mfj_{Y} (x : Rat) : figureTaxQ {D} x .qss = figureTaxQ {D} x .mfj :=')
        em.add(f'  figureTaxQ_qss_eq_mfj qss_eq_mfj_{Y} x')
        em.add('')
    if base:
        em.add(f'theorem checkedBase_{Y} : CheckedBase {yl} {D} :=')
        em.add(f'  {{ cfg := code_shape_{Y}, ordered := table_ordered_{Y}, cells := table_cells_{Y},')
        em.add(f'    worksheet := worksheet_{Y}, status := status_columns_{Y} }}')
        em.add('')
        em.add(f'/-- C07 ({Y}), worksheet region: from 100000 to 10^12 `figure_tax` is the exact bracket formula. -/')
        em.add(f'theorem figure_tax_worksheet_{Y} (st : Status) {{x : Rat}} (h1 : 100000 ≤ x) (h2 : x ≤ {top}) :')
        em.add(f'    figureTaxQ {D} x st = .ok (bracketTax {yl} st.specCol x) :=')
        em.add(f'  figureTaxQ_worksheet checkedBase_{Y} st h1 h2')
        em.add('')
        em.add(f'/-- C07 ({Y}), table region: below 100000 either the income lies in a hole of the table (`table_gaps_{Y}`)')
        em.add('and `figure_tax` raises AssertionError, or the result is the IRS table entry of its row. -/')
        em.add(f'theorem figure_tax_table_{Y} (st : Status) {{x : Rat}} (h0 : 0 ≤ x) (h1 : x < 100000) :')
        em.add(f'    (∃ g ∈ {lean_pairs(gaps)}, ((g.1 : Nat) : Rat) ≤ x ∧ x < ((g.2 : Nat) : Rat) ∧')
        em.add(f'        figureTaxQ {D} x st = .error .assertion) ∨')
        em.add(f'    (∃ r ∈ {T}, (r.lo : Rat) ≤ x ∧ x < (r.hi : Rat) ∧')
        em.add(f'        figureTaxQ {D} x st = .ok ((tableCell {yl} st.specCol r.lo r.hi : Nat) : Rat)) := by')
        em.add(f'  have h := figureTaxQ_table checkedBase_{Y} st h0 h1')
        em.add(f'  rw [show {D}.table = {T} from rfl, table_gaps_{Y}] at h')
        em.add('  exact h')
        em.add('')
        for a, b in gaps:
            if a < b:
                hi_hyp = f'(h2 : x < {b})'
                em.add(f'/-- DEFECT ({Y}): no table row covers [{a}, {b}); `figure_tax` raises AssertionError there. -/')
                em.add(f'theorem figure_tax_asserts_{Y}_{a}_{b} (st : Status) {{x : Rat}} (h1 : {a} ≤ x) {hi_hyp} :')
                em.add(f'    figureTaxQ {D} x st = .error .assertion := by')
                em.add(f'  have hg : (({a}, {b}) : Nat × Nat) ∈ tableGaps 0 {D}.table tableTop := by')
                em.add(f'    rw [show {D}.table = {T} from rfl, table_gaps_{Y}]; simp')
                em.add(f'  refine figureTaxQ_in_gap checkedBase_{Y} st hg (by simpa using h1) (by simpa using h2) ?_')
                em.add(f'  have : ({b} : Rat) ≤ 100000 := by norm_num')
                em.add('  linarith')
                em.add('')
        if ok_mono:
            em.add(f'/-- C07 ({Y}): wherever defined, more income never means less tax. -/')
            em.add(f'theorem figure_tax_mono_of_ok_{Y} (st : Status) {{x x\' a b : Rat}} (h0 : 0 ≤ x) (hxx : x ≤ x\')')
            em.add(f'    (h2 : x\' ≤ {top}) (ha : figureTaxQ {D} x st = .ok a) (hb : figureTaxQ {D} x\' st = .ok b) : a ≤ b :=')
            em.add(f'  figureTaxQ_mono_of_ok checkedBase_{Y} table_monotone_{Y} st h0 hxx h2 ha hb')
            em.add('')
        if ok_width:
            em.add(f'/-- C07 ({Y}): at most the top rate per extra dollar, plus one table step (0.37 * 50 + 1 = 19.50). -/')
            em.add(f'theorem figure_tax_marginal_{Y} (st : Status) {{x x\' a b : Rat}} (h0 : 0 ≤ x) (hxx : x ≤ x\')')
            em.add(f'    (h2 : x\' ≤ {top}) (ha : figureTaxQ {D} x st = .ok a) (hb : figureTaxQ {D} x\' st = .ok b) :')
            em.add(f'    b - a ≤ 37 / 100 * (x\' - x) + 39 / 2 := by')
            em.add(f'  have h := figureTaxQ_marginal checkedBase_{Y} table_width_{Y} st h0 hxx h2 ha hb')
            em.add('  norm_num at h ⊢')
            em.add('  linarith')
            em.add('')
    else:
        em.add('-- The per-year instances of the general theorems are not emitted: they need the obligations')
        em.add('-- table_literals, code_shape, table_ordered, table_cells, worksheet and status_columns, and at least one fails.')
        em.add('')
    if full:
        em.add(f'theorem checked_{Y} : Checked {yl} {D} :=')
        em.add(f'  {{ checkedBase_{Y} with contiguous := table_contiguous_{Y}, monotone := table_monotone_{Y} }}')
        em.add('')
        em.add(f'/-- **C07 ({Y})**: for every status and every rational income 0 <= x <= 10^12, `figure_tax` is defined;')
        em.add('below 100000 it is the IRS table entry of x\'s row (schedule at the row midpoint, rounded half-up to dollars),')
        em.add('from 100000 on it is the exact bracket formula. -/')
        em.add(f'theorem figureTaxQ_eq_spec_{Y} (st : Status) {{x : Rat}} (h0 : 0 ≤ x) (h1 : x ≤ {top}) :')
        em.add(f'    (x < 100000 → ∃ r ∈ {T}, (r.lo : Rat) ≤ x ∧ x < (r.hi : Rat) ∧')
        em.add(f'        figureTaxQ {D} x st = .ok ((tableCell {yl} st.specCol r.lo r.hi : Nat) : Rat)) ∧')
        em.add(f'    (100000 ≤ x → figureTaxQ {D} x st = .ok (bracketTax {yl} st.specCol x)) :=')
        em.add(f'  figureTaxQ_eq_spec checked_{Y} st h0 h1')
        em.add('')
        em.add(f'theorem figure_tax_defined_{Y} (st : Status) {{x : Rat}} (h0 : 0 ≤ x) (h1 : x ≤ {top}) :')
        em.add(f'    ∃ a, figureTaxQ {D} x st = .ok a := figureTaxQ_defined checked_{Y} st h0 h1')
        em.add('')
        em.add(f'theorem figure_tax_mono_{Y} (st : Status) {{x x\' : Rat}} (h0 : 0 ≤ x) (hxx : x ≤ x\') (h2 : x\' ≤ {top}) :')
        em.add(f'    ∃ a b, figureTaxQ {D} x st = .ok a ∧ figureTaxQ {D} x\' st = .ok b ∧ a ≤ b :=')
        em.add(f'  figureTaxQ_mono checked_{Y} st h0 hxx h2')
        em.add('')
    elif base:
        em.add(f'-- `figureTaxQ_eq_spec_{Y}` (defined on all of [0, 10^12]) is NOT emitted: table_contiguous_{Y} or')
        em.add(f'-- table_monotone_{Y} is false on this tree; see figure_tax_table_{Y} for what holds instead.')
        em.add('')
    em.add('end HabuVerif.Gen', '')
    summary = dict(year=Y, table_rows=len(tbl), worksheet_rows=sum(len(info['ws'][c]) for c in COLS),
                   gaps=[list(g) for g in gaps], checked_base=bool(base), checked=bool(full),
                   shape_error=info['shape_error'], notes=info['notes'])
    return em, summary


def ws_problem(ends, rows, i):
    cur = Fraction(TABLE_TOP) if i == 0 else rows[i - 1][1]
    w = rows[i]
    if w[0] != cur:
        return f'starts at {fmt_money(w[0])}, the previous row ended at {fmt_money(cur)}'
    if not w[0] < w[1]:
        return 'empty interval'
    # which linear piece should it be?
    for p in pieces(ends):
        if p[0] <= w[0] and (p[1] is None or w[0] < p[1]):
            if not (p[1] is None or w[1] <= p[1]):
                return f'crosses the bracket edge {fmt_money(p[1])}'
            return (f'on this interval the schedule is x * {p[2]} - {fmt_money(-p[3])}, the row says '
                    f'x * {w[2]} - {fmt_money(w[3])}')
    return 'below the schedule'


# --------------------------------------------------------------------------------------------------
def generate(out_dir, brackets_path):
    if REPO not in sys.path:
        sys.path.insert(0, REPO)
    sys.dont_write_bytecode = True
    ends = read_brackets(brackets_path)
    files, obligations, failed, summaries = {}, [], [], []
    for y in YEARS:
        info = read_year(y)
        em, summary = emit_year(info, ends)
        files[f'C07_{y}.lean'] = '\n'.join(em.lines)
        obligations += em.obligations
        failed += em.failed
        summaries.append(summary)
    agg = [f'import HabuVerif.Gen.C07_{y}' for y in YEARS]
    agg += ['/-!', '# C07 generated obligations (GENERATED by tools/gen_c07.py -- do not edit)', '',
            f'{len(obligations)} obligations, {len(failed)} of them false on this tree (proved negations; see',
            '`c07_failed.json`).', '-/', '']
    files['C07.lean'] = '\n'.join(agg)
    files['c07_failed.json'] = json.dumps(failed, indent=1, sort_keys=True) + '\n'
    files['c07_obligations.json'] = json.dumps(dict(summary=summaries, obligations=obligations), indent=1,
                                               sort_keys=True) + '\n'
    os.makedirs(out_dir, exist_ok=True)
    for fn, text in files.items():
        path = os.path.join(out_dir, fn)
        old = None
        if os.path.exists(path):
            with open(path, encoding='utf-8') as fh:
                old = fh.read()
        if old != text:             # keep mtimes (and lake's cache) when nothing changed
            with open(path, 'w', encoding='utf-8') as fh:
                fh.write(text)
    return obligations, failed, summaries


def main(argv=None):
    ap = argparse.ArgumentParser()
    ap.add_argument('--out-dir', default=os.path.join(VERIF, 'lean', 'HabuVerif', 'Gen'))
    ap.add_argument('--brackets', default=os.path.join(VERIF, 'lean', 'HabuVerif', 'Spec', 'Brackets.lean'))
    ap.add_argument('--quiet', action='store_true')
    args = ap.parse_args(argv)
    obligations, failed, summaries = generate(args.out_dir, args.brackets)
    if not args.quiet:
        print(json.dumps(dict(obligations=len(obligations), failed=[f['id'] for f in failed], summary=summaries),
                         indent=1))
    return 0


if __name__ == '__main__':
    sys.exit(main())
