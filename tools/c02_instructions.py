#!/usr/bin/env python3
"""C02 instruction table: what the OFFICIAL FORM says each line is.

    python c02_instructions.py [--catalogue cat.json] [--templates tpl.json] [--out table.json] [--audit]

Two sources, both independent of the habutax line functions:

 (a) the accessibility text (XFA <speak>/<toolTip>, /TU) of the bundled IRS templates, re-read on every run through
     tools/pdf_extract.py and parsed with the FIXED pattern set below.  Text that does not match a pattern completely
     (the instruction sentence AND every sentence after it must be recognised) yields NO instruction and is listed under
     `unparsed` with the reason -- nothing is guessed.
 (b) the committed transcription file tools/c02_transcriptions.json (worksheets that ship without a template, NC forms
     whose templates carry no accessibility text, and a few template lines whose text the patterns reject); every
     entry cites form, line and year of the official document.

Line references are printed labels ("1z", "25d").  They are resolved to habutax line names of the same form: a label
resolves to the line of that very name when it is a numeric (Float/Integer) line of the form; a widget's own line is the
line habutax maps to the widget (catalogue `pdf_fields`), which must carry the same label (exceptions are reported under
`label_exceptions`).  A "through" range expands over the union of the template's labels and the form's label-named lines;
members that habutax does not have are kept under `absent` (they are blank on every return habutax produces, i.e. 0),
members that are not amounts (dates, SSNs, check boxes) under `non_amount`.

Output (json): {"instructions": [...], "unparsed": [...], "label_exceptions": [...], "conflicts": [...], "stats": {...}}
instruction = {"year", "form", "line", "op", "args", "source", "text", ["absent"], ["non_amount"], ["when"]}

ops and args (a REF is a habutax line name of the same form, or "form.line" when it contains a dot;
               a CONST is {"const": "<decimal>"} or {"const_by_status": {"default": d, "<StatusMember>": d}}):
  add        [REF, ...]                 sum of the lines
  addfloor0  [REF, ...]                 max(0, sum)         ("Combine lines 2 and 3. If zero or less, enter -0-")
  addcap0    [REF, ...]                 min(0, sum)         ("Combine lines 2 and 3. If greater than zero, enter -0-")
  sub        [A, B]                     A - B               ("Subtract line B from line A")
  subfloor0  [A, B]                     max(0, A - B)       ("... If zero or less, enter -0-")
  mulrate    [A, "<decimal rate>"]      A x rate, to the nearest unit of the line
  mulratefloor0 [A, "<rate>"]           max(0, A x rate)    ("Multiply ... If zero or less, enter a zero")
  mul        [A, B]                     product of two lines, nearest unit
  mulratecap [A, "<rate>", C]           min(A x rate, C)    ("Multiply line 9 by 25% (0.25) ... but do not enter more than line 6")
  amount     [CONST]                    the amount the form prints for the filing status ("Enter the following amount for your filing status: ...")
  subroundup [A, B, unit]               0 if A - B <= 0, else A - B raised to the next multiple of unit ("If more than zero and not a multiple of $1,000, enter the next multiple of $1,000")
  ratiocap1  [A, B]                     min(1, A / B) to at least three places ("Divide line 5 by line 9 ... If the result is 1.000 or more, enter 1.000")
  smaller    [X, Y]    larger [X, Y]    X, Y: REF or CONST
  carry      [REF]                      the amount of another line ("from Schedule 1, line 10", "Enter the amount from line 4")
  cond       [{"cmp": "gt|ge|lt|le", "a": REF, "b": REF}, INSTR, INSTR]   INSTR = {"op":..., "args":...} | {"op": "blank"}
One contextual rule: "Subtract line 33 from line 24. This is the amount you owe." (heading "Amount You Owe", the complement
of "34. If line 33 is more than line 24, subtract ...") is read as cond(24 > 33, 24 - 33, blank): nothing is owed otherwise.
"when": "source_filed" marks a carry read off the SOURCE line ("Enter here and on Form 1040, line 8"): it binds only when
the source form is part of the return (habutax `needs_filing`).
"""
import argparse
import json
import os
import re
import sys

HERE = os.path.dirname(os.path.abspath(__file__))
if HERE not in sys.path:
    sys.path.insert(0, HERE)

import pdf_extract  # noqa: E402

YEARS = ('2021', '2022', '2023')
TRANSCRIPTIONS = os.path.join(HERE, 'c02_transcriptions.json')
AMOUNT_KINDS = ('FloatField', 'IntegerField')

# ------------------------------------------------------------------------------------------------------------------
# text normalisation
# ------------------------------------------------------------------------------------------------------------------
_SPELLED = [
    (re.compile(r'\b1040-S R\b'), '1040-SR'), (re.compile(r'\b1040-N R\b'), '1040-NR'),
    (re.compile(r'\b1040-S S\b'), '1040-SS'),
    (re.compile(r'–|—'), '-'), (re.compile(r'[‘’]'), "'"), (re.compile(r'[“”]'), '"'),
    (re.compile(r'\s+'), ' '),
]


def normalise(text):
    t = text or ''
    for rx, rep in _SPELLED:
        t = rx.sub(rep, t)
    return t.strip()


_SENT_END = re.compile(r'(?<=[.?;])\s+(?=[A-Z0-9(])')


def sentences(t):
    """split at '. ' / '? ' / '; ' before a capital, digit or '(' ; decimals ("0.075") never contain the blank"""
    return [s.strip() for s in _SENT_END.split(t) if s.strip()]


def strip_label(text, label):
    """the text after the leading page / title sentences and the line label (same grammar as pdf_extract.label_from_text)"""
    t = text.strip()
    m = pdf_extract._PAGE.match(t)
    if m:
        t = t[m.end():]
    for _ in range(pdf_extract.MAX_TITLES + 1):
        m = pdf_extract._LABEL.match(t)
        if m:
            return t[m.end():].strip()
        tm = pdf_extract._TITLE.match(t)
        if not tm:
            return None
        t = t[tm.end():]
    return None


# ------------------------------------------------------------------------------------------------------------------
# the pattern set
# ------------------------------------------------------------------------------------------------------------------
REF = r'(\d{1,2}\s?[a-z]?)'                     # "25d", "8 a"
LINE = r'(?:the amount on |the amount from )?lines? ' + REF

# sentences that may PRECEDE the instruction: a description without the word "line", without a digit run that could be a
# reference, and not starting with an instruction verb
_VERBS = r'(add|subtract|multiply|divide|enter|combine|if|is|are|do|does|complete|skip|go|see|check|attach|include)\b'
_DESC = re.compile(r'^(?!' + _VERBS + r')[^0-9]{3,200}[.]$', re.I)

# sentences that may FOLLOW the instruction without changing the amount of THIS line
_HARMLESS = [re.compile(p, re.I) for p in [
    r'^this is (your|the) [^0-9]*(for \d{4} and earlier years)?[.]$',
    r'^these are your [^0-9]*[.]$',
    r'^this is the amount you (overpaid|owe)[.]$',
    r'^(also,? )?(enter|include) (here|the result here|this amount|the total here|the result)( and)? (on|in the total on|with) .*$',   # outgoing, handled separately
    r'^enter here and go to part [ivx ]+[.]$',
    r'^enter the result[.]$',
    r'^and enter the result[.]$',
    r'^attach .*$', r'^see instructions.*$', r'^\(?see instructions\)?[.]?$',
    r'^note: .*$', r'^caution: .*$', r'^tip: .*$',
    r'^if (line \d+[a-z]? is )?(over|more than) \$[\d,]+, you must complete part [ivx ]+[.]$',
    r'^if zero,? stop here$', r'^if zero,? stop here[;.].*$', r'^you cannot (take|claim) the additional child tax credit[.]$',
    r'^skip parts? .*$', r'^enter 0 on line 27[.]$',
    r'^if more than zero, also include this amount on .*$',
    r'^if more than zero, you may be subject to an additional tax.*$',
    r'^for details on how to pay.*$',
    r'^also include this amount (on|with) .*$', r'^include this amount (on|in) .*$', r'^also, include this amount .*$',
    r'^\(?form 1040-ss filers, see instructions\)?[.,]?( and go to part [ivx ]+[.])?$',
    r'^and go to part [ivx ]+[.]$',
    r'^next, enter the smaller of line \d+[a-z]? or line \d+[a-z]? on line \d+[a-z]?[.]$',
    r'^number before the decimal[.]$',
    r'^you may have to pay an additional tax[.]$',
    r'^if zero, stop$', r'^you do not owe the additional tax[.]$',
    r'^if zero, skip to line 40 and enter the amount from line 29$', r'^otherwise, continue to line 33[.]$',
    r'^if more than zero, enter this amount on schedule 2 \(form 1040\), line 19[.]$',
    r'^this is your additional tax[.]$', r'^close parenthesis[.]$', r'^this amount is taxed at 0%[.]?$',
]]

_FLOOR = re.compile(r'^if zero or less, enter (-0-|0|zero|a zero)( on lines \d+[a-z]? through \d+[a-z]? and go to part [ivx ]+)?'
                    r'( and skip lines \d+[a-z]?( and \d+[a-z]?)*)?[.,]?( and skip lines .*)?$', re.I)
_OWE = re.compile(r'^(this is the )?amount you owe[.]$', re.I)
_CAP0 = re.compile(r'^if greater than zero, enter (-0-|0|zero)[.]$', re.I)
_FLOOR_CMP = re.compile(r'^if line ' + REF + r' is more than line ' + REF + r', enter (-0-|0|zero)[.]$', re.I)

_ADD = re.compile(r'^(?:add|combine) lines (.+?)[.]?$', re.I)
_SUB = re.compile(r'^subtract line ' + REF + r' from line ' + REF + r'[.]?$', re.I)
_MULPCT = re.compile(r'^multiply (?:the amount on )?line ' + REF + r' by ([\d.]+)\s?% \(([\d.]+)\)( and enter the result)?[.]?$', re.I)
_MULDOLLAR = re.compile(r'^multiply line ' + REF + r' by \$([\d,]+)[.]?$', re.I)
_MULLINES = re.compile(r'^multiply line ' + REF + r' by line ' + REF + r'[.]?$', re.I)
_SMALL = re.compile(r'^enter the (smaller|larger) of line ' + REF + r' or line ' + REF + r'( here)?[.]?$', re.I)
_SMALL_OUT = re.compile(r'^enter the (smaller|larger) of line ' + REF + r' or line ' + REF + r' here and on (.+?)[.]?$', re.I)
_SMALL_CONST = re.compile(r'^enter the (smaller|larger) of line ' + REF + r' or \$([\d,]+) \(\$([\d,]+) if married filing separately\)[.]?$', re.I)
_CARRY_SAME = re.compile(r'^enter the amount from line ' + REF + r'[.]?$', re.I)
_COND_SUB = re.compile(r'^if line ' + REF + r' is more than line ' + REF + r', subtract line ' + REF + r' from line ' + REF + r'[.]?$', re.I)

# "... from Schedule 1, line 10" / "Amount from Schedule 3, line 8" / "Enter amount from Form 1040 or 1040-SR, line 11"
_FORMREF = (r'((?:schedule [a-z0-9]+(?: \(form 1040\))?)|(?:form [0-9]{4}(?:-[a-z]{1,2})?(?:(?:,| or|, or) (?:form )?[0-9]{4}(?:-[a-z]{1,2})?)*))')
_CARRY_FROM = re.compile(r'^(?:[^0-9]*? )?from ' + _FORMREF + r'(?:, part [ivx ]+)?, line ' + REF + r'[.]?$', re.I)
_CARRY_FROM2 = re.compile(r'^enter the amount from line ' + REF + r' of your ' + _FORMREF + r'[.]?$', re.I)
# outgoing: "Enter here and on Form 1040, 1040-SR, or 1040-NR, line 8" / "Also, enter this amount on Form 1040 or 1040-SR, line 12"
_OUT = re.compile(r'^(?:also,? )?enter (?:here|the result here|this amount|the total here)(?: and)? on (?:\d{4} )?' + _FORMREF +
                  r'(?:, part [ivx ]+)?, line ' + REF + r'[.]?$', re.I)
_OUT2 = re.compile(r'^(?:also,? )?enter this amount on line ' + REF + r' of your ' + _FORMREF + r'[.]?$', re.I)
_OUT_TAIL = re.compile(r'^(.*?)(?:here and on|and on) (?:\d{4} )?' + _FORMREF + r'(?:, part [ivx ]+)?, line ' + REF + r'[.]?$', re.I)


def ref(s):
    return s.replace(' ', '').lower()


def money(s):
    return s.replace(',', '')


def resolve_formref(s, forms_of_year):
    """'Schedule 1' -> '1040_s1'; 'Form 1040, 1040-SR, or 1040-NR' -> '1040'; None when habutax has no such form or the
    reference is ambiguous (per-person forms)."""
    s = s.lower().strip()
    m = re.match(r'^schedule ([a-z0-9]+)', s)
    if m:
        k = m.group(1)
        name = {'a': '1040_sa', 'b': '1040_sb', '8812': '1040_s8812'}.get(k, '1040_s' + k if k.isdigit() else None)
    else:
        nums = re.findall(r'([0-9]{4}(?:-[a-z]{1,2})?)', s)
        if not nums:
            return None, 'form reference not understood'
        base = {n.split('-')[0] for n in nums}
        if len(base) != 1:
            return None, 'several different forms named'
        name = base.pop() if nums[0] == nums[0].split('-')[0] or True else None
    if name is None:
        return None, 'form reference not understood'
    f = forms_of_year.get(name)
    if f is None:
        return None, f'habutax has no form {name!r}'
    if f['per_person']:
        return None, f'{name!r} is a per-person form (several instances): the reference is ambiguous'
    return name, None


def parse_items(s):
    """'1z, 2b, 3b, and 8' / '1 through 4, 5a, 5b, and 7' / '11 through 23 and 25' -> [('one', x) | ('range', a, b)] or None"""
    s = s.strip().rstrip('.')
    parts = [p.strip() for p in re.split(r',\s*and\s+|,\s*|\s+and\s+', s) if p.strip()]
    items = []
    for p in parts:
        m = re.fullmatch(REF + r' through ' + REF, p, re.I)
        if m:
            items.append(('range', ref(m.group(1)), ref(m.group(2))))
            continue
        m = re.fullmatch(REF, p, re.I)
        if m:
            items.append(('one', ref(m.group(1))))
            continue
        return None
    return items if len(items) >= 1 else None


def parse_body(body):
    """body: normalised text after the label.  Returns (raw_instruction | None, reason, outgoing list).
    raw instruction: dict(op, refs...) with PRINTED labels; outgoing: [(formref text, line label)]"""
    sents = sentences(body)
    outgoing = []
    k = 0
    while k < len(sents) and k < 2 and _DESC.match(sents[k]) and 'line' not in sents[k].lower():
        k += 1
    if k >= len(sents):
        return None, 'no instruction sentence', outgoing
    s = sents[k]
    rest = sents[k + 1:]
    raw = None
    # an instruction with the outgoing clause glued on: "Enter the smaller of line 2 or line 12 here and on Schedule 1 ..., line 13"
    m = _OUT_TAIL.match(s)
    if m and m.group(1).strip() and not _OUT.match(s):
        head = m.group(1).strip()
        head = re.sub(r'\s+(enter|enter the result|enter the total)$', '', head, flags=re.I).rstrip('.').strip()
        outgoing.append((m.group(2), ref(m.group(3))))
        s = head
    m = _ADD.match(s)
    if m and raw is None:
        items = parse_items(m.group(1))
        if items is None:
            return None, 'operand list of "Add lines" not understood', outgoing
        raw = {'op': 'add', 'items': items}
        if rest and _FLOOR.match(rest[0]):
            raw['op'] = 'addfloor0'
            rest = rest[1:]
        elif rest and _CAP0.match(rest[0]):
            raw['op'] = 'addcap0'
            rest = rest[1:]
    m = _COND_SUB.match(s)
    if m and raw is None:
        a, b, c, d = (ref(x) for x in m.groups())
        if (c, d) != (b, a):
            return None, 'conditional subtraction compares other lines than it subtracts', outgoing
        raw = {'op': 'cond', 'cmp': 'gt', 'a': a, 'b': b, 'then': {'op': 'sub', 'a': a, 'b': b}}
    m = _SUB.match(s)
    if m and raw is None:
        raw = {'op': 'sub', 'a': ref(m.group(2)), 'b': ref(m.group(1))}
        # "37. Subtract line 33 from line 24. This is the amount you owe." stands under the heading "Amount You Owe" next to
        # "34. If line 33 is more than line 24, subtract ...": an amount is owed only when the difference is positive
        if any(_OWE.match(t) for t in [sents[k - 1]] * (k > 0) + rest):
            raw = {'op': 'cond', 'cmp': 'gt', 'a': raw['a'], 'b': raw['b'], 'then': dict(raw)}
        # floor clause must be the very next sentence
        if rest and _FLOOR.match(rest[0]):
            raw['op'] = 'subfloor0'
            rest = rest[1:]
        elif rest and _FLOOR_CMP.match(rest[0]):
            fm = _FLOOR_CMP.match(rest[0])
            if (ref(fm.group(1)), ref(fm.group(2))) != (raw['b'], raw['a']):
                return None, 'floor clause compares other lines than the subtraction uses', outgoing
            raw['op'] = 'subfloor0'
            rest = rest[1:]
    m = _MULPCT.match(s)
    if m and raw is None:
        pct, dec = m.group(2), m.group(3)
        from fractions import Fraction
        if Fraction(pct) / 100 != Fraction(dec):
            return None, f'percentage {pct}% and decimal {dec} disagree', outgoing
        raw = {'op': 'mulrate', 'a': ref(m.group(1)), 'rate': dec}
    m = _MULDOLLAR.match(s)
    if m and raw is None:
        raw = {'op': 'mulrate', 'a': ref(m.group(1)), 'rate': money(m.group(2))}
    m = _MULLINES.match(s)
    if m and raw is None:
        raw = {'op': 'mul', 'a': ref(m.group(1)), 'b': ref(m.group(2))}
    m = _SMALL_CONST.match(s)
    if m and raw is None:
        raw = {'op': m.group(1).lower(), 'a': ref(m.group(2)),
               'const_by_status': {'default': money(m.group(3)), 'MarriedFilingSeparately': money(m.group(4))}}
    m = _SMALL.match(s)
    if m and raw is None:
        raw = {'op': m.group(1).lower(), 'a': ref(m.group(2)), 'b': ref(m.group(3))}
    m = _CARRY_SAME.match(s)
    if m and raw is None:
        raw = {'op': 'carry', 'a': ref(m.group(1))}
    m = _CARRY_FROM2.match(s)
    if m and raw is None:
        raw = {'op': 'carry', 'form': m.group(2), 'a': ref(m.group(1))}
    m = _CARRY_FROM.match(s)
    if m and raw is None:
        raw = {'op': 'carry', 'form': m.group(1), 'a': ref(m.group(2))}
    # trailing sentences
    for t in rest:
        mo = _OUT.match(t)
        if mo:
            outgoing.append((mo.group(1), ref(mo.group(2))))
            continue
        mo = _OUT2.match(t)
        if mo:
            outgoing.append((mo.group(2), ref(mo.group(1))))
            continue
        if any(h.match(t) for h in _HARMLESS):
            continue
        if raw is None:
            break
        return None, f'sentence after the instruction not recognised: {t[:90]!r}', outgoing
    if raw is None:
        mo = _OUT.match(s)
        if mo:
            outgoing.append((mo.group(1), ref(mo.group(2))))
        return None, 'no pattern matches', outgoing
    return raw, 'ok', outgoing


# ------------------------------------------------------------------------------------------------------------------
# resolution against the catalogue
# ------------------------------------------------------------------------------------------------------------------
def label_key(lab):
    m = re.fullmatch(r'(\d{1,2})([a-z]?)', lab)
    return (int(m.group(1)), m.group(2)) if m else None


def year_forms(yrec):
    """form name -> {fields: {base: kind/places}, per_person, pdf, mappings: {target: line}, instances}"""
    out = {}
    for f in yrec['forms']:
        insts = [i for i in f['instances'] if i['ok']]
        if not insts or f['is_input_form']:
            continue
        i0 = insts[0]
        out[f['form_name']] = {
            'fields': {x['base']: x for x in i0['fields']},
            'order': [x['base'] for x in i0['fields']],
            'per_person': bool(f['valid_instances']),
            'instances': [i['name'] for i in insts],
            'pdf': i0['pdf_file'],
            'mappings': {p['target']: p['line'] for p in i0['pdf_fields']},
            'needs_filing': i0.get('needs_filing'),
        }
    return out


class Resolver(object):
    def __init__(self, form_name, frec, forms_of_year, template_labels):
        self.form = form_name
        self.f = frec
        self.forms = forms_of_year
        self.tlabels = set(template_labels or [])
        self.absent = []
        self.non_amount = []
        self.error = None

    def _own(self, lab):
        if '.' in lab:                      # "form.line" (transcriptions): a line of another form
            form, l2 = lab.split('.', 1)
            fr = self.forms.get(form)
            if fr is None:
                return None, 'absent'
            fld = fr['fields'].get(l2)
            if fld is None:
                return None, 'absent'
            if fld['kind'] not in AMOUNT_KINDS:
                return None, 'non_amount'
            if fr['per_person']:
                return None, 'non_amount'
            return (lab if form != self.form else l2), None
        fld = self.f['fields'].get(lab)
        if fld is None:
            return None, 'absent'
        if fld['kind'] not in AMOUNT_KINDS:
            return None, 'non_amount'
        return lab, None

    def one(self, lab, strict=True):
        name, why = self._own(lab)
        if name is None and strict:
            self.error = f'line {lab} ' + ('does not exist in habutax form ' + self.form if why == 'absent'
                                            else 'of ' + self.form + ' is not an amount')
        return name

    def expand(self, items):
        out = []
        for it in items:
            if it[0] == 'one':
                name, why = self._own(it[1])
                if name is not None:
                    out.append(name)
                elif why == 'absent':
                    self.absent.append(it[1])
                else:
                    self.error = f'line {it[1]} of {self.form} is not an amount'
            else:
                lo, hi = label_key(it[1]), label_key(it[2])
                if lo is None or hi is None or not lo <= hi:
                    self.error = f'range {it[1]} through {it[2]} not understood'
                    continue
                universe = set(self.tlabels)
                for base in self.f['order']:
                    if label_key(base) is not None:
                        universe.add(base)
                for lab in sorted((u for u in universe if label_key(u) is not None and lo <= label_key(u) <= hi),
                                  key=label_key):
                    name, why = self._own(lab)
                    if name is not None:
                        out.append(name)
                    elif why == 'absent':
                        self.absent.append(lab)
                    else:
                        self.non_amount.append(lab)
        seen = []
        for x in out:
            if x in seen:
                self.error = f'line {x} named twice'
            seen.append(x)
        return out

    def foreign(self, formref, lab):
        name, why = resolve_formref(formref, self.forms)
        if name is None:
            self.error = why
            return None
        fld = self.forms[name]['fields'].get(lab)
        if fld is None:
            self.error = f'habutax form {name} has no line {lab}'
            return None
        if fld['kind'] not in AMOUNT_KINDS:
            self.error = f'{name}.{lab} is not an amount'
            return None
        return f'{name}.{lab}' if name != self.form else lab

    def instr(self, raw):
        """raw (printed labels) -> (op, args) or None (self.error set)"""
        op = raw['op']
        if op in ('add', 'addfloor0', 'addcap0'):
            args = self.expand(raw['items'])
            if self.error:
                return None
            if not args:
                self.error = 'no operand of the sum exists in habutax'
                return None
            return op, args
        if op in ('sub', 'subfloor0', 'mul'):
            a, b = self.one(raw['a']), self.one(raw['b'])
            return None if self.error else (op, [a, b])
        if op in ('mulrate', 'mulratefloor0'):
            a = self.one(raw['a'])
            return None if self.error else (op, [a, raw['rate']])
        if op == 'mulratecap':
            a, c = self.one(raw['a']), self.one(raw['cap'])
            return None if self.error else (op, [a, raw['rate'], c])
        if op == 'ratiocap1':
            a, b = self.one(raw['a']), self.one(raw['b'])
            return None if self.error else (op, [a, b])
        if op == 'amount':
            return op, [{'const_by_status': raw['const_by_status']}]
        if op == 'subroundup':
            a, b = self.one(raw['a']), self.one(raw['b'])
            return None if self.error else (op, [a, b, raw['unit']])
        if op in ('smaller', 'larger'):
            a = self.operand(raw['a'])
            b = self.operand(raw['b']) if 'b' in raw else {'const_by_status': raw['const_by_status']}
            return None if self.error else (op, [a, b])
        if op == 'carry':
            a = self.foreign(raw['form'], raw['a']) if raw.get('form') else self.one(raw['a'])
            return None if self.error else (op, [a])
        if op == 'cond':
            a, b = self.one(raw['a']), self.one(raw['b'])
            if self.error:
                return None
            th = self.sub_instr(raw['then'])
            el = self.sub_instr(raw.get('else', {'op': 'blank'}))
            return None if self.error else (op, [{'cmp': raw['cmp'], 'a': a, 'b': b}, th, el])
        self.error = f'unknown op {op}'
        return None

    def operand(self, x):
        if isinstance(x, dict):
            return x
        if '.' in x:
            form, lab = x.split('.', 1)
            fr = self.forms.get(form)
            if fr is None or lab not in fr['fields']:
                self.error = f'no line {x}'
                return None
            return x
        return self.one(x)

    def sub_instr(self, raw):
        if raw['op'] == 'blank':
            return {'op': 'blank'}
        r = self.instr(raw)
        return None if r is None else {'op': r[0], 'args': r[1]}


# ------------------------------------------------------------------------------------------------------------------
def from_templates(cat, tpl):
    instructions, unparsed, label_exc, outgoing_all = [], [], [], []
    stats = {}
    for Y in YEARS:
        yrec = cat['years'].get(Y)
        if yrec is None:
            continue
        forms = year_forms(yrec)
        for fname, fr in forms.items():
            pdf = fr['pdf']
            if not pdf or pdf not in tpl or tpl[pdf].get('error'):
                continue
            widgets = tpl[pdf]['fields']
            tlabels = [w['label'] for w in widgets if w.get('label') and w['type'] == 'Tx']
            st = stats.setdefault(Y, {}).setdefault(fname, {'text_widgets': 0, 'labelled': 0, 'with_text': 0, 'parsed': 0,
                                                            'unparsed': 0, 'no_habutax_line': 0})
            seen_lines = {}
            for w in widgets:
                if w['type'] != 'Tx':
                    continue
                st['text_widgets'] += 1
                lab = w.get('label')
                text = w.get('access_text')
                if not lab or not text or w.get('label_source') == 'nc-name':
                    continue
                st['labelled'] += 1
                norm = normalise(text)
                body = strip_label(norm, lab)
                if body is None or not body:
                    continue
                st['with_text'] += 1
                raw, why, outgoing = parse_body(body)
                # the widget's own line
                mapped = fr['mappings'].get(w['name'])
                if mapped is not None:
                    mlab = pdf_extract.line_label_of_name(mapped)
                    if mlab != lab:
                        label_exc.append({'year': int(Y), 'form': fname, 'widget': w['name'], 'template_label': lab,
                                          'habutax_line': mapped, 'text': norm[:160]})
                own = mapped if (mapped is not None and mapped in fr['fields']
                                 and pdf_extract.line_label_of_name(mapped) == lab) else (lab if lab in fr['fields'] else None)
                src = f'template:{pdf}:{w["name"]}'
                for formref, olab in outgoing:
                    outgoing_all.append({'year': Y, 'form': fname, 'line': own, 'label': lab, 'formref': formref,
                                         'target_label': olab, 'source': src + ':out', 'text': norm[:300]})
                if raw is None:
                    if re.search(r'\b(add|subtract|multiply|smaller|larger|divide|combine)\b|from (form|schedule)|amount from',
                                 body, re.I):
                        st['unparsed'] += 1
                        unparsed.append({'year': int(Y), 'form': fname, 'label': lab, 'line': own, 'reason': why,
                                         'text': norm[:300], 'source': src})
                    continue
                if own is None:
                    st['no_habutax_line'] += 1
                    unparsed.append({'year': int(Y), 'form': fname, 'label': lab, 'line': None,
                                     'reason': 'habutax has no line for this widget', 'text': norm[:300], 'source': src})
                    continue
                if fr['fields'][own]['kind'] not in AMOUNT_KINDS:
                    unparsed.append({'year': int(Y), 'form': fname, 'label': lab, 'line': own,
                                     'reason': 'the habutax line is not an amount', 'text': norm[:300], 'source': src})
                    continue
                rs = Resolver(fname, fr, forms, tlabels)
                r = rs.instr(raw)
                if r is None:
                    st['unparsed'] += 1
                    unparsed.append({'year': int(Y), 'form': fname, 'label': lab, 'line': own,
                                     'reason': 'unresolved: ' + str(rs.error), 'text': norm[:300], 'source': src})
                    continue
                rec = {'year': int(Y), 'form': fname, 'line': own, 'op': r[0], 'args': r[1], 'source': src,
                       'text': norm[:300]}
                if rs.absent:
                    rec['absent'] = rs.absent
                if rs.non_amount:
                    rec['non_amount'] = rs.non_amount
                key = (Y, fname, own)
                if key in seen_lines:
                    if (seen_lines[key]['op'], seen_lines[key]['args']) != (rec['op'], rec['args']):
                        unparsed.append({'year': int(Y), 'form': fname, 'label': lab, 'line': own,
                                         'reason': 'two widgets of the line carry different instructions',
                                         'text': norm[:300], 'source': src})
                    continue
                seen_lines[key] = rec
                st['parsed'] += 1
                instructions.append(rec)
    return instructions, unparsed, label_exc, outgoing_all, stats


def outgoing_carries(cat, outgoing_all, have):
    """'Enter here and on Form 1040, line 8' read off the source line: a carry for the TARGET, binding when the source
    form is filed.  Only for targets without an instruction of their own, from forms with a single instance."""
    out, skipped = [], []
    for o in outgoing_all:
        Y = o['year']
        forms = year_forms(cat['years'][Y])
        if o['line'] is None:
            skipped.append(dict(o, reason='source widget has no habutax line'))
            continue
        src_form = forms[o['form']]
        if src_form['per_person']:
            skipped.append(dict(o, reason='source is a per-person form: the target may combine several instances'))
            continue
        if src_form['fields'][o['line']]['kind'] not in AMOUNT_KINDS:
            skipped.append(dict(o, reason='source line is not an amount'))
            continue
        tname, why = resolve_formref(o['formref'], forms)
        if tname is None:
            skipped.append(dict(o, reason=why))
            continue
        tf = forms[tname]
        tl = o['target_label']
        if tl not in tf['fields'] or tf['fields'][tl]['kind'] not in AMOUNT_KINDS:
            skipped.append(dict(o, reason=f'habutax form {tname} has no amount line {tl}'))
            continue
        rec = {'year': int(Y), 'form': tname, 'line': tl, 'op': 'carry', 'args': [f'{o["form"]}.{o["line"]}'],
               'source': o['source'], 'text': o['text'], 'when': 'source_filed'}
        out.append(rec)
    return out, skipped


def from_transcriptions(cat, tpl, path=TRANSCRIPTIONS):
    if not os.path.isfile(path):
        return [], [{'reason': f'transcription file {path} missing'}]
    with open(path) as fh:
        data = json.load(fh)
    out, bad = [], []
    for e in data['entries']:
        for Y in e['years']:
            Y = str(Y)
            yrec = cat['years'].get(Y)
            if yrec is None:
                continue
            forms = year_forms(yrec)
            fr = forms.get(e['form'])
            if fr is None:
                bad.append({'year': int(Y), 'form': e['form'], 'line': e['line'], 'reason': 'no such form in this year'})
                continue
            tlabels = []
            if fr['pdf'] and fr['pdf'] in tpl:
                tlabels = [w['label'] for w in tpl[fr['pdf']]['fields'] if w.get('label') and w['type'] == 'Tx']
            if e['line'] not in fr['fields'] or fr['fields'][e['line']]['kind'] not in AMOUNT_KINDS:
                bad.append({'year': int(Y), 'form': e['form'], 'line': e['line'], 'reason': 'no such amount line in habutax'})
                continue
            rs = Resolver(e['form'], fr, forms, tlabels)
            raw = dict(e['instr'])
            rate = raw.get('rate')
            if isinstance(rate, dict):
                raw['rate'] = rate.get(Y)
                if raw['rate'] is None:
                    bad.append({'year': int(Y), 'form': e['form'], 'line': e['line'], 'reason': 'no rate for this year'})
                    continue
            r = rs.instr(_raw_from_json(raw))
            if r is None:
                bad.append({'year': int(Y), 'form': e['form'], 'line': e['line'], 'reason': 'unresolved: ' + str(rs.error)})
                continue
            rec = {'year': int(Y), 'form': e['form'], 'line': e['line'], 'op': r[0], 'args': r[1],
                   'source': 'transcription:' + e['cite'].replace('{year}', Y), 'text': e.get('text', '')}
            if e.get('when'):
                rec['when'] = e['when']
            if rs.absent:
                rec['absent'] = rs.absent
            if rs.non_amount:
                rec['non_amount'] = rs.non_amount
            out.append(rec)
    return out, bad


def _raw_from_json(raw):
    """json form of a raw instruction -> the internal one (items as tuples)"""
    r = dict(raw)
    if r['op'] == 'add':
        items = []
        for it in r['items']:
            if isinstance(it, str):
                items.append(('one', it))
            else:
                items.append(('range', it[0], it[1]))
        r['items'] = items
    if r['op'] == 'cond':
        r['then'] = _raw_from_json(r['then'])
        if 'else' in r:
            r['else'] = _raw_from_json(r['else'])
    return r


def build(cat=None, tpl=None):
    if cat is None:
        import catalogue as _cat
        cat = json.loads(json.dumps(_cat.build(with_cli=False)))
    if tpl is None:
        tpl = json.loads(json.dumps(pdf_extract.extract_all()))
    ins, unparsed, label_exc, outgoing_all, stats = from_templates(cat, tpl)
    have = {(str(r['year']), r['form'], r['line']) for r in ins}
    tr, tr_bad = from_transcriptions(cat, tpl)
    conflicts = []
    by_key = {(str(r['year']), r['form'], r['line']): r for r in ins}
    for r in tr:
        k = (str(r['year']), r['form'], r['line'])
        if k in by_key:
            o = by_key[k]
            if (o['op'], o['args']) != (r['op'], r['args']):
                conflicts.append({'year': r['year'], 'form': r['form'], 'line': r['line'], 'template': [o['op'], o['args']],
                                  'transcription': [r['op'], r['args']]})
            continue            # the template text wins; an agreeing transcription adds nothing
        by_key[k] = r
        ins.append(r)
    out_c, out_skipped = outgoing_carries(cat, outgoing_all, have)
    for r in out_c:
        k = (str(r['year']), r['form'], r['line'])
        if k in by_key:
            o = by_key[k]
            if o['op'] == 'carry' and o['args'] == r['args']:
                continue
            # a second, conditional statement about the same line: keep it as an extra check
            r = dict(r, extra=True)
        ins.append(r)
        by_key.setdefault(k, r)
    ins.sort(key=lambda r: (r['year'], r['form'], label_key(r['line']) or (999, r['line']), r['line'], r.get('extra', False)))
    per = {}
    for r in ins:
        d = per.setdefault(str(r['year']), {}).setdefault(r['form'], {'template': 0, 'transcription': 0, 'outgoing': 0})
        d['outgoing' if r.get('when') else ('template' if r['source'].startswith('template:') else 'transcription')] += 1
    ops = {}
    for r in ins:
        ops[r['op']] = ops.get(r['op'], 0) + 1
    return {'instructions': ins, 'unparsed': unparsed, 'label_exceptions': label_exc, 'conflicts': conflicts,
            'transcription_problems': tr_bad, 'outgoing_skipped': out_skipped,
            'stats': {'per_widget': stats, 'per_form': per, 'ops': ops, 'instructions': len(ins),
                      'unparsed': len(unparsed)}}


def main(argv=None):
    ap = argparse.ArgumentParser()
    ap.add_argument('--catalogue')
    ap.add_argument('--templates')
    ap.add_argument('--out')
    ap.add_argument('--audit', action='store_true', help='print every instruction and every unparsed text')
    a = ap.parse_args(argv)
    cat = json.load(open(a.catalogue)) if a.catalogue else None
    tpl = json.load(open(a.templates)) if a.templates else None
    table = build(cat, tpl)
    if a.out:
        with open(a.out, 'w') as fh:
            json.dump(table, fh, indent=1, sort_keys=True)
            fh.write('\n')
    if a.audit:
        for r in table['instructions']:
            print(f"{r['year']} {r['form']:<32} {r['line']:<10} {r['op']:<10} {json.dumps(r['args'])}  "
                  f"{'[absent ' + ','.join(r['absent']) + ']' if r.get('absent') else ''}"
                  f"{'[when ' + r['when'] + ']' if r.get('when') else ''}   <- {r['source'].split(':')[0]}: {r['text'][:110]}")
        print('---- unparsed')
        for u in table['unparsed']:
            print(f"{u['year']} {u['form']:<20} {str(u['label']):<5} {u['reason']}  | {u['text'][:200]}")
        print('---- label exceptions')
        for u in table['label_exceptions']:
            print(u)
        print('---- conflicts', table['conflicts'])
        print('---- transcription problems', table['transcription_problems'])
        print('---- outgoing skipped')
        for u in table['outgoing_skipped']:
            print(f"{u['year']} {u['form']} {u['label']} -> {u['formref']} line {u['target_label']}: {u['reason']}")
    print(json.dumps(table['stats']['per_form'], sort_keys=True) if not a.audit else '')
    print(json.dumps({'instructions': table['stats']['instructions'], 'unparsed': table['stats']['unparsed'],
                      'ops': table['stats']['ops']}, sort_keys=True))
    return 0


if __name__ == '__main__':
    sys.exit(main())
