#!/usr/bin/env python3
"""JSON mirror of the habutax form catalogue (2021-2023), built by introspection of the REAL objects.

    python catalogue.py --out catalogue.json

Imports habutax from $HABUTAX_REPO (default /repo; inserted at sys.path[0]), walks
habutax.forms.available_forms[year], instantiates every class for instance None (no
`valid_instances`; input-only forms for "0") or for each entry of `valid_instances`,
recording failures as data, and writes the mirror described in tools/specs/C_catalogue_pdf.md.

Nothing here interprets the data: checks live in gen_c17_c18.py (Lean obligations) and
harness/c17_c18_oracle.py (direct Python oracle).  The mirror is deterministic (no ids, no
addresses; order of the source lists kept).
"""
import argparse
import enum as _pyenum
import io
import json
import math
import os
import sys
import warnings

YEARS = (2021, 2022, 2023)


def _repo():
    return os.environ.get('HABUTAX_REPO', '/repo')


def import_habutax():
    repo = _repo()
    if not sys.path or sys.path[0] != repo:
        sys.path.insert(0, repo)
    sys.dont_write_bytecode = True
    with warnings.catch_warnings():
        warnings.simplefilter('ignore')
        import habutax  # noqa: F401
        import habutax.forms  # noqa: F401
    return sys.modules['habutax']


def _rel(path):
    if path is None:
        return None
    try:
        return os.path.relpath(path, _repo())
    except ValueError:
        return path


class EnumNamer(object):
    """Stable identity for enum classes: `habutax.enum.<attr>` when the class IS that module
    attribute, otherwise `local:<EnumName>/<member,member,...>#k` (k distinguishes distinct
    classes that are structurally identical within one form instance)."""

    def __init__(self, habutax_enum_module):
        self.by_id = {}
        for attr in sorted(vars(habutax_enum_module)):
            obj = getattr(habutax_enum_module, attr)
            if isinstance(obj, type) and issubclass(obj, _pyenum.Enum) and obj is not _pyenum.Enum:
                self.by_id.setdefault(id(obj), f'habutax.enum.{attr}')
        self.local = {}
        self.keep = []

    def reset_local(self):
        self.local = {}
        self.keep = []

    def name(self, cls):
        if id(cls) in self.by_id:
            return self.by_id[id(cls)]
        if id(cls) in self.local:
            return self.local[id(cls)]
        base = f'local:{cls.__name__}/{",".join(cls.__members__)}'
        k = sum(1 for v in self.local.values() if v.split('#')[0] == base)
        nm = f'{base}#{k}'
        self.local[id(cls)] = nm
        self.keep.append(cls)
        return nm

    def describe(self, cls):
        if cls is None:
            return None
        if not (isinstance(cls, type) and issubclass(cls, _pyenum.Enum)):
            return {'name': repr(cls), 'id': None, 'members': [], 'not_an_enum': True}
        return {'name': cls.__name__, 'id': self.name(cls), 'members': list(cls.__members__)}


def _number(v):
    """JSON-safe rendering of a threshold value, with float.hex() for floats."""
    if isinstance(v, bool):
        return {'value': v, 'type': 'bool'}
    if isinstance(v, int):
        return {'value': v, 'type': 'int'}
    if isinstance(v, float):
        if math.isfinite(v):
            return {'value': v, 'type': 'float', 'hex': v.hex()}
        return {'value': repr(v), 'type': 'float', 'hex': v.hex()}
    if isinstance(v, str):
        return {'value': v, 'type': 'str'}
    return {'value': repr(v), 'type': type(v).__name__}


def _threshold(t, namer):
    if not isinstance(t, dict):
        n = _number(t)
        out = {'scalar': n['value'], 'type': n['type']}
        if 'hex' in n:
            out['scalar_hex'] = n['hex']
        return out
    rows = []
    key_enums = []
    for key, value in t.items():
        members = key if isinstance(key, tuple) else (key,)
        names, enums = [], []
        for m in members:
            if isinstance(m, _pyenum.Enum):
                names.append(m.name)
                e = namer.name(type(m))
                enums.append(e)
                if e not in key_enums:
                    key_enums.append(e)
            else:
                names.append(repr(m))
                enums.append(None)
                if None not in key_enums:
                    key_enums.append(None)
        n = _number(value)
        row = {'keys': names, 'key_enums': enums, 'tuple_key': isinstance(key, tuple),
               'value': n['value'], 'type': n['type']}
        if 'hex' in n:
            row['value_hex'] = n['hex']
        rows.append(row)
    enum_id = key_enums[0] if len(key_enums) == 1 else None
    members = []
    if enum_id is not None:
        for key in t:
            m = key[0] if isinstance(key, tuple) and key else key
            if isinstance(m, _pyenum.Enum):
                members = list(type(m).__members__)
                break
    return {'table': rows, 'enum': enum_id, 'enum_members': members, 'key_enums': key_enums}


def _input(i, namer, hi):
    kind = type(i).__name__
    e = vars(i).get('enum', None) if isinstance(i, hi.EnumInput) else None
    try:
        help_text = i.help()
    except Exception as ex:  # pragma: no cover
        help_text = f'<<{type(ex).__name__}>>'
    try:
        fmt = i.format_suggestion()
    except Exception as ex:
        fmt = f'<<{type(ex).__name__}>>'
    return {
        'base': i.base_name(),
        'kind': kind,
        'enum': namer.describe(e) if e is not None else None,
        # NB: EnumInput.__getattr__ raises KeyError (not AttributeError) for unknown attributes,
        # so `getattr(i, name, default)` is unusable on inputs: read the instance dict.
        'allow_empty': bool(vars(i).get('allow_empty', False)),
        'regex': vars(i).get('_regex_str', None),
        'help': help_text if isinstance(help_text, str) else repr(help_text),
        'help_is_str': isinstance(help_text, str),
        'format_suggestion': fmt,
    }


def _field(f, required, namer, hf):
    kind = type(f).__name__
    e = None
    if isinstance(f, hf.EnumField):
        e = f.enum()
    return {
        'base': f.base_name(),
        'kind': kind,
        'places': getattr(f, '_places', None) if isinstance(f, hf.FloatField) else None,
        'required': required,
        'enum': namer.describe(e) if e is not None else None,
    }


def _pdf_field(p):
    kind = type(p).__name__
    ch = getattr(p, '_choices', None)
    if ch is not None:
        try:
            ch = [c if isinstance(c, str) else repr(c) for c in ch]
        except TypeError:
            ch = [repr(ch)]
    tv = getattr(p, '_true_value', None)
    return {
        'kind': kind,
        'target': p.pdf_field_name,
        'line': p.field_name,
        'max_length': getattr(p, 'max_length', None),
        'true_value': tv if (tv is None or isinstance(tv, str)) else repr(tv),
        'choices': ch,
        'has_value_fn': p._value_fn is not None,
    }


def _button_matrix(form, hf):
    """Evaluate the REAL ButtonPDFField.value for every value of the driving line.

    Returns a list parallel to pdf_fields(): None for non-buttons, else
    {"line": full line name, "domain": [value labels], "on": [bool|None per domain value],
     "out": [returned string|None], "error": [str|None]}.
    Domain: booleans -> False, True; enum fields -> None ("") then each member; other field kinds -> []
    (the button cannot be enumerated; recorded so the caller can count it)."""
    from habutax import pdf_fields as hp
    fmap = {}
    for f in form.fields():
        fmap.setdefault(f.name(), f)
    out = []
    for p in form.pdf_fields():
        if not isinstance(p, hp.ButtonPDFField):
            out.append(None)
            continue
        ln = p.field_name if '.' in p.field_name else f'{form.name()}.{p.field_name}'
        fobj = fmap.get(ln)
        rec = {'line': ln, 'field_kind': type(fobj).__name__ if fobj is not None else None,
               'domain': [], 'on': [], 'out': [], 'error': []}
        if fobj is None:
            out.append(rec)
            continue
        if isinstance(fobj, hf.BooleanField):
            dom = [('False', False), ('True', True)]
        elif isinstance(fobj, hf.EnumField):
            dom = [('', None)] + [(m, fobj.enum()[m]) for m in fobj.enum().__members__]
        else:
            dom = []
        for label, val in dom:
            rec['domain'].append(label)
            try:
                s = p.value(val, fobj)
                rec['out'].append(s if isinstance(s, str) else repr(s))
                rec['on'].append(s != 'Off')
                rec['error'].append(None)
            except Exception as ex:
                rec['out'].append(None)
                rec['on'].append(None)
                rec['error'].append(f'{type(ex).__name__}: {ex}')
        out.append(rec)
    return out


def _instance(cls, inst, namer, mods):
    hi, hf, hv = mods
    namer.reset_local()
    rec = {'instance': inst, 'ok': False, 'error': None, 'name': None, 'inputs': [], 'fields': [],
           'thresholds': {}, 'pdf_file': None, 'pdf_file_exists': None, 'pdf_fields': [],
           'needs_filing': None, 'needs_filing_detail': None, 'button_matrix': []}
    try:
        with warnings.catch_warnings():
            warnings.simplefilter('ignore')
            form = cls(instance=inst)
    except BaseException as ex:  # construction failure is DATA
        if isinstance(ex, (KeyboardInterrupt, SystemExit)):
            raise
        rec['error'] = f'{type(ex).__name__}: {ex}'
        return rec
    rec['ok'] = True
    try:
        rec['name'] = form.name()
        rec['full_description'] = form.full_description()
        rec['inputs'] = [_input(i, namer, hi) for i in form.inputs()]
        req = list(form.required_fields())
        req_ids = {id(f) for f in req}
        rec['fields'] = [_field(f, id(f) in req_ids, namer, hf) for f in form.fields()]
        th = getattr(form, '_thresholds', {})
        rec['thresholds'] = {str(k): _threshold(v, namer) for k, v in th.items()}
        pf = form.pdf_file()
        rec['pdf_file'] = _rel(pf)
        rec['pdf_file_exists'] = bool(pf) and os.path.isfile(pf)
        rec['pdf_fields'] = [_pdf_field(p) for p in form.pdf_fields()]
        rec['button_matrix'] = _button_matrix(form, hf)
        try:
            r = form.needs_filing(hv.ValueStore())
            if r is True:
                rec['needs_filing'] = 'true'
            elif r is False:
                rec['needs_filing'] = 'false'
            else:
                rec['needs_filing'] = 'true' if r else 'false'
                rec['needs_filing_detail'] = f'non-bool result {r!r}'
        except Exception as ex:
            rec['needs_filing'] = 'depends'
            rec['needs_filing_detail'] = f'{type(ex).__name__}: {ex}'
    except Exception as ex:
        rec['ok'] = False
        rec['error'] = f'mirror failed: {type(ex).__name__}: {ex}'
    return rec


def _cli(habutax, argv):
    """Run the real CLI function in-process, capture stdout; returns (stdout, exit_code|None, error|None)."""
    import contextlib
    buf = io.StringIO()
    old_argv = sys.argv
    code, err = None, None
    try:
        sys.argv = ['habutax'] + argv
        with contextlib.redirect_stdout(buf):
            try:
                habutax.main()
            except SystemExit as ex:
                code = ex.code
            except Exception as ex:
                err = f'{type(ex).__name__}: {ex}'
    finally:
        sys.argv = old_argv
    return buf.getvalue(), code, err


def build(with_cli=True):
    habutax = import_habutax()
    import habutax.enum as henum
    import habutax.form as hform
    import habutax.inputs as hi
    import habutax.fields as hf
    import habutax.values as hv
    import habutax.forms as hforms
    namer = EnumNamer(henum)
    out = {'habutax_version': getattr(habutax, '__version__', None), 'years': {}}
    for year in YEARS:
        forms = hforms.available_forms.get(year)
        yrec = {'dir_year': year, 'forms': [], 'status_enum': None, 'list_forms': None}
        if forms is None:
            yrec['error'] = 'year missing from available_forms'
            out['years'][str(year)] = yrec
            continue
        for cls in forms:
            vi = getattr(cls, 'valid_instances', None)
            is_input = isinstance(cls, type) and issubclass(cls, hform.InputForm)
            jur = getattr(cls, 'jurisdiction', None)
            module = getattr(cls, '__module__', None)
            # the year directory the class actually lives in (ty2023 -> 2023)
            mod_year = None
            if module:
                for part in module.split('.'):
                    if part.startswith('ty') and part[2:].isdigit():
                        mod_year = int(part[2:])
            frec = {
                'class': cls.__name__,
                'module': module,
                'module_year': mod_year,
                'form_name': getattr(cls, 'form_name', None),
                'tax_year': getattr(cls, 'tax_year', None),
                'description': getattr(cls, 'description', None),
                'long_description': getattr(cls, 'long_description', None),
                'jurisdiction': getattr(jur, 'name', None) if jur is not None else None,
                'jurisdiction_value': int(jur) if isinstance(jur, int) else None,
                'sequence_no': getattr(cls, 'sequence_no', None),
                'valid_instances': list(vi) if vi is not None else None,
                'is_input_form': is_input,
                'instances': [],
            }
            for k in ('form_name', 'description', 'long_description'):
                if frec[k] is not None and not isinstance(frec[k], str):
                    frec[k] = repr(frec[k])
            if frec['tax_year'] is not None and not isinstance(frec['tax_year'], int):
                frec['tax_year_repr'] = repr(frec['tax_year'])
                frec['tax_year'] = None
            if frec['sequence_no'] is not None and not isinstance(frec['sequence_no'], (int, float)):
                frec['sequence_no'] = repr(frec['sequence_no'])
            if vi:
                insts = list(vi)
            elif is_input:
                insts = ['0']
            else:
                insts = [None]
            for inst in insts:
                irec = _instance(cls, inst, namer, (hi, hf, hv))
                frec['instances'].append(irec)
                # the year's filing statuses: enum of the 1040's `filing_status` input
                if frec['form_name'] == '1040' and irec['ok'] and yrec['status_enum'] is None:
                    for i in irec['inputs']:
                        if i['base'] == 'filing_status' and i['enum'] is not None:
                            yrec['status_enum'] = i['enum']
            yrec['forms'].append(frec)
        if with_cli:
            cli = {}
            so, code, err = _cli(habutax, ['list-forms', '--year', str(year)])
            cli['list_forms'] = {'stdout': so, 'exit': code, 'error': err}
            lfi = []
            for frec in yrec['forms']:
                for irec in frec['instances']:
                    nm = irec['name'] if irec['ok'] else (frec['form_name'] if irec['instance'] is None else f"{frec['form_name']}:{irec['instance']}")
                    so, code, err = _cli(habutax, ['list-form-inputs', '--year', str(year), str(nm)])
                    lfi.append({'form': nm, 'stdout': so, 'exit': code, 'error': err})
            cli['list_form_inputs'] = lfi
            yrec['cli'] = cli
        out['years'][str(year)] = yrec
    return out


def main(argv=None):
    ap = argparse.ArgumentParser()
    ap.add_argument('--out', required=True)
    ap.add_argument('--no-cli', action='store_true', help='omit the captured list-forms / list-form-inputs output')
    args = ap.parse_args(argv)
    cat = build(with_cli=not args.no_cli)
    tmp = args.out + '.tmp'
    with open(tmp, 'w') as fh:
        json.dump(cat, fh, indent=1, sort_keys=False, ensure_ascii=True)
        fh.write('\n')
    os.replace(tmp, args.out)
    return 0


if __name__ == '__main__':
    sys.exit(main())
