import HabuVerif.Core.Toy
import HabuVerif.Drv.IniDrv
import HabuVerif.Drv.InputsDrv
import HabuVerif.Drv.RealDrv
import HabuVerif.Drv.CliDrv
import HabuVerif.Drv.F64Drv
/-!
Line-protocol driver: the correspondence harness pipes operations in, the model's answers come
out, one canonical line each.  Imports model files only (no Mathlib), so it can be compiled.
-/
open HabuVerif HabuVerif.Toy

structure ToyCase where
  decls : List FormDecl := []
  inp : List (String × String) := []
  ranks : List (String × Nat) := []
  sched : Option String := none          -- none = natural, some seed = hooked
  prompt : Bool := false
  refuseAt : Nat := 1000000
  answers : List (String × String) := []

def joinWith (sep : String) (l : List String) : String := sep.intercalate l

def restAfter (line : String) (k : Nat) : String :=
  -- the text after the first k space-separated tokens (inputs may contain spaces)
  joinWith " " ((line.splitOn " ").drop k)

def updDecl (decls : List FormDecl) (f : String) (g : FormDecl → FormDecl) : List FormDecl :=
  if decls.any (·.name = f) then decls.map fun d => if d.name = f then g d else d
  else decls ++ [g { name := f }]

def showAbort : Abort String String String → String
  | .unsupportedForm f => s!"unsupportedForm {f}"
  | .ctorError f => s!"ctorError {f}"
  | .badName => "badName"
  | .noSuchField n => s!"noSuchField {n}"
  | .recursion x => s!"recursion {x}"
  | .invalidInput x => s!"invalidInput {x}"
  | .invalidAnswer x => s!"invalidAnswer {x}"
  | .noForm n f => s!"noForm {n} {f}"
  | .lineErr n c => s!"lineErr {n} {c}"
  | .keyError n => s!"keyError {n}"
  | .trackerCrash => "trackerCrash"
  | .specFuel => "specFuel"

def sortStrs (l : List String) : List String := l.mergeSort (fun a b => a ≤ b)

def showDeps (t : Tracker String String) : String :=
  joinWith ";" (t.unmet.map fun (d, ws) => d ++ ":" ++ joinWith "," ws)

def runToy (c : ToyCase) (forms extra : List String) : List String :=
  let C := mkCat c.decls
  let σ := match c.sched with
    | none => naturalSched
    | some seed => hookSched c.ranks seed
  let P : Option (Nat → String → List String → Option String) :=
    if c.prompt then some fun k x _ => if k ≥ c.refuseAt then none else c.answers.lookup x
    else none
  match solve C σ P c.inp forms extra 100000 100000 with
  | .error a => [s!"verdict abort {showAbort a}"]
  | .ok none => ["verdict fuel"]
  | .ok (some s) =>
    let events := s.log.reverse
    let attempts := events.filterMap fun e => match e with | .attempt n => some n | _ => none
    let prompts := events.filterMap fun e => match e with
      | .prompt x nb a => some (x ++ "[" ++ joinWith "," nb ++ "]=" ++ (match a with | some t => t | none => "<refused>"))
      | _ => none
    [ s!"verdict {if s.solved then "solved" else "failed"}",
      "v " ++ joinWith ";" (sortStrs (s.v.map fun (n, x) => s!"{n}={x}")),
      "forms " ++ joinWith "," (sortStrs s.forms),
      "unimpl " ++ joinWith "," s.unimpl,
      "unmetI " ++ showDeps s.ideps,
      "unmetF " ++ showDeps s.fdeps,
      "attempts " ++ joinWith "," attempts,
      "prompts " ++ joinWith ";" prompts,
      "inputs " ++ joinWith ";" (sortStrs (s.inp.map fun (k, v) => s!"{k}={v}")) ]

def splitCommas (s : String) : List String := if s.isEmpty then [] else s.splitOn ","

def stepToy (c : ToyCase) (line : String) : ToyCase × List String :=
  match line.splitOn " " with
  | "form" :: f :: st :: _ =>
    let status := if st = "ctor" then FormStatus.ctorError else .ok
    ({ c with decls := updDecl c.decls f fun d => { d with status := status } }, [])
  | "input" :: f :: x :: _ =>
    ({ c with decls := updDecl c.decls f fun d => { d with inputs := d.inputs ++ [x] } }, [])
  | "field" :: f :: n :: req :: toks =>
    match parseProg (toks.length + 1) toks with
    | some (p, []) =>
      ({ c with decls := updDecl c.decls f fun d => { d with fields := d.fields ++ [(n, decide (req = "1"), p)] } }, [])
    | _ => (c, ["bad-tree"])
  | "inp" :: x :: _ => ({ c with inp := c.inp ++ [(x, restAfter line 2)] }, [])
  | "rank" :: n :: k :: _ => ({ c with ranks := c.ranks ++ [(n, k.toNat!)] }, [])
  | ["sched", "natural"] => ({ c with sched := none }, [])
  | ["sched", "hook", seed] => ({ c with sched := some seed }, [])
  | ["prompt", "none"] => ({ c with prompt := false }, [])
  | ["prompt", "fn", k] => ({ c with prompt := true, refuseAt := k.toNat! }, [])
  | "ans" :: x :: _ => ({ c with answers := c.answers ++ [(x, restAfter line 2)] }, [])
  | ["solve", fs, ex] => (c, runToy c (splitCommas fs) (splitCommas ex) ++ ["done"])
  | _ => (c, ["bad-op"])

/-- tracker stream: one op per line on a tracker of strings -/
def stepTracker (t : Tracker String String) (line : String) : Tracker String String × String :=
  match line.splitOn " " with
  | ["add", d, w] => (t.addUnmet d w, "ok")
  | ["meet", d] => (t.meet d, "ok")
  | ["hasmet"] => (t, toString t.hasMet)
  | ["hasunmet"] => (t, toString t.hasUnmet)
  | ["deps"] => (t, joinWith "," t.unmetDependencies)
  | ["dependents", d] => (t, match t.unmetDependents d with
      | some ws => joinWith "," ws
      | none => "KeyError")
  | ["next"] => match t.drainStep with
      | .done t' => (t', "stop")
      | .yield w t' => (t', "yield " ++ w)
      | .crash => (t, "crash")
  | ["drain"] => match t.drainAll with
      | some (ws, t') => (t', "drained " ++ joinWith "," ws)
      | none => (t, "crash")
  | ["state"] => (t, showDeps t ++ " | " ++ joinWith "," t.met)
  | _ => (t, "bad-op")

inductive Mode where
  | idle
  | toy (c : ToyCase)
  | tracker (t : Tracker String String)
  | real (c : HabuVerif.RealDrv.Case)

partial def loop (h : IO.FS.Stream) (out : IO.FS.Stream) (m : Mode) : IO Unit := do
  let line ← h.getLine
  if line.isEmpty then return ()
  let line := (line.dropEndWhile (fun c => c = '\n' || c = '\r')).toString
  match m, line with
  | _, "toy-begin" => loop h out (.toy {})
  | _, "tracker-begin" => loop h out (.tracker {})
  | _, "end" => loop h out .idle
  | .toy c, l =>
    let (c', outs) := stepToy c l
    for o in outs do out.putStrLn o
    loop h out (.toy c')
  | .tracker t, l =>
    let (t', o) := stepTracker t l
    out.putStrLn o
    loop h out (.tracker t')
  | .real c, l =>
    let (c', outs) := HabuVerif.RealDrv.step c l
    for o in outs do out.putStrLn o
    loop h out (.real c')
  | .idle, "sortkeys" =>
    -- next line: names separated by spaces; answer: naturally sorted
    let l ← h.getLine
    let names := ((l.dropEndWhile (fun c => c = '\n' || c = '\r')).toString.splitOn " ").filter (· ≠ "")
    out.putStrLn (joinWith " " (SortKeys.naturalSort names))
    loop h out .idle
  | .idle, l => do
    -- stateless streams: `<stream> <op...>`
    if l.startsWith "ini " then out.putStrLn (IniDrv.step (l.drop 4).toString)
    else if l.startsWith "inp " then out.putStrLn (InputsDrv.step (l.drop 4).toString)
    else if l.startsWith "cli " then out.putStrLn (CliDrv.step (l.drop 4).toString)
    else if l.startsWith "f64 " then out.putStrLn (F64Drv.step (l.drop 4).toString)
    else
      match HabuVerif.RealDrv.begin? l with
      | some c => return (← loop h out (.real c))
      | none => out.putStrLn "bad-op"
    loop h out .idle

def main : IO Unit := do
  let out ← IO.getStdout
  loop (← IO.getStdin) out .idle
  out.flush
