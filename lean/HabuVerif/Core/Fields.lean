import HabuVerif.Core.Inputs
/-!
# Model of `habutax/fields.py`: typed fields

`TypedField.value` runs the line's definition and post-processes what it returned:

```python
v = self._value(inputs, values)
if v is None or isinstance(v, str) and v.strip() == "":
    return self._empty_value
elif type(v) is not self._type:
    raise TypeError(...)
return v
```

and `FloatField.value` rounds the result of that (`round(value, places)`), i.e. AFTER the check and
also on the empty value.  `fieldValue` is that post-processing as a function of the returned object;
`type(v) is T` is exact (a `bool` is not an `int`, an `int` not a `float`, a member of another enum
class or an instance of a subclass is rejected).

The float carrier `F` and its operations are parameters (`FloatOps`, see `Core/Inputs.lean`):
`round(x, n)`, `f'{x:.{n}f}'`, the literal `0.0` and the rounding of a decimal literal (`float(str)`).
`places` is a natural number (a negative `places` makes `to_string` raise, `None` makes `round`
return an `int`; the shipped forms use 0, 2 (the default) and 5).

`toString` / `fromString` are `Field.to_string` / `Field.from_string`; `to_string` is modelled on
`None`, `bool`, `int`, `str` (`str(value)`), on floats for `FloatField` and on members of the
field's own enum class for `EnumField`; everything else is `unmodelled`.  A `str`-mixin enum
(member that is also a `str`) is outside the model.
Core only.
-/
set_option autoImplicit false

namespace HabuVerif.Fields

open PyStr Inputs

inductive FieldTy where
  | str
  | bool
  | int
  | float (places : Nat)
  | enum (e : EnumTy)
deriving DecidableEq, Repr

/-- `self._empty_value` -/
def emptyValue {F : Type} (ops : FloatOps F) : FieldTy → PyVal F
  | .str => .str []
  | .bool => .bool false
  | .int => .int 0
  | .float _ => .float ops.zero
  | .enum _ => .none

/-- `v is None or isinstance(v, str) and v.strip() == ""` -/
def isBlank {F : Type} (T : CharTable) : PyVal F → Bool
  | .none => true
  | .str s => strip T s == []
  | .strSub _ s => strip T s == []
  | _ => false

/-- `type(v) is self._type` -/
def hasType {F : Type} : FieldTy → PyVal F → Bool
  | .str, .str _ => true
  | .bool, .bool _ => true
  | .int, .int _ => true
  | .float _, .float _ => true
  | .enum e, .enumMember i _ => i == e.ident
  | _, _ => false

/-- `TypedField.value` applied to the object `v` returned by the definition -/
def typedValue {F : Type} (T : CharTable) (ops : FloatOps F) (ft : FieldTy) (v : PyVal F) :
    Except PyErr (PyVal F) :=
  if isBlank T v then .ok (emptyValue ops ft)
  else if !hasType ft v then .error .typeError
  else .ok v

/-- `Field.value` of the field classes (`FloatField` rounds what `TypedField.value` returned) -/
def fieldValue {F : Type} (T : CharTable) (ops : FloatOps F) (ft : FieldTy) (v : PyVal F) :
    Except PyErr (PyVal F) :=
  match ft with
  | .float places =>
    match typedValue T ops ft v with
    | .ok (.float x) => .ok (.float (ops.roundN x places))
    | .ok _ => .error .unmodelled        -- `round` of a non-float: cannot happen (`typedValue_typed`)
    | .error e => .error e
  | _ => typedValue T ops ft v

/-- `str(value)` for the builtin kinds -/
def pyStrBasic {F : Type} (T : CharTable) : PyVal F → Except PyErr Text
  | .none => .ok ['N','o','n','e']
  | .bool true => .ok ['T','r','u','e']
  | .bool false => .ok ['F','a','l','s','e']
  | .int i => match intStr T i with
    | some s => .ok s
    | Option.none => .error .valueError          -- integer string conversion length limit
  | .str s => .ok s
  | _ => .error .unmodelled

/-- `str(member)` -/
def enumStr (e : EnumTy) (member : Text) : Text :=
  if e.stringy then member else e.clsName ++ ['.'] ++ member

/-- `Field.to_string(value)` -/
def toString {F : Type} (T : CharTable) (ops : FloatOps F) : FieldTy → PyVal F → Except PyErr Text
  | .float places, .float x => .ok (ops.fmt x places)
  | .float _, _ => .error .unmodelled
  | .enum _, .none => .ok []
  | .enum e, .enumMember i m => if i == e.ident then .ok (enumStr e m) else .error .unmodelled
  | .enum _, _ => .error .unmodelled
  | _, v => pyStrBasic T v

/-- `Field.from_string(string)` -/
def fromString {F : Type} (T : CharTable) (ops : FloatOps F) : FieldTy → Text → Except PyErr (PyVal F)
  | .str, s => .ok (.str s)                                         -- `str(string)`
  | .bool, s => .ok (.bool (lower T (strip T s) == ['t','r','u','e']))
  | .int, s => match parseInt T s with                             -- `int(string)`
    | some i => .ok (.int i)
    | Option.none => .error .valueError
  | .float places, s => match parseFloatLit T s with               -- `round(float(string), places)`
    | some d => .ok (.float (ops.roundN (ops.ofLit d) places))
    | Option.none => .error .valueError
  | .enum e, s =>
    if s.length == 0 then .ok .none
    else if s ∈ e.members then .ok (.enumMember e.ident s)
    else .error .keyError

/-- `InputForm.__init__`: the field created for an input (`type(i)` is compared exactly, so a
`RegexInput` — not in the list — makes the constructor raise `TypeError`). -/
def fieldOfInput : InputSpec → Except PyErr FieldTy
  | .str => .ok .str
  | .ssn => .ok .str
  | .bool => .ok .bool
  | .int => .ok .int
  | .float => .ok (.float 2)
  | .enum e _ => .ok (.enum e)
  | .regex _ => .error .typeError

end HabuVerif.Fields
