import HabuVerif.Ini
/-!
# The command-line session layer of habutax on top of the configparser model

* `storeSet`, `provides`, `applyAnswers` : `InputStore.__setitem__`, `InputStore.provides`, and the sequence
  of `self._i[missing.name()] = value` the solver performs for the answers of one session.
* `sessionFile` : what `habutax solve --prompt-missing --writeback-input` leaves in the input file when the
  session is cut short after some answers — however it was cut short.  `solve` is
  `Path(f).touch(); store = InputStore(f); s = Solver(...); try: s.solve(...); s.solution() finally:
  store.write(f)`: a Ctrl-C at a prompt (turned into a refusal by `prompt_input`), an `EOFError` out of
  `input`, a `NotImplementedError` for an unsupported form and an exception out of a line definition all
  leave through the same `finally`, which writes the configuration object the answers were stored in.
  If the file cannot be parsed, `InputStore(f)` raises BEFORE the `try`, and the file is left untouched.
* `toConfig`, `attachMeta`, `readBack` : `ValueStore.to_config`, `solution['habutax'] = {...}` and what
  `fill_pdfs` + `PDFFiller._add_form/_read_form_fields` read from the solution file (up to the point where
  each text is handed to `field.from_string`).
* `pyInt` : `int(text)` as used by `getint('habutax', 'tax_year')`, for ASCII digits (Python also accepts
  other Unicode decimal digits; not modelled).  `decOfNat` : `str(n)` for a natural number.

Not modelled: `MissingInputSpecification` (the solver registers the specification before it stores an
answer), validation of the answer (`prompt_input` loops until `missing.valid(value)`; the stored text is the
RAW line typed), the `--solution` / stdout alternative (same text either way).

Core only.
-/
set_option autoImplicit false

namespace HabuVerif.Cli
open HabuVerif.Ini

/-- an answer: (section = `input.section()`, key = `input.base_name()`, the text typed) -/
abbrev Answer := Text × Text × Text

/-- `InputStore.__setitem__` once the input specification is known:
`if i.section() not in self.config.sections(): self.config.add_section(i.section())` then
`self.config.set(i.section(), i.base_name(), value)`.  (`x in parser.sections()` is `has_section(x)`.) -/
def storeSet (c : Config) (s k v : Text) : Except Err Config :=
  if c.hasSection s then c.set s k v
  else match c.addSection s with
    | .ok c1 => c1.set s k v
    | .error e => .error e

/-- `InputStore.provides(input)` = `config.has_option(input.section(), input.base_name())` -/
def provides (c : Config) (s k : Text) : Bool := c.hasOption s k

/-- the answers of a session stored one after the other; stops at the first exception -/
def applyAnswers : Config → List Answer → Except Err Config
  | c, [] => .ok c
  | c, a :: rest =>
    match storeSet c a.1 a.2.1 a.2.2 with
    | .ok c' => applyAnswers c' rest
    | .error e => .error e

/-- the same, keeping the configuration object as it is when an exception escapes (that object is what
the `finally` block writes) -/
def applyAnswersP : Config → List Answer → Config × Option Err
  | c, [] => (c, none)
  | c, a :: rest =>
    match storeSet c a.1 a.2.1 a.2.2 with
    | .ok c' => applyAnswersP c' rest
    | .error e => (c, some e)

/-- The input file after an interactive write-back session in which exactly `answers` were given before
the session ended (normally or by any interruption).  `fileText` is the content before the run (the empty
text for an absent file: `Path.touch`).  `.error e`: `InputStore(file)` raised `e`, nothing was written. -/
def sessionFile (fileText : Text) (answers : List Answer) : Except Err Text :=
  match parseFile fileText with
  | .error e => .error e
  | .ok c => .ok (write (applyAnswersP c answers).1)

/-- the bytes on disk afterwards, in every case -/
def sessionDisk (fileText : Text) (answers : List Answer) : Text :=
  match sessionFile fileText answers with
  | .ok t => t
  | .error _ => fileText

/-! ## solution files -/

def habutax : Text := ['h', 'a', 'b', 'u', 't', 'a', 'x']
def taxYearKey : Text := ['t', 'a', 'x', '_', 'y', 'e', 'a', 'r']
def versionKey : Text := ['v', 'e', 'r', 's', 'i', 'o', 'n']

/-- one iteration of `ValueStore.to_config`: `if form not in config: config[form] = {}` then
`config[form][field] = text`.  (`proxySet` cannot fail here — `toConfigStep_eq` in the proofs — so the
fallback branch is dead.) -/
def toConfigStep (c : Config) (t : Text × Text × Text) : Config :=
  let c1 := if c.contains t.1 then c else (c.setItem t.1 []).1
  match c1.proxySet t.1 t.2.1 (.str t.2.2) with
  | .ok c2 => c2
  | .error _ => c1

/-- `ValueStore.to_config(field_map)` on the (form, line, `field.to_string(value)`) triples in the
insertion order of the value store -/
def toConfig (triples : List (Text × Text × Text)) : Config := triples.foldl toConfigStep {}

/-- `str(n)` for a natural number -/
def decOfNat (n : Nat) : Text :=
  if h : n < 10 then [Char.ofNat (48 + n)] else decOfNat (n / 10) ++ [Char.ofNat (48 + n % 10)]
termination_by n
decreasing_by omega

/-- `solution['habutax'] = {'tax_year': year, 'version': version}` (`read_dict` turns the int into
`str(year)` before `set`) -/
def attachMeta (c : Config) (year : Nat) (version : Text) : Config :=
  (c.setItem habutax [(taxYearKey, .int (Int.ofNat year)), (versionKey, .str version)]).1

def isDigit (c : Char) : Bool := 48 ≤ c.toNat && c.toNat ≤ 57

/-- the digits-and-underscores part of an `int` literal: at least one digit, single underscores only
between digits -/
def parseDigits : Text → Nat → Bool → Option Nat
  | [], acc, lastDigit => if lastDigit then some acc else none
  | c :: cs, acc, lastDigit =>
    if isDigit c then parseDigits cs (acc * 10 + (c.toNat - 48)) true
    else if c = '_' && lastDigit then parseDigits cs acc false
    else none

/-- `int(text)` (base 10, ASCII digits): surrounding white space, an optional sign, digits -/
def pyInt (t : Text) : Option Int :=
  match strip t with
  | '-' :: ds => (parseDigits ds 0 false).map fun n => - Int.ofNat n
  | '+' :: ds => (parseDigits ds 0 false).map Int.ofNat
  | ds => (parseDigits ds 0 false).map Int.ofNat

/-- `for field_name in self._solution[form]: string = self._solution[form][field_name]` -/
def readOpts (c : Config) (n : Text) : List Text → Except Err (List (Text × Text))
  | [] => .ok []
  | k :: ks =>
    match c.proxyGet n k with
    | .error e => .error e
    | .ok v => match readOpts c n ks with
      | .error e => .error e
      | .ok r => .ok ((k, v) :: r)

/-- `for form_name in self._solution: if form_name == 'DEFAULT': continue; self._add_form(form_name)` -/
def readForms (c : Config) : List Text → Except Err (List (Text × List (Text × Text)))
  | [] => .ok []
  | n :: ns =>
    if n = DEFAULT then readForms c ns
    else match c.proxyIter n with
      | .error e => .error e
      | .ok ks => match readOpts c n ks with
        | .error e => .error e
        | .ok os => match readForms c ns with
          | .error e => .error e
          | .ok r => .ok ((n, os) :: r)

/-- What `fill_pdfs` reads from a parsed solution: the tax year (`getint('habutax', 'tax_year')`,
`ValueError` when it is not an integer), then — after `remove_section('habutax')` — for every remaining
section in order the (line, text) pairs `_read_form_fields` iterates over.  The iteration of a section
proxy includes the DEFAULT keys. -/
def readBack (c : Config) : Except Err (Int × List (Text × List (Text × Text))) :=
  match c.get habutax taxYearKey with
  | .error e => .error e
  | .ok yt =>
    match pyInt yt with
    | none => .error .valueError
    | some y =>
      let c1 := (c.removeSection habutax).2
      match readForms c1 c1.iter with
      | .error e => .error e
      | .ok forms => .ok (y, forms)

end HabuVerif.Cli
