/-!
# Strategy trees: what a line definition *is*, as far as the solver can tell

A habutax line is a Python function `f(self, inputs, values)`.  The only ways it can interact with
the solver are: read a line (`values[...]`, may raise `UnmetDependency`), read an input
(`inputs[...]`, may raise `MissingInputSpecification`, `MissingInput`, `InvalidInput`), look at the
set of loaded forms (`self.form(name)`, may raise `KeyError`), call `self.not_implemented()`,
return a value, or fail with some other exception.  A deterministic, side-effect-free function of
that kind is exactly a tree of this type.  (Core only: no imports.)
-/
set_option autoImplicit false

namespace HabuVerif

/-- Interaction tree of one line. `N` line names, `I` input names, `F` form names, `V` values. -/
inductive Tree (N I F V : Type) where
  | ret (v : V)
  | notImpl
  | err (code : Nat)
  | readV (n : N) (k : V → Tree N I F V)
  | readI (x : I) (k : V → Tree N I F V)
  | needForm (f : F) (k : Tree N I F V)

/-- What the input store says about an input name. -/
inductive InpRes (V : Type) where
  | noSpec            -- the form declaring it has not been loaded: `MissingInputSpecification`
  | missing           -- declared, not supplied: `MissingInput`
  | invalid           -- supplied, rejected by the input's validator: `InvalidInput`
  | ok (v : V)        -- supplied and valid: the typed value
deriving DecidableEq, Repr

/-- Outcome of one attempt at a line. -/
inductive Out (N I F V : Type) where
  | val (v : V)
  | needV (n : N)
  | needI (x : I)
  | needSpec (x : I)
  | notImpl
  | invalid (x : I)       -- `InvalidInput` escapes the solver: abort
  | noForm (f : F)        -- `KeyError` from `Field.form(name)`: abort
  | err (code : Nat)      -- any other exception: abort
deriving DecidableEq, Repr

variable {N I F V : Type}

/-- Run a line against the current stores. -/
def run (vs : N → Option V) (is : I → InpRes V) (fs : F → Bool) : Tree N I F V → Out N I F V
  | .ret v => .val v
  | .notImpl => .notImpl
  | .err c => .err c
  | .readV n k => match vs n with
    | some v => run vs is fs (k v)
    | none => .needV n
  | .readI x k => match is x with
    | .ok v => run vs is fs (k v)
    | .noSpec => .needSpec x
    | .missing => .needI x
    | .invalid => .invalid x
  | .needForm f k => if fs f then run vs is fs k else .noForm f

/-- Monotone map on the results of lines (the typed-field wrapper: blank convention, rounding,
type check turning a value into an error). -/
def Tree.mapOut (g : V → Sum V Nat) : Tree N I F V → Tree N I F V
  | .ret v => match g v with
    | .inl w => .ret w
    | .inr c => .err c
  | .notImpl => .notImpl
  | .err c => .err c
  | .readV n k => .readV n (fun v => (k v).mapOut g)
  | .readI x k => .readI x (fun v => (k v).mapOut g)
  | .needForm f k => .needForm f (k.mapOut g)

/-! ## Growth of stores -/

/-- `b` extends `a`: everything present in `a` is present with the same value in `b`. -/
def Ext {K : Type} (a b : K → Option V) : Prop := ∀ k v, a k = some v → b k = some v

/-- Input stores grow along `noSpec → missing → ok`; `invalid` and `ok` never change. -/
def InpLe (a b : I → InpRes V) : Prop :=
  ∀ x, (∀ v, a x = .ok v → b x = .ok v) ∧ (a x = .invalid → b x = .invalid) ∧
       (a x = .missing → b x ≠ .noSpec)

def FormLe (a b : F → Bool) : Prop := ∀ f, a f = true → b f = true

theorem Ext.refl {K : Type} (a : K → Option V) : Ext a a := fun _ _ h => h
theorem Ext.trans {K : Type} {a b c : K → Option V} (h1 : Ext a b) (h2 : Ext b c) : Ext a c :=
  fun k v h => h2 k v (h1 k v h)
theorem InpLe.refl (a : I → InpRes V) : InpLe a a :=
  fun _ => ⟨fun _ h => h, fun h => h, fun h => by rw [h]; simp⟩
theorem InpLe.trans {a b c : I → InpRes V} (h1 : InpLe a b) (h2 : InpLe b c) : InpLe a c := by
  intro x
  obtain ⟨a1, a2, a3⟩ := h1 x
  obtain ⟨b1, b2, b3⟩ := h2 x
  refine ⟨fun v h => b1 v (a1 v h), fun h => b2 (a2 h), fun h => ?_⟩
  have := a3 h
  cases hb : b x with
  | noSpec => exact absurd hb this
  | missing => exact b3 hb
  | invalid => rw [b2 hb]; simp
  | ok v => rw [b1 v hb]; simp
theorem FormLe.refl (a : F → Bool) : FormLe a a := fun _ h => h
theorem FormLe.trans {a b c : F → Bool} (h1 : FormLe a b) (h2 : FormLe b c) : FormLe a c :=
  fun f h => h2 f (h1 f h)

end HabuVerif
