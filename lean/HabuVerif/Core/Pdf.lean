/-!
# FDF generation (`habutax/pdf_filler.py`) and PDF literal strings

* `escapePdf` = `PDFFiller._escape_pdf_string`, `createFdf` = the text `PDFFiller._create_fdf` writes.
* `pdfDecodeString` = a reader for ONE PDF literal string (ISO 32000-1 §7.3.4.2), positioned just after
  the opening `(`.  It works on characters; an octal escape yields the character with that code
  (high-order overflow ignored, i.e. modulo 256, as the standard says).
* `decodeFdfFields` reads the `/T (...) /V (...)` pairs back out of an FDF text of the shape
  `createFdf` produces.
* `fillSelection` = which forms `PDFFiller.fill` fills, in which order.

Core only.
-/
set_option autoImplicit false

namespace HabuVerif.Pdf

abbrev Text := List Char

/-- `str.replace(c, r)` for a one-character needle -/
def replaceChar (c : Char) (r : Text) (s : Text) : Text := s.flatMap fun x => if x = c then r else [x]

/-- `string.replace('\\', '\\\\').replace('(', '\\(').replace(')', '\\)')` -/
def escapePdf (s : Text) : Text :=
  replaceChar ')' ['\\', ')'] (replaceChar '(' ['\\', '('] (replaceChar '\\' ['\\', '\\'] s))

/-- `fdf_header` = `"%FDF-1.2\n%,,oe\"\n1 0 obj\n<< /FDF << /Fields ["` (spelled as a character list so
that proofs and kernel evaluation never meet a `String`) -/
def fdfHeader : Text :=
  ['%', 'F', 'D', 'F', '-', '1', '.', '2', '\n', '%', ',', ',', 'o', 'e', '"', '\n', '1', ' ', '0', ' ', 'o', 'b', 'j', '\n', '<', '<', ' ', '/', 'F', 'D', 'F', ' ', '<', '<', ' ', '/', 'F', 'i', 'e', 'l', 'd', 's', ' ', '[']
/-- `fdf_footer` = `"\n] >> >>\nendobj\ntrailer\n<< /Root 1 0 R >>\n%%EOF;\n"` -/
def fdfFooter : Text :=
  ['\n', ']', ' ', '>', '>', ' ', '>', '>', '\n', 'e', 'n', 'd', 'o', 'b', 'j', '\n', 't', 'r', 'a', 'i', 'l', 'e', 'r', '\n', '<', '<', ' ', '/', 'R', 'o', 'o', 't', ' ', '1', ' ', '0', ' ', 'R', ' ', '>', '>', '\n', '%', '%', 'E', 'O', 'F', ';', '\n']

/-- `"<< /T ("` -/
def tOpen : Text := ['<', '<', ' ', '/', 'T', ' ', '(']
/-- `" /V ("` -/
def vOpen : Text := [' ', '/', 'V', ' ', '(']
/-- `" >>"` -/
def eClose : Text := [' ', '>', '>']

/-- `f'<< /T ({esc(k)}) /V ({esc(v)}) >>'` -/
def fdfEntry (esc : Text → Text) (kv : Text × Text) : Text :=
  tOpen ++ esc kv.1 ++ ')' :: vOpen ++ esc kv.2 ++ ')' :: eClose

/-- `_create_fdf` with the escaping function as a parameter -/
def createFdfWith (esc : Text → Text) (data : List (Text × Text)) : Text :=
  fdfHeader ++ List.intercalate ['\n'] (data.map (fdfEntry esc)) ++ fdfFooter

/-- the text `PDFFiller._create_fdf(data, filename)` writes (`data.items()` in order) -/
def createFdf (data : List (Text × Text)) : Text := createFdfWith escapePdf data

/-- what `_create_fdf` wrote before the escaping was added (kept for the negative control) -/
def createFdfRaw (data : List (Text × Text)) : Text := createFdfWith id data

/-! ## reading a literal string -/

def isOct (c : Char) : Bool := 48 ≤ c.toNat && c.toNat ≤ 55
def octVal (c : Char) : Nat := c.toNat - 48

/-- reader state between two characters -/
inductive DState where
  | norm                       -- ordinary text
  | esc                        -- just read a backslash
  | cr                         -- just read a raw CR (already emitted as LF): swallow a following LF
  | escCr                      -- just read backslash CR (a line continuation): swallow a following LF
  | oct (left : Nat) (v : Nat) -- inside an octal escape: `left` more digits allowed, value so far
deriving DecidableEq, Repr

/-- outcome of feeding one character -/
inductive Fed where
  | done (acc : Text)                          -- that was the closing parenthesis
  | more (st : DState) (depth : Nat) (acc : Text)

/-- one character in ordinary text.  An unescaped end-of-line marker (CR, LF or CR LF) is read as a
single LF; parentheses nest. -/
def normStep (c : Char) (depth : Nat) (acc : Text) : Fed :=
  if c = ')' then
    match depth with
    | 0 => .done acc
    | d + 1 => .more .norm d (c :: acc)
  else if c = '(' then .more .norm (depth + 1) (c :: acc)
  else if c = '\r' then .more .cr depth ('\n' :: acc)
  else if c = '\\' then .more .esc depth acc
  else .more .norm depth (c :: acc)

/-- the character after a backslash (Table 3; anything else: the backslash is ignored) -/
def escStep (e : Char) (depth : Nat) (acc : Text) : Fed :=
  if e = 'n' then .more .norm depth ('\n' :: acc)
  else if e = 'r' then .more .norm depth ('\r' :: acc)
  else if e = 't' then .more .norm depth ('\t' :: acc)
  else if e = 'b' then .more .norm depth ('\x08' :: acc)
  else if e = 'f' then .more .norm depth ('\x0c' :: acc)
  else if e = '(' || e = ')' || e = '\\' then .more .norm depth (e :: acc)
  else if e = '\n' then .more .norm depth acc          -- line continuation
  else if e = '\r' then .more .escCr depth acc
  else if isOct e then .more (.oct 2 (octVal e)) depth acc
  else .more .norm depth (e :: acc)

/-- the character an octal escape stands for (high-order overflow ignored) -/
def octChar (v : Nat) : Char := Char.ofNat (v % 256)

def feed : DState → Char → Nat → Text → Fed
  | .norm, c, d, acc => normStep c d acc
  | .esc, c, d, acc => escStep c d acc
  | .cr, c, d, acc => if c = '\n' then .more .norm d acc else normStep c d acc
  | .escCr, c, d, acc => if c = '\n' then .more .norm d acc else normStep c d acc
  | .oct left v, c, d, acc =>
    if left > 0 ∧ isOct c then .more (.oct (left - 1) (v * 8 + octVal c)) d acc
    else normStep c d (octChar v :: acc)

/-- the body of a literal string after the opening parenthesis: `depth` counts the unescaped `(` that
are still open, `acc` is the decoded text so far (reversed).  `none` = the string is not terminated. -/
def pdfDecodeAux : Text → DState → Nat → Text → Option (Text × Text)
  | [], _, _, _ => none
  | c :: rest, st, depth, acc =>
    match feed st c depth acc with
    | .done acc' => some (acc'.reverse, rest)
    | .more st' depth' acc' => pdfDecodeAux rest st' depth' acc'

/-- decode one literal string starting just after its `(`: the decoded text and what follows the
closing `)` -/
def pdfDecodeString (s : Text) : Option (Text × Text) := pdfDecodeAux s .norm 0 []

/-- `some rest` when `s = p ++ rest` -/
def dropPrefix : Text → Text → Option Text
  | [], s => some s
  | _ :: _, [] => none
  | p :: ps, c :: cs => if p = c then dropPrefix ps cs else none

/-- one `<< /T (name) /V (value) >>` dictionary -/
def decodeEntry (s : Text) : Option ((Text × Text) × Text) := do
  let s ← dropPrefix tOpen s
  let (k, s) ← pdfDecodeString s
  let s ← dropPrefix vOpen s
  let (v, s) ← pdfDecodeString s
  let s ← dropPrefix eClose s
  pure ((k, v), s)

/-- entries separated by `'\n'` up to the footer; `fuel` bounds the number of entries -/
def decodeEntries : Nat → Text → Option (List (Text × Text))
  | 0, _ => none
  | fuel + 1, s => do
    let (e, s) ← decodeEntry s
    if s = fdfFooter then pure [e]
    else
      let s ← dropPrefix ['\n'] s
      let es ← decodeEntries fuel s
      pure (e :: es)

/-- read the fields of an FDF text of the shape `_create_fdf` writes -/
def decodeFdfFields (s : Text) : Option (List (Text × Text)) := do
  let s ← dropPrefix fdfHeader s
  if s = fdfFooter then pure [] else decodeEntries s.length s

/-! ## which forms `PDFFiller.fill` fills -/

/-- what `fill` looks at, per section of the solution file -/
structure FormInfo where
  name : Text
  jurisdiction : Nat
  sequenceNo : Nat
  needsFiling : Bool
deriving DecidableEq, Repr

def DEFAULT : Text := ['D', 'E', 'F', 'A', 'U', 'L', 'T']

/-- `(a.jurisdiction, a.sequence_no) <= (b.jurisdiction, b.sequence_no)` -/
def keyLe (a b : FormInfo) : Bool :=
  a.jurisdiction < b.jurisdiction || (a.jurisdiction == b.jurisdiction && a.sequenceNo ≤ b.sequenceNo)

/-- `fill`: every name the parser iterates over except `'DEFAULT'` becomes a form; those that need
filing are sorted (stably, like `list.sort`) by `(jurisdiction, sequence_no)`. -/
def fillSelection (sections : List FormInfo) : List FormInfo :=
  (((sections.filter fun f => f.name ≠ DEFAULT).filter fun f => f.needsFiling)).mergeSort keyLe

end HabuVerif.Pdf
