import HabuVerif.Core.Solver
import HabuVerif.Core.SortKeys
/-!
# Executable instantiation of the solver model for the correspondence harness

Names are `String`s, values are `Int`s, input text is a `String` parsed like `IntegerInput`.
Line programs arrive as a prefix-coded strategy tree (`Toy.parseTree`):

    T ::= R <int> | NI | E <code> | V <name> <cases> | I <name> <cases> | F <form> T
    cases ::= <k> (<int> T){k} T          -- k explicit branches on the value read, then the default

The same text is compiled into a Python closure by the harness and run by the real `Solver`.
Core only.
-/
set_option autoImplicit false

namespace HabuVerif.Toy

abbrev TTree := Tree String String String Int

/-- finite-branching description (first order, so it can be parsed and printed) -/
inductive Prog where
  | ret (v : Int)
  | notImpl
  | err (code : Nat)
  | readV (n : String) (cases : List (Int × Prog)) (dflt : Prog)
  | readI (x : String) (cases : List (Int × Prog)) (dflt : Prog)
  | needForm (f : String) (k : Prog)
deriving Repr, Inhabited

def pick : List (Int × TTree) → TTree → Int → TTree
  | [], d, _ => d
  | (c, t) :: cs, d, v => if v = c then t else pick cs d v

mutual
  def Prog.toTree : Prog → TTree
    | .ret v => .ret v
    | .notImpl => .notImpl
    | .err c => .err c
    | .readV n cs d => .readV n (pick (casesToTree cs) d.toTree)
    | .readI x cs d => .readI x (pick (casesToTree cs) d.toTree)
    | .needForm f k => .needForm f k.toTree
  def casesToTree : List (Int × Prog) → List (Int × TTree)
    | [] => []
    | (c, p) :: cs => (c, p.toTree) :: casesToTree cs
end

/-- parser with fuel (token count bounds the depth) -/
def parseProg : Nat → List String → Option (Prog × List String)
  | 0, _ => none
  | fuel + 1, toks =>
    match toks with
    | "R" :: v :: rest => v.toInt?.map fun i => (.ret i, rest)
    | "NI" :: rest => some (.notImpl, rest)
    | "E" :: c :: rest => c.toNat?.map fun k => (.err k, rest)
    | "F" :: f :: rest => (parseProg fuel rest).map fun (k, r) => (.needForm f k, r)
    | "V" :: n :: k :: rest => do
      let k ← k.toNat?
      let (cs, r) ← parseCases fuel k rest
      let (d, r) ← parseProg fuel r
      pure (.readV n cs d, r)
    | "I" :: x :: k :: rest => do
      let k ← k.toNat?
      let (cs, r) ← parseCases fuel k rest
      let (d, r) ← parseProg fuel r
      pure (.readI x cs d, r)
    | _ => none
where
  parseCases (fuel : Nat) : Nat → List String → Option (List (Int × Prog) × List String)
    | 0, toks => some ([], toks)
    | k + 1, c :: toks => do
      let c ← c.toInt?
      let (p, r) ← parseProg fuel toks
      let (cs, r) ← parseCases fuel k r
      pure ((c, p) :: cs, r)
    | _, [] => none

structure FormDecl where
  name : String
  status : FormStatus := .ok
  inputs : List String := []
  fields : List (String × Bool × Prog) := []     -- full name, required, program

/-- `IntegerInput.valid/value` restricted to what the harness sends: optional surrounding blanks,
optional `-`, ASCII digits; empty means 0; anything else is invalid. -/
def parseInt (s : String) : Option Int :=
  let t := s.trimAscii.toString
  if t.isEmpty then some 0 else t.toInt?

def formOf (name : String) : Option String :=
  match name.splitOn "." with
  | [f, _] => some f
  | _ => none

/-- class name of `form[:instance]` -/
def className (f : String) : String := (f.splitOn ":").headD f

def mkCat (decls : List FormDecl) : Cat String String String Int String :=
  let find (f : String) : Option FormDecl := decls.find? (·.name = f)
  { sem := fun n =>
      match formOf n with
      | none => .err 99
      | some f => match find f with
        | none => .err 98
        | some d => match d.fields.find? (·.1 = n) with
          | none => .err 97
          | some (_, _, p) => p.toTree
    formOfN := formOf
    formOfI := formOf
    status := fun f => match find f with
      | none => .unsupported
      | some d => d.status
    fields := fun f => match find f with
      | none => []
      | some d => d.fields.map (·.1)
    required := fun f => match find f with
      | none => []
      | some d => (d.fields.filter (·.2.1)).map (·.1)
    inputs := fun f => match find f with
      | none => []
      | some d => d.inputs
    parse := fun _ s => parseInt s }

/-! ## Schedules -/

def fnv1a (s : String) : UInt64 :=
  s.toUTF8.foldl (fun h b => (h ^^^ b.toUInt64) * 1099511628211) 14695981039346656037

/-- rank of a name under a hook schedule: explicit table first, else a seeded hash -/
def rank (table : List (String × Nat)) (seed : String) (n : String) : Nat :=
  match table.lookup n with
  | some k => k
  | none => 1000000 + (fnv1a (seed ++ ":" ++ n)).toNat

/-- natural order only: what the unhooked code does -/
def naturalSched : Sched String String :=
  { sortQ := SortKeys.naturalSort, sortW := SortKeys.naturalSort, sortI := SortKeys.naturalSort,
    sortR := id }

/-- hooked: the hook stably re-sorts the naturally sorted list by rank -/
def hookSched (table : List (String × Nat)) (seed : String) : Sched String String :=
  let byRank (l : List String) : List String :=
    (SortKeys.naturalSort l).mergeSort fun a b => rank table seed a ≤ rank table seed b
  { sortQ := byRank, sortW := byRank, sortI := byRank, sortR := id }

end HabuVerif.Toy
