import HabuVerif.Core.Tree
import HabuVerif.Core.Tracker
/-!
# Model of `habutax.solver.Solver`

Statement-by-statement model of `solver.py` (`_add_unattempted`, `_add_form`, `_add_input_spec`,
`_attempt_input`, `_attempt_field`, `solve`), generic in the catalogue (any set of forms and any
line semantics given as strategy trees), in the attempt schedule (the four places where the code
orders work) and in the prompt.  Core only, executable.
-/
set_option autoImplicit false

namespace HabuVerif

/-- Why a solve aborts with an exception instead of returning a verdict. -/
inductive Abort (N I F : Type) where
  | unsupportedForm (f : F)       -- `NotImplementedError('Form … is not supported.')`
  | ctorError (f : F)             -- the form class refuses the instance (an `assert` in `__init__`)
  | badName                       -- `form, key = name.split('.')` does not unpack: `ValueError`
  | noSuchField (n : N)           -- `assert ud.dependency in self._field_map`
  | recursion (x : I)             -- `MissingInputSpecification` for an input its form does not declare
  | invalidInput (x : I)          -- `InvalidInput`
  | invalidAnswer (x : I)         -- `assert missing.valid(value)` after a prompt
  | noForm (n : N) (f : F)        -- `KeyError` from `Field.form(name)`
  | lineErr (n : N) (code : Nat)  -- any other exception raised by a line definition
  | keyError (n : N)              -- `self._field_map[field_name]` for an unknown requested field
  | trackerCrash                  -- pop from an empty waiter list (shown unreachable)
  | specFuel                      -- more than `specFuel` chained input-only loads in one attempt
deriving DecidableEq, Repr

/-- Does the catalogue know this form (and accept this instance)? -/
inductive FormStatus where
  | ok | unsupported | ctorError
deriving DecidableEq, Repr

/-- A catalogue: everything the solver is given besides inputs and prompt.
`S` is the raw text of an input as stored in the input file. -/
structure Cat (N I F V S : Type) where
  sem : N → Tree N I F V
  formOfN : N → Option F
  formOfI : I → Option F
  status : F → FormStatus
  fields : F → List N
  required : F → List N
  inputs : F → List I
  parse : I → S → Option V

/-- The four places where `solver.py` decides an order. The real code uses a stable natural sort
for the first three and the identity for the fourth; with `HABUTAX_VERIF=1` a hook substitutes an
arbitrary permutation. -/
structure Sched (N I : Type) where
  sortQ : List N → List N     -- `self._unattempted_fields.sort(key=sort_keys)` (popped from the END)
  sortW : List N → List N     -- `sorted(self._field_dependencies.met_dependents(), key=sort_keys)`
  sortI : List I → List I     -- `sorted(self._input_dependencies.unmet_dependencies(), key=sort_keys)`
  sortR : List N → List N     -- `list(self._input_dependencies.met_dependents())`

/-- What happened, newest first (ghost: nothing the solver computes depends on it).  The driver
reads the `.attempt` and `.prompt` events for the correspondence check; the bounded-work theorems
(`Proofs/SolverTermination.lean`) count all of them. -/
inductive Event (N I F S : Type) where
  | attempt (n : N)                        -- one evaluation of the line `n` (`field.value(...)`)
  | prompt (x : I) (neededBy : List N) (answer : Option S)
  | loadForm (f : F) (inputOnly : Bool)    -- `_add_form(f, input_only)` got past the constructor
  | push (n : N)                           -- `n` appended to `_unattempted_fields`
  | waitV (n m : N)                        -- `_field_dependencies.add_unmet(m, n)`
  | waitI (n : N) (x : I)                  -- `_input_dependencies.add_unmet(x, n)`
deriving Repr

structure St (N I F V S : Type) where
  forms : List F := []              -- keys of `Solver.forms`
  specs : List I := []              -- keys of `_input_map`
  fmap : List N := []               -- keys of `_field_map`
  v : List (N × V) := []            -- `_v`
  inp : List (I × S) := []          -- the input store (raw text)
  queue : List N := []              -- `_unattempted_fields`
  unimpl : List N := []             -- `_unimplemented_fields`
  solving : List N := []            -- `_solving_fields`
  fdeps : Tracker N N := {}         -- `_field_dependencies`
  ideps : Tracker I N := {}         -- `_input_dependencies`
  refused : Bool := false           -- `_refused_input`
  nprompts : Nat := 0
  log : List (Event N I F S) := []  -- ghost

section
variable {N I F V S : Type} [DecidableEq N] [DecidableEq I] [DecidableEq F]

/-- dict assignment on an association list: overwrite in place or append -/
def assocSet {K X : Type} [DecidableEq K] (l : List (K × X)) (k : K) (x : X) : List (K × X) :=
  if (l.lookup k).isSome then l.map fun p => if p.1 = k then (k, x) else p else l ++ [(k, x)]

def St.vf (s : St N I F V S) : N → Option V := fun n => s.v.lookup n

def St.inf (C : Cat N I F V S) (s : St N I F V S) : I → InpRes V := fun x =>
  if x ∈ s.specs then
    match s.inp.lookup x with
    | none => .missing
    | some str => match C.parse x str with
      | none => .invalid
      | some v => .ok v
  else .noSpec

def St.ff (s : St N I F V S) : F → Bool := fun f => decide (f ∈ s.forms)

def St.attempt (C : Cat N I F V S) (s : St N I F V S) (n : N) : Out N I F V :=
  run s.vf (s.inf C) s.ff (C.sem n)

abbrev Res (N I F : Type) (α : Type) := Except (Abort N I F) α

/-- `_add_form(form_name, input_only)` -/
def addForm (C : Cat N I F V S) (σ : Sched N I) (s : St N I F V S) (f : F) (inputOnly : Bool) :
    Res N I F (St N I F V S) :=
  match C.status f with
  | .unsupported => .error (.unsupportedForm f)
  | .ctorError => .error (.ctorError f)
  | .ok =>
    let s := { s with specs := s.specs ++ (C.inputs f).filter (fun x => !(s.specs.contains x))
                      log := .loadForm f inputOnly :: s.log }
    if inputOnly then .ok s else
    .ok { s with
      forms := if f ∈ s.forms then s.forms else s.forms ++ [f]
      fmap := s.fmap ++ (C.fields f).filter (fun n => !(s.fmap.contains n))
      queue := σ.sortQ (s.queue ++ C.required f)
      solving := s.solving ++ (C.required f).filter (fun n => !(s.solving.contains n))
      log := (C.required f).reverse.map .push ++ s.log }

/-- the `except UnmetDependency` branch up to (not including) `add_unmet`: make sure the line `m`
that was read is being solved, loading its form if necessary -/
def demand (C : Cat N I F V S) (σ : Sched N I) (s : St N I F V S) (m : N) :
    Res N I F (St N I F V S) :=
  if m ∈ s.solving then .ok s else
    let loaded : Res N I F (St N I F V S) :=
      if m ∈ s.fmap then .ok s else
        match C.formOfN m with
        | none => .error .badName
        | some f => addForm C σ s f false
    match loaded with
    | .error e => .error e
    | .ok s1 =>
      if m ∈ s1.fmap then
        -- loading the form may already have scheduled `m` (a required line of that form)
        if m ∈ s1.solving then .ok s1 else
        .ok { s1 with queue := σ.sortQ (s1.queue ++ [m]), solving := s1.solving ++ [m],
                      log := .push m :: s1.log }
      else .error (.noSuchField m)

/-- `_attempt_field(field)`. `fuel` bounds the `MissingInputSpecification` retry chain (Python:
the recursion limit). -/
def attemptField (C : Cat N I F V S) (σ : Sched N I) :
    Nat → St N I F V S → N → Res N I F (St N I F V S)
  | 0, _, _ => .error .specFuel
  | fuel + 1, s, n =>
    match s.attempt C n with
    | .val x =>
      .ok { s with v := assocSet s.v n x, fdeps := s.fdeps.meet n, log := .attempt n :: s.log }
    | .needV m =>
      match demand C σ s m with
      | .error e => .error e
      | .ok s1 =>
        .ok { s1 with fdeps := s1.fdeps.addUnmet m n, log := .waitV n m :: .attempt n :: s1.log }
    | .needI x =>
      .ok { s with ideps := s.ideps.addUnmet x n, log := .waitI n x :: .attempt n :: s.log }
    | .needSpec x =>
      match C.formOfI x with
      | none => .error .badName
      | some f =>
        match addForm C σ s f true with
        | .error e => .error e
        | .ok s1 =>
          if x ∈ s1.specs then attemptField C σ fuel { s1 with log := .attempt n :: s1.log } n
          else .error (.recursion x)
    | .notImpl => .ok { s with unimpl := s.unimpl ++ [n], log := .attempt n :: s.log }
    | .invalid x => .error (.invalidInput x)
    | .noForm f => .error (.noForm n f)
    | .err c => .error (.lineErr n c)

/-- the retry chain is bounded by the number of input-only loads; 64 is far above anything a
shipped line does (each retry loads a further form) -/
def specFuel : Nat := 64

/-- `_attempt_input(input_name, needed_by)`; the prompt sees how many prompts came before. -/
def attemptInput (C : Cat N I F V S) (P : Nat → I → List N → Option S) (s : St N I F V S) (x : I) :
    Res N I F (St N I F V S) :=
  match s.ideps.unmetDependents x with
  | none => .error .trackerCrash
  | some neededBy =>
    match P s.nprompts x neededBy with
    | some str =>
      match C.parse x str with
      | none => .error (.invalidAnswer x)
      | some _ =>
        .ok { s with inp := assocSet s.inp x str, ideps := s.ideps.meet x,
                     nprompts := s.nprompts + 1, log := .prompt x neededBy (some str) :: s.log }
    | none =>
      .ok { s with refused := true, nprompts := s.nprompts + 1,
                   log := .prompt x neededBy none :: s.log }

/-- `while len(self._unattempted_fields) > 0: self._attempt_field(self._unattempted_fields.pop())` -/
def drainQueue (C : Cat N I F V S) (σ : Sched N I) :
    Nat → St N I F V S → Res N I F (Option (St N I F V S))
  | 0, _ => .ok none
  | fuel + 1, s =>
    match s.queue.getLast? with
    | none => .ok (some s)
    | some n =>
      match attemptField C σ specFuel { s with queue := s.queue.dropLast } n with
      | .error e => .error e
      | .ok s1 => drainQueue C σ fuel s1

def attemptAll (C : Cat N I F V S) (σ : Sched N I) :
    List N → St N I F V S → Res N I F (St N I F V S)
  | [], s => .ok s
  | n :: ns, s =>
    match attemptField C σ specFuel s n with
    | .error e => .error e
    | .ok s1 => attemptAll C σ ns s1

/-- the prompt loop with its `break` on refusal -/
def promptAll (C : Cat N I F V S) (P : Nat → I → List N → Option S) :
    List I → St N I F V S → Res N I F (St N I F V S)
  | [], s => .ok s
  | x :: xs, s =>
    match attemptInput C P s x with
    | .error e => .error e
    | .ok s1 => if s1.refused then .ok s1 else promptAll C P xs s1

def loopCond (s : St N I F V S) : Bool :=
  !s.queue.isEmpty || s.ideps.hasMet || (s.ideps.hasUnmet && !s.refused) || s.fdeps.hasMet

/-- one pass through the body of the outer `while` -/
def iteration (C : Cat N I F V S) (σ : Sched N I) (P : Nat → I → List N → Option S)
    (qfuel : Nat) (s : St N I F V S) : Res N I F (Option (St N I F V S)) :=
  match drainQueue C σ qfuel s with
  | .error e => .error e
  | .ok none => .ok none
  | .ok (some s1) =>
    match s1.fdeps.drainAll with
    | none => .error .trackerCrash
    | some (ws, fd) =>
      match attemptAll C σ (σ.sortW ws) { s1 with fdeps := fd } with
      | .error e => .error e
      | .ok s2 =>
        match (if s2.refused then .ok s2
               else promptAll C P (σ.sortI s2.ideps.unmetDependencies) s2) with
        | .error e => .error e
        | .ok s3 =>
          match s3.ideps.drainAll with
          | none => .error .trackerCrash
          | some (ws', idp) =>
            match attemptAll C σ (σ.sortR ws') { s3 with ideps := idp } with
            | .error e => .error e
            | .ok s4 => .ok (some s4)

def solveLoop (C : Cat N I F V S) (σ : Sched N I) (P : Nat → I → List N → Option S) (qfuel : Nat) :
    Nat → St N I F V S → Res N I F (Option (St N I F V S))
  | 0, _ => .ok none
  | fuel + 1, s =>
    if loopCond s then
      match iteration C σ P qfuel s with
      | .error e => .error e
      | .ok none => .ok none
      | .ok (some s1) => solveLoop C σ P qfuel fuel s1
    else .ok (some s)

def addForms (C : Cat N I F V S) (σ : Sched N I) : List F → St N I F V S → Res N I F (St N I F V S)
  | [], s => .ok s
  | f :: fs, s =>
    match addForm C σ s f false with
    | .error e => .error e
    | .ok s1 => addForms C σ fs s1

/-- requested extra fields: `self._add_unattempted(self._field_map[field_name])`, then
`self._solving_fields |= set(field_names)` -/
def addExtra (σ : Sched N I) : List N → St N I F V S → Res N I F (St N I F V S)
  | [], s => .ok s
  | n :: ns, s =>
    if n ∈ s.fmap then
      addExtra σ ns { s with queue := σ.sortQ (s.queue ++ [n]),
                             solving := if n ∈ s.solving then s.solving else s.solving ++ [n],
                             log := .push n :: s.log }
    else .error (.keyError n)

/-- `Solver(input_config, form_list, prompt)` -/
def initSt (inp : List (I × S)) (hasPrompt : Bool) : St N I F V S :=
  { inp := inp, refused := !hasPrompt }

/-- The verdict computed at the end of `solve()`. -/
def St.solved (s : St N I F V S) : Bool :=
  !s.fdeps.hasUnmet && !s.ideps.hasUnmet && s.unimpl.isEmpty

/-- `Solver.solve(form_names, field_names)`; `none` = out of fuel. -/
def solve (C : Cat N I F V S) (σ : Sched N I) (P : Option (Nat → I → List N → Option S))
    (inp : List (I × S)) (forms : List F) (extra : List N) (fuel qfuel : Nat) :
    Res N I F (Option (St N I F V S)) :=
  match addForms C σ forms (initSt inp P.isSome) with
  | .error e => .error e
  | .ok s =>
    match addExtra σ extra s with
    | .error e => .error e
    | .ok s1 => solveLoop C σ (P.getD fun _ _ _ => none) qfuel fuel s1

end
end HabuVerif
