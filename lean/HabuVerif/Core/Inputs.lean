import HabuVerif.Py.Str
import HabuVerif.Regex
/-!
# Model of `habutax/inputs.py`: the input classes and `InputStore.__getitem__`

For every input class the Python methods `value(string)` (convert, may raise) and `valid(string)`
(never raises for the shipped classes) are transcribed one to one:

| class          | `value`                                                | `valid`                                  |
|----------------|--------------------------------------------------------|------------------------------------------|
| `StringInput`  | `string.strip()`                                       | base: `value` did not raise `ValueError` |
| `BooleanInput` | ten words after `strip().lower()`, else `ValueError`   | base                                     |
| `IntegerInput` | `strip()`; empty → `0`; else `int(string)`             | base                                     |
| `FloatInput`   | `strip()`; empty → `0.0`; else `float(string)`, `ValueError` unless `math.isfinite` | base        |
| `EnumInput`    | `strip()`; blank and `allow_empty` → `None`; `enum[s]` (`KeyError`!) | own: catches the `KeyError` |
| `RegexInput`   | `strip()` (never fails)                                | `bool(regex.match(value))`               |
| `SSNInput`     | `strip().replace("-", "")` (never fails)               | nine characters, all in `"0123456789"`   |

The base `Input.valid` only catches `ValueError`; any other exception of `value` would propagate out
of `valid`.  `validE` keeps that (`Except PyErr Bool`), `valid` is its total reading, and
`InputsLemmas.validE_eq` shows that no shipped class ever takes the propagating branch.

(`FloatInput.value` rejects non-finite results since repo commit 97e4d37 "reject non-finite numbers
in FloatInput"; before that it was plain `float(string)`.  Finiteness is a property of the ROUNDED
double — `1e999` and `1.7976931348623159e308` are infinite — so `valid` depends on the float
semantics.)

Values are `PyVal F`; the float carrier `F` and its operations are a parameter (`FloatOps`):
`parseFloatLit` yields the exact decimal literal and `ops.ofLit` is the caller's correctly rounded
conversion to a double, `ops.isFinite` is `math.isfinite`.

Enum classes are identified by `EnumTy.ident` (habutax has two different enums with the same display
name); aliases (two names with the same value) are not modelled — `members` are the canonical names.
Core only.
-/
set_option autoImplicit false

namespace HabuVerif

open PyStr

/-- the exception classes that matter -/
inductive PyErr where
  | valueError
  | keyError
  | typeError
  /-- a combination of arguments the model does not describe (never an answer of the real code) -/
  | unmodelled
deriving DecidableEq, Repr

/-- an `enum.Enum` class -/
structure EnumTy where
  /-- identity of the class object -/
  ident : Nat
  /-- member names in definition order -/
  members : List Text
  /-- `str(member)` is the bare name (`habutax.enum.StringyEnum`) instead of `Class.name` -/
  stringy : Bool := true
  /-- `Class.__name__` -/
  clsName : Text := []
deriving DecidableEq, Repr

/-- dynamically typed Python values, as far as inputs and fields look at them -/
inductive PyVal (F : Type) where
  | none
  | bool (b : Bool)
  | int (i : Int)
  | float (x : F)
  | str (s : Text)
  /-- a member of the enum class `enumId` -/
  | enumMember (enumId : Nat) (member : Text)
  /-- an instance of a proper subclass of `str` with text `s` (`isinstance(v, str)` but
  `type(v) is not str`) -/
  | strSub (tag : Nat) (s : Text)
  /-- any other object: `float`/`int` subclass instances (`IntEnum` members …), lists, … -/
  | other (tag : Nat)
deriving DecidableEq, Repr

def PyVal.mapF {F G : Type} (f : F → G) : PyVal F → PyVal G
  | .none => .none
  | .bool b => .bool b
  | .int i => .int i
  | .float x => .float (f x)
  | .str s => .str s
  | .enumMember e m => .enumMember e m
  | .strSub t s => .strSub t s
  | .other t => .other t

/-- the float operations inputs and fields need -/
structure FloatOps (F : Type) where
  /-- the literal `0.0` -/
  zero : F
  /-- `float(s)` for a string denoting the literal (correct rounding, overflow to infinity) -/
  ofLit : PyStr.DecLit → F
  /-- `math.isfinite` -/
  isFinite : F → Bool
  /-- `round(x, n)` for a float `x` and `n : int ≥ 0` -/
  roundN : F → Nat → F
  /-- `f'{x:.{n}f}'` -/
  fmt : F → Nat → PyStr.Text

namespace Inputs

inductive InputSpec where
  | str
  | bool
  | int
  | float
  | enum (e : EnumTy) (allowEmpty : Bool)
  | regex (r : Regex.Re)
  | ssn
deriving DecidableEq, Repr

def trueWords : List Text :=
  [['t','r','u','e'], ['y','e','s'], ['y'], ['1'], ['o','n']]
def falseWords : List Text :=
  [['f','a','l','s','e'], ['n','o'], ['n'], ['0'], ['o','f','f']]

/-- `StringInput.value` -/
def strValue (T : CharTable) (s : Text) : Text := strip T s

/-- `BooleanInput.value` -/
def boolValue (T : CharTable) (s : Text) : Except PyErr Bool :=
  let w := lower T (strip T s)
  if w ∈ trueWords then .ok true
  else if w ∈ falseWords then .ok false
  else .error .valueError

/-- `IntegerInput.value` -/
def intValue (T : CharTable) (s : Text) : Except PyErr Int :=
  let t := strip T s
  if t.length == 0 then .ok 0
  else match parseInt T t with
    | some i => .ok i
    | none => .error .valueError

/-- `FloatInput.value` -/
def floatValue {F : Type} (T : CharTable) (ops : FloatOps F) (s : Text) : Except PyErr F :=
  let t := strip T s
  if t.length == 0 then .ok ops.zero
  else match parseFloatLit T t with
    | some d =>
      let x := ops.ofLit d
      if !ops.isFinite x then .error .valueError else .ok x
    | none => .error .valueError

/-- `EnumInput.value` -/
def enumValue {F : Type} (T : CharTable) (e : EnumTy) (allowEmpty : Bool) (s : Text) :
    Except PyErr (PyVal F) :=
  let t := strValue T s
  if (strip T t).length == 0 && allowEmpty then .ok .none
  else if t ∈ e.members then .ok (.enumMember e.ident t)
  else .error .keyError

/-- `SSNInput.value` -/
def ssnValue (T : CharTable) (s : Text) : Text := removeDash (strValue T s)

/-- `Input.value(string)` -/
def value {F : Type} (T : CharTable) (ops : FloatOps F) : InputSpec → Text → Except PyErr (PyVal F)
  | .str, s => .ok (.str (strValue T s))
  | .bool, s => (boolValue T s).map .bool
  | .int, s => (intValue T s).map .int
  | .float, s => (floatValue T ops s).map .float
  | .enum e ae, s => enumValue T e ae s
  | .regex _, s => .ok (.str (strValue T s))
  | .ssn, s => .ok (.str (ssnValue T s))

/-- `try: self.value(string) / except ValueError: return False` — other exceptions propagate -/
def catchValueError {α : Type} (r : Except PyErr α) : Except PyErr (Option α) :=
  match r with
  | .ok v => .ok (some v)
  | .error .valueError => .ok Option.none
  | .error e => .error e

/-- `Input.valid` of the base class -/
def baseValidE {F : Type} (T : CharTable) (ops : FloatOps F) (sp : InputSpec) (s : Text) :
    Except PyErr Bool :=
  (catchValueError (value T ops sp s)).map Option.isSome

def ssnDigits : Text := ['0','1','2','3','4','5','6','7','8','9']

/-- `Input.valid(string)`, with propagating exceptions -/
def validE {F : Type} (T : CharTable) (ops : FloatOps F) : InputSpec → Text → Except PyErr Bool
  | .enum e ae, s =>
    -- string = super().value(string)   (StringInput.value: cannot raise)
    let t := strValue T s
    if (strip T t).length == 0 && ae then .ok true
    else .ok (decide (t ∈ e.members))          -- try: self.enum[string] except KeyError: False
  | .regex r, s =>
    match catchValueError (value T ops (.regex r) s) with
    | .error e => .error e
    | .ok Option.none => .ok false
    | .ok (some (.str v)) => .ok (Regex.reMatch r v)
    | .ok (some _) => .error .unmodelled       -- `value` of a RegexInput is always a str
  | .ssn, s =>
    match catchValueError (value T ops .ssn s) with
    | .error e => .error e
    | .ok Option.none => .ok false
    | .ok (some (.str v)) => .ok (v.length == 9 && v.all (fun c => c ∈ ssnDigits))
    | .ok (some _) => .error .unmodelled
  | sp, s => baseValidE T ops sp s

/-- `Input.valid(string)` -/
def valid {F : Type} (T : CharTable) (ops : FloatOps F) (sp : InputSpec) (s : Text) : Bool :=
  match validE T ops sp s with
  | .ok b => b
  | .error _ => false

/-! ## `InputStore.__getitem__` -/

inductive StoreResult (F : Type) where
  /-- `MissingInputSpecification` -/
  | noSpec
  /-- `MissingInput` -/
  | missing
  /-- `InvalidInput(key, text)` -/
  | invalid (text : Text)
  | ok (v : PyVal F)
  /-- `valid` said yes and `value` raised anyway (never happens: `InputsLemmas.getitem_never_raised`) -/
  | raised (e : PyErr)
deriving DecidableEq, Repr

/-- `InputStore.__getitem__(key)` as a function of: the specification registered for `key` (if any)
and the text the configuration holds for it (if any). -/
def getitem {F : Type} (T : CharTable) (ops : FloatOps F) (spec : Option InputSpec)
    (stored : Option Text) : StoreResult F :=
  match spec with
  | Option.none => .noSpec
  | some sp =>
    match stored with
    | Option.none => .missing
    | some text =>
      if !valid T ops sp text then .invalid text
      else match value T ops sp text with
        | .ok v => .ok v
        | .error e => .raised e

end Inputs
end HabuVerif
