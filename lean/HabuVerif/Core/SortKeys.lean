/-!
# Model of `habutax.solver.sort_keys` (the natural sort order of names)

`_sort_keys` splits a name into maximal runs of digits (compared as integers) and of letters
(compared as text), dropping everything else; `sort_keys` does that separately for the part before
and after the `.`.  Python compares the resulting lists of `(is_alpha, int | str)` tuples
lexicographically.  Core only.  Letters are ASCII here (`str.isalpha` on the names the harness and
the shipped forms use; C17 checks that shipped names are ASCII).
-/
set_option autoImplicit false

namespace HabuVerif.SortKeys

/-- one sub-key: `(False, int)` or `(True, str)` -/
inductive Key where
  | num (n : Nat)
  | alpha (s : List Char)
deriving DecidableEq, Repr

def isNumeric (c : Char) : Bool := c.isDigit      -- `c in '01234567890'`
def isAlpha (c : Char) : Bool := c.isAlpha        -- ASCII letters

def digitsToNat (cs : List Char) : Nat := cs.foldl (fun a c => 10 * a + (c.toNat - '0'.toNat)) 0

def flush (current : List Char) (lastNumeric : Bool) (keys : List Key) : List Key :=
  if current.isEmpty then keys
  else if lastNumeric then keys ++ [.num (digitsToNat current)] else keys ++ [.alpha current]

/-- the loop of `_sort_keys`: state = (last_numeric, last_alpha, current, keys) -/
def go : List Char → Bool → Bool → List Char → List Key → List Key
  | [], lastN, _, cur, keys => flush cur lastN keys
  | c :: cs, lastN, lastA, cur, keys =>
    let thisN := isNumeric c
    let thisA := isAlpha c
    let (cur, keys) :=
      if (lastN && !thisN) || (lastA && !thisA) then ([], flush cur lastN keys) else (cur, keys)
    let cur := if thisN || thisA then cur ++ [c] else []
    go cs thisN thisA cur keys

def subKeys (s : List Char) : List Key := go s false false [] []

/-- Python tuple comparison `(False, n) < (True, s)`; ints by value; strings by code point -/
def Key.lt : Key → Key → Bool
  | .num a, .num b => a < b
  | .num _, .alpha _ => true
  | .alpha _, .num _ => false
  | .alpha a, .alpha b => decide (a < b)

def keysLt : List Key → List Key → Bool
  | [], [] => false
  | [], _ :: _ => true
  | _ :: _, [] => false
  | a :: as, b :: bs => if a.lt b then true else if b.lt a then false else keysLt as bs

/-- `sort_keys(name)`; `none` is the `ValueError` for a name with more than one dot -/
def sortKeys (name : String) : Option (List Key × List Key) :=
  match name.splitOn "." with
  | [k] => some ([], subKeys k.toList)
  | [f, k] => some (subKeys f.toList, subKeys k.toList)
  | _ => none

def pairLt (a b : List Key × List Key) : Bool :=
  if keysLt a.1 b.1 then true else if keysLt b.1 a.1 then false else keysLt a.2 b.2

/-- `a ≤ b` in the natural order (names that do not parse sort first; the driver never sends any) -/
def nameLe (a b : String) : Bool :=
  match sortKeys a, sortKeys b with
  | some ka, some kb => !pairLt kb ka
  | none, _ => true
  | _, none => false

/-- `list.sort(key=sort_keys)` / `sorted(..., key=sort_keys)`: stable -/
def naturalSort (l : List String) : List String := l.mergeSort nameLe

end HabuVerif.SortKeys
