/-!
# Model of `habutax.solver.DependencyTracker`

`_unmet` is a Python dict (insertion ordered) from dependency name to the list of waiters,
`_met` the list of met names not yet drained.  `met_dependents()` is a generator: `drainStep` is
one `next()` on it.  Core only.
-/
set_option autoImplicit false

namespace HabuVerif

structure Tracker (D W : Type) where
  unmet : List (D × List W) := []
  met : List D := []
deriving Repr

namespace Tracker
variable {D W : Type} [DecidableEq D]

def empty : Tracker D W := {}

/-- dict update `d[k] = ws` keeping the insertion position of an existing key -/
def setKey (l : List (D × List W)) (k : D) (ws : List W) : List (D × List W) :=
  l.map fun p => if p.1 = k then (k, ws) else p

def delKey (l : List (D × List W)) (k : D) : List (D × List W) :=
  l.filter fun p => !(decide (p.1 = k))

/-- `add_unmet(dependency_name, dependent)` -/
def addUnmet (t : Tracker D W) (d : D) (w : W) : Tracker D W :=
  match t.unmet.lookup d with
  | none => { t with unmet := t.unmet ++ [(d, [w])] }
  | some ws => { t with unmet := setKey t.unmet d (ws ++ [w]) }

/-- `has_met()` -/
def hasMet (t : Tracker D W) : Bool := !t.met.isEmpty

/-- `has_unmet()` : some dependency with a non-empty waiter list that is not in `_met` -/
def hasUnmet (t : Tracker D W) : Bool :=
  t.unmet.any fun p => !p.2.isEmpty && !(t.met.contains p.1)

/-- `meet(dependency_name)` -/
def meet (t : Tracker D W) (d : D) : Tracker D W := { t with met := t.met ++ [d] }

/-- `unmet_dependencies()` -/
def unmetDependencies (t : Tracker D W) : List D := t.unmet.map (·.1)

/-- `unmet_dependents(dependency)`; `none` is Python's `KeyError` -/
def unmetDependents (t : Tracker D W) (d : D) : Option (List W) := t.unmet.lookup d

/-- Result of one `next()` on the `met_dependents()` generator. -/
inductive DrainRes (D W : Type) where
  | done (t : Tracker D W)               -- StopIteration
  | yield (w : W) (t : Tracker D W)
  | crash                                -- `pop from empty list` (unreachable: see `WF`)

/-- One `next()`: skip met names nobody waits on; pop the *last* waiter of the first met name that
has waiters; drop the name from both sides when its list empties. -/
def drainStepAux (unmet : List (D × List W)) : List D → DrainRes D W
  | [] => .done { unmet := unmet, met := [] }
  | m :: rest =>
    match unmet.lookup m with
    | none => drainStepAux unmet rest
    | some ws =>
      match ws.getLast? with
      | none => .crash
      | some w =>
        if ws.dropLast.isEmpty then .yield w { unmet := delKey unmet m, met := rest }
        else .yield w { unmet := setKey unmet m ws.dropLast, met := m :: rest }

def drainStep (t : Tracker D W) : DrainRes D W := drainStepAux t.unmet t.met

/-- total number of registered waiters -/
def waiters (t : Tracker D W) : Nat := (t.unmet.map (·.2.length)).sum

/-- `list(met_dependents())`: run the generator to exhaustion. `fuel` bounds the number of yields;
`waiters t + 1` always suffices (`drainAll`). -/
def drainFuel : Nat → Tracker D W → List W → Option (List W × Tracker D W)
  | 0, _, _ => none
  | fuel + 1, t, acc =>
    match t.drainStep with
    | .done t' => some (acc.reverse, t')
    | .yield w t' => drainFuel fuel t' (w :: acc)
    | .crash => none

def drainAll (t : Tracker D W) : Option (List W × Tracker D W) := drainFuel (t.waiters + 1) t []

end Tracker
end HabuVerif
