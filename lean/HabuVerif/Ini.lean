/-!
# A model of CPython 3.12.1 `configparser.ConfigParser(interpolation=None)`

This is the configuration habutax uses for its input files and its solution files:
`delimiters=('=', ':')`, `comment_prefixes=('#', ';')`, no inline comment prefixes, `strict=True`,
`empty_lines_in_values=True`, `allow_no_value=False`, `default_section='DEFAULT'`,
`optionxform = str.lower`, interpolation switched off (`Interpolation()`, every hook is the identity).

Text is `List Char`.  What is modelled and what is not:

* `parse` follows `RawConfigParser._read` line by line on a FRESH parser (habutax always reads into a
  fresh parser), followed by `_join_multiline_values`.  The state a failing `_read` leaves behind in
  the Python object is not modelled (habutax lets the exception propagate).
* Lines are split at `'\n'` only (that is what iterating a text file or an `io.StringIO` yields after
  newline translation).  The translation that `open(path)` performs in universal-newlines mode
  (`"\r\n"` and lone `"\r"` become `"\n"`) is the separate function `universalNewlines`;
  `parseFile = parse ∘ universalNewlines` is what `InputStore.__init__` / `fill_pdfs` do with a file.
* White space is Python's `str.isspace` (29 code points, the same set as `\s` in a `str` regex and as
  what `str.strip` strips; checked exhaustively against CPython 3.12.1).
* `str.lower` is modelled for ASCII ONLY (`lowerChar`): option names with a non-ASCII cased letter
  (`'É'`, `'Σ'`, `'İ'` …) are lower-cased by Python and not by this model.  The correspondence harness
  has a separate non-ASCII stream that shows exactly where this bites.
* option values are always `str` in this configuration (`allow_no_value=False`: `None` is rejected by
  `ConfigParser.set` with `TypeError`, and cannot be produced by `_read`), so values are `Text`, not
  `Option Text`.  The non-`str` arguments habutax passes through the mapping protocol
  (`solution['habutax'] = {'tax_year': 2023, ...}`) are modelled by `PyVal`.

* not modelled: `getint` / `getfloat` / `getboolean` (`fill_pdfs` calls `getint('habutax', 'tax_year')`,
  i.e. `int(get(...))`), `read` into a parser that already has content, `vars=` / `fallback=` of `get`,
  `popitem`, converters, and the `self[key] is value` shortcut of `__setitem__`.

Core only (imports nothing), so it can be compiled into the driver.
-/
set_option autoImplicit false

namespace HabuVerif.Ini

abbrev Text := List Char

/-! ## Python string primitives -/

/-- `str.isspace` for one character (CPython 3.12.1, Unicode 15.0): bidirectional type WS/B/S or
category Zs.  Exhaustively compared with `chr(c).isspace()` and with `re.match(r'\s', chr(c))`. -/
def isSpace (c : Char) : Bool :=
  let n := c.toNat
  (9 ≤ n && n ≤ 13) || (28 ≤ n && n ≤ 32) || n == 0x85 || n == 0xa0 || n == 0x1680 ||
  (0x2000 ≤ n && n ≤ 0x200a) || n == 0x2028 || n == 0x2029 || n == 0x202f || n == 0x205f ||
  n == 0x3000

/-- `str.lstrip()` -/
def lstrip (s : Text) : Text := s.dropWhile isSpace
/-- `str.rstrip()` -/
def rstrip (s : Text) : Text := (s.reverse.dropWhile isSpace).reverse
/-- `str.strip()` -/
def strip (s : Text) : Text := rstrip (lstrip s)

/-- `str.lower` restricted to ASCII (see the header). -/
def lowerChar (c : Char) : Char :=
  if 65 ≤ c.toNat ∧ c.toNat ≤ 90 then Char.ofNat (c.toNat + 32) else c
def lower (s : Text) : Text := s.map lowerChar

/-- the option name transformation `optionxform` -/
def optionxform (s : Text) : Text := lower s

def DEFAULT : Text := ['D', 'E', 'F', 'A', 'U', 'L', 'T']

/-- what `open(path)` (universal newlines) does to the bytes of a file before configparser sees them -/
def universalNewlines : Text → Text
  | [] => []
  | '\r' :: '\n' :: cs => '\n' :: universalNewlines cs
  | '\r' :: cs => '\n' :: universalNewlines cs
  | c :: cs => c :: universalNewlines cs

/-- the lines a text file iterator yields, without their terminating `'\n'` (the terminator only ever
meets `strip` and a search for the first non-blank, so dropping it is unobservable).
`""` has no lines, `"a"` and `"a\n"` have one, `"a\n\n"` has two. -/
def splitLinesAux : Text → Text → List Text
  | [], acc => if acc.isEmpty then [] else [acc.reverse]
  | c :: cs, acc => if c = '\n' then acc.reverse :: splitLinesAux cs [] else splitLinesAux cs (c :: acc)
def splitLines (s : Text) : List Text := splitLinesAux s []

/-- `sep.join(parts)` with `sep = "\n"` -/
def joinNl (parts : List Text) : Text := List.intercalate ['\n'] parts

/-! ## association lists standing for (insertion ordered) Python dicts -/
section assoc
variable {α β : Type}

def akeys (l : List (α × β)) : List α := l.map Prod.fst
/-- `k in d` -/
def ahas [BEq α] (l : List (α × β)) (k : α) : Bool := (l.lookup k).isSome

variable [DecidableEq α]

/-- `d[k] = v`: overwrite in place (the key keeps its position) or append -/
def aset : List (α × β) → α → β → List (α × β)
  | [], k, v => [(k, v)]
  | (k', v') :: r, k, v => if k' = k then (k', v) :: r else (k', v') :: aset r k v

/-- apply `f` to the value stored at `k` (no-op when absent) -/
def amodify : List (α × β) → α → (β → β) → List (α × β)
  | [], _, _ => []
  | (k', v') :: r, k, f => if k' = k then (k', f v') :: r else (k', v') :: amodify r k f

/-- `del d[k]` (no-op when absent) -/
def aerase : List (α × β) → α → List (α × β)
  | [], _ => []
  | (k', v') :: r, k => if k' = k then r else (k', v') :: aerase r k
end assoc

/-! ## the data model -/

/-- `_defaults` and `_sections` of a parser: insertion-ordered dicts of insertion-ordered dicts -/
structure Config where
  defaults : List (Text × Text) := []
  sections : List (Text × List (Text × Text)) := []
deriving DecidableEq, Repr, Inhabited

/-- exception classes -/
inductive Err where
  | missingSectionHeader | duplicateSection | duplicateOption | parsing
  | noSection | noOption | valueError | typeError | keyError
deriving DecidableEq, Repr, Inhabited

def Err.name : Err → String
  | .missingSectionHeader => "MissingSectionHeaderError"
  | .duplicateSection => "DuplicateSectionError"
  | .duplicateOption => "DuplicateOptionError"
  | .parsing => "ParsingError"
  | .noSection => "NoSectionError"
  | .noOption => "NoOptionError"
  | .valueError => "ValueError"
  | .typeError => "TypeError"
  | .keyError => "KeyError"

/-! ## `_read` -/

/-- state of `_read`.  While reading, a value is the list of its lines (`cursect[optname]` is a list).
`cursect` is the name of the current section (`DEFAULT` stands for `self._defaults`; a real section can
never have that name); `optname` is `none` for Python's `None` AND for `''` (both are falsy and
`optname` is only ever tested for truthiness before it is used). -/
structure PState where
  defaults : List (Text × List Text) := []
  sections : List (Text × List (Text × List Text)) := []
  cursect : Option Text := none
  optname : Option Text := none
  indent : Nat := 0
  addedSecs : List Text := []
  addedOpts : List (Text × Text) := []
  err : Bool := false
deriving Repr

/-- the dict `cursect` refers to -/
def PState.getOpts (st : PState) (s : Text) : Option (List (Text × List Text)) :=
  if s = DEFAULT then some st.defaults else st.sections.lookup s

def PState.setOpts (st : PState) (s : Text) (os : List (Text × List Text)) : PState :=
  if s = DEFAULT then { st with defaults := os } else { st with sections := aset st.sections s os }

def PState.modifyOpts (st : PState) (s : Text)
    (f : List (Text × List Text) → List (Text × List Text)) : PState :=
  match st.getOpts s with
  | some os => st.setOpts s (f os)
  | none => st

/-- `cursect[optname].append(line)` -/
def PState.appendLine (st : PState) (s o : Text) (line : Text) : PState :=
  st.modifyOpts s fun os => amodify os o (· ++ [line])

/-- `SECTCRE.match(value)`, `SECTCRE = \[(?P<header>.+)\]`: the text must start with `[`, the header
runs (greedily) to the LAST `]` and must be non-empty; whatever follows that `]` is ignored. -/
def sectHeader : Text → Option Text
  | '[' :: rest =>
    match rest.reverse.dropWhile (· ≠ ']') with
    | [] => none
    | _ :: h => if h.isEmpty then none else some h.reverse
  | _ => none

def isDelim (c : Char) : Bool := c = '=' || c = ':'

/-- `OPTCRE.match(value)` with `OPTCRE = (?P<option>.*?)\s*(?P<vi>=|:)\s*(?P<value>.*)$`, returning the
groups `option` and `value`: the non-greedy option stops before the white space in front of the FIRST
delimiter, the value starts after the white space behind it. -/
def optMatch (value : Text) : Option (Text × Text) :=
  match value.dropWhile (fun c => !isDelim c) with
  | [] => none
  | _ :: v => some (rstrip (value.takeWhile fun c => !isDelim c), lstrip v)

def isCommentLine (stripped : Text) : Bool :=
  match stripped with
  | c :: _ => c = '#' || c = ';'
  | [] => false

/-- `NONSPACECRE.search(line).start()` (0 when there is none) -/
def indentOf (line : Text) : Nat := (line.takeWhile isSpace).length

/-- the line is a section header `[name]` -/
def headerStep (st : PState) (name : Text) : Except Err PState :=
  if ahas st.sections name then
    -- (cannot happen on a fresh parser without hitting the duplicate check)
    if st.addedSecs.contains name then .error .duplicateSection
    else .ok { st with cursect := some name, addedSecs := name :: st.addedSecs, optname := none }
  else if name = DEFAULT then
    .ok { st with cursect := some DEFAULT, optname := none }
  else
    .ok { st with sections := st.sections ++ [(name, [])], cursect := some name,
                  addedSecs := name :: st.addedSecs, optname := none }

/-- the line is not a header and `cursect` is the section named `s` -/
def optionStep (st : PState) (s : Text) (value : Text) : Except Err PState :=
  match optMatch value with
  | some (optname, optval) =>
    -- `if not optname: e = self._handle_error(...)` (non fatal, raised at the end)
    let err := st.err || optname.isEmpty
    let o := optionxform (rstrip optname)
    if st.addedOpts.contains (s, o) then .error .duplicateOption
    else
      let st' := st.modifyOpts s fun os => aset os o [strip optval]
      .ok { st' with addedOpts := (s, o) :: st.addedOpts, err := err,
                     optname := if o.isEmpty then none else some o }
  | none => .ok { st with err := true }

/-- a line that is neither empty, nor a comment, nor a continuation: `indent_level` is already updated -/
def topStep (st : PState) (value : Text) : Except Err PState :=
  match sectHeader value with
  | some name => headerStep st name
  | none =>
    match st.cursect with
    | none => .error .missingSectionHeader
    | some s => optionStep st s value

/-- one iteration of the `for lineno, line in enumerate(fp)` loop -/
def stepLine (st : PState) (line : Text) : Except Err PState :=
  let stripped := strip line
  let comment := isCommentLine stripped
  -- `value = line[:comment_start].strip()`
  let value := if comment then [] else stripped
  if value.isEmpty then
    -- empty line: part of the current value unless it was a comment
    if comment then .ok st
    else match st.cursect, st.optname with
      | some s, some o => .ok (st.appendLine s o [])
      | _, _ => .ok st
  else
    let cur := indentOf line
    match st.cursect, st.optname, decide (cur > st.indent) with
    | some s, some o, true =>
      -- continuation line
      .ok (st.appendLine s o value)
    | _, _, _ => topStep { st with indent := cur } value

/-- `_join_multiline_values` for one dict -/
def joinOpts (os : List (Text × List Text)) : List (Text × Text) :=
  os.map fun (k, ls) => (k, rstrip (joinNl ls))

def PState.finish (st : PState) : Except Err Config :=
  if st.err then .error .parsing
  else .ok { defaults := joinOpts st.defaults,
             sections := st.sections.map fun (n, os) => (n, joinOpts os) }

def foldLines : PState → List Text → Except Err PState
  | st, [] => .ok st
  | st, l :: ls => match stepLine st l with
    | .ok st' => foldLines st' ls
    | .error e => .error e

/-- `ConfigParser(interpolation=None).read_string(text)` / `read_file(StringIO(text))` on a fresh
parser: the resulting content or the exception class. -/
def parse (text : Text) : Except Err Config :=
  match foldLines {} (splitLines text) with
  | .ok st => st.finish
  | .error e => .error e

/-- `read_file(open(path))` -/
def parseFile (bytes : Text) : Except Err Config := parse (universalNewlines bytes)

/-! ## queries and updates -/

/-- `parser.sections()` -/
def Config.sectionNames (c : Config) : List Text := akeys c.sections

/-- `iter(parser)`: DEFAULT first -/
def Config.iter (c : Config) : List Text := DEFAULT :: akeys c.sections

/-- `parser.has_section(s)` -/
def Config.hasSection (c : Config) (s : Text) : Bool := ahas c.sections s

/-- `s in parser` -/
def Config.contains (c : Config) (s : Text) : Bool := s = DEFAULT || c.hasSection s

/-- `parser.has_option(section, option)`; an empty section name means DEFAULT -/
def Config.hasOption (c : Config) (s k : Text) : Bool :=
  if s.isEmpty || s = DEFAULT then ahas c.defaults (optionxform k)
  else match c.sections.lookup s with
    | none => false
    | some os => ahas os (optionxform k) || ahas c.defaults (optionxform k)

/-- `parser.get(section, option)`: the section's own value, else the DEFAULT one.  (Unlike `has_option`,
an empty section name is NOT an alias of DEFAULT here.) -/
def Config.get (c : Config) (s k : Text) : Except Err Text :=
  let sect : Option (List (Text × Text)) :=
    match c.sections.lookup s with
    | some os => some os
    | none => if s = DEFAULT then some [] else none
  match sect with
  | none => .error .noSection
  | some os =>
    match os.lookup (optionxform k) with
    | some v => .ok v
    | none => match c.defaults.lookup (optionxform k) with
      | some v => .ok v
      | none => .error .noOption

/-- `parser.options(section)`: own keys, then the DEFAULT keys it does not have (dict `update` order) -/
def Config.options (c : Config) (s : Text) : Except Err (List Text) :=
  match c.sections.lookup s with
  | none => .error .noSection
  | some os => .ok (akeys os ++ (akeys c.defaults).filter fun k => !ahas os k)

/-- `parser.add_section(section)` -/
def Config.addSection (c : Config) (s : Text) : Except Err Config :=
  if s = DEFAULT then .error .valueError
  else if ahas c.sections s then .error .duplicateSection
  else .ok { c with sections := c.sections ++ [(s, [])] }

/-- Python argument values that reach the parser in habutax -/
inductive PyVal where
  | str (t : Text)
  | int (i : Int)
  | none
deriving DecidableEq, Repr, Inhabited

/-- `str(x)` -/
def PyVal.toStr : PyVal → Text
  | .str t => t
  | .int i => (toString i).toList
  | .none => ['N', 'o', 'n', 'e']

/-- `RawConfigParser.set` after the type check -/
def Config.setRaw (c : Config) (s k : Text) (v : Text) : Except Err Config :=
  if s.isEmpty || s = DEFAULT then .ok { c with defaults := aset c.defaults (optionxform k) v }
  else match c.sections.lookup s with
    | none => .error .noSection
    | some os => .ok { c with sections := aset c.sections s (aset os (optionxform k) v) }

/-- `ConfigParser.set(section, option, value)`: the value must be a `str` -/
def Config.setAny (c : Config) (s k : Text) (v : PyVal) : Except Err Config :=
  match v with
  | .str t => c.setRaw s k t
  | _ => .error .typeError

/-- `ConfigParser.set` with a `str` value -/
def Config.set (c : Config) (s k v : Text) : Except Err Config := c.setRaw s k v

/-- `parser.remove_option(section, option)`: `(existed, parser')` -/
def Config.removeOption (c : Config) (s k : Text) : Except Err (Bool × Config) :=
  if s.isEmpty || s = DEFAULT then
    .ok (ahas c.defaults (optionxform k), { c with defaults := aerase c.defaults (optionxform k) })
  else match c.sections.lookup s with
    | none => .error .noSection
    | some os =>
      .ok (ahas os (optionxform k), { c with sections := aset c.sections s (aerase os (optionxform k)) })

/-- `parser.remove_section(section)`: `(existed, parser')` -/
def Config.removeSection (c : Config) (s : Text) : Bool × Config :=
  (ahas c.sections s, { c with sections := aerase c.sections s })

/-- `parser.read_dict({section: items})` on behalf of `__setitem__` (one section, fresh
`elements_added`): the values are `str()`-ed unless `None`, `None` is then rejected by `set`.
Not atomic: when an item fails, the items before it stay set (second component = the exception). -/
def Config.readDictItems (c : Config) (s : Text) :
    List (Text × PyVal) → List Text → Config × Option Err
  | [], _ => (c, none)
  | (k, v) :: rest, added =>
    let key := optionxform k
    if added.contains key then (c, some .duplicateOption)
    else
      let v' := match v with
        | .none => PyVal.none
        | x => .str x.toStr
      match c.setAny s key v' with
      | .error e => (c, some e)
      | .ok c' => Config.readDictItems c' s rest (key :: added)

/-- `parser[key] = items` (`RawConfigParser.__setitem__`) for a `dict` right-hand side: an existing
section is CLEARED IN PLACE (it keeps its position; CPython 3.12.1), a missing one is appended, `DEFAULT`
is cleared; then the items are set one by one.  (The `self[key] is value` shortcut cannot fire for a
fresh dict.)  Note the quirk inherited from `set`: `parser[''] = {...}` creates a section `''` and then
writes the items into DEFAULT.  Returns the new state and the exception raised, if any. -/
def Config.setItem (c : Config) (s : Text) (items : List (Text × PyVal)) : Config × Option Err :=
  let c1 : Config :=
    if s = DEFAULT then { c with defaults := [] }
    else if ahas c.sections s then { c with sections := aset c.sections s [] }
    else c
  -- `read_dict`: `add_section`, swallowing DuplicateSectionError / ValueError
  let c2 : Config := match c1.addSection s with
    | .ok c' => c'
    | .error _ => c1
  c2.readDictItems s items []

/-- `parser[s]` succeeds (`__getitem__` returns the proxy) -/
def Config.getItemOk (c : Config) (s : Text) : Bool := c.contains s

/-- `parser[s][k] = v` (`SectionProxy.__setitem__`) -/
def Config.proxySet (c : Config) (s k : Text) (v : PyVal) : Except Err Config :=
  if !c.contains s then .error .keyError
  else match v with
    | .str t => c.setRaw s k t
    | _ => .error .typeError

/-- `parser[s][k]` (`SectionProxy.__getitem__`) -/
def Config.proxyGet (c : Config) (s k : Text) : Except Err Text :=
  if !c.contains s then .error .keyError
  else if !c.hasOption s k then .error .keyError
  else c.get s k

/-- `list(parser[s])` (`SectionProxy.__iter__`), the loop of `PDFFiller._read_form_fields` -/
def Config.proxyIter (c : Config) (s : Text) : Except Err (List Text) :=
  if !c.contains s then .error .keyError
  else if s = DEFAULT then .ok (akeys c.defaults)
  else c.options s

/-! ## `write` -/

/-- `value.replace('\n', '\n\t')` -/
def replaceNl (v : Text) : Text := v.flatMap fun c => if c = '\n' then ['\n', '\t'] else [c]

/-- one `fp.write("{}{}\n".format(key, " = " + value.replace(...)))` -/
def writeItem (kv : Text × Text) : Text := kv.1 ++ [' ', '=', ' '] ++ replaceNl kv.2 ++ ['\n']

/-- `_write_section` -/
def writeSection (name : Text) (items : List (Text × Text)) : Text :=
  '[' :: name ++ [']', '\n'] ++ items.flatMap writeItem ++ ['\n']

/-- `parser.write(fp)` (`space_around_delimiters=True`): everything written to `fp` -/
def write (c : Config) : Text :=
  (if c.defaults.isEmpty then [] else writeSection DEFAULT c.defaults) ++
  c.sections.flatMap fun (n, items) => writeSection n items

/-! ## what survives `write` followed by `read`

The explicit, decidable predicate `IniClean` for which `parse (write c) = .ok c` is proved in
`Proofs/IniLemmas.lean` (`write_parse_roundtrip`).  It lives here so that the driver can evaluate it. -/

/-- the first character (if any) is not white space -/
def headOk : Text → Bool
  | [] => true
  | c :: _ => !isSpace c

/-- the last character (if any) is not white space -/
def lastOk (l : Text) : Bool := headOk l.reverse

/-- `v.split('\n')`: first piece and the others -/
def splitNl : Text → Text × List Text
  | [] => ([], [])
  | c :: cs => if c = '\n' then ([], (splitNl cs).1 :: (splitNl cs).2) else (c :: (splitNl cs).1, (splitNl cs).2)

/-- no leading / trailing white space -/
def CleanLine (l : Text) : Prop := headOk l = true ∧ lastOk l = true

/-- option names that survive: non-empty, already lower case, no white space at either end, no delimiter
and no newline inside, and the first character is not a comment prefix. -/
def CleanKey (k : Text) : Prop :=
  k ≠ [] ∧ CleanLine k ∧ optionxform k = k ∧ (∀ c ∈ k, isDelim c = false ∧ c ≠ '\n') ∧
  isCommentLine k = false

/-- an option whose name starts with `[` survives as long as its first line `name = value` contains no
`]` (otherwise the line is read as a section header) -/
def HeaderSafe (kv : Text × Text) : Prop :=
  kv.1.head? = some '[' → ']' ∉ kv.1 ∧ ']' ∉ (splitNl kv.2).1

/-- values that survive: every line (pieces between `'\n'`) free of leading / trailing white space (empty
lines are fine), no line after the first starts with `#` or `;`, and the value as a whole does not end in
white space (so its last line is not empty unless the value is). -/
def CleanVal (v : Text) : Prop :=
  CleanLine (splitNl v).1 ∧ (∀ l ∈ (splitNl v).2, CleanLine l ∧ isCommentLine l = false) ∧ rstrip v = v

/-- section names that survive: non-empty, no newline, not `DEFAULT` (anything else goes, including
`]`, `=`, white space at the ends) -/
def CleanName (n : Text) : Prop := n ≠ [] ∧ '\n' ∉ n ∧ n ≠ DEFAULT

def CleanOpts (os : List (Text × Text)) : Prop :=
  (akeys os).Nodup ∧ ∀ kv ∈ os, CleanKey kv.1 ∧ CleanVal kv.2 ∧ HeaderSafe kv

/-- the configurations for which `parse (write c) = c` is proved -/
def IniClean (c : Config) : Prop :=
  CleanOpts c.defaults ∧ (akeys c.sections).Nodup ∧ ∀ s ∈ c.sections, CleanName s.1 ∧ CleanOpts s.2

instance (l : Text) : Decidable (CleanLine l) := by unfold CleanLine; infer_instance
instance (k : Text) : Decidable (CleanKey k) := by unfold CleanKey; infer_instance
instance (v : Text) : Decidable (CleanVal v) := by unfold CleanVal; infer_instance
instance (kv : Text × Text) : Decidable (HeaderSafe kv) := by unfold HeaderSafe; infer_instance
instance (n : Text) : Decidable (CleanName n) := by unfold CleanName; infer_instance
instance (os : List (Text × Text)) : Decidable (CleanOpts os) := by unfold CleanOpts; infer_instance
instance (c : Config) : Decidable (IniClean c) := by unfold IniClean; infer_instance

end HabuVerif.Ini
