import HabuVerif.Core.Tree
/-!
# What growth of the stores can and cannot change about a line's outcome

All lemmas are for an arbitrary strategy tree, i.e. for every possible line definition.
-/
set_option autoImplicit false

namespace HabuVerif
variable {N I F V : Type}

section
variable {vs vs' : N → Option V} {is is' : I → InpRes V} {fs fs' : F → Bool}

/-- A computed value never changes when the stores grow. -/
theorem run_val_stable (hv : Ext vs vs') (hi : InpLe is is') (hf : FormLe fs fs')
    (t : Tree N I F V) (v : V) (h : run vs is fs t = .val v) : run vs' is' fs' t = .val v := by
  induction t with
  | ret w => simpa [run] using h
  | notImpl => simp [run] at h
  | err c => simp [run] at h
  | readV n k ih =>
    simp only [run] at h ⊢
    cases hn : vs n with
    | none => simp [hn] at h
    | some w => rw [hn] at h; rw [hv n w hn]; exact ih w h
  | readI x k ih =>
    simp only [run] at h ⊢
    cases hx : is x with
    | ok w => rw [hx] at h; rw [(hi x).1 w hx]; exact ih w h
    | noSpec => simp [hx] at h
    | missing => simp [hx] at h
    | invalid => simp [hx] at h
  | needForm f k ih =>
    simp only [run] at h ⊢
    cases hff : fs f with
    | false => simp [hff] at h
    | true => rw [hff] at h; rw [hf f hff]; simpa using ih (by simpa using h)

/-- "not implemented" is stable too. -/
theorem run_notImpl_stable (hv : Ext vs vs') (hi : InpLe is is') (hf : FormLe fs fs')
    (t : Tree N I F V) (h : run vs is fs t = .notImpl) : run vs' is' fs' t = .notImpl := by
  induction t with
  | ret w => simp [run] at h
  | notImpl => simp [run]
  | err c => simp [run] at h
  | readV n k ih =>
    simp only [run] at h ⊢
    cases hn : vs n with
    | none => simp [hn] at h
    | some w => rw [hn] at h; rw [hv n w hn]; exact ih w h
  | readI x k ih =>
    simp only [run] at h ⊢
    cases hx : is x with
    | ok w => rw [hx] at h; rw [(hi x).1 w hx]; exact ih w h
    | noSpec => simp [hx] at h
    | missing => simp [hx] at h
    | invalid => simp [hx] at h
  | needForm f k ih =>
    simp only [run] at h ⊢
    cases hff : fs f with
    | false => simp [hff] at h
    | true => rw [hff] at h; rw [hf f hff]; simpa using ih (by simpa using h)

/-- So are the aborting outcomes `err` and `invalid` (but NOT `noForm`, see `needForm`). -/
theorem run_err_stable (hv : Ext vs vs') (hi : InpLe is is') (hf : FormLe fs fs')
    (t : Tree N I F V) (c : Nat) (h : run vs is fs t = .err c) : run vs' is' fs' t = .err c := by
  induction t with
  | ret w => simp [run] at h
  | notImpl => simp [run] at h
  | err c' => simpa [run] using h
  | readV n k ih =>
    simp only [run] at h ⊢
    cases hn : vs n with
    | none => simp [hn] at h
    | some w => rw [hn] at h; rw [hv n w hn]; exact ih w h
  | readI x k ih =>
    simp only [run] at h ⊢
    cases hx : is x with
    | ok w => rw [hx] at h; rw [(hi x).1 w hx]; exact ih w h
    | noSpec => simp [hx] at h
    | missing => simp [hx] at h
    | invalid => simp [hx] at h
  | needForm f k ih =>
    simp only [run] at h ⊢
    cases hff : fs f with
    | false => simp [hff] at h
    | true => rw [hff] at h; rw [hf f hff]; simpa using ih (by simpa using h)

theorem run_invalid_stable (hv : Ext vs vs') (hi : InpLe is is') (hf : FormLe fs fs')
    (t : Tree N I F V) (y : I) (h : run vs is fs t = .invalid y) :
    run vs' is' fs' t = .invalid y := by
  induction t with
  | ret w => simp [run] at h
  | notImpl => simp [run] at h
  | err c' => simp [run] at h
  | readV n k ih =>
    simp only [run] at h ⊢
    cases hn : vs n with
    | none => simp [hn] at h
    | some w => rw [hn] at h; rw [hv n w hn]; exact ih w h
  | readI x k ih =>
    simp only [run] at h ⊢
    cases hx : is x with
    | ok w => rw [hx] at h; rw [(hi x).1 w hx]; exact ih w h
    | noSpec => simp [hx] at h
    | missing => simp [hx] at h
    | invalid => rw [hx] at h; rw [(hi x).2.1 hx]; simpa using h
  | needForm f k ih =>
    simp only [run] at h ⊢
    cases hff : fs f with
    | false => simp [hff] at h
    | true => rw [hff] at h; rw [hf f hff]; simpa using ih (by simpa using h)

/-- A line blocked on line `m`: later it is still blocked on `m`, unless `m` has a value by then.
(The prefix of the evaluation up to the read of `m` is replayed identically.) -/
theorem run_needV_later (hv : Ext vs vs') (hi : InpLe is is') (hf : FormLe fs fs')
    (t : Tree N I F V) (m : N) (h : run vs is fs t = .needV m) :
    (∃ w, vs' m = some w) ∨ run vs' is' fs' t = .needV m := by
  induction t with
  | ret w => simp [run] at h
  | notImpl => simp [run] at h
  | err c' => simp [run] at h
  | readV n k ih =>
    simp only [run] at h ⊢
    cases hn : vs n with
    | none =>
      rw [hn] at h; simp at h; subst h
      cases hn' : vs' n with
      | none => exact Or.inr rfl
      | some w => exact Or.inl ⟨w, rfl⟩
    | some w => rw [hn] at h; rw [hv n w hn]; exact ih w h
  | readI x k ih =>
    simp only [run] at h ⊢
    cases hx : is x with
    | ok w => rw [hx] at h; rw [(hi x).1 w hx]; exact ih w h
    | noSpec => simp [hx] at h
    | missing => simp [hx] at h
    | invalid => simp [hx] at h
  | needForm f k ih =>
    simp only [run] at h ⊢
    cases hff : fs f with
    | false => simp [hff] at h
    | true => rw [hff] at h; rw [hf f hff]; simpa using ih (by simpa using h)

/-- A line blocked on input `x`: later it is still blocked on `x`, unless `x` was supplied. -/
theorem run_needI_later (hv : Ext vs vs') (hi : InpLe is is') (hf : FormLe fs fs')
    (t : Tree N I F V) (y : I) (h : run vs is fs t = .needI y) :
    is' y ≠ .missing ∨ run vs' is' fs' t = .needI y := by
  induction t with
  | ret w => simp [run] at h
  | notImpl => simp [run] at h
  | err c' => simp [run] at h
  | readV n k ih =>
    simp only [run] at h ⊢
    cases hn : vs n with
    | none => simp [hn] at h
    | some w => rw [hn] at h; rw [hv n w hn]; exact ih w h
  | readI x k ih =>
    simp only [run] at h ⊢
    cases hx : is x with
    | ok w => rw [hx] at h; rw [(hi x).1 w hx]; exact ih w h
    | noSpec => simp [hx] at h
    | missing =>
      rw [hx] at h; simp at h; subst h
      cases hx' : is' x with
      | missing => exact Or.inr rfl
      | noSpec => exact Or.inl (by simp)
      | invalid => exact Or.inl (by simp)
      | ok w => exact Or.inl (by simp)
    | invalid => simp [hx] at h
  | needForm f k ih =>
    simp only [run] at h ⊢
    cases hff : fs f with
    | false => simp [hff] at h
    | true => rw [hff] at h; rw [hf f hff]; simpa using ih (by simpa using h)

/-- A line stopped because an input's form was not loaded: later likewise, unless it was loaded. -/
theorem run_needSpec_later (hv : Ext vs vs') (hi : InpLe is is') (hf : FormLe fs fs')
    (t : Tree N I F V) (y : I) (h : run vs is fs t = .needSpec y) :
    is' y ≠ .noSpec ∨ run vs' is' fs' t = .needSpec y := by
  induction t with
  | ret w => simp [run] at h
  | notImpl => simp [run] at h
  | err c' => simp [run] at h
  | readV n k ih =>
    simp only [run] at h ⊢
    cases hn : vs n with
    | none => simp [hn] at h
    | some w => rw [hn] at h; rw [hv n w hn]; exact ih w h
  | readI x k ih =>
    simp only [run] at h ⊢
    cases hx : is x with
    | ok w => rw [hx] at h; rw [(hi x).1 w hx]; exact ih w h
    | noSpec =>
      rw [hx] at h; simp at h; subst h
      cases hx' : is' x with
      | noSpec => exact Or.inr rfl
      | missing => exact Or.inl (by simp)
      | invalid => exact Or.inl (by simp)
      | ok w => exact Or.inl (by simp)
    | missing => simp [hx] at h
    | invalid => simp [hx] at h
  | needForm f k ih =>
    simp only [run] at h ⊢
    cases hff : fs f with
    | false => simp [hff] at h
    | true => rw [hff] at h; rw [hf f hff]; simpa using ih (by simpa using h)
end

section
variable (vs : N → Option V) (is : I → InpRes V) (fs : F → Bool)

theorem run_needV_absent (t : Tree N I F V) (m : N) (h : run vs is fs t = .needV m) :
    vs m = none := by
  induction t with
  | ret w => simp [run] at h
  | notImpl => simp [run] at h
  | err c' => simp [run] at h
  | readV n k ih =>
    simp only [run] at h
    cases hn : vs n with
    | none => rw [hn] at h; simp at h; subst h; exact hn
    | some w => rw [hn] at h; exact ih w h
  | readI x k ih =>
    simp only [run] at h
    cases hx : is x with
    | ok w => rw [hx] at h; exact ih w h
    | noSpec => simp [hx] at h
    | missing => simp [hx] at h
    | invalid => simp [hx] at h
  | needForm f k ih =>
    simp only [run] at h
    cases hff : fs f with
    | false => simp [hff] at h
    | true => rw [hff] at h; exact ih (by simpa using h)

theorem run_needI_missing (t : Tree N I F V) (y : I) (h : run vs is fs t = .needI y) :
    is y = .missing := by
  induction t with
  | ret w => simp [run] at h
  | notImpl => simp [run] at h
  | err c' => simp [run] at h
  | readV n k ih =>
    simp only [run] at h
    cases hn : vs n with
    | none => rw [hn] at h; simp at h
    | some w => rw [hn] at h; exact ih w h
  | readI x k ih =>
    simp only [run] at h
    cases hx : is x with
    | ok w => rw [hx] at h; exact ih w h
    | noSpec => simp [hx] at h
    | missing => rw [hx] at h; simp at h; subst h; exact hx
    | invalid => simp [hx] at h
  | needForm f k ih =>
    simp only [run] at h
    cases hff : fs f with
    | false => simp [hff] at h
    | true => rw [hff] at h; exact ih (by simpa using h)

theorem run_needSpec_noSpec (t : Tree N I F V) (y : I) (h : run vs is fs t = .needSpec y) :
    is y = .noSpec := by
  induction t with
  | ret w => simp [run] at h
  | notImpl => simp [run] at h
  | err c' => simp [run] at h
  | readV n k ih =>
    simp only [run] at h
    cases hn : vs n with
    | none => rw [hn] at h; simp at h
    | some w => rw [hn] at h; exact ih w h
  | readI x k ih =>
    simp only [run] at h
    cases hx : is x with
    | ok w => rw [hx] at h; exact ih w h
    | noSpec => rw [hx] at h; simp at h; subst h; exact hx
    | missing => simp [hx] at h
    | invalid => simp [hx] at h
  | needForm f k ih =>
    simp only [run] at h
    cases hff : fs f with
    | false => simp [hff] at h
    | true => rw [hff] at h; exact ih (by simpa using h)
end

/-- Blocked-on-`m` is stable as long as `m` has no value. -/
theorem run_needV_stable {vs vs' : N → Option V} {is is' : I → InpRes V} {fs fs' : F → Bool}
    (hv : Ext vs vs') (hi : InpLe is is') (hf : FormLe fs fs')
    (t : Tree N I F V) (m : N) (h : run vs is fs t = .needV m) (hm : vs' m = none) :
    run vs' is' fs' t = .needV m := by
  rcases run_needV_later hv hi hf t m h with ⟨w, hw⟩ | h'
  · rw [hm] at hw; simp at hw
  · exact h'

theorem run_needI_stable {vs vs' : N → Option V} {is is' : I → InpRes V} {fs fs' : F → Bool}
    (hv : Ext vs vs') (hi : InpLe is is') (hf : FormLe fs fs')
    (t : Tree N I F V) (y : I) (h : run vs is fs t = .needI y) (hm : is' y = .missing) :
    run vs' is' fs' t = .needI y := by
  rcases run_needI_later hv hi hf t y h with h' | h'
  · exact absurd hm h'
  · exact h'

end HabuVerif
