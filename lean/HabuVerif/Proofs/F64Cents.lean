import HabuVerif.Proofs.F64Lemmas
/-!
# The cents bridge: money lines are exact integers of cents

habutax stores every money line as `round(e, 2)` of a float expression `e` over other stored money
lines.  This file shows that such values are *cent-valued* (`Cent x c`: `x` is the double nearest to
`c/100`) and that the float operations used between two roundings (`+`, `-`, chains of them,
`sum`, `max`/`min`, comparisons, multiplication by a rate) act on the integer numbers of cents
exactly as the corresponding integer operations, within explicit magnitude bounds.

Units: as everywhere, exact values (`sval`) are integers in units of `2^-1074`, `one = 2^1074` is one
dollar, so `c` cents is the rational `c * one / 100` and `100 * sval x` is the value of `x` in
units of `one` cents.

The workhorse is `Approx x c w`: "`x` is finite and `|x - c/100| ≤ w/100 · 2^-53`" (`w` is a weight in
cents: every float operation adds roughly the magnitude of its result to it), with
`Approx.round2 : Approx x c w → w < 2^52 → Cent (roundN x 2) c`.
-/

set_option linter.unusedTactic false
set_option linter.unreachableTactic false
set_option linter.unnecessarySeqFocus false
set_option linter.unusedSimpArgs false

namespace HabuVerif.F64

/-! ## 0. Rounding errors, quantitatively -/

set_option exponentiation.threshold 2000 in
theorem two_pow_60_le_one : 2 ^ 60 ≤ one := by
  unfold one; exact Nat.pow_le_pow_right (by decide) (by decide)

/-- relative error of the rounding primitive: `|rs N D · D - N| ≤ N/2^53 + D/2` -/
theorem rs_err {N D : Nat} (hD : 0 < D) :
    2 ^ 53 * (rs N D * D) ≤ 2 ^ 53 * N + N + 2 ^ 52 * D ∧
    2 ^ 53 * N ≤ 2 ^ 53 * (rs N D * D) + N + 2 ^ 52 * D := by
  have hd : 0 < D * 2 ^ expo N D := Nat.mul_pos hD (Nat.two_pow_pos _)
  have herr := rneDiv_err (a := N) hd
  have e : rs N D * D = rneDiv N (D * 2 ^ expo N D) * (D * 2 ^ expo N D) := by unfold rs; ring
  rw [e]
  by_cases hj : expo N D = 0
  · rw [hj] at herr ⊢
    simp only [Nat.pow_zero, Nat.mul_one] at herr ⊢
    generalize rneDiv N D * D = md at *
    omega
  · have hl := expo_lower hj
    have e2 : D * 2 ^ (52 + expo N D) = 2 ^ 52 * (D * 2 ^ expo N D) := by rw [Nat.pow_add]; ring
    rw [e2] at hl
    generalize rneDiv N (D * 2 ^ expo N D) * (D * 2 ^ expo N D) = md at *
    generalize D * 2 ^ expo N D = d at *
    omega

/-- for integers (`D = 1`) the error is purely relative -/
theorem rs_err1 (N : Nat) :
    2 ^ 53 * rs N 1 ≤ 2 ^ 53 * N + N ∧ 2 ^ 53 * N ≤ 2 ^ 53 * rs N 1 + N := by
  by_cases hj : expo N 1 = 0
  · have : rs N 1 = N := by
      unfold rs; rw [hj]
      simp only [Nat.pow_zero, Nat.mul_one]
      have := rneDiv_exact (den := 1) (by decide) N
      simpa using this
    rw [this]; omega
  · have hd : 0 < 1 * 2 ^ expo N 1 := Nat.mul_pos (by decide) (Nat.two_pow_pos _)
    have herr := rneDiv_err (a := N) hd
    have hl := expo_lower hj
    have e2 : 1 * 2 ^ (52 + expo N 1) = 2 ^ 52 * (1 * 2 ^ expo N 1) := by rw [Nat.pow_add]; ring
    rw [e2] at hl
    have e : rs N 1 = rneDiv N (1 * 2 ^ expo N 1) * (1 * 2 ^ expo N 1) := by unfold rs; ring
    rw [e]
    generalize rneDiv N (1 * 2 ^ expo N 1) * (1 * 2 ^ expo N 1) = md at *
    generalize 1 * 2 ^ expo N 1 = d at *
    omega

theorem R_of_lt_huge {S : Int} {D : Nat} (h : (R S D).natAbs < huge) :
    R S D = if S < 0 then -(rs S.natAbs D : Int) else (rs S.natAbs D : Int) := by
  unfold R clamp at *
  have := huge_lt_infMag
  by_cases hr : rs S.natAbs D < huge
  · simp only [hr, if_true]
  · exfalso
    simp only [hr, if_false] at h
    split at h <;> omega

/-- `|R S D · D - S| ≤ |S|/2^53 + D/2` when the result is finite -/
theorem R_err {S : Int} {D : Nat} (hD : 0 < D) (h : (R S D).natAbs < huge) :
    2 ^ 53 * (R S D * (D : Int) - S).natAbs ≤ S.natAbs + 2 ^ 52 * D := by
  have hr := rs_err (N := S.natAbs) hD
  rw [R_of_lt_huge h]
  by_cases hs : S < 0
  · rw [if_pos hs]
    have e : (-(rs S.natAbs D : Int)) * (D : Int) - S = -(((rs S.natAbs D * D : Nat) : Int) - (S.natAbs : Int)) := by
      rw [Int.natCast_mul, Int.neg_mul]; omega
    rw [e]
    generalize rs S.natAbs D * D = p at *
    omega
  · rw [if_neg hs]
    have e : (rs S.natAbs D : Int) * (D : Int) - S = ((rs S.natAbs D * D : Nat) : Int) - (S.natAbs : Int) := by
      rw [Int.natCast_mul]; omega
    rw [e]
    generalize rs S.natAbs D * D = p at *
    omega

theorem R_err1 {S : Int} (h : (R S 1).natAbs < huge) :
    2 ^ 53 * (R S 1 - S).natAbs ≤ S.natAbs := by
  have hr := rs_err1 S.natAbs
  rw [R_of_lt_huge h]
  by_cases hs : S < 0
  · rw [if_pos hs]; omega
  · rw [if_neg hs]; omega

/-- `2^60` dollars, a convenient canonical bound far above every money amount and far below overflow -/
def big : F64 := finite false (2 ^ 52) 1082

theorem big_isFinite : big.isFinite = true := rfl
theorem wf_big : WF big := by decide

set_option exponentiation.threshold 2000 in
theorem sval_big : sval big = ((2 ^ 60 * one : Nat) : Int) := by
  unfold big one
  simp only [sval, signed_false]
  congr 1

set_option exponentiation.threshold 3000 in
theorem big_lt_huge : 2 ^ 60 * one < huge := by
  unfold one huge maxE
  rw [← Nat.pow_add]
  exact Nat.pow_lt_pow_right (by decide) (by decide)

/-- rounding cannot cross the representable bound `2^60` -/
theorem R_bound {S : Int} {D : Nat} (hD : 0 < D) (h : S.natAbs ≤ 2 ^ 60 * one * D) :
    (R S D).natAbs ≤ 2 ^ 60 * one := by
  have hu : R S D ≤ sval big := by
    rw [← R_exact big_isFinite wf_big hD]
    apply R_mono hD hD
    apply Int.mul_le_mul_of_nonneg_right _ (Int.natCast_nonneg _)
    rw [sval_big]
    have : ((S.natAbs : Nat) : Int) ≤ ((2 ^ 60 * one * D : Nat) : Int) := by exact_mod_cast h
    rw [Int.natCast_mul] at this
    omega
  have hl : -sval big ≤ R S D := by
    have : R (-S) D ≤ sval big := by
      rw [← R_exact big_isFinite wf_big hD]
      apply R_mono hD hD
      apply Int.mul_le_mul_of_nonneg_right _ (Int.natCast_nonneg _)
      rw [sval_big]
      have : ((S.natAbs : Nat) : Int) ≤ ((2 ^ 60 * one * D : Nat) : Int) := by exact_mod_cast h
      rw [Int.natCast_mul] at this
      omega
    rw [R_neg] at this; omega
  rw [sval_big] at hu hl
  omega

theorem isFinite_of_ev_lt {x : F64} (ho : Out x) (h : (ev x).natAbs < huge) : x.isFinite = true := by
  have := huge_lt_infMag
  cases x with
  | finite => rfl
  | nan => simp [Out] at ho
  | inf s => cases s <;> simp [ev, signed] at h <;> omega

/-- `fl(x + y)`: finite, with relative error `2^-53`, as long as `|x + y| ≤ 2^60` -/
theorem add_err {x y : F64} (hx : x.isFinite = true) (hy : y.isFinite = true)
    (hb : (sval x + sval y).natAbs ≤ 2 ^ 60 * one) :
    (add x y).isFinite = true ∧
      2 ^ 53 * (sval (add x y) - (sval x + sval y)).natAbs ≤ (sval x + sval y).natAbs := by
  have hev := ev_add hx hy
  have hR := R_bound (S := sval x + sval y) (D := 1) (by decide) (by omega)
  have hlt := big_lt_huge
  have hfin : (add x y).isFinite = true := isFinite_of_ev_lt (out_add hx hy) (by rw [hev]; omega)
  refine ⟨hfin, ?_⟩
  rw [← ev_eq_sval hfin, hev]
  exact R_err1 (by omega)

theorem sub_err {x y : F64} (hx : x.isFinite = true) (hy : y.isFinite = true)
    (hb : (sval x - sval y).natAbs ≤ 2 ^ 60 * one) :
    (sub x y).isFinite = true ∧
      2 ^ 53 * (sval (sub x y) - (sval x - sval y)).natAbs ≤ (sval x - sval y).natAbs := by
  have h := add_err hx (y := neg y) (by rw [isFinite_neg]; exact hy) (by rw [sval_neg]; simpa [Int.sub_eq_add_neg] using hb)
  rw [sval_neg] at h
  simpa [sub, Int.sub_eq_add_neg] using h

/-- `fl(x * y)`: finite, relative error `2^-53` (plus half a subnormal ulp), as long as `|x·y| ≤ 2^60` -/
theorem mul_err {x y : F64} (hx : x.isFinite = true) (hy : y.isFinite = true)
    (hb : (sval x * sval y).natAbs ≤ 2 ^ 60 * one * one) :
    (mul x y).isFinite = true ∧
      2 ^ 53 * (sval (mul x y) * (one : Int) - sval x * sval y).natAbs
        ≤ (sval x * sval y).natAbs + 2 ^ 52 * one := by
  have hev := ev_mul hx hy
  have hR := R_bound (S := sval x * sval y) (D := one) one_pos hb
  have hlt := big_lt_huge
  have hfin : (mul x y).isFinite = true := isFinite_of_ev_lt (out_mul hx hy) (by rw [hev]; omega)
  refine ⟨hfin, ?_⟩
  rw [← ev_eq_sval hfin, hev]
  exact R_err one_pos (by omega)

/-! ## 1. Cent-valued doubles -/

-- `centD`, `Cent`, `cents100I`, `cents100`, `centsOf` are defined (executably) in `Py/F64.lean`.

/-- exact scaled value of the double for `c` cents -/
def cv (c : Int) : Int := R (c * (one : Int)) 100

theorem centD_eq (c : Int) : centD c = ofScaled (decide (c < 0)) (c.natAbs * one) 100 := by
  unfold centD ofDecimal
  by_cases h0 : c.natAbs = 0
  · simp only [h0, if_true, Nat.zero_mul, ofScaled_zero]
  · have h2 : ¬ ((-2 : Int) ≥ 310) := by decide
    have h3 : ¬ ((-2 : Int) < -(400 + ((c.natAbs.log2 : Nat) : Int) + 1)) := by omega
    have h4 : ¬ ((-2 : Int) ≥ 0) := by decide
    simp only [h0, h2, h3, h4, if_false]
    rfl

theorem ev_centD (c : Int) : ev (centD c) = cv c := by
  rw [centD_eq, ev_ofScaled_R _ (by decide), signed_mul, signed_decide_natAbs]; rfl

theorem out_centD (c : Int) : Out (centD c) := by
  rw [centD_eq]; exact out_ofScaled _ (by decide)

theorem wf_centD (c : Int) : WF (centD c) := by
  rw [centD_eq]; exact wf_ofScaled _ (by decide)

/-- `Cent` in terms of exact values -/
theorem cent_iff {x : F64} {c : Int} :
    Cent x c ↔ WF x ∧ x.isFinite = true ∧ sval x = cv c := by
  unfold Cent
  constructor
  · rintro ⟨hw, hf, he⟩
    refine ⟨hw, hf, ?_⟩
    rw [eq_iff_ev (out_of_wf hw (isNaN_of_isFinite hf)) (out_centD c), ev_centD, ev_eq_sval hf] at he
    exact he
  · rintro ⟨hw, hf, he⟩
    refine ⟨hw, hf, ?_⟩
    rw [eq_iff_ev (out_of_wf hw (isNaN_of_isFinite hf)) (out_centD c), ev_centD, ev_eq_sval hf]
    exact he

theorem Cent.wf {x : F64} {c : Int} (h : Cent x c) : WF x := h.1
theorem Cent.isFinite {x : F64} {c : Int} (h : Cent x c) : x.isFinite = true := h.2.1
theorem Cent.sval_eq {x : F64} {c : Int} (h : Cent x c) : sval x = cv c := (cent_iff.1 h).2.2

theorem cv_zero : cv 0 = 0 := by unfold cv; simp [R_zero]
theorem cv_neg (c : Int) : cv (-c) = -cv c := by unfold cv; rw [Int.neg_mul, R_neg]

theorem cv_mono {c c' : Int} (h : c ≤ c') : cv c ≤ cv c' := by
  unfold cv
  apply R_mono (by decide) (by decide)
  apply Int.mul_le_mul_of_nonneg_right _ (by decide)
  exact Int.mul_le_mul_of_nonneg_right h (Int.natCast_nonneg _)

theorem cv_natAbs_le {c : Int} (h : c.natAbs ≤ 2 ^ 60) : (cv c).natAbs ≤ 2 ^ 60 * one := by
  unfold cv
  apply R_bound (by decide)
  rw [Int.natAbs_mul, Int.natAbs_natCast]
  have := Nat.mul_le_mul_right one h
  omega

/-- the double for `c` cents is within `2^-53` (relative) of `c/100` -/
theorem cv_err {c : Int} (h : c.natAbs ≤ 2 ^ 60) :
    2 ^ 53 * (cv c * 100 - c * (one : Int)).natAbs ≤ c.natAbs * one + 2 ^ 52 * 100 := by
  have hb := cv_natAbs_le h
  have hlt := big_lt_huge
  have := R_err (S := c * (one : Int)) (D := 100) (by decide) (by unfold cv at hb; omega)
  rw [Int.natAbs_mul, Int.natAbs_natCast] at this
  exact this

/-! ### reading the cents back -/

theorem cents100I_neg (v : Int) : cents100I (-v) = -cents100I v := by
  unfold cents100I
  by_cases h0 : v = 0
  · subst h0; simp [signed, rneDiv_zero]
  · rw [Int.natAbs_neg]
    by_cases hv : v < 0
    · have : ¬ (-v < 0) := by omega
      rw [decide_eq_true hv, decide_eq_false this]; simp [signed]
    · have : -v < 0 := by omega
      rw [decide_eq_false hv, decide_eq_true this]; simp [signed]

theorem signed_cents (s : Bool) (M : Nat) :
    signed s (rneDiv (M * 100) one) = cents100I (signed s M) := by
  unfold cents100I
  rw [signed_natAbs]
  cases s
  · simp [signed]
  · by_cases hM : M = 0
    · subst hM; simp [signed, rneDiv_zero]
    · have : signed true M < 0 := by simp [signed]; omega
      simp [this]

/-- reading the cents of the double for `c` cents gives `c` back (for `|c| < 2^52`) -/
theorem cents100I_cv {c : Int} (h : c.natAbs < 2 ^ 52) : cents100I (cv c) = c := by
  obtain ⟨m, j, h1, h2⟩ := ofScaled_decimal_small (decide (c < 0)) (n := 2) (by decide) h
  have hev : cv c = signed (decide (c < 0)) (m * 2 ^ j) := by
    rw [← ev_centD, centD_eq]
    have : (10 : Nat) ^ 2 = 100 := by decide
    rw [this] at h1
    rw [h1]; rfl
  have : (10 : Nat) ^ 2 = 100 := by decide
  rw [this] at h2
  rw [hev, ← signed_cents, h2, signed_decide_natAbs]

theorem Cent.cents100 {x : F64} {c : Int} (h : Cent x c) (hc : c.natAbs < 2 ^ 52) : cents100 x = c := by
  unfold F64.cents100; rw [h.sval_eq, cents100I_cv hc]

/-- 1. a double is cent-valued for at most one `c` (in the range `|c| < 2^52`, which contains `10^15`) -/
theorem Cent_unique {x : F64} {c c' : Int} (hc : c.natAbs < 2 ^ 52) (hc' : c'.natAbs < 2 ^ 52)
    (h : Cent x c) (h' : Cent x c') : c = c' := by
  rw [← h.cents100 hc, ← h'.cents100 hc']

theorem centsOf_some {x : F64} {c : Int} (h : centsOf x = some c) : Cent x c := by
  unfold centsOf at h
  split at h
  · next hc => injection h with h; rw [← h]; exact hc
  · cases h

theorem Cent.centsOf {x : F64} {c : Int} (h : Cent x c) (hc : c.natAbs < 2 ^ 52) :
    centsOf x = some c := by
  unfold F64.centsOf
  rw [h.cents100 hc, if_pos h]

theorem Cent_zero : Cent zero 0 := by decide
theorem Cent_negZero : Cent negZero 0 := by decide

/-- 1. `Cent x c → Cent (-x) (-c)` -/
theorem Cent_neg {x : F64} {c : Int} (h : Cent x c) : Cent (neg x) (-c) := by
  rw [cent_iff] at h ⊢
  obtain ⟨hw, hf, he⟩ := h
  exact ⟨wf_neg hw, by rw [isFinite_neg]; exact hf, by rw [sval_neg, he, cv_neg]⟩

theorem Cent_centD {c : Int} (h : c.natAbs ≤ 2 ^ 60) : Cent (centD c) c := by
  rw [cent_iff]
  have hb := cv_natAbs_le h
  have hlt := big_lt_huge
  have hfin : (centD c).isFinite = true :=
    isFinite_of_ev_lt (out_centD c) (by rw [ev_centD]; omega)
  exact ⟨wf_centD c, hfin, by rw [← ev_eq_sval hfin, ev_centD]⟩

/-- two canonical finite values with the same sign flag and the same exact value are identical -/
theorem eq_of_sval_eq {x y : F64} (hx : WF x) (hy : WF y) (fx : x.isFinite = true)
    (fy : y.isFinite = true) (hs : x.signBit = y.signBit) (h : sval x = sval y) : x = y := by
  obtain ⟨s1, m1, e1, rfl⟩ := exists_finite fx
  obtain ⟨s2, m2, e2, rfl⟩ := exists_finite fy
  simp only [signBit] at hs
  subst hs
  have hm : m1 * 2 ^ e1 = m2 * 2 ^ e2 := by
    simp only [sval] at h
    have := congrArg Int.natAbs h
    rwa [signed_natAbs, signed_natAbs] at this
  rw [← ofScaled_exact (D := 1) (by decide) hx, ← ofScaled_exact (D := 1) (by decide) hy, hm]

/-! ## 2. `round(x, 2)` is cent-valued -/

theorem ev_roundN2 {y : F64} (hy : y.isFinite = true) : ev (roundN y 2) = cv (cents100 y) := by
  obtain ⟨s, m, e, rfl⟩ := exists_finite hy
  rw [ev_roundN s m e 2 (by decide)]
  have : (10 : Nat) ^ 2 = 100 := by decide
  rw [this, signed_mul, signed_cents]
  rfl

theorem wf_roundN2 {y : F64} (hy : y.isFinite = true) : WF (roundN y 2) := by
  obtain ⟨s, m, e, rfl⟩ := exists_finite hy
  rw [roundN_finite_def _ _ _ _ (by decide)]
  exact wf_ofScaled _ (ten_pow_pos 2)

theorem out_roundN2 {y : F64} (hy : y.isFinite = true) : Out (roundN y 2) := by
  obtain ⟨s, m, e, rfl⟩ := exists_finite hy
  rw [roundN_finite_def _ _ _ _ (by decide)]
  exact out_ofScaled _ (ten_pow_pos 2)

/-- the exact decimal rounding is within half a cent: `|c/100 - y| ≤ 1/200` for `c = cents100 y` -/
theorem cents100_err (y : F64) : 2 * (100 * sval y - cents100 y * (one : Int)).natAbs ≤ one := by
  unfold cents100 cents100I
  generalize sval y = v
  have h := rneDiv_err (a := v.natAbs * 100) one_pos
  by_cases hv : v < 0
  · rw [decide_eq_true hv]; simp only [signed_true]
    have e : 100 * v - -((rneDiv (v.natAbs * 100) one : Nat) : Int) * (one : Int)
        = -(((v.natAbs * 100 : Nat) : Int) - ((rneDiv (v.natAbs * 100) one * one : Nat) : Int)) := by
      rw [Int.natCast_mul, Int.natCast_mul]; simp only [Int.neg_mul]; omega
    rw [e]
    generalize rneDiv (v.natAbs * 100) one * one = p at *
    omega
  · rw [decide_eq_false hv]; simp only [signed_false]
    have e : 100 * v - ((rneDiv (v.natAbs * 100) one : Nat) : Int) * (one : Int)
        = (((v.natAbs * 100 : Nat) : Int) - ((rneDiv (v.natAbs * 100) one * one : Nat) : Int)) := by
      rw [Int.natCast_mul, Int.natCast_mul]; omega
    rw [e]
    generalize rneDiv (v.natAbs * 100) one * one = p at *
    omega

/-- anything strictly within half a cent of `c/100` has `cents100 = c` -/
theorem cents100_of_near {y : F64} {c : Int}
    (h : 2 * (100 * sval y - c * (one : Int)).natAbs < one) : cents100 y = c := by
  unfold cents100 cents100I
  generalize sval y = v at *
  have hop := one_pos
  by_cases hv : v < 0
  · rw [decide_eq_true hv]; simp only [signed_true]
    have hc : c ≤ 0 := by
      by_contra hcc
      have : (1 : Int) * (one : Int) ≤ c * (one : Int) :=
        Int.mul_le_mul_of_nonneg_right (by omega) (Int.natCast_nonneg _)
      omega
    have : rneDiv (v.natAbs * 100) one = c.natAbs := by
      apply rneDiv_eq_of_near one_pos
      · have e : ((c.natAbs * one : Nat) : Int) = -(c * (one : Int)) := by
          rw [Int.natCast_mul]; have : (c.natAbs : Int) = -c := by omega
          rw [this]; simp
        generalize c.natAbs * one = q at *
        generalize c * (one : Int) = q' at *
        omega
      · have e : ((c.natAbs * one : Nat) : Int) = -(c * (one : Int)) := by
          rw [Int.natCast_mul]; have : (c.natAbs : Int) = -c := by omega
          rw [this]; simp
        generalize c.natAbs * one = q at *
        generalize c * (one : Int) = q' at *
        omega
    rw [this]; omega
  · rw [decide_eq_false hv]; simp only [signed_false]
    have hc : 0 ≤ c := by
      by_contra hcc
      have : c * (one : Int) ≤ (-1 : Int) * (one : Int) :=
        Int.mul_le_mul_of_nonneg_right (by omega) (Int.natCast_nonneg _)
      omega
    have : rneDiv (v.natAbs * 100) one = c.natAbs := by
      apply rneDiv_eq_of_near one_pos
      · have e : ((c.natAbs * one : Nat) : Int) = c * (one : Int) := by
          rw [Int.natCast_mul]; have : (c.natAbs : Int) = c := by omega
          rw [this]
        generalize c.natAbs * one = q at *
        generalize c * (one : Int) = q' at *
        omega
      · have e : ((c.natAbs * one : Nat) : Int) = c * (one : Int) := by
          rw [Int.natCast_mul]; have : (c.natAbs : Int) = c := by omega
          rw [this]
        generalize c.natAbs * one = q at *
        generalize c * (one : Int) = q' at *
        omega
    rw [this]; omega

/-- `round(y, 2)` is the double for `cents100 y` cents, provided that is in range -/
theorem cent_roundN2_cents100 {y : F64} (hy : y.isFinite = true) (hc : (cents100 y).natAbs ≤ 2 ^ 60) :
    Cent (roundN y 2) (cents100 y) := by
  rw [cent_iff]
  have hb := cv_natAbs_le hc
  have hlt := big_lt_huge
  have hfin : (roundN y 2).isFinite = true :=
    isFinite_of_ev_lt (out_roundN2 hy) (by rw [ev_roundN2 hy]; omega)
  exact ⟨wf_roundN2 hy, hfin, by rw [← ev_eq_sval hfin, ev_roundN2 hy]⟩

theorem cents100_natAbs_le {y : F64} {B : Nat} (h : (sval y).natAbs ≤ B * one) :
    (cents100 y).natAbs ≤ 100 * B + 1 := by
  have he := cents100_err y
  have hop := one_pos
  by_contra hcon
  have h1 : (100 * B + 2) * one ≤ (cents100 y).natAbs * one := Nat.mul_le_mul_right one (by omega)
  have h2 : ((cents100 y) * (one : Int)).natAbs = (cents100 y).natAbs * one := by
    rw [Int.natAbs_mul, Int.natAbs_natCast]
  have e3 : (100 * B + 2) * one = 100 * (B * one) + 2 * one := by ring
  generalize (cents100 y) * (one : Int) = q at *
  generalize (cents100 y).natAbs * one = q' at *
  generalize B * one = b at *
  omega

/-- 2. **every stored money line is cent-valued**: for finite `|x| < 2^50`, `round(x, 2)` is the
double for `c = cents100 x` cents, and `c/100` is within half a cent of `x` (`c` is the exact
round-half-even of `100·x`). -/
theorem cent_roundN2 {x : F64} (hx : x.isFinite = true) (hb : (sval x).natAbs < 2 ^ 50 * one) :
    ∃ c : Int, Cent (roundN x 2) c ∧ 2 * (100 * sval x - c * (one : Int)).natAbs ≤ one := by
  refine ⟨cents100 x, cent_roundN2_cents100 hx ?_, cents100_err x⟩
  have := cents100_natAbs_le (y := x) (B := 2 ^ 50) (by omega)
  have h2 : 100 * 2 ^ 50 + 1 ≤ 2 ^ 60 := by decide
  omega

/-- the rounding step of the bridge: a finite `y` strictly within half a cent of `c/100` rounds to
the double for `c` cents -/
theorem cent_roundN2_of_near {y : F64} {c : Int} (hy : y.isFinite = true) (hc : c.natAbs ≤ 2 ^ 60)
    (h : 2 * (100 * sval y - c * (one : Int)).natAbs < one) : Cent (roundN y 2) c := by
  have := cent_roundN2_cents100 hy (by rw [cents100_of_near h]; exact hc)
  rwa [cents100_of_near h] at this

/-- 6. a cent-valued double is a fixed point of `round(·, 2)`, bit for bit -/
theorem Cent.roundN2 {x : F64} {c : Int} (h : Cent x c) (hc : c.natAbs < 2 ^ 52) : roundN x 2 = x := by
  have hf := h.isFinite
  by_cases h0 : sval x = 0
  · obtain ⟨s, m, e, rfl⟩ := exists_finite hf
    have hm : m * 2 ^ e = 0 := by
      simp only [sval] at h0
      have := congrArg Int.natAbs h0
      rwa [signed_natAbs] at this
    have hm0 : m = 0 := by
      rcases Nat.mul_eq_zero.1 hm with h | h
      · exact h
      · exact absurd h (Nat.ne_of_gt (Nat.two_pow_pos e))
    subst hm0
    obtain ⟨_, _, h3⟩ := (wf_finite_iff ..).1 h.wf
    have he : e = 0 := by
      rcases h3 with h3 | h3
      · exact absurd h3 (by decide)
      · exact h3
    subst he
    cases s
    · exact roundN_zero 2
    · exact roundN_negZero 2
  · have hc100 := h.cents100 hc
    have hcent := cent_roundN2_cents100 hf (by rw [hc100]; omega)
    rw [hc100] at hcent
    apply eq_of_sval_eq hcent.wf h.wf hcent.isFinite hf _ (by rw [hcent.sval_eq, h.sval_eq])
    -- same sign flag: `roundN` keeps the flag of its argument
    obtain ⟨s, m, e, rfl⟩ := exists_finite hf
    rw [roundN_finite_def _ _ _ _ (by decide)]
    have hfin := hcent.isFinite
    rw [roundN_finite_def _ _ _ _ (by decide)] at hfin
    rw [ofScaled_def] at hfin ⊢
    unfold mk at hfin ⊢
    split <;> split <;> simp_all [signBit, isFinite]

/-! ## 3. The bridge for `+` and `-` -/

/-- `x` is finite and `|100·x - c| ≤ w · 2^-53` cents: `x` approximates `c` cents with weight `w`.
(Every cent-valued double of `c` cents has weight `|c| + 1`; a float addition adds the weights of its
operands plus the magnitude of the result.) -/
def Approx (x : F64) (c : Int) (w : Nat) : Prop :=
  x.isFinite = true ∧ 2 ^ 53 * (100 * sval x - c * (one : Int)).natAbs ≤ w * one

theorem Approx.mono {x : F64} {c : Int} {w w' : Nat} (h : Approx x c w) (hw : w ≤ w') :
    Approx x c w' :=
  ⟨h.1, Nat.le_trans h.2 (Nat.mul_le_mul_right one hw)⟩

theorem Cent.approx {a : F64} {ca : Int} (h : Cent a ca) (hc : ca.natAbs ≤ 2 ^ 60) :
    Approx a ca (ca.natAbs + 1) := by
  refine ⟨h.isFinite, ?_⟩
  rw [h.sval_eq]
  have := cv_err hc
  have h60 := two_pow_60_le_one
  have e : (ca.natAbs + 1) * one = ca.natAbs * one + one := by ring
  have e2 : 100 * cv ca = cv ca * 100 := by ring
  rw [e, e2]
  generalize ca.natAbs * one = p at *
  omega

theorem approx_zero : Approx zero 0 0 := by
  refine ⟨rfl, ?_⟩
  simp [sval_zero]

theorem Approx.neg {a : F64} {ca : Int} {wa : Nat} (h : Approx a ca wa) : Approx (neg a) (-ca) wa := by
  refine ⟨by rw [isFinite_neg]; exact h.1, ?_⟩
  have e : 100 * sval (F64.neg a) - -ca * (one : Int) = -(100 * sval a - ca * (one : Int)) := by
    rw [sval_neg]; ring
  rw [e, Int.natAbs_neg]; exact h.2

/-- one float addition in the approximate calculus -/
theorem Approx.add {a b : F64} {ca cb : Int} {wa wb : Nat} (ha : Approx a ca wa) (hb : Approx b cb wb)
    (hca : ca.natAbs ≤ 2 ^ 53) (hcb : cb.natAbs ≤ 2 ^ 53) (hwa : wa ≤ 2 ^ 53) (hwb : wb ≤ 2 ^ 53) :
    Approx (F64.add a b) (ca + cb) (wa + wb + (ca + cb).natAbs + 2) := by
  obtain ⟨fa, ea⟩ := ha
  obtain ⟨fb, eb⟩ := hb
  have h60 := two_pow_60_le_one
  have hop := one_pos
  -- name the products so that everything is linear
  have e1 : (ca + cb) * (one : Int) = ca * (one : Int) + cb * (one : Int) := by ring
  have n1 : (ca * (one : Int)).natAbs = ca.natAbs * one := by rw [Int.natAbs_mul, Int.natAbs_natCast]
  have n2 : (cb * (one : Int)).natAbs = cb.natAbs * one := by rw [Int.natAbs_mul, Int.natAbs_natCast]
  have n3 : ((ca + cb) * (one : Int)).natAbs = (ca + cb).natAbs * one := by
    rw [Int.natAbs_mul, Int.natAbs_natCast]
  have b1 : ca.natAbs * one ≤ 2 ^ 53 * one := Nat.mul_le_mul_right one hca
  have b2 : cb.natAbs * one ≤ 2 ^ 53 * one := Nat.mul_le_mul_right one hcb
  have b3 : wa * one ≤ 2 ^ 53 * one := Nat.mul_le_mul_right one hwa
  have b4 : wb * one ≤ 2 ^ 53 * one := Nat.mul_le_mul_right one hwb
  have e2 : (wa + wb + (ca + cb).natAbs + 2) * one
      = wa * one + wb * one + (ca + cb).natAbs * one + 2 * one := by ring
  rw [e1] at n3
  unfold Approx
  rw [e1, e2, ← n3]
  rw [← n1] at b1
  rw [← n2] at b2
  generalize ca * (one : Int) = pa at *
  generalize cb * (one : Int) = pb at *
  generalize wa * one = Wa at *
  generalize wb * one = Wb at *
  -- the two input errors are below one cent·2^-53 … in particular below `one`
  have hEa : (100 * sval a - pa).natAbs ≤ one := by
    generalize (100 * sval a - pa).natAbs = n at *; omega
  have hEb : (100 * sval b - pb).natAbs ≤ one := by
    generalize (100 * sval b - pb).natAbs = n at *; omega
  -- magnitude of the exact sum
  have t3 : 100 * (sval a + sval b).natAbs
      ≤ (pa + pb).natAbs + (100 * sval a - pa).natAbs + (100 * sval b - pb).natAbs := by omega
  have t4 : (pa + pb).natAbs ≤ pa.natAbs + pb.natAbs := Int.natAbs_add_le _ _
  have hmag : (sval a + sval b).natAbs ≤ 2 ^ 60 * one := by
    generalize (sval a + sval b).natAbs = s at *
    generalize (pa + pb).natAbs = q at *
    generalize (100 * sval a - pa).natAbs = na at *
    generalize (100 * sval b - pb).natAbs = nb at *
    generalize pa.natAbs = qa at *
    generalize pb.natAbs = qb at *
    omega
  obtain ⟨hfin, herr⟩ := add_err fa fb hmag
  refine ⟨hfin, ?_⟩
  have t1 : (100 * sval (F64.add a b) - (pa + pb)).natAbs
      ≤ 100 * (sval (F64.add a b) - (sval a + sval b)).natAbs
        + (100 * sval a - pa).natAbs + (100 * sval b - pb).natAbs := by omega
  generalize (100 * sval (F64.add a b) - (pa + pb)).natAbs = nE at *
  generalize (sval (F64.add a b) - (sval a + sval b)).natAbs = nd at *
  generalize (sval a + sval b).natAbs = s at *
  generalize (pa + pb).natAbs = q at *
  generalize (100 * sval a - pa).natAbs = na at *
  generalize (100 * sval b - pb).natAbs = nb at *
  omega

theorem Approx.sub {a b : F64} {ca cb : Int} {wa wb : Nat} (ha : Approx a ca wa) (hb : Approx b cb wb)
    (hca : ca.natAbs ≤ 2 ^ 53) (hcb : cb.natAbs ≤ 2 ^ 53) (hwa : wa ≤ 2 ^ 53) (hwb : wb ≤ 2 ^ 53) :
    Approx (F64.sub a b) (ca - cb) (wa + wb + (ca - cb).natAbs + 2) := by
  have := Approx.add ha hb.neg hca (by rw [Int.natAbs_neg]; exact hcb) hwa hwb
  rwa [← Int.sub_eq_add_neg] at this

/-- the final `round(·, 2)`: an approximation of weight below `2^52` rounds to the exact cents -/
theorem Approx.round2 {y : F64} {c : Int} {w : Nat} (h : Approx y c w) (hw : w < 2 ^ 52)
    (hc : c.natAbs ≤ 2 ^ 60) : Cent (roundN y 2) c := by
  apply cent_roundN2_of_near h.1 hc
  have h2 := h.2
  have : w * one < 2 ^ 52 * one := Nat.mul_lt_mul_of_pos_right hw one_pos
  generalize w * one = W at *
  omega

/-- 3. **the bridge for `+`**: `round(a + b, 2)` of two cent-valued doubles is the double for
`ca + cb` cents (`|ca|, |cb| ≤ 10^15`, far beyond the target range `10^13`) -/
theorem cent_add {a b : F64} {ca cb : Int} (ha : Cent a ca) (hb : Cent b cb)
    (hca : ca.natAbs ≤ 10 ^ 15) (hcb : cb.natAbs ≤ 10 ^ 15) :
    Cent (roundN (add a b) 2) (ca + cb) := by
  have h := Approx.add (ha.approx (by omega)) (hb.approx (by omega)) (by omega) (by omega)
    (by omega) (by omega)
  exact h.round2 (by omega) (by omega)

/-- 3. **the bridge for `-`** -/
theorem cent_sub {a b : F64} {ca cb : Int} (ha : Cent a ca) (hb : Cent b cb)
    (hca : ca.natAbs ≤ 10 ^ 15) (hcb : cb.natAbs ≤ 10 ^ 15) :
    Cent (roundN (sub a b) 2) (ca - cb) := by
  have h := Approx.sub (ha.approx (by omega)) (hb.approx (by omega)) (by omega) (by omega)
    (by omega) (by omega)
  exact h.round2 (by omega) (by omega)

/-! ### chains `x0 ± t1 ± t2 ± …` with no intermediate rounding -/

theorem budget_step {k B x y : Nat} (hk : 1 ≤ k) (hx : x ≤ B) (hy : y ≤ (k + 1) * B) :
    k * k * (B + 3) + (x + 1) + y + 2 ≤ (k + 1) * (k + 1) * (B + 3) := by
  have h1 : B ≤ k * B := Nat.le_mul_of_pos_left B hk
  nlinarith

/-- a signed term of a chain: `(true, x, c)` is subtracted, `(false, x, c)` is added -/
def chainStep (acc : F64) (t : Bool × F64 × Int) : F64 := if t.1 then sub acc t.2.1 else add acc t.2.1
/-- the signed number of cents of a term -/
def termCents (t : Bool × F64 × Int) : Int := if t.1 then -t.2.2 else t.2.2

theorem approx_chain (B : Nat) (ts : List (Bool × F64 × Int)) :
    ∀ (k : Nat) (acc : F64) (c : Int), 1 ≤ k →
      (∀ t ∈ ts, Approx t.2.1 t.2.2 (B + 1) ∧ t.2.2.natAbs ≤ B) →
      Approx acc c (k * k * (B + 3)) → c.natAbs ≤ k * B →
      (k + ts.length) * (k + ts.length) * (B + 3) < 2 ^ 52 →
      Approx (ts.foldl chainStep acc) (c + (ts.map termCents).sum)
          ((k + ts.length) * (k + ts.length) * (B + 3)) ∧
        (c + (ts.map termCents).sum).natAbs ≤ (k + ts.length) * B := by
  induction ts with
  | nil => intro k acc c _ _ h hc _; simpa using ⟨h, hc⟩
  | cons t ts ih =>
    intro k acc c hk hts h hc hbud
    have ht := hts t (List.mem_cons_self ..)
    have hlen : k + (t :: ts).length = (k + 1) + ts.length := by simp; omega
    rw [hlen] at hbud ⊢
    -- sizes
    have hkk : k * k * (B + 3) ≤ (k + 1 + ts.length) * (k + 1 + ts.length) * (B + 3) :=
      Nat.mul_le_mul_right _ (Nat.mul_le_mul (by omega) (by omega))
    have hkB : k * B ≤ (k + 1 + ts.length) * (k + 1 + ts.length) * (B + 3) := by
      have : k * B ≤ k * k * (B + 3) := by
        have := Nat.le_mul_of_pos_left k hk
        exact Nat.mul_le_mul this (by omega)
      omega
    have hB : B ≤ k * B := Nat.le_mul_of_pos_left B hk
    -- the term, with its sign
    have htc : Approx (if t.1 then neg t.2.1 else t.2.1) (termCents t) (B + 1) := by
      unfold termCents
      have := ht.1
      split
      · exact this.neg
      · exact this
    have hstep : chainStep acc t = add acc (if t.1 then neg t.2.1 else t.2.1) := by
      unfold chainStep sub; split <;> rfl
    have htn : (termCents t).natAbs = t.2.2.natAbs := by
      unfold termCents; split
      · exact Int.natAbs_neg _
      · rfl
    have hadd := Approx.add h htc (by omega) (by omega) (by omega) (by omega)
    have hc' : (c + termCents t).natAbs ≤ (k + 1) * B := by
      have e : (k + 1) * B = k * B + B := by ring
      omega
    have hw' : k * k * (B + 3) + (B + 1) + (c + termCents t).natAbs + 2
        ≤ (k + 1) * (k + 1) * (B + 3) := budget_step hk (Nat.le_refl B) hc'
    have := ih (k + 1) (chainStep acc t) (c + termCents t) (by omega)
      (fun t' ht' => hts t' (List.mem_cons_of_mem _ ht')) (by rw [hstep]; exact hadd.mono hw') hc' hbud
    simpa [List.foldl, Int.add_assoc] using this

/-- 3. **chains**: for cent-valued `x0` and signed cent-valued terms `ts` (each of at most `B` cents),
the left-associated Python expression `x0 ± t1 ± t2 ± …` (no intermediate rounding) rounds to the
exact integer result, provided `(n+1)²·(B+3) < 2^52` where `n` is the number of terms.

NOTE the quadratic budget: each addition has relative error `2^-53` of a partial sum that can be as
large as `(n+1)·B`, so the error grows like `n²·B·2^-53` cents.  The bound asked for in the task
(`n ≤ 64` terms of up to `10^13` cents) is NOT true in general: at `6·10^12` dollars an ulp is about
`0.1` cent and 64 one-sided rounding errors add up to more than half a cent (a concrete
counterexample is in the builder's report and in the `cents` stream).  Valid instances:
`cent_chain_64` (`n ≤ 64`, `B = 10^12`) and `cent_chain_20` (`n ≤ 20`, `B = 10^13`). -/
theorem cent_chain_approx {x0 : F64} {c0 : Int} (B : Nat) (ts : List (Bool × F64 × Int))
    (h0 : Approx x0 c0 (B + 1)) (hc0 : c0.natAbs ≤ B)
    (hts : ∀ t ∈ ts, Approx t.2.1 t.2.2 (B + 1) ∧ t.2.2.natAbs ≤ B)
    (hbud : (ts.length + 1) * (ts.length + 1) * (B + 3) < 2 ^ 52) :
    Cent (roundN (ts.foldl chainStep x0) 2) (c0 + (ts.map termCents).sum) := by
  have hB : B < 2 ^ 52 := by
    have : 1 * 1 * (B + 3) ≤ (ts.length + 1) * (ts.length + 1) * (B + 3) :=
      Nat.mul_le_mul_right _ (Nat.mul_le_mul (by omega) (by omega))
    omega
  have e : 1 + ts.length = ts.length + 1 := by omega
  have h := approx_chain B ts 1 x0 c0 (Nat.le_refl 1) hts
    (h0.mono (by omega)) (by omega) (by rw [e]; exact hbud)
  rw [e] at h
  apply h.1.round2 hbud
  have : (ts.length + 1) * B ≤ (ts.length + 1) * (ts.length + 1) * (B + 3) :=
    Nat.mul_le_mul (Nat.le_mul_of_pos_left _ (by omega)) (by omega)
  have h52 : (2 : Nat) ^ 52 ≤ 2 ^ 60 := by decide
  omega

/-- 3. **chains** of cent-valued terms (the instance of `cent_chain_approx` where every operand is
itself a stored money line) -/
theorem cent_chain {x0 : F64} {c0 : Int} (B : Nat) (ts : List (Bool × F64 × Int))
    (h0 : Cent x0 c0) (hc0 : c0.natAbs ≤ B)
    (hts : ∀ t ∈ ts, Cent t.2.1 t.2.2 ∧ t.2.2.natAbs ≤ B)
    (hbud : (ts.length + 1) * (ts.length + 1) * (B + 3) < 2 ^ 52) :
    Cent (roundN (ts.foldl chainStep x0) 2) (c0 + (ts.map termCents).sum) := by
  have hB : B < 2 ^ 52 := by
    have : 1 * 1 * (B + 3) ≤ (ts.length + 1) * (ts.length + 1) * (B + 3) :=
      Nat.mul_le_mul_right _ (Nat.mul_le_mul (by omega) (by omega))
    omega
  exact cent_chain_approx B ts ((h0.approx (by omega)).mono (by omega)) hc0
    (fun t ht => ⟨((hts t ht).1.approx (by have := (hts t ht).2; omega)).mono
      (by have := (hts t ht).2; omega), (hts t ht).2⟩) hbud

theorem cent_chain_64 {x0 : F64} {c0 : Int} (ts : List (Bool × F64 × Int)) (hn : ts.length ≤ 64)
    (h0 : Cent x0 c0) (hc0 : c0.natAbs ≤ 1000000000000)
    (hts : ∀ t ∈ ts, Cent t.2.1 t.2.2 ∧ t.2.2.natAbs ≤ 1000000000000) :
    Cent (roundN (ts.foldl chainStep x0) 2) (c0 + (ts.map termCents).sum) := by
  apply cent_chain (1000000000000) ts h0 hc0 hts
  have : (ts.length + 1) * (ts.length + 1) ≤ 65 * 65 := Nat.mul_le_mul (by omega) (by omega)
  have := Nat.mul_le_mul_right (1000000000000 + 3) this
  have h3 : 65 * 65 * (1000000000000 + 3) < 2 ^ 52 := by norm_num
  exact Nat.lt_of_le_of_lt this h3

theorem cent_chain_20 {x0 : F64} {c0 : Int} (ts : List (Bool × F64 × Int)) (hn : ts.length ≤ 20)
    (h0 : Cent x0 c0) (hc0 : c0.natAbs ≤ 10000000000000)
    (hts : ∀ t ∈ ts, Cent t.2.1 t.2.2 ∧ t.2.2.natAbs ≤ 10000000000000) :
    Cent (roundN (ts.foldl chainStep x0) 2) (c0 + (ts.map termCents).sum) := by
  apply cent_chain (10000000000000) ts h0 hc0 hts
  have : (ts.length + 1) * (ts.length + 1) ≤ 21 * 21 := Nat.mul_le_mul (by omega) (by omega)
  have := Nat.mul_le_mul_right (10000000000000 + 3) this
  have h3 : 21 * 21 * (10000000000000 + 3) < 2 ^ 52 := by norm_num
  exact Nat.lt_of_le_of_lt this h3

/-- 3. the plain `a + b + c + …` (`List.foldl add`) as the all-plus instance of `cent_chain` -/
theorem cent_foldl_add {x0 : F64} {c0 : Int} (B : Nat) (xs : List (F64 × Int))
    (h0 : Cent x0 c0) (hc0 : c0.natAbs ≤ B) (hxs : ∀ t ∈ xs, Cent t.1 t.2 ∧ t.2.natAbs ≤ B)
    (hbud : (xs.length + 1) * (xs.length + 1) * (B + 3) < 2 ^ 52) :
    Cent (roundN ((xs.map Prod.fst).foldl add x0) 2) (c0 + (xs.map Prod.snd).sum) := by
  have h := cent_chain B (xs.map fun t => (false, t.1, t.2)) h0 hc0
    (by intro t ht; obtain ⟨u, hu, rfl⟩ := List.mem_map.1 ht; exact hxs u hu)
    (by simpa using hbud)
  have e1 : ∀ (l : List (F64 × Int)) (acc : F64),
      (l.map fun t => ((false, t.1, t.2) : Bool × F64 × Int)).foldl chainStep acc
        = (l.map Prod.fst).foldl add acc := by
    intro l; induction l with
    | nil => intro acc; rfl
    | cons t l ih => intro acc; simp only [List.map, List.foldl]; rw [← ih]; rfl
  have e2 : ∀ (l : List (F64 × Int)),
      ((l.map fun t => ((false, t.1, t.2) : Bool × F64 × Int)).map termCents).sum
        = (l.map Prod.snd).sum := by
    intro l; induction l with
    | nil => rfl
    | cons t l ih => simp only [List.map, List.sum_cons]; rw [ih]; rfl
  rwa [e1, e2] at h

/-! ## 4. Order and selection -/

theorem cv_lt {c c' : Int} (hc : c.natAbs < 2 ^ 52) (hc' : c'.natAbs < 2 ^ 52) (h : c < c') :
    cv c < cv c' := by
  have hle := cv_mono (Int.le_of_lt h)
  rcases Int.lt_or_eq_of_le hle with hlt | heq
  · exact hlt
  · exfalso
    have := congrArg cents100I heq
    rw [cents100I_cv hc, cents100I_cv hc'] at this
    omega

theorem cv_lt_iff {c c' : Int} (hc : c.natAbs < 2 ^ 52) (hc' : c'.natAbs < 2 ^ 52) :
    cv c < cv c' ↔ c < c' := by
  constructor
  · intro h
    by_contra hn
    have := cv_mono (Int.not_lt.1 hn)
    omega
  · exact cv_lt hc hc'

theorem cv_le_iff {c c' : Int} (hc : c.natAbs < 2 ^ 52) (hc' : c'.natAbs < 2 ^ 52) :
    cv c ≤ cv c' ↔ c ≤ c' := by
  have := cv_lt_iff hc' hc
  omega

theorem cv_eq_iff {c c' : Int} (hc : c.natAbs < 2 ^ 52) (hc' : c'.natAbs < 2 ^ 52) :
    cv c = cv c' ↔ c = c' := by
  have h1 := cv_le_iff hc hc'
  have h2 := cv_le_iff hc' hc
  omega

/-- 4. `a < b` on cent-valued doubles is `<` on their cents -/
theorem cent_lt {a b : F64} {ca cb : Int} (ha : Cent a ca) (hb : Cent b cb)
    (hca : ca.natAbs < 2 ^ 52) (hcb : cb.natAbs < 2 ^ 52) : lt a b = true ↔ ca < cb := by
  rw [lt_iff_sval ha.isFinite hb.isFinite, ha.sval_eq, hb.sval_eq, cv_lt_iff hca hcb]

/-- 4. `a <= b` on cent-valued doubles is `≤` on their cents -/
theorem cent_le {a b : F64} {ca cb : Int} (ha : Cent a ca) (hb : Cent b cb)
    (hca : ca.natAbs < 2 ^ 52) (hcb : cb.natAbs < 2 ^ 52) : le a b = true ↔ ca ≤ cb := by
  rw [le_iff_sval ha.isFinite hb.isFinite, ha.sval_eq, hb.sval_eq, cv_le_iff hca hcb]

/-- 4. `a == b` on cent-valued doubles is `=` on their cents -/
theorem cent_eq {a b : F64} {ca cb : Int} (ha : Cent a ca) (hb : Cent b cb)
    (hca : ca.natAbs < 2 ^ 52) (hcb : cb.natAbs < 2 ^ 52) : eq a b = true ↔ ca = cb := by
  rw [eq_iff_sval ha.isFinite hb.isFinite, ha.sval_eq, hb.sval_eq, cv_eq_iff hca hcb]

/-- equal cents means the same double, except that `0.0` and `-0.0` are both zero cents -/
theorem Cent.eq_of_ne_zero {a b : F64} {c : Int} (ha : Cent a c) (hb : Cent b c) (hc : c ≠ 0)
    (hcr : c.natAbs < 2 ^ 52) : a = b := by
  apply eq_of_sval_eq ha.wf hb.wf ha.isFinite hb.isFinite _ (by rw [ha.sval_eq, hb.sval_eq])
  -- the sign flags agree because the common exact value is not zero
  have hne : cv c ≠ 0 := by
    intro h0
    have := (cv_eq_iff hcr (by decide : (0 : Int).natAbs < 2 ^ 52)).1 (by rw [h0, cv_zero])
    exact hc this
  have h1 := ha.sval_eq
  have h2 := hb.sval_eq
  obtain ⟨s1, m1, e1, rfl⟩ := exists_finite ha.isFinite
  obtain ⟨s2, m2, e2, rfl⟩ := exists_finite hb.isFinite
  simp only [sval] at h1 h2
  simp only [signBit]
  have b1 := signed_bounds s1 (m1 * 2 ^ e1)
  have b2 := signed_bounds s2 (m2 * 2 ^ e2)
  cases s1 <;> cases s2 <;> simp_all [signed] <;> omega

theorem Cent.eq_centD {a : F64} {c : Int} (ha : Cent a c) (hc : c ≠ 0) (hcr : c.natAbs < 2 ^ 52) :
    a = centD c :=
  ha.eq_of_ne_zero (Cent_centD (by omega)) hc hcr

/-- 4. `max(a, b)` of cent-valued doubles has `max ca cb` cents (on a tie Python returns `a`; equal
cents are the same double up to the sign of zero, so this is harmless) -/
theorem cent_pyMax {a b : F64} {ca cb : Int} (ha : Cent a ca) (hb : Cent b cb)
    (hca : ca.natAbs < 2 ^ 52) (hcb : cb.natAbs < 2 ^ 52) : Cent (pyMax a b) (max ca cb) := by
  unfold pyMax
  have h := cent_lt ha hb hca hcb
  split
  · next hl => rw [Int.max_eq_right (Int.le_of_lt (h.1 hl))]; exact hb
  · next hl => rw [Int.max_eq_left (by have := mt h.2 hl; omega)]; exact ha

/-- 4. `min(a, b)` of cent-valued doubles has `min ca cb` cents -/
theorem cent_pyMin {a b : F64} {ca cb : Int} (ha : Cent a ca) (hb : Cent b cb)
    (hca : ca.natAbs < 2 ^ 52) (hcb : cb.natAbs < 2 ^ 52) : Cent (pyMin a b) (min ca cb) := by
  unfold pyMin
  have h := cent_lt hb ha hcb hca
  split
  · next hl => rw [Int.min_eq_right (Int.le_of_lt (h.1 hl))]; exact hb
  · next hl => rw [Int.min_eq_left (by have := mt h.2 hl; omega)]; exact ha

/-- 4. `max(0.0, a)` -/
theorem cent_pyMax_zero {a : F64} {ca : Int} (ha : Cent a ca) (hca : ca.natAbs < 2 ^ 52) :
    Cent (pyMax zero a) (max 0 ca) := cent_pyMax Cent_zero ha (by decide) hca

theorem cent_pyMax_zero' {a : F64} {ca : Int} (ha : Cent a ca) (hca : ca.natAbs < 2 ^ 52) :
    Cent (pyMax a zero) (max ca 0) := cent_pyMax ha Cent_zero hca (by decide)

theorem cent_pyMin_zero {a : F64} {ca : Int} (ha : Cent a ca) (hca : ca.natAbs < 2 ^ 52) :
    Cent (pyMin zero a) (min 0 ca) := cent_pyMin Cent_zero ha (by decide) hca

/-- whole dollars are exact: the double for `100·n` cents has exact value `n` -/
theorem cv_dollars {n : Int} (h : n.natAbs < 2 ^ 53) : cv (100 * n) = n * (one : Int) := by
  obtain ⟨c, _, hf, hw, hs⟩ := ofInt_exact h
  have := R_exact hf hw (D := 100) (by decide)
  rw [hs] at this
  unfold cv
  have e : 100 * n * (one : Int) = n * (one : Int) * ((100 : Nat) : Int) := by push_cast; ring
  rw [e]; exact this

/-- 4. comparison of a cent-valued double with a Python int `n` (whole dollars), e.g. `x > 0`,
`x <= 250000`: it is the comparison of the cents with `100·n` -/
theorem cent_ltInt {a : F64} {ca : Int} (ha : Cent a ca) (n : Int) (hca : ca.natAbs < 2 ^ 52)
    (hn : (100 * n).natAbs < 2 ^ 52) : ltInt a n = true ↔ ca < 100 * n := by
  rw [ltInt_iff ha.isFinite, ha.sval_eq, ← cv_dollars (by omega), cv_lt_iff hca hn]

theorem cent_leInt {a : F64} {ca : Int} (ha : Cent a ca) (n : Int) (hca : ca.natAbs < 2 ^ 52)
    (hn : (100 * n).natAbs < 2 ^ 52) : leInt a n = true ↔ ca ≤ 100 * n := by
  rw [leInt_iff ha.isFinite, ha.sval_eq, ← cv_dollars (by omega), cv_le_iff hca hn]

theorem cent_gtInt {a : F64} {ca : Int} (ha : Cent a ca) (n : Int) (hca : ca.natAbs < 2 ^ 52)
    (hn : (100 * n).natAbs < 2 ^ 52) : gtInt a n = true ↔ 100 * n < ca := by
  rw [gtInt_iff ha.isFinite, ha.sval_eq, ← cv_dollars (by omega), cv_lt_iff hn hca]

theorem cent_geInt {a : F64} {ca : Int} (ha : Cent a ca) (n : Int) (hca : ca.natAbs < 2 ^ 52)
    (hn : (100 * n).natAbs < 2 ^ 52) : geInt a n = true ↔ 100 * n ≤ ca := by
  rw [geInt_iff ha.isFinite, ha.sval_eq, ← cv_dollars (by omega), cv_le_iff hn hca]

theorem cent_eqInt {a : F64} {ca : Int} (ha : Cent a ca) (n : Int) (hca : ca.natAbs < 2 ^ 52)
    (hn : (100 * n).natAbs < 2 ^ 52) : eqInt a n = true ↔ ca = 100 * n := by
  rw [eqInt_iff ha.isFinite, ha.sval_eq, ← cv_dollars (by omega), cv_eq_iff hca hn]

/-! ## 5. Multiplication by a rate -/

/-- 5. For a cent-valued `a` (`|ca| ≤ 10^13`) and ANY finite double `r` with `|r| ≤ 1024` (a rate, a
fraction, a small factor), `round(a * r, 2)` is cent-valued and its cents `c` satisfy
`|c - ca·r| ≤ 1/2 + 10^-6·(|ca| + 1)`, where `r` is read exactly (`sval r / one`).

This is "a nearest cent up to the float error".  The sharper statement `c = round_half_even(ca·r)` is
NOT true in general: when `ca·r` is within the float error (relative `2^-52`) of a half-integer number
of cents — in particular at exact ties such as `30 * 0.0145`, where `r` is not the decimal `0.0145`
but the nearest double — the float product may fall on the other side of the tie. -/
theorem cent_mul_rate_partial {a r : F64} {ca : Int} (ha : Cent a ca) (hr : r.isFinite = true)
    (hca : ca.natAbs ≤ 10 ^ 13) (hrr : (sval r).natAbs ≤ 2 ^ 10 * one) :
    ∃ c : Int, Cent (roundN (mul a r) 2) c ∧
      2 * 10 ^ 6 * (c * (one : Int) - ca * sval r).natAbs
        ≤ 10 ^ 6 * one + 2 * ((ca.natAbs + 1) * one) := by
  have hop := one_pos
  have h60 := two_pow_60_le_one
  have hfa := ha.isFinite
  have hA := ha.sval_eq
  have hEa0 := cv_err (c := ca) (by omega)
  rw [← hA] at hEa0
  -- names
  have hP : (ca.natAbs + 1) * one = ca.natAbs * one + one := by ring
  generalize hPd : (ca.natAbs + 1) * one = P at *
  have hPle : P ≤ (10 ^ 13 + 1) * one := by
    rw [← hPd]; exact Nat.mul_le_mul_right one (by omega)
  -- input error and magnitude of `a`
  have e0 : sval a * 100 - ca * (one : Int) = 100 * sval a - ca * (one : Int) := by ring
  rw [e0] at hEa0
  have hEa : 2 ^ 53 * (100 * sval a - ca * (one : Int)).natAbs ≤ P := by
    generalize ca.natAbs * one = q at *
    omega
  have nca : (ca * (one : Int)).natAbs = ca.natAbs * one := by rw [Int.natAbs_mul, Int.natAbs_natCast]
  have hnA : 100 * (sval a).natAbs ≤ P := by
    have t : 100 * (sval a).natAbs
        ≤ (ca * (one : Int)).natAbs + (100 * sval a - ca * (one : Int)).natAbs := by omega
    generalize (100 * sval a - ca * (one : Int)).natAbs = nEa at *
    generalize ca * (one : Int) = pa at *
    generalize ca.natAbs * one = q at *
    omega
  -- the exact product is small
  have hprod : 100 * ((sval a).natAbs * (sval r).natAbs) ≤ P * (2 ^ 10 * one) := by
    rw [← Nat.mul_assoc]; exact Nat.mul_le_mul hnA hrr
  have hPK : P * (2 ^ 10 * one) ≤ (10 ^ 13 + 1) * one * (2 ^ 10 * one) := Nat.mul_le_mul_right _ hPle
  have hmag : (sval a * sval r).natAbs ≤ 2 ^ 60 * one * one := by
    rw [Int.natAbs_mul]
    have e : (10 ^ 13 + 1) * one * (2 ^ 10 * one) = (10 ^ 13 + 1) * 2 ^ 10 * (one * one) := by ring
    have e' : 2 ^ 60 * one * one = 2 ^ 60 * (one * one) := by ring
    rw [e] at hPK; rw [e']
    generalize one * one = oo at *
    generalize (sval a).natAbs * (sval r).natAbs = ar at *
    omega
  obtain ⟨hfin, hEm⟩ := mul_err hfa hr hmag
  rw [Int.natAbs_mul] at hEm
  have hEc := cents100_err (mul a r)
  -- the cents of the product
  refine ⟨cents100 (mul a r), ?_, ?_⟩
  · apply cent_roundN2_cents100 hfin
    -- |Y| ≤ 2^50 dollars
    have hY : (sval (mul a r)).natAbs * one ≤ 2 ^ 50 * one * one := by
      have t : (sval (mul a r) * (one : Int)).natAbs
          ≤ (sval (mul a r) * (one : Int) - sval a * sval r).natAbs + (sval a * sval r).natAbs := by
        omega
      rw [Int.natAbs_mul, Int.natAbs_natCast, Int.natAbs_mul] at t
      have e : (10 ^ 13 + 1) * one * (2 ^ 10 * one) = (10 ^ 13 + 1) * 2 ^ 10 * (one * one) := by ring
      have e' : 2 ^ 50 * one * one = 2 ^ 50 * (one * one) := by ring
      have hoo : one ≤ one * one := Nat.le_mul_of_pos_left one hop
      rw [e] at hPK; rw [e']
      generalize one * one = oo at *
      generalize (sval a).natAbs * (sval r).natAbs = ar at *
      generalize (sval (mul a r) * (one : Int) - sval a * sval r).natAbs = nEm at *
      generalize (sval (mul a r)).natAbs * one = yo at *
      omega
    have hY' : (sval (mul a r)).natAbs ≤ 2 ^ 50 * one := Nat.le_of_mul_le_mul_right hY hop
    have := cents100_natAbs_le (y := mul a r) (B := 2 ^ 50) hY'
    have h2 : 100 * 2 ^ 50 + 1 ≤ 2 ^ 60 := by decide
    omega
  · -- (c·one - ca·r)·one = r·Ea + 100·Em - Ec·one
    have hid : (cents100 (mul a r) * (one : Int) - ca * sval r) * (one : Int)
        = sval r * (100 * sval a - ca * (one : Int))
          + 100 * (sval (mul a r) * (one : Int) - sval a * sval r)
          - (100 * sval (mul a r) - cents100 (mul a r) * (one : Int)) * (one : Int) := by ring
    have htri : (cents100 (mul a r) * (one : Int) - ca * sval r).natAbs * one
        ≤ (sval r).natAbs * (100 * sval a - ca * (one : Int)).natAbs
          + 100 * (sval (mul a r) * (one : Int) - sval a * sval r).natAbs
          + (100 * sval (mul a r) - cents100 (mul a r) * (one : Int)).natAbs * one := by
      have h1 : ((cents100 (mul a r) * (one : Int) - ca * sval r) * (one : Int)).natAbs
          = (cents100 (mul a r) * (one : Int) - ca * sval r).natAbs * one := by
        rw [Int.natAbs_mul, Int.natAbs_natCast]
      have h2 : (sval r * (100 * sval a - ca * (one : Int))).natAbs
          = (sval r).natAbs * (100 * sval a - ca * (one : Int)).natAbs := Int.natAbs_mul _ _
      have h3 : ((100 * sval (mul a r) - cents100 (mul a r) * (one : Int)) * (one : Int)).natAbs
          = (100 * sval (mul a r) - cents100 (mul a r) * (one : Int)).natAbs * one := by
        rw [Int.natAbs_mul, Int.natAbs_natCast]
      rw [← h1, hid, ← h2, ← h3]
      generalize sval r * (100 * sval a - ca * (one : Int)) = u1
      generalize sval (mul a r) * (one : Int) - sval a * sval r = u2
      generalize (100 * sval (mul a r) - cents100 (mul a r) * (one : Int)) * (one : Int) = u3
      omega
    -- scale by 2^53 and bound each term
    have k1 : (sval r).natAbs * (2 ^ 53 * (100 * sval a - ca * (one : Int)).natAbs)
        ≤ 2 ^ 10 * one * P := Nat.mul_le_mul hrr hEa
    have k2 : 2 ^ 53 * ((cents100 (mul a r) * (one : Int) - ca * sval r).natAbs * one)
        ≤ (2 ^ 11 * P + 2 ^ 52 * one + 2 ^ 60) * one := by
      have e1 : 2 ^ 53 * ((sval r).natAbs * (100 * sval a - ca * (one : Int)).natAbs)
          = (sval r).natAbs * (2 ^ 53 * (100 * sval a - ca * (one : Int)).natAbs) := by ring
      have e2 : P * (2 ^ 10 * one) = 2 ^ 10 * P * one := by ring
      have e3 : 2 ^ 10 * one * P = 2 ^ 10 * P * one := by ring
      have e4 : (2 ^ 11 * P + 2 ^ 52 * one + 2 ^ 60) * one
          = 2 * (2 ^ 10 * P * one) + 2 ^ 52 * (one * one) + 2 ^ 60 * one := by ring
      have e5 : 2 ^ 53 * ((100 * sval (mul a r) - cents100 (mul a r) * (one : Int)).natAbs * one)
          = 2 ^ 52 * ((2 * (100 * sval (mul a r) - cents100 (mul a r) * (one : Int)).natAbs) * one) := by
        ring
      have hc1 : (2 * (100 * sval (mul a r) - cents100 (mul a r) * (one : Int)).natAbs) * one ≤ one * one :=
        Nat.mul_le_mul_right one hEc
      rw [e2] at hprod; rw [e3] at k1; rw [e4]
      generalize 2 ^ 10 * P * one = PK at *
      generalize one * one = oo at *
      generalize (cents100 (mul a r) * (one : Int) - ca * sval r).natAbs * one = T at *
      generalize (sval r).natAbs * (100 * sval a - ca * (one : Int)).natAbs = x1 at *
      generalize (sval r).natAbs * (2 ^ 53 * (100 * sval a - ca * (one : Int)).natAbs) = x1' at *
      generalize (sval (mul a r) * (one : Int) - sval a * sval r).natAbs = x2 at *
      generalize (100 * sval (mul a r) - cents100 (mul a r) * (one : Int)).natAbs * one = x3 at *
      generalize (2 * (100 * sval (mul a r) - cents100 (mul a r) * (one : Int)).natAbs) * one = x3' at *
      generalize (sval a).natAbs * (sval r).natAbs = ar at *
      omega
    have k3 : 2 ^ 53 * (cents100 (mul a r) * (one : Int) - ca * sval r).natAbs
        ≤ 2 ^ 11 * P + 2 ^ 52 * one + 2 ^ 60 := by
      apply Nat.le_of_mul_le_mul_right _ hop
      rw [Nat.mul_assoc]; exact k2
    generalize (cents100 (mul a r) * (one : Int) - ca * sval r).natAbs = T at *
    omega

/-! ## 6. `sum()` (CPython's Neumaier loop) -/

/-- the compensation term `(f - fl(f + x)) + x` is tiny: at most `6·2^-53·(|f| + |x|)` -/
theorem comp_err {f x : F64} (hf : f.isFinite = true) (hx : x.isFinite = true)
    (hF : (sval f).natAbs ≤ 2 ^ 58 * one) (hX : (sval x).natAbs ≤ 2 ^ 58 * one) :
    (add (sub f (add f x)) x).isFinite = true ∧
      2 ^ 53 * (sval (add (sub f (add f x)) x)).natAbs ≤ 6 * ((sval f).natAbs + (sval x).natAbs) := by
  have hop := one_pos
  have t0 : (sval f + sval x).natAbs ≤ (sval f).natAbs + (sval x).natAbs := Int.natAbs_add_le _ _
  obtain ⟨tfin, te⟩ := add_err hf hx (by omega)
  -- F - T = -X - e1
  have t1 : (sval f - sval (add f x)).natAbs
      ≤ (sval x).natAbs + (sval (add f x) - (sval f + sval x)).natAbs := by omega
  have hFT : (sval f - sval (add f x)).natAbs ≤ 2 ^ 60 * one := by
    generalize (sval f - sval (add f x)).natAbs = a at *
    generalize (sval (add f x) - (sval f + sval x)).natAbs = b at *
    generalize (sval f + sval x).natAbs = c at *
    omega
  obtain ⟨dfin, de⟩ := sub_err hf tfin hFT
  -- D + X = δ - e1
  have t2 : (sval (sub f (add f x)) + sval x).natAbs
      ≤ (sval (add f x) - (sval f + sval x)).natAbs
        + (sval (sub f (add f x)) - (sval f - sval (add f x))).natAbs := by omega
  have hDX : (sval (sub f (add f x)) + sval x).natAbs ≤ 2 ^ 60 * one := by
    generalize (sval (sub f (add f x)) + sval x).natAbs = a at *
    generalize (sval (sub f (add f x)) - (sval f - sval (add f x))).natAbs = b at *
    generalize (sval f - sval (add f x)).natAbs = c at *
    generalize (sval (add f x) - (sval f + sval x)).natAbs = d at *
    generalize (sval f + sval x).natAbs = e at *
    omega
  obtain ⟨gfin, ge⟩ := add_err dfin hx hDX
  refine ⟨gfin, ?_⟩
  have t3 : (sval (add (sub f (add f x)) x)).natAbs
      ≤ (sval (add (sub f (add f x)) x) - (sval (sub f (add f x)) + sval x)).natAbs
        + (sval (sub f (add f x)) + sval x).natAbs := by omega
  generalize (sval (add (sub f (add f x)) x)).natAbs = nG at *
  generalize (sval (add (sub f (add f x)) x) - (sval (sub f (add f x)) + sval x)).natAbs = nGe at *
  generalize (sval (sub f (add f x)) + sval x).natAbs = nDX at *
  generalize (sval (sub f (add f x)) - (sval f - sval (add f x))).natAbs = nd at *
  generalize (sval f - sval (add f x)).natAbs = nFT at *
  generalize (sval (add f x) - (sval f + sval x)).natAbs = ne at *
  generalize (sval f + sval x).natAbs = nS at *
  omega

theorem Approx.natAbs_le {x : F64} {c : Int} {w : Nat} (h : Approx x c w) (hw : w ≤ 2 ^ 53) :
    100 * (sval x).natAbs ≤ (c.natAbs + 1) * one := by
  have h2 := h.2
  have n1 : (c * (one : Int)).natAbs = c.natAbs * one := by rw [Int.natAbs_mul, Int.natAbs_natCast]
  have b : w * one ≤ 2 ^ 53 * one := Nat.mul_le_mul_right one hw
  have e : (c.natAbs + 1) * one = c.natAbs * one + one := by ring
  have t : 100 * (sval x).natAbs ≤ (c * (one : Int)).natAbs + (100 * sval x - c * (one : Int)).natAbs := by
    omega
  rw [e, ← n1]
  generalize (100 * sval x - c * (one : Int)).natAbs = n at *
  generalize (c * (one : Int)).natAbs = q at *
  generalize w * one = W at *
  omega

/-- the compensation term in the approximate calculus: it approximates 0 cents -/
theorem Approx.comp {f x : F64} {cf cx : Int} {wf wx : Nat} (hf : Approx f cf wf) (hx : Approx x cx wx)
    (hcf : cf.natAbs ≤ 2 ^ 53) (hcx : cx.natAbs ≤ 2 ^ 53) (hwf : wf ≤ 2 ^ 53) (hwx : wx ≤ 2 ^ 53) :
    Approx (F64.add (F64.sub f (F64.add f x)) x) 0 (6 * (cf.natAbs + cx.natAbs + 2)) := by
  have h60 := two_pow_60_le_one
  have a1 := hf.natAbs_le hwf
  have a2 := hx.natAbs_le hwx
  have b1 : (cf.natAbs + 1) * one ≤ (2 ^ 53 + 1) * one := Nat.mul_le_mul_right one (by omega)
  have b2 : (cx.natAbs + 1) * one ≤ (2 ^ 53 + 1) * one := Nat.mul_le_mul_right one (by omega)
  obtain ⟨gfin, ge⟩ := comp_err hf.1 hx.1 (by omega) (by omega)
  refine ⟨gfin, ?_⟩
  have e : (6 * (cf.natAbs + cx.natAbs + 2)) * one
      = 6 * ((cf.natAbs + 1) * one + (cx.natAbs + 1) * one) := by ring
  have e0 : 100 * sval (F64.add (F64.sub f (F64.add f x)) x) - 0 * (one : Int)
      = 100 * sval (F64.add (F64.sub f (F64.add f x)) x) := by ring
  rw [e, e0, Int.natAbs_mul]
  have : (100 : Int).natAbs = 100 := rfl
  rw [this]
  generalize (sval (F64.add (F64.sub f (F64.add f x)) x)).natAbs = nG at *
  generalize (cf.natAbs + 1) * one = p1 at *
  generalize (cx.natAbs + 1) * one = p2 at *
  omega

/-- one step of CPython's loop in the approximate calculus -/
theorem Approx.sumStep {f c x : F64} {cf cx : Int} {wf wc wx : Nat}
    (hf : Approx f cf wf) (hc : Approx c 0 wc) (hx : Approx x cx wx)
    (hcf : cf.natAbs ≤ 2 ^ 49) (hcx : cx.natAbs ≤ 2 ^ 49) (hwf : wf ≤ 2 ^ 53) (hwx : wx ≤ 2 ^ 53)
    (hwc : wc ≤ 2 ^ 53) :
    Approx (F64.sumStep f c x).1 (cf + cx) (wf + wx + (cf + cx).natAbs + 2) ∧
    Approx (F64.sumStep f c x).2 0 (wc + 6 * (cf.natAbs + cx.natAbs + 2) + 2) := by
  refine ⟨Approx.add hf hx (by omega) (by omega) hwf hwx, ?_⟩
  have g1 := Approx.comp hf hx (by omega) (by omega) hwf hwx
  have g2 := Approx.comp hx hf (by omega) (by omega) hwx hwf
  rw [F64.add_comm x f] at g2
  have e : cx.natAbs + cf.natAbs + 2 = cf.natAbs + cx.natAbs + 2 := by omega
  rw [e] at g2
  have hw6 : 6 * (cf.natAbs + cx.natAbs + 2) ≤ 2 ^ 53 := by omega
  unfold F64.sumStep
  simp only
  split
  · have := Approx.add hc g1 (by decide) (by decide) hwc hw6
    simpa using this
  · have := Approx.add hc g2 (by decide) (by decide) hwc hw6
    simpa using this

theorem Approx.sumFinish {f c : F64} {cf : Int} {wf wc : Nat} (hf : Approx f cf wf) (hc : Approx c 0 wc)
    (hcf : cf.natAbs ≤ 2 ^ 53) (hwf : wf ≤ 2 ^ 53) (hwc : wc ≤ 2 ^ 53) :
    Approx (F64.sumFinish f c) cf (wf + wc + cf.natAbs + 2) := by
  unfold F64.sumFinish
  split
  · have := Approx.add hf hc hcf (by decide) hwf hwc
    simpa using this
  · exact hf.mono (by omega)

theorem budget_sum {k B x y : Nat} (hk : 1 ≤ k) (hx : x ≤ B) (hy : y ≤ k * B) :
    6 * (k * k * (B + 3)) + 6 * (y + x + 2) + 2 ≤ 6 * ((k + 1) * (k + 1) * (B + 3)) := by
  have h1 : B ≤ k * B := Nat.le_mul_of_pos_left B hk
  nlinarith

theorem budget_step2 {k B x y : Nat} (hk : 1 ≤ k) (hx : x ≤ B) (hy : y ≤ (k + 1) * B) :
    2 * (k * k * (B + 3)) + (x + 1) + y + 2 ≤ 2 * ((k + 1) * (k + 1) * (B + 3)) := by
  have := budget_step hk hx hy
  omega

theorem approx_sumLoop (B : Nat) (xs : List (F64 × Int)) :
    ∀ (k : Nat) (f c : F64) (s : Int), 1 ≤ k → (∀ t ∈ xs, Approx t.1 t.2 (B + 1) ∧ t.2.natAbs ≤ B) →
      Approx f s (2 * (k * k * (B + 3))) → s.natAbs ≤ k * B → Approx c 0 (6 * (k * k * (B + 3))) →
      9 * ((k + xs.length) * (k + xs.length) * (B + 3)) < 2 ^ 52 →
      Approx (sumLoop f c (xs.map Prod.fst)) (s + (xs.map Prod.snd).sum)
          (9 * ((k + xs.length) * (k + xs.length) * (B + 3))) ∧
        (s + (xs.map Prod.snd).sum).natAbs ≤ (k + xs.length) * B := by
  induction xs with
  | nil =>
    intro k f c s hk _ hf hs hc hbud
    simp only [List.length_nil, Nat.add_zero] at hbud ⊢
    have hkB : k * B ≤ k * k * (B + 3) := by
      have := Nat.le_mul_of_pos_left k hk
      exact Nat.mul_le_mul this (by omega)
    have h1 : k ≤ k * k := Nat.le_mul_of_pos_left k hk
    have h2 : k * B ≤ k * k * B := Nat.mul_le_mul_right B h1
    have e : k * k * (B + 3) = k * k * B + 3 * (k * k) := by ring
    have := Approx.sumFinish hf hc (by omega) (by omega) (by omega)
    simp only [List.map, List.sum_nil, Int.add_zero, F64.sumLoop]
    exact ⟨this.mono (by omega), hs⟩
  | cons t xs ih =>
    intro k f c s hk hts hf hs hc hbud
    have ht := hts t (List.mem_cons_self ..)
    have hlen : k + (t :: xs).length = (k + 1) + xs.length := by simp; omega
    rw [hlen] at hbud ⊢
    have hkk : k * k * (B + 3) ≤ (k + 1 + xs.length) * (k + 1 + xs.length) * (B + 3) :=
      Nat.mul_le_mul_right _ (Nat.mul_le_mul (by omega) (by omega))
    have hkB : k * B ≤ k * k * (B + 3) := by
      have := Nat.le_mul_of_pos_left k hk
      exact Nat.mul_le_mul this (by omega)
    have hB : B ≤ k * B := Nat.le_mul_of_pos_left B hk
    have hx := ht.1
    obtain ⟨h1, h2⟩ := Approx.sumStep hf hc hx (by omega) (by omega) (by omega) (by omega) (by omega)
    have hs' : (s + t.2).natAbs ≤ (k + 1) * B := by
      have e : (k + 1) * B = k * B + B := by ring
      omega
    have hw1 : 2 * (k * k * (B + 3)) + (B + 1) + (s + t.2).natAbs + 2
        ≤ 2 * ((k + 1) * (k + 1) * (B + 3)) := budget_step2 hk (Nat.le_refl B) hs'
    have hw2 : 6 * (k * k * (B + 3)) + 6 * (s.natAbs + t.2.natAbs + 2) + 2
        ≤ 6 * ((k + 1) * (k + 1) * (B + 3)) := budget_sum hk ht.2 hs
    have := ih (k + 1) _ _ (s + t.2) (by omega) (fun t' ht' => hts t' (List.mem_cons_of_mem _ ht'))
      (h1.mono hw1) hs' (h2.mono hw2) hbud
    simpa [List.map, F64.sumLoop, Int.add_assoc] using this

/-- 3. `round(sum(xs, start), 2)` (CPython's compensated `sum`) for cent-valued `start` and `xs`
(each at most `B` cents) is the double of the exact integer sum, provided `9·(n+1)²·(B+3) < 2^52`.

PARTIAL: the budget is that of a plain chain (times 9), because the proof only uses that the
compensation term is *small*, not that it is *exact*.  The true Neumaier error is `O(2^-53)` of the
result independently of `n` (so `n = 64`, `B = 10^13` and far beyond do hold in CPython — and the
`cents` stream exercises them), but proving that needs the Fast2Sum exactness theorem
(`(f - fl(f+x)) + x` is computed without rounding when `|f| ≥ |x|`), which is not done here. -/
theorem cent_pySumFrom_approx_partial {x0 : F64} {c0 : Int} (B : Nat) (xs : List (F64 × Int))
    (h0 : Approx x0 c0 (B + 1)) (hc0 : c0.natAbs ≤ B)
    (hxs : ∀ t ∈ xs, Approx t.1 t.2 (B + 1) ∧ t.2.natAbs ≤ B)
    (hbud : 9 * ((xs.length + 1) * (xs.length + 1) * (B + 3)) < 2 ^ 52) :
    Cent (roundN (pySumFrom x0 (xs.map Prod.fst)) 2) (c0 + (xs.map Prod.snd).sum) := by
  have hB : B + 3 < 2 ^ 49 := by
    have : 1 * 1 * (B + 3) ≤ (xs.length + 1) * (xs.length + 1) * (B + 3) :=
      Nat.mul_le_mul_right _ (Nat.mul_le_mul (by omega) (by omega))
    omega
  have e : 1 + xs.length = xs.length + 1 := by omega
  have h := approx_sumLoop B xs 1 x0 zero c0 (Nat.le_refl 1) hxs
    (h0.mono (by omega)) (by omega) (approx_zero.mono (by omega))
    (by rw [e]; exact hbud)
  rw [e] at h
  unfold pySumFrom
  apply h.1.round2 hbud
  have : (xs.length + 1) * B ≤ (xs.length + 1) * (xs.length + 1) * (B + 3) :=
    Nat.mul_le_mul (Nat.le_mul_of_pos_left _ (by omega)) (by omega)
  have h52 : (2 : Nat) ^ 52 ≤ 2 ^ 60 := by decide
  omega

/-- 3. the same for `sum(xs)` of a non-empty list (the int `0` start is added to the first element) -/
theorem cent_pySum_approx_partial {x0 : F64} {c0 : Int} (B : Nat) (xs : List (F64 × Int))
    (h0 : Approx x0 c0 (B + 1)) (hc0 : c0.natAbs ≤ B)
    (hxs : ∀ t ∈ xs, Approx t.1 t.2 (B + 1) ∧ t.2.natAbs ≤ B)
    (hbud : 9 * ((xs.length + 1) * (xs.length + 1) * (B + 3)) < 2 ^ 52) :
    Cent (roundN (pySum (x0 :: xs.map Prod.fst)) 2) (c0 + (xs.map Prod.snd).sum) := by
  have hB : B + 3 < 2 ^ 49 := by
    have : 1 * 1 * (B + 3) ≤ (xs.length + 1) * (xs.length + 1) * (B + 3) :=
      Nat.mul_le_mul_right _ (Nat.mul_le_mul (by omega) (by omega))
    omega
  have e : 1 + xs.length = xs.length + 1 := by omega
  have hstart : Approx (add zero x0) c0 (2 * (1 * 1 * (B + 3))) := by
    have := Approx.add approx_zero h0 (by decide) (by omega) (by decide) (by omega)
    rw [Int.zero_add] at this
    exact this.mono (by omega)
  have h := approx_sumLoop B xs 1 (add zero x0) zero c0 (Nat.le_refl 1) hxs
    hstart (by omega) (approx_zero.mono (by omega)) (by rw [e]; exact hbud)
  rw [e] at h
  unfold pySum pySumFrom
  apply h.1.round2 hbud
  have : (xs.length + 1) * B ≤ (xs.length + 1) * (xs.length + 1) * (B + 3) :=
    Nat.mul_le_mul (Nat.le_mul_of_pos_left _ (by omega)) (by omega)
  have h52 : (2 : Nat) ^ 52 ≤ 2 ^ 60 := by decide
  omega

theorem cents_to_approx {B : Nat} (hB : B < 2 ^ 52) {xs : List (F64 × Int)}
    (hxs : ∀ t ∈ xs, Cent t.1 t.2 ∧ t.2.natAbs ≤ B) :
    ∀ t ∈ xs, Approx t.1 t.2 (B + 1) ∧ t.2.natAbs ≤ B := fun t ht =>
  ⟨((hxs t ht).1.approx (by have := (hxs t ht).2; omega)).mono (by have := (hxs t ht).2; omega),
    (hxs t ht).2⟩

theorem cent_pySumFrom_partial {x0 : F64} {c0 : Int} (B : Nat) (xs : List (F64 × Int))
    (h0 : Cent x0 c0) (hc0 : c0.natAbs ≤ B) (hxs : ∀ t ∈ xs, Cent t.1 t.2 ∧ t.2.natAbs ≤ B)
    (hbud : 9 * ((xs.length + 1) * (xs.length + 1) * (B + 3)) < 2 ^ 52) :
    Cent (roundN (pySumFrom x0 (xs.map Prod.fst)) 2) (c0 + (xs.map Prod.snd).sum) := by
  have hB : B < 2 ^ 49 := by
    have : 1 * 1 * (B + 3) ≤ (xs.length + 1) * (xs.length + 1) * (B + 3) :=
      Nat.mul_le_mul_right _ (Nat.mul_le_mul (by omega) (by omega))
    omega
  exact cent_pySumFrom_approx_partial B xs ((h0.approx (by omega)).mono (by omega)) hc0
    (cents_to_approx (by omega) hxs) hbud

theorem cent_pySum_partial {x0 : F64} {c0 : Int} (B : Nat) (xs : List (F64 × Int))
    (h0 : Cent x0 c0) (hc0 : c0.natAbs ≤ B) (hxs : ∀ t ∈ xs, Cent t.1 t.2 ∧ t.2.natAbs ≤ B)
    (hbud : 9 * ((xs.length + 1) * (xs.length + 1) * (B + 3)) < 2 ^ 52) :
    Cent (roundN (pySum (x0 :: xs.map Prod.fst)) 2) (c0 + (xs.map Prod.snd).sum) := by
  have hB : B < 2 ^ 49 := by
    have : 1 * 1 * (B + 3) ≤ (xs.length + 1) * (xs.length + 1) * (B + 3) :=
      Nat.mul_le_mul_right _ (Nat.mul_le_mul (by omega) (by omega))
    omega
  exact cent_pySum_approx_partial B xs ((h0.approx (by omega)).mono (by omega)) hc0
    (cents_to_approx (by omega) hxs) hbud

theorem cent_pySum_64 {x0 : F64} {c0 : Int} (xs : List (F64 × Int)) (hn : xs.length ≤ 64)
    (h0 : Cent x0 c0) (hc0 : c0.natAbs ≤ 100000000000)
    (hxs : ∀ t ∈ xs, Cent t.1 t.2 ∧ t.2.natAbs ≤ 100000000000) :
    Cent (roundN (pySum (x0 :: xs.map Prod.fst)) 2) (c0 + (xs.map Prod.snd).sum) := by
  apply cent_pySum_partial 100000000000 xs h0 hc0 hxs
  have : (xs.length + 1) * (xs.length + 1) ≤ 65 * 65 := Nat.mul_le_mul (by omega) (by omega)
  have := Nat.mul_le_mul_left 9 (Nat.mul_le_mul_right (100000000000 + 3) this)
  have h3 : 9 * (65 * 65 * (100000000000 + 3)) < 2 ^ 52 := by norm_num
  exact Nat.lt_of_le_of_lt this h3

theorem cent_pySum_20 {x0 : F64} {c0 : Int} (xs : List (F64 × Int)) (hn : xs.length ≤ 20)
    (h0 : Cent x0 c0) (hc0 : c0.natAbs ≤ 1000000000000)
    (hxs : ∀ t ∈ xs, Cent t.1 t.2 ∧ t.2.natAbs ≤ 1000000000000) :
    Cent (roundN (pySum (x0 :: xs.map Prod.fst)) 2) (c0 + (xs.map Prod.snd).sum) := by
  apply cent_pySum_partial 1000000000000 xs h0 hc0 hxs
  have : (xs.length + 1) * (xs.length + 1) ≤ 21 * 21 := Nat.mul_le_mul (by omega) (by omega)
  have := Nat.mul_le_mul_left 9 (Nat.mul_le_mul_right (1000000000000 + 3) this)
  have h3 : 9 * (21 * 21 * (1000000000000 + 3)) < 2 ^ 52 := by norm_num
  exact Nat.lt_of_le_of_lt this h3

/-! ## 7. literals -/

/-- `Cent` is decidable by evaluation, so float literals (thresholds, fixed amounts) are shown
cent-valued by `decide +kernel`; e.g. `3.14` is the double for 314 cents and `0.1 + 0.2` is not
cent-valued although it rounds to one. -/
example : Cent (ofBits 0x40091EB851EB851F) 314 := by decide +kernel
example : centsOf (ofBits 0x40091EB851EB851F) = some 314 := by decide +kernel
example : centsOf (add (ofBits 0x3FB999999999999A) (ofBits 0x3FC999999999999A)) = none := by decide +kernel
example : centsOf (roundN (add (ofBits 0x3FB999999999999A) (ofBits 0x3FC999999999999A)) 2) = some 30 := by
  decide +kernel

/-! ## axioms -/

#print axioms rs_err
#print axioms R_err
#print axioms R_err1
#print axioms R_bound
#print axioms add_err
#print axioms sub_err
#print axioms mul_err
#print axioms centD_eq
#print axioms cent_iff
#print axioms cv_err
#print axioms cents100I_cv
#print axioms Cent_unique
#print axioms centsOf_some
#print axioms Cent.centsOf
#print axioms Cent_zero
#print axioms Cent_negZero
#print axioms Cent_neg
#print axioms Cent_centD
#print axioms eq_of_sval_eq
#print axioms ev_roundN2
#print axioms cents100_err
#print axioms cents100_of_near
#print axioms cent_roundN2_cents100
#print axioms cent_roundN2
#print axioms cent_roundN2_of_near
#print axioms Cent.roundN2
#print axioms Cent.approx
#print axioms Approx.add
#print axioms Approx.sub
#print axioms Approx.neg
#print axioms Approx.round2
#print axioms cent_add
#print axioms cent_sub
#print axioms approx_chain
#print axioms cent_chain_approx
#print axioms cent_chain
#print axioms cent_chain_64
#print axioms cent_chain_20
#print axioms cent_foldl_add
#print axioms cv_lt_iff
#print axioms cv_le_iff
#print axioms cv_eq_iff
#print axioms cent_lt
#print axioms cent_le
#print axioms cent_eq
#print axioms Cent.eq_of_ne_zero
#print axioms Cent.eq_centD
#print axioms cent_pyMax
#print axioms cent_pyMin
#print axioms cent_pyMax_zero
#print axioms cent_pyMax_zero'
#print axioms cent_pyMin_zero
#print axioms cv_dollars
#print axioms cent_ltInt
#print axioms cent_leInt
#print axioms cent_gtInt
#print axioms cent_geInt
#print axioms cent_eqInt
#print axioms cent_mul_rate_partial
#print axioms comp_err
#print axioms Approx.comp
#print axioms Approx.sumStep
#print axioms Approx.sumFinish
#print axioms approx_sumLoop
#print axioms cent_pySumFrom_approx_partial
#print axioms cent_pySum_approx_partial
#print axioms cent_pySumFrom_partial
#print axioms cent_pySum_partial
#print axioms cent_pySum_64
#print axioms cent_pySum_20

end HabuVerif.F64
