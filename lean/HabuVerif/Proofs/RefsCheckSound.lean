import HabuVerif.Dsl.RefsCheck
import HabuVerif.Proofs.DslCatWF
import HabuVerif.Proofs.SolverRefs
/-!
# C10: soundness of the reference check (`Dsl/RefsCheck.lean`)

`yearOK_sound : yearOK y absent = true → Resolves (mkCat y) (fun f => classOf f ∈ absent)` — a year whose every
key pattern passes the check has a catalogue in which every line or input name that ANY line program can read
(`Tree.OccursV` / `Tree.OccursI`, all paths, all stores: `Proofs/DslRefs.lean`, `cat_reads_in_refs`) names a form
the catalogue has, which then has that line / declares that input, or a form of the reviewed list of
deliberately absent ones.  With `Proofs/SolverRefs.lean` this excludes the dangling-name aborts of the solver.

The generated obligations (`Gen/C10_<year>.lean`) use the relative form `c10_of_obligations`: the index of the
year as a literal (`mkIx year = some <literal>`, kernel-evaluated once), one `classRefsOK` fact per class, and —
while some line of the working tree does NOT pass — the list `bad` of excepted (class, line) pairs, giving
`ResolvesExcept … (BadLine year bad)`: the resolution property for every line program but those.

All piece kinds of `Refs.lean` are covered by the proof (`lit`, bounded and unbounded `nat`, `oneOf`, `inst`;
`any` and every shape the checker does not know are answered `false`), over the real `String` semantics of
`KeyPat.Matches` / `splitName` / `nameAndInstance`: the checker computes on ASCII codes, `codes?_sound` links them
to strings through core's UTF-8 encoder.

Sections: ASCII codes and strings; splitting names; what `Resolves` asks of one name (`Res`); the index
describes the year; concrete names; patterns; lines, classes, the year; a non-vacuity example.
-/
set_option autoImplicit false

namespace HabuVerif.Dsl

/-- the string with these code points -/
def strN (ns : List Nat) : String := String.ofList (ns.map Char.ofNat)
def Ascii (ns : List Nat) : Prop := ∀ n ∈ ns, n < 128

theorem allLt128_iff (ns : List Nat) : allLt128 ns = true ↔ Ascii ns := by
  induction ns with
  | nil => simp [allLt128, Ascii]
  | cons n ns ih =>
    simp only [allLt128, Bool.and_eq_true, ih, Ascii, List.mem_cons, forall_eq_or_imp]
    have : Nat.blt n 128 = true ↔ n < 128 := by simp [Nat.blt]; omega
    rw [this]

theorem encodeChar_head (c : Char) :
    (∃ b, String.utf8EncodeChar c = [b] ∧ b.toNat = c.toNat ∧ c.toNat < 128) ∨
    (∃ b bs, String.utf8EncodeChar c = b :: bs ∧ 128 ≤ b.toNat) := by
  have hv : c.val.toNat = c.toNat := rfl
  by_cases h : c.toNat ≤ 0x7f
  · left
    refine ⟨UInt8.ofNat c.toNat, ?_, ?_, ?_⟩
    · unfold String.utf8EncodeChar
      simp only [hv, h, if_true]
    · rw [UInt8.toNat_ofNat']; omega
    · omega
  · right
    unfold String.utf8EncodeChar
    simp only [hv, h, if_false]
    split
    · exact ⟨_, _, rfl, by rw [UInt8.toNat_ofNat']; omega⟩
    · split
      · exact ⟨_, _, rfl, by rw [UInt8.toNat_ofNat']; omega⟩
      · exact ⟨_, _, rfl, by rw [UInt8.toNat_ofNat']; omega⟩

theorem flatMap_ascii (l : List Char)
    (h : Ascii ((l.flatMap String.utf8EncodeChar).map UInt8.toNat)) :
    l = ((l.flatMap String.utf8EncodeChar).map UInt8.toNat).map Char.ofNat := by
  induction l with
  | nil => simp
  | cons c cs ih =>
    rcases encodeChar_head c with ⟨b, hb, hbn, _⟩ | ⟨b, bs, hb, hge⟩
    · simp only [List.flatMap_cons, hb, List.cons_append, List.nil_append, List.map_cons] at h ⊢
      have h' : Ascii ((cs.flatMap String.utf8EncodeChar).map UInt8.toNat) := fun n hn => h n (List.mem_cons_of_mem _ hn)
      rw [← ih h', hbn, Char.ofNat_toNat]
    · exfalso
      simp only [List.flatMap_cons, hb, List.cons_append, List.map_cons] at h
      have := h b.toNat List.mem_cons_self
      omega

theorem codes?_sound {s : String} {ns : List Nat} (h : codes? s = some ns) : s = strN ns ∧ Ascii ns := by
  unfold codes? at h
  split at h
  · rename_i hall
    simp only [Option.some.injEq] at h
    subst h
    have ha := (allLt128_iff _).1 hall
    refine ⟨?_, ha⟩
    have hb : s.toByteArray.data.toList = s.toList.flatMap String.utf8EncodeChar := by
      rw [← String.utf8Encode_toList]
      simp [List.utf8Encode]
    rw [hb] at ha ⊢
    have := flatMap_ascii s.toList ha
    unfold strN
    rw [← this, String.ofList_toList]
  · exact absurd h (by simp)

theorem toNat_ofNat_ascii : ∀ n, n < 128 → (Char.ofNat n).toNat = n := by decide

theorem ofNat_inj_ascii {a b : Nat} (ha : a < 128) (hb : b < 128) (h : Char.ofNat a = Char.ofNat b) : a = b := by
  rw [← toNat_ofNat_ascii a ha, ← toNat_ofNat_ascii b hb, h]

theorem Ascii.cons {n : Nat} {ns : List Nat} (h : Ascii (n :: ns)) : n < 128 ∧ Ascii ns :=
  ⟨h n List.mem_cons_self, fun m hm => h m (List.mem_cons_of_mem _ hm)⟩

theorem Ascii.append {a b : List Nat} (ha : Ascii a) (hb : Ascii b) : Ascii (a ++ b) := by
  intro n hn
  rcases List.mem_append.1 hn with h | h
  · exact ha n h
  · exact hb n h

theorem Ascii.left {a b : List Nat} (h : Ascii (a ++ b)) : Ascii a :=
  fun n hn => h n (List.mem_append_left _ hn)

theorem Ascii.right {a b : List Nat} (h : Ascii (a ++ b)) : Ascii b :=
  fun n hn => h n (List.mem_append_right _ hn)

theorem map_ofNat_inj {a b : List Nat} (ha : Ascii a) (hb : Ascii b)
    (h : a.map Char.ofNat = b.map Char.ofNat) : a = b := by
  induction a generalizing b with
  | nil => cases b with
    | nil => rfl
    | cons y ys => simp at h
  | cons x xs ih =>
    cases b with
    | nil => simp at h
    | cons y ys =>
      simp only [List.map_cons, List.cons.injEq] at h
      obtain ⟨hx, hxs⟩ := ha.cons
      obtain ⟨hy, hys⟩ := hb.cons
      rw [ofNat_inj_ascii hx hy h.1, ih hxs hys h.2]

theorem strN_inj {a b : List Nat} (ha : Ascii a) (hb : Ascii b) (h : strN a = strN b) : a = b :=
  map_ofNat_inj ha hb (String.ofList_injective h)

theorem strN_toList (ns : List Nat) : (strN ns).toList = ns.map Char.ofNat := String.toList_ofList

theorem strN_append (a b : List Nat) : strN (a ++ b) = strN a ++ strN b := by
  simp [strN, String.ofList_append]

theorem strN_dot : strN [46] = "." := by decide
theorem strN_colon : strN [58] = ":" := by decide

theorem mem_map_ofNat {ns : List Nat} (h : Ascii ns) {x : Nat} (hx : x < 128) :
    Char.ofNat x ∈ ns.map Char.ofNat ↔ x ∈ ns := by
  constructor
  · intro hm
    obtain ⟨y, hy, he⟩ := List.mem_map.1 hm
    rw [← ofNat_inj_ascii (h y hy) hx he]; exact hy
  · exact fun hm => List.mem_map.2 ⟨x, hm, rfl⟩

/-- `x in name` computed on codes -/
theorem contains_strN {ns : List Nat} (h : Ascii ns) {x : Nat} (hx : x < 128) :
    (strN ns).toList.contains (Char.ofNat x) = ns.contains x := by
  rw [strN_toList, Bool.eq_iff_iff, List.contains_iff_mem, List.contains_iff_mem]
  exact mem_map_ofNat h hx

theorem nameOk_strN {ns : List Nat} (h : Ascii ns) : nameOk (strN ns) = nameOkN ns := by
  unfold nameOk nameOkN
  have : '.' = Char.ofNat 46 := by decide
  rw [this, contains_strN h (by omega)]

/-! ## splitting a list of characters -/

theorem go_none (ch : Char) (xs acc : List Char) (h : ch ∉ xs) :
    splitOnChar.go ch acc xs = [acc.reverse ++ xs] := by
  induction xs generalizing acc with
  | nil => simp [splitOnChar.go]
  | cons d ds ih =>
    have hd : (d == ch) = false := by
      simp only [beq_eq_false_iff_ne, ne_eq]; intro e; exact h (e ▸ List.mem_cons_self)
    rw [splitOnChar.go, if_neg (by simp [hd]), ih _ (fun hm => h (List.mem_cons_of_mem _ hm))]
    simp

theorem go_one (ch : Char) (xs ys acc : List Char) (hx : ch ∉ xs) (hy : ch ∉ ys) :
    splitOnChar.go ch acc (xs ++ ch :: ys) = [acc.reverse ++ xs, ys] := by
  induction xs generalizing acc with
  | nil =>
    rw [List.nil_append, splitOnChar.go, if_pos (by simp), go_none ch ys [] hy]
    simp
  | cons d ds ih =>
    have hd : (d == ch) = false := by
      simp only [beq_eq_false_iff_ne, ne_eq]; intro e; exact hx (e ▸ List.mem_cons_self)
    rw [List.cons_append, splitOnChar.go, if_neg (by simp [hd]), ih _ (fun hm => hx (List.mem_cons_of_mem _ hm))]
    simp

/-- the pieces, joined with the separator, give the text back -/
theorem go_ne_nil (ch : Char) (xs acc : List Char) : splitOnChar.go ch acc xs ≠ [] := by
  induction xs generalizing acc with
  | nil => simp [splitOnChar.go]
  | cons d ds ih =>
    rw [splitOnChar.go]
    split
    · simp
    · exact ih _

theorem go_join (ch : Char) (xs acc : List Char) :
    ((splitOnChar.go ch acc xs).intersperse [ch]).flatten = acc.reverse ++ xs := by
  induction xs generalizing acc with
  | nil => simp [splitOnChar.go]
  | cons d ds ih =>
    rw [splitOnChar.go]
    split
    · rename_i hd
      have : d = ch := by simpa using hd
      subst this
      have h2 := ih []
      cases hg : splitOnChar.go d [] ds with
      | nil => exact absurd hg (go_ne_nil _ _ _)
      | cons g gs =>
        rw [hg] at h2
        simp only [List.reverse_nil, List.nil_append] at h2
        simp only [List.intersperse_cons_cons, List.flatten_cons]
        rw [h2]; simp
    · rw [ih]; simp

theorem toList_colon : ":".toList = [':'] := by decide
theorem toList_dot : ".".toList = ['.'] := by decide

theorem nameAndInstance_plain (c : String) (h : ':' ∉ c.toList) : nameAndInstance c = some (c, none) := by
  unfold nameAndInstance splitOnChar
  rw [go_none ':' _ [] h]
  simp [String.ofList_toList]

theorem nameAndInstance_inst (c i : String) (hc : ':' ∉ c.toList) (hi : ':' ∉ i.toList) :
    nameAndInstance (c ++ ":" ++ i) = some (c, some i) := by
  unfold nameAndInstance splitOnChar
  have hl : (c ++ ":" ++ i).toList = c.toList ++ ':' :: i.toList := by
    rw [String.toList_append, String.toList_append, toList_colon]; simp
  rw [hl, go_one ':' _ _ [] hc hi]
  simp [String.ofList_toList]

theorem nameAndInstance_formName {f cn : String} {inst : Option String}
    (h : nameAndInstance f = some (cn, inst)) : f = formName cn inst := by
  unfold nameAndInstance splitOnChar at h
  have hj := go_join ':' f.toList []
  cases hg : splitOnChar.go ':' [] f.toList with
  | nil => exact absurd hg (go_ne_nil _ _ _)
  | cons a as =>
    rw [hg] at h hj
    cases as with
    | nil =>
      simp only [List.map_cons, List.map_nil, Option.some.injEq, Prod.mk.injEq] at h
      obtain ⟨rfl, rfl⟩ := h
      simp at hj
      simp [formName, hj, String.ofList_toList]
    | cons b bs =>
      cases bs with
      | nil =>
        simp only [List.map_cons, List.map_nil, Option.some.injEq, Prod.mk.injEq] at h
        obtain ⟨rfl, rfl⟩ := h
        simp at hj
        simp only [formName]
        rw [← String.toList_inj, String.toList_append, String.toList_append, toList_colon,
          String.toList_ofList, String.toList_ofList, ← hj]
        simp
      | cons d ds => simp at h

theorem classOf_formName (cn : String) (inst : Option String) (h : ':' ∉ cn.toList) :
    classOf (formName cn inst) = cn := by
  have key : ∀ (xs ys : List Char), ':' ∉ xs → (xs ++ ':' :: ys).takeWhile (· != ':') = xs := by
    intro xs ys hx
    induction xs with
    | nil => simp
    | cons d ds ih =>
      have hd : d ≠ ':' := fun e => hx (e ▸ List.mem_cons_self)
      simp [hd, ih (fun hm => hx (List.mem_cons_of_mem _ hm))]
  have key0 : ∀ (xs : List Char), ':' ∉ xs → xs.takeWhile (· != ':') = xs := by
    intro xs hx
    induction xs with
    | nil => simp
    | cons d ds ih =>
      have hd : d ≠ ':' := fun e => hx (e ▸ List.mem_cons_self)
      simp [hd, ih (fun hm => hx (List.mem_cons_of_mem _ hm))]
  unfold classOf formName
  cases inst with
  | none => simp only; rw [key0 _ h, String.ofList_toList]
  | some i =>
    simp only
    have hl : (cn ++ ":" ++ i).toList = cn.toList ++ ':' :: i.toList := by
      rw [String.toList_append, String.toList_append, toList_colon]; simp
    rw [hl, key _ _ h, String.ofList_toList]

end HabuVerif.Dsl

namespace HabuVerif.Dsl
open HabuVerif

/-! ## what `Resolves` asks of one name -/

/-- the line names (`v`) or input names of a class -/
def ClassDecl.namesOf (c : ClassDecl) (v : Bool) : List String :=
  if v then c.lines.map (·.name) else c.inputs.map (·.name)

/-- `m` (read as a line name when `v`, as an input name otherwise) names a form of the catalogue that has it,
or a deliberately absent form -/
def Res (y : YearDecl) (absent : List String) (v : Bool) (m : String) : Prop :=
  ∃ f, (splitName m).map (·.1) = some f ∧
    (((mkCat y).status f = .ok ∧ m ∈ (if v then (mkCat y).fields f else (mkCat y).inputs f)) ∨
     ((mkCat y).status f = .unsupported ∧ classOf f ∈ absent))

theorem status_ok_of_resolve {y : YearDecl} {f : String} {c : ClassDecl} {inst : Option String}
    (h : y.resolveForm f = some (c, inst)) : (mkCat y).status f = .ok := by
  unfold YearDecl.resolveForm resolveIn at h
  simp only [mkCat, mkCatOf]
  split at h
  · exact absurd h (by simp)
  · rename_i hf
    split at h
    · exact absurd h (by simp)
    · rename_i cn inst' hni
      split at h
      · exact absurd h (by simp)
      · rename_i c' ok hl
        split at h
        · rename_i hc
          simp only [Bool.and_eq_true] at hc
          have hf' : nameOk f = true := by simpa using hf
          simp [hf', hc.1, hc.2]
        · exact absurd h (by simp)

/-- anatomy of a successful `resolveForm` -/
theorem resolve_parts {y : YearDecl} {f : String} {c : ClassDecl} {inst : Option String}
    (h : y.resolveForm f = some (c, inst)) :
    nameOk f = true ∧ f = formName c.name inst ∧ c ∈ y.classes ∧ c.namesOk = true ∧
      c.instRule.accepts inst = true ∧ y.formMap.lookup c.name = some (c, c.namesOk) := by
  unfold YearDecl.resolveForm resolveIn at h
  split at h
  · exact absurd h (by simp)
  · rename_i hf
    split at h
    · exact absurd h (by simp)
    · rename_i cn inst' hni
      split at h
      · exact absurd h (by simp)
      · rename_i c' ok hl
        split at h
        · rename_i hc
          simp only [Option.some.injEq, Prod.mk.injEq] at h
          obtain ⟨rfl, rfl⟩ := h
          simp only [Bool.and_eq_true] at hc
          have hmem := mem_of_lookup hl
          simp only [YearDecl.formMap, List.mem_map, List.mem_reverse, Prod.mk.injEq] at hmem
          obtain ⟨c0, hc0, h1, h2, h3⟩ := hmem
          subst h2
          subst h1
          refine ⟨by simpa using hf, nameAndInstance_formName hni, hc0, ?_, hc.1, ?_⟩
          · rw [h3]; exact hc.2
          · rw [hl, h3]
        · exact absurd h (by simp)

theorem res_ok {y : YearDecl} {absent : List String} {v : Bool} {f k : String} {c : ClassDecl}
    {inst : Option String} (h : y.resolveForm f = some (c, inst)) (hk : k ∈ c.namesOf v) :
    Res y absent v (f ++ "." ++ k) := by
  obtain ⟨hf, _, _, hok, _, _⟩ := resolve_parts h
  have hkOk : nameOk k = true := by
    unfold ClassDecl.namesOf at hk
    cases v with
    | true =>
      simp only [if_true, List.mem_map] at hk
      obtain ⟨d, hd, rfl⟩ := hk
      exact namesOk_line hok hd
    | false =>
      simp only [Bool.false_eq_true, if_false, List.mem_map] at hk
      obtain ⟨d, hd, rfl⟩ := hk
      exact namesOk_input hok hd
  refine ⟨f, by rw [splitName_join f k hf hkOk]; rfl, Or.inl ⟨status_ok_of_resolve h, ?_⟩⟩
  have hr : resolveIn y.formMap f = some (c, inst) := h
  unfold ClassDecl.namesOf at hk
  cases v with
  | true =>
    simp only [if_true, List.mem_map] at hk ⊢
    obtain ⟨d, hd, rfl⟩ := hk
    simp only [mkCat, mkCatOf, hr, List.mem_map]
    exact ⟨d, hd, rfl⟩
  | false =>
    simp only [Bool.false_eq_true, if_false, List.mem_map] at hk ⊢
    obtain ⟨d, hd, rfl⟩ := hk
    simp only [mkCat, mkCatOf, hr, List.mem_map]
    exact ⟨d, hd, rfl⟩

theorem res_absent {y : YearDecl} {absent : List String} {v : Bool} {f k cn : String} {inst : Option String}
    (hf : nameOk f = true) (hk : nameOk k = true) (hni : nameAndInstance f = some (cn, inst))
    (hl : y.formMap.lookup cn = none) (ha : classOf f ∈ absent) : Res y absent v (f ++ "." ++ k) := by
  refine ⟨f, by rw [splitName_join f k hf hk]; rfl, Or.inr ⟨?_, ha⟩⟩
  simp only [mkCat, mkCatOf, hni, hl]

end HabuVerif.Dsl

namespace HabuVerif.Dsl
open HabuVerif

/-! ## the index describes the year -/

theorem codesAll?_sound {ss : List String} {ns : List (List Nat)} (h : codesAll? ss = some ns) :
    ss = ns.map strN ∧ ∀ n ∈ ns, Ascii n := by
  induction ss generalizing ns with
  | nil =>
    simp only [codesAll?, Option.some.injEq] at h
    subst h
    simp
  | cons s ss ih =>
    simp only [codesAll?] at h
    cases hs : codes? s with
    | none => simp [hs] at h
    | some n =>
      cases hss : codesAll? ss with
      | none => simp [hs, hss] at h
      | some ns' =>
        simp only [hs, hss, Option.some.injEq] at h
        subst h
        obtain ⟨h1, h2⟩ := codes?_sound hs
        obtain ⟨h3, h4⟩ := ih hss
        refine ⟨by simp [← h1, ← h3], ?_⟩
        intro m hm
        rcases List.mem_cons.1 hm with rfl | hm
        · exact h2
        · exact h4 m hm

theorem all_nameOk_strN {ns : List (List Nat)} (h : ∀ n ∈ ns, Ascii n) :
    (ns.map strN).all nameOk = ns.all nameOkN := by
  induction ns with
  | nil => rfl
  | cons n ns ih =>
    simp only [List.map_cons, List.all_cons]
    rw [nameOk_strN (h n List.mem_cons_self), ih (fun m hm => h m (List.mem_cons_of_mem _ hm))]

structure EntryOf (c : ClassDecl) (e : ClassIx) : Prop where
  name : c.name = strN e.name
  nameA : Ascii e.name
  lines : c.lines.map (·.name) = e.lines.map strN
  linesA : ∀ n ∈ e.lines, Ascii n
  inputs : c.inputs.map (·.name) = e.inputs.map strN
  inputsA : ∀ n ∈ e.inputs, Ascii n
  ok : e.ok = c.namesOk
  inst : (e.anyInst = true ∧ c.instRule = .any) ∨
    (e.anyInst = false ∧ c.instRule = .oneOf (e.insts.map strN) ∧ ∀ n ∈ e.insts, Ascii n)

theorem namesOk_eq (c : ClassDecl) {n : List Nat} {ls is : List (List Nat)}
    (h1 : c.name = strN n) (h1a : Ascii n) (h2 : c.lines.map (·.name) = ls.map strN) (h2a : ∀ n ∈ ls, Ascii n)
    (h3 : c.inputs.map (·.name) = is.map strN) (h3a : ∀ n ∈ is, Ascii n) :
    (nameOkN n && ls.all nameOkN && is.all nameOkN) = c.namesOk := by
  unfold ClassDecl.namesOk
  have e1 : c.lines.all (fun d => nameOk d.name) = (c.lines.map (·.name)).all nameOk := by
    rw [List.all_map]; rfl
  have e2 : c.inputs.all (fun d => nameOk d.name) = (c.inputs.map (·.name)).all nameOk := by
    rw [List.all_map]; rfl
  rw [e1, e2, h2, h3, all_nameOk_strN h2a, all_nameOk_strN h3a, h1, nameOk_strN h1a]

theorem entryOf_of_ix? {c : ClassDecl} {e : ClassIx} (h : c.ix? = some e) : EntryOf c e := by
  unfold ClassDecl.ix? at h
  cases hn : codes? c.name with
  | none => simp [hn] at h
  | some n =>
    cases hl : codesAll? (c.lines.map (·.name)) with
    | none => simp [hn, hl] at h
    | some ls =>
      cases hi : codesAll? (c.inputs.map (·.name)) with
      | none => simp [hn, hl, hi] at h
      | some is =>
        simp only [hn, hl, hi] at h
        obtain ⟨h1, h1a⟩ := codes?_sound hn
        obtain ⟨h2, h2a⟩ := codesAll?_sound hl
        obtain ⟨h3, h3a⟩ := codesAll?_sound hi
        have hok := namesOk_eq c h1 h1a h2 h2a h3 h3a
        cases hr : c.instRule with
        | any =>
          simp only [hr, Option.some.injEq] at h
          subst h
          exact ⟨h1, h1a, h2, h2a, h3, h3a, hok, Or.inl ⟨rfl, hr⟩⟩
        | oneOf xs =>
          simp only [hr] at h
          cases hx : codesAll? xs with
          | none => simp [hx] at h
          | some xs' =>
            simp only [hx, Option.some.injEq] at h
            subst h
            obtain ⟨h4, h4a⟩ := codesAll?_sound hx
            exact ⟨h1, h1a, h2, h2a, h3, h3a, hok, Or.inr ⟨rfl, by rw [hr, h4], h4a⟩⟩

/-- the entry's names are the class's names -/
theorem EntryOf.names {c : ClassDecl} {e : ClassIx} (h : EntryOf c e) (v : Bool) :
    c.namesOf v = (e.names v).map strN ∧ ∀ n ∈ e.names v, Ascii n := by
  unfold ClassDecl.namesOf ClassIx.names
  cases v with
  | true => exact ⟨h.lines, h.linesA⟩
  | false => exact ⟨h.inputs, h.inputsA⟩

theorem EntryOf.mem_names {c : ClassDecl} {e : ClassIx} (h : EntryOf c e) {v : Bool} {k : List Nat}
    (hk : (e.names v).contains k = true) : strN k ∈ c.namesOf v := by
  rw [(h.names v).1]
  exact List.mem_map.2 ⟨k, by simpa using hk, rfl⟩

theorem beq_strN {a b : List Nat} (ha : Ascii a) (hb : Ascii b) : (strN a == strN b) = (a == b) := by
  rw [Bool.eq_iff_iff]
  simp only [beq_iff_eq]
  exact ⟨strN_inj ha hb, fun h => h ▸ rfl⟩

/-- looking a class name up in the index and in the form map agree -/
theorem lookup_corr {cs : List ClassDecl} {ix : YearIx} (h : ixAll? cs = some ix) {cn : List Nat}
    (hcn : Ascii cn) :
    (lookupIx ix cn = none ∧ (cs.map fun c => (c.name, c, c.namesOk)).lookup (strN cn) = none) ∨
    (∃ e c, lookupIx ix cn = some e ∧
      (cs.map fun c => (c.name, c, c.namesOk)).lookup (strN cn) = some (c, c.namesOk) ∧ EntryOf c e) := by
  induction cs generalizing ix with
  | nil =>
    simp only [ixAll?, Option.some.injEq] at h
    subst h
    left; exact ⟨rfl, rfl⟩
  | cons c cs ih =>
    simp only [ixAll?] at h
    cases hc : c.ix? with
    | none => simp [hc] at h
    | some e =>
      cases hcs : ixAll? cs with
      | none => simp [hc, hcs] at h
      | some es =>
        simp only [hc, hcs, Option.some.injEq] at h
        subst h
        have he := entryOf_of_ix? hc
        simp only [lookupIx, List.map_cons, List.lookup_cons]
        rw [he.name, beq_strN hcn he.nameA]
        cases hb : cn == e.name with
        | true =>
          right
          exact ⟨e, c, by simp, by simp, he⟩
        | false =>
          simp only [Bool.false_eq_true, if_false]
          exact ih hcs

theorem lookup_corr_year {y : YearDecl} {ix : YearIx} (h : mkIx y = some ix) {cn : List Nat} (hcn : Ascii cn) :
    (lookupIx ix cn = none ∧ y.formMap.lookup (strN cn) = none) ∨
    (∃ e c, lookupIx ix cn = some e ∧ y.formMap.lookup (strN cn) = some (c, c.namesOk) ∧ EntryOf c e) :=
  lookup_corr h hcn

end HabuVerif.Dsl

namespace HabuVerif.Dsl
open HabuVerif

/-! ## concrete names -/

/-- the environment describes year `y` and the list of deliberately absent forms -/
structure EnvOf (y : YearDecl) (absent : List String) (E : CEnv) : Prop where
  ix : mkIx y = some E.ix
  abs : codesAll? absent = some E.absent

theorem mkEnv_envOf {y : YearDecl} {absent : List String} {E : CEnv} (h : mkEnv y absent = some E) :
    EnvOf y absent E := by
  unfold mkEnv at h
  cases hi : mkIx y with
  | none => simp [hi] at h
  | some ix =>
    cases ha : codesAll? absent with
    | none => simp [hi, ha] at h
    | some a =>
      simp only [hi, ha, Option.some.injEq] at h
      subst h
      exact ⟨hi, ha⟩

theorem EnvOf.absent_mem {y : YearDecl} {absent : List String} {E : CEnv} (hE : EnvOf y absent E)
    {cn : List Nat} (h : E.absent.contains cn = true) : strN cn ∈ absent := by
  rw [(codesAll?_sound hE.abs).1]
  exact List.mem_map.2 ⟨cn, by simpa using h, rfl⟩

theorem splitAtN_some {x : Nat} {l a b : List Nat} (h : splitAtN x l = some (a, b)) :
    l = a ++ x :: b ∧ x ∉ a := by
  induction l generalizing a b with
  | nil => simp [splitAtN] at h
  | cons c cs ih =>
    simp only [splitAtN] at h
    split at h
    · rename_i hc
      have : c = x := by simpa using hc
      simp only [Option.some.injEq, Prod.mk.injEq] at h
      obtain ⟨rfl, rfl⟩ := h
      simp [this]
    · rename_i hc
      cases hs : splitAtN x cs with
      | none => simp [hs] at h
      | some lr =>
        obtain ⟨l, r⟩ := lr
        simp only [hs, Option.some.injEq, Prod.mk.injEq] at h
        obtain ⟨rfl, rfl⟩ := h
        obtain ⟨h1, h2⟩ := ih hs
        refine ⟨by simp [h1], ?_⟩
        intro hm
        rcases List.mem_cons.1 hm with e | hm
        · exact hc (by simp [e])
        · exact h2 hm

theorem splitAtN_none {x : Nat} {l : List Nat} (h : splitAtN x l = none) : x ∉ l := by
  induction l with
  | nil => simp
  | cons c cs ih =>
    simp only [splitAtN] at h
    split at h
    · simp at h
    · rename_i hc
      cases hs : splitAtN x cs with
      | none =>
        intro hm
        rcases List.mem_cons.1 hm with e | hm
        · exact hc (by simp [e])
        · exact ih hs hm
      | some lr => simp [hs] at h

theorem not_mem_strN {ns : List Nat} (h : Ascii ns) {x : Nat} (hx : x < 128) (hn : x ∉ ns) :
    Char.ofNat x ∉ (strN ns).toList := by
  rw [strN_toList, mem_map_ofNat h hx]; exact hn

theorem colon_eq : ':' = Char.ofNat 58 := by decide
theorem dot_eq : '.' = Char.ofNat 46 := by decide

theorem nameOk_of_not_mem {ns : List Nat} (h : Ascii ns) (hn : 46 ∉ ns) : nameOk (strN ns) = true := by
  rw [nameOk_strN h]; simp [nameOkN, hn]

theorem resolve_of_parts {y : YearDecl} {f cn : String} {inst : Option String} {c : ClassDecl} {ok : Bool}
    (hf : nameOk f = true) (hni : nameAndInstance f = some (cn, inst))
    (hl : y.formMap.lookup cn = some (c, ok)) (ha : c.instRule.accepts inst = true) (hok : ok = true) :
    y.resolveForm f = some (c, inst) := by
  unfold YearDecl.resolveForm resolveIn
  simp [hf, hni, hl, ha, hok]

theorem accepts_corr {c : ClassDecl} {e : ClassIx} (he : EntryOf c e) {i : Option (List Nat)}
    (h : e.accepts i = true) : c.instRule.accepts (i.map strN) = true := by
  rcases he.inst with ⟨_, h2⟩ | ⟨h1, h2, _⟩
  · rw [h2]; rfl
  · rw [h2]
    cases i with
    | none => simp [ClassIx.accepts, h1] at h
    | some i =>
      simp only [ClassIx.accepts, h1, Bool.false_or] at h
      simp only [Option.map_some, InstRule.accepts, List.contains_iff_mem]
      exact List.mem_map.2 ⟨i, by simpa using h, rfl⟩

/-- a form name given by class and instance codes -/
theorem formKey_sound {y : YearDecl} {absent : List String} {E : CEnv} (hE : EnvOf y absent E) {v : Bool}
    {cn k : List Nat} {i : Option (List Nat)} (hcn : Ascii cn) (hk : Ascii k)
    (hi : ∀ j, i = some j → Ascii j ∧ 46 ∉ j ∧ 58 ∉ j)
    (hcd : 46 ∉ cn) (hcc : 58 ∉ cn) (hkd : 46 ∉ k)
    (h : (match lookupIx E.ix cn with
          | some e => e.ok && e.accepts i && (e.names v).contains k
          | none => E.absent.contains cn) = true) :
    Res y absent v (formName (strN cn) (i.map strN) ++ "." ++ strN k) := by
  have hcolon : ':' ∉ (strN cn).toList := by rw [colon_eq]; exact not_mem_strN hcn (by omega) hcc
  have hkOk := nameOk_of_not_mem hk hkd
  -- the form name
  have hfOk : nameOk (formName (strN cn) (i.map strN)) = true := by
    cases i with
    | none => exact nameOk_of_not_mem hcn hcd
    | some j =>
      obtain ⟨hj, hjd, _⟩ := hi j rfl
      simp only [Option.map_some, formName]
      rw [← strN_colon, ← strN_append, ← strN_append]
      refine nameOk_of_not_mem ((hcn.append (by intro n hn; simp at hn; omega)).append hj) ?_
      simp [hcd, hjd]
  have hni : nameAndInstance (formName (strN cn) (i.map strN)) = some (strN cn, i.map strN) := by
    cases i with
    | none => exact nameAndInstance_plain _ hcolon
    | some j =>
      obtain ⟨hj, _, hjc⟩ := hi j rfl
      simp only [Option.map_some, formName]
      refine nameAndInstance_inst _ _ hcolon ?_
      rw [colon_eq]; exact not_mem_strN hj (by omega) hjc
  rcases lookup_corr_year hE.ix hcn with ⟨h1, h2⟩ | ⟨e, c, h1, h2, he⟩
  · rw [h1] at h
    refine res_absent hfOk hkOk hni h2 ?_
    rw [classOf_formName _ _ hcolon]
    exact hE.absent_mem h
  · rw [h1] at h
    simp only [Bool.and_eq_true] at h
    obtain ⟨⟨hok, hacc⟩, hmem⟩ := h
    have hr := resolve_of_parts hfOk hni h2 (accepts_corr he hacc) (by rw [← he.ok]; exact hok)
    exact res_ok hr (he.mem_names hmem)

theorem strN_split {a b : List Nat} (x : Nat) : strN (a ++ x :: b) = strN a ++ strN [x] ++ strN b := by
  rw [← strN_append, ← strN_append]; simp

theorem formKeyOK_sound {y : YearDecl} {absent : List String} {E : CEnv} (hE : EnvOf y absent E) {v : Bool}
    {f k : List Nat} (hf : Ascii f) (hk : Ascii k) (hfd : 46 ∉ f) (hkd : 46 ∉ k)
    (h : formKeyOK E v f k = true) : Res y absent v (strN f ++ "." ++ strN k) := by
  unfold formKeyOK at h
  cases hs : splitAtN 58 f with
  | none =>
    simp only [hs] at h
    have := formKey_sound hE (i := none) hf hk (by intro j hj; cases hj) hfd (splitAtN_none hs) hkd h
    simpa [formName] using this
  | some ci =>
    obtain ⟨cn, j⟩ := ci
    simp only [hs, Bool.and_eq_true, Bool.not_eq_true'] at h
    obtain ⟨hjc, h⟩ := h
    obtain ⟨hsp, hcc⟩ := splitAtN_some hs
    have hcnA : Ascii cn := by rw [hsp] at hf; exact hf.left
    have hjA : Ascii j := by
      rw [hsp] at hf; exact fun n hn => hf.right n (List.mem_cons_of_mem _ hn)
    have hcd : 46 ∉ cn := fun hm => hfd (by rw [hsp]; exact List.mem_append_left _ hm)
    have hjd : 46 ∉ j := fun hm => hfd (by rw [hsp]; exact List.mem_append_right _ (List.mem_cons_of_mem _ hm))
    have := formKey_sound hE (i := some j) hcnA hk
      (by intro j' hj'; cases hj'; exact ⟨hjA, hjd, by simpa using hjc⟩) hcd hcc hkd h
    have e : strN f = formName (strN cn) (Option.map strN (some j)) := by
      rw [hsp, strN_split, strN_colon]; rfl
    rw [e]; exact this

theorem nameOK_sound {y : YearDecl} {absent : List String} {E : CEnv} (hE : EnvOf y absent E) {v : Bool}
    {m : List Nat} (hm : Ascii m) (h : nameOK E v m = true) : Res y absent v (strN m) := by
  unfold nameOK at h
  cases hs : splitAtN 46 m with
  | none => simp [hs] at h
  | some fk =>
    obtain ⟨f, k⟩ := fk
    simp only [hs, Bool.and_eq_true, Bool.not_eq_true'] at h
    obtain ⟨hkd, h⟩ := h
    obtain ⟨hsp, hfd⟩ := splitAtN_some hs
    have hfA : Ascii f := by rw [hsp] at hm; exact hm.left
    have hkA : Ascii k := by
      rw [hsp] at hm; exact fun n hn => hm.right n (List.mem_cons_of_mem _ hn)
    have := formKeyOK_sound hE hfA hkA hfd (by simpa using hkd) h
    rw [hsp, strN_split, strN_dot]; exact this

/-- the name a key read by a line of form `f` (an instance of class `c`) is qualified to -/
def qualName (c : ClassDecl) (inst : Option String) (key : String) : String :=
  if key.toList.contains '.' then key else formName c.name inst ++ "." ++ key

theorem keyOK_sound {y : YearDecl} {absent : List String} {E : CEnv} (hE : EnvOf y absent E) {v : Bool}
    {f : String} {c : ClassDecl} {inst : Option String} (hr : y.resolveForm f = some (c, inst))
    {own : ClassIx} (hown : EntryOf c own) {k : List Nat} (hk : Ascii k)
    (h : keyOK E v own k = true) : Res y absent v (qualName c inst (strN k)) := by
  unfold keyOK at h
  unfold qualName
  rw [dot_eq, contains_strN hk (by omega)]
  cases hc : k.contains 46 with
  | true =>
    simp only [hc, if_true] at h ⊢
    exact nameOK_sound hE hk h
  | false =>
    simp only [hc, Bool.false_eq_true, if_false] at h ⊢
    obtain ⟨_, hfn, _⟩ := resolve_parts hr
    rw [← hfn]
    exact res_ok hr (hown.mem_names h)

end HabuVerif.Dsl

namespace HabuVerif.Dsl
open HabuVerif

/-! ## patterns -/

theorem isDigit_toNat {c : Char} (h : c.isDigit = true) : 48 ≤ c.toNat ∧ c.toNat ≤ 57 := by
  simp only [Char.isDigit, Bool.and_eq_true, decide_eq_true_eq] at h
  have h1 : ('0' : Char).val.toNat = 48 := by decide
  have h2 : ('9' : Char).val.toNat = 57 := by decide
  have := UInt32.le_iff_toNat_le.1 h.1
  have := UInt32.le_iff_toNat_le.1 h.2
  have hv : c.val.toNat = c.toNat := rfl
  omega

theorem digits_sound (n : Nat) :
    toString n = strN (digitsN n) ∧ Ascii (digitsN n) ∧ 46 ∉ digitsN n ∧ 58 ∉ digitsN n := by
  have hd : ∀ x ∈ digitsN n, 48 ≤ x ∧ x ≤ 57 := by
    intro x hx
    simp only [digitsN, List.mem_map] at hx
    obtain ⟨c, hc, rfl⟩ := hx
    exact isDigit_toNat (Nat.isDigit_of_mem_toDigits (by omega) (by omega) hc)
  refine ⟨?_, fun x hx => by have := hd x hx; omega, fun h => by have := hd _ h; omega,
    fun h => by have := hd _ h; omega⟩
  rw [Nat.toString_eq_ofList_toDigits, strN, digitsN, List.map_map]
  congr 1
  induction Nat.toDigits 10 n with
  | nil => rfl
  | cons c cs ih => simp [← ih]

/-- the instance the checker assumes is the instance of the reading form -/
def InstRel (inst : Option String) (instN : Option (List Nat)) : Prop :=
  ∀ iN, instN = some iN → inst = some (strN iN) ∧ Ascii iN

theorem expand_sound {inst : Option String} {instN : Option (List Nat)} (hI : InstRel inst instN)
    {pc : Piece} {s : String} (hm : pc.Matches inst s) {as : List (List Nat)}
    (he : pc.expand instN = some as) : ∃ a ∈ as, s = strN a ∧ Ascii a := by
  cases pc with
  | lit t =>
    simp only [Piece.Matches] at hm
    simp only [Piece.expand] at he
    cases hc : codes? t with
    | none => simp [hc] at he
    | some n =>
      simp only [hc, Option.some.injEq] at he
      subst he
      obtain ⟨h1, h2⟩ := codes?_sound hc
      exact ⟨n, List.mem_singleton.2 rfl, by rw [hm, h1], h2⟩
  | nat lo hi =>
    simp only [Piece.Matches] at hm
    obtain ⟨n, hlo, hhi, rfl⟩ := hm
    simp only [Piece.expand] at he
    cases hi with
    | none => simp at he
    | some h =>
      simp only [Option.some.injEq] at he
      subst he
      have hlt := hhi h rfl
      obtain ⟨h1, h2, _⟩ := digits_sound n
      refine ⟨digitsN n, List.mem_map.2 ⟨n, ?_, rfl⟩, h1, h2⟩
      rw [List.mem_range'_1]; omega
  | oneOf ss =>
    simp only [Piece.Matches] at hm
    simp only [Piece.expand] at he
    obtain ⟨h1, h2⟩ := codesAll?_sound he
    rw [h1] at hm
    obtain ⟨a, ha, rfl⟩ := List.mem_map.1 hm
    exact ⟨a, ha, rfl, h2 a ha⟩
  | inst =>
    simp only [Piece.Matches] at hm
    simp only [Piece.expand] at he
    cases instN with
    | none => simp at he
    | some iN =>
      simp only [Option.some.injEq] at he
      subst he
      obtain ⟨h1, h2⟩ := hI iN rfl
      rw [h1] at hm
      exact ⟨iN, List.mem_singleton.2 rfl, hm, h2⟩
  | any => simp [Piece.expand] at he

theorem expandPat_sound {inst : Option String} {instN : Option (List Nat)} (hI : InstRel inst instN)
    {p : KeyPat} {key : String} (hm : KeyPat.Matches inst p key) {ks : List (List Nat)}
    (he : expandPat instN p = some ks) : ∃ k ∈ ks, key = strN k ∧ Ascii k := by
  induction p generalizing key ks with
  | nil =>
    simp only [KeyPat.Matches] at hm
    simp only [expandPat, Option.some.injEq] at he
    subst he
    exact ⟨[], List.mem_singleton.2 rfl, by rw [hm]; rfl, by intro n hn; cases hn⟩
  | cons pc ps ih =>
    simp only [KeyPat.Matches] at hm
    obtain ⟨a, b, rfl, hma, hmb⟩ := hm
    simp only [expandPat] at he
    cases hpa : pc.expand instN with
    | none => simp [hpa] at he
    | some as =>
      cases hpb : expandPat instN ps with
      | none => simp [hpa, hpb] at he
      | some bs =>
        simp only [hpa, hpb, Option.some.injEq] at he
        subst he
        obtain ⟨aN, haN, rfl, haA⟩ := expand_sound hI hma hpa
        obtain ⟨bN, hbN, rfl, hbA⟩ := ih hmb hpb
        refine ⟨aN ++ bN, ?_, (strN_append _ _).symm, haA.append hbA⟩
        exact List.mem_flatMap.2 ⟨aN, haN, List.mem_map.2 ⟨bN, hbN, rfl⟩⟩

theorem keysOK_sound {y : YearDecl} {absent : List String} {E : CEnv} (hE : EnvOf y absent E) {v : Bool}
    {f : String} {c : ClassDecl} {inst : Option String} (hr : y.resolveForm f = some (c, inst))
    {own : ClassIx} (hown : EntryOf c own) {instN : Option (List Nat)} (hI : InstRel inst instN)
    {p : KeyPat} {key : String} (hm : KeyPat.Matches inst p key)
    (h : keysOK E v own (expandPat instN p) = true) : Res y absent v (qualName c inst key) := by
  cases he : expandPat instN p with
  | none => simp [he, keysOK] at h
  | some ks =>
    simp only [he, keysOK, List.all_eq_true] at h
    obtain ⟨k, hk, rfl, hkA⟩ := expandPat_sound hI hm he
    exact keyOK_sound hE hr hown hkA (h k hk)

theorem starOK_sound {y : YearDecl} {absent : List String} {E : CEnv} (hE : EnvOf y absent E) {v : Bool}
    {c : ClassDecl} {inst : Option String} {p : KeyPat} {key : String} (hm : KeyPat.Matches inst p key)
    (h : starOK E v p = true) : Res y absent v (qualName c inst key) := by
  unfold starOK at h
  split at h
  · rename_i a lo b
    simp only [KeyPat.Matches, Piece.Matches] at hm
    obtain ⟨a', r1, rfl, ha', n', r2, rfl, ⟨n, _, _, rfl⟩, b', r3, rfl, hb', rfl⟩ := hm
    subst ha' hb'
    cases ha : codes? a' with
    | none => simp [ha] at h
    | some aN =>
      cases hb : codes? b' with
      | none => simp [ha, hb] at h
      | some bN =>
        simp only [ha, hb] at h
        cases bN with
        | nil => simp at h
        | cons b0 k =>
          simp only [Bool.and_eq_true, beq_iff_eq, Bool.not_eq_true'] at h
          obtain ⟨⟨hb0, hkd⟩, h⟩ := h
          subst hb0
          cases hs : splitAtN 58 aN with
          | none => simp [hs] at h
          | some ci =>
            obtain ⟨cn, rest⟩ := ci
            simp only [hs, Bool.and_eq_true, List.isEmpty_iff, Bool.not_eq_true'] at h
            obtain ⟨⟨hrest, hcd⟩, h⟩ := h
            subst hrest
            obtain ⟨hsp, hcc⟩ := splitAtN_some hs
            obtain ⟨ea, haA⟩ := codes?_sound ha
            obtain ⟨eb, hbA⟩ := codes?_sound hb
            obtain ⟨ed, hdA, hdd, hdc⟩ := digits_sound n
            have hcnA : Ascii cn := by rw [hsp] at haA; exact haA.left
            have hkA : Ascii k := hbA.cons.2
            have hkey : a' ++ (toString n ++ (b' ++ "")) =
                formName (strN cn) (Option.map strN (some (digitsN n))) ++ "." ++ strN k := by
              rw [ea, eb, ed, hsp]
              have e1 : strN (46 :: k) = "." ++ strN k := by
                rw [← strN_dot, ← strN_append]; rfl
              rw [e1, strN_append, strN_colon]
              simp [formName, String.append_assoc]
            have hres := formKey_sound hE (v := v) (i := some (digitsN n)) hcnA hkA
              (by intro j hj; cases hj; exact ⟨hdA, hdd, hdc⟩) (by simpa using hcd) hcc (by simpa using hkd)
              (by
                cases hl : lookupIx E.ix cn with
                | none => simpa [hl] using h
                | some e =>
                  simp only [hl, Bool.and_eq_true] at h ⊢
                  exact ⟨⟨h.1.1, by simp [ClassIx.accepts, h.1.2]⟩, h.2⟩)
            have hdot : (a' ++ (toString n ++ (b' ++ ""))).toList.contains '.' = true := by
              rw [hkey]
              simp [String.toList_append, toList_dot]
            unfold qualName
            rw [if_pos hdot, hkey]
            exact hres
  · exact absurd h (by simp)

theorem oneOf_accepts {is : List String} {inst : Option String}
    (h : (InstRule.oneOf is).accepts inst = true) : ∃ i, inst = some i ∧ i ∈ is := by
  cases inst with
  | none => simp [InstRule.accepts] at h
  | some i => exact ⟨i, rfl, by simpa [InstRule.accepts] using h⟩

/-- **a pattern that passes the check only stands for names that resolve** -/
theorem patOK_sound {y : YearDecl} {absent : List String} {E : CEnv} (hE : EnvOf y absent E) {v : Bool}
    {f : String} {c : ClassDecl} {inst : Option String} (hr : y.resolveForm f = some (c, inst))
    {own : ClassIx} (hown : EntryOf c own) {p : KeyPat} {m : String}
    (hm : KeyPat.Names c.name inst p m) (h : patOKIx E v own p = true) : Res y absent v m := by
  obtain ⟨key, hkey, rfl⟩ := hm
  change Res y absent v (qualName c inst key)
  unfold patOKIx at h
  rcases Bool.or_eq_true_iff.1 h with h | h
  · exact starOK_sound hE hkey h
  · rcases hown.inst with ⟨h1, _⟩ | ⟨h1, h2, h3⟩
    · simp only [h1, if_true] at h
      exact keysOK_sound hE hr hown (instN := none) (by intro iN hi; cases hi) hkey h
    · simp only [h1, Bool.false_eq_true, if_false, List.all_eq_true] at h
      obtain ⟨_, _, _, _, hacc, _⟩ := resolve_parts hr
      rw [h2] at hacc
      obtain ⟨i, rfl, hi⟩ := oneOf_accepts hacc
      obtain ⟨iN, hiN, rfl⟩ := List.mem_map.1 hi
      exact keysOK_sound hE hr hown (instN := some iN)
        (by intro j hj; cases hj; exact ⟨rfl, h3 iN hiN⟩) hkey (h iN hiN)

end HabuVerif.Dsl

namespace HabuVerif

/-- `Resolves`, except for the line programs of the names in `bad` -/
structure ResolvesExcept {N I F V S : Type} (C : Cat N I F V S) (absentOK : F → Bool) (bad : N → Prop) : Prop where
  line : ∀ n m, ¬ bad n → (C.sem n).OccursV m → ∃ f, C.formOfN m = some f ∧
    ((C.status f = .ok ∧ m ∈ C.fields f) ∨ (C.status f = .unsupported ∧ absentOK f = true))
  input : ∀ n x, ¬ bad n → (C.sem n).OccursI x → ∃ f, C.formOfI x = some f ∧
    ((C.status f = .ok ∧ x ∈ C.inputs f) ∨ (C.status f = .unsupported ∧ absentOK f = true))

theorem ResolvesExcept.resolves {N I F V S : Type} [DecidableEq N] [DecidableEq I] [DecidableEq F]
    {C : Cat N I F V S} {absentOK : F → Bool} {bad : N → Prop}
    (h : ResolvesExcept C absentOK bad) (hb : ∀ n, ¬ bad n) : Resolves C absentOK :=
  ⟨fun n m => h.line n m (hb n), fun n x => h.input n x (hb n)⟩

namespace Dsl

/-! ## lines, classes, the year -/

theorem ownIx_entry {y : YearDecl} {absent : List String} {E : CEnv} (hE : EnvOf y absent E)
    {f : String} {c : ClassDecl} {inst : Option String} (hr : y.resolveForm f = some (c, inst))
    {own : ClassIx} (h : ownIx E c = some own) : EntryOf c own := by
  unfold ownIx at h
  cases hn : codes? c.name with
  | none => simp [hn] at h
  | some n =>
    simp only [hn] at h
    obtain ⟨h1, h1a⟩ := codes?_sound hn
    obtain ⟨_, _, _, _, _, hl⟩ := resolve_parts hr
    rcases lookup_corr_year hE.ix h1a with ⟨h2, _⟩ | ⟨e, c', h2, h3, he⟩
    · rw [h2] at h; cases h
    · rw [h2] at h
      rw [← h1, hl] at h3
      simp only [Option.some.injEq, Prod.mk.injEq] at h h3
      rw [← h, h3.1]; exact he

theorem lineRefsOK_sound {y : YearDecl} {absent : List String} {E : CEnv} (hE : EnvOf y absent E)
    {f : String} {c : ClassDecl} {inst : Option String} (hr : y.resolveForm f = some (c, inst))
    {own : ClassIx} (hown : EntryOf c own) {d : LineDecl} (h : lineRefsOK E own d = true) :
    (∀ p ∈ refsV d, ∀ m, KeyPat.Names c.name inst p m → Res y absent true m) ∧
    (∀ p ∈ refsI d, ∀ m, KeyPat.Names c.name inst p m → Res y absent false m) := by
  simp only [lineRefsOK, Bool.and_eq_true, List.all_eq_true] at h
  exact ⟨fun p hp m hm => patOK_sound hE hr hown hm (h.1 p hp),
    fun p hp m hm => patOK_sound hE hr hown hm (h.2 p hp)⟩

theorem linesOK_mem {E : CEnv} {own : ClassIx} {skip : List String} {ds : List LineDecl}
    (h : linesOK E own skip ds = true) {d : LineDecl} (hd : d ∈ ds) :
    d.name ∈ skip ∨ lineRefsOK E own d = true := by
  induction ds with
  | nil => cases hd
  | cons x xs ih =>
    simp only [linesOK, Bool.and_eq_true, Bool.or_eq_true] at h
    rcases List.mem_cons.1 hd with rfl | hd
    · rcases h.1 with h1 | h1
      · left; simpa using h1
      · right; exact h1
    · exact ih h.2 hd

theorem badLines_mem {bad : List (String × String)} {cn k : String} (h : k ∈ badLines bad cn) :
    (cn, k) ∈ bad := by
  simp only [badLines, List.mem_map, List.mem_filter, beq_iff_eq] at h
  obtain ⟨p, ⟨hp, rfl⟩, rfl⟩ := h
  exact hp

theorem classRefsOK_mem {E : CEnv} {bad : List (String × String)} {c : ClassDecl}
    (h : classRefsOK E bad c = true) :
    ∃ own, ownIx E c = some own ∧ ∀ d ∈ c.lines, (c.name, d.name) ∈ bad ∨ lineRefsOK E own d = true := by
  unfold classRefsOK at h
  cases ho : ownIx E c with
  | none => simp [ho] at h
  | some own =>
    simp only [ho] at h
    refine ⟨own, rfl, fun d hd => ?_⟩
    cases bad with
    | nil =>
      rcases linesOK_mem h hd with h1 | h1
      · cases h1
      · exact Or.inr h1
    | cons b bs =>
      rcases linesOK_mem h hd with h1 | h1
      · exact Or.inl (badLines_mem h1)
      · exact Or.inr h1

theorem classesRefsOK_mem {E : CEnv} {bad : List (String × String)} {cs : List ClassDecl}
    (h : classesRefsOK E bad cs = true) {c : ClassDecl} (hc : c ∈ cs) : classRefsOK E bad c = true := by
  induction cs with
  | nil => cases hc
  | cons x xs ih =>
    simp only [classesRefsOK, Bool.and_eq_true] at h
    rcases List.mem_cons.1 hc with rfl | hc
    · exact h.1
    · exact ih h.2 hc

theorem classesRefsOK_cons {E : CEnv} {bad : List (String × String)} {c : ClassDecl} {cs : List ClassDecl}
    (h1 : classRefsOK E bad c = true) (h2 : classesRefsOK E bad cs = true) :
    classesRefsOK E bad (c :: cs) = true := by
  simp [classesRefsOK, h1, h2]

theorem classesRefsOK_nil {E : CEnv} {bad : List (String × String)} : classesRefsOK E bad [] = true := rfl

/-- the line programs excluded from a `_rest` theorem: lines `(class, line)` of `bad`, of any instance -/
def BadLine (y : YearDecl) (bad : List (String × String)) (n : String) : Prop :=
  ∃ f k c inst, splitName n = some (f, k) ∧ y.resolveForm f = some (c, inst) ∧ (c.name, k) ∈ bad

/-- what `Res` is for `Resolves` -/
theorem Res.line {y : YearDecl} {absent : List String} {m : String} (h : Res y absent true m) :
    ∃ f, (mkCat y).formOfN m = some f ∧
      (((mkCat y).status f = .ok ∧ m ∈ (mkCat y).fields f) ∨
       ((mkCat y).status f = .unsupported ∧ decide (classOf f ∈ absent) = true)) := by
  obtain ⟨f, h1, h2⟩ := h
  refine ⟨f, h1, ?_⟩
  rcases h2 with h2 | h2
  · exact Or.inl ⟨h2.1, by simpa using h2.2⟩
  · exact Or.inr ⟨h2.1, by simpa using h2.2⟩

theorem Res.input {y : YearDecl} {absent : List String} {m : String} (h : Res y absent false m) :
    ∃ f, (mkCat y).formOfI m = some f ∧
      (((mkCat y).status f = .ok ∧ m ∈ (mkCat y).inputs f) ∨
       ((mkCat y).status f = .unsupported ∧ decide (classOf f ∈ absent) = true)) := by
  obtain ⟨f, h1, h2⟩ := h
  refine ⟨f, h1, ?_⟩
  rcases h2 with h2 | h2
  · exact Or.inl ⟨h2.1, by simpa using h2.2⟩
  · exact Or.inr ⟨h2.1, by simpa using h2.2⟩

/-- **Soundness of the check, relative to an environment.**  If every class passes (lines listed in `bad`
excepted), every name that any other line program of the catalogue can read resolves. -/
theorem classesRefsOK_sound {y : YearDecl} {absent : List String} {E : CEnv} (hE : EnvOf y absent E)
    {bad : List (String × String)} (h : classesRefsOK E bad y.classes = true) :
    ResolvesExcept (mkCat y) (fun f => decide (classOf f ∈ absent)) (BadLine y bad) := by
  have key : ∀ n f k c inst d, splitName n = some (f, k) → y.resolveForm f = some (c, inst) → d ∈ c.lines →
      d.name = k → ¬ BadLine y bad n →
      (∀ p ∈ refsV d, ∀ m, KeyPat.Names c.name inst p m → Res y absent true m) ∧
      (∀ p ∈ refsI d, ∀ m, KeyPat.Names c.name inst p m → Res y absent false m) := by
    intro n f k c inst d hs hr hd hk hnb
    obtain ⟨_, _, hc, _⟩ := resolve_parts hr
    obtain ⟨own, ho, hl⟩ := classRefsOK_mem (classesRefsOK_mem h hc)
    rcases hl d hd with hb | hok
    · exact absurd ⟨f, k, c, inst, hs, hr, hk ▸ hb⟩ hnb
    · exact lineRefsOK_sound hE hr (ownIx_entry hE hr ho) hok
  constructor
  · intro n m hnb hm
    obtain ⟨f, k, c, inst, d, hs, hr, hd, hk, p, hp, hnm⟩ := (cat_reads_in_refs y n).1 m hm
    exact ((key n f k c inst d hs hr hd hk hnb).1 p hp m hnm).line
  · intro n x hnb hx
    obtain ⟨f, k, c, inst, d, hs, hr, hd, hk, p, hp, hnm⟩ := (cat_reads_in_refs y n).2 x hx
    exact ((key n f k c inst d hs hr hd hk hnb).2 p hp x hnm).input

theorem badLine_nil (y : YearDecl) (n : String) : ¬ BadLine y [] n := by
  rintro ⟨_, _, _, _, _, _, h⟩; cases h

/-- the form in which the generated obligations are used: the index literal, the absent list in codes -/
theorem c10_of_obligations {y : YearDecl} {absent : List String} {ix : YearIx} {absN : List (List Nat)}
    {bad : List (String × String)} (hix : mkIx y = some ix) (habs : codesAll? absent = some absN)
    (h : classesRefsOK ⟨ix, absN⟩ bad y.classes = true) :
    ResolvesExcept (mkCat y) (fun f => decide (classOf f ∈ absent)) (BadLine y bad) :=
  classesRefsOK_sound (E := ⟨ix, absN⟩) ⟨hix, habs⟩ h

theorem c10_of_obligations_all {y : YearDecl} {absent : List String} {ix : YearIx} {absN : List (List Nat)}
    (hix : mkIx y = some ix) (habs : codesAll? absent = some absN)
    (h : classesRefsOK ⟨ix, absN⟩ [] y.classes = true) :
    Resolves (mkCat y) (fun f => decide (classOf f ∈ absent)) :=
  (c10_of_obligations hix habs h).resolves (badLine_nil y)

/-- **C10, soundness of the decision procedure**: a year that passes the check has a resolving catalogue. -/
theorem yearOK_sound (y : YearDecl) (absent : List String) (h : yearOK y absent = true) :
    Resolves (mkCat y) (fun f => decide (classOf f ∈ absent)) := by
  unfold yearOK at h
  cases hE : mkEnv y absent with
  | none => simp [hE] at h
  | some E =>
    simp only [hE, Bool.and_eq_true] at h
    exact (classesRefsOK_sound (mkEnv_envOf hE) h.1).resolves (badLine_nil y)

/-- one class, the interface of the specification: every name a line of an instance of `c` reads resolves -/
theorem classOK_sound (y : YearDecl) (absent : List String) (c : ClassDecl) (h : classOK y absent c = true)
    {f : String} {inst : Option String} (hr : y.resolveForm f = some (c, inst)) {d : LineDecl} (hd : d ∈ c.lines) :
    (∀ m, (evalLine y c inst d).OccursV m → Res y absent true m) ∧
    (∀ x, (evalLine y c inst d).OccursI x → Res y absent false x) := by
  unfold classOK at h
  cases hE : mkEnv y absent with
  | none => simp [hE] at h
  | some E =>
    simp only [hE, Bool.and_eq_true] at h
    obtain ⟨own, ho, hl⟩ := classRefsOK_mem h.1
    rcases hl d hd with hb | hok
    · cases hb
    · have hs := lineRefsOK_sound (mkEnv_envOf hE) hr (ownIx_entry (mkEnv_envOf hE) hr ho) hok
      constructor
      · intro m hm
        obtain ⟨p, hp, hn⟩ := (eval_reads_in_refs y c inst d).1 m hm
        exact hs.1 p hp m hn
      · intro x hx
        obtain ⟨p, hp, hn⟩ := (eval_reads_in_refs y c inst d).2 x hx
        exact hs.2 p hp x hn

end Dsl
end HabuVerif

namespace HabuVerif.Dsl.C10Example
open HabuVerif HabuVerif.Dsl

/-! ## Non-vacuity: a misspelt key is caught, and the real evaluation reads the unknown name -/

def line1 (key : String) : LineDecl :=
  { name := "1", kind := .int, required := true, defaults := [],
    body := [.ret (.bin .add (.readV (.const (.str key))) (.const (.int 1)))] }
def line2 : LineDecl :=
  { name := "total", kind := .int, required := false, defaults := [], body := [.ret (.const (.int 1))] }
def cls (key : String) : ClassDecl :=
  { name := "a", instRule := .any, inputs := [], lines := [line1 key, line2], thresholds := [] }
def year (key : String) : YearDecl := { year := 0, classes := [cls key], enums := [], globals := [] }

/-- the well-spelt year passes -/
theorem good_passes : yearOK (year "total") [] = true := by decide +kernel
/-- the misspelt one does not -/
theorem typo_fails : yearOK (year "totla") [] = false := by decide +kernel

def needsV (o : Out String String String Val) (m : String) : Bool :=
  match o with
  | .needV n => n == m
  | _ => false

theorem needsV_eq {o : Out String String String Val} {m : String} (h : needsV o m = true) : o = .needV m := by
  unfold needsV at h
  split at h
  · rw [beq_iff_eq.1 h]
  · cases h

/-- the real evaluation of line `a.1` asks for the line `a.totla` -/
theorem typo_run : needsV (run (fun _ => none) (fun _ => .noSpec) (fun _ => true) ((mkCat (year "totla")).sem "a.1"))
    "a.totla" = true := by decide +kernel

theorem typo_reads : ((mkCat (year "totla")).sem "a.1").OccursV "a.totla" :=
  run_needV_occurs _ _ (needsV_eq typo_run)

/-- … which form `a` does not have -/
theorem typo_unknown : (mkCat (year "totla")).fields "a" = ["a.1", "a.total"] := by decide +kernel

/-- so the catalogue of the misspelt year does not resolve: the check is not vacuous -/
theorem typo_not_resolves : ¬ Resolves (mkCat (year "totla")) (fun f => decide (classOf f ∈ ([] : List String))) := by
  intro h
  obtain ⟨f, hf, hres⟩ := h.line "a.1" "a.totla" typo_reads
  have hf' : f = "a" := by
    have : (mkCat (year "totla")).formOfN "a.totla" = some "a" := by decide +kernel
    rw [this] at hf
    exact (Option.some.inj hf).symm
  subst hf'
  rcases hres with ⟨_, hm⟩ | ⟨_, ha⟩
  · rw [typo_unknown] at hm
    revert hm
    decide +kernel
  · simp at ha

end HabuVerif.Dsl.C10Example


#print axioms HabuVerif.Dsl.codes?_sound
#print axioms HabuVerif.Dsl.patOK_sound
#print axioms HabuVerif.Dsl.classesRefsOK_sound
#print axioms HabuVerif.Dsl.c10_of_obligations
#print axioms HabuVerif.Dsl.c10_of_obligations_all
#print axioms HabuVerif.Dsl.yearOK_sound
#print axioms HabuVerif.Dsl.classOK_sound
#print axioms HabuVerif.Dsl.C10Example.typo_fails
#print axioms HabuVerif.Dsl.C10Example.typo_not_resolves
