import HabuVerif.Refl.C08Checks
/-!
# C08: what one kernel evaluation of a line says about all stores

`run_congr`: the outcome of a run is a function of the answers of the stores.
`run_agrees` (**reads-only**): if two pairs of stores agree on the names the first run READS (`readsOf`),
the outcomes coincide.  So each generated evaluation `lineGives y c inst d is vs e` (tiny stores) holds for
every real solver state whose inputs/values agree with the tiny stores on those names: the domain of C08 --
(year, status, amount) triples at the limit and one cent either side -- is finite, and each triple is
evaluated.  Core tactics only.
-/
set_option autoImplicit false

namespace HabuVerif.C08
open HabuVerif

/-- the outcome of a run depends only on the answers the two stores (and the set of loaded forms) give on
the way: if `vs'`, `is'`, `fs'` answer every question like `vs`, `is`, `fs`, the outcome is the same.
Agreement is required everywhere here (the statement used in the report: agreement on the names in the tiny
store, everything else arbitrary, follows because a run that reads a name outside the tiny store is not a
`val`/`notImpl` outcome and then the generated check is false). -/
theorem run_congr {N I F V : Type} (t : Tree N I F V) (vs vs' : N → Option V) (is is' : I → InpRes V)
    (fs fs' : F → Bool) (hv : ∀ n, vs n = vs' n) (hi : ∀ x, is x = is' x) (hf : ∀ f, fs f = fs' f) :
    run vs is fs t = run vs' is' fs' t := by
  induction t with
  | ret v => rfl
  | notImpl => rfl
  | err c => rfl
  | readV n k ih =>
    simp only [run]
    rw [← hv n]
    cases vs n with
    | none => rfl
    | some v => exact ih v
  | readI x k ih =>
    simp only [run]
    rw [← hi x]
    cases is x with
    | noSpec => rfl
    | missing => rfl
    | invalid => rfl
    | ok v => exact ih v
  | needForm f k ih =>
    simp only [run]
    rw [← hf f]
    cases fs f with
    | false => rfl
    | true => simpa using ih

/-- names a run asks the value store for (in order), and names it asks the input store for -/
def readsOf {N I F V : Type} (vs : N → Option V) (is : I → InpRes V) (fs : F → Bool) :
    Tree N I F V → List N × List I
  | .ret _ => ([], [])
  | .notImpl => ([], [])
  | .err _ => ([], [])
  | .readV n k =>
    match vs n with
    | some v => let r := readsOf vs is fs (k v); (n :: r.1, r.2)
    | none => ([n], [])
  | .readI x k =>
    match is x with
    | .ok v => let r := readsOf vs is fs (k v); (r.1, x :: r.2)
    | _ => ([], [x])
  | .needForm f k => if fs f then readsOf vs is fs k else ([], [])

/-- **reads-only**: two pairs of stores that agree on the names the first run reads give the same outcome
(same set of loaded forms). -/
theorem run_agrees {N I F V : Type} (t : Tree N I F V) (vs vs' : N → Option V) (is is' : I → InpRes V)
    (fs : F → Bool)
    (hv : ∀ n ∈ (readsOf vs is fs t).1, vs n = vs' n) (hi : ∀ x ∈ (readsOf vs is fs t).2, is x = is' x) :
    run vs is fs t = run vs' is' fs t := by
  induction t with
  | ret v => rfl
  | notImpl => rfl
  | err c => rfl
  | readV n k ih =>
    simp only [run]
    have hn : vs n = vs' n := by
      apply hv
      simp only [readsOf]
      cases vs n <;> simp
    rw [← hn]
    cases hvn : vs n with
    | none => rfl
    | some v =>
      apply ih v
      · intro m hm
        apply hv
        simp only [readsOf, hvn]
        exact List.mem_cons_of_mem _ hm
      · intro x hx
        apply hi
        simp only [readsOf, hvn]
        exact hx
  | readI x k ih =>
    simp only [run]
    have hx : is x = is' x := by
      apply hi
      simp only [readsOf]
      cases is x <;> simp
    rw [← hx]
    cases hix : is x with
    | noSpec => rfl
    | missing => rfl
    | invalid => rfl
    | ok v =>
      apply ih v
      · intro m hm
        apply hv
        simp only [readsOf, hix]
        exact hm
      · intro y hy
        apply hi
        simp only [readsOf, hix]
        exact List.mem_cons_of_mem _ hy
  | needForm f k ih =>
    simp only [run]
    cases hf : fs f with
    | false => rfl
    | true =>
      simp only [if_true]
      apply ih
      · intro m hm
        apply hv
        simpa [readsOf, hf] using hm
      · intro y hy
        apply hi
        simpa [readsOf, hf] using hy

end HabuVerif.C08
