import HabuVerif.Spec.Instr
import HabuVerif.Proofs.DslRun
import HabuVerif.Proofs.F64Cents
/-!
# C02 — soundness of the certified fragment of the instruction matcher

`Spec.certified d i = true` (a decidable check on the translated program of a line, discharged per line in
`Gen/C02_<year>.lean`) implies, for every store in which the lines the program reads hold cent-valued doubles of at most
`10^13` cents (`10^11` dollars):

  the line evaluates — through `Dsl.evalLine`, i.e. the translated body AND the `FloatField` wrapper — to the double of
  exactly the number of cents that the instruction `i` of the official form yields on the operands' cents
  (`line_matches_instruction`).

Proved here for `carry`, `add` (2..20 operands, any order of the operands), `sub`, `subFloor0` (written with `max` in
either order or with a comparison in any orientation), `addFloor0`, `addCap0`, `smaller`, `larger` and conditional
instructions over these.  NOT proved (matched syntactically by `Spec.matchesInstr` only, validated by the `dsl` / `real`
correspondence streams and by the statement oracle `tools/harness/c02_oracle.py`): `sum([...])` comprehensions (CPython's
compensated summation), rates (`mulRate…`: the result is A nearest cent, `F64Cents.cent_mul_rate_partial`), products of two
lines, guards with uninterpreted conditions and declining branches.

Two layers: (1) `runP_value` / `runP_result`: the evaluator on the arithmetic fragment computes `Spec.evalA`
(by functional induction on `Spec.toArith`); (2) `certifies_sound`: on cent-valued operands `round(evalA …, 2)` is the
double of `Instr.evalI` cents (the cents bridge of `Proofs/F64Cents.lean`).
-/
set_option autoImplicit false

namespace HabuVerif.Spec
open HabuVerif HabuVerif.Dsl HabuVerif.F64

/-! ## 1. The evaluator on the arithmetic fragment -/

/-- `FormAccessor.__getitem__`: the full name of a line read by a form -/
def qual (ctx : Ctx) (n : String) : String :=
  if n.toList.contains '.' then n else formName ctx.form ctx.inst ++ "." ++ n

@[simp] theorem qualify_str (ctx : Ctx) (n : String) : qualify ctx (.str n) = .ok (qual ctx n) := rfl

theorem add_floats (x y : F64) : Val.add (.float x) (.float y) = .ok (.float (F64.add x y)) := rfl
theorem sub_floats (x y : F64) : Val.sub (.float x) (.float y) = .ok (.float (F64.sub x y)) := rfl
theorem mul_floats (x y : F64) : Val.mul (.float x) (.float y) = .ok (.float (F64.mul x y)) := rfl

theorem ordCmp_floats (op : Cmp) (x y : F64) :
    Val.ordCmp op.toOrd (.float x) (.float y) = .ok (cmpF op x y) := by
  unfold Val.ordCmp cmpF
  simp only [Val.num?]
  cases Val.cmpNum (.f x) (.f y) <;> rfl

theorem max_floats (x y : F64) :
    applyBuiltin .max [.float x, .float y] = .ok (.float (dslMax x y)) := by
  have h := ordCmp_floats .gt y x
  simp only [Cmp.toOrd] at h
  simp only [applyBuiltin, Val.pyMinMax, Val.extremum, h, dslMax, bind, Except.bind, if_true]
  cases cmpF .gt y x <;> rfl

theorem min_floats (x y : F64) :
    applyBuiltin .min [.float x, .float y] = .ok (.float (dslMin x y)) := by
  have h := ordCmp_floats .lt y x
  simp only [Cmp.toOrd] at h
  simp only [applyBuiltin, Val.pyMinMax, Val.extremum, Bool.false_eq_true, ↓reduceIte, h, dslMin, bind,
    Except.bind]
  cases cmpF .lt y x <;> rfl

theorem applyCmp_floats {op : CmpOp} {c : Cmp} (h : cmpOfOp op = some c) (x y : F64) :
    applyCmp op (.float x) (.float y) = .ok (cmpF c x y) := by
  cases op <;> simp [cmpOfOp] at h <;> subst h
  · exact ordCmp_floats .lt x y
  · exact ordCmp_floats .le x y
  · exact ordCmp_floats .gt x y
  · exact ordCmp_floats .ge x y

section eval
variable (ctx : Ctx) (env : Env) (σ : String → F64)
variable (vs : String → Option Val) (is : String → InpRes Val) (fs : String → Bool)

/-- **value position**: the evaluator computes `evalA` -/
theorem runP_value :
    ∀ (e : Expr) (a : AExpr), toArith e = some a → a.isValue = true →
      (∀ n ∈ a.reads, vs (qual ctx n) = some (.float (σ n))) →
      runP vs is fs (evalExpr ctx env e) = .pure (.float (evalA σ a)) := by
  intro e
  fun_induction toArith e
  case case1 n =>
    intro a h _ hs
    cases h
    have := hs n (by simp [AExpr.reads])
    simp [evalExpr, Prog.bind, Prog.lift, runP, this, evalA]
  case case2 x =>
    intro a h _ _
    cases h
    simp [evalExpr, evalA]
  case case3 => intro a h hv; cases h; simp [AExpr.isValue] at hv
  case case4 => intro a h hv; cases h; simp [AExpr.isValue] at hv
  case case5 ea eb xa xb hb ha iha ihb =>
    intro a h hv hs
    cases h
    simp only [AExpr.isValue, Bool.and_eq_true] at hv
    have h1 := iha xa ha hv.1 (fun n hn => hs n (by simp [AExpr.reads, hn]))
    have h2 := ihb xb hb hv.2 (fun n hn => hs n (by simp [AExpr.reads, hn]))
    simp only [evalExpr, runP_bind, h1, h2, POut.bind_pure, applyBin, add_floats, runP_lift_ok, evalA]
  case case6 => intro a h; cases h
  case case7 ea eb xa xb hb ha iha ihb =>
    intro a h hv hs
    cases h
    simp only [AExpr.isValue, Bool.and_eq_true] at hv
    have h1 := iha xa ha hv.1 (fun n hn => hs n (by simp [AExpr.reads, hn]))
    have h2 := ihb xb hb hv.2 (fun n hn => hs n (by simp [AExpr.reads, hn]))
    simp only [evalExpr, runP_bind, h1, h2, POut.bind_pure, applyBin, sub_floats, runP_lift_ok, evalA]
  case case8 => intro a h; cases h
  case case9 ea eb xa xb hb ha iha ihb =>
    intro a h hv hs
    cases h
    simp only [AExpr.isValue, Bool.and_eq_true] at hv
    have h1 := iha xa ha hv.1 (fun n hn => hs n (by simp [AExpr.reads, hn]))
    have h2 := ihb xb hb hv.2 (fun n hn => hs n (by simp [AExpr.reads, hn]))
    simp only [evalExpr, runP_bind, h1, h2, POut.bind_pure, applyBin, mul_floats, runP_lift_ok, evalA]
  case case10 => intro a h; cases h
  case case11 ea eb xa xb hb ha iha ihb =>
    intro a h hv hs
    cases h
    simp only [AExpr.isValue, Bool.and_eq_true] at hv
    have h1 := iha xa ha hv.1 (fun n hn => hs n (by simp [AExpr.reads, hn]))
    have h2 := ihb xb hb hv.2 (fun n hn => hs n (by simp [AExpr.reads, hn]))
    simp only [evalExpr, evalArgs, runP_bind, h1, h2, POut.bind_pure, runP_pure, max_floats, runP_lift_ok, evalA]
  case case12 => intro a h; cases h
  case case13 ea eb xa xb hb ha iha ihb =>
    intro a h hv hs
    cases h
    simp only [AExpr.isValue, Bool.and_eq_true] at hv
    have h1 := iha xa ha hv.1 (fun n hn => hs n (by simp [AExpr.reads, hn]))
    have h2 := ihb xb hb hv.2 (fun n hn => hs n (by simp [AExpr.reads, hn]))
    simp only [evalExpr, evalArgs, runP_bind, h1, h2, POut.bind_pure, runP_pure, min_floats, runP_lift_ok, evalA]
  case case14 => intro a h; cases h
  case case15 =>
    intro a h hv
    simp at h
    obtain ⟨ns, _, rfl⟩ := h
    simp [AExpr.isValue] at hv
  case case16 => intro a h; cases h
  case case17 => intro a h hv; cases h; simp [AExpr.isValue] at hv
  case case18 => intro a h hv; cases h; simp [AExpr.isValue] at hv
  case case19 => intro a h; cases h
  case case20 => intro a h hv; cases h; simp [AExpr.isValue] at hv
  case case21 => intro a h; cases h
  case case22 => intro a h; cases h

/-- what the `FloatField` wrapper makes of a result: a float stays, `None` is a blank `0.0` -/
def asFloat : Val → Option F64
  | .float x => some x
  | .none => some F64.zero
  | _ => Option.none

/-- **result position**: the evaluator returns a float or `None`, which the wrapper reads as `evalA` -/
theorem runP_result :
    ∀ (e : Expr) (a : AExpr), toArith e = some a → a.isResult = true →
      (∀ n ∈ a.reads, vs (qual ctx n) = some (.float (σ n))) →
      ∃ v, runP vs is fs (evalExpr ctx env e) = .pure v ∧ asFloat v = some (evalA σ a) := by
  intro e
  fun_induction toArith e
  case case1 n =>
    intro a h hr hs
    cases h
    exact ⟨_, runP_value ctx env σ vs is fs _ _ (by simp [toArith]) (by simpa [AExpr.isResult] using hr) hs, rfl⟩
  case case2 x =>
    intro a h hr hs
    cases h
    exact ⟨_, runP_value ctx env σ vs is fs _ _ (by simp [toArith]) (by simpa [AExpr.isResult] using hr) hs, rfl⟩
  case case3 =>
    intro a h _ _
    cases h
    exact ⟨.none, by simp [evalExpr], rfl⟩
  case case4 => intro a h hr; cases h; simp [AExpr.isResult, AExpr.isValue] at hr
  case case5 ea eb xa xb hb ha _ _ =>
    intro a h hr hs
    cases h
    exact ⟨_, runP_value ctx env σ vs is fs _ _ (by simp [toArith, ha, hb]) (by simpa [AExpr.isResult] using hr) hs, rfl⟩
  case case6 => intro a h; cases h
  case case7 ea eb xa xb hb ha _ _ =>
    intro a h hr hs
    cases h
    exact ⟨_, runP_value ctx env σ vs is fs _ _ (by simp [toArith, ha, hb]) (by simpa [AExpr.isResult] using hr) hs, rfl⟩
  case case8 => intro a h; cases h
  case case9 ea eb xa xb hb ha _ _ =>
    intro a h hr hs
    cases h
    exact ⟨_, runP_value ctx env σ vs is fs _ _ (by simp [toArith, ha, hb]) (by simpa [AExpr.isResult] using hr) hs, rfl⟩
  case case10 => intro a h; cases h
  case case11 ea eb xa xb hb ha _ _ =>
    intro a h hr hs
    cases h
    exact ⟨_, runP_value ctx env σ vs is fs _ _ (by simp [toArith, ha, hb]) (by simpa [AExpr.isResult] using hr) hs, rfl⟩
  case case12 => intro a h; cases h
  case case13 ea eb xa xb hb ha _ _ =>
    intro a h hr hs
    cases h
    exact ⟨_, runP_value ctx env σ vs is fs _ _ (by simp [toArith, ha, hb]) (by simpa [AExpr.isResult] using hr) hs, rfl⟩
  case case14 => intro a h; cases h
  case case15 =>
    intro a h hr
    simp at h
    obtain ⟨ns, _, rfl⟩ := h
    simp [AExpr.isResult, AExpr.isValue] at hr
  case case16 => intro a h; cases h
  case case17 ea op eb et ee xt xe he ht c xa xb hb ha hop iht ihe _ _ =>
    intro a h hr hs
    cases h
    simp only [AExpr.isResult, Bool.and_eq_true] at hr
    obtain ⟨⟨⟨hva, hvb⟩, hrt⟩, hre⟩ := hr
    have h1 := runP_value ctx env σ vs is fs ea xa ha hva (fun n hn => hs n (by simp [AExpr.reads, hn]))
    have h2 := runP_value ctx env σ vs is fs eb xb hb hvb (fun n hn => hs n (by simp [AExpr.reads, hn]))
    have hc : runP vs is fs (evalExpr ctx env (.cmp ea [op] [eb]))
        = .pure (.bool (cmpF c (evalA σ xa) (evalA σ xb))) := by
      simp only [evalExpr, evalCmp, runP_bind, h1, h2, POut.bind_pure, applyCmp_floats hop, runP_lift_ok]
      cases cmpF c (evalA σ xa) (evalA σ xb) <;> simp
    have hcm : evalExpr ctx env (.cmp ea [op] [eb])
        = (evalExpr ctx env ea).bind fun x => evalCmp ctx env x [op] [eb] := by simp only [evalExpr]
    have hite : evalExpr ctx env (.ite (.cmp ea [op] [eb]) et ee)
        = (evalExpr ctx env (.cmp ea [op] [eb])).bind fun x =>
            if x.truthy then evalExpr ctx env et else evalExpr ctx env ee := by
      rw [hcm]; simp only [evalExpr]
    rw [hite, runP_bind, hc]
    simp only [POut.bind_pure, Val.truthy, evalA]
    cases hcmp : cmpF c (evalA σ xa) (evalA σ xb)
    · simpa using ihe xe he hre (fun n hn => hs n (by simp [AExpr.reads, hn]))
    · simpa using iht xt ht hrt (fun n hn => hs n (by simp [AExpr.reads, hn]))
  case case18 => intro a h hr; cases h; simp [AExpr.isResult, AExpr.isValue] at hr
  case case19 => intro a h; cases h
  case case20 => intro a h hr; cases h; simp [AExpr.isResult, AExpr.isValue] at hr
  case case21 => intro a h; cases h
  case case22 => intro a h; cases h

end eval

/-- **the evaluator link** (`evalLine_of_toArith`): a `FloatField` whose body is `return e` with `e` in result position
of the arithmetic fragment evaluates, on a store holding doubles for the lines it reads, to `round(evalA …, places)` —
through the translated body and the typed-field wrapper. -/
theorem evalLine_of_toArith (σ : String → F64) (vs : String → Option Val) (is : String → InpRes Val)
    (fs : String → Bool) (year : YearDecl) (c : ClassDecl) (inst : Option String) (d : LineDecl)
    (p : Nat) (e : Expr) (a : AExpr)
    (hk : d.kind = .float p) (hb : d.body = [.ret e]) (ha : toArith e = some a) (hr : a.isResult = true)
    (hs : ∀ n ∈ a.reads,
      vs (qual { year := year, form := c.name, inst := inst, thresholds := c.thresholds } n) = some (.float (σ n))) :
    run vs is fs (evalLine year c inst d) = .val (.float (F64.roundN (evalA σ a) p)) := by
  rw [run_evalLine]
  obtain ⟨v, hv, hf⟩ := runP_result _ d.defaults σ vs is fs e a ha hr hs
  have hbody : runP vs is fs (evalBody { year := year, form := c.name, inst := inst, thresholds := c.thresholds } d)
      = .pure v := by
    simp only [evalBody, hb, execBlock, execStmt, runP_bind, hv, POut.bind_pure, runP_pure, Flow.result]
  rw [hbody, hk]
  cases v <;> simp [asFloat] at hf
  · rw [← hf]
    simp [POut.toOut, FieldKind.wrap, FieldKind.empty]
  · rw [← hf]
    simp [POut.toOut, FieldKind.wrap]


/-! ## 2. Cents -/

/-- every line is a cent-valued double of at most `10^13` cents (`10^11` dollars) -/
def CentStore (σ : String → F64) (c : String → Int) : Prop :=
  ∀ n, Cent (σ n) (c n) ∧ (c n).natAbs ≤ 10000000000000

theorem two52 : (2 : Nat) ^ 52 = 4503599627370496 := by norm_num

/-- a comparison of two cent-valued doubles is the comparison of their cents -/
theorem cmpF_cent (op : Cmp) {a b : F64} {ca cb : Int} (ha : Cent a ca) (hb : Cent b cb)
    (hca : ca.natAbs < 2 ^ 52) (hcb : cb.natAbs < 2 ^ 52) : cmpF op a b = op.holds ca cb := by
  have h1 := cent_lt ha hb hca hcb
  have h2 := cent_lt hb ha hcb hca
  have h3 := cent_eq ha hb hca hcb
  have nl : ∀ {x y : F64} {p : Prop}, (F64.lt x y = true ↔ p) → ¬ p → F64.lt x y = false := by
    intro x y p hh hn
    cases hl : F64.lt x y
    · rfl
    · exact absurd (hh.1 hl) hn
  unfold cmpF Val.cmpNum
  rcases Int.lt_trichotomy ca cb with h | h | h
  · have e1 : F64.lt a b = true := h1.2 h
    have f1 : ¬ cb < ca := by omega
    have f2 : ca ≤ cb := by omega
    have f3 : ¬ cb ≤ ca := by omega
    simp only [e1, if_true]
    cases op <;> simp [Cmp.toOrd, Val.OrdOp.holds, Cmp.holds, h, f1, f2, f3]
  · have e1 : F64.lt a b = false := nl h1 (by omega)
    have e2 : F64.lt b a = false := nl h2 (by omega)
    have e3 : F64.eq a b = true := h3.2 h
    subst h
    simp only [e1, e2, e3, Bool.false_eq_true, if_false, if_true]
    cases op <;> simp [Cmp.toOrd, Val.OrdOp.holds, Cmp.holds]
  · have e1 : F64.lt a b = false := nl h1 (by omega)
    have e2 : F64.lt b a = true := h2.2 h
    have f1 : ¬ ca < cb := by omega
    have f2 : cb ≤ ca := by omega
    have f3 : ¬ ca ≤ cb := by omega
    simp only [e1, e2, Bool.false_eq_true, if_false, if_true]
    cases op <;> simp [Cmp.toOrd, Val.OrdOp.holds, Cmp.holds, h, f1, f2, f3]

/-- `max` as the evaluator computes it is Python's `max` on finite doubles -/
theorem dslMax_eq {x y : F64} (fx : x.isFinite = true) (fy : y.isFinite = true) : dslMax x y = pyMax x y := by
  unfold dslMax pyMax cmpF Val.cmpNum
  by_cases h1 : F64.lt y x = true
  · have h2 : F64.lt x y = false := by
      cases hl : F64.lt x y
      · rfl
      · have a := (lt_iff_sval fy fx).1 h1
        have b := (lt_iff_sval fx fy).1 hl
        omega
    simp [h1, h2, Cmp.toOrd, Val.OrdOp.holds]
  · have h1' : F64.lt y x = false := by simpa using h1
    by_cases h2 : F64.lt x y = true
    · simp [h1', h2, Cmp.toOrd, Val.OrdOp.holds]
    · have h2' : F64.lt x y = false := by simpa using h2
      cases he : F64.eq y x <;> simp [h1', h2', he, Cmp.toOrd, Val.OrdOp.holds]

theorem dslMin_eq (x y : F64) : dslMin x y = pyMin x y := by
  unfold dslMin pyMin cmpF Val.cmpNum
  by_cases h1 : F64.lt y x = true
  · simp [h1, Cmp.toOrd, Val.OrdOp.holds]
  · have h1' : F64.lt y x = false := by simpa using h1
    by_cases h2 : F64.lt x y = true
    · simp [h1', h2, Cmp.toOrd, Val.OrdOp.holds]
    · have h2' : F64.lt x y = false := by simpa using h2
      cases he : F64.eq y x <;> simp [h1', h2', he, Cmp.toOrd, Val.OrdOp.holds]

theorem le_of_lt' {x y : F64} (fx : x.isFinite = true) (fy : y.isFinite = true) (h : F64.lt x y = true) :
    F64.le x y = true := by
  have := (lt_iff_sval fx fy).1 h
  exact (le_iff_sval fx fy).2 (by omega)

theorem le_of_not_lt' {x y : F64} (fx : x.isFinite = true) (fy : y.isFinite = true) (h : ¬ F64.lt x y = true) :
    F64.le y x = true := by
  have : ¬ sval x < sval y := fun hh => h ((lt_iff_sval fx fy).2 hh)
  exact (le_iff_sval fy fx).2 (by omega)

/-- rounding commutes with `max`: the rounding is monotone -/
theorem round_pyMax {x y : F64} {cx cy : Int} (fx : x.isFinite = true) (fy : y.isFinite = true)
    (hx : Cent (roundN x 2) cx) (hy : Cent (roundN y 2) cy) (bx : cx.natAbs < 2 ^ 52) (bY : cy.natAbs < 2 ^ 52) :
    Cent (roundN (pyMax x y) 2) (max cx cy) := by
  unfold pyMax
  by_cases h : F64.lt x y = true
  · simp only [h, if_true]
    have := (cent_le hx hy bx bY).1 (roundN_mono fx fy 2 (le_of_lt' fx fy h))
    rw [Int.max_eq_right this]; exact hy
  · simp only [h]
    have := (cent_le hy hx bY bx).1 (roundN_mono fy fx 2 (le_of_not_lt' fx fy h))
    rw [Int.max_eq_left this]; exact hx

theorem round_pyMin {x y : F64} {cx cy : Int} (fx : x.isFinite = true) (fy : y.isFinite = true)
    (hx : Cent (roundN x 2) cx) (hy : Cent (roundN y 2) cy) (bx : cx.natAbs < 2 ^ 52) (bY : cy.natAbs < 2 ^ 52) :
    Cent (roundN (pyMin x y) 2) (min cx cy) := by
  unfold pyMin
  by_cases h : F64.lt y x = true
  · simp only [h, if_true]
    have := (cent_le hy hx bY bx).1 (roundN_mono fy fx 2 (le_of_lt' fy fx h))
    rw [Int.min_eq_right this]; exact hy
  · simp only [h]
    have := (cent_le hx hy bx bY).1 (roundN_mono fx fy 2 (le_of_not_lt' fy fx h))
    rw [Int.min_eq_left this]; exact hx

theorem isFinite_of_roundN {y : F64} {n : Nat} (h : (roundN y n).isFinite = true) : y.isFinite = true := by
  cases y with
  | finite s m e => rfl
  | inf s => simpa [roundN] using h
  | nan => simpa [roundN] using h

theorem cent_zero_round : Cent (roundN F64.zero 2) 0 := by rw [roundN_zero]; exact Cent_zero

theorem cent_round_self {x : F64} {c : Int} (h : Cent x c) (hc : c.natAbs < 2 ^ 52) : Cent (roundN x 2) c := by
  rw [h.roundN2 hc]; exact h

/-- a difference of two lines is finite -/
theorem sub_finite {a b : F64} {ca cb : Int} (ha : Cent a ca) (hb : Cent b cb)
    (hca : ca.natAbs ≤ 10000000000000) (hcb : cb.natAbs ≤ 10000000000000) : (F64.sub a b).isFinite = true :=
  (Approx.sub (ha.approx (by omega)) (hb.approx (by omega)) (by omega) (by omega) (by omega) (by omega)).1

/-! ### sums written as `((r₀ + r₁) + r₂) + …` -/

theorem chain_eval (σ : String → F64) :
    ∀ (a : AExpr) (ns : List String), chainNames a = some ns →
      ∃ n0 rest, ns = n0 :: rest ∧ evalA σ a = (rest.map σ).foldl F64.add (σ n0) := by
  intro a
  fun_induction chainNames a
  case case1 n => intro ns h; cases h; exact ⟨n, [], rfl, rfl⟩
  case case2 a n ns' h' ih =>
    intro ns h
    cases h
    obtain ⟨n0, rest, rfl, he⟩ := ih ns' h'
    exact ⟨n0, rest ++ [n], rfl, by simp [evalA, he, List.foldl_append]⟩
  case case3 => intro ns h; cases h
  case case4 => intro ns h; cases h

theorem sumOf_cons (c : String → Int) (n : String) (ns : List String) : sumOf c (n :: ns) = c n + sumOf c ns := by
  simp [sumOf]

theorem sumOf_bound (c : String → Int) (B : Nat) (h : ∀ n, (c n).natAbs ≤ B) :
    ∀ ns : List String, (sumOf c ns).natAbs ≤ ns.length * B := by
  intro ns
  induction ns with
  | nil => simp [sumOf]
  | cons n ns ih =>
    rw [sumOf_cons]
    have := h n
    have e : (n :: ns).length * B = B + ns.length * B := by simp [Nat.add_mul]; omega
    omega

theorem sumOf_perm' (c : String → Int) {xs ys : List String} (hp : xs.Perm ys) : sumOf c xs = sumOf c ys := by
  induction hp with
  | nil => rfl
  | cons x _ ih => simp [sumOf_cons, ih]
  | swap x y l => simp [sumOf_cons]; omega
  | trans _ _ ih1 ih2 => exact ih1.trans ih2

theorem sumOf_perm (c : String → Int) {xs ys : List String} (h : xs.isPerm ys = true) : sumOf c xs = sumOf c ys :=
  sumOf_perm' c (List.isPerm_iff.1 h)

/-- a left-nested sum of at most 20 lines rounds to the exact sum of the cents -/
theorem chain_cent {σ : String → F64} {c : String → Int} (hσ : CentStore σ c)
    (a : AExpr) (ns : List String) (h : chainNames a = some ns) (hl : ns.length ≤ 20) :
    Cent (roundN (evalA σ a) 2) (sumOf c ns) ∧ (evalA σ a).isFinite = true ∧
      (sumOf c ns).natAbs ≤ 200000000000000 := by
  obtain ⟨n0, rest, rfl, he⟩ := chain_eval σ a ns h
  have hlen : rest.length + 1 ≤ 20 := by simpa using hl
  have key := cent_foldl_add 10000000000000 (rest.map fun n => (σ n, c n)) (hσ n0).1 (hσ n0).2
    (by
      intro t ht
      obtain ⟨n, _, rfl⟩ := List.mem_map.1 ht
      exact hσ n)
    (by
      simp only [List.length_map]
      have : (rest.length + 1) * (rest.length + 1) ≤ 20 * 20 := Nat.mul_le_mul hlen hlen
      have := Nat.mul_le_mul_right (10000000000000 + 3) this
      rw [two52]; omega)
  have e1 : ((rest.map fun n => (σ n, c n)).map Prod.fst) = rest.map σ := by simp [List.map_map, Function.comp_def]
  have e2 : ((rest.map fun n => (σ n, c n)).map Prod.snd).sum = sumOf c rest := by
    simp [sumOf, List.map_map, Function.comp_def]
  rw [e1, e2, ← he, ← sumOf_cons] at key
  refine ⟨key, isFinite_of_roundN key.isFinite, ?_⟩
  have := sumOf_bound c 10000000000000 (fun n => (hσ n).2) (n0 :: rest)
  have hl' : (n0 :: rest).length ≤ 20 := hl
  have := Nat.mul_le_mul_right 10000000000000 hl'
  omega

/-! ## 3. The certified shapes -/

theorem b52 {z : Int} (h : z.natAbs ≤ 10000000000000) : z.natAbs < 2 ^ 52 := by rw [two52]; omega

/-- the expression rounds to the double of exactly the cents the instruction asks for -/
def Sound (σ : String → F64) (c : String → Int) (a : AExpr) (i : Instr) : Prop :=
  ∃ r, i.evalI c = some r ∧ Cent (roundN (evalA σ a) 2) r

section shapes
variable {σ : String → F64} {c : String → Int} (hσ : CentStore σ c)
include hσ

omit hσ in
theorem isSubOf_eq {a : AExpr} {p q : String} (h : isSubOf a p q = true) : a = .sub (.read p) (.read q) := by
  unfold isSubOf at h
  split at h
  · simp only [Bool.and_eq_true, beq_iff_eq] at h
    obtain ⟨rfl, rfl⟩ := h
    rfl
  · cases h

omit hσ in
theorem isZeroA_eq {a : AExpr} (h : isZeroA a = true) : a = .lit F64.zero := by
  unfold isZeroA at h
  split at h
  · simp only [beq_iff_eq] at h
    subst h; rfl
  · cases h

omit hσ in
theorem isBlankA_eval {a : AExpr} (h : isBlankA a = true) : evalA σ a = F64.zero := by
  unfold isBlankA at h
  split at h
  · rfl
  · rw [isZeroA_eq h]; rfl

theorem sub_sound (p q : String) :
    Cent (roundN (evalA σ (.sub (.read p) (.read q))) 2) (c p - c q) := by
  have hp := hσ p
  have hq := hσ q
  exact cent_sub hp.1 hq.1 (by omega) (by omega)

omit hσ in
/-- `max(0.0, b)` / `max(b, 0.0)` -/
theorem floor_max {b x y : AExpr} {cb : Int} (fb : (evalA σ b).isFinite = true)
    (hb : Cent (roundN (evalA σ b) 2) cb) (bb : cb.natAbs < 2 ^ 52) (h : floorBody x y = some b) :
    Cent (roundN (evalA σ (.max x y)) 2) (max 0 cb) := by
  unfold floorBody at h
  split at h
  · next hx =>
    cases h
    rw [isZeroA_eq hx]
    show Cent (roundN (dslMax F64.zero (evalA σ b)) 2) (max 0 cb)
    rw [dslMax_eq rfl fb]
    exact round_pyMax rfl fb cent_zero_round hb (by decide) bb
  · split at h
    · next hy =>
      cases h
      rw [isZeroA_eq hy]
      show Cent (roundN (dslMax (evalA σ b) F64.zero) 2) (max 0 cb)
      rw [dslMax_eq fb rfl, Int.max_comm]
      exact round_pyMax fb rfl hb cent_zero_round bb (by decide)
    · cases h

omit hσ in
/-- `min(0.0, b)` / `min(b, 0.0)` -/
theorem cap_min {b x y : AExpr} {cb : Int} (fb : (evalA σ b).isFinite = true)
    (hb : Cent (roundN (evalA σ b) 2) cb) (bb : cb.natAbs < 2 ^ 52) (h : floorBody x y = some b) :
    Cent (roundN (evalA σ (.min x y)) 2) (min 0 cb) := by
  unfold floorBody at h
  split at h
  · next hx =>
    cases h
    rw [isZeroA_eq hx]
    show Cent (roundN (dslMin F64.zero (evalA σ b)) 2) (min 0 cb)
    rw [dslMin_eq]
    exact round_pyMin rfl fb cent_zero_round hb (by decide) bb
  · split at h
    · next hy =>
      cases h
      rw [isZeroA_eq hy]
      show Cent (roundN (dslMin (evalA σ b) F64.zero) 2) (min 0 cb)
      rw [dslMin_eq, Int.min_comm]
      exact round_pyMin fb rfl hb cent_zero_round bb (by decide)
    · cases h

theorem chainIs_sound {b : AExpr} {ls : List String} (h : chainIs b ls = true) :
    Cent (roundN (evalA σ b) 2) (sumOf c ls) ∧ (evalA σ b).isFinite = true ∧ (sumOf c ls).natAbs < 2 ^ 52 := by
  unfold chainIs at h
  split at h
  · next ns hns =>
    simp only [Bool.and_eq_true, decide_eq_true_eq] at h
    obtain ⟨h1, h2, h3⟩ := chain_cent hσ b ns hns h.1
    rw [← sumOf_perm c h.2]
    exact ⟨h1, h2, by rw [two52]; omega⟩
  · cases h

omit hσ in
theorem samePair_cases {x y p q : String} (h : samePair x y p q = true) : (x = p ∧ y = q) ∨ (x = q ∧ y = p) := by
  unfold samePair at h
  simp only [Bool.or_eq_true, Bool.and_eq_true, beq_iff_eq] at h
  exact h

theorem flat_sound (a : AExpr) (i : Instr) (h : certifiesFlat a i = true) : Sound σ c a i := by
  unfold certifiesFlat at h
  cases i with
  | blank =>
    simp only at h
    exact ⟨0, rfl, by rw [isBlankA_eval h]; exact cent_zero_round⟩
  | carry p =>
    simp only at h
    split at h
    · simp only [beq_iff_eq] at h
      subst h
      exact ⟨c _, rfl, cent_round_self (hσ _).1 (b52 (hσ _).2)⟩
    · cases h
  | add ls =>
    simp only at h
    exact ⟨_, rfl, (chainIs_sound hσ h).1⟩
  | addFloor0 ls =>
    simp only at h
    split at h
    · split at h
      · next b hb =>
        obtain ⟨h1, h2, h3⟩ := chainIs_sound hσ h
        exact ⟨_, rfl, floor_max h2 h1 h3 hb⟩
      · cases h
    · cases h
  | addCap0 ls =>
    simp only at h
    split at h
    · split at h
      · next b hb =>
        obtain ⟨h1, h2, h3⟩ := chainIs_sound hσ h
        exact ⟨_, rfl, cap_min h2 h1 h3 hb⟩
      · cases h
    · cases h
  | sub p q =>
    simp only at h
    rw [isSubOf_eq h]
    exact ⟨_, rfl, sub_sound hσ p q⟩
  | subFloor0 p q =>
    simp only at h
    split at h
    · split at h
      · next b hb =>
        have e := isSubOf_eq h
        subst e
        have hp := hσ p
        have hq := hσ q
        refine ⟨_, rfl, floor_max (b := .sub (.read p) (.read q)) (sub_finite hp.1 hq.1 hp.2 hq.2)
          (sub_sound hσ p q) ?_ hb⟩
        rw [two52]; omega
      · cases h
    · cases h
  | smaller p q =>
    simp only at h
    split at h
    · next x y =>
      have hx := hσ x
      have hy := hσ y
      refine ⟨min (c p) (c q), rfl, ?_⟩
      show Cent (roundN (dslMin (σ x) (σ y)) 2) _
      rw [dslMin_eq]
      have key := round_pyMin hx.1.isFinite hy.1.isFinite (cent_round_self hx.1 (b52 hx.2))
        (cent_round_self hy.1 (b52 hy.2)) (b52 hx.2) (b52 hy.2)
      rcases samePair_cases h with ⟨rfl, rfl⟩ | ⟨rfl, rfl⟩
      · exact key
      · rw [Int.min_comm]; exact key
    · cases h
  | larger p q =>
    simp only at h
    split at h
    · next x y =>
      have hx := hσ x
      have hy := hσ y
      refine ⟨max (c p) (c q), rfl, ?_⟩
      show Cent (roundN (dslMax (σ x) (σ y)) 2) _
      rw [dslMax_eq hx.1.isFinite hy.1.isFinite]
      have key := round_pyMax hx.1.isFinite hy.1.isFinite (cent_round_self hx.1 (b52 hx.2))
        (cent_round_self hy.1 (b52 hy.2)) (b52 hx.2) (b52 hy.2)
      rcases samePair_cases h with ⟨rfl, rfl⟩ | ⟨rfl, rfl⟩
      · exact key
      · rw [Int.max_comm]; exact key
    · cases h
  | mulRate _ _ _ => cases h
  | mulRateFloor0 _ _ _ => cases h
  | mulRateCap _ _ _ _ => cases h
  | mul _ _ => cases h
  | ratioCap1 _ _ => cases h
  | cond _ _ _ _ _ => cases h

end shapes

/-! ### comparisons choosing between results -/

theorem flip_holds (k : Cmp) (a b : Int) : k.flip.holds b a = k.holds a b := by
  cases k <;> simp [Cmp.flip, Cmp.holds]

theorem neg_holds (k : Cmp) (a b : Int) : k.neg.holds a b = !k.holds a b := by
  cases k <;> simp only [Cmp.neg, Cmp.holds, ← decide_not, decide_eq_decide, ge_iff_le, gt_iff_lt] <;> omega

theorem sameTest_holds {op k : Cmp} {x y p q : String} (h : sameTest op x y k p q = true) (c : String → Int) :
    op.holds (c x) (c y) = k.holds (c p) (c q) := by
  unfold sameTest at h
  simp only [Bool.or_eq_true, Bool.and_eq_true, beq_iff_eq] at h
  rcases h with ⟨⟨rfl, rfl⟩, rfl⟩ | ⟨⟨rfl, rfl⟩, rfl⟩
  · rfl
  · exact flip_holds k _ _

theorem testsAbove_spec {op : Cmp} {x y p q : String} (h : testsAbove op x y p q = true) (c : String → Int) :
    (op.holds (c x) (c y) = true → c q ≤ c p) ∧ (op.holds (c x) (c y) = false → c p ≤ c q) := by
  unfold testsAbove at h
  simp only [Bool.or_eq_true, Bool.and_eq_true, beq_iff_eq, Bool.not_eq_true'] at h
  rcases h with ⟨⟨hg, rfl⟩, rfl⟩ | ⟨⟨hg, rfl⟩, rfl⟩
  · cases op <;> simp [Cmp.isGreater] at hg
    all_goals
      simp only [Cmp.holds, decide_eq_true_eq, decide_eq_false_iff_not]
      constructor <;> intro hh <;> omega
  · cases op <;> simp [Cmp.isGreater] at hg
    all_goals
      simp only [Cmp.holds, decide_eq_true_eq, decide_eq_false_iff_not]
      constructor <;> intro hh <;> omega

theorem floor_cond_evalI (k : Cmp) (p q : String) (c : String → Int)
    (hk : k = .gt ∨ k = .ge) :
    (Instr.cond k p q (.sub p q) .blank).evalI c = some (max 0 (c p - c q)) := by
  rcases hk with rfl | rfl
  · by_cases hh : c p > c q
    · simp only [Instr.evalI, Cmp.holds, hh, decide_true, if_true]
      rw [Int.max_eq_right (by omega)]
    · simp only [Instr.evalI, Cmp.holds, hh, decide_false, Bool.false_eq_true, if_false]
      rw [Int.max_eq_left (by omega)]
  · by_cases hh : c p ≥ c q
    · simp only [Instr.evalI, Cmp.holds, hh, decide_true, if_true]
      rw [Int.max_eq_right (by omega)]
    · simp only [Instr.evalI, Cmp.holds, hh, decide_false, Bool.false_eq_true, if_false]
      rw [Int.max_eq_left (by omega)]

theorem floor_cond_evalI' (k : Cmp) (p q : String) (c : String → Int)
    (hk : k = .lt ∨ k = .le) :
    (Instr.cond k q p (.sub p q) .blank).evalI c = some (max 0 (c p - c q)) := by
  rcases hk with rfl | rfl
  · by_cases hh : c q < c p
    · simp only [Instr.evalI, Cmp.holds, hh, decide_true, if_true]
      rw [Int.max_eq_right (by omega)]
    · simp only [Instr.evalI, Cmp.holds, hh, decide_false, Bool.false_eq_true, if_false]
      rw [Int.max_eq_left (by omega)]
  · by_cases hh : c q ≤ c p
    · simp only [Instr.evalI, Cmp.holds, hh, decide_true, if_true]
      rw [Int.max_eq_right (by omega)]
    · simp only [Instr.evalI, Cmp.holds, hh, decide_false, Bool.false_eq_true, if_false]
      rw [Int.max_eq_left (by omega)]

theorem asFloor_evalI {i : Instr} {p q : String} (h : i.asFloor = some (p, q)) (c : String → Int) :
    i.evalI c = some (max 0 (c p - c q)) := by
  unfold Instr.asFloor at h
  split at h
  · cases h; rfl
  · next k x y a b =>
    cases k with
    | gt =>
      simp only at h
      by_cases hc : (x == a && y == b) = true
      · rw [if_pos hc] at h; cases h
        simp only [Bool.and_eq_true, beq_iff_eq] at hc; obtain ⟨rfl, rfl⟩ := hc
        exact floor_cond_evalI _ _ _ c (Or.inl rfl)
      · rw [if_neg hc] at h; cases h
    | ge =>
      simp only at h
      by_cases hc : (x == a && y == b) = true
      · rw [if_pos hc] at h; cases h
        simp only [Bool.and_eq_true, beq_iff_eq] at hc; obtain ⟨rfl, rfl⟩ := hc
        exact floor_cond_evalI _ _ _ c (Or.inr rfl)
      · rw [if_neg hc] at h; cases h
    | lt =>
      simp only at h
      by_cases hc : (x == b && y == a) = true
      · rw [if_pos hc] at h; cases h
        simp only [Bool.and_eq_true, beq_iff_eq] at hc; obtain ⟨rfl, rfl⟩ := hc
        exact floor_cond_evalI' _ _ _ c (Or.inl rfl)
      · rw [if_neg hc] at h; cases h
    | le =>
      simp only at h
      by_cases hc : (x == b && y == a) = true
      · rw [if_pos hc] at h; cases h
        simp only [Bool.and_eq_true, beq_iff_eq] at hc; obtain ⟨rfl, rfl⟩ := hc
        exact floor_cond_evalI' _ _ _ c (Or.inr rfl)
      · rw [if_neg hc] at h; cases h
  · cases h

section condshapes
variable {σ : String → F64} {c : String → Int} (hσ : CentStore σ c)
include hσ

theorem evalA_iteCmp (op : Cmp) (x y : String) (t e : AExpr) :
    evalA σ (.iteCmp op (.read x) (.read y) t e) = if op.holds (c x) (c y) then evalA σ t else evalA σ e := by
  have hx := hσ x
  have hy := hσ y
  show (if cmpF op (σ x) (σ y) then evalA σ t else evalA σ e) = _
  rw [cmpF_cent op hx.1 hy.1 (b52 hx.2) (b52 hy.2)]

/-- a floor at zero written with a comparison -/
theorem floor_cmp_sound {op : Cmp} {x y p q : String} {t e : AExpr} {i : Instr}
    (hf : i.asFloor = some (p, q))
    (h : ((testsAbove op x y p q && isSubOf t p q && isBlankA e) ||
         (testsAbove op x y q p && isBlankA t && isSubOf e p q)) = true) :
    Sound σ c (.iteCmp op (.read x) (.read y) t e) i := by
  refine ⟨_, asFloor_evalI hf c, ?_⟩
  rw [evalA_iteCmp hσ]
  simp only [Bool.or_eq_true, Bool.and_eq_true] at h
  rcases h with ⟨⟨ht, hs⟩, hb⟩ | ⟨⟨ht, hb⟩, hs⟩
  · have sp := testsAbove_spec ht c
    rw [isSubOf_eq hs]
    cases hh : op.holds (c x) (c y)
    · simp only [Bool.false_eq_true, if_false]
      rw [isBlankA_eval hb, Int.max_eq_left (by have := sp.2 hh; omega)]
      exact cent_zero_round
    · simp only [if_true]
      rw [Int.max_eq_right (by have := sp.1 hh; omega)]
      exact sub_sound hσ p q
  · have sp := testsAbove_spec ht c
    rw [isSubOf_eq hs]
    cases hh : op.holds (c x) (c y)
    · simp only [Bool.false_eq_true, if_false]
      rw [Int.max_eq_right (by have := sp.2 hh; omega)]
      exact sub_sound hσ p q
    · simp only [if_true]
      rw [isBlankA_eval hb, Int.max_eq_left (by have := sp.1 hh; omega)]
      exact cent_zero_round

end condshapes

/-- **soundness of the certified shapes**: on a store of cent-valued doubles the expression rounds to the double of
exactly the number of cents the instruction yields on the operands' cents -/
theorem certifies_sound {σ : String → F64} {c : String → Int} (hσ : CentStore σ c) :
    ∀ (a : AExpr) (i : Instr), certifies a i = true → Sound σ c a i := by
  intro a i
  fun_induction certifies a i
  case case1 op x y t e i iht ihe =>
    intro h
    simp only [Bool.or_eq_true] at h
    rcases h with h | h
    · cases i with
      | cond k p q ti ei =>
        simp only [Bool.or_eq_true, Bool.and_eq_true] at h
        rcases h with ⟨⟨hst, h1⟩, h2⟩ | ⟨⟨hst, h1⟩, h2⟩
        · obtain ⟨r1, hr1, hc1⟩ := iht ti h1
          obtain ⟨r2, hr2, hc2⟩ := ihe ei h2
          unfold Sound
          rw [evalA_iteCmp hσ, sameTest_holds hst c]
          simp only [Instr.evalI]
          cases k.holds (c p) (c q)
          · exact ⟨r2, by simpa using hr2, by simpa using hc2⟩
          · exact ⟨r1, by simpa using hr1, by simpa using hc1⟩
        · obtain ⟨r1, hr1, hc1⟩ := iht ei h1
          obtain ⟨r2, hr2, hc2⟩ := ihe ti h2
          unfold Sound
          rw [evalA_iteCmp hσ, sameTest_holds hst c, neg_holds]
          simp only [Instr.evalI]
          cases k.holds (c p) (c q)
          · exact ⟨r1, by simpa using hr1, by simpa using hc1⟩
          · exact ⟨r2, by simpa using hr2, by simpa using hc2⟩
      | _ => cases h
    · cases hf : i.asFloor with
      | none => rw [hf] at h; cases h
      | some pq =>
        obtain ⟨p, q⟩ := pq
        rw [hf] at h
        exact floor_cmp_sound hσ hf h
  case case2 a i _ =>
    exact flat_sound hσ a i

/-- the line names a line's body reads (when it is a single `return` of an expression of the arithmetic fragment) -/
def lineReads (d : LineDecl) : List String :=
  match d.body with
  | [.ret e] => (match toArith e with
    | some a => a.reads
    | Option.none => [])
  | _ => []

/-- **C02, the certified lines** (`line_matches_instruction`).  If the decidable check `certified d i` holds for the
translated program `d` of a line and the instruction `i` of the official form, then for every store in which the lines
that `d` reads hold cent-valued doubles of at most `10^13` cents, the line EVALUATES (translated body and `FloatField`
wrapper, i.e. `Dsl.evalLine`) to the double of exactly the number of cents that the instruction yields on the operands'
cents. -/
theorem line_matches_instruction (year : YearDecl) (cls : ClassDecl) (inst : Option String) (d : LineDecl)
    (i : Instr) (hcert : certified d i = true)
    (σ : String → F64) (c : String → Int) (hσ : CentStore σ c)
    (vs : String → Option Val) (is : String → InpRes Val) (fs : String → Bool)
    (hs : ∀ n ∈ lineReads d,
      vs (qual { year := year, form := cls.name, inst := inst, thresholds := cls.thresholds } n)
        = some (.float (σ n))) :
    ∃ x r, run vs is fs (evalLine year cls inst d) = .val (.float x) ∧ i.evalI c = some r ∧ Cent x r := by
  unfold certified at hcert
  split at hcert
  · next e hk hb =>
    split at hcert
    · next a ha =>
      simp only [Bool.and_eq_true] at hcert
      obtain ⟨r, hr, hc⟩ := certifies_sound hσ a i hcert.2
      have hs' : ∀ n ∈ a.reads,
          vs (qual { year := year, form := cls.name, inst := inst, thresholds := cls.thresholds } n)
            = some (.float (σ n)) := by
        intro n hn
        apply hs
        simp only [lineReads, hb, ha]
        exact hn
      exact ⟨_, r, evalLine_of_toArith σ vs is fs year cls inst d 2 e a hk hb ha hcert.1 hs', hr, hc⟩
    · cases hcert
  · cases hcert

end HabuVerif.Spec

#print axioms HabuVerif.Spec.runP_value
#print axioms HabuVerif.Spec.runP_result
#print axioms HabuVerif.Spec.evalLine_of_toArith
#print axioms HabuVerif.Spec.cmpF_cent
#print axioms HabuVerif.Spec.chain_cent
#print axioms HabuVerif.Spec.flat_sound
#print axioms HabuVerif.Spec.certifies_sound
#print axioms HabuVerif.Spec.line_matches_instruction
