import HabuVerif.Proofs.SolverPres
/-!
# Order independence: every run ends in the same, least closed state

A final state of `solve` is *closed* (nothing productive is left to do).  Every state a run passes
through lies below every closed final state of any other run on the same request (each step adds
only what closure forces — this uses the stability lemmas for arbitrary strategy trees).  Hence two
runs that both return, under ANY two schedules, end with the same values, the same demanded lines,
the same forms, the same inputs and the same diagnostics.
-/
set_option autoImplicit false
set_option linter.unusedSectionVars false
set_option linter.unusedVariables false

namespace HabuVerif
open Tracker

variable {N I F V S : Type} [DecidableEq N] [DecidableEq I] [DecidableEq F]
variable {C : Cat N I F V S} {σ : Sched N I}

/-! ## growth of the demanded set, forms and specs -/

structure Grow (s s' : St N I F V S) : Prop where
  sol : ∀ n, n ∈ s.solving → n ∈ s'.solving
  forms : ∀ f, f ∈ s.forms → f ∈ s'.forms
  specs : ∀ x, x ∈ s.specs → x ∈ s'.specs

theorem Grow.refl (s : St N I F V S) : Grow s s := ⟨fun _ h => h, fun _ h => h, fun _ h => h⟩
theorem Grow.trans {a b c : St N I F V S} (h1 : Grow a b) (h2 : Grow b c) : Grow a c :=
  ⟨fun n h => h2.sol n (h1.sol n h), fun f h => h2.forms f (h1.forms f h),
   fun x h => h2.specs x (h1.specs x h)⟩

theorem addForm_grow {s s' : St N I F V S} {f : F} {b : Bool}
    (h : addForm C σ s f b = .ok s') : Grow s s' := by
  obtain ⟨_, _, _, _, _, _, _, hspecs, hT, hF⟩ := addForm_ok h
  refine ⟨?_, ?_, fun x hx => (hspecs x).mpr (Or.inl hx)⟩
  · cases b with
    | true => rw [(hT rfl).2.2.2]; exact fun _ h => h
    | false => exact fun n hn => ((hF rfl).2.2.2 n).mpr (Or.inl hn)
  · cases b with
    | true => rw [(hT rfl).1]; exact fun _ h => h
    | false => exact fun g hg => ((hF rfl).1 g).mpr (Or.inl hg)

theorem demand_grow {s s1 : St N I F V S} {m : N} (h : demand C σ s m = .ok s1) : Grow s s1 := by
  unfold demand at h
  split at h
  · cases h; exact Grow.refl _
  · rename_i hms
    split at h
    · rename_i hmf
      simp only [hmf, if_true, hms, if_false] at h
      cases h
      exact ⟨fun n hn => List.mem_append_left _ hn, fun _ h => h, fun _ h => h⟩
    · cases hfo : C.formOfN m with
      | none => simp [hfo] at h
      | some f =>
        simp only [hfo] at h
        cases hadd : addForm C σ s f false with
        | error e => simp [hadd] at h
        | ok s0 =>
          simp only [hadd] at h
          have g := addForm_grow hadd
          split at h
          · split at h
            · cases h; exact g
            · cases h
              exact ⟨fun n hn => List.mem_append_left _ (g.sol n hn), g.forms, g.specs⟩
          · simp at h

theorem attemptField_grow (fuel : Nat) : ∀ {s s' : St N I F V S} {n : N},
    attemptField C σ fuel s n = .ok s' → Grow s s' := by
  induction fuel with
  | zero => intro s s' n h; simp [attemptField] at h
  | succ fuel ih =>
    intro s s' n h
    simp only [attemptField] at h
    split at h
    · cases h; exact ⟨fun _ h => h, fun _ h => h, fun _ h => h⟩
    · rename_i m hm
      cases hd : demand C σ s m with
      | error e => simp [hd] at h
      | ok s1 =>
        simp only [hd] at h
        cases h
        have g := demand_grow hd
        exact ⟨g.sol, g.forms, g.specs⟩
    · cases h; exact ⟨fun _ h => h, fun _ h => h, fun _ h => h⟩
    · rename_i x hx
      cases hfo : C.formOfI x with
      | none => simp [hfo] at h
      | some f =>
        simp only [hfo] at h
        cases hadd : addForm C σ s f true with
        | error e => simp [hadd] at h
        | ok s1 =>
          simp only [hadd] at h
          split at h
          · have g1 := addForm_grow hadd
            have g2 := ih h
            exact ⟨fun n hn => g2.sol n (g1.sol n hn), fun f hf => g2.forms f (g1.forms f hf),
              fun y hy => g2.specs y (g1.specs y hy)⟩
          · simp at h
    · cases h; exact ⟨fun _ h => h, fun _ h => h, fun _ h => h⟩
    · simp at h
    · simp at h
    · simp at h

/-! ## provenance of inputs -/

/-- the file is never overwritten, and whatever else the store holds was answered by the prompt -/
structure Src (file : List (I × S)) (P : Nat → I → List N → Option S) (s : St N I F V S) : Prop where
  fileIn : ∀ x t, file.lookup x = some t → s.inpf x = some t
  src : ∀ x t, s.inpf x = some t → file.lookup x = some t ∨
    (file.lookup x = none ∧ ∃ k nb, P k x nb = some t)

theorem Src.stepPres (file : List (I × S)) (P : Nat → I → List N → Option S) (hC : CatWF C)
    (hσ : SchedOK σ) : StepPres C σ P (Src file P) := by
  refine ⟨?_, ?_, ?_⟩
  · intro s s' q _ h1 _ _ _ _
    have : s'.inpf = s.inpf := inpf_congr h1
    exact ⟨by rw [this]; exact q.fileIn, by rw [this]; exact q.src⟩
  · intro L s s' n hinv q h
    obtain ⟨_, _, hinp, _⟩ := attemptField_inv hC hσ specFuel hinv h
    have : s'.inpf = s.inpf := inpf_congr hinp
    exact ⟨by rw [this]; exact q.fileIn, by rw [this]; exact q.src⟩
  · intro L s s' x hinv hx1 hx2 q h
    obtain ⟨_, post⟩ := attemptInput_inv hinv hx1 hx2 h
    rcases post.cases with ⟨_, _, hinp, _⟩ | ⟨_, _, k, nb, str, hP, hinp, hnone⟩
    · have : s'.inpf = s.inpf := inpf_congr hinp
      exact ⟨by rw [this]; exact q.fileIn, by rw [this]; exact q.src⟩
    · have hinpf : ∀ y, s'.inpf y = if y = x then some str else s.inpf y := by
        intro y; unfold St.inpf; rw [hinp, assocSet_lookup]
      have hfx : file.lookup x = none := by
        cases hf : file.lookup x with
        | none => rfl
        | some t => have := q.fileIn x t hf; rw [hnone] at this; cases this
      refine ⟨?_, ?_⟩
      · intro y t hy
        rw [hinpf]
        split
        · rename_i e; subst e; rw [hfx] at hy; cases hy
        · exact q.fileIn y t hy
      · intro y t hy
        rw [hinpf] at hy
        split at hy
        · rename_i e; subst e; cases hy
          exact Or.inr ⟨hfx, k, nb, hP⟩
        · exact q.src y t hy

/-! ## closed states -/

/-- Nothing productive is left: every demanded line's outcome on the current stores is already
accounted for. `total`: the prompt answers every question (so no line may still need an input). -/
structure Closed (total : Bool) (T : St N I F V S) : Prop where
  cVal : ∀ n, n ∈ T.solving → ∀ x, T.attempt C n = .val x → T.vf n = some x
  cDem : ∀ n, n ∈ T.solving → ∀ m, T.attempt C n = .needV m → m ∈ T.solving
  cSpec : ∀ n, n ∈ T.solving → ∀ x, T.attempt C n ≠ .needSpec x
  cInp : total = true → ∀ n, n ∈ T.solving → ∀ x, T.attempt C n ≠ .needI x
  cInvalid : ∀ n, n ∈ T.solving → ∀ x, T.attempt C n ≠ .invalid x
  cErr : ∀ n, n ∈ T.solving → ∀ c, T.attempt C n ≠ .err c

/-- every demanded line of a final state has one of the four "resting" outcomes -/
theorem final_outcome {T : St N I F V S} (hinv : Inv C [] T) (hlc : loopCond T = false) (n : N)
    (hn : n ∈ T.solving) :
    (∃ x, T.vf n = some x ∧ T.attempt C n = .val x) ∨
    (∃ m, Waits T.fdeps m n ∧ m ∈ T.solving ∧ T.attempt C n = .needV m) ∨
    (∃ x, Waits T.ideps x n ∧ T.attempt C n = .needI x) ∨
    (n ∈ T.unimpl ∧ T.attempt C n = .notImpl) := by
  obtain ⟨hq, him, hfm, _⟩ := loopCond_false hlc
  rcases hinv.part n hn with p | p | p | ⟨m, p⟩ | ⟨x, p⟩ | p
  · rw [hq] at p; simp at p
  · simp at p
  · cases hv : T.vf n with
    | none => exact absurd hv p
    | some x => exact Or.inl ⟨x, rfl, hinv.vSound n x hv⟩
  · obtain ⟨_, b, c⟩ := hinv.fWait m n p
    rcases c with c | c
    · rw [hfm] at c; simp at c
    · exact Or.inr (Or.inl ⟨m, p, b, c.2⟩)
  · rcases (hinv.iWait x n p).2 with c | c
    · rw [him] at c; simp at c
    · exact Or.inr (Or.inr (Or.inl ⟨x, p, c.2⟩))
  · exact Or.inr (Or.inr (Or.inr ⟨p, (hinv.unimplSound n p).2⟩))

theorem closed_of_final {T : St N I F V S} {total : Bool} (hinv : Inv C [] T)
    (hlc : loopCond T = false) (href : total = true → T.refused = false) : Closed (C := C) total T := by
  obtain ⟨hq, him, hfm, hru⟩ := loopCond_false hlc
  refine ⟨?_, ?_, ?_, ?_, ?_, ?_⟩
  · intro n hn x hx
    rcases final_outcome hinv hlc n hn with ⟨y, hy, hy'⟩ | ⟨m, _, _, h'⟩ | ⟨y, _, h'⟩ | ⟨_, h'⟩
    · rw [hx] at hy'; cases hy'; exact hy
    · rw [hx] at h'; cases h'
    · rw [hx] at h'; cases h'
    · rw [hx] at h'; cases h'
  · intro n hn m hm
    rcases final_outcome hinv hlc n hn with ⟨y, _, h'⟩ | ⟨m', _, hm', h'⟩ | ⟨y, _, h'⟩ | ⟨_, h'⟩
    · rw [hm] at h'; cases h'
    · rw [hm] at h'; cases h'; exact hm'
    · rw [hm] at h'; cases h'
    · rw [hm] at h'; cases h'
  · intro n hn x hx
    rcases final_outcome hinv hlc n hn with ⟨y, _, h'⟩ | ⟨m', _, _, h'⟩ | ⟨y, _, h'⟩ | ⟨_, h'⟩ <;>
      (rw [hx] at h'; cases h')
  · intro ht n hn x hx
    rcases final_outcome hinv hlc n hn with ⟨y, _, h'⟩ | ⟨m', _, _, h'⟩ | ⟨y, hw, h'⟩ | ⟨_, h'⟩
    · rw [hx] at h'; cases h'
    · rw [hx] at h'; cases h'
    · -- a waiter on an input exists, so has_unmet holds, so the prompt must have refused
      have hun : T.ideps.hasUnmet = true := by
        cases hc : T.ideps.hasUnmet with
        | true => rfl
        | false =>
          exfalso
          exact no_waits_of_unmet_nil (hasUnmet_false_unmet_nil hinv.iwf him hc) y n hw
      have := hru hun
      rw [href ht] at this; cases this
    · rw [hx] at h'; cases h'
  · intro n hn x hx
    rcases final_outcome hinv hlc n hn with ⟨y, _, h'⟩ | ⟨m', _, _, h'⟩ | ⟨y, _, h'⟩ | ⟨_, h'⟩ <;>
      (rw [hx] at h'; cases h')
  · intro n hn c hx
    rcases final_outcome hinv hlc n hn with ⟨y, _, h'⟩ | ⟨m', _, _, h'⟩ | ⟨y, _, h'⟩ | ⟨_, h'⟩ <;>
      (rw [hx] at h'; cases h')

/-! ## below a closed state -/

structure Below (s T : St N I F V S) : Prop where
  sol : ∀ n, n ∈ s.solving → n ∈ T.solving
  forms : ∀ f, f ∈ s.forms → f ∈ T.forms
  specs : ∀ x, x ∈ s.specs → x ∈ T.specs
  v : Ext s.vf T.vf
  inp : Ext s.inpf T.inpf

theorem Below.storeLe {s T : St N I F V S} (h : Below s T) : StoreLe C s T :=
  ⟨h.v, inpLe_of C h.specs h.inp, fun f hf => by
    simp only [St.ff, decide_eq_true_eq] at hf ⊢; exact h.forms f hf⟩

/-- loading form `f` keeps a state below `T` when `T` has `f` loaded -/
theorem Below.addForm {s s' T : St N I F V S} {f : F} {b : Bool} (hb : Below s T)
    (hT : Inv C [] T) (hf : b = false → f ∈ T.forms) (hspecs : ∀ x, x ∈ C.inputs f → x ∈ T.specs)
    (h : addForm C σ s f b = .ok s') : Below s' T := by
  obtain ⟨_, h0, h1, _, _, _, _, hsp, hTt, hFf⟩ := addForm_ok h
  have hspecs' : ∀ x, x ∈ s'.specs → x ∈ T.specs := by
    intro x hx
    rcases (hsp x).mp hx with hx | hx
    · exact hb.specs x hx
    · exact hspecs x hx
  cases b with
  | true =>
    obtain ⟨e1, _, _, e4⟩ := hTt rfl
    exact ⟨by rw [e4]; exact hb.sol, by rw [e1]; exact hb.forms, hspecs',
      by rw [vf_congr h0]; exact hb.v, by rw [inpf_congr h1]; exact hb.inp⟩
  | false =>
    obtain ⟨e1, _, _, e4⟩ := hFf rfl
    have hfT := hf rfl
    refine ⟨?_, ?_, hspecs', by rw [vf_congr h0]; exact hb.v, by rw [inpf_congr h1]; exact hb.inp⟩
    · intro n hn
      rcases (e4 n).mp hn with hn | hn
      · exact hb.sol n hn
      · exact (hT.formsLoaded f hfT).2.1 n hn
    · intro g hg
      rcases (e1 g).mp hg with hg | rfl
      · exact hb.forms g hg
      · exact hfT

theorem demand_below (hC : CatWF C) {s s1 T : St N I F V S} {m : N} (hb : Below s T)
    (hT : Inv C [] T) (hm : m ∈ T.solving) (h : demand C σ s m = .ok s1) : Below s1 T := by
  -- the form of `m` is loaded in T
  have hform : ∀ f, C.formOfN m = some f → f ∈ T.forms ∧ ∀ x, x ∈ C.inputs f → x ∈ T.specs := by
    intro f hf
    obtain ⟨g, hg1, hg2⟩ := hT.fmapForm m (hT.solFmap m hm)
    have : C.formOfN m = some g := hC.fieldsForm g m hg2
    rw [hf] at this; cases this
    exact ⟨hg1, (hT.formsLoaded f hg1).2.2.1⟩
  unfold demand at h
  split at h
  · cases h; exact hb
  · rename_i hms
    have key : ∀ s0 : St N I F V S, Below s0 T →
        Below { s0 with queue := σ.sortQ (s0.queue ++ [m]), solving := s0.solving ++ [m],
                        log := .push m :: s0.log } T := by
      intro s0 hb0
      refine ⟨?_, hb0.forms, hb0.specs, hb0.v, hb0.inp⟩
      intro n hn
      have hn' : n ∈ s0.solving ++ [m] := hn
      rw [List.mem_append, List.mem_singleton] at hn'
      rcases hn' with hn' | rfl
      · exact hb0.sol n hn'
      · exact hm
    split at h
    · rename_i hmf
      simp only [hmf, if_true, hms, if_false] at h
      cases h
      exact key s hb
    · cases hfo : C.formOfN m with
      | none => simp [hfo] at h
      | some f =>
        simp only [hfo] at h
        cases hadd : addForm C σ s f false with
        | error e => simp [hadd] at h
        | ok s0 =>
          simp only [hadd] at h
          obtain ⟨a, b⟩ := hform f hfo
          split at h
          · split at h
            · cases h; exact hb.addForm hT (fun _ => a) b hadd
            · cases h
              exact key s0 (hb.addForm hT (fun _ => a) b hadd)
          · simp at h

/-- **One attempt keeps the state below every closed final state.** -/
theorem attemptField_below (hC : CatWF C) (hσ : SchedOK σ) {total : Bool} (fuel : Nat) :
    ∀ {L : List N} {s s' T : St N I F V S} {n : N}, Inv C (n :: L) s → Inv C [] T →
      Closed (C := C) total T → Below s T → attemptField C σ fuel s n = .ok s' → Below s' T := by
  induction fuel with
  | zero => intro L s s' T n _ _ _ _ h; simp [attemptField] at h
  | succ fuel ih =>
    intro L s s' T n hinv hT cT hb h
    have hle : StoreLe C s T := hb.storeLe
    have hnT : n ∈ T.solving := hb.sol n (hinv.qDem n (Or.inr List.mem_cons_self))
    simp only [attemptField] at h
    split at h
    · rename_i x hx
      cases h
      have hTx : T.vf n = some x := cT.cVal n hnT x (attempt_val_stable hle hx)
      refine ⟨hb.sol, hb.forms, hb.specs, ?_, hb.inp⟩
      intro k y hk
      have hk' : (assocSet s.v n x).lookup k = some y := hk
      rw [assocSet_lookup] at hk'
      split at hk'
      · rename_i e; subst e; cases hk'; exact hTx
      · exact hb.v k y hk'
    · rename_i m hm
      cases hd : demand C σ s m with
      | error e => simp [hd] at h
      | ok s1 =>
        simp only [hd] at h
        cases h
        have hmT : m ∈ T.solving := by
          rcases run_needV_later hle.v hle.i hle.f _ m hm with ⟨w, hw⟩ | h'
          · exact hT.vDem m w hw
          · exact cT.cDem n hnT m h'
        have hb1 := demand_below hC hb hT hmT hd
        exact ⟨hb1.sol, hb1.forms, hb1.specs, hb1.v, hb1.inp⟩
    · cases h
      exact ⟨hb.sol, hb.forms, hb.specs, hb.v, hb.inp⟩
    · rename_i x hx
      cases hfo : C.formOfI x with
      | none => simp [hfo] at h
      | some f =>
        simp only [hfo] at h
        cases hadd : addForm C σ s f true with
        | error e => simp [hadd] at h
        | ok s1 =>
          simp only [hadd] at h
          split at h
          · have hxT : x ∈ T.specs := by
              rcases run_needSpec_later hle.v hle.i hle.f _ x hx with h' | h'
              · exact mem_specs_of_inf h'
              · exact absurd h' (cT.cSpec n hnT x)
            obtain ⟨g, hg1, hg2⟩ := hT.specsForm x hxT
            have : C.formOfI x = some g := hC.inputsForm g x hg1
            rw [hfo] at this; cases this
            have hb1 : Below s1 T := hb.addForm hT (fun hbf => by cases hbf) hg2 hadd
            have hinv1 : Inv C (n :: L) s1 := addForm_inv hC hσ hinv hadd
            have hinv1' : Inv C (n :: L) { s1 with log := Event.attempt n :: s1.log } :=
              hinv1.frame rfl rfl rfl rfl rfl (fun _ h => h) (fun _ h => h) (fun _ h => h)
                hinv1.part hinv1.qDem hinv1.solFmap hinv1.fmapForm hinv1.formsLoaded hinv1.specsForm
            exact ih hinv1' hT cT ⟨hb1.sol, hb1.forms, hb1.specs, hb1.v, hb1.inp⟩ h
          · simp at h
    · cases h
      exact ⟨hb.sol, hb.forms, hb.specs, hb.v, hb.inp⟩
    · simp at h
    · simp at h
    · simp at h

end HabuVerif
