import HabuVerif.Proofs.F64Cents
/-!
# The whole-dollar bridge: `places=0` lines are exact integers of dollars

The North Carolina D-400 lines are `FloatField(..., places=0)`: what is stored is `round(e, 0)`, a double
whose value is an integer.  `Dollar x d` says "`x` is a canonical finite double whose exact value is the
integer `d`" (for `d ≠ 0` that is `x = float(d)`, `Dollar.eq_ofIntD`; for `d = 0` it is `0.0` or `-0.0`).

Integers below `2^53` are exactly representable, so — unlike the cents bridge (`F64Cents.lean`), where
every operation has a rounding error that has to be budgeted — `+`, `-`, unary minus and the
comparisons of dollar-valued doubles ARE the integer operations, with no error at all, as long as the
exact result stays below `2^53` (about `9·10^15`; the money range used is `10^13`).

Units: exact values (`sval`) are integers in units of `2^-1074`; `one = 2^1074` is one dollar.
-/

set_option autoImplicit false
set_option linter.unusedVariables false

namespace HabuVerif.F64

/-- `x` is a canonical finite double whose exact value is the integer `d` -/
def Dollar (x : F64) (d : Int) : Prop := WF x ∧ x.isFinite = true ∧ sval x = d * (one : Int)

theorem Dollar.wf {x : F64} {d : Int} (h : Dollar x d) : WF x := h.1
theorem Dollar.isFinite {x : F64} {d : Int} (h : Dollar x d) : x.isFinite = true := h.2.1
theorem Dollar.sval_eq {x : F64} {d : Int} (h : Dollar x d) : sval x = d * (one : Int) := h.2.2
theorem Dollar.isNaN {x : F64} {d : Int} (h : Dollar x d) : x.isNaN = false :=
  isNaN_of_isFinite h.isFinite

theorem Dollar_zero : Dollar zero 0 := ⟨by decide, rfl, by simp [sval, zero, signed]⟩
theorem Dollar_negZero : Dollar negZero 0 := ⟨by decide, rfl, by simp [sval, negZero, signed]⟩

theorem one_pos_int : (0 : Int) < (one : Int) := by exact_mod_cast one_pos

theorem mul_one_lt_iff {a b : Int} : a * (one : Int) < b * (one : Int) ↔ a < b :=
  ⟨fun h => Int.lt_of_mul_lt_mul_right h (Int.le_of_lt one_pos_int),
   fun h => Int.mul_lt_mul_of_pos_right h one_pos_int⟩

theorem mul_one_le_iff {a b : Int} : a * (one : Int) ≤ b * (one : Int) ↔ a ≤ b := by
  have := @mul_one_lt_iff b a
  omega

theorem mul_one_eq_iff {a b : Int} : a * (one : Int) = b * (one : Int) ↔ a = b := by
  have h1 := @mul_one_le_iff a b
  have h2 := @mul_one_le_iff b a
  omega

/-- a double is dollar-valued for at most one integer -/
theorem Dollar_unique {x : F64} {d d' : Int} (h : Dollar x d) (h' : Dollar x d') : d = d' :=
  mul_one_eq_iff.1 (by rw [← h.sval_eq, ← h'.sval_eq])

/-- `float(d)` is dollar-valued, for `|d| < 2^53` -/
theorem Dollar_ofIntD {d : Int} (h : d.natAbs < 2 ^ 53) : Dollar (ofIntD d) d := by
  obtain ⟨c, hc, hf, hw, hs⟩ := ofInt_exact h
  have : c = ofIntD d := by
    unfold ofInt at hc
    split at hc
    · cases hc
    · injection hc with hc; exact hc.symm
  subst this
  exact ⟨hw, hf, hs⟩

/-- a dollar-valued double of a non-zero amount IS `float(d)`, bit for bit -/
theorem Dollar.eq_ofIntD {x : F64} {d : Int} (h : Dollar x d) (hd : d ≠ 0) (hr : d.natAbs < 2 ^ 53) :
    x = ofIntD d := by
  have h' := Dollar_ofIntD hr
  apply eq_of_sval_eq h.wf h'.wf h.isFinite h'.isFinite _ (by rw [h.sval_eq, h'.sval_eq])
  have hne : d * (one : Int) ≠ 0 := by
    intro h0
    exact hd (mul_one_eq_iff.1 (by rw [h0]; simp))
  have h1 := h.sval_eq
  have h2 := h'.sval_eq
  obtain ⟨s1, m1, e1, e1'⟩ := exists_finite h.isFinite
  obtain ⟨s2, m2, e2, e2'⟩ := exists_finite h'.isFinite
  rw [e1'] at h1 ⊢
  rw [e2'] at h2 ⊢
  simp only [sval] at h1 h2
  simp only [signBit]
  generalize d * (one : Int) = v at h1 h2 hne
  generalize m1 * 2 ^ e1 = M1 at h1
  generalize m2 * 2 ^ e2 = M2 at h2
  cases s1 <;> cases s2 <;> simp only [signed, if_true, Bool.false_eq_true, if_false] at h1 h2 <;>
    first | rfl | (exfalso; omega)

/-- a dollar amount is a cent amount: `d` dollars are `100·d` cents -/
theorem Dollar.cent {x : F64} {d : Int} (h : Dollar x d) (hr : d.natAbs < 2 ^ 53) : Cent x (100 * d) := by
  rw [cent_iff]
  exact ⟨h.wf, h.isFinite, by rw [h.sval_eq, cv_dollars hr]⟩

/-! ## exact integers survive the rounding of an operation -/

theorem two_pow_53_one_lt_huge : 2 ^ 53 * one < huge := by
  have h1 : 2 ^ 53 * one ≤ 2 ^ 60 * one := Nat.mul_le_mul_right one (by decide)
  exact Nat.lt_of_le_of_lt h1 big_lt_huge

/-- rounding an integer below `2^53` (to a double) returns it -/
theorem R_int {d : Int} (h : d.natAbs < 2 ^ 53) : R (d * (one : Int)) 1 = d * (one : Int) := by
  obtain ⟨c, _, hf, hw, hs⟩ := ofInt_exact h
  have := R_exact hf hw (D := 1) (by decide)
  rw [hs] at this
  simpa using this

/-- the result of an operation whose correctly rounded exact value is the integer `d` is dollar-valued -/
theorem Dollar_of_ev {y : F64} {d : Int} (hw : WF y) (ho : Out y) (hev : ev y = R (d * (one : Int)) 1)
    (h : d.natAbs < 2 ^ 53) : Dollar y d := by
  rw [R_int h] at hev
  have hlt := two_pow_53_one_lt_huge
  have hfin : y.isFinite = true := by
    apply isFinite_of_ev_lt ho
    rw [hev, Int.natAbs_mul, Int.natAbs_natCast]
    exact Nat.lt_trans (Nat.mul_lt_mul_of_pos_right h one_pos) hlt
  exact ⟨hw, hfin, by rw [← ev_eq_sval hfin, hev]⟩

/-! ## `+`, `-`, unary minus -/

/-- `a + b` of dollar-valued doubles is EXACTLY the double of `da + db` (no rounding at all) -/
theorem dollar_add {a b : F64} {da db : Int} (ha : Dollar a da) (hb : Dollar b db)
    (h : (da + db).natAbs < 2 ^ 53) : Dollar (add a b) (da + db) := by
  apply Dollar_of_ev (wf_add a b) (out_add ha.isFinite hb.isFinite) _ h
  rw [ev_add ha.isFinite hb.isFinite, ha.sval_eq, hb.sval_eq, Int.add_mul]

theorem dollar_neg {a : F64} {da : Int} (ha : Dollar a da) : Dollar (neg a) (-da) :=
  ⟨wf_neg ha.wf, by rw [isFinite_neg]; exact ha.isFinite, by rw [sval_neg, ha.sval_eq, Int.neg_mul]⟩

theorem dollar_sub {a b : F64} {da db : Int} (ha : Dollar a da) (hb : Dollar b db)
    (h : (da - db).natAbs < 2 ^ 53) : Dollar (sub a b) (da - db) := by
  have := dollar_add ha (dollar_neg hb) (by rwa [← Int.sub_eq_add_neg])
  rwa [← Int.sub_eq_add_neg] at this

/-! ## `round(·, 0)` -/

/-- a dollar-valued double is a fixed point of `round(·, n)` for every `n`, bit for bit -/
theorem Dollar.roundN {x : F64} {d : Int} (h : Dollar x d) (n : Nat) : roundN x n = x := by
  apply roundN_fixed h.isFinite h.wf n
  rw [h.sval_eq, Int.natAbs_mul, Int.natAbs_natCast]
  exact ⟨d.natAbs * 10 ^ n, by ring⟩

theorem Dollar.roundN0 {x : F64} {d : Int} (h : Dollar x d) : F64.roundN x 0 = x := h.roundN 0

/-- **every stored `places=0` line is dollar-valued**: for a finite `x` with `|x| < 2^52`,
`round(x, 0)` is the double of the integer `round_half_even(x)` — this discharges the `Dollar`
hypotheses of the theorems about stored lines -/
theorem dollar_roundN0 {x : F64} (hx : x.isFinite = true) (hb : (sval x).natAbs < 2 ^ 52 * one) :
    ∃ d : Int, Dollar (F64.roundN x 0) d ∧ d.natAbs ≤ 2 ^ 52 := by
  obtain ⟨s, m, e, rfl⟩ := exists_finite hx
  simp only [sval, signed_natAbs] at hb
  have hk : rneDiv (m * 2 ^ e * 10 ^ 0) one ≤ 2 ^ 52 := by
    apply rneDiv_le_of_lt one_pos
    rw [Nat.pow_zero, Nat.mul_one, Nat.mul_comm one]; exact hb
  refine ⟨signed s (rneDiv (m * 2 ^ e * 10 ^ 0) one), ?_, by rw [signed_natAbs]; exact hk⟩
  apply Dollar_of_ev
  · rw [roundN_finite_def _ _ _ _ (by decide)]; exact wf_ofScaled _ (ten_pow_pos 0)
  · rw [roundN_finite_def _ _ _ _ (by decide)]; exact out_ofScaled _ (ten_pow_pos 0)
  · rw [ev_roundN s m e 0 (by decide), signed_mul]; rfl
  · rw [signed_natAbs]
    have : (2 : Nat) ^ 52 < 2 ^ 53 := by decide
    omega

/-- the converse reading, with NO assumption on the argument: whatever `round(x, 0)` is, if it is finite
and below `2^52` in magnitude then it is dollar-valued (`x` may be any double, of any size) -/
theorem dollar_of_roundN0 {x : F64} (hf : (F64.roundN x 0).isFinite = true)
    (hb : (sval (F64.roundN x 0)).natAbs < 2 ^ 52 * one) :
    ∃ d : Int, Dollar (F64.roundN x 0) d ∧ d.natAbs < 2 ^ 52 := by
  cases x with
  | nan => simp [F64.roundN, F64.isFinite] at hf
  | inf s => simp [F64.roundN, F64.isFinite] at hf
  | finite s m e =>
    have hev := ev_roundN s m e 0 (by decide)
    rw [ev_eq_sval hf, signed_mul] at hev
    have hw : WF (F64.roundN (finite s m e) 0) := by
      rw [roundN_finite_def _ _ _ _ (by decide)]; exact wf_ofScaled _ (ten_pow_pos 0)
    have ho : Out (F64.roundN (finite s m e) 0) := by
      rw [roundN_finite_def _ _ _ _ (by decide)]; exact out_ofScaled _ (ten_pow_pos 0)
    have hev0 := ev_roundN s m e 0 (by decide)
    rw [signed_mul] at hev0
    generalize rneDiv (m * 2 ^ e * 10 ^ 0) one = k at hev hev0
    generalize F64.roundN (finite s m e) 0 = y at *
    have h52 : R ((2 ^ 52 : Int) * (one : Int)) 1 = (2 ^ 52 : Int) * (one : Int) :=
      R_int (d := 2 ^ 52) (by decide)
    have hklt : k < 2 ^ 52 := by
      by_contra hcon
      have hk52 : ((2 ^ 52 : Nat) : Int) ≤ (k : Int) := by exact_mod_cast Nat.le_of_not_lt hcon
      have hk52' : (2 ^ 52 : Int) * (one : Int) ≤ (k : Int) * (one : Int) :=
        Int.mul_le_mul_of_nonneg_right (by simpa using hk52) (Int.natCast_nonneg _)
      cases s
      · have hm : R ((2 ^ 52 : Int) * (one : Int)) 1 ≤ R (signed false k * (one : Int)) (10 ^ 0) :=
          R_mono (by decide) (by decide) (by simpa [signed] using hk52')
        rw [h52, ← hev] at hm
        clear hk52' hev0 hev
        generalize sval y = v at *
        omega
      · have hm : R (signed true k * (one : Int)) (10 ^ 0) ≤ R (-((2 ^ 52 : Int) * (one : Int))) 1 :=
          R_mono (by decide) (by decide) (by simp only [signed, if_true, Int.neg_mul]; simpa using hk52')
        rw [R_neg, h52, ← hev] at hm
        clear hk52' hev0 hev
        generalize sval y = v at *
        omega
    refine ⟨signed s k, ?_, by rw [signed_natAbs]; exact hklt⟩
    apply Dollar_of_ev hw ho hev0
    rw [signed_natAbs]
    have : (2 : Nat) ^ 52 < 2 ^ 53 := by decide
    omega

/-! ## the forms `round(a ± b, 0)` as they are stored, in the money range `10^13` -/

theorem natAbs_add_lt {a b : Int} (ha : a.natAbs ≤ 10000000000000) (hb : b.natAbs ≤ 10000000000000) :
    (a + b).natAbs < 2 ^ 53 := by
  have : (2 : Nat) ^ 53 = 9007199254740992 := by decide
  omega

theorem natAbs_sub_lt {a b : Int} (ha : a.natAbs ≤ 10000000000000) (hb : b.natAbs ≤ 10000000000000) :
    (a - b).natAbs < 2 ^ 53 := by
  have : (2 : Nat) ^ 53 = 9007199254740992 := by decide
  omega

/-- **the bridge for `+`**: `round(a + b, 0)` of dollar-valued doubles is the double of `da + db` -/
theorem dollar_roundN_add {a b : F64} {da db : Int} (ha : Dollar a da) (hb : Dollar b db)
    (hda : da.natAbs ≤ 10000000000000) (hdb : db.natAbs ≤ 10000000000000) :
    Dollar (F64.roundN (add a b) 0) (da + db) := by
  have h := dollar_add ha hb (natAbs_add_lt hda hdb)
  rwa [h.roundN0]

/-- **the bridge for `-`** -/
theorem dollar_roundN_sub {a b : F64} {da db : Int} (ha : Dollar a da) (hb : Dollar b db)
    (hda : da.natAbs ≤ 10000000000000) (hdb : db.natAbs ≤ 10000000000000) :
    Dollar (F64.roundN (sub a b) 0) (da - db) := by
  have h := dollar_sub ha hb (natAbs_sub_lt hda hdb)
  rwa [h.roundN0]

theorem dollar_roundN_neg {a : F64} {da : Int} (ha : Dollar a da) :
    Dollar (F64.roundN (neg a) 0) (-da) := by
  have h := dollar_neg ha
  rwa [h.roundN0]

/-! ## left-nested sums `x0 + x1 + x2 + …` with no intermediate rounding -/

/-- the general form: every term at most `B` dollars, `(n+1)·B < 2^53` -/
theorem dollar_foldl_add (B : Nat) (xs : List (F64 × Int)) :
    ∀ (k : Nat) (x0 : F64) (d0 : Int), Dollar x0 d0 → d0.natAbs ≤ k * B →
      (∀ t ∈ xs, Dollar t.1 t.2 ∧ t.2.natAbs ≤ B) → (k + xs.length) * B < 2 ^ 53 →
      Dollar ((xs.map Prod.fst).foldl add x0) (d0 + (xs.map Prod.snd).sum) ∧
        (d0 + (xs.map Prod.snd).sum).natAbs ≤ (k + xs.length) * B := by
  induction xs with
  | nil => intro k x0 d0 h0 hd0 _ _; simpa using ⟨h0, hd0⟩
  | cons t ts ih =>
    intro k x0 d0 h0 hd0 hts hbud
    have ht := hts t (List.mem_cons_self ..)
    have hlen : k + (t :: ts).length = (k + 1) + ts.length := by simp; omega
    rw [hlen] at hbud ⊢
    have hk1 : (k + 1) * B ≤ (k + 1 + ts.length) * B := Nat.mul_le_mul_right B (by omega)
    have e : (k + 1) * B = k * B + B := by ring
    have hsum : (d0 + t.2).natAbs ≤ (k + 1) * B := by omega
    have hadd := dollar_add h0 ht.1 (by omega)
    have := ih (k + 1) (add x0 t.1) (d0 + t.2) hadd hsum
      (fun t' ht' => hts t' (List.mem_cons_of_mem _ ht')) hbud
    simpa [List.foldl, Int.add_assoc] using this

/-- **chains**: `round(x0 + x1 + … + xn, 0)` (left-nested, `n ≤ 7`, i.e. up to 8 terms of at most
`10^13` dollars each) is the double of the integer sum -/
theorem dollar_roundN_sum8 {x0 : F64} {d0 : Int} (xs : List (F64 × Int)) (hn : xs.length ≤ 7)
    (h0 : Dollar x0 d0) (hd0 : d0.natAbs ≤ 10000000000000)
    (hxs : ∀ t ∈ xs, Dollar t.1 t.2 ∧ t.2.natAbs ≤ 10000000000000) :
    Dollar (F64.roundN ((xs.map Prod.fst).foldl add x0) 0) (d0 + (xs.map Prod.snd).sum) ∧
      (d0 + (xs.map Prod.snd).sum).natAbs ≤ 8 * 10000000000000 := by
  have hbud : (1 + xs.length) * 10000000000000 < 2 ^ 53 := by
    have : (1 + xs.length) * 10000000000000 ≤ 8 * 10000000000000 := Nat.mul_le_mul_right _ (by omega)
    have h8 : 8 * 10000000000000 < 2 ^ 53 := by norm_num
    exact Nat.lt_of_le_of_lt this h8
  obtain ⟨h, hb⟩ := dollar_foldl_add 10000000000000 xs 1 x0 d0 h0 (by omega) hxs hbud
  refine ⟨by rwa [h.roundN0], ?_⟩
  have : (1 + xs.length) * 10000000000000 ≤ 8 * 10000000000000 := Nat.mul_le_mul_right _ (by omega)
  exact Nat.le_trans hb this

/-! ## order -/

/-- `a < b` on dollar-valued doubles is `<` on the integers (no range condition) -/
theorem dollar_lt {a b : F64} {da db : Int} (ha : Dollar a da) (hb : Dollar b db) :
    lt a b = true ↔ da < db := by
  rw [lt_iff_sval ha.isFinite hb.isFinite, ha.sval_eq, hb.sval_eq, mul_one_lt_iff]

theorem dollar_le {a b : F64} {da db : Int} (ha : Dollar a da) (hb : Dollar b db) :
    le a b = true ↔ da ≤ db := by
  rw [le_iff_sval ha.isFinite hb.isFinite, ha.sval_eq, hb.sval_eq, mul_one_le_iff]

theorem dollar_gt {a b : F64} {da db : Int} (ha : Dollar a da) (hb : Dollar b db) :
    gt a b = true ↔ db < da := dollar_lt hb ha

theorem dollar_ge {a b : F64} {da db : Int} (ha : Dollar a da) (hb : Dollar b db) :
    ge a b = true ↔ db ≤ da := dollar_le hb ha

theorem dollar_eq {a b : F64} {da db : Int} (ha : Dollar a da) (hb : Dollar b db) :
    eq a b = true ↔ da = db := by
  rw [eq_iff_sval ha.isFinite hb.isFinite, ha.sval_eq, hb.sval_eq, mul_one_eq_iff]

theorem dollar_lt_false {a b : F64} {da db : Int} (ha : Dollar a da) (hb : Dollar b db) :
    lt a b = false ↔ db ≤ da := by
  have := dollar_lt ha hb
  cases h : lt a b <;> simp [h] at this ⊢ <;> omega

/-- comparison with a Python int -/
theorem dollar_ltInt {a : F64} {da : Int} (ha : Dollar a da) (n : Int) : ltInt a n = true ↔ da < n := by
  rw [ltInt_iff ha.isFinite, ha.sval_eq, mul_one_lt_iff]
theorem dollar_geInt {a : F64} {da : Int} (ha : Dollar a da) (n : Int) : geInt a n = true ↔ n ≤ da := by
  rw [geInt_iff ha.isFinite, ha.sval_eq, mul_one_le_iff]

/-- `max` / `min` -/
theorem dollar_pyMax {a b : F64} {da db : Int} (ha : Dollar a da) (hb : Dollar b db) :
    Dollar (pyMax a b) (max da db) := by
  unfold pyMax
  have h := dollar_lt ha hb
  split
  · next hl => rw [Int.max_eq_right (Int.le_of_lt (h.1 hl))]; exact hb
  · next hl => rw [Int.max_eq_left (by have := mt h.2 hl; omega)]; exact ha

theorem dollar_pyMin {a b : F64} {da db : Int} (ha : Dollar a da) (hb : Dollar b db) :
    Dollar (pyMin a b) (min da db) := by
  unfold pyMin
  have h := dollar_lt hb ha
  split
  · next hl => rw [Int.min_eq_right (Int.le_of_lt (h.1 hl))]; exact hb
  · next hl => rw [Int.min_eq_left (by have := mt h.2 hl; omega)]; exact ha

end HabuVerif.F64

#print axioms HabuVerif.F64.Dollar_ofIntD
#print axioms HabuVerif.F64.Dollar.eq_ofIntD
#print axioms HabuVerif.F64.Dollar.cent
#print axioms HabuVerif.F64.Dollar_unique
#print axioms HabuVerif.F64.dollar_add
#print axioms HabuVerif.F64.dollar_sub
#print axioms HabuVerif.F64.dollar_neg
#print axioms HabuVerif.F64.Dollar.roundN
#print axioms HabuVerif.F64.dollar_roundN0
#print axioms HabuVerif.F64.dollar_of_roundN0
#print axioms HabuVerif.F64.dollar_roundN_add
#print axioms HabuVerif.F64.dollar_roundN_sub
#print axioms HabuVerif.F64.dollar_roundN_neg
#print axioms HabuVerif.F64.dollar_foldl_add
#print axioms HabuVerif.F64.dollar_roundN_sum8
#print axioms HabuVerif.F64.dollar_lt
#print axioms HabuVerif.F64.dollar_le
#print axioms HabuVerif.F64.dollar_gt
#print axioms HabuVerif.F64.dollar_ge
#print axioms HabuVerif.F64.dollar_eq
#print axioms HabuVerif.F64.dollar_pyMax
#print axioms HabuVerif.F64.dollar_pyMin
