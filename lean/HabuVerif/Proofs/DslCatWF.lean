import HabuVerif.Dsl.Cat
import HabuVerif.Proofs.SolverBasics
/-!
# The translated forms are a well-formed catalogue

`CatWF (mkCat y)` for EVERY `YearDecl` (no side condition on the generated data): the naming
assertions of the framework (`"." not in name` for forms, lines and inputs) are part of
`YearDecl.resolveForm`, so a form that the model can load has line and input names of the shape
`form.line` with exactly one dot, and `form, key = name.split('.')` recovers the form.  Hence the
solver metatheory (`Props/C01`, `C03`, `C04`, `C05`, … — stated for any catalogue with `CatWF`) applies
to `Gen.cat2021`, `Gen.cat2022`, `Gen.cat2023` as instances.
-/
set_option autoImplicit false

namespace HabuVerif.Dsl
open HabuVerif

theorem contains_cons_false {d : Char} {ds : List Char} (h : (d :: ds).contains '.' = false) :
    (d == '.') = false ∧ ds.contains '.' = false := by
  simp at h
  constructor
  · simp only [beq_eq_false_iff_ne, ne_eq]
    intro e
    exact h.1 e.symm
  · simpa using h.2

theorem go_noDot (xs acc : List Char) (h : xs.contains '.' = false) :
    splitOnChar.go '.' acc xs = [acc.reverse ++ xs] := by
  induction xs generalizing acc with
  | nil => simp [splitOnChar.go]
  | cons d ds ih =>
    obtain ⟨hd, hds⟩ := contains_cons_false h
    rw [splitOnChar.go, if_neg (by simp [hd]), ih _ hds]
    simp

theorem go_oneDot (xs ys acc : List Char) (hx : xs.contains '.' = false) (hy : ys.contains '.' = false) :
    splitOnChar.go '.' acc (xs ++ '.' :: ys) = [acc.reverse ++ xs, ys] := by
  induction xs generalizing acc with
  | nil =>
    rw [List.nil_append, splitOnChar.go, if_pos (by simp), go_noDot ys [] hy]
    simp
  | cons d ds ih =>
    obtain ⟨hd, hds⟩ := contains_cons_false hx
    rw [List.cons_append, splitOnChar.go, if_neg (by simp [hd]), ih _ hds]
    simp

theorem nameOk_iff (s : String) : nameOk s = true ↔ s.toList.contains '.' = false := by
  simp [nameOk]

/-- `form, key = (form + "." + key).split('.')` when neither part contains a dot -/
theorem splitName_join (f k : String) (hf : nameOk f = true) (hk : nameOk k = true) :
    splitName (f ++ "." ++ k) = some (f, k) := by
  have hf' := (nameOk_iff f).1 hf
  have hk' := (nameOk_iff k).1 hk
  have hl : (f ++ "." ++ k).toList = f.toList ++ '.' :: k.toList := by
    rw [String.toList_append, String.toList_append]
    have : ".".toList = ['.'] := by decide
    rw [this]
    simp
  unfold splitName splitOnChar
  rw [hl, go_oneDot _ _ _ hf' hk']
  simp [String.ofList_toList]

theorem mem_of_lookup {α β : Type} [BEq α] [LawfulBEq α] {l : List (α × β)} {a : α} {b : β}
    (h : l.lookup a = some b) : (a, b) ∈ l := by
  induction l with
  | nil => simp at h
  | cons p ps ih =>
    obtain ⟨k, v⟩ := p
    rw [List.lookup_cons] at h
    split at h
    · rename_i hk
      have : a = k := by simpa using hk
      subst this
      simp only [Option.some.injEq] at h
      subst h
      exact List.mem_cons_self
    · exact List.mem_cons_of_mem _ (ih h)

theorem resolveIn_some {fm : List (String × ClassDecl × Bool)} {f : String} {c : ClassDecl}
    {inst : Option String} (hfm : ∀ e ∈ fm, e.2.2 = true → e.2.1.namesOk = true)
    (h : resolveIn fm f = some (c, inst)) : nameOk f = true ∧ c.namesOk = true := by
  unfold resolveIn at h
  split at h
  · exact absurd h (by simp)
  · rename_i hf
    split at h
    · exact absurd h (by simp)
    · rename_i cn inst' _
      split at h
      · exact absurd h (by simp)
      · rename_i c' ok hl
        split at h
        · rename_i hc
          simp only [Option.some.injEq, Prod.mk.injEq] at h
          obtain ⟨rfl, _⟩ := h
          simp only [Bool.and_eq_true] at hc
          have hmem : (cn, c', ok) ∈ fm := mem_of_lookup hl
          exact ⟨by simpa using hf, hfm _ hmem hc.2⟩
        · exact absurd h (by simp)

theorem formMap_ok (y : YearDecl) : ∀ e ∈ y.formMap, e.2.2 = true → e.2.1.namesOk = true := by
  intro e he h
  simp only [YearDecl.formMap, List.mem_map] at he
  obtain ⟨c, _, rfl⟩ := he
  exact h

theorem namesOk_line {c : ClassDecl} (h : c.namesOk = true) {d : LineDecl} (hd : d ∈ c.lines) :
    nameOk d.name = true := by
  simp only [ClassDecl.namesOk, Bool.and_eq_true, List.all_eq_true] at h
  exact h.1.2 d hd

theorem namesOk_input {c : ClassDecl} (h : c.namesOk = true) {d : InputDecl} (hd : d ∈ c.inputs) :
    nameOk d.name = true := by
  simp only [ClassDecl.namesOk, Bool.and_eq_true, List.all_eq_true] at h
  exact h.2 d hd

theorem mkCatOf_wf (y : YearDecl) (fm : List (String × ClassDecl × Bool))
    (hfm : ∀ e ∈ fm, e.2.2 = true → e.2.1.namesOk = true) : CatWF (mkCatOf y fm) where
  fieldsForm := by
    intro f n hn
    simp only [mkCatOf] at hn ⊢
    cases hr : resolveIn fm f with
    | none => simp [hr] at hn
    | some p =>
      obtain ⟨c, inst⟩ := p
      obtain ⟨hf, hc⟩ := resolveIn_some hfm hr
      simp only [hr, List.mem_map] at hn
      obtain ⟨d, hd, rfl⟩ := hn
      rw [splitName_join f d.name hf (namesOk_line hc hd)]
      rfl
  requiredSub := by
    intro f n hn
    simp only [mkCatOf] at hn ⊢
    cases hr : resolveIn fm f with
    | none => simp [hr] at hn
    | some p =>
      obtain ⟨c, inst⟩ := p
      simp only [hr, List.mem_map, List.mem_filter] at hn ⊢
      obtain ⟨d, ⟨hd, _⟩, rfl⟩ := hn
      exact ⟨d, hd, rfl⟩
  inputsForm := by
    intro f x hx
    simp only [mkCatOf] at hx ⊢
    cases hr : resolveIn fm f with
    | none => simp [hr] at hx
    | some p =>
      obtain ⟨c, inst⟩ := p
      obtain ⟨hf, hc⟩ := resolveIn_some hfm hr
      simp only [hr, List.mem_map] at hx
      obtain ⟨d, hd, rfl⟩ := hx
      rw [splitName_join f d.name hf (namesOk_input hc hd)]
      rfl

/-- The shipped forms (any translated year) form a well-formed catalogue. -/
theorem mkCat_wf (y : YearDecl) : CatWF (mkCat y) := mkCatOf_wf y y.formMap (formMap_ok y)

end HabuVerif.Dsl

#print axioms HabuVerif.Dsl.mkCat_wf
