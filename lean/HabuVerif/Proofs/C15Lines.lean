import HabuVerif.Proofs.DslEvalLemmas
/-!
# The shapes of the balance lines and what they compute

Generic "shape" lemmas: a line whose translated body has a given syntactic shape computes a given
F64 formula of the values it reads.  The per-year instances (`Props/C15.lean`) check the shape of
the REGENERATED programs by `rfl`, so a change of an operand, a sign or a comparison in the source
breaks the instance.
-/
set_option autoImplicit false
set_option linter.unusedSimpArgs false
set_option linter.unusedVariables false

namespace HabuVerif.Dsl
open HabuVerif

variable (vs : String → Option Val) (is : String → InpRes Val) (fs : String → Bool)
variable (year : YearDecl) (c : ClassDecl) (inst : Option String) (d : LineDecl)

/-- `v[x]` -/
abbrev rd (x : String) : Expr := .readV (.const (.str x))
/-- `i[x]` -/
abbrev ri (x : String) : Expr := .readI (.const (.str x))
/-- float literal -/
abbrev flit (x : F64) : Expr := .const (.float x)

/-- `(v[x] - v[y]) if v[x] > v[y] else None`   (Form 1040 line 34) -/
def shapeSubIfGt (x y : String) : List Stmt :=
  [.ret (.ite (.cmp (rd x) [.gt] [rd y]) (.bin .sub (rd x) (rd y)) (.const .none))]

theorem eval_subIfGt (x y : String) (p : Nat) (hb : d.body = shapeSubIfGt x y) (hk : d.kind = .float p)
    (a b : F64) (ha : a.isNaN = false) (hbn : b.isNaN = false)
    (hx : vs (qual' c.name inst x) = some (.float a)) (hy : vs (qual' c.name inst y) = some (.float b)) :
    run vs is fs (evalLine year c inst d) =
      .val (.float (if F64.lt b a then F64.roundN (F64.sub a b) p else F64.zero)) := by
  rw [run_evalLine, runP_body_ret _ _ _ _ _ _ hb, hk]
  simp only [runP_ite, runP_cmp1, runP_bin, runP_readV_lit, runP_const, qual_eq, hx, hy, POut.bind_pure,
    applyCmp_gt_float a b ha hbn, applyBin_sub_float, liftOut, Val.truthy]
  by_cases h : F64.lt b a = true
  · simp [h, POut.toOut, wrap_float]
  · simp [h, POut.toOut, wrap_float_none, F64.roundN_zero]

/-- `None if v[x] > v[y] else v[y] - v[x]`   (Form 1040 line 37) -/
def shapeNoneIfGtElseSub (x y : String) : List Stmt :=
  [.ret (.ite (.cmp (rd x) [.gt] [rd y]) (.const .none) (.bin .sub (rd y) (rd x)))]

theorem eval_noneIfGtElseSub (x y : String) (p : Nat) (hb : d.body = shapeNoneIfGtElseSub x y)
    (hk : d.kind = .float p) (a b : F64) (ha : a.isNaN = false) (hbn : b.isNaN = false)
    (hx : vs (qual' c.name inst x) = some (.float a)) (hy : vs (qual' c.name inst y) = some (.float b)) :
    run vs is fs (evalLine year c inst d) =
      .val (.float (if F64.lt b a then F64.zero else F64.roundN (F64.sub b a) p)) := by
  rw [run_evalLine, runP_body_ret _ _ _ _ _ _ hb, hk]
  simp only [runP_ite, runP_cmp1, runP_bin, runP_readV_lit, runP_const, qual_eq, hx, hy, POut.bind_pure,
    applyCmp_gt_float a b ha hbn, applyBin_sub_float, liftOut, Val.truthy]
  by_cases h : F64.lt b a = true
  · simp [h, POut.toOut, wrap_float_none, F64.roundN_zero]
  · simp [h, POut.toOut, wrap_float]

/-- `v[x] - v[z] if v[x] > lit else None`   (Form 1040 line 35a) -/
def shapeSubIfGtLit (x z : String) (lit : F64) : List Stmt :=
  [.ret (.ite (.cmp (rd x) [.gt] [flit lit]) (.bin .sub (rd x) (rd z)) (.const .none))]

theorem eval_subIfGtLit (x z : String) (lit : F64) (p : Nat) (hb : d.body = shapeSubIfGtLit x z lit)
    (hk : d.kind = .float p) (a e : F64) (ha : a.isNaN = false) (hl : lit.isNaN = false)
    (hx : vs (qual' c.name inst x) = some (.float a)) (hz : vs (qual' c.name inst z) = some (.float e)) :
    run vs is fs (evalLine year c inst d) =
      .val (.float (if F64.lt lit a then F64.roundN (F64.sub a e) p else F64.zero)) := by
  rw [run_evalLine, runP_body_ret _ _ _ _ _ _ hb, hk]
  simp only [runP_ite, runP_cmp1, runP_bin, runP_readV_lit, runP_const, qual_eq, hx, hz, POut.bind_pure,
    applyCmp_gt_float a lit ha hl, applyBin_sub_float, liftOut, Val.truthy]
  by_cases h : F64.lt lit a = true
  · simp [h, POut.toOut, wrap_float]
  · simp [h, POut.toOut, wrap_float_none, F64.roundN_zero]

end HabuVerif.Dsl

namespace HabuVerif.Dsl
open HabuVerif

variable (vs : String → Option Val) (is : String → InpRes Val) (fs : String → Bool)
variable (year : YearDecl) (c : ClassDecl) (inst : Option String) (d : LineDecl)

theorem POut.bind_assoc {α β γ : Type} (p : POut α) (f : α → POut β) (g : β → POut γ) :
    (p.bind f).bind g = p.bind fun a => (f a).bind g := by
  cases p <;> rfl

theorem runP_call2 (ctx : Ctx) (env : Env) (f : Builtin) (a b : Expr) :
    runP vs is fs (evalExpr ctx env (.call f [a, b])) =
      (runP vs is fs (evalExpr ctx env a)).bind fun x =>
        (runP vs is fs (evalExpr ctx env b)).bind fun y => liftOut (applyBuiltin f [x, y]) := by
  simp only [evalExpr, evalArgs, runP_bind, runP_lift, runP_pure, POut.bind_pure, POut.bind_assoc]

theorem applyBuiltin_max_float (x y : F64) (hx : x.isNaN = false) (hy : y.isNaN = false) :
    applyBuiltin .max [.float x, .float y] = .ok (.float (F64.pyMax x y)) := by
  simp only [applyBuiltin, Val.pyMinMax, Val.extremum, if_true, bind, Except.bind, pure, Except.pure]
  have := applyCmp_gt_float y x hy hx
  simp only [applyCmp] at this
  rw [this]
  simp only [F64.pyMax]
  cases F64.lt x y <;> rfl

theorem applyBuiltin_min_float (x y : F64) (hx : x.isNaN = false) (hy : y.isNaN = false) :
    applyBuiltin .min [.float x, .float y] = .ok (.float (F64.pyMin x y)) := by
  simp only [applyBuiltin, Val.pyMinMax, Val.extremum, Bool.false_eq_true, if_false, bind, Except.bind,
    pure, Except.pure]
  have := applyCmp_lt_float y x hy hx
  simp only [applyCmp] at this
  rw [this]
  simp only [F64.pyMin]
  cases F64.lt y x <;> rfl

/-- `min(v[x], max(lit0, i[t])) if v[x] > lit else None`   (Form 1040 line 36) -/
def shapeMinMaxIfGtLit (x t : String) (lit0 lit : F64) : List Stmt :=
  [.ret (.ite (.cmp (rd x) [.gt] [flit lit]) (.call .min [rd x, .call .max [flit lit0, ri t]]) (.const .none))]

theorem eval_minMaxIfGtLit (x t : String) (lit0 lit : F64) (p : Nat)
    (hb : d.body = shapeMinMaxIfGtLit x t lit0 lit) (hk : d.kind = .float p)
    (a tv : F64) (ha : a.isNaN = false) (hl : lit.isNaN = false) (hl0 : lit0.isNaN = false)
    (htn : tv.isNaN = false)
    (hx : vs (qual' c.name inst x) = some (.float a))
    (ht : F64.lt lit a = true → is (qual' c.name inst t) = .ok (.float tv)) :
    run vs is fs (evalLine year c inst d) =
      .val (.float (if F64.lt lit a then F64.roundN (F64.pyMin a (F64.pyMax lit0 tv)) p else F64.zero)) := by
  rw [run_evalLine, runP_body_ret _ _ _ _ _ _ hb, hk]
  simp only [runP_ite, runP_cmp1, runP_call2, runP_readV_lit, runP_readI_lit, runP_const, qual_eq, hx,
    POut.bind_pure, applyCmp_gt_float a lit ha hl, liftOut, Val.truthy]
  by_cases h : F64.lt lit a = true
  · have hmaxn : (F64.pyMax lit0 tv).isNaN = false := by
      unfold F64.pyMax; split <;> assumption
    simp [h, ht h, POut.bind, applyBuiltin_max_float lit0 tv hl0 htn,
      applyBuiltin_min_float a _ ha hmaxn, liftOut, POut.toOut, wrap_float]
  · simp [h, POut.toOut, wrap_float_none, F64.roundN_zero]

end HabuVerif.Dsl
