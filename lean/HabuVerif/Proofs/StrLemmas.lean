import HabuVerif.Gen.CharTable
import Mathlib.Tactic.IntervalCases
import Mathlib.Data.List.TakeWhile
import Mathlib.Data.List.TakeDrop
/-!
# Lemmas about the Python string model (`HabuVerif/Py/Str.lean`)

For every character table: `strip` is idempotent and leaves no white space at either end; the
number parsers do not depend on the table for ASCII text (`nan`, `inf`, … are float literals for
every table); `int(str(i)) = i` (`parseInt_intDec`).
-/
set_option autoImplicit false

namespace HabuVerif.PyStr

variable (T : CharTable)

/-! ## dropWhile / strip -/

theorem dropWhile_head_not (p : Char → Bool) (l : List Char) (a : Char) (r : List Char)
    (h : l.dropWhile p = a :: r) : p a = false := by
  induction l with
  | nil => simp at h
  | cons b l ih =>
    by_cases hb : p b
    · simp [hb] at h; exact ih h
    · simp [hb] at h
      obtain ⟨rfl, _⟩ := h
      simpa using hb

theorem dropWhile_of_head_not (p : Char → Bool) (a : Char) (r : List Char) (h : p a = false) :
    (a :: r).dropWhile p = a :: r := by
  simp [h]

theorem dropWhile_idem (p : Char → Bool) (l : List Char) :
    (l.dropWhile p).dropWhile p = l.dropWhile p := by
  cases h : l.dropWhile p with
  | nil => rfl
  | cons a r => exact dropWhile_of_head_not p a r (dropWhile_head_not p l a r h)

/-- `dropWhile p l` is a suffix of `l` -/
theorem dropWhile_suffix (p : Char → Bool) (l : List Char) : ∃ pre, l = pre ++ l.dropWhile p :=
  ⟨l.takeWhile p, (List.takeWhile_append_dropWhile).symm⟩

theorem rstrip_rstrip (s : Text) : rstrip T (rstrip T s) = rstrip T s := by
  simp [rstrip, dropWhile_idem]

theorem lstrip_lstrip (s : Text) : lstrip T (lstrip T s) = lstrip T s := by
  simp [lstrip, dropWhile_idem]

/-- the stripped text is a prefix of the left-stripped text -/
theorem rstrip_prefix (s : Text) : ∃ suf, s = rstrip T s ++ suf := by
  obtain ⟨pre, h⟩ := dropWhile_suffix T.isSpace s.reverse
  refine ⟨pre.reverse, ?_⟩
  have := congrArg List.reverse h
  simpa [rstrip] using this

theorem lstrip_rstrip_of_lstrip (s : Text) (h : lstrip T s = s) : lstrip T (rstrip T s) = rstrip T s := by
  obtain ⟨suf, hs⟩ := rstrip_prefix T s
  cases hr : rstrip T s with
  | nil => simp [lstrip]
  | cons a r =>
    rw [hr] at hs
    have ha : T.isSpace a = false := by
      have h' : s.dropWhile T.isSpace = a :: (r ++ suf) := by
        have : lstrip T s = s := h
        rw [lstrip] at this
        rw [this, hs]; rfl
      exact dropWhile_head_not _ _ _ _ h'
    exact dropWhile_of_head_not _ _ _ ha

/-- `s.strip().strip() == s.strip()` -/
theorem strip_idem (s : Text) : strip T (strip T s) = strip T s := by
  unfold strip
  rw [lstrip_rstrip_of_lstrip T _ (lstrip_lstrip T s), rstrip_rstrip]

/-- a stripped text does not start with white space -/
theorem strip_head_not_space (s : Text) (a : Char) (r : Text) (h : strip T s = a :: r) :
    T.isSpace a = false := by
  have h1 : lstrip T (strip T s) = strip T s := by
    unfold strip
    exact lstrip_rstrip_of_lstrip T _ (lstrip_lstrip T s)
  rw [h] at h1
  unfold lstrip at h1
  exact dropWhile_head_not _ _ _ _ h1

/-- a stripped text does not end with white space -/
theorem strip_last_not_space (s : Text) (a : Char) (r : Text) (h : strip T s = r ++ [a]) :
    T.isSpace a = false := by
  unfold strip rstrip at h
  have h' := congrArg List.reverse h
  simp only [List.reverse_reverse, List.reverse_append, List.reverse_cons, List.reverse_nil,
    List.nil_append, List.singleton_append] at h'
  exact dropWhile_head_not _ _ _ _ h'

/-- `strip` only removes white space: a text of white space only strips to nothing -/
theorem strip_eq_nil_of_all_space (s : Text) (h : ∀ c ∈ s, T.isSpace c = true) : strip T s = [] := by
  have : lstrip T s = [] := by
    unfold lstrip
    exact List.dropWhile_eq_nil_iff.mpr h
  simp [strip, this, rstrip]

theorem all_space_of_strip_eq_nil (s : Text) (h : strip T s = []) : ∀ c ∈ s, T.isSpace c = true := by
  unfold strip rstrip at h
  have h1 : (lstrip T s).reverse.dropWhile T.isSpace = [] := by simpa using h
  have h2 : ∀ c ∈ lstrip T s, T.isSpace c = true := by
    have := List.dropWhile_eq_nil_iff.mp h1
    intro c hc; exact this c (by simpa using hc)
  intro c hc
  have hs : s = s.takeWhile T.isSpace ++ lstrip T s := (List.takeWhile_append_dropWhile).symm
  rw [hs] at hc
  rcases List.mem_append.mp hc with hc | hc
  · exact List.mem_takeWhile_imp hc
  · exact h2 c hc

/-! ## ASCII text is read the same under every table -/

theorem parseFloatLit_nan : parseFloatLit T ['n','a','n'] = some (.nan false) := by rfl
theorem parseFloatLit_NaN : parseFloatLit T ['N','a','N'] = some (.nan false) := by rfl
theorem parseFloatLit_neg_nan : parseFloatLit T ['-','n','a','n'] = some (.nan true) := by rfl
theorem parseFloatLit_inf : parseFloatLit T ['i','n','f'] = some (.inf false) := by rfl
theorem parseFloatLit_neg_infinity :
    parseFloatLit T ['-','I','n','f','i','n','i','t','y'] = some (.inf true) := by rfl
theorem parseFloatLit_1e999 : parseFloatLit T ['1','e','9','9','9'] = some (.finite false 1 999) := by rfl
theorem parseFloatLit_money :
    parseFloatLit T ['1','_','0','0','0','.','5','0'] = some (.finite false 100050 (-2)) := by rfl
theorem parseInt_007 : parseInt T ['0','0','7'] = some 7 := by rfl
theorem parseInt_leading_underscore : parseInt T ['_','1'] = none := by rfl
theorem parseInt_double_underscore : parseInt T ['1','_','_','0'] = none := by rfl

/-! ## `int(str(i)) = i` -/

theorem numDigit_digitChar (d : Nat) (hd : d < 10) : numDigit T (digitChar d) = some d := by
  interval_cases d <;> rfl

theorem digitChar_ne_underscore (d : Nat) (hd : d < 10) : digitChar d ≠ '_' := by
  interval_cases d <;> decide

theorem numSpace_digitChar (d : Nat) (hd : d < 10) : numSpace T (digitChar d) = false := by
  interval_cases d <;> rfl

theorem takeSign_digitChar (d : Nat) (hd : d < 10) (r : Text) :
    takeSign (digitChar d :: r) = (false, digitChar d :: r) := by
  interval_cases d <;> rfl

/-- every character of a decimal representation is an ASCII digit -/
theorem natDec_digits (n : Nat) : ∀ c ∈ natDec n, ∃ d, d < 10 ∧ c = digitChar d := by
  induction n using Nat.strong_induction_on with
  | _ n ih =>
    rw [natDec]
    split
    · intro c hc
      simp at hc
      exact ⟨n, by assumption, hc⟩
    · intro c hc
      rcases List.mem_append.mp hc with hc | hc
      · exact ih (n / 10) (by omega) c hc
      · simp at hc
        exact ⟨n % 10, by omega, hc⟩

theorem natDec_ne_nil (n : Nat) : natDec n ≠ [] := by
  rw [natDec]; split <;> simp

theorem ofDigits_append_singleton (l : List Nat) (d : Nat) :
    ofDigits (l ++ [d]) = 10 * ofDigits l + d := by
  simp [ofDigits, List.foldl_append]

theorem ofDigits_digitVals_natDec (n : Nat) : ofDigits (digitVals T (natDec n)) = n := by
  induction n using Nat.strong_induction_on with
  | _ n ih =>
    rw [natDec]
    split
    · rename_i h
      simp [digitVals, numDigit_digitChar T n h, ofDigits]
    · rename_i h
      have hd := numDigit_digitChar T (n % 10) (by omega)
      have : digitVals T (natDec (n / 10) ++ [digitChar (n % 10)]) =
          digitVals T (natDec (n / 10)) ++ [n % 10] := by
        simp [digitVals, List.filterMap_append, hd]
      rw [this, ofDigits_append_singleton, ih (n / 10) (by omega)]
      omega

theorem digitVals_length_natDec (n : Nat) : (digitVals T (natDec n)).length = (natDec n).length := by
  unfold digitVals
  have : ∀ l : Text, (∀ c ∈ l, ∃ d, d < 10 ∧ c = digitChar d) →
      (l.filterMap (numDigit T)).length = l.length := by
    intro l
    induction l with
    | nil => simp
    | cons a l ih =>
      intro h
      obtain ⟨d, hd, rfl⟩ := h a (by simp)
      rw [List.filterMap_cons, numDigit_digitChar T d hd]
      simp only [List.length_cons]
      rw [ih (fun c hc => h c (by simp [hc]))]
  exact this _ (natDec_digits n)

theorem noDoubleUnderscore_of_no_underscore (l : Text) (h : ∀ c ∈ l, c ≠ '_') :
    noDoubleUnderscore l = true := by
  induction l with
  | nil => rfl
  | cons a l ih =>
    have ha : a ≠ '_' := h a (by simp)
    have := ih (fun c hc => h c (by simp [hc]))
    unfold noDoubleUnderscore
    split
    · simp_all
    · rename_i heq; simp at heq; obtain ⟨_, rfl⟩ := heq; exact this
    · simp_all

theorem validDigitRun_natDec (n : Nat) : validDigitRun (natDec n) = true := by
  have hall := natDec_digits n
  have hne : ∀ c ∈ natDec n, c ≠ '_' := by
    intro c hc
    obtain ⟨d, hd, rfl⟩ := hall c hc
    exact digitChar_ne_underscore d hd
  have h1 : noDoubleUnderscore (natDec n) = true := noDoubleUnderscore_of_no_underscore _ hne
  have h2 : (natDec n).head? ≠ some '_' := by
    intro h
    exact hne '_' (List.mem_of_mem_head? h) rfl
  have h3 : (natDec n).getLast? ≠ some '_' := by
    intro h
    exact hne '_' (List.mem_of_getLast? h) rfl
  have h4 : (natDec n).isEmpty = false := by
    cases h : natDec n with
    | nil => exact absurd h (natDec_ne_nil n)
    | cons _ _ => rfl
  simp [validDigitRun, h1, h2, h3, h4]

theorem span_digits_natDec (n : Nat) :
    (natDec n).span (fun c => c == '_' || isNumDigit T c) = (natDec n, []) := by
  rw [List.span_eq_takeWhile_dropWhile]
  have hall : ∀ c ∈ natDec n, (c == '_' || isNumDigit T c) = true := by
    intro c hc
    obtain ⟨d, hd, rfl⟩ := natDec_digits n c hc
    simp [isNumDigit, numDigit_digitChar T d hd]
  rw [List.takeWhile_eq_self_iff.mpr hall, List.dropWhile_eq_nil_iff.mpr hall]

/-- the sign-less part: `int(str(n)) = n` up to the digit limit -/
theorem parseInt_natDec_aux (n : Nat) (neg : Bool)
    (hlim : tooManyDigits T (natDec n).length = false) :
    (let (p, rest) := (natDec n).span (fun c => c == '_' || isNumDigit T c)
     if !validDigitRun p then none
     else if !rest.all (numSpace T) then none
     else
       let ds := digitVals T p
       if tooManyDigits T ds.length then none
       else some (if neg then - (ofDigits ds : Int) else (ofDigits ds : Int))) =
    some (if neg then - (n : Int) else (n : Int)) := by
  rw [span_digits_natDec]
  simp [validDigitRun_natDec, digitVals_length_natDec, hlim, ofDigits_digitVals_natDec]

/-- `int(str(i)) == i` whenever `str(i)` is allowed (digit limit) -/
theorem parseInt_intDec (i : Int) (hlim : tooManyDigits T (natDec i.natAbs).length = false) :
    parseInt T (intDec i) = some i := by
  cases i with
  | ofNat n =>
    obtain ⟨d, hd, r, hr⟩ : ∃ d, d < 10 ∧ ∃ r, natDec n = digitChar d :: r := by
      cases h : natDec n with
      | nil => exact absurd h (natDec_ne_nil n)
      | cons a r =>
        obtain ⟨d, hd, rfl⟩ := natDec_digits n a (by simp [h])
        exact ⟨d, hd, r, rfl⟩
    have h1 : (natDec n).dropWhile (numSpace T) = natDec n := by
      rw [hr]; exact dropWhile_of_head_not _ _ _ (numSpace_digitChar T d hd)
    have h2 : takeSign (natDec n) = (false, natDec n) := by rw [hr]; exact takeSign_digitChar d hd r
    have := parseInt_natDec_aux T n false (by simpa using hlim)
    simp only [intDec, parseInt, h1, h2]
    simpa using this
  | negSucc n =>
    have h1 : ('-' :: natDec (n + 1)).dropWhile (numSpace T) = '-' :: natDec (n + 1) :=
      dropWhile_of_head_not _ _ _ (by rfl)
    have h2 : takeSign ('-' :: natDec (n + 1)) = (true, natDec (n + 1)) := rfl
    have := parseInt_natDec_aux T (n + 1) true (by simpa using hlim)
    simp only [intDec, parseInt, h1, h2]
    simp only [↓reduceIte] at this ⊢
    rw [this]
    rfl

theorem parseInt_intStr (i : Int) (s : Text) (h : intStr T i = some s) : parseInt T s = some i := by
  unfold intStr at h
  split at h
  · simp at h
  · rename_i hl
    simp at h
    subst h
    exact parseInt_intDec T i (by simpa using hl)

/-! ## tables that are right on ASCII -/

/-- the table agrees with CPython on ASCII characters (as far as `strip`/`lower` are concerned) -/
structure AsciiCompat (T : CharTable) : Prop where
  isSpace : ∀ c : Char, c.toNat < 128 → T.isSpace c = isAsciiSpace c
  lower : ∀ c : Char, c.toNat < 128 → T.lower c = [asciiLower c]

theorem asciiCompat_ascii : AsciiCompat CharTable.ascii :=
  ⟨fun _ _ => rfl, fun _ _ => rfl⟩

theorem asciiCompat_ofRanges (sp de lo ca ig : Array (Nat × Nat × Nat × Nat))
    (ls : List (Nat × List Nat)) (m : Nat) : AsciiCompat (CharTable.ofRanges sp de lo ca ig ls m) :=
  ⟨fun c h => by simp [CharTable.ofRanges, h], fun c h => by simp [CharTable.ofRanges, h]⟩

/-- the generated table of the running CPython is right on ASCII -/
theorem asciiCompat_cpython : AsciiCompat CharTable.cpython := asciiCompat_ofRanges ..

/-- lower-casing a text without capital sigma is character-wise -/
theorem lowerAux_no_sigma (before s : Text) (h : ∀ c ∈ s, c ≠ capitalSigma) :
    lowerAux T before s = s.flatMap T.lower := by
  induction s generalizing before with
  | nil => rfl
  | cons a s ih =>
    have ha : a ≠ capitalSigma := h a (by simp)
    simp [lowerAux, ha, ih (a :: before) (fun c hc => h c (by simp [hc]))]

theorem lower_True (hT : AsciiCompat T) :
    lower T (strip T ['T','r','u','e']) = ['t','r','u','e'] := by
  have s1 : T.isSpace 'T' = false := by rw [hT.isSpace _ (by decide)]; rfl
  have s2 : T.isSpace 'e' = false := by rw [hT.isSpace _ (by decide)]; rfl
  have hs : strip T ['T','r','u','e'] = ['T','r','u','e'] := by
    simp [strip, lstrip, rstrip, s1, s2]
  rw [hs, lower, lowerAux_no_sigma T _ _ (by decide)]
  simp [hT.lower 'T' (by decide), hT.lower 'r' (by decide), hT.lower 'u' (by decide),
    hT.lower 'e' (by decide)]
  decide

theorem lower_False (hT : AsciiCompat T) :
    lower T (strip T ['F','a','l','s','e']) = ['f','a','l','s','e'] := by
  have s1 : T.isSpace 'F' = false := by rw [hT.isSpace _ (by decide)]; rfl
  have s2 : T.isSpace 'e' = false := by rw [hT.isSpace _ (by decide)]; rfl
  have hs : strip T ['F','a','l','s','e'] = ['F','a','l','s','e'] := by
    simp [strip, lstrip, rstrip, s1, s2]
  rw [hs, lower, lowerAux_no_sigma T _ _ (by decide)]
  simp [hT.lower 'F' (by decide), hT.lower 'a' (by decide), hT.lower 'l' (by decide),
    hT.lower 's' (by decide), hT.lower 'e' (by decide)]
  decide

end HabuVerif.PyStr
