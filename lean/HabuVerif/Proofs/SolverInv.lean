import HabuVerif.Proofs.SolverBasics
/-!
# Every primitive step of the solver preserves the invariant
-/
set_option autoImplicit false
set_option linter.unusedSectionVars false
set_option linter.unusedSimpArgs false
set_option linter.unusedVariables false

namespace HabuVerif
open Tracker

variable {N I F V S : Type} [DecidableEq N] [DecidableEq I] [DecidableEq F]
variable {C : Cat N I F V S} {σ : Sched N I}

/-! ## views depend only on the stores -/

theorem vf_congr {s s' : St N I F V S} (h : s'.v = s.v) : s'.vf = s.vf := by
  unfold St.vf; rw [h]

theorem inpf_congr {s s' : St N I F V S} (h : s'.inp = s.inp) : s'.inpf = s.inpf := by
  unfold St.inpf; rw [h]

theorem inf_congr {s s' : St N I F V S} (h1 : s'.inp = s.inp) (h2 : s'.specs = s.specs) :
    s'.inf C = s.inf C := by
  funext x; simp only [St.inf, h1, h2]

theorem ff_congr {s s' : St N I F V S} (h : s'.forms = s.forms) : s'.ff = s.ff := by
  unfold St.ff; rw [h]

theorem attempt_congr {s s' : St N I F V S} (h0 : s'.v = s.v) (h1 : s'.inp = s.inp)
    (h2 : s'.specs = s.specs) (h3 : s'.forms = s.forms) (n : N) :
    s'.attempt C n = s.attempt C n := by
  unfold St.attempt; rw [vf_congr h0, inf_congr h1 h2, ff_congr h3]

/-- an input that already has a loaded spec looks the same when only specs/forms grow -/
theorem inf_eq_of_mem_specs {s s' : St N I F V S} (h1 : s'.inp = s.inp)
    (hsp : ∀ x, x ∈ s.specs → x ∈ s'.specs) {x : I} (hx : x ∈ s.specs) :
    s'.inf C x = s.inf C x := by
  simp only [St.inf, h1, hx, hsp x hx, if_true]

theorem mem_specs_of_inf {s : St N I F V S} {x : I} (h : s.inf C x ≠ .noSpec) : x ∈ s.specs := by
  by_cases hx : x ∈ s.specs
  · exact hx
  · simp [St.inf, hx] at h

/-- growth of specs and forms with everything else fixed is a growth of the stores -/
theorem storeLe_of_grow {s s' : St N I F V S} (h0 : s'.v = s.v) (h1 : s'.inp = s.inp)
    (hsp : ∀ x, x ∈ s.specs → x ∈ s'.specs) (hf : ∀ f, f ∈ s.forms → f ∈ s'.forms) :
    StoreLe C s s' := by
  refine ⟨?_, ?_, ?_⟩
  · rw [vf_congr h0]; exact Ext.refl _
  · exact inpLe_of C hsp (by rw [inpf_congr h1]; exact Ext.refl _)
  · intro f hff
    simp only [St.ff, decide_eq_true_eq] at hff ⊢
    exact hf f hff

/-! ## the frame lemma: growing specs / forms / solving / queue, stores and trackers fixed -/

theorem Inv.frame {L L' : List N} {s s' : St N I F V S} (h : Inv C L s)
    (h0 : s'.v = s.v) (h1 : s'.inp = s.inp) (hfd : s'.fdeps = s.fdeps) (hid : s'.ideps = s.ideps)
    (hun : s'.unimpl = s.unimpl)
    (hsp : ∀ x, x ∈ s.specs → x ∈ s'.specs) (hf : ∀ f, f ∈ s.forms → f ∈ s'.forms)
    (hsol : ∀ n, n ∈ s.solving → n ∈ s'.solving)
    (hpart : ∀ n, n ∈ s'.solving → n ∈ s'.queue ∨ n ∈ L' ∨ s'.vf n ≠ none ∨
      (∃ m, Waits s'.fdeps m n) ∨ (∃ x, Waits s'.ideps x n) ∨ n ∈ s'.unimpl)
    (hqDem : ∀ n, n ∈ s'.queue ∨ n ∈ L' → n ∈ s'.solving)
    (hsolFmap : ∀ n, n ∈ s'.solving → n ∈ s'.fmap)
    (hfmapForm : ∀ n, n ∈ s'.fmap → ∃ f, f ∈ s'.forms ∧ n ∈ C.fields f)
    (hformsLoaded : ∀ f, f ∈ s'.forms → (∀ n, n ∈ C.fields f → n ∈ s'.fmap) ∧
      (∀ n, n ∈ C.required f → n ∈ s'.solving) ∧ (∀ x, x ∈ C.inputs f → x ∈ s'.specs) ∧
      C.status f = .ok)
    (hspecsForm : ∀ x, x ∈ s'.specs → ∃ f, x ∈ C.inputs f ∧ ∀ y, y ∈ C.inputs f → y ∈ s'.specs) :
    Inv C L' s' := by
  have hle : StoreLe C s s' := storeLe_of_grow h0 h1 hsp hf
  have hvf : s'.vf = s.vf := vf_congr h0
  refine { vSound := ?_, vDem := ?_, fwf := by rw [hfd]; exact h.fwf, iwf := by rw [hid]; exact h.iwf,
           fWait := ?_, fMet := ?_, iWait := ?_, iMet := ?_, unimplSound := ?_, part := hpart,
           qDem := hqDem, solFmap := hsolFmap, fmapForm := hfmapForm, formsLoaded := hformsLoaded,
           specsForm := hspecsForm }
  · intro n x hx
    rw [hvf] at hx
    exact attempt_val_stable hle (h.vSound n x hx)
  · intro n x hx
    rw [hvf] at hx
    exact hsol n (h.vDem n x hx)
  · intro m n hw
    rw [hfd] at hw ⊢
    obtain ⟨a, b, c⟩ := h.fWait m n hw
    refine ⟨hsol n a, hsol m b, ?_⟩
    rcases c with c | ⟨c1, c2⟩
    · exact Or.inl c
    · refine Or.inr ⟨by rw [hvf]; exact c1, ?_⟩
      exact attempt_needV_stable hle c2 (by rw [hvf]; exact c1)
  · intro m hm
    rw [hfd] at hm; rw [hvf]; exact h.fMet m hm
  · intro x n hw
    rw [hid] at hw ⊢
    obtain ⟨a, c⟩ := h.iWait x n hw
    refine ⟨hsol n a, ?_⟩
    rcases c with c | ⟨c1, c2⟩
    · exact Or.inl c
    · have hx : x ∈ s.specs := mem_specs_of_inf (by rw [c1]; simp)
      have hinf : s'.inf C x = .missing := by rw [inf_eq_of_mem_specs h1 hsp hx]; exact c1
      exact Or.inr ⟨hinf, attempt_needI_stable hle c2 hinf⟩
  · intro x hx
    rw [hid] at hx
    obtain ⟨v, hv⟩ := h.iMet x hx
    exact ⟨v, (hle.i x).1 v hv⟩
  · intro n hn
    rw [hun] at hn
    obtain ⟨a, b⟩ := h.unimplSound n hn
    exact ⟨hsol n a, attempt_notImpl_stable hle b⟩

/-! ## `_add_form` -/

theorem mem_append_filter_not_contains {α : Type} [DecidableEq α] (l r : List α) (a : α) :
    a ∈ l ++ r.filter (fun x => !(l.contains x)) ↔ a ∈ l ∨ a ∈ r := by
  simp only [List.mem_append, List.mem_filter, List.contains_eq_mem, Bool.not_eq_eq_eq_not,
    Bool.not_true, decide_eq_false_iff_not]
  constructor
  · rintro (h | ⟨h, _⟩)
    · exact Or.inl h
    · exact Or.inr h
  · rintro (h | h)
    · exact Or.inl h
    · by_cases ha : a ∈ l
      · exact Or.inl ha
      · exact Or.inr ⟨h, ha⟩

/-- what `_add_form` does to the state, as equations -/
theorem addForm_ok {s s' : St N I F V S} {f : F} {b : Bool}
    (h : addForm C σ s f b = .ok s') :
    C.status f = .ok ∧ s'.v = s.v ∧ s'.inp = s.inp ∧ s'.fdeps = s.fdeps ∧ s'.ideps = s.ideps ∧
    s'.unimpl = s.unimpl ∧ s'.refused = s.refused ∧
    (∀ x, x ∈ s'.specs ↔ x ∈ s.specs ∨ x ∈ C.inputs f) ∧
    (b = true → s'.forms = s.forms ∧ s'.fmap = s.fmap ∧ s'.queue = s.queue ∧ s'.solving = s.solving) ∧
    (b = false → (∀ g, g ∈ s'.forms ↔ g ∈ s.forms ∨ g = f) ∧
      (∀ n, n ∈ s'.fmap ↔ n ∈ s.fmap ∨ n ∈ C.fields f) ∧
      s'.queue = σ.sortQ (s.queue ++ C.required f) ∧
      (∀ n, n ∈ s'.solving ↔ n ∈ s.solving ∨ n ∈ C.required f)) := by
  unfold addForm at h
  cases hst : C.status f with
  | unsupported => simp [hst] at h
  | ctorError => simp [hst] at h
  | ok =>
    simp only [hst] at h
    cases b with
    | true =>
      simp only [if_true] at h
      cases h
      refine ⟨rfl, rfl, rfl, rfl, rfl, rfl, rfl, ?_, ?_, ?_⟩
      · intro x; exact mem_append_filter_not_contains _ _ _
      · intro _; exact ⟨rfl, rfl, rfl, rfl⟩
      · intro hb; cases hb
    | false =>
      simp only [Bool.false_eq_true, if_false] at h
      cases h
      refine ⟨rfl, rfl, rfl, rfl, rfl, rfl, rfl, ?_, ?_, ?_⟩
      · intro x; exact mem_append_filter_not_contains _ _ _
      · intro hb; cases hb
      · intro _
        refine ⟨?_, ?_, rfl, ?_⟩
        · intro g
          simp only
          split
          · rename_i hmem
            constructor
            · exact Or.inl
            · rintro (h | rfl)
              · exact h
              · exact hmem
          · simp
        · intro n; exact mem_append_filter_not_contains _ _ _
        · intro n; exact mem_append_filter_not_contains _ _ _

theorem addForm_inv (hC : CatWF C) (hσ : SchedOK σ) {L : List N} {s s' : St N I F V S} {f : F}
    {b : Bool} (hinv : Inv C L s) (h : addForm C σ s f b = .ok s') : Inv C L s' := by
  obtain ⟨hst, h0, h1, hfd, hid, hun, _, hspecs, hT, hF⟩ := addForm_ok h
  have hsp : ∀ x, x ∈ s.specs → x ∈ s'.specs := fun x hx => (hspecs x).mpr (Or.inl hx)
  have hspecsForm : ∀ x, x ∈ s'.specs → ∃ g, x ∈ C.inputs g ∧ ∀ y, y ∈ C.inputs g → y ∈ s'.specs := by
    intro x hx
    rcases (hspecs x).mp hx with hx | hx
    · obtain ⟨g, hg1, hg2⟩ := hinv.specsForm x hx
      exact ⟨g, hg1, fun y hy => hsp y (hg2 y hy)⟩
    · exact ⟨f, hx, fun y hy => (hspecs y).mpr (Or.inr hy)⟩
  cases b with
  | true =>
    obtain ⟨e1, e2, e3, e4⟩ := hT rfl
    refine hinv.frame h0 h1 hfd hid hun hsp (by rw [e1]; exact fun _ h => h)
      (by rw [e4]; exact fun _ h => h) ?_ ?_ ?_ ?_ ?_ hspecsForm
    · intro n hn
      rw [e4] at hn
      rw [e3, vf_congr h0, hfd, hid, hun]
      exact hinv.part n hn
    · intro n hn; rw [e3] at hn; rw [e4]; exact hinv.qDem n hn
    · intro n hn; rw [e4] at hn; rw [e2]; exact hinv.solFmap n hn
    · intro n hn; rw [e2] at hn; rw [e1]; exact hinv.fmapForm n hn
    · intro g hg
      rw [e1] at hg
      obtain ⟨a, b', c, d⟩ := hinv.formsLoaded g hg
      exact ⟨by rw [e2]; exact a, by rw [e4]; exact b', fun x hx => hsp x (c x hx), d⟩
  | false =>
    obtain ⟨e1, e2, e3, e4⟩ := hF rfl
    have hsol : ∀ n, n ∈ s.solving → n ∈ s'.solving := fun n hn => (e4 n).mpr (Or.inl hn)
    have hq : ∀ n, n ∈ s'.queue ↔ n ∈ s.queue ∨ n ∈ C.required f := by
      intro n; rw [e3, (hσ.q _).mem_iff, List.mem_append]
    refine hinv.frame h0 h1 hfd hid hun hsp (fun g hg => (e1 g).mpr (Or.inl hg)) hsol ?_ ?_ ?_ ?_ ?_
      hspecsForm
    · intro n hn
      rcases (e4 n).mp hn with hn | hn
      · rw [vf_congr h0, hfd, hid, hun]
        rcases hinv.part n hn with p | p
        · exact Or.inl ((hq n).mpr (Or.inl p))
        · exact Or.inr p
      · exact Or.inl ((hq n).mpr (Or.inr hn))
    · intro n hn
      rcases hn with hn | hn
      · rcases (hq n).mp hn with hn | hn
        · exact hsol n (hinv.qDem n (Or.inl hn))
        · exact (e4 n).mpr (Or.inr hn)
      · exact hsol n (hinv.qDem n (Or.inr hn))
    · intro n hn
      rcases (e4 n).mp hn with hn | hn
      · exact (e2 n).mpr (Or.inl (hinv.solFmap n hn))
      · exact (e2 n).mpr (Or.inr (hC.requiredSub f n hn))
    · intro n hn
      rcases (e2 n).mp hn with hn | hn
      · obtain ⟨g, hg1, hg2⟩ := hinv.fmapForm n hn
        exact ⟨g, (e1 g).mpr (Or.inl hg1), hg2⟩
      · exact ⟨f, (e1 f).mpr (Or.inr rfl), hn⟩
    · intro g hg
      rcases (e1 g).mp hg with hg | rfl
      · obtain ⟨a, b', c, d⟩ := hinv.formsLoaded g hg
        exact ⟨fun n hn => (e2 n).mpr (Or.inl (a n hn)), fun n hn => hsol n (b' n hn),
          fun x hx => hsp x (c x hx), d⟩
      · exact ⟨fun n hn => (e2 n).mpr (Or.inr hn), fun n hn => (e4 n).mpr (Or.inr hn),
          fun x hx => (hspecs x).mpr (Or.inr hx), hst⟩

theorem addForm_storeLe {s s' : St N I F V S} {f : F} {b : Bool}
    (h : addForm C σ s f b = .ok s') : StoreLe C s s' := by
  obtain ⟨_, h0, h1, _, _, _, _, hspecs, hT, hF⟩ := addForm_ok h
  refine storeLe_of_grow h0 h1 (fun x hx => (hspecs x).mpr (Or.inl hx)) ?_
  cases b with
  | true => rw [(hT rfl).1]; exact fun _ h => h
  | false => exact fun g hg => ((hF rfl).1 g).mpr (Or.inl hg)

end HabuVerif

namespace HabuVerif
open Tracker

variable {N I F V S : Type} [DecidableEq N] [DecidableEq I] [DecidableEq F]
variable {C : Cat N I F V S} {σ : Sched N I}

/-- all components other than those named are unchanged -/
structure SameBut (s s' : St N I F V S) : Prop where
  inp : s'.inp = s.inp
  specs : s'.specs = s.specs
  forms : s'.forms = s.forms
  fmap : s'.fmap = s.fmap
  solving : s'.solving = s.solving

theorem meet_unmet {D W : Type} [DecidableEq D] (t : Tracker D W) (d : D) :
    (t.meet d).unmet = t.unmet := rfl
theorem meet_met {D W : Type} [DecidableEq D] (t : Tracker D W) (d : D) :
    (t.meet d).met = t.met ++ [d] := rfl
theorem meet_WF {D W : Type} [DecidableEq D] (t : Tracker D W) (d : D) (h : WF t) : WF (t.meet d) :=
  ⟨h.nodup, h.nonempty⟩
theorem meet_waits {D W : Type} [DecidableEq D] (t : Tracker D W) (d d' : D) (w : W) :
    Waits (t.meet d) d' w ↔ Waits t d' w := Iff.rfl

/-! ## storing a value -/

theorem Inv.setVal {L : List N} {n : N} {x : V} {s s' : St N I F V S} (h : Inv C (n :: L) s)
    (ha : s.attempt C n = .val x) (hv : s'.v = assocSet s.v n x) (hfd : s'.fdeps = s.fdeps.meet n)
    (hsame : SameBut s s') (hq : s'.queue = s.queue) (hun : s'.unimpl = s.unimpl)
    (hid : s'.ideps = s.ideps) : Inv C L s' := by
  have hvf : ∀ k, s'.vf k = if k = n then some x else s.vf k := by
    intro k; unfold St.vf; rw [hv, assocSet_lookup]
  have hext : Ext s.vf s'.vf := by
    intro k y hk
    rw [hvf]
    split
    · rename_i e; subst e
      have := h.vSound k y hk
      rw [ha] at this
      cases this; rfl
    · exact hk
  have hinf : s'.inf C = s.inf C := inf_congr hsame.inp hsame.specs
  have hle : StoreLe C s s' :=
    ⟨hext, by rw [hinf]; exact InpLe.refl _, by rw [ff_congr hsame.forms]; exact FormLe.refl _⟩
  have hne : ∀ k, s.vf k ≠ none → s'.vf k ≠ none := by
    intro k hk
    cases hk' : s.vf k with
    | none => exact absurd hk' hk
    | some y => rw [hext k y hk']; simp
  refine { vSound := ?_, vDem := ?_, fwf := by rw [hfd]; exact meet_WF _ _ h.fwf,
           iwf := by rw [hid]; exact h.iwf,
           fWait := ?_, fMet := ?_, iWait := ?_, iMet := ?_, unimplSound := ?_, part := ?_,
           qDem := ?_, solFmap := ?_, fmapForm := ?_, formsLoaded := ?_, specsForm := ?_ }
  · intro k y hk
    rw [hvf] at hk
    split at hk
    · rename_i e; subst e; cases hk
      exact attempt_val_stable hle ha
    · exact attempt_val_stable hle (h.vSound k y hk)
  · intro k y hk
    rw [hsame.solving]
    rw [hvf] at hk
    split at hk
    · rename_i e; subst e; exact h.qDem k (Or.inr List.mem_cons_self)
    · exact h.vDem k y hk
  · intro m k hw
    rw [hfd, meet_waits] at hw
    obtain ⟨a, b, c⟩ := h.fWait m k hw
    rw [hsame.solving, hfd, meet_met]
    refine ⟨a, b, ?_⟩
    rcases c with c | ⟨c1, c2⟩
    · exact Or.inl (List.mem_append_left _ c)
    · by_cases hmn : m = n
      · exact Or.inl (by rw [hmn]; simp)
      · have : s'.vf m = none := by rw [hvf]; simp [hmn, c1]
        exact Or.inr ⟨this, attempt_needV_stable hle c2 this⟩
  · intro m hm
    rw [hfd, meet_met, List.mem_append, List.mem_singleton] at hm
    rcases hm with hm | rfl
    · exact hne m (h.fMet m hm)
    · rw [hvf]; simp
  · intro y k hw
    rw [hid] at hw ⊢
    obtain ⟨a, c⟩ := h.iWait y k hw
    rw [hsame.solving]
    refine ⟨a, ?_⟩
    rcases c with c | ⟨c1, c2⟩
    · exact Or.inl c
    · have : s'.inf C y = .missing := by rw [hinf]; exact c1
      exact Or.inr ⟨this, attempt_needI_stable hle c2 this⟩
  · intro y hy
    rw [hid] at hy; rw [hinf]; exact h.iMet y hy
  · intro k hk
    rw [hun] at hk
    obtain ⟨a, b⟩ := h.unimplSound k hk
    rw [hsame.solving]
    exact ⟨a, attempt_notImpl_stable hle b⟩
  · intro k hk
    rw [hsame.solving] at hk
    rw [hq, hun, hid]
    rcases h.part k hk with p | p | p | p | p | p
    · exact Or.inl p
    · rcases List.mem_cons.mp p with rfl | p
      · right; right; left; rw [hvf]; simp
      · exact Or.inr (Or.inl p)
    · right; right; left; exact hne k p
    · right; right; right; left
      obtain ⟨m, hm⟩ := p
      exact ⟨m, by rw [hfd, meet_waits]; exact hm⟩
    · right; right; right; right; left; exact p
    · right; right; right; right; right; exact p
  · intro k hk
    rw [hsame.solving]
    rw [hq] at hk
    rcases hk with hk | hk
    · exact h.qDem k (Or.inl hk)
    · exact h.qDem k (Or.inr (List.mem_cons_of_mem _ hk))
  · intro k hk; rw [hsame.solving] at hk; rw [hsame.fmap]; exact h.solFmap k hk
  · intro k hk; rw [hsame.fmap] at hk; rw [hsame.forms]; exact h.fmapForm k hk
  · intro f hf
    rw [hsame.forms] at hf
    rw [hsame.fmap, hsame.solving, hsame.specs]
    exact h.formsLoaded f hf
  · intro y hy; rw [hsame.specs] at hy ⊢; exact h.specsForm y hy

/-! ## registering waits, recording "not implemented" -/

/-- a step that leaves all stores alone and only moves `n` from "in flight" to some bucket -/
theorem Inv.rebucket {L : List N} {n : N} {s s' : St N I F V S} (h : Inv C (n :: L) s)
    (h0 : s'.v = s.v) (hsame : SameBut s s') (hq : s'.queue = s.queue)
    (hfwf : WF s'.fdeps) (hiwf : WF s'.ideps)
    (hfmet : s'.fdeps.met = s.fdeps.met) (himet : s'.ideps.met = s.ideps.met)
    (hfw : ∀ m k, Waits s'.fdeps m k → Waits s.fdeps m k ∨
      (k = n ∧ m ∈ s.solving ∧ s.vf m = none ∧ s.attempt C n = .needV m))
    (hfw' : ∀ m k, Waits s.fdeps m k → Waits s'.fdeps m k)
    (hiw : ∀ x k, Waits s'.ideps x k → Waits s.ideps x k ∨
      (k = n ∧ s.inf C x = .missing ∧ s.attempt C n = .needI x))
    (hiw' : ∀ x k, Waits s.ideps x k → Waits s'.ideps x k)
    (hun : ∀ k, k ∈ s'.unimpl → k ∈ s.unimpl ∨ (k = n ∧ s.attempt C n = .notImpl))
    (hun' : ∀ k, k ∈ s.unimpl → k ∈ s'.unimpl)
    (hn : (∃ m, Waits s'.fdeps m n) ∨ (∃ x, Waits s'.ideps x n) ∨ n ∈ s'.unimpl) :
    Inv C L s' := by
  have hvf : s'.vf = s.vf := vf_congr h0
  have hinf : s'.inf C = s.inf C := inf_congr hsame.inp hsame.specs
  have hatt : ∀ k, s'.attempt C k = s.attempt C k :=
    attempt_congr h0 hsame.inp hsame.specs hsame.forms
  have hnsol : n ∈ s.solving := h.qDem n (Or.inr List.mem_cons_self)
  refine { vSound := ?_, vDem := ?_, fwf := hfwf, iwf := hiwf,
           fWait := ?_, fMet := ?_, iWait := ?_, iMet := ?_, unimplSound := ?_, part := ?_,
           qDem := ?_, solFmap := ?_, fmapForm := ?_, formsLoaded := ?_, specsForm := ?_ }
  · intro k y hk; rw [hvf] at hk; rw [hatt]; exact h.vSound k y hk
  · intro k y hk; rw [hvf] at hk; rw [hsame.solving]; exact h.vDem k y hk
  · intro m k hw
    rw [hsame.solving, hfmet, hvf, hatt]
    rcases hfw m k hw with hw | ⟨rfl, a, b, c⟩
    · exact h.fWait m k hw
    · exact ⟨hnsol, a, Or.inr ⟨b, c⟩⟩
  · intro m hm; rw [hfmet] at hm; rw [hvf]; exact h.fMet m hm
  · intro y k hw
    rw [hsame.solving, himet, hinf, hatt]
    rcases hiw y k hw with hw | ⟨rfl, a, b⟩
    · exact h.iWait y k hw
    · exact ⟨hnsol, Or.inr ⟨a, b⟩⟩
  · intro y hy; rw [himet] at hy; rw [hinf]; exact h.iMet y hy
  · intro k hk
    rw [hsame.solving, hatt]
    rcases hun k hk with hk | ⟨rfl, a⟩
    · exact h.unimplSound k hk
    · exact ⟨hnsol, a⟩
  · intro k hk
    rw [hsame.solving] at hk
    rw [hq, hvf]
    rcases h.part k hk with p | p | p | p | p | p
    · exact Or.inl p
    · rcases List.mem_cons.mp p with rfl | p
      · exact Or.inr (Or.inr (Or.inr hn))
      · exact Or.inr (Or.inl p)
    · exact Or.inr (Or.inr (Or.inl p))
    · obtain ⟨m, hm⟩ := p
      exact Or.inr (Or.inr (Or.inr (Or.inl ⟨m, hfw' m k hm⟩)))
    · obtain ⟨y, hy⟩ := p
      exact Or.inr (Or.inr (Or.inr (Or.inr (Or.inl ⟨y, hiw' y k hy⟩))))
    · exact Or.inr (Or.inr (Or.inr (Or.inr (Or.inr (hun' k p)))))
  · intro k hk
    rw [hsame.solving]
    rw [hq] at hk
    rcases hk with hk | hk
    · exact h.qDem k (Or.inl hk)
    · exact h.qDem k (Or.inr (List.mem_cons_of_mem _ hk))
  · intro k hk; rw [hsame.solving] at hk; rw [hsame.fmap]; exact h.solFmap k hk
  · intro k hk; rw [hsame.fmap] at hk; rw [hsame.forms]; exact h.fmapForm k hk
  · intro f hf
    rw [hsame.forms] at hf
    rw [hsame.fmap, hsame.solving, hsame.specs]
    exact h.formsLoaded f hf
  · intro y hy; rw [hsame.specs] at hy ⊢; exact h.specsForm y hy

end HabuVerif

namespace HabuVerif
open Tracker

variable {N I F V S : Type} [DecidableEq N] [DecidableEq I] [DecidableEq F]
variable {C : Cat N I F V S} {σ : Sched N I}

/-! ## demanding a line -/

/-- what `demand` guarantees besides the invariant -/
structure DemandPost (s s1 : St N I F V S) (m : N) : Prop where
  v : s1.v = s.v
  inp : s1.inp = s.inp
  le : StoreLe C s s1
  mem : m ∈ s1.solving
  specs : ∀ x, x ∈ s.specs → x ∈ s1.specs
  refused : s1.refused = s.refused
  imet : s1.ideps = s.ideps
  fdeps : s1.fdeps = s.fdeps

theorem demand_inv (hC : CatWF C) (hσ : SchedOK σ) {L : List N} {s s1 : St N I F V S} {m : N}
    (hinv : Inv C L s) (h : demand C σ s m = .ok s1) :
    Inv C L s1 ∧ DemandPost (C := C) s s1 m := by
  unfold demand at h
  split at h
  · rename_i hm
    cases h
    exact ⟨hinv, rfl, rfl, StoreLe.refl C _, hm, fun _ h => h, rfl, rfl, rfl⟩
  · rename_i hm
    -- the state after the optional form load
    have key : ∀ s0 : St N I F V S, Inv C L s0 → StoreLe C s s0 → s0.v = s.v → s0.inp = s.inp →
        (∀ x, x ∈ s.specs → x ∈ s0.specs) → s0.refused = s.refused → s0.ideps = s.ideps →
        s0.fdeps = s.fdeps → m ∈ s0.fmap →
        Inv C L { s0 with queue := σ.sortQ (s0.queue ++ [m]), solving := s0.solving ++ [m],
                          log := .push m :: s0.log } ∧
        DemandPost (C := C) s { s0 with queue := σ.sortQ (s0.queue ++ [m]), solving := s0.solving ++ [m],
                                        log := .push m :: s0.log } m := by
      intro s0 hinv0 hle0 hv0 hi0 hsp0 hr0 him0 hfd0 hmf
      refine ⟨?_, ?_⟩
      · refine hinv0.frame rfl rfl rfl rfl rfl (fun _ h => h) (fun _ h => h)
          (fun n hn => List.mem_append_left _ hn) ?_ ?_ ?_ hinv0.fmapForm ?_ hinv0.specsForm
        · intro n hn
          simp only [List.mem_append, List.mem_singleton] at hn
          rcases hn with hn | rfl
          · rcases hinv0.part n hn with p | p
            · left
              show n ∈ σ.sortQ (s0.queue ++ [m])
              rw [(hσ.q _).mem_iff]; exact List.mem_append_left _ p
            · exact Or.inr p
          · left
            show n ∈ σ.sortQ (s0.queue ++ [n])
            rw [(hσ.q _).mem_iff]; simp
        · intro n hn
          show n ∈ s0.solving ++ [m]
          rcases hn with hn | hn
          · have hn' : n ∈ σ.sortQ (s0.queue ++ [m]) := hn
            rw [(hσ.q _).mem_iff, List.mem_append, List.mem_singleton] at hn'
            rcases hn' with hn' | rfl
            · exact List.mem_append_left _ (hinv0.qDem n (Or.inl hn'))
            · simp
          · exact List.mem_append_left _ (hinv0.qDem n (Or.inr hn))
        · intro n hn
          have hn' : n ∈ s0.solving ++ [m] := hn
          rw [List.mem_append, List.mem_singleton] at hn'
          rcases hn' with hn' | rfl
          · exact hinv0.solFmap n hn'
          · exact hmf
        · intro f hf
          obtain ⟨a, b, c, d⟩ := hinv0.formsLoaded f hf
          exact ⟨a, fun n hn => List.mem_append_left _ (b n hn), c, d⟩
      · refine ⟨hv0, hi0, ?_, by simp, hsp0, hr0, him0, hfd0⟩
        exact ⟨hle0.v, hle0.i, hle0.f⟩
    split at h
    · rename_i hmf
      simp only [hmf, if_true, hm, if_false] at h
      cases h
      exact key s hinv (StoreLe.refl C _) rfl rfl (fun _ h => h) rfl rfl rfl hmf
    · rename_i hmf
      cases hfo : C.formOfN m with
      | none => simp [hfo] at h
      | some f =>
        simp only [hfo] at h
        cases hadd : addForm C σ s f false with
        | error e => simp [hadd] at h
        | ok s0 =>
          simp only [hadd] at h
          split at h
          · rename_i hmf0
            obtain ⟨_, h0, h1, hfd, hid, _, hr, hspecs, _, _⟩ := addForm_ok hadd
            split at h
            · rename_i hms0
              cases h
              exact ⟨addForm_inv hC hσ hinv hadd, h0, h1, addForm_storeLe hadd, hms0,
                fun x hx => (hspecs x).mpr (Or.inl hx), hr, hid, hfd⟩
            · cases h
              exact key s0 (addForm_inv hC hσ hinv hadd) (addForm_storeLe hadd) h0 h1
                (fun x hx => (hspecs x).mpr (Or.inl hx)) hr hid hfd hmf0
          · simp at h

/-! ## one attempt at a line -/

theorem addUnmet_unmetKeys {D W : Type} [DecidableEq D] (t : Tracker D W) (d : D) (w : W) :
    (t.addUnmet d w).met = t.met := addUnmet_met t d w

/-- **Every attempt preserves the invariant** and only grows the stores. -/
theorem attemptField_inv (hC : CatWF C) (hσ : SchedOK σ) (fuel : Nat) :
    ∀ {L : List N} {s s' : St N I F V S} {n : N}, Inv C (n :: L) s →
      attemptField C σ fuel s n = .ok s' →
      Inv C L s' ∧ StoreLe C s s' ∧ s'.inp = s.inp ∧ s'.ideps.met = s.ideps.met ∧
        s'.refused = s.refused := by
  induction fuel with
  | zero => intro L s s' n _ h; simp [attemptField] at h
  | succ fuel ih =>
    intro L s s' n hinv h
    simp only [attemptField] at h
    split at h
    · -- value
      rename_i x hx
      cases h
      refine ⟨hinv.setVal hx rfl rfl ⟨rfl, rfl, rfl, rfl, rfl⟩ rfl rfl rfl, ?_, rfl, rfl, rfl⟩
      refine ⟨?_, by exact InpLe.refl _, by exact FormLe.refl _⟩
      intro k y hk
      show (assocSet s.v n x).lookup k = some y
      rw [assocSet_lookup]
      split
      · rename_i e; subst e
        have := hinv.vSound k y hk
        rw [hx] at this; cases this; rfl
      · exact hk
    · -- blocked on a line
      rename_i m hm
      cases hd : demand C σ s m with
      | error e => simp [hd] at h
      | ok s1 =>
        simp only [hd] at h
        cases h
        obtain ⟨hinv1, post⟩ := demand_inv hC hσ hinv hd
        have hvm : s.vf m = none := run_needV_absent _ _ _ _ _ hm
        have hvm1 : s1.vf m = none := by rw [vf_congr post.v]; exact hvm
        have hm1 : s1.attempt C n = .needV m := attempt_needV_stable post.le hm hvm1
        refine ⟨?_, ?_, post.inp, by simp [addUnmet_met, post.imet], post.refused⟩
        · refine hinv1.rebucket rfl ⟨rfl, rfl, rfl, rfl, rfl⟩ rfl (addUnmet_WF _ hinv1.fwf _ _)
            hinv1.iwf (addUnmet_met _ _ _) rfl ?_ ?_ (fun x k hw => Or.inl hw) (fun x k hw => hw)
            (fun k hk => Or.inl hk) (fun k hk => hk) ?_
          · intro m' k hw
            rcases (addUnmet_waits _ hinv1.fwf m n m' k).mp hw with hw | ⟨rfl, rfl⟩
            · exact Or.inl hw
            · exact Or.inr ⟨rfl, post.mem, hvm1, hm1⟩
          · intro m' k hw
            exact (addUnmet_waits _ hinv1.fwf m n m' k).mpr (Or.inl hw)
          · exact Or.inl ⟨m, (addUnmet_waits _ hinv1.fwf m n m n).mpr (Or.inr ⟨rfl, rfl⟩)⟩
        · exact ⟨post.le.v, post.le.i, post.le.f⟩
    · -- blocked on an input
      rename_i x hx
      cases h
      have hmiss : s.inf C x = .missing := run_needI_missing _ _ _ _ _ hx
      refine ⟨?_, storeLe_of_grow rfl rfl (fun _ h => h) (fun _ h => h), rfl, by simp [addUnmet_met], rfl⟩
      refine hinv.rebucket rfl ⟨rfl, rfl, rfl, rfl, rfl⟩ rfl hinv.fwf
        (addUnmet_WF _ hinv.iwf _ _) rfl (addUnmet_met _ _ _) (fun m k hw => Or.inl hw)
        (fun m k hw => hw) ?_ ?_ (fun k hk => Or.inl hk) (fun k hk => hk) ?_
      · intro y k hw
        rcases (addUnmet_waits _ hinv.iwf x n y k).mp hw with hw | ⟨rfl, rfl⟩
        · exact Or.inl hw
        · exact Or.inr ⟨rfl, hmiss, hx⟩
      · intro y k hw
        exact (addUnmet_waits _ hinv.iwf x n y k).mpr (Or.inl hw)
      · exact Or.inr (Or.inl ⟨x, (addUnmet_waits _ hinv.iwf x n x n).mpr (Or.inr ⟨rfl, rfl⟩)⟩)
    · -- the input's form is not loaded: load it (inputs only) and retry
      rename_i x hx
      cases hfo : C.formOfI x with
      | none => simp [hfo] at h
      | some f =>
        simp only [hfo] at h
        cases hadd : addForm C σ s f true with
        | error e => simp [hadd] at h
        | ok s1 =>
          simp only [hadd] at h
          split at h
          · obtain ⟨_, h0, h1, hfd, hid, _, hr, _, _, _⟩ := addForm_ok hadd
            have hinv1 : Inv C (n :: L) s1 := addForm_inv hC hσ hinv hadd
            have hinv1' : Inv C (n :: L) { s1 with log := Event.attempt n :: s1.log } :=
              hinv1.frame rfl rfl rfl rfl rfl (fun _ h => h) (fun _ h => h) (fun _ h => h)
                hinv1.part hinv1.qDem hinv1.solFmap hinv1.fmapForm hinv1.formsLoaded hinv1.specsForm
            obtain ⟨a, b, c, d, e⟩ := ih hinv1' h
            have hle1 : StoreLe C s s1 := addForm_storeLe hadd
            refine ⟨a, ?_, by rw [c]; exact h1, by rw [d]; simp [hid], by rw [e]; exact hr⟩
            exact ⟨hle1.v.trans b.v, hle1.i.trans b.i, hle1.f.trans b.f⟩
          · simp at h
    · -- not implemented
      rename_i hx
      cases h
      refine ⟨?_, storeLe_of_grow rfl rfl (fun _ h => h) (fun _ h => h), rfl, rfl, rfl⟩
      refine hinv.rebucket rfl ⟨rfl, rfl, rfl, rfl, rfl⟩ rfl hinv.fwf hinv.iwf rfl rfl
        (fun m k hw => Or.inl hw) (fun m k hw => hw) (fun x k hw => Or.inl hw) (fun x k hw => hw)
        ?_ ?_ ?_
      · intro k hk
        have hk' : k ∈ s.unimpl ++ [n] := hk
        rw [List.mem_append, List.mem_singleton] at hk'
        rcases hk' with hk' | rfl
        · exact Or.inl hk'
        · exact Or.inr ⟨rfl, hx⟩
      · intro k hk; exact List.mem_append_left _ hk
      · exact Or.inr (Or.inr (by show n ∈ s.unimpl ++ [n]; simp))
    · simp at h
    · simp at h
    · simp at h

end HabuVerif
