import HabuVerif.Proofs.F64Dollars
import HabuVerif.Proofs.FieldsLemmas
import HabuVerif.Dsl.Cat
/-!
# C14 — the decimal text of a stored money value reads back as that value (binary64, proved)

`FloatField.to_string(v) = f'{v:.{places}f}'`, `FloatField.from_string(s) = round(float(s), places)`
(`/repo/habutax/fields.py`), for the concrete binary64 operations `Dsl.f64Ops` (`Py/F64.lean`,
bit-exact against CPython 3.12 by the `f64` stream) and the `float()` grammar of `Py/Str.lean`.
This removes the two hypotheses (`hidem`, `hparse`) of `C14.money_reads_back_partial`.

1. `natDecT_eq`: the digit function used by `F64.fmtFixedT` is `PyStr.natDec`.
2. `parseFloatLit_fixed`: `float()` reads `[-]digits[.digits]` as the decimal it denotes — for EVERY
   character table `T` (the text is ASCII, which `numDigit`/`numSpace` read without consulting `T`).
3. `parse_fmt_finite`: the `n`-place text of a finite double `±m·2^e` denotes `±k·10^-n` with
   `k = round_half_even(m·2^e·10^n)`; `parse_fmt_fixed`: hence every fixed point of `round(·, n)`
   (`n ≤ 323`) reads back from its `n`-place text, bit for bit (also `±0.0`, `±inf`, `nan`).
4. `parse_fmt_cents` / `parse_fmt_dollars`: cent-valued (`Cent v c`, `|c| < 2^52`) and integer-valued
   (`Dollar v d`) doubles read back.
5. `roundN_idem0/2/5`: `round(round(x, n), n) = round(x, n)` for EVERY double `x` and `n ∈ {0, 2, 5}`
   (no magnitude bound: fine binades give back the same decimal, exact binades are decimals already,
   and in the few coarse binades in between the decimal is within less than half an ulp).
6. `money_reads_back_2/0/5`, `money_reads_back`, `stored_money_reads_back`: the `Fields` round trip
   with no hypothesis besides "this text was written".
-/
set_option autoImplicit false

namespace HabuVerif.C14Decimal
open HabuVerif HabuVerif.PyStr HabuVerif.F64

/-! ## 1. the digit functions of `Py/F64.lean` are the ones of `Py/Str.lean` -/

theorem digitChar_eq (d : Nat) : F64.digitChar d = PyStr.digitChar d := rfl

theorem natDecAux_eq (fuel n : Nat) (acc : Text) (h : n < fuel) :
    F64.natDecAux fuel n acc = natDec n ++ acc := by
  induction fuel generalizing n acc with
  | zero => omega
  | succ f ih =>
    rw [natDec]
    unfold F64.natDecAux
    by_cases h10 : n < 10
    · simp [h10, digitChar_eq]
    · rw [if_neg h10, dif_neg h10, ih _ _ (by omega)]
      simp [digitChar_eq]

theorem natDecT_eq (n : Nat) : F64.natDecT n = natDec n := by
  unfold F64.natDecT
  rw [natDecAux_eq _ _ _ (by omega)]
  simp

variable (T : CharTable)

/-- text made of ASCII digits only -/
def Digits (l : Text) : Prop := ∀ c ∈ l, ∃ d, d < 10 ∧ c = PyStr.digitChar d

theorem digits_fracDigits (n k : Nat) : Digits (fracDigits n k) := by
  induction n generalizing k with
  | zero => intro c hc; simp [fracDigits] at hc
  | succ n ih =>
    intro c hc
    unfold fracDigits at hc
    rcases List.mem_append.mp hc with hc | hc
    · exact ih _ c hc
    · simp at hc; exact ⟨k % 10, by omega, hc⟩

theorem length_fracDigits (n k : Nat) : (fracDigits n k).length = n := by
  induction n generalizing k with
  | zero => rfl
  | succ n ih => unfold fracDigits; simp [ih]

theorem digitVals_append (a b : Text) : digitVals T (a ++ b) = digitVals T a ++ digitVals T b := by
  simp [digitVals, List.filterMap_append]

theorem ofDigits_append_frac (ds : List Nat) (n k : Nat) :
    ofDigits (ds ++ digitVals T (fracDigits n k)) = ofDigits ds * 10 ^ n + k % 10 ^ n := by
  induction n generalizing k with
  | zero => simp [fracDigits, digitVals, Nat.mod_one]
  | succ n ih =>
    unfold fracDigits
    have hd := numDigit_digitChar T (k % 10) (by omega)
    have : digitVals T (fracDigits n (k / 10) ++ [F64.digitChar (k % 10)]) =
        digitVals T (fracDigits n (k / 10)) ++ [k % 10] := by
      rw [digitVals_append]; simp [digitVals, digitChar_eq, hd]
    rw [this, ← List.append_assoc, ofDigits_append_singleton, ih]
    have h2 : k % 10 ^ (n + 1) = k % 10 + 10 * (k / 10 % 10 ^ n) := by
      rw [Nat.pow_succ, Nat.mul_comm (10 ^ n) 10, Nat.mod_mul]
    rw [h2, Nat.pow_succ]; ring

theorem Digits.span {l : Text} (h : Digits l) (r : Text)
    (hr : ∀ c r', r = c :: r' → isNumDigit T c = false) :
    (l ++ r).span (isNumDigit T) = (l, r) := by
  induction l with
  | nil =>
    cases r with
    | nil => rfl
    | cons c r' => simp [List.span_eq_takeWhile_dropWhile, hr c r' rfl]
  | cons a l ih =>
    obtain ⟨d, hd, rfl⟩ := h a (by simp)
    have : isNumDigit T (PyStr.digitChar d) = true := by simp [isNumDigit, numDigit_digitChar T d hd]
    have ih' := ih (fun c hc => h c (by simp [hc]))
    simp only [List.span_eq_takeWhile_dropWhile] at ih' ⊢
    simp [this]
    simpa using ih'


/-! ## 2. `float()` reads `[-]digits[.digits]` as the decimal it denotes -/

/-- no underscore, no white space (as seen by `float()`) -/
def Plain (l : Text) : Prop := ∀ c ∈ l, c ≠ '_' ∧ numSpace T c = false

theorem Digits.plain {l : Text} (h : Digits l) : Plain T l := by
  intro c hc
  obtain ⟨d, hd, rfl⟩ := h c hc
  exact ⟨digitChar_ne_underscore d hd, numSpace_digitChar T d hd⟩

theorem Plain.append {a b : Text} (ha : Plain T a) (hb : Plain T b) : Plain T (a ++ b) := by
  intro c hc
  rcases List.mem_append.mp hc with hc | hc
  · exact ha c hc
  · exact hb c hc

theorem Plain.cons {a : Char} {b : Text} (ha : a ≠ '_' ∧ numSpace T a = false) (hb : Plain T b) :
    Plain T (a :: b) := by
  intro c hc
  rcases List.mem_cons.mp hc with rfl | hc
  · exact ha
  · exact hb c hc

theorem plain_nil : Plain T [] := by intro c hc; cases hc

theorem underscoresOk_plain (l : Text) (h : Plain T l) (prev : Option Char) (hp : prev ≠ some '_') :
    underscoresOk T prev l = true := by
  induction l generalizing prev with
  | nil => simp [underscoresOk, hp]
  | cons a l ih =>
    have ha := (h a (by simp)).1
    have := ih (fun c hc => h c (by simp [hc])) (some a) (by simpa using ha)
    unfold underscoresOk
    simp [ha, hp, this]

theorem removeUnderscores_plain (l : Text) (h : Plain T l) : removeUnderscores l = l := by
  unfold removeUnderscores
  rw [List.filter_eq_self]
  intro c hc
  simpa using (h c hc).1

theorem dropWhile_plain (l : Text) (h : Plain T l) : l.dropWhile (numSpace T) = l := by
  cases l with
  | nil => rfl
  | cons a l => simp [(h a (by simp)).2]

theorem trim_plain (l : Text) (h : Plain T l) :
    ((l.dropWhile (numSpace T)).reverse.dropWhile (numSpace T)).reverse = l := by
  rw [dropWhile_plain T l h, dropWhile_plain T l.reverse (fun c hc => h c (by simpa using hc))]
  simp

theorem isNumDigit_dot : isNumDigit T '.' = false := by rfl

/-- the unsigned part -/
theorem parseDecimal_fixed (ip fp : Text) (hip : Digits ip) (hfp : Digits fp) (hne : ip ≠ [])
    (tail : Text) (htail : (tail = [] ∧ fp = []) ∨ tail = '.' :: fp) :
    parseDecimal T (ip ++ tail) =
      some (ofDigits (digitVals T (ip ++ fp)), -(fp.length : Int)) := by
  unfold parseDecimal
  have hip' : ip.isEmpty = false := by cases ip <;> simp_all
  rcases htail with ⟨rfl, rfl⟩ | rfl
  · rw [hip.span T [] (by intro c r' h; cases h)]
    simp [hip', parseExponent]
  · rw [hip.span T ('.' :: fp) (by intro c r' h; cases h; exact isNumDigit_dot T)]
    have := hfp.span T [] (by intro c r' h; cases h)
    rw [List.append_nil] at this
    simp only [this]
    simp [hip', parseExponent]

theorem parseFloatLit_fixed (s : Bool) (ip fp : Text) (hip : Digits ip) (hfp : Digits fp)
    (hne : ip ≠ []) (tail : Text) (htail : (tail = [] ∧ fp = []) ∨ tail = '.' :: fp) :
    parseFloatLit T ((if s then '-' :: (ip ++ tail) else ip ++ tail)) =
      some (.finite s (ofDigits (digitVals T (ip ++ fp))) (-(fp.length : Int))) := by
  have hdot : ('.' : Char) ≠ '_' ∧ numSpace T '.' = false := ⟨by decide, rfl⟩
  have hminus : ('-' : Char) ≠ '_' ∧ numSpace T '-' = false := ⟨by decide, rfl⟩
  have htl : Plain T tail := by
    rcases htail with ⟨rfl, _⟩ | rfl
    · exact plain_nil T
    · exact Plain.cons T hdot (hfp.plain T)
  have hbody : Plain T (ip ++ tail) := Plain.append T (hip.plain T) htl
  have hall : Plain T (if s then '-' :: (ip ++ tail) else ip ++ tail) := by
    cases s
    · exact hbody
    · exact Plain.cons T hminus hbody
  have hsign : takeSign (if s then '-' :: (ip ++ tail) else ip ++ tail) = (s, ip ++ tail) := by
    cases s
    · obtain ⟨a, l, rfl⟩ := List.exists_cons_of_ne_nil hne
      obtain ⟨d, hd, rfl⟩ := hip a (by simp)
      exact takeSign_digitChar d hd _
    · rfl
  unfold parseFloatLit
  have h1 := underscoresOk_plain T _ hall none (by simp)
  have h2 := removeUnderscores_plain T _ hall
  have h3 := trim_plain T _ hall
  simp only [h1, h2, h3, hsign, parseDecimal_fixed T ip fp hip hfp hne tail htail]
  rfl


/-! ## 3. `'%.nf' % v` denotes `k·10^-n`, `k` the exact half-even rounding of `v·10^n` -/

open HabuVerif.Dsl (f64Ops)

theorem fmt_eq (x : F64) (n : Nat) : f64Ops.fmt x n = fmtFixedT x n := by
  simp [f64Ops, fmtFixed]

theorem fmtFixedT_finite (s : Bool) (m e n : Nat) :
    fmtFixedT (finite s m e) n =
      (if s then '-' :: (natDec (rneDiv (m * 2 ^ e * 10 ^ n) one / 10 ^ n) ++
          (if n = 0 then [] else '.' :: fracDigits n (rneDiv (m * 2 ^ e * 10 ^ n) one % 10 ^ n)))
       else natDec (rneDiv (m * 2 ^ e * 10 ^ n) one / 10 ^ n) ++
          (if n = 0 then [] else '.' :: fracDigits n (rneDiv (m * 2 ^ e * 10 ^ n) one % 10 ^ n))) := by
  unfold fmtFixedT
  simp only [natDecT_eq]
  by_cases hn : n = 0 <;> simp [hn]

/-- the text written for a finite double parses as the decimal `±k·10^-n` -/
theorem parse_fmt_finite (s : Bool) (m e n : Nat) :
    parseFloatLit T (f64Ops.fmt (finite s m e) n) =
      some (.finite s (rneDiv (m * 2 ^ e * 10 ^ n) one) (-(n : Int))) := by
  rw [fmt_eq, fmtFixedT_finite]
  generalize rneDiv (m * 2 ^ e * 10 ^ n) one = k
  have h := parseFloatLit_fixed T s (natDec (k / 10 ^ n)) (fracDigits n (k % 10 ^ n))
    (natDec_digits _) (digits_fracDigits _ _) (natDec_ne_nil _)
    (if n = 0 then [] else '.' :: fracDigits n (k % 10 ^ n))
    (by by_cases hn : n = 0
        · subst hn; left; simp [fracDigits]
        · right; simp [hn])
  rw [h, digitVals_append, ofDigits_append_frac, ofDigits_digitVals_natDec, length_fracDigits,
    Nat.mod_mod, Nat.div_add_mod']

theorem parse_fmt_inf (s : Bool) (n : Nat) :
    parseFloatLit T (f64Ops.fmt (.inf s) n) = some (.inf s) := by
  rw [fmt_eq]; cases s <;> rfl

theorem parse_fmt_nan (n : Nat) : parseFloatLit T (f64Ops.fmt .nan n) = some (.nan false) := by
  rw [fmt_eq]; rfl

theorem ofLit_finite (s : Bool) (k : Nat) (e : Int) :
    f64Ops.ofLit (.finite s k e) = ofDecimal s k e := rfl

/-- `float("±k e-n")` for `n ≤ 323` -/
theorem ofDecimal_places (s : Bool) (k n : Nat) (hn : ¬ n > 323) :
    ofDecimal s k (-(n : Int)) = ofScaled s (k * one) (10 ^ n) := by
  unfold ofDecimal
  by_cases hk : k = 0
  · subst hk; simp [ofScaled_zero]
  · have h2 : ¬ (-(n : Int) ≥ 310) := by omega
    have h3 : ¬ (-(n : Int) < -(400 + ((k.log2 : Nat) : Int) + 1)) := by omega
    simp only [hk, h2, h3, if_false]
    by_cases h0 : n = 0
    · subst h0; simp
    · have h4 : ¬ (-(n : Int) ≥ 0) := by omega
      simp [h0]

/-- **A fixed point of `round(·, n)` reads back from its `n`-place text, bit for bit** (every `v`,
including `±0.0`, `±inf` — `nan` reads back as `nan`). -/
theorem parse_fmt_fixed (v : F64) (n : Nat) (hn : ¬ n > 323) (hfix : roundN v n = v) :
    ∃ d, parseFloatLit T (f64Ops.fmt v n) = some d ∧ f64Ops.ofLit d = v := by
  cases v with
  | nan => exact ⟨_, parse_fmt_nan T n, rfl⟩
  | inf s => exact ⟨_, parse_fmt_inf T s n, rfl⟩
  | finite s m e =>
    refine ⟨_, parse_fmt_finite T s m e n, ?_⟩
    rw [ofLit_finite, ofDecimal_places _ _ _ hn, ← roundN_finite_def _ _ _ _ hn, hfix]


/-! ## 4. cents and whole dollars -/

/-- the literal that the text of a cent-valued double denotes: sign flag and `|c|·10^-2` -/
theorem parse_fmt_cents_lit {v : F64} {c : Int} (h : Cent v c) (hc : c.natAbs < 2 ^ 52) :
    parseFloatLit T (f64Ops.fmt v 2) = some (.finite v.signBit c.natAbs (-2)) := by
  obtain ⟨s, m, e, rfl⟩ := exists_finite h.isFinite
  rw [parse_fmt_finite]
  have h100 : (10 : Nat) ^ 2 = 100 := by decide
  have hk : signed s (rneDiv (m * 2 ^ e * 10 ^ 2) one) = c := by
    rw [h100, signed_cents]; exact h.cents100 hc
  have := congrArg Int.natAbs hk
  rw [signed_natAbs] at this
  rw [this]; rfl

/-- **`float(f'{v:.2f}') = v`, bit for bit, for every cent-valued double** (`|c| < 2^52` cents; both
`0.0` ↦ `'0.00'` ↦ `0.0` and `-0.0` ↦ `'-0.00'` ↦ `-0.0`). -/
theorem parse_fmt_cents {v : F64} {c : Int} (h : Cent v c) (hc : c.natAbs < 2 ^ 52) :
    ∃ d, parseFloatLit T (f64Ops.fmt v 2) = some d ∧ f64Ops.ofLit d = v :=
  parse_fmt_fixed T v 2 (by decide) (h.roundN2 hc)

/-- **`float(f'{v:.0f}') = v`, bit for bit, for every integer-valued double** (no bound needed). -/
theorem parse_fmt_dollars {v : F64} {d : Int} (h : Dollar v d) :
    ∃ l, parseFloatLit T (f64Ops.fmt v 0) = some l ∧ f64Ops.ofLit l = v :=
  parse_fmt_fixed T v 0 (by decide) (h.roundN 0)

/-! ## 5. `round(round(x, n), n) = round(x, n)` for EVERY double, `n ∈ {0, 2, 5}` -/

theorem expo_eq_of_bounds {N D j : Nat} (hD : 0 < D) (h1 : D * 2 ^ (52 + j) ≤ N)
    (h2 : N < D * 2 ^ (53 + j)) : expo N D = j := by
  have hup := expo_upper (N := N) hD
  rcases Nat.lt_trichotomy (expo N D) j with hlt | heq | hgt
  · have : D * 2 ^ (53 + expo N D) ≤ D * 2 ^ (52 + j) :=
      Nat.mul_le_mul_left D (Nat.pow_le_pow_right (by decide) (by omega))
    omega
  · exact heq
  · have hne : expo N D ≠ 0 := by omega
    have hlo := expo_lower hne
    have : D * 2 ^ (53 + j) ≤ D * 2 ^ (52 + expo N D) :=
      Nat.mul_le_mul_left D (Nat.pow_le_pow_right (by decide) (by omega))
    omega

/-- what a finite result of the rounding primitive looks like: canonical, and within half a unit of
its last place of the exact quotient -/
theorem ofScaled_finite_inv {s s' : Bool} {N D m' j' : Nat} (hD : 0 < D)
    (h : ofScaled s N D = finite s' m' j') :
    s' = s ∧ m' < 2 ^ 53 ∧ j' ≤ maxE ∧ (2 ^ 52 ≤ m' ∨ j' = 0) ∧
      2 * (m' * (D * 2 ^ j')) ≤ 2 * N + D * 2 ^ j' ∧ 2 * N ≤ 2 * (m' * (D * 2 ^ j')) + D * 2 ^ j' := by
  have hwf : WF (finite s' m' j') := h ▸ wf_ofScaled s hD
  obtain ⟨w1, w2, w3⟩ := (wf_finite_iff ..).1 hwf
  have herr := rneDiv_err (a := N) (Nat.mul_pos hD (Nat.two_pow_pos (expo N D)))
  rw [ofScaled_def] at h
  generalize expo N D = j at *
  generalize rneDiv N (D * 2 ^ j) = m0 at *
  unfold mk at h
  by_cases hm : m0 = 2 ^ 53
  · rw [if_pos hm] at h
    split at h
    · cases h
    · injection h with hs hm' hj'
      subst hs hm' hj' hm
      refine ⟨rfl, w1, w2, w3, ?_⟩
      have e1 : D * 2 ^ (j + 1) = 2 * (D * 2 ^ j) := by rw [Nat.pow_succ]; ring
      have e2 : 2 ^ 52 * (D * 2 ^ (j + 1)) = 2 ^ 53 * (D * 2 ^ j) := by rw [e1]; ring
      rw [e2, e1]
      generalize 2 ^ 53 * (D * 2 ^ j) = a at *
      omega
  · rw [if_neg hm] at h
    split at h
    · cases h
    · injection h with hs hm' hj'
      subst hs hm' hj'
      refine ⟨rfl, w1, w2, w3, ?_⟩
      generalize m0 * (D * 2 ^ j) = a at *
      omega

/-- fine binade (`ulp · D < 1`): the decimal comes back (`k' = k`) -/
theorem reround_fine {s : Bool} {k D m' j' : Nat} (hD : 0 < D)
    (h : ofScaled s (k * one) D = finite s m' j') (hf : D * 2 ^ j' < one) :
    ofScaled s (rneDiv (m' * 2 ^ j' * D) one * one) D = finite s m' j' := by
  obtain ⟨_, _, _, _, e1, e2⟩ := ofScaled_finite_inv hD h
  have : rneDiv (m' * 2 ^ j' * D) one = k := by
    apply rneDiv_eq_of_near F64.one_pos
    · have e : m' * 2 ^ j' * D = m' * (D * 2 ^ j') := by ring
      rw [e]; omega
    · have e : m' * 2 ^ j' * D = m' * (D * 2 ^ j') := by ring
      rw [e]; omega
  rw [this]; exact h

/-- exact binade (`v · D` is an integer): the decimal is `v` itself -/
theorem reround_exact {s : Bool} {D m' j' : Nat} (hD : 0 < D) (hw : WF (finite s m' j'))
    (hdiv : one ∣ m' * 2 ^ j' * D) :
    ofScaled s (rneDiv (m' * 2 ^ j' * D) one * one) D = finite s m' j' := by
  obtain ⟨q, hq⟩ := hdiv
  rw [hq, Nat.mul_comm one q, rneDiv_exact F64.one_pos, Nat.mul_comm q one, ← hq]
  exact ofScaled_exact hD hw

/-- coarse binade (`ulp · D > 1`), away from the binade boundary: the decimal `k'/D` is within less
than half an ulp of `v`, so it rounds to `v` -/
theorem reround_coarse {s : Bool} {D m' j' : Nat} (hD : 0 < D) (hj : j' ≤ maxE)
    (hm1 : 2 ^ 52 < m') (hm2 : m' < 2 ^ 53) (hc : one < D * 2 ^ j') :
    ofScaled s (rneDiv (m' * 2 ^ j' * D) one * one) D = finite s m' j' := by
  have herr := rneDiv_err (a := m' * 2 ^ j' * D) F64.one_pos
  have e : m' * 2 ^ j' * D = m' * (D * 2 ^ j') := by ring
  rw [e] at herr ⊢
  have b1 : (2 ^ 52 + 1) * (D * 2 ^ j') ≤ m' * (D * 2 ^ j') := Nat.mul_le_mul_right _ (by omega)
  have b2 : m' * (D * 2 ^ j') ≤ (2 ^ 53 - 1) * (D * 2 ^ j') := Nat.mul_le_mul_right _ (by omega)
  have e52 : D * 2 ^ (52 + j') = 2 ^ 52 * (D * 2 ^ j') := by rw [Nat.pow_add]; ring
  have e53 : D * 2 ^ (53 + j') = 2 ^ 53 * (D * 2 ^ j') := by rw [Nat.pow_add]; ring
  generalize rneDiv (m' * (D * 2 ^ j')) one * one = N' at *
  have hexpo : expo N' D = j' := by
    apply expo_eq_of_bounds hD
    · rw [e52]; generalize m' * (D * 2 ^ j') = a at *; generalize D * 2 ^ j' = P at *; omega
    · rw [e53]; generalize m' * (D * 2 ^ j') = a at *; generalize D * 2 ^ j' = P at *; omega
  have hm : rneDiv N' (D * 2 ^ j') = m' := by
    apply rneDiv_eq_of_near (Nat.mul_pos hD (Nat.two_pow_pos _))
    · generalize m' * (D * 2 ^ j') = a at *; generalize D * 2 ^ j' = P at *; omega
    · generalize m' * (D * 2 ^ j') = a at *; generalize D * 2 ^ j' = P at *; omega
  rw [ofScaled_def, hexpo, hm, if_neg (by omega)]
  exact ev_mk_small hj


/-- idempotence of `round(·, n)` on ALL doubles from three closed arithmetic facts about `10^n`:
binades up to `J` are fine, binades from `K` on are exact, and in between only the binade boundary
(`m = 2^52`, exact) needs care -/
theorem roundN_idem_split (n J K : Nat) (hn : ¬ n > 323)
    (hJ : 10 ^ n * 2 ^ J < one) (hK : one ∣ 2 ^ K * 10 ^ n)
    (hmid : K ≤ J + 1 ∨ (one < 10 ^ n * 2 ^ (J + 1) ∧ one ∣ 2 ^ 52 * 2 ^ (J + 1) * 10 ^ n))
    (x : F64) : roundN (roundN x n) n = roundN x n := by
  have hD := ten_pow_pos n
  cases x with
  | nan => rfl
  | inf s => rfl
  | finite s m e =>
    rw [roundN_finite_def _ _ _ _ hn]
    generalize rneDiv (m * 2 ^ e * 10 ^ n) one = k
    cases h : ofScaled s (k * one) (10 ^ n) with
    | nan => rfl
    | inf s' => rfl
    | finite s' m' j' =>
      obtain ⟨rfl, w1, w2, w3, -, -⟩ := ofScaled_finite_inv hD h
      rw [roundN_finite_def _ _ _ _ hn]
      by_cases h1 : j' ≤ J
      · apply reround_fine hD h
        have : 2 ^ j' ≤ 2 ^ J := Nat.pow_le_pow_right (by decide) h1
        exact Nat.lt_of_le_of_lt (Nat.mul_le_mul_left _ this) hJ
      · by_cases h2 : K ≤ j'
        · apply reround_exact hD ((wf_finite_iff ..).2 ⟨w1, w2, w3⟩)
          have e : m' * 2 ^ j' * 10 ^ n = m' * 2 ^ (j' - K) * (2 ^ K * 10 ^ n) := by
            have : 2 ^ j' = 2 ^ (j' - K) * 2 ^ K := by rw [← Nat.pow_add]; congr 1; omega
            rw [this]; ring
          rw [e]; exact Dvd.dvd.mul_left hK _
        · rcases hmid with hmid | ⟨hc, hd⟩
          · omega
          · by_cases h3 : m' = 2 ^ 52
            · apply reround_exact hD ((wf_finite_iff ..).2 ⟨w1, w2, w3⟩)
              have e : m' * 2 ^ j' * 10 ^ n
                  = 2 ^ (j' - (J + 1)) * (2 ^ 52 * 2 ^ (J + 1) * 10 ^ n) := by
                have : 2 ^ j' = 2 ^ (j' - (J + 1)) * 2 ^ (J + 1) := by
                  rw [← Nat.pow_add]; congr 1; omega
                rw [this, h3]; ring
              rw [e]; exact Dvd.dvd.mul_left hd _
            · apply reround_coarse hD w2 (by omega) w1
              have : 2 ^ (J + 1) ≤ 2 ^ j' := Nat.pow_le_pow_right (by decide) (by omega)
              exact Nat.lt_of_lt_of_le hc (Nat.mul_le_mul_left _ this)

set_option exponentiation.threshold 2000 in
/-- **`round(round(x, 0), 0) = round(x, 0)` for every double `x`** -/
theorem roundN_idem0 (x : F64) : roundN (roundN x 0) 0 = roundN x 0 :=
  roundN_idem_split 0 1073 1074 (by decide) (by unfold one; decide) (by unfold one; decide)
    (Or.inl (by decide)) x

set_option exponentiation.threshold 2000 in
/-- **`round(round(x, 2), 2) = round(x, 2)` for every double `x`** (no magnitude bound) -/
theorem roundN_idem2 (x : F64) : roundN (roundN x 2) 2 = roundN x 2 :=
  roundN_idem_split 2 1067 1072 (by decide) (by unfold one; decide) (by unfold one; decide)
    (Or.inr ⟨by unfold one; decide, by unfold one; decide⟩) x

set_option exponentiation.threshold 2000 in
/-- **`round(round(x, 5), 5) = round(x, 5)` for every double `x`** -/
theorem roundN_idem5 (x : F64) : roundN (roundN x 5) 5 = roundN x 5 :=
  roundN_idem_split 5 1057 1069 (by decide) (by unfold one; decide) (by unfold one; decide)
    (Or.inr ⟨by unfold one; decide, by unfold one; decide⟩) x

/-! ## 6. `Field.from_string (Field.to_string v) = v` for money lines -/

open HabuVerif.Fields HabuVerif.Inputs

/-- `fromString_toString_float` (`Proofs/FieldsLemmas.lean`) with idempotence required at the stored
value only -/
theorem fromString_toString_float_at {F : Type} (ops : FloatOps F) (p : Nat) (v : F)
    (hfix : ops.roundN v p = v)
    (hparse : ∃ d, parseFloatLit T (ops.fmt v p) = some d ∧ ops.ofLit d = v) (s : Text)
    (h : Fields.toString T ops (.float p) (.float v) = .ok s) :
    fromString T ops (.float p) s = .ok (.float v) := by
  simp [Fields.toString] at h
  subst h
  obtain ⟨d, hd, hx⟩ := hparse
  simp [fromString, hd, hx, hfix]

/-- every stored value that is a fixed point of its line's rounding reads back -/
theorem money_reads_back_of_fixed (p : Nat) (hp : ¬ p > 323) (v : F64) (hfix : roundN v p = v)
    (text : Text) (h : Fields.toString T f64Ops (.float p) (.float v) = .ok text) :
    fromString T f64Ops (.float p) text = .ok (.float v) :=
  fromString_toString_float_at T f64Ops p v hfix (parse_fmt_fixed T v p hp hfix) text h


/-- **C14, money lines (`places = 2`)**: for EVERY double `x` (any magnitude; also `±0.0`, `±inf`, `nan`)
the text written for the stored amount `round(x, 2)` reads back as exactly that double. -/
theorem money_reads_back_2 (x : F64) (text : Text)
    (h : Fields.toString T f64Ops (.float 2) (.float (roundN x 2)) = .ok text) :
    fromString T f64Ops (.float 2) text = .ok (.float (roundN x 2)) :=
  money_reads_back_of_fixed T 2 (by decide) _ (roundN_idem2 x) text h

/-- **C14, whole-dollar lines (`places = 0`, the N.C. forms)**: the same for `round(x, 0)`. -/
theorem money_reads_back_0 (x : F64) (text : Text)
    (h : Fields.toString T f64Ops (.float 0) (.float (roundN x 0)) = .ok text) :
    fromString T f64Ops (.float 0) text = .ok (.float (roundN x 0)) :=
  money_reads_back_of_fixed T 0 (by decide) _ (roundN_idem0 x) text h

/-- **C14, `places = 5` lines (percentages / ratios)**: the same for `round(x, 5)`. -/
theorem money_reads_back_5 (x : F64) (text : Text)
    (h : Fields.toString T f64Ops (.float 5) (.float (roundN x 5)) = .ok text) :
    fromString T f64Ops (.float 5) text = .ok (.float (roundN x 5)) :=
  money_reads_back_of_fixed T 5 (by decide) _ (roundN_idem5 x) text h

/-- the three together, in the shape of `C14.money_reads_back_partial` without its hypotheses -/
theorem money_reads_back (p : Nat) (hp : p = 0 ∨ p = 2 ∨ p = 5) (x : F64) (text : Text)
    (h : Fields.toString T f64Ops (.float p) (.float (f64Ops.roundN x p)) = .ok text) :
    fromString T f64Ops (.float p) text = .ok (.float (f64Ops.roundN x p)) := by
  rcases hp with rfl | rfl | rfl
  · exact money_reads_back_0 T x text h
  · exact money_reads_back_2 T x text h
  · exact money_reads_back_5 T x text h

/-- writing never fails, so the statements above are not vacuous -/
theorem toString_float_ok (p : Nat) (v : F64) :
    Fields.toString T f64Ops (.float p) (.float v) = .ok (f64Ops.fmt v p) := rfl

/-- the stored value is what `FloatField.value` produces: `fieldValue … = .ok w` gives a `w` that
reads back (`places ∈ {0, 2, 5}`) -/
theorem stored_money_reads_back (p : Nat) (hp : p = 0 ∨ p = 2 ∨ p = 5) (v w : PyVal F64)
    (hv : fieldValue T f64Ops (.float p) v = .ok w) :
    ∃ text, Fields.toString T f64Ops (.float p) w = .ok text ∧
      fromString T f64Ops (.float p) text = .ok w := by
  obtain ⟨x, rfl⟩ := fieldValue_rounded T f64Ops p v w hv
  exact ⟨_, rfl, money_reads_back T p hp x _ rfl⟩


/-! ## 7. instances: 1234.57, 0.0, -0.0, 98764.0, 0.12346 -/

/-- 1234.57 -/
def v1 : F64 := ofBitsNat 0x40934a47ae147ae1
/-- 1234.567 -/
def x1 : F64 := ofBitsNat 0x40934a449ba5e354
/-- 98764.5 (a tie: rounds to the even 98764) -/
def x2 : F64 := ofBitsNat 0x40f81cc800000000
/-- 98764.0 -/
def v2 : F64 := ofBitsNat 0x40f81cc000000000
/-- 0.123456789 -/
def x3 : F64 := ofBitsNat 0x3fbf9add3739635f
/-- 0.12346 -/
def v3 : F64 := ofBitsNat 0x3fbf9b13165d3997

example : Cent v1 123457 := by decide +kernel
example : roundN x1 2 = v1 := by decide +kernel
example : fmtFixedT v1 2 = ['1','2','3','4','.','5','7'] := by decide +kernel
example : fmtFixedT negZero 2 = ['-','0','.','0','0'] := by decide +kernel
example : fmtFixedT zero 2 = ['0','.','0','0'] := by decide +kernel
example : fmtFixedT zero 0 = ['0'] := by decide +kernel
example : ∃ d, parseFloatLit T (f64Ops.fmt v1 2) = some d ∧ f64Ops.ofLit d = v1 :=
  parse_fmt_cents T (c := 123457) (by decide +kernel) (by decide)
example : parseFloatLit T (f64Ops.fmt v1 2) = some (.finite false 123457 (-2)) :=
  parse_fmt_cents_lit T (c := 123457) (by decide +kernel) (by decide)
example : ∃ d, parseFloatLit T (f64Ops.fmt zero 2) = some d ∧ f64Ops.ofLit d = zero :=
  parse_fmt_cents T Cent_zero (by decide)
example : ∃ d, parseFloatLit T (f64Ops.fmt negZero 2) = some d ∧ f64Ops.ofLit d = negZero :=
  parse_fmt_cents T Cent_negZero (by decide)
example : parseFloatLit T (f64Ops.fmt negZero 2) = some (.finite true 0 (-2)) :=
  parse_fmt_cents_lit T Cent_negZero (by decide)
example : ∃ d, parseFloatLit T (f64Ops.fmt negZero 0) = some d ∧ f64Ops.ofLit d = negZero :=
  parse_fmt_dollars T Dollar_negZero

/-- `'1234.57'` is what is written for `round(1234.567, 2)` and it reads back as 1234.57 -/
example : fromString T f64Ops (.float 2) ['1','2','3','4','.','5','7'] = .ok (.float v1) := by
  have h1 : roundN x1 2 = v1 := by decide +kernel
  have h2 : f64Ops.fmt v1 2 = ['1','2','3','4','.','5','7'] := by rw [fmt_eq]; decide +kernel
  have := money_reads_back_2 T x1 _ rfl
  rwa [h1, h2] at this

/-- `'-0.00'` reads back as `-0.0` -/
example : fromString T f64Ops (.float 2) ['-','0','.','0','0'] = .ok (.float negZero) := by
  have h1 : roundN negZero 2 = negZero := by decide +kernel
  have h2 : f64Ops.fmt negZero 2 = ['-','0','.','0','0'] := by rw [fmt_eq]; decide +kernel
  have := money_reads_back_2 T negZero _ rfl
  rwa [h1, h2] at this

/-- `'0.00'` reads back as `0.0` -/
example : fromString T f64Ops (.float 2) ['0','.','0','0'] = .ok (.float zero) := by
  have h1 : roundN zero 2 = zero := by decide +kernel
  have h2 : f64Ops.fmt zero 2 = ['0','.','0','0'] := by rw [fmt_eq]; decide +kernel
  have := money_reads_back_2 T zero _ rfl
  rwa [h1, h2] at this

/-- whole dollars: `round(98764.5, 0) = 98764.0` is written `'98764'` and reads back -/
example : fromString T f64Ops (.float 0) ['9','8','7','6','4'] = .ok (.float v2) := by
  have h1 : roundN x2 0 = v2 := by decide +kernel
  have h2 : f64Ops.fmt v2 0 = ['9','8','7','6','4'] := by rw [fmt_eq]; decide +kernel
  have := money_reads_back_0 T x2 _ rfl
  rwa [h1, h2] at this

/-- five places: `round(0.123456789, 5)` is written `'0.12346'` and reads back -/
example : fromString T f64Ops (.float 5) ['0','.','1','2','3','4','6'] = .ok (.float v3) := by
  have h1 : roundN x3 5 = v3 := by decide +kernel
  have h2 : f64Ops.fmt v3 5 = ['0','.','1','2','3','4','6'] := by rw [fmt_eq]; decide +kernel
  have := money_reads_back_5 T x3 _ rfl
  rwa [h1, h2] at this

end HabuVerif.C14Decimal

#print axioms HabuVerif.C14Decimal.natDecT_eq
#print axioms HabuVerif.C14Decimal.parseFloatLit_fixed
#print axioms HabuVerif.C14Decimal.parse_fmt_finite
#print axioms HabuVerif.C14Decimal.parse_fmt_fixed
#print axioms HabuVerif.C14Decimal.parse_fmt_cents_lit
#print axioms HabuVerif.C14Decimal.parse_fmt_cents
#print axioms HabuVerif.C14Decimal.parse_fmt_dollars
#print axioms HabuVerif.C14Decimal.roundN_idem_split
#print axioms HabuVerif.C14Decimal.roundN_idem0
#print axioms HabuVerif.C14Decimal.roundN_idem2
#print axioms HabuVerif.C14Decimal.roundN_idem5
#print axioms HabuVerif.C14Decimal.fromString_toString_float_at
#print axioms HabuVerif.C14Decimal.money_reads_back_of_fixed
#print axioms HabuVerif.C14Decimal.money_reads_back_2
#print axioms HabuVerif.C14Decimal.money_reads_back_0
#print axioms HabuVerif.C14Decimal.money_reads_back_5
#print axioms HabuVerif.C14Decimal.money_reads_back
#print axioms HabuVerif.C14Decimal.stored_money_reads_back
