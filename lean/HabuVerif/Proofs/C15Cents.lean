import HabuVerif.Proofs.C15Lines
import HabuVerif.Proofs.F64Cents
/-!
# The balance of the federal return, in exact cents

The F64 formulas that the balance lines compute (`C15Lines`), read through the cents bridge
(`F64Cents`): for cent-valued payments and tax of ordinary magnitude the results are cent-valued and
satisfy the balance identities as INTEGER identities.
-/
set_option autoImplicit false
set_option linter.unusedVariables false

namespace HabuVerif.C15
open HabuVerif HabuVerif.F64

/-- magnitude bound used throughout: 10^13 cents = 10^11 dollars -/
notation "Bound" => (10000000000000 : Nat)

theorem bound_lt : Bound < 2 ^ 52 := by decide
theorem natAbs_lt_of_le {c : Int} (h : c.natAbs ≤ Bound) : c.natAbs < 2 ^ 52 :=
  Nat.lt_of_le_of_lt h bound_lt

/-- **Overpayment / amount owed.**  `over = (a - b) if a > b else None`, `owed = None if a > b else
b - a`, both stored rounded to cents. -/
theorem over_owed (a b : F64) (ca cb : Int) (ha : Cent a ca) (hb : Cent b cb)
    (hca : ca.natAbs ≤ Bound) (hcb : cb.natAbs ≤ Bound) :
    ∃ co cw : Int,
      Cent (if F64.lt b a then F64.roundN (F64.sub a b) 2 else F64.zero) co ∧
      Cent (if F64.lt b a then F64.zero else F64.roundN (F64.sub b a) 2) cw ∧
      co - cw = ca - cb ∧ 0 ≤ co ∧ 0 ≤ cw ∧ ¬ (0 < co ∧ 0 < cw) ∧ co.natAbs ≤ 2 * Bound ∧ cw.natAbs ≤ 2 * Bound := by
  have hlt := cent_lt hb ha (natAbs_lt_of_le hcb) (natAbs_lt_of_le hca)
  by_cases h : F64.lt b a = true
  · have hc : cb < ca := hlt.1 h
    refine ⟨ca - cb, 0, ?_, ?_, by omega, by omega, by omega, by omega, by omega, by decide⟩
    · simp only [h, if_true]
      exact cent_sub ha hb (by omega) (by omega)
    · simp only [h, if_true]; exact Cent_zero
  · have hc : ¬ cb < ca := fun hc => h (hlt.2 hc)
    refine ⟨0, cb - ca, ?_, ?_, by omega, by omega, by omega, by omega, by decide, by omega⟩
    · simp only [h]; exact Cent_zero
    · simp only [h]
      exact cent_sub hb ha (by omega) (by omega)

/-- the literal `0.001` of the forms (bit pattern as the translator emits it) -/
def lit001 : F64 := F64.ofBits 0x3f50624dd2f1a9fc

theorem lit001_finite : lit001.isFinite = true := by decide +kernel
theorem lit001_pos : 0 < sval lit001 := by decide +kernel
theorem lit001_lt_cent : sval lit001 < cv 1 := by decide +kernel

/-- `x > 0.001` for a cent-valued `x` says `x ≥ 1 cent` -/
theorem gt_lit001_iff {x : F64} {c : Int} (h : Cent x c) (hc : c.natAbs < 2 ^ 52) :
    F64.lt lit001 x = true ↔ 1 ≤ c := by
  rw [lt_iff_sval lit001_finite h.isFinite, h.sval_eq]
  constructor
  · intro hl
    by_contra hn
    have h0 : c ≤ 0 := by omega
    have := cv_mono h0
    rw [cv_zero] at this
    have := lit001_pos
    omega
  · intro h1
    have := cv_mono h1
    have := lit001_lt_cent
    omega

/-- **Refund and amount applied to next year.**  `applied = min(over, max(0.0, t)) if over > 0.001
else None`, `refund = over - applied if over > 0.001 else None`, for ANY finite requested amount `t`
(it need not be cent-valued): refund + applied = overpayment, both non-negative. -/
theorem refund_split (over t : F64) (co : Int) (ho : Cent over co) (hco : co.natAbs ≤ 2 * Bound)
    (hco0 : 0 ≤ co) (ht : t.isFinite = true) (htw : WF t) :
    let applied := if F64.lt lit001 over then F64.roundN (F64.pyMin over (F64.pyMax F64.zero t)) 2 else F64.zero
    let refund := if F64.lt lit001 over then F64.roundN (F64.sub over applied) 2 else F64.zero
    ∃ ca cr : Int, Cent applied ca ∧ Cent refund cr ∧ cr + ca = co ∧ 0 ≤ ca ∧ 0 ≤ cr := by
  intro applied refund
  have hco52 : co.natAbs < 2 ^ 52 := by
    have : 2 * Bound < 2 ^ 52 := by decide
    omega
  by_cases h : F64.lt lit001 over = true
  · -- m = min(over, max(0, t)) lies between 0 and over
    have hmfin : (F64.pyMax F64.zero t).isFinite = true := by
      unfold F64.pyMax; split <;> first | exact ht | rfl
    have hm0 : F64.le F64.zero (F64.pyMax F64.zero t) = true := le_pyMax_left (by rfl) (by
      cases t <;> simp_all [F64.isFinite, F64.isNaN])
    have hofin := ho.isFinite
    have hnan : ∀ x : F64, x.isFinite = true → x.isNaN = false := by
      intro x hx; cases x <;> simp_all [F64.isFinite, F64.isNaN]
    have hover0 : F64.le F64.zero over = true := by
      rw [le_iff_sval (by rfl) hofin, ho.sval_eq]
      have := cv_mono hco0; rw [cv_zero] at this
      have h5 : sval F64.zero = 0 := by decide
      rw [h5]; exact this
    set m := F64.pyMin over (F64.pyMax F64.zero t) with hm
    have hmfin' : m.isFinite = true := by
      rw [hm]; unfold F64.pyMin; split <;> assumption
    have hm_le : F64.le m over = true := pyMin_le_left (hnan _ hofin) (hnan _ hmfin)
    have hm_ge : F64.le F64.zero m = true := le_pyMin hover0 hm0
    -- magnitudes: 0 ≤ m ≤ over = cv co ≤ cv (100·2^38) = 2^38 dollars
    have hcv_le : cv co ≤ (2 ^ 38 : Int) * (one : Int) := by
      have h1 : co ≤ 100 * (2 ^ 38 : Int) := by
        have : (2 * Bound : Int) ≤ 100 * 2 ^ 38 := by decide
        omega
      have := cv_mono h1
      rwa [cv_dollars (by decide)] at this
    have hs_m_le : sval m ≤ cv co := by
      have := (le_iff_sval hmfin' hofin).1 hm_le
      rwa [ho.sval_eq] at this
    have hs_m_ge : 0 ≤ sval m := by
      have := (le_iff_sval (by rfl) hmfin').1 hm_ge
      have h5 : sval F64.zero = 0 := by decide
      rwa [h5] at this
    have hmabs : (sval m).natAbs ≤ 2 ^ 38 * one := by
      have : sval m ≤ (2 ^ 38 : Int) * (one : Int) := le_trans hs_m_le hcv_le
      have e : ((2 ^ 38 * one : Nat) : Int) = (2 ^ 38 : Int) * (one : Int) := by push_cast; ring
      omega
    have hcabs : (cents100 m).natAbs ≤ 100 * 2 ^ 38 + 1 := cents100_natAbs_le hmabs
    have hCa : Cent (F64.roundN m 2) (cents100 m) :=
      cent_roundN2_cents100 hmfin' (by
        have : 100 * 2 ^ 38 + 1 ≤ 2 ^ 60 := by decide
        omega)
    generalize cents100 m = ca at hCa hcabs
    have hca52 : ca.natAbs < 2 ^ 52 := by
      have : 100 * 2 ^ 38 + 1 < 2 ^ 52 := by decide
      omega
    have hr_le : F64.le (F64.roundN m 2) over = true := by
      have := roundN_mono hmfin' hofin 2 hm_le
      rwa [ho.roundN2 hco52] at this
    have hr_ge : F64.le F64.zero (F64.roundN m 2) = true := roundN_nonneg hmfin' 2 hm_ge
    have hca_le : ca ≤ co := (cent_le hCa ho hca52 hco52).1 hr_le
    have hca_ge : 0 ≤ ca := (cent_le Cent_zero hCa (by decide) hca52).1 hr_ge
    refine ⟨ca, co - ca, ?_, ?_, by omega, hca_ge, by omega⟩
    · show Cent applied ca
      simp only [applied, h, if_true]; exact hCa
    · show Cent refund (co - ca)
      simp only [refund, applied, h, if_true]
      exact cent_sub ho hCa (by omega) (by omega)
  · have hc : ¬ 1 ≤ co := fun hc => h ((gt_lit001_iff ho hco52).2 hc)
    refine ⟨0, 0, ?_, ?_, by omega, by omega, by omega⟩
    · show Cent applied 0
      simp only [applied, h]; exact Cent_zero
    · show Cent refund 0
      simp only [refund, h]; exact Cent_zero

end HabuVerif.C15
