import HabuVerif.Props.C15
import HabuVerif.Proofs.C16Lines
import Mathlib.Tactic.Ring
import Mathlib.Tactic.Linarith
import Mathlib.Tactic.NormNum
/-!
# C16 — Form 1040 line 25b (tax withheld on Forms 1099) is the exact total of its payer copies

```
withholding  = float(sum([v[f'1099-r:{n}.box_4']   for n in range(i['number_1099-r'])]))
withholding += float(sum([v[f'1099-div:{n}.box_4'] for n in range(i['number_1099-div'])]))
withholding += float(sum([v[f'1099-int:{n}.box_4'] for n in range(i['number_1099-int'])]))
withholding += float(sum([v[f'1099-g:{n}.box_4']   for n in range(i['number_1099-g'])]))
if withholding > 0.001: return withholding
return None
```

* `HabuVerif.Dsl.L25b`: statement-level evaluation lemmas (`runP_block_cons`, `runP_assign`,
  `runP_aug_add_float`, `runP_ifS`, `runP_ret`, `runP_var`) and `eval_sum4IfGt`: a line of this shape
  evaluates to `total4 s1 s2 s3 s4`, `s_i` being CPython's compensated `sum` of the copies of form `i`.
* `HabuVerif.F64.L25b`: the four sums are NOT rounded before they are added, so the cents calculus
  needs weights.  The weights of `approx_sumLoop` (`9·n²·B`) are too large for four sums of 64 copies of
  10^11 cents; `papprox_sumLoop` tracks `f + c` (running total plus compensation) instead, using
  that the compensation term is the exact rounding error up to a relative error `2^-52`
  (`comp_exact_err`), which gives `≈ n²·B`.  `cent_total4`: the line is the exact total in cents.
* `HabuVerif.C16.L25b`: the shape check of the three regenerated years and the theorems
  `eval_25b`, `line25b_total`, `line25b_renumbering`, `line25b_one_for_one`.
-/
set_option autoImplicit false
set_option maxRecDepth 100000
set_option linter.unusedSimpArgs false
set_option linter.unusedVariables false
set_option linter.unusedTactic false
set_option linter.unreachableTactic false

namespace HabuVerif.Dsl.L25b
open HabuVerif HabuVerif.Dsl

variable (vs : String → Option Val) (is : String → InpRes Val) (fs : String → Bool)
variable (year : YearDecl) (c : ClassDecl) (inst : Option String) (d : LineDecl)

/-- `float(sum([v[f'{pre}{n}{post}'] for n in range(i[cnt])]))` -/
def floatSumE (cnt pre post : String) : Expr :=
  .call .float [.call .sum [.listComp (.readV (.fstr [.const (.str pre), .var "n", .const (.str post)])) ["n"]
      (.call .range [ri cnt]) []]]

theorem runP_floatSumE (ctx : Ctx) (env : Env) (cnt pre post : String) (k : Int) (f : Int → F64)
    (hk : is (qual ctx cnt) = .ok (.int k)) (hk' : k ≤ 1000000)
    (hp : post.toList.contains '.' = true)
    (hv : ∀ j : Nat, j < k.toNat → vs (copyKey pre post j) = some (.float (f j))) :
    runP vs is fs (evalExpr ctx env (floatSumE cnt pre post)) = .pure (.float (F64.pySum (copyVals f k))) := by
  unfold floatSumE
  rw [runP_call1, runP_call1, runP_listCompCopies vs is fs _ _ cnt pre post k f hk hk' hp hv]
  simp only [POut.bind_pure, applyBuiltin]
  cases hcv : copyVals f k with
  | nil =>
    simp only [List.map_nil, pySum_nil, liftOut, POut.bind_pure, pyFloat_int0, F64.pySum]
  | cons x xs =>
    rw [pySum_floats]
    simp only [liftOut, POut.bind_pure, Val.pyFloat]

theorem runP_block_cons (ctx : Ctx) (env : Env) (s : Stmt) (ss : List Stmt) :
    runP vs is fs (execBlock ctx env (s :: ss)) =
      (runP vs is fs (execStmt ctx env s)).bind fun r =>
        match r with
        | .next env' => runP vs is fs (execBlock ctx env' ss)
        | other => .pure other := by
  rw [execBlock, runP_bind]
  congr; funext r
  cases r <;> rfl

theorem runP_assign (ctx : Ctx) (env : Env) (x : String) (e : Expr) :
    runP vs is fs (execStmt ctx env (.assign x e)) =
      (runP vs is fs (evalExpr ctx env e)).bind fun v => .pure (.next (env.set x v)) := by
  simp only [execStmt, runP_bind, runP_pure]

theorem runP_aug_add_float (ctx : Ctx) (env : Env) (x : String) (e : Expr) (a : F64)
    (hx : Env.get env x = .ok (.float a)) :
    runP vs is fs (execStmt ctx env (.aug x .add e)) =
      (runP vs is fs (evalExpr ctx env e)).bind fun v =>
        (liftOut (applyBin .add (.float a) v)).bind fun r => .pure (.next (env.set x r)) := by
  simp only [execStmt, runP_bind, runP_pure, runP_lift, hx, liftOut, POut.bind_pure]

theorem runP_ret (ctx : Ctx) (env : Env) (e : Expr) :
    runP vs is fs (execStmt ctx env (.ret e)) =
      (runP vs is fs (evalExpr ctx env e)).bind fun v => .pure (.ret v) := by
  simp only [execStmt, runP_bind, runP_pure]

theorem runP_ifS (ctx : Ctx) (env : Env) (c : Expr) (thn els : List Stmt) :
    runP vs is fs (execStmt ctx env (.ifS c thn els)) =
      (runP vs is fs (evalExpr ctx env c)).bind fun v =>
        if v.truthy then runP vs is fs (execBlock ctx env thn) else runP vs is fs (execBlock ctx env els) := by
  simp only [execStmt, runP_bind]
  congr; funext v
  split <;> rfl

theorem runP_var (ctx : Ctx) (env : Env) (x : String) (v : Val) (hx : Env.get env x = .ok v) :
    runP vs is fs (evalExpr ctx env (.var x)) = .pure v := by
  simp only [evalExpr, runP_lift, hx, liftOut]


/-- `a > b` on doubles, `b` not a nan (a nan `a` compares false) -/
theorem applyCmp_gt_float_any (a b : F64) (hb : b.isNaN = false) :
    applyCmp .gt (.float a) (.float b) = .ok (F64.lt b a) := by
  by_cases ha : a.isNaN = false
  · exact applyCmp_gt_float a b ha hb
  · cases a with
    | finite s m e => exact absurd rfl ha
    | inf s => exact absurd rfl ha
    | nan =>
      cases b with
      | nan => exact absurd hb (by decide)
      | inf s => cases s <;> rfl
      | finite s m e => rfl

/-- Form 1040 line 25b: the four `float(sum(copies))` chained with `+=`, returned when `> lit` -/
def shapeSum4IfGt (w : String) (c1 p1 c2 p2 c3 p3 c4 p4 post : String) (lit : F64) : List Stmt :=
  [.assign w (floatSumE c1 p1 post),
   .aug w .add (floatSumE c2 p2 post),
   .aug w .add (floatSumE c3 p3 post),
   .aug w .add (floatSumE c4 p4 post),
   .ifS (.cmp (.var w) [.gt] [.const (.float lit)]) [.ret (.var w)] [],
   .ret (.const .none)]

theorem eval_sum4IfGt (w c1 p1 c2 p2 c3 p3 c4 p4 post : String) (lit : F64) (p : Nat)
    (hb : d.body = shapeSum4IfGt w c1 p1 c2 p2 c3 p3 c4 p4 post lit) (hk : d.kind = .float p)
    (hlit : lit.isNaN = false)
    (k1 k2 k3 k4 : Int) (f1 f2 f3 f4 : Int → F64)
    (h1 : is (qual' c.name inst c1) = .ok (.int k1)) (h2 : is (qual' c.name inst c2) = .ok (.int k2))
    (h3 : is (qual' c.name inst c3) = .ok (.int k3)) (h4 : is (qual' c.name inst c4) = .ok (.int k4))
    (b1 : k1 ≤ 1000000) (b2 : k2 ≤ 1000000) (b3 : k3 ≤ 1000000) (b4 : k4 ≤ 1000000)
    (hp : post.toList.contains '.' = true)
    (v1 : ∀ j : Nat, j < k1.toNat → vs (copyKey p1 post j) = some (.float (f1 j)))
    (v2 : ∀ j : Nat, j < k2.toNat → vs (copyKey p2 post j) = some (.float (f2 j)))
    (v3 : ∀ j : Nat, j < k3.toNat → vs (copyKey p3 post j) = some (.float (f3 j)))
    (v4 : ∀ j : Nat, j < k4.toNat → vs (copyKey p4 post j) = some (.float (f4 j))) :
    run vs is fs (evalLine year c inst d) =
      .val (.float
        (let x := F64.add (F64.add (F64.add (F64.pySum (copyVals f1 k1)) (F64.pySum (copyVals f2 k2)))
            (F64.pySum (copyVals f3 k3))) (F64.pySum (copyVals f4 k4))
         if F64.lt lit x then F64.roundN x p else F64.roundN F64.zero p)) := by
  rw [run_evalLine, hk]
  unfold evalBody
  rw [hb, shapeSum4IfGt, runP_bind]
  rw [runP_block_cons, runP_assign,
    runP_floatSumE vs is fs _ _ c1 p1 post k1 f1 (by rw [qual_eq]; exact h1) b1 hp v1]
  simp only [POut.bind_pure]
  rw [runP_block_cons, runP_aug_add_float vs is fs _ _ _ _ _ (Env.get_set _ _ _),
    runP_floatSumE vs is fs _ _ c2 p2 post k2 f2 (by rw [qual_eq]; exact h2) b2 hp v2]
  simp only [POut.bind_pure, applyBin_add_float, liftOut]
  rw [runP_block_cons, runP_aug_add_float vs is fs _ _ _ _ _ (Env.get_set _ _ _),
    runP_floatSumE vs is fs _ _ c3 p3 post k3 f3 (by rw [qual_eq]; exact h3) b3 hp v3]
  simp only [POut.bind_pure, applyBin_add_float, liftOut]
  rw [runP_block_cons, runP_aug_add_float vs is fs _ _ _ _ _ (Env.get_set _ _ _),
    runP_floatSumE vs is fs _ _ c4 p4 post k4 f4 (by rw [qual_eq]; exact h4) b4 hp v4]
  simp only [POut.bind_pure, applyBin_add_float, liftOut]
  rw [runP_block_cons, runP_ifS, runP_cmp1, runP_var vs is fs _ _ _ _ (Env.get_set _ _ _), runP_const]
  simp only [POut.bind_pure, applyCmp_gt_float_any _ _ hlit, liftOut]
  generalize F64.add (F64.add (F64.add (F64.pySum (copyVals f1 k1)) (F64.pySum (copyVals f2 k2)))
            (F64.pySum (copyVals f3 k3))) (F64.pySum (copyVals f4 k4)) = X
  by_cases hlt : F64.lt lit X = true
  · simp only [hlt, Val.truthy, if_true]
    rw [runP_block_cons, runP_ret, runP_var vs is fs _ _ _ _ (Env.get_set _ _ _)]
    simp only [POut.bind_pure, Flow.result, runP_pure, POut.toOut, wrap_float]
  · have hlt' : F64.lt lit X = false := by simpa using hlt
    simp only [hlt', Val.truthy, Bool.false_eq_true, if_false]
    rw [execBlock]
    simp only [runP_pure, POut.bind_pure]
    rw [runP_block_cons, runP_ret, runP_const]
    simp only [POut.bind_pure, Flow.result, runP_pure, POut.toOut, wrap_float_none]

end HabuVerif.Dsl.L25b


namespace HabuVerif.F64.L25b
open HabuVerif.C15

/-! ## the compensation term is (almost) the exact rounding error -/

theorem comp_exact_err {f x : F64} (hf : f.isFinite = true) (hx : x.isFinite = true)
    (hF : (sval f).natAbs ≤ 2 ^ 58 * one) (hX : (sval x).natAbs ≤ 2 ^ 58 * one) :
    2 ^ 53 * (sval (add (sub f (add f x)) x) + sval (add f x) - (sval f + sval x)).natAbs
      ≤ 2 * ((sval f).natAbs + (sval x).natAbs) := by
  have hop := one_pos
  have t0 : (sval f + sval x).natAbs ≤ (sval f).natAbs + (sval x).natAbs := Int.natAbs_add_le _ _
  obtain ⟨tfin, te⟩ := add_err hf hx (by omega)
  have t1 : (sval f - sval (add f x)).natAbs
      ≤ (sval x).natAbs + (sval (add f x) - (sval f + sval x)).natAbs := by omega
  have hFT : (sval f - sval (add f x)).natAbs ≤ 2 ^ 60 * one := by
    generalize (sval f - sval (add f x)).natAbs = a at *
    generalize (sval (add f x) - (sval f + sval x)).natAbs = b at *
    generalize (sval f + sval x).natAbs = c at *
    omega
  obtain ⟨dfin, de⟩ := sub_err hf tfin hFT
  have t2 : (sval (sub f (add f x)) + sval x).natAbs
      ≤ (sval (add f x) - (sval f + sval x)).natAbs
        + (sval (sub f (add f x)) - (sval f - sval (add f x))).natAbs := by omega
  have hDX : (sval (sub f (add f x)) + sval x).natAbs ≤ 2 ^ 60 * one := by
    generalize (sval (sub f (add f x)) + sval x).natAbs = a at *
    generalize (sval (sub f (add f x)) - (sval f - sval (add f x))).natAbs = b at *
    generalize (sval f - sval (add f x)).natAbs = c at *
    generalize (sval (add f x) - (sval f + sval x)).natAbs = d at *
    generalize (sval f + sval x).natAbs = e at *
    omega
  obtain ⟨gfin, ge⟩ := add_err dfin hx hDX
  have t3 : (sval (add (sub f (add f x)) x) + sval (add f x) - (sval f + sval x)).natAbs
      ≤ (sval (add (sub f (add f x)) x) - (sval (sub f (add f x)) + sval x)).natAbs
        + (sval (sub f (add f x)) - (sval f - sval (add f x))).natAbs := by omega
  generalize (sval (add (sub f (add f x)) x) + sval (add f x) - (sval f + sval x)).natAbs = nR at *
  generalize (sval (add (sub f (add f x)) x) - (sval (sub f (add f x)) + sval x)).natAbs = nGe at *
  generalize (sval (sub f (add f x)) + sval x).natAbs = nDX at *
  generalize (sval (sub f (add f x)) - (sval f - sval (add f x))).natAbs = nd at *
  generalize (sval f - sval (add f x)).natAbs = nFT at *
  generalize (sval (add f x) - (sval f + sval x)).natAbs = ne at *
  generalize (sval f + sval x).natAbs = nS at *
  omega


/-- `f + c` (running total plus compensation) approximates `s` cents with weight `w` -/
def PApprox (f c : F64) (s : Int) (w : Nat) : Prop :=
  2 ^ 53 * (100 * (sval f + sval c) - s * (one : Int)).natAbs ≤ w * one

theorem PApprox.mono {f c : F64} {s : Int} {w w' : Nat} (h : PApprox f c s w) (hw : w ≤ w') :
    PApprox f c s w' :=
  Nat.le_trans h (Nat.mul_le_mul_right one hw)

/-- the new compensation `c + g` where `g` is the compensation term of `t = fl(f + x)` -/
theorem papprox_step_core {f c x g : F64} {cf cx : Int} {wf wc wx w : Nat}
    (hf : Approx f cf wf) (hc : Approx c 0 wc) (hx : Approx x cx wx)
    (hcf : cf.natAbs ≤ 2 ^ 49) (hcx : cx.natAbs ≤ 2 ^ 49) (hwf : wf ≤ 2 ^ 53) (hwx : wx ≤ 2 ^ 53)
    (hwc : wc ≤ 2 ^ 53) (hp : PApprox f c cf w)
    (gfin : g.isFinite = true)
    (gsmall : 2 ^ 53 * (sval g).natAbs ≤ 6 * ((sval f).natAbs + (sval x).natAbs))
    (gex : 2 ^ 53 * (sval g + sval (add f x) - (sval f + sval x)).natAbs
      ≤ 2 * ((sval f).natAbs + (sval x).natAbs)) :
    PApprox (add f x) (add c g) (cf + cx) (w + wx + 2 * cf.natAbs + 2 * cx.natAbs + 6) := by
  have h60 := two_pow_60_le_one
  have hop := one_pos
  have a1 := hf.natAbs_le hwf
  have a2 := hx.natAbs_le hwx
  have a3 := hc.natAbs_le hwc
  have b1 : cf.natAbs * one ≤ 2 ^ 49 * one := Nat.mul_le_mul_right one hcf
  have b2 : cx.natAbs * one ≤ 2 ^ 49 * one := Nat.mul_le_mul_right one hcx
  have e1 : (cf.natAbs + 1) * one = cf.natAbs * one + one := by ring
  have e2 : (cx.natAbs + 1) * one = cx.natAbs * one + one := by ring
  have e3 : ((0 : Int).natAbs + 1) * one = one := by simp
  rw [e1] at a1; rw [e2] at a2; rw [e3] at a3
  have hCG : (sval c + sval g).natAbs ≤ 2 ^ 60 * one := by
    have := Int.natAbs_add_le (sval c) (sval g)
    generalize (sval c + sval g).natAbs = q at *
    generalize (sval c).natAbs = nC at *
    generalize (sval g).natAbs = nG at *
    generalize (sval f).natAbs = nF at *
    generalize (sval x).natAbs = nX at *
    generalize cf.natAbs * one = p1 at *
    generalize cx.natAbs * one = p2 at *
    omega
  obtain ⟨cfin, ce⟩ := add_err hc.1 gfin hCG
  have hx2 := hx.2
  unfold PApprox at hp ⊢
  have e4 : (cf + cx) * (one : Int) = cf * (one : Int) + cx * (one : Int) := by ring
  have e5 : (w + wx + 2 * cf.natAbs + 2 * cx.natAbs + 6) * one
      = w * one + wx * one + 2 * (cf.natAbs * one) + 2 * (cx.natAbs * one) + 6 * one := by ring
  rw [e4, e5]
  generalize cf * (one : Int) = pf at *
  generalize cx * (one : Int) = px at *
  have t : (100 * (sval (add f x) + sval (add c g)) - (pf + px)).natAbs
      ≤ (100 * (sval f + sval c) - pf).natAbs + (100 * sval x - px).natAbs
        + 100 * (sval g + sval (add f x) - (sval f + sval x)).natAbs
        + 100 * (sval (add c g) - (sval c + sval g)).natAbs := by omega
  have tcg := Int.natAbs_add_le (sval c) (sval g)
  generalize (100 * (sval (add f x) + sval (add c g)) - (pf + px)).natAbs = nE at *
  generalize (100 * (sval f + sval c) - pf).natAbs = n1 at *
  generalize (100 * sval x - px).natAbs = n2 at *
  generalize (sval g + sval (add f x) - (sval f + sval x)).natAbs = n3 at *
  generalize (sval (add c g) - (sval c + sval g)).natAbs = n4 at *
  generalize (sval c + sval g).natAbs = q at *
  generalize (sval c).natAbs = nC at *
  generalize (sval g).natAbs = nG at *
  generalize (sval f).natAbs = nF at *
  generalize (sval x).natAbs = nX at *
  generalize cf.natAbs * one = p1 at *
  generalize cx.natAbs * one = p2 at *
  generalize w * one = W at *
  generalize wx * one = Wx at *
  omega


/-- one step of CPython's loop keeps `f + c` close to the exact sum: the weight grows by the
magnitudes of the operands only (not by the accumulated weight of the compensation) -/
theorem PApprox.sumStep {f c x : F64} {cf cx : Int} {wf wc wx w : Nat}
    (hf : Approx f cf wf) (hc : Approx c 0 wc) (hx : Approx x cx wx)
    (hcf : cf.natAbs ≤ 2 ^ 49) (hcx : cx.natAbs ≤ 2 ^ 49) (hwf : wf ≤ 2 ^ 53) (hwx : wx ≤ 2 ^ 53)
    (hwc : wc ≤ 2 ^ 53) (hp : PApprox f c cf w) :
    PApprox (F64.sumStep f c x).1 (F64.sumStep f c x).2 (cf + cx)
      (w + wx + 2 * cf.natAbs + 2 * cx.natAbs + 6) := by
  have h60 := two_pow_60_le_one
  have a1 := hf.natAbs_le hwf
  have a2 := hx.natAbs_le hwx
  have b1 : (cf.natAbs + 1) * one ≤ (2 ^ 53 + 1) * one := Nat.mul_le_mul_right one (by omega)
  have b2 : (cx.natAbs + 1) * one ≤ (2 ^ 53 + 1) * one := Nat.mul_le_mul_right one (by omega)
  have hF : (sval f).natAbs ≤ 2 ^ 58 * one := by omega
  have hX : (sval x).natAbs ≤ 2 ^ 58 * one := by omega
  unfold F64.sumStep
  simp only
  split
  · obtain ⟨gfin, gs⟩ := comp_err hf.1 hx.1 hF hX
    exact papprox_step_core hf hc hx hcf hcx hwf hwx hwc hp gfin gs (comp_exact_err hf.1 hx.1 hF hX)
  · obtain ⟨gfin, gs⟩ := comp_err hx.1 hf.1 hX hF
    have gx := comp_exact_err hx.1 hf.1 hX hF
    rw [F64.add_comm x f] at gfin gs gx
    refine papprox_step_core hf hc hx hcf hcx hwf hwx hwc hp gfin (by omega) ?_
    have e : sval (add (sub x (add f x)) f) + sval (add f x) - (sval f + sval x)
        = sval (add (sub x (add f x)) f) + sval (add f x) - (sval x + sval f) := by omega
    rw [e]; omega

/-- the end of the loop -/
theorem PApprox.sumFinish {f c : F64} {s : Int} {wf wc w : Nat}
    (hf : Approx f s wf) (hc : Approx c 0 wc) (hs : s.natAbs ≤ 2 ^ 53) (hwf : wf ≤ 2 ^ 53)
    (hwc : wc ≤ 2 ^ 53) (hw : w ≤ 2 ^ 53) (hp : PApprox f c s w) :
    Approx (F64.sumFinish f c) s (w + s.natAbs + 2) := by
  have h60 := two_pow_60_le_one
  have hop := one_pos
  unfold F64.sumFinish
  split
  · have a1 := hf.natAbs_le hwf
    have a3 := hc.natAbs_le hwc
    have b1 : s.natAbs * one ≤ 2 ^ 53 * one := Nat.mul_le_mul_right one hs
    have bw : w * one ≤ 2 ^ 53 * one := Nat.mul_le_mul_right one hw
    have e1 : (s.natAbs + 1) * one = s.natAbs * one + one := by ring
    have e3 : ((0 : Int).natAbs + 1) * one = one := by simp
    rw [e1] at a1; rw [e3] at a3
    have tfc := Int.natAbs_add_le (sval f) (sval c)
    have hFC : (sval f + sval c).natAbs ≤ 2 ^ 60 * one := by
      generalize (sval f + sval c).natAbs = q at *
      generalize (sval f).natAbs = nF at *
      generalize (sval c).natAbs = nC at *
      generalize s.natAbs * one = p1 at *
      omega
    obtain ⟨rfin, re⟩ := add_err hf.1 hc.1 hFC
    refine ⟨rfin, ?_⟩
    unfold PApprox at hp
    have n1 : (s * (one : Int)).natAbs = s.natAbs * one := by rw [Int.natAbs_mul, Int.natAbs_natCast]
    have e5 : (w + s.natAbs + 2) * one = w * one + s.natAbs * one + 2 * one := by ring
    rw [e5, ← n1]
    rw [← n1] at b1
    generalize s * (one : Int) = ps at *
    have t : (100 * sval (add f c) - ps).natAbs
        ≤ (100 * (sval f + sval c) - ps).natAbs + 100 * (sval (add f c) - (sval f + sval c)).natAbs := by
      omega
    have t2 : 100 * (sval f + sval c).natAbs ≤ ps.natAbs + (100 * (sval f + sval c) - ps).natAbs := by
      omega
    generalize (100 * sval (add f c) - ps).natAbs = nE at *
    generalize (100 * (sval f + sval c) - ps).natAbs = n1 at *
    generalize (sval (add f c) - (sval f + sval c)).natAbs = n2 at *
    generalize (sval f + sval c).natAbs = q at *
    generalize ps.natAbs = p1 at *
    generalize w * one = W at *
    omega
  · rename_i hcz
    have hc0 : sval c = 0 := by
      have hcf := hc.1
      cases c with
      | nan => exact absurd hcf (by simp [isFinite])
      | inf n => exact absurd hcf (by simp [isFinite])
      | finite n m e =>
        simp only [isZero, isFinite, Bool.and_true, Bool.not_eq_true', decide_eq_false_iff_not,
          Decidable.not_not, Bool.not_eq_eq_eq_not, Bool.not_true] at hcz
        simp [sval, hcz, signed]
    refine ⟨hf.1, ?_⟩
    unfold PApprox at hp
    rw [hc0, Int.add_zero] at hp
    exact Nat.le_trans hp (Nat.mul_le_mul_right one (by omega))


theorem budget_pair {k B x y : Nat} (hx : x ≤ B) (hy : y ≤ k * B) :
    (k + 1) * (k + 1) * (B + 7) + (B + 1) + 2 * y + 2 * x + 6 ≤ (k + 2) * (k + 2) * (B + 7) := by
  have e : (k + 2) * (k + 2) * (B + 7) = (k + 1) * (k + 1) * (B + 7) + (2 * (k * B) + 3 * B + 14 * k + 21) := by
    ring
  rw [e]
  generalize k * B = kb at *
  generalize (k + 1) * (k + 1) * (B + 7) = q
  omega

/-- CPython's compensated loop over cent-valued terms: the result approximates the exact total with
a weight of about `n²·B` (the weights of `approx_sumLoop`, which ignore that the compensation
cancels the rounding errors of the running total, are nine times larger) -/
theorem papprox_sumLoop (B : Nat) (xs : List (F64 × Int)) :
    ∀ (k : Nat) (f c : F64) (s : Int), 1 ≤ k → (∀ t ∈ xs, Approx t.1 t.2 (B + 1) ∧ t.2.natAbs ≤ B) →
      Approx f s (2 * (k * k * (B + 3))) → s.natAbs ≤ k * B → Approx c 0 (6 * (k * k * (B + 3))) →
      PApprox f c s ((k + 1) * (k + 1) * (B + 7)) →
      9 * ((k + xs.length) * (k + xs.length) * (B + 3)) < 2 ^ 52 →
      Approx (sumLoop f c (xs.map Prod.fst)) (s + (xs.map Prod.snd).sum)
          ((k + xs.length + 1) * (k + xs.length + 1) * (B + 7) + (k + xs.length) * B + 2) ∧
        (s + (xs.map Prod.snd).sum).natAbs ≤ (k + xs.length) * B := by
  induction xs with
  | nil =>
    intro k f c s hk _ hf hs hc hp hbud
    simp only [List.length_nil, Nat.add_zero] at hbud ⊢
    have hkB : k * B ≤ k * k * (B + 3) := by
      have := Nat.le_mul_of_pos_left k hk
      exact Nat.mul_le_mul this (by omega)
    have hk7 : (k + 1) * (k + 1) * (B + 7) ≤ 12 * (k * k * (B + 3)) := by
      have h1 : k + 1 ≤ 2 * k := by omega
      have h2 : (k + 1) * (k + 1) ≤ (2 * k) * (2 * k) := Nat.mul_le_mul h1 h1
      have h3 : (k + 1) * (k + 1) * (B + 7) ≤ (2 * k) * (2 * k) * (B + 7) := Nat.mul_le_mul_right _ h2
      have h5 : (2 * k) * (2 * k) * (B + 7) = 4 * (k * k * (B + 7)) := by ring
      have h6 : k * k * (B + 7) ≤ k * k * (3 * (B + 3)) := Nat.mul_le_mul_left _ (by omega)
      have h7 : k * k * (3 * (B + 3)) = 3 * (k * k * (B + 3)) := by ring
      omega
    have := PApprox.sumFinish hf hc (by omega) (by omega) (by omega) (by omega) hp
    simp only [List.map, List.sum_nil, Int.add_zero, F64.sumLoop]
    exact ⟨this.mono (by omega), hs⟩
  | cons t xs ih =>
    intro k f c s hk hts hf hs hc hp hbud
    have ht := hts t (List.mem_cons_self ..)
    have hlen : k + (t :: xs).length = (k + 1) + xs.length := by simp; omega
    rw [hlen] at hbud ⊢
    have hkk : k * k * (B + 3) ≤ (k + 1 + xs.length) * (k + 1 + xs.length) * (B + 3) :=
      Nat.mul_le_mul_right _ (Nat.mul_le_mul (by omega) (by omega))
    have hkB : k * B ≤ k * k * (B + 3) := by
      have := Nat.le_mul_of_pos_left k hk
      exact Nat.mul_le_mul this (by omega)
    have hB : B ≤ k * B := Nat.le_mul_of_pos_left B hk
    have hx := ht.1
    obtain ⟨h1, h2⟩ := Approx.sumStep hf hc hx (by omega) (by omega) (by omega) (by omega) (by omega)
    have h3 := PApprox.sumStep hf hc hx (by omega) (by omega) (by omega) (by omega) (by omega) hp
    have hs' : (s + t.2).natAbs ≤ (k + 1) * B := by
      have e : (k + 1) * B = k * B + B := by ring
      omega
    have hw1 : 2 * (k * k * (B + 3)) + (B + 1) + (s + t.2).natAbs + 2
        ≤ 2 * ((k + 1) * (k + 1) * (B + 3)) := budget_step2 hk (Nat.le_refl B) hs'
    have hw2 : 6 * (k * k * (B + 3)) + 6 * (s.natAbs + t.2.natAbs + 2) + 2
        ≤ 6 * ((k + 1) * (k + 1) * (B + 3)) := budget_sum hk ht.2 hs
    have hw3 : (k + 1) * (k + 1) * (B + 7) + (B + 1) + 2 * s.natAbs + 2 * t.2.natAbs + 6
        ≤ (k + 1 + 1) * (k + 1 + 1) * (B + 7) := budget_pair ht.2 hs
    have := ih (k + 1) _ _ (s + t.2) (by omega) (fun t' ht' => hts t' (List.mem_cons_of_mem _ ht'))
      (h1.mono hw1) hs' (h2.mono hw2) (h3.mono hw3) hbud
    simpa [List.map, F64.sumLoop, Int.add_assoc] using this


/-- `sum(xs)` of cent-valued doubles approximates the exact total of cents -/
theorem approx_pySum (B : Nat) (ps : List (F64 × Int))
    (hps : ∀ t ∈ ps, Cent t.1 t.2 ∧ t.2.natAbs ≤ B)
    (hbud : 9 * (ps.length * ps.length * (B + 3)) < 2 ^ 52) :
    Approx (pySum (ps.map Prod.fst)) (ps.map Prod.snd).sum
        ((ps.length + 1) * (ps.length + 1) * (B + 7) + ps.length * B + 2) ∧
      (ps.map Prod.snd).sum.natAbs ≤ ps.length * B := by
  cases ps with
  | nil =>
    simp only [List.map, pySum, List.sum_nil, List.length_nil]
    exact ⟨approx_zero.mono (by omega), by simp⟩
  | cons t xs =>
    have ht := hps t List.mem_cons_self
    have hxs : ∀ u ∈ xs, Cent u.1 u.2 ∧ u.2.natAbs ≤ B := fun u hu => hps u (List.mem_cons_of_mem _ hu)
    have e : 1 + xs.length = xs.length + 1 := by omega
    simp only [List.length_cons] at hbud ⊢
    have hB : B + 3 < 2 ^ 49 := by
      have : 1 * 1 * (B + 3) ≤ (xs.length + 1) * (xs.length + 1) * (B + 3) :=
        Nat.mul_le_mul_right _ (Nat.mul_le_mul (by omega) (by omega))
      omega
    have h0 : Approx t.1 t.2 (B + 1) := (ht.1.approx (by omega)).mono (by omega)
    have hadd := Approx.add approx_zero h0 (by decide) (by omega) (by decide) (by omega)
    rw [Int.zero_add] at hadd
    have hstart : Approx (add zero t.1) t.2 (2 * (1 * 1 * (B + 3))) := hadd.mono (by omega)
    have hp : PApprox (add zero t.1) zero t.2 ((1 + 1) * (1 + 1) * (B + 7)) := by
      unfold PApprox
      rw [sval_zero, Int.add_zero]
      exact Nat.le_trans hadd.2 (Nat.mul_le_mul_right one (by omega))
    have h := papprox_sumLoop B xs 1 (add zero t.1) zero t.2 (Nat.le_refl 1)
      (cents_to_approx (by omega) hxs) hstart (by omega) (approx_zero.mono (by omega)) hp
      (by rw [e]; exact hbud)
    rw [e] at h
    simpa [List.map, pySum, pySumFrom] using h

/-- weight of `sum` over at most 64 copies of at most 10^11 cents -/
def W64 : Nat := 65 * 65 * (100000000000 + 7) + 64 * 100000000000 + 2

theorem approx_pySum_64 (ps : List (F64 × Int)) (hn : ps.length ≤ 64)
    (hps : ∀ t ∈ ps, Cent t.1 t.2 ∧ t.2.natAbs ≤ 100000000000) :
    Approx (pySum (ps.map Prod.fst)) (ps.map Prod.snd).sum W64 ∧
      (ps.map Prod.snd).sum.natAbs ≤ 64 * 100000000000 := by
  have hb : 9 * (ps.length * ps.length * (100000000000 + 3)) < 2 ^ 52 := by
    have : ps.length * ps.length ≤ 64 * 64 := Nat.mul_le_mul hn hn
    have := Nat.mul_le_mul_left 9 (Nat.mul_le_mul_right (100000000000 + 3) this)
    have h3 : 9 * (64 * 64 * (100000000000 + 3)) < 2 ^ 52 := by norm_num
    exact Nat.lt_of_le_of_lt this h3
  obtain ⟨h1, h2⟩ := approx_pySum 100000000000 ps hps hb
  have hl1 : (ps.length + 1) * (ps.length + 1) ≤ 65 * 65 := Nat.mul_le_mul (by omega) (by omega)
  have hl2 := Nat.mul_le_mul_right (100000000000 + 7) hl1
  have hl3 := Nat.mul_le_mul_right 100000000000 hn
  have hw : (ps.length + 1) * (ps.length + 1) * (100000000000 + 7) + ps.length * 100000000000 + 2 ≤ W64 :=
    Nat.add_le_add (Nat.add_le_add hl2 hl3) (Nat.le_refl 2)
  exact ⟨h1.mono hw, Nat.le_trans h2 hl3⟩

theorem W64_eq : W64 = 428900000029577 := by unfold W64; norm_num

/-! ## sums of zeros are zero -/

/-- a finite zero (`0.0` or `-0.0`) -/
def IsZ (x : F64) : Prop := x.isFinite = true ∧ sval x = 0

theorem IsZ.add {x y : F64} (hx : IsZ x) (hy : IsZ y) : IsZ (F64.add x y) := by
  obtain ⟨h1, h2⟩ := add_err hx.1 hy.1 (by rw [hx.2, hy.2]; simp)
  rw [hx.2, hy.2] at h2
  exact ⟨h1, by omega⟩

theorem IsZ.sub {x y : F64} (hx : IsZ x) (hy : IsZ y) : IsZ (F64.sub x y) := by
  obtain ⟨h1, h2⟩ := sub_err hx.1 hy.1 (by rw [hx.2, hy.2]; simp)
  rw [hx.2, hy.2] at h2
  exact ⟨h1, by omega⟩

theorem isZ_zero : IsZ zero := ⟨rfl, sval_zero⟩

theorem IsZ.sumLoop (xs : List F64) : ∀ (f c : F64), IsZ f → IsZ c → (∀ x ∈ xs, IsZ x) →
    IsZ (sumLoop f c xs) := by
  induction xs with
  | nil =>
    intro f c hf hc _
    unfold F64.sumLoop F64.sumFinish
    split
    · exact hf.add hc
    · exact hf
  | cons x xs ih =>
    intro f c hf hc hxs
    have hx := hxs x List.mem_cons_self
    rw [F64.sumLoop]
    apply ih _ _ _ _ (fun y hy => hxs y (List.mem_cons_of_mem _ hy))
    · exact hf.add hx
    · unfold F64.sumStep
      simp only
      split
      · exact hc.add (((hf.sub (hf.add hx))).add hx)
      · exact hc.add (((hx.sub (hf.add hx))).add hf)

theorem IsZ.pySum (xs : List F64) (h : ∀ x ∈ xs, IsZ x) : IsZ (pySum xs) := by
  cases xs with
  | nil => exact isZ_zero
  | cons x xs =>
    unfold F64.pySum pySumFrom
    exact IsZ.sumLoop xs _ _ (isZ_zero.add (h x List.mem_cons_self)) isZ_zero
      (fun y hy => h y (List.mem_cons_of_mem _ hy))

theorem isZ_of_cent {x : F64} (h : Cent x 0) : IsZ x := ⟨h.isFinite, by rw [h.sval_eq, cv_zero]⟩

theorem lit001_small : 200 * sval lit001 < (one : Int) := by decide +kernel

theorem gt_lit001_of_approx {x : F64} {t : Int} {w : Nat} (h : Approx x t w) (hw : w < 2 ^ 52)
    (ht : 1 ≤ t) : F64.lt lit001 x = true := by
  rw [lt_iff_sval lit001_finite h.1]
  have h2 := h.2
  have hW : w * one < 2 ^ 52 * one := Nat.mul_lt_mul_of_pos_right hw one_pos
  have hl := lit001_small
  have hop : (0 : Int) < (one : Int) := by exact_mod_cast one_pos
  have ht1 : (one : Int) ≤ t * (one : Int) := by nlinarith
  generalize t * (one : Int) = p at *
  generalize w * one = W at *
  generalize sval lit001 = L at *
  generalize sval x = X at *
  omega

theorem not_gt_lit001_of_isZ {x : F64} (hf : x.isFinite = true) (h0 : sval x = 0) : F64.lt lit001 x = false := by
  have := lit001_pos
  have h : ¬ (F64.lt lit001 x = true) := by
    rw [lt_iff_sval lit001_finite hf, h0]; omega
  simpa using h
theorem sum_nonneg_int (l : List Int) (h : ∀ x ∈ l, 0 ≤ x) : 0 ≤ l.sum := by
  induction l with
  | nil => simp
  | cons x xs ih =>
    have := h x List.mem_cons_self
    have := ih (fun z hz => h z (List.mem_cons_of_mem _ hz))
    simp only [List.sum_cons]; omega

theorem all_zero_of_sum_zero (l : List Int) (h : ∀ x ∈ l, 0 ≤ x) (hs : l.sum = 0) : ∀ x ∈ l, x = 0 := by
  induction l with
  | nil => intro x hx; cases hx
  | cons y ys ih =>
    have hy := h y List.mem_cons_self
    have hys := sum_nonneg_int ys (fun z hz => h z (List.mem_cons_of_mem _ hz))
    simp only [List.sum_cons] at hs
    intro x hx
    rcases List.mem_cons.1 hx with rfl | hx
    · omega
    · exact ih (fun z hz => h z (List.mem_cons_of_mem _ hz)) (by omega) x hx

/-- what a list of (double, cents) pairs must satisfy: cent-valued amounts between 0 and 10^9 dollars -/
def Amounts (ps : List (F64 × Int)) : Prop :=
  ps.length ≤ 64 ∧ ∀ t ∈ ps, Cent t.1 t.2 ∧ 0 ≤ t.2 ∧ t.2 ≤ 100000000000

theorem Amounts.approx {ps : List (F64 × Int)} (h : Amounts ps) :
    Approx (pySum (ps.map Prod.fst)) (ps.map Prod.snd).sum 428900000029577 ∧
      0 ≤ (ps.map Prod.snd).sum ∧ (ps.map Prod.snd).sum ≤ 6400000000000 := by
  obtain ⟨h1, h2⟩ := approx_pySum_64 ps h.1 (fun t ht => by
    obtain ⟨a, b, c⟩ := h.2 t ht; exact ⟨a, by omega⟩)
  rw [W64_eq] at h1
  have h0 : 0 ≤ (ps.map Prod.snd).sum := sum_nonneg_int _ (by
    intro x hx
    obtain ⟨t, ht, rfl⟩ := List.mem_map.1 hx
    exact (h.2 t ht).2.1)
  exact ⟨h1, h0, by omega⟩

theorem Amounts.isZ {ps : List (F64 × Int)} (h : Amounts ps) (h0 : (ps.map Prod.snd).sum = 0) :
    IsZ (pySum (ps.map Prod.fst)) := by
  have hz := all_zero_of_sum_zero (ps.map Prod.snd) (by
    intro x hx
    obtain ⟨t, ht, rfl⟩ := List.mem_map.1 hx
    exact (h.2 t ht).2.1) h0
  apply IsZ.pySum
  intro x hx
  obtain ⟨t, ht, rfl⟩ := List.mem_map.1 hx
  have ht0 : t.2 = 0 := hz t.2 (List.mem_map.2 ⟨t, ht, rfl⟩)
  have := (h.2 t ht).1
  rw [ht0] at this
  exact isZ_of_cent this

/-- the chain of line 25b on F64 level -/
def total4 (s1 s2 s3 s4 : F64) : F64 :=
  let x := F64.add (F64.add (F64.add s1 s2) s3) s4
  if F64.lt lit001 x then F64.roundN x 2 else F64.roundN F64.zero 2

theorem cent_total4 {ps1 ps2 ps3 ps4 : List (F64 × Int)}
    (h1 : Amounts ps1) (h2 : Amounts ps2) (h3 : Amounts ps3) (h4 : Amounts ps4) :
    Cent (total4 (pySum (ps1.map Prod.fst)) (pySum (ps2.map Prod.fst)) (pySum (ps3.map Prod.fst))
        (pySum (ps4.map Prod.fst)))
      ((ps1.map Prod.snd).sum + (ps2.map Prod.snd).sum + (ps3.map Prod.snd).sum + (ps4.map Prod.snd).sum) ∧
    ((ps1.map Prod.snd).sum + (ps2.map Prod.snd).sum + (ps3.map Prod.snd).sum + (ps4.map Prod.snd).sum = 0 →
      total4 (pySum (ps1.map Prod.fst)) (pySum (ps2.map Prod.fst)) (pySum (ps3.map Prod.fst))
        (pySum (ps4.map Prod.fst)) = zero) := by
  obtain ⟨a1, n1, u1⟩ := h1.approx
  obtain ⟨a2, n2, u2⟩ := h2.approx
  obtain ⟨a3, n3, u3⟩ := h3.approx
  obtain ⟨a4, n4, u4⟩ := h4.approx
  unfold total4
  simp only
  by_cases ht : (ps1.map Prod.snd).sum + (ps2.map Prod.snd).sum + (ps3.map Prod.snd).sum
      + (ps4.map Prod.snd).sum = 0
  · have z := (((h1.isZ (by omega)).add (h2.isZ (by omega))).add (h3.isZ (by omega))).add (h4.isZ (by omega))
    rw [ht, not_gt_lit001_of_isZ z.1 z.2]
    simp only [Bool.false_eq_true, if_false, roundN_zero]
    exact ⟨Cent_zero, by simp⟩
  · have a12 := Approx.add a1 a2 (by omega) (by omega) (by omega) (by omega)
    have a123 := Approx.add a12 a3 (by omega) (by omega) (by omega) (by omega)
    have a := Approx.add a123 a4 (by omega) (by omega) (by omega) (by omega)
    have hw : 428900000029577 + 428900000029577 +
          ((ps1.map Prod.snd).sum + (ps2.map Prod.snd).sum).natAbs + 2 + 428900000029577 +
          ((ps1.map Prod.snd).sum + (ps2.map Prod.snd).sum + (ps3.map Prod.snd).sum).natAbs + 2 +
          428900000029577 +
          ((ps1.map Prod.snd).sum + (ps2.map Prod.snd).sum + (ps3.map Prod.snd).sum
            + (ps4.map Prod.snd).sum).natAbs + 2 < 2 ^ 52 := by omega
    rw [gt_lit001_of_approx a hw (by omega)]
    simp only [if_true]
    exact ⟨a.round2 hw (by omega), fun h0 => absurd h0 ht⟩

end HabuVerif.F64.L25b

namespace HabuVerif.C16.L25b
open HabuVerif HabuVerif.Dsl HabuVerif.F64 HabuVerif.Gen HabuVerif.C15 HabuVerif.Dsl.L25b HabuVerif.F64.L25b

/-- the body of Form 1040 line 25b as the translator emits it -/
def shape25b : List Stmt :=
  shapeSum4IfGt "withholding" "number_1099-r" "1099-r:" "number_1099-div" "1099-div:"
    "number_1099-int" "1099-int:" "number_1099-g" "1099-g:" ".box_4" lit001

/-- what line 25b of a year's Form 1040 must look like -/
structure Line25bShape (y : YearDecl) (c : ClassDecl) (l : LineDecl) : Prop where
  cname : c.name = "1040"
  body : l.body = shape25b
  kind : l.kind = .float 2
  sem : (mkCat y).sem "1040.25b" = evalLine y c none l

/-- the regenerated programs of each year have this shape (checked by the kernel on every run) -/
theorem line25b_shape_2021 : Line25bShape year2021 Y2021.c_1040 (lineOf Y2021.c_1040 "25b") :=
  ⟨rfl, rfl, rfl, rfl⟩
theorem line25b_shape_2022 : Line25bShape year2022 Y2022.c_1040 (lineOf Y2022.c_1040 "25b") :=
  ⟨rfl, rfl, rfl, rfl⟩
theorem line25b_shape_2023 : Line25bShape year2023 Y2023.c_1040 (lineOf Y2023.c_1040 "25b") :=
  ⟨rfl, rfl, rfl, rfl⟩

theorem qr : qual' "1040" none "number_1099-r" = "1040.number_1099-r" := by decide
theorem qd : qual' "1040" none "number_1099-div" = "1040.number_1099-div" := by decide
theorem qi : qual' "1040" none "number_1099-int" = "1040.number_1099-int" := by decide
theorem qg : qual' "1040" none "number_1099-g" = "1040.number_1099-g" := by decide

/-- the copies `0 … k-1` of one payer form in the stores: the count input `cnt` is the int `k ≤ 64` and
box 4 of copy `j` holds the double `f j` -/
structure Copies (vs : String → Option Val) (is : String → InpRes Val) (cnt pre : String) (k : Int)
    (f : Int → F64) : Prop where
  count : is cnt = .ok (.int k)
  le64 : k ≤ 64
  vals : ∀ j : Nat, j < k.toNat → vs (copyKey pre ".box_4" j) = some (.float (f j))

/-- the copies' amounts are cent-valued, between 0 and 10^9 dollars: copy `j` is `cs j` cents -/
def CentCopies (k : Int) (f : Int → F64) (cs : Int → Int) : Prop :=
  ∀ j : Nat, j < k.toNat → Cent (f j) (cs j) ∧ 0 ≤ cs j ∧ cs j ≤ 100000000000

/-- the cents of the copies `0 … k-1` -/
def copyCents (cs : Int → Int) (k : Int) : List Int := (List.range k.toNat).map fun (j : Nat) => cs (j : Int)

/-- (double, cents) of the copies `0 … k-1` -/
def copyPairs (f : Int → F64) (cs : Int → Int) (k : Int) : List (F64 × Int) :=
  (List.range k.toNat).map fun (j : Nat) => (f (j : Int), cs (j : Int))

theorem copyPairs_fst (f : Int → F64) (cs : Int → Int) (k : Int) :
    (copyPairs f cs k).map Prod.fst = copyVals f k := by
  simp [copyPairs, copyVals, List.map_map, Function.comp_def]
theorem copyPairs_snd (f : Int → F64) (cs : Int → Int) (k : Int) :
    (copyPairs f cs k).map Prod.snd = copyCents cs k := by
  simp [copyPairs, copyCents, List.map_map, Function.comp_def]

theorem amounts_copyPairs {k : Int} {f : Int → F64} {cs : Int → Int} (hk : k ≤ 64)
    (hc : CentCopies k f cs) : Amounts (copyPairs f cs k) := by
  refine ⟨by simp [copyPairs]; omega, ?_⟩
  intro t ht
  obtain ⟨j, hj, rfl⟩ := List.mem_map.1 ht
  exact hc j (List.mem_range.1 hj)

section general
variable {y : YearDecl} {c : ClassDecl} {l : LineDecl}
variable (vs : String → Option Val) (is : String → InpRes Val) (fs : String → Bool)

/-- **what line 25b evaluates to**, against ANY stores in which the four counts are ints `≤ 64` and
box 4 of every copy holds a double: `total4` of CPython's `sum` of each form's copies, i.e.
`round(x, 2) if x > 0.001 else 0.0` for `x = ((s_r + s_div) + s_int) + s_g`. -/
theorem eval_25b (hS : Line25bShape y c l) (k1 k2 k3 k4 : Int) (f1 f2 f3 f4 : Int → F64)
    (h1 : Copies vs is "1040.number_1099-r" "1099-r:" k1 f1)
    (h2 : Copies vs is "1040.number_1099-div" "1099-div:" k2 f2)
    (h3 : Copies vs is "1040.number_1099-int" "1099-int:" k3 f3)
    (h4 : Copies vs is "1040.number_1099-g" "1099-g:" k4 f4) :
    run vs is fs (evalLine y c none l) =
      .val (.float (total4 (pySum (copyVals f1 k1)) (pySum (copyVals f2 k2)) (pySum (copyVals f3 k3))
        (pySum (copyVals f4 k4)))) := by
  have := eval_sum4IfGt vs is fs y c none l "withholding" "number_1099-r" "1099-r:" "number_1099-div"
    "1099-div:" "number_1099-int" "1099-int:" "number_1099-g" "1099-g:" ".box_4" lit001 2 hS.body hS.kind
    (by decide +kernel) k1 k2 k3 k4 f1 f2 f3 f4
    (by rw [hS.cname, qr]; exact h1.count) (by rw [hS.cname, qd]; exact h2.count)
    (by rw [hS.cname, qi]; exact h3.count) (by rw [hS.cname, qg]; exact h4.count)
    (by have := h1.le64; omega) (by have := h2.le64; omega) (by have := h3.le64; omega)
    (by have := h4.le64; omega) (by decide) h1.vals h2.vals h3.vals h4.vals
  exact this

/-- **Line 25b is the total of box 4 of all 1099-R, 1099-DIV, 1099-INT and 1099-G copies, in cents**
(at most 64 copies per form, each amount between 0 and 10^9 dollars; a zero total is stored as `0.0`) —
for the evaluation of the line against ANY stores. -/
theorem line25b_total (hS : Line25bShape y c l) (k1 k2 k3 k4 : Int) (f1 f2 f3 f4 : Int → F64)
    (cs1 cs2 cs3 cs4 : Int → Int)
    (h1 : Copies vs is "1040.number_1099-r" "1099-r:" k1 f1)
    (h2 : Copies vs is "1040.number_1099-div" "1099-div:" k2 f2)
    (h3 : Copies vs is "1040.number_1099-int" "1099-int:" k3 f3)
    (h4 : Copies vs is "1040.number_1099-g" "1099-g:" k4 f4)
    (c1 : CentCopies k1 f1 cs1) (c2 : CentCopies k2 f2 cs2) (c3 : CentCopies k3 f3 cs3)
    (c4 : CentCopies k4 f4 cs4) :
    ∃ x, run vs is fs ((mkCat y).sem "1040.25b") = .val (.float x) ∧
      Cent x ((copyCents cs1 k1).sum + (copyCents cs2 k2).sum + (copyCents cs3 k3).sum
        + (copyCents cs4 k4).sum) ∧
      ((copyCents cs1 k1).sum + (copyCents cs2 k2).sum + (copyCents cs3 k3).sum
        + (copyCents cs4 k4).sum = 0 → x = F64.zero) := by
  refine ⟨_, by rw [hS.sem]; exact eval_25b vs is fs hS k1 k2 k3 k4 f1 f2 f3 f4 h1 h2 h3 h4, ?_⟩
  have := cent_total4 (amounts_copyPairs h1.le64 c1) (amounts_copyPairs h2.le64 c2)
    (amounts_copyPairs h3.le64 c3) (amounts_copyPairs h4.le64 c4)
  simp only [copyPairs_fst, copyPairs_snd] at this
  exact this

end general

theorem perm_sum_int' {l₁ l₂ : List Int} (h : l₁.Perm l₂) : l₁.sum = l₂.sum := by
  induction h with
  | nil => rfl
  | cons x _ ih => simp [ih]
  | swap x y l => simp only [List.sum_cons]; omega
  | trans _ _ ih1 ih2 => exact ih1.trans ih2

theorem copyCents_sum_bounds {k : Int} {f : Int → F64} {cs : Int → Int} (hk : k ≤ 64)
    (hc : CentCopies k f cs) : 0 ≤ (copyCents cs k).sum ∧ (copyCents cs k).sum ≤ 6400000000000 := by
  have := (amounts_copyPairs hk hc).approx
  rw [copyPairs_snd] at this
  exact this.2

/-- raising the cents of copy `j0` by `d` (when `p` holds) raises the form's total by `d` -/
theorem copyCents_sum_bump (cs cs' : Int → Int) (k : Int) (j0 : Nat) (d : Int) (p : Prop) [Decidable p]
    (h : ∀ j : Nat, j < k.toNat → cs' j = cs j + (if p ∧ j = j0 then d else 0)) :
    (copyCents cs' k).sum = (copyCents cs k).sum + (if p ∧ j0 < k.toNat then d else 0) := by
  unfold copyCents
  generalize k.toNat = n at h
  induction n with
  | zero => simp
  | succ n ih =>
    have ih' := ih (fun j hj => h j (by omega))
    have hn := h n (by omega)
    rw [List.range_succ, List.map_append, List.map_append, List.sum_append, List.sum_append, ih']
    simp only [List.map_cons, List.map_nil, List.sum_cons, List.sum_nil, hn]
    by_cases hp : p
    · by_cases h1 : n = j0
      · subst h1; simp [hp]; omega
      · by_cases h2 : j0 < n
        · have : j0 < n + 1 := by omega
          simp [hp, h1, h2, this]; omega
        · have : ¬ j0 < n + 1 := by omega
          simp [hp, h1, h2, this]
    · simp [hp]


section general
variable {y : YearDecl} {c : ClassDecl} {l : LineDecl}
variable (vs : String → Option Val) (is : String → InpRes Val) (fs : String → Bool)

/-- **Renumbering the copies of the 1099 forms does not change line 25b**: two stores whose copies
carry, form by form, the same amounts in another order give the same number of cents and the very
same double. -/
theorem line25b_renumbering (hS : Line25bShape y c l)
    (vs' : String → Option Val) (is' : String → InpRes Val) (fs' : String → Bool)
    (k1 k2 k3 k4 : Int) (f1 f2 f3 f4 f1' f2' f3' f4' : Int → F64)
    (cs1 cs2 cs3 cs4 cs1' cs2' cs3' cs4' : Int → Int)
    (h1 : Copies vs is "1040.number_1099-r" "1099-r:" k1 f1)
    (h2 : Copies vs is "1040.number_1099-div" "1099-div:" k2 f2)
    (h3 : Copies vs is "1040.number_1099-int" "1099-int:" k3 f3)
    (h4 : Copies vs is "1040.number_1099-g" "1099-g:" k4 f4)
    (h1' : Copies vs' is' "1040.number_1099-r" "1099-r:" k1 f1')
    (h2' : Copies vs' is' "1040.number_1099-div" "1099-div:" k2 f2')
    (h3' : Copies vs' is' "1040.number_1099-int" "1099-int:" k3 f3')
    (h4' : Copies vs' is' "1040.number_1099-g" "1099-g:" k4 f4')
    (c1 : CentCopies k1 f1 cs1) (c2 : CentCopies k2 f2 cs2) (c3 : CentCopies k3 f3 cs3)
    (c4 : CentCopies k4 f4 cs4)
    (c1' : CentCopies k1 f1' cs1') (c2' : CentCopies k2 f2' cs2') (c3' : CentCopies k3 f3' cs3')
    (c4' : CentCopies k4 f4' cs4')
    (p1 : (copyCents cs1' k1).Perm (copyCents cs1 k1)) (p2 : (copyCents cs2' k2).Perm (copyCents cs2 k2))
    (p3 : (copyCents cs3' k3).Perm (copyCents cs3 k3)) (p4 : (copyCents cs4' k4).Perm (copyCents cs4 k4)) :
    ∃ x x' t, run vs is fs ((mkCat y).sem "1040.25b") = .val (.float x) ∧
      run vs' is' fs' ((mkCat y).sem "1040.25b") = .val (.float x') ∧
      Cent x t ∧ Cent x' t ∧ x = x' ∧
      t = (copyCents cs1 k1).sum + (copyCents cs2 k2).sum + (copyCents cs3 k3).sum + (copyCents cs4 k4).sum := by
  obtain ⟨x, hx, cx, zx⟩ := line25b_total vs is fs hS k1 k2 k3 k4 f1 f2 f3 f4 cs1 cs2 cs3 cs4 h1 h2 h3 h4 c1 c2 c3 c4
  obtain ⟨x', hx', cx', zx'⟩ := line25b_total vs' is' fs' hS k1 k2 k3 k4 f1' f2' f3' f4' cs1' cs2' cs3' cs4'
    h1' h2' h3' h4' c1' c2' c3' c4'
  rw [perm_sum_int' p1, perm_sum_int' p2, perm_sum_int' p3, perm_sum_int' p4] at cx' zx'
  refine ⟨x, x', _, hx, hx', cx, cx', ?_, rfl⟩
  by_cases h0 : (copyCents cs1 k1).sum + (copyCents cs2 k2).sum + (copyCents cs3 k3).sum
      + (copyCents cs4 k4).sum = 0
  · rw [zx h0, zx' h0]
  · have b1 := copyCents_sum_bounds h1.le64 c1
    have b2 := copyCents_sum_bounds h2.le64 c2
    have b3 := copyCents_sum_bounds h3.le64 c3
    have b4 := copyCents_sum_bounds h4.le64 c4
    exact Cent.eq_of_ne_zero cx cx' h0 (by omega)

/-- **Each extra cent withheld on ONE Form 1099 copy moves line 25b by exactly one cent**: two stores
with the same counts whose copies carry the same cents, except that copy `j0` of form number `i0`
(1 = 1099-R, 2 = 1099-DIV, 3 = 1099-INT, 4 = 1099-G) carries `d` cents more in the second store. -/
theorem line25b_one_for_one (hS : Line25bShape y c l)
    (vs' : String → Option Val) (is' : String → InpRes Val) (fs' : String → Bool)
    (k1 k2 k3 k4 : Int) (f1 f2 f3 f4 f1' f2' f3' f4' : Int → F64)
    (cs1 cs2 cs3 cs4 cs1' cs2' cs3' cs4' : Int → Int)
    (h1 : Copies vs is "1040.number_1099-r" "1099-r:" k1 f1)
    (h2 : Copies vs is "1040.number_1099-div" "1099-div:" k2 f2)
    (h3 : Copies vs is "1040.number_1099-int" "1099-int:" k3 f3)
    (h4 : Copies vs is "1040.number_1099-g" "1099-g:" k4 f4)
    (h1' : Copies vs' is' "1040.number_1099-r" "1099-r:" k1 f1')
    (h2' : Copies vs' is' "1040.number_1099-div" "1099-div:" k2 f2')
    (h3' : Copies vs' is' "1040.number_1099-int" "1099-int:" k3 f3')
    (h4' : Copies vs' is' "1040.number_1099-g" "1099-g:" k4 f4')
    (c1 : CentCopies k1 f1 cs1) (c2 : CentCopies k2 f2 cs2) (c3 : CentCopies k3 f3 cs3)
    (c4 : CentCopies k4 f4 cs4)
    (c1' : CentCopies k1 f1' cs1') (c2' : CentCopies k2 f2' cs2') (c3' : CentCopies k3 f3' cs3')
    (c4' : CentCopies k4 f4' cs4')
    (i0 j0 : Nat) (d : Int)
    (hin : (i0 = 1 ∧ j0 < k1.toNat) ∨ (i0 = 2 ∧ j0 < k2.toNat) ∨ (i0 = 3 ∧ j0 < k3.toNat) ∨
      (i0 = 4 ∧ j0 < k4.toNat))
    (e1 : ∀ j : Nat, j < k1.toNat → cs1' j = cs1 j + (if i0 = 1 ∧ j = j0 then d else 0))
    (e2 : ∀ j : Nat, j < k2.toNat → cs2' j = cs2 j + (if i0 = 2 ∧ j = j0 then d else 0))
    (e3 : ∀ j : Nat, j < k3.toNat → cs3' j = cs3 j + (if i0 = 3 ∧ j = j0 then d else 0))
    (e4 : ∀ j : Nat, j < k4.toNat → cs4' j = cs4 j + (if i0 = 4 ∧ j = j0 then d else 0)) :
    ∃ x x' t, run vs is fs ((mkCat y).sem "1040.25b") = .val (.float x) ∧
      run vs' is' fs' ((mkCat y).sem "1040.25b") = .val (.float x') ∧
      Cent x t ∧ Cent x' (t + d) ∧
      t = (copyCents cs1 k1).sum + (copyCents cs2 k2).sum + (copyCents cs3 k3).sum + (copyCents cs4 k4).sum := by
  obtain ⟨x, hx, cx, _⟩ := line25b_total vs is fs hS k1 k2 k3 k4 f1 f2 f3 f4 cs1 cs2 cs3 cs4 h1 h2 h3 h4 c1 c2 c3 c4
  obtain ⟨x', hx', cx', _⟩ := line25b_total vs' is' fs' hS k1 k2 k3 k4 f1' f2' f3' f4' cs1' cs2' cs3' cs4'
    h1' h2' h3' h4' c1' c2' c3' c4'
  refine ⟨x, x', _, hx, hx', cx, ?_, rfl⟩
  have s1 := copyCents_sum_bump cs1 cs1' k1 j0 d (i0 = 1) e1
  have s2 := copyCents_sum_bump cs2 cs2' k2 j0 d (i0 = 2) e2
  have s3 := copyCents_sum_bump cs3 cs3' k3 j0 d (i0 = 3) e3
  have s4 := copyCents_sum_bump cs4 cs4' k4 j0 d (i0 = 4) e4
  have e : (copyCents cs1' k1).sum + (copyCents cs2' k2).sum + (copyCents cs3' k3).sum + (copyCents cs4' k4).sum
      = (copyCents cs1 k1).sum + (copyCents cs2 k2).sum + (copyCents cs3 k3).sum + (copyCents cs4 k4).sum + d := by
    rw [s1, s2, s3, s4]
    rcases hin with ⟨a, b⟩ | ⟨a, b⟩ | ⟨a, b⟩ | ⟨a, b⟩ <;> subst a <;> simp [b] <;> omega
  rw [e] at cx'
  exact cx'

end general

/-- a concrete return: one 1099-R with 120.00 withheld, one 1099-G with 45.50, no 1099-DIV/INT -/
def exVs : String → Option Val := fun n =>
  if n = "1099-r:0.box_4" then some (.float (centD 12000))
  else if n = "1099-g:0.box_4" then some (.float (centD 4550)) else none
def exIs : String → InpRes Val := fun n =>
  if n = "1040.number_1099-r" then .ok (.int 1)
  else if n = "1040.number_1099-g" then .ok (.int 1)
  else if n = "1040.number_1099-div" then .ok (.int 0)
  else if n = "1040.number_1099-int" then .ok (.int 0) else .missing

example : ∃ x, run exVs exIs (fun _ => false) ((mkCat year2021).sem "1040.25b") = .val (.float x) ∧
    Cent x 16550 := by
  have one : ∀ j : Nat, j < (1 : Int).toNat → j = 0 := by intro j hj; have : (1 : Int).toNat = 1 := rfl; omega
  have none' : ∀ j : Nat, ¬ j < (0 : Int).toNat := by intro j hj; have : (0 : Int).toNat = 0 := rfl; omega
  obtain ⟨x, hx, cx, _⟩ := line25b_total exVs exIs (fun _ => false) line25b_shape_2021 1 0 0 1
    (fun _ => centD 12000) (fun _ => F64.zero) (fun _ => F64.zero) (fun _ => centD 4550)
    (fun _ => 12000) (fun _ => 0) (fun _ => 0) (fun _ => 4550)
    ⟨rfl, by decide, fun j hj => by rw [one j hj]; rfl⟩
    ⟨rfl, by decide, fun j hj => absurd hj (none' j)⟩
    ⟨rfl, by decide, fun j hj => absurd hj (none' j)⟩
    ⟨rfl, by decide, fun j hj => by rw [one j hj]; rfl⟩
    (fun j hj => ⟨Cent_centD (by decide), by simp, by simp⟩)
    (fun j hj => absurd hj (none' j))
    (fun j hj => absurd hj (none' j))
    (fun j hj => ⟨Cent_centD (by decide), by simp, by simp⟩)
  exact ⟨x, hx, cx⟩

end HabuVerif.C16.L25b

#print axioms HabuVerif.Dsl.L25b.runP_floatSumE
#print axioms HabuVerif.Dsl.L25b.applyCmp_gt_float_any
#print axioms HabuVerif.Dsl.L25b.eval_sum4IfGt
#print axioms HabuVerif.F64.L25b.comp_exact_err
#print axioms HabuVerif.F64.L25b.PApprox.sumStep
#print axioms HabuVerif.F64.L25b.PApprox.sumFinish
#print axioms HabuVerif.F64.L25b.papprox_sumLoop
#print axioms HabuVerif.F64.L25b.approx_pySum
#print axioms HabuVerif.F64.L25b.approx_pySum_64
#print axioms HabuVerif.F64.L25b.IsZ.pySum
#print axioms HabuVerif.F64.L25b.gt_lit001_of_approx
#print axioms HabuVerif.F64.L25b.cent_total4
#print axioms HabuVerif.C16.L25b.line25b_shape_2021
#print axioms HabuVerif.C16.L25b.line25b_shape_2022
#print axioms HabuVerif.C16.L25b.line25b_shape_2023
#print axioms HabuVerif.C16.L25b.eval_25b
#print axioms HabuVerif.C16.L25b.line25b_total
#print axioms HabuVerif.C16.L25b.line25b_renumbering
#print axioms HabuVerif.C16.L25b.copyCents_sum_bump
#print axioms HabuVerif.C16.L25b.line25b_one_for_one
