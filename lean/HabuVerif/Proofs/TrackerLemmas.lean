import HabuVerif.Core.Tracker
/-!
# The dependency tracker refines a multiset of (dependency, waiter) pairs

For every history of `add_unmet / meet / next()` operations: a waiter is handed out by the drain
only for a dependency that was met, every registered wait on a met dependency is handed out
exactly once (as multisets: `List.Perm`), nothing is lost, nothing is handed out twice, the
generator never crashes, and running it to exhaustion needs no more steps than there are waiters.
-/
set_option autoImplicit false
set_option linter.unusedSectionVars false

namespace HabuVerif.Tracker
variable {D W : Type} [DecidableEq D]

/-- the abstract content: one pair per registered wait -/
def pairs (l : List (D × List W)) : List (D × W) := l.flatMap fun p => p.2.map fun w => (p.1, w)

def keys (l : List (D × List W)) : List D := l.map (·.1)

/-- no key twice, no empty waiter list -/
structure WF (t : Tracker D W) : Prop where
  nodup : (keys t.unmet).Nodup
  nonempty : ∀ p ∈ t.unmet, p.2 ≠ []

/-- `w` is registered as waiting for `d` -/
def Waits (t : Tracker D W) (d : D) (w : W) : Prop := (d, w) ∈ pairs t.unmet

theorem mem_pairs {l : List (D × List W)} {d : D} {w : W} :
    (d, w) ∈ pairs l ↔ ∃ ws, (d, ws) ∈ l ∧ w ∈ ws := by
  simp only [pairs, List.mem_flatMap, List.mem_map]
  constructor
  · rintro ⟨p, hp, w', hw', heq⟩
    cases heq
    exact ⟨p.2, by simpa using hp, hw'⟩
  · rintro ⟨ws, hp, hw⟩
    exact ⟨(d, ws), hp, w, hw, rfl⟩

theorem lookup_eq_some_of_mem {l : List (D × List W)} (hn : (keys l).Nodup) {d : D} {ws : List W}
    (h : (d, ws) ∈ l) : l.lookup d = some ws := by
  induction l with
  | nil => simp at h
  | cons p l ih =>
    obtain ⟨k, v⟩ := p
    simp only [keys, List.map_cons, List.nodup_cons] at hn
    simp only [List.mem_cons] at h
    rcases h with h | h
    · cases h; simp [List.lookup]
    · have hk : d ≠ k := by
        intro e; subst e
        exact hn.1 (List.mem_map.mpr ⟨(d, ws), h, rfl⟩)
      simp only [List.lookup]
      have : (d == k) = false := by simpa using hk
      rw [this]
      exact ih hn.2 h

theorem mem_of_lookup_eq_some {l : List (D × List W)} {d : D} {ws : List W}
    (h : l.lookup d = some ws) : (d, ws) ∈ l := by
  induction l with
  | nil => simp [List.lookup] at h
  | cons p l ih =>
    obtain ⟨k, v⟩ := p
    simp only [List.lookup] at h
    split at h
    · rename_i heq
      have : d = k := by simpa using heq
      subst this; cases h; simp
    · exact List.mem_cons_of_mem _ (ih h)

theorem lookup_eq_none_iff {l : List (D × List W)} {d : D} :
    l.lookup d = none ↔ d ∉ keys l := by
  induction l with
  | nil => simp [List.lookup, keys]
  | cons p l ih =>
    obtain ⟨k, v⟩ := p
    simp only [List.lookup, keys, List.map_cons, List.mem_cons, not_or]
    split
    · rename_i heq
      have : d = k := by simpa using heq
      simp [this]
    · rename_i heq
      have : d ≠ k := by simpa using heq
      simp only [keys] at ih
      simp [ih, this]

omit [DecidableEq D] in
theorem split_last {ws : List W} {w : W} (hw : ws.getLast? = some w) : ws = ws.dropLast ++ [w] := by
  obtain ⟨ys, rfl⟩ := List.getLast?_eq_some_iff.mp hw
  simp

/-! ### `setKey` / `delKey` on a duplicate-free dict -/

theorem keys_setKey (l : List (D × List W)) (k : D) (ws : List W) : keys (setKey l k ws) = keys l := by
  induction l with
  | nil => rfl
  | cons p l ih =>
    simp only [setKey, List.map_cons, keys] at ih ⊢
    split <;> simp_all

theorem pairs_cons (p : D × List W) (l : List (D × List W)) :
    pairs (p :: l) = p.2.map (fun w => (p.1, w)) ++ pairs l := by
  simp [pairs]

theorem setKey_of_not_mem (l : List (D × List W)) (k : D) (ws : List W) (h : k ∉ keys l) :
    setKey l k ws = l := by
  induction l with
  | nil => rfl
  | cons p l ih =>
    simp only [keys, List.map_cons, List.mem_cons, not_or] at h
    simp only [setKey, List.map_cons]
    have : ¬ p.1 = k := fun e => h.1 e.symm
    simp only [this, if_false]
    congr 1
    exact ih (by simpa [keys] using h.2)

theorem delKey_of_not_mem (l : List (D × List W)) (k : D) (h : k ∉ keys l) : delKey l k = l := by
  induction l with
  | nil => rfl
  | cons p l ih =>
    simp only [keys, List.map_cons, List.mem_cons, not_or] at h
    simp only [delKey, List.filter_cons]
    have : ¬ p.1 = k := fun e => h.1 e.symm
    simp only [this, decide_false, Bool.not_false, if_true]
    congr 1
    exact ih (by simpa [keys] using h.2)

/-- popping the last waiter of `m` removes exactly one pair `(m, w)` -/
theorem pairs_setKey_dropLast {l : List (D × List W)} (hn : (keys l).Nodup) {m : D} {ws : List W}
    {w : W} (hl : l.lookup m = some ws) (hw : ws.getLast? = some w) :
    (pairs l).Perm ((m, w) :: pairs (setKey l m ws.dropLast)) := by
  induction l with
  | nil => simp [List.lookup] at hl
  | cons p l ih =>
    obtain ⟨k, v⟩ := p
    simp only [keys, List.map_cons, List.nodup_cons] at hn
    simp only [List.lookup] at hl
    split at hl
    · rename_i heq
      have hmk : m = k := by simpa using heq
      subst hmk; cases hl
      have hrest : setKey l m ws.dropLast = l := setKey_of_not_mem _ _ _ hn.1
      simp only [setKey, List.map_cons, if_true] at hrest ⊢
      rw [hrest, pairs_cons, pairs_cons]
      simp only
      have hsplit : ws = ws.dropLast ++ [w] := split_last hw
      have : (ws.map fun x => (m, x)) = (ws.dropLast.map fun x => (m, x)) ++ [(m, w)] := by
        conv => lhs; rw [hsplit]
        simp
      rw [this]
      refine List.Perm.trans (List.perm_append_comm.append_right _) ?_
      simp
    · rename_i heq
      have hmk : ¬ k = m := by
        intro e; subst e; simp at heq
      simp only [setKey, List.map_cons, hmk, if_false]
      rw [pairs_cons, pairs_cons]
      have := ih hn.2 hl
      simp only [setKey] at this
      refine List.Perm.trans (List.Perm.append_left _ this) ?_
      exact List.perm_middle

/-- deleting the key when its last waiter is popped removes exactly that pair -/
theorem pairs_delKey {l : List (D × List W)} (hn : (keys l).Nodup) {m : D} {ws : List W}
    {w : W} (hl : l.lookup m = some ws) (hw : ws.getLast? = some w) (he : ws.dropLast = []) :
    (pairs l).Perm ((m, w) :: pairs (delKey l m)) := by
  induction l with
  | nil => simp [List.lookup] at hl
  | cons p l ih =>
    obtain ⟨k, v⟩ := p
    simp only [keys, List.map_cons, List.nodup_cons] at hn
    simp only [List.lookup] at hl
    split at hl
    · rename_i heq
      have hmk : m = k := by simpa using heq
      subst hmk; cases hl
      have hrest : delKey l m = l := delKey_of_not_mem _ _ hn.1
      simp only [delKey, List.filter_cons, decide_true, Bool.not_true] at hrest ⊢
      simp only [Bool.false_eq_true, if_false]
      rw [hrest, pairs_cons]
      have hsplit : ws = ws.dropLast ++ [w] := split_last hw
      rw [he] at hsplit
      simp [hsplit]
    · rename_i heq
      have hmk : ¬ k = m := by
        intro e; subst e; simp at heq
      simp only [delKey, List.filter_cons, hmk, decide_false, Bool.not_false, if_true]
      rw [pairs_cons, pairs_cons]
      have := ih hn.2 hl
      simp only [delKey] at this
      refine List.Perm.trans (List.Perm.append_left _ this) ?_
      exact List.perm_middle

theorem keys_delKey_sub (l : List (D × List W)) (k : D) : ∀ d, d ∈ keys (delKey l k) → d ∈ keys l := by
  intro d hd
  simp only [keys, delKey, List.mem_map, List.mem_filter] at hd ⊢
  obtain ⟨p, ⟨hp, _⟩, rfl⟩ := hd
  exact ⟨p, hp, rfl⟩

theorem nodup_keys_delKey {l : List (D × List W)} (hn : (keys l).Nodup) (k : D) :
    (keys (delKey l k)).Nodup := by
  simp only [keys, delKey] at hn ⊢
  exact (List.filter_sublist.map _).nodup hn

theorem not_mem_keys_delKey {l : List (D × List W)} (k : D) : k ∉ keys (delKey l k) := by
  simp only [keys, delKey, List.mem_map, List.mem_filter, not_exists, not_and]
  rintro p ⟨_, hp⟩ rfl
  simp at hp

theorem mem_setKey {l : List (D × List W)} {k : D} {ws : List W} {p : D × List W}
    (h : p ∈ setKey l k ws) : p ∈ l ∨ p = (k, ws) := by
  simp only [setKey, List.mem_map] at h
  obtain ⟨q, hq, rfl⟩ := h
  split
  · exact Or.inr rfl
  · exact Or.inl hq

/-! ### `add_unmet` -/

theorem addUnmet_met (t : Tracker D W) (d : D) (w : W) : (t.addUnmet d w).met = t.met := by
  unfold addUnmet; split <;> rfl

theorem pairs_append (a b : List (D × List W)) : pairs (a ++ b) = pairs a ++ pairs b := by
  simp [pairs]

theorem pairs_setKey_append {l : List (D × List W)} (hn : (keys l).Nodup) {d : D} {ws : List W}
    (w : W) (hl : l.lookup d = some ws) :
    (pairs (setKey l d (ws ++ [w]))).Perm ((d, w) :: pairs l) := by
  induction l with
  | nil => simp [List.lookup] at hl
  | cons p l ih =>
    obtain ⟨k, v⟩ := p
    simp only [keys, List.map_cons, List.nodup_cons] at hn
    simp only [List.lookup] at hl
    split at hl
    · rename_i heq
      have hmk : d = k := by simpa using heq
      subst hmk; cases hl
      have hrest : setKey l d (ws ++ [w]) = l := setKey_of_not_mem _ _ _ hn.1
      simp only [setKey, List.map_cons, if_true] at hrest ⊢
      rw [hrest, pairs_cons, pairs_cons]
      simp only [List.map_append, List.map_cons, List.map_nil, List.append_assoc]
      exact (List.perm_middle).trans (List.Perm.refl _)
    · rename_i heq
      have hmk : ¬ k = d := by
        intro e; subst e; simp at heq
      simp only [setKey, List.map_cons, hmk, if_false]
      rw [pairs_cons, pairs_cons]
      have := ih hn.2 hl
      simp only [setKey] at this
      refine List.Perm.trans (List.Perm.append_left _ this) ?_
      exact List.perm_middle

/-- Registering a wait adds exactly one pair. -/
theorem addUnmet_pairs (t : Tracker D W) (hwf : WF t) (d : D) (w : W) :
    (pairs (t.addUnmet d w).unmet).Perm ((d, w) :: pairs t.unmet) := by
  unfold addUnmet
  split
  · rename_i h
    simp only [pairs_append]
    simp only [pairs, List.flatMap_cons, List.flatMap_nil, List.map_cons, List.map_nil,
      List.append_nil]
    exact List.perm_append_comm
  · rename_i ws h
    exact pairs_setKey_append hwf.nodup w h

theorem addUnmet_WF (t : Tracker D W) (hwf : WF t) (d : D) (w : W) : WF (t.addUnmet d w) := by
  unfold addUnmet
  split
  · rename_i h
    refine ⟨?_, ?_⟩
    · simp only [keys, List.map_append, List.map_cons, List.map_nil]
      have hd : d ∉ keys t.unmet := lookup_eq_none_iff.mp h
      rw [List.nodup_append]
      refine ⟨hwf.nodup, by simp, ?_⟩
      intro a ha b hb
      simp only [List.mem_singleton] at hb
      subst hb
      intro e; subst e; exact hd ha
    · intro p hp
      simp only [List.mem_append, List.mem_singleton] at hp
      rcases hp with hp | hp
      · exact hwf.nonempty p hp
      · subst hp; simp
  · rename_i ws h
    refine ⟨?_, ?_⟩
    · rw [keys_setKey]; exact hwf.nodup
    · intro p hp
      rcases mem_setKey hp with hp | hp
      · exact hwf.nonempty p hp
      · subst hp; simp

theorem addUnmet_waits (t : Tracker D W) (hwf : WF t) (d : D) (w : W) (d' : D) (w' : W) :
    Waits (t.addUnmet d w) d' w' ↔ Waits t d' w' ∨ (d' = d ∧ w' = w) := by
  unfold Waits
  rw [(addUnmet_pairs t hwf d w).mem_iff]
  simp only [List.mem_cons, Prod.mk.injEq]
  exact Or.comm

/-! ### one `next()` of the generator -/

/-- Specification of one generator step on a well-formed tracker. -/
inductive StepSpec (t : Tracker D W) : DrainRes D W → Prop
  | done (t' : Tracker D W) (hu : t'.unmet = t.unmet) (hm : t'.met = [])
      (hnone : ∀ m ∈ t.met, m ∉ keys t.unmet) : StepSpec t (.done t')
  | yield (w : W) (t' : Tracker D W) (m : D) (hm : m ∈ t.met)
      (hperm : (pairs t.unmet).Perm ((m, w) :: pairs t'.unmet))
      (hwf : WF t')
      (hmet : ∀ d, d ∈ t'.met → d ∈ t.met)
      (hkeys : ∀ d, d ∈ keys t'.unmet → d ∈ keys t.unmet)
      (hdropped : ∀ d, d ∈ t.met → d ∉ t'.met → d ∉ keys t'.unmet) : StepSpec t (.yield w t')

theorem drainStepAux_spec (unmet : List (D × List W)) (hn : (keys unmet).Nodup)
    (hne : ∀ p ∈ unmet, p.2 ≠ []) (met : List D) :
    StepSpec { unmet := unmet, met := met } (drainStepAux unmet met) := by
  induction met with
  | nil =>
    simp only [drainStepAux]
    exact .done _ rfl rfl (by simp)
  | cons m rest ih =>
    simp only [drainStepAux]
    cases hl : unmet.lookup m with
    | none =>
      simp only
      have hm : m ∉ keys unmet := lookup_eq_none_iff.mp hl
      generalize hres : drainStepAux unmet rest = res at ih
      cases ih with
      | done t' hu hm' hnone =>
        exact .done t' hu hm' (by
          intro d hd
          simp only [List.mem_cons] at hd
          rcases hd with rfl | hd
          · exact hm
          · exact hnone d hd)
      | yield w t' m' hm' hperm hwf hmet hkeys hdropped =>
        refine .yield w t' m' (List.mem_cons_of_mem _ hm') hperm hwf
          (fun d hd => List.mem_cons_of_mem _ (hmet d hd)) hkeys ?_
        intro d hd hd'
        simp only [List.mem_cons] at hd
        rcases hd with rfl | hd
        · intro hk; exact hm (hkeys _ hk)
        · exact hdropped d hd hd'
    | some ws =>
      simp only
      have hmem : (m, ws) ∈ unmet := mem_of_lookup_eq_some hl
      have hws : ws ≠ [] := hne _ hmem
      cases hlast : ws.getLast? with
      | none => simp [List.getLast?_eq_none_iff] at hlast; exact absurd hlast hws
      | some w =>
        simp only
        split
        · rename_i hemp
          have hemp' : ws.dropLast = [] := by simpa using hemp
          refine .yield w _ m (List.mem_cons_self) (pairs_delKey hn hl hlast hemp') ?_ ?_ ?_ ?_
          · exact ⟨nodup_keys_delKey hn m, fun p hp => hne p (List.mem_filter.mp hp).1⟩
          · intro d hd; exact List.mem_cons_of_mem _ hd
          · exact keys_delKey_sub unmet m
          · intro d hd hd'
            simp only [List.mem_cons] at hd
            rcases hd with rfl | hd
            · exact not_mem_keys_delKey d
            · exact absurd hd hd'
        · rename_i hemp
          refine .yield w _ m (List.mem_cons_self) (pairs_setKey_dropLast hn hl hlast) ?_ ?_ ?_ ?_
          · refine ⟨by rw [keys_setKey]; exact hn, ?_⟩
            intro p hp
            rcases mem_setKey hp with hp | hp
            · exact hne p hp
            · subst hp; simpa using hemp
          · intro d hd; exact hd
          · intro d hd; rw [keys_setKey] at hd; exact hd
          · intro d hd hd'; exact absurd hd hd'

theorem drainStep_spec (t : Tracker D W) (hwf : WF t) : StepSpec t t.drainStep := by
  have := drainStepAux_spec t.unmet hwf.nodup hwf.nonempty t.met
  simpa [drainStep] using this

/-- The generator never pops from an empty list. -/
theorem drainStep_no_crash (t : Tracker D W) (hwf : WF t) : ∀ r, t.drainStep = r → r ≠ .crash := by
  intro r hr hc
  have := drainStep_spec t hwf
  rw [hr, hc] at this
  cases this

/-! ### running the generator to exhaustion -/

theorem waiters_eq_length_pairs (t : Tracker D W) : t.waiters = (pairs t.unmet).length := by
  simp only [waiters, pairs, List.length_flatMap, List.length_map]

/-- Specification of `list(met_dependents())` started on `t0`, generalised over the accumulator. -/
theorem drainFuel_spec (fuel : Nat) (t0 t : Tracker D W) (hwf : WF t) (acc : List W)
    (rel : List (D × W))
    (hrel : rel.map (·.2) = acc.reverse)
    (hrelmet : ∀ p ∈ rel, p.1 ∈ t0.met)
    (hperm : (pairs t0.unmet).Perm (rel ++ pairs t.unmet))
    (hmet : ∀ d, d ∈ t.met → d ∈ t0.met)
    (hdropped : ∀ d, d ∈ t0.met → d ∉ t.met → d ∉ keys t.unmet)
    (hfuel : t.waiters < fuel) :
    ∃ ws t' rel', drainFuel fuel t acc = some (ws, t') ∧ WF t' ∧ t'.met = [] ∧
      rel'.map (·.2) = ws ∧ (∀ p ∈ rel', p.1 ∈ t0.met) ∧
      (pairs t0.unmet).Perm (rel' ++ pairs t'.unmet) ∧
      (∀ d, d ∈ t0.met → d ∉ keys t'.unmet) := by
  induction fuel generalizing t acc rel with
  | zero => omega
  | succ fuel ih =>
    simp only [drainFuel]
    have hs := drainStep_spec t hwf
    cases hr : t.drainStep with
    | crash => rw [hr] at hs; cases hs
    | done t' =>
      rw [hr] at hs
      cases hs with
      | done _ hu hm hnone =>
        refine ⟨acc.reverse, t', rel, rfl, ⟨by rw [hu]; exact hwf.nodup, by rw [hu]; exact hwf.nonempty⟩,
          hm, hrel, hrelmet, by rw [hu]; exact hperm, ?_⟩
        intro d hd
        rw [hu]
        by_cases hdt : d ∈ t.met
        · exact hnone d hdt
        · exact hdropped d hd hdt
    | «yield» w t' =>
      rw [hr] at hs
      cases hs with
      | «yield» _ _ m hm hperm' hwf' hmet' hkeys' hdropped' =>
        simp only
        have hlen : t'.waiters + 1 = t.waiters := by
          rw [waiters_eq_length_pairs, waiters_eq_length_pairs, hperm'.length_eq]; simp
        refine ih t' hwf' (w :: acc) (rel ++ [(m, w)]) (by simp [hrel]) ?_ ?_
          (fun d hd => hmet d (hmet' d hd)) ?_ (by omega)
        · intro p hp
          simp only [List.mem_append, List.mem_singleton] at hp
          rcases hp with hp | rfl
          · exact hrelmet p hp
          · exact hmet m hm
        · refine hperm.trans ?_
          rw [List.append_assoc]
          exact List.Perm.append_left _ (by simpa using hperm')
        · intro d hd hd'
          by_cases hdt : d ∈ t.met
          · exact hdropped' d hdt hd'
          · intro hk; exact hdropped d hd hdt (hkeys' d hk)

/-- **Tracker refinement, drain.**  On a well-formed tracker `list(met_dependents())` terminates
without crashing; afterwards no met name is pending; the waiters handed out are, as a multiset,
exactly the registered waits on met dependencies (each once), and exactly the waits on unmet
dependencies remain. -/
theorem drainAll_spec (t : Tracker D W) (hwf : WF t) :
    ∃ ws t' rel, t.drainAll = some (ws, t') ∧ WF t' ∧ t'.met = [] ∧
      rel.map (·.2) = ws ∧ (∀ p ∈ rel, p.1 ∈ t.met) ∧
      (pairs t.unmet).Perm (rel ++ pairs t'.unmet) ∧
      (∀ d, d ∈ t.met → d ∉ keys t'.unmet) := by
  unfold drainAll
  exact drainFuel_spec (t.waiters + 1) t t hwf [] [] rfl (by simp) (by simp) (fun _ h => h)
    (fun d hd hd' => absurd hd hd') (by omega)

theorem keys_of_mem_pairs {l : List (D × List W)} {d : D} {w : W} (h : (d, w) ∈ pairs l) :
    d ∈ keys l := by
  obtain ⟨ws, hp, _⟩ := mem_pairs.mp h
  exact List.mem_map.mpr ⟨(d, ws), hp, rfl⟩

/-- Consequences in the form the solver invariants use. -/
theorem drainAll_waits (t : Tracker D W) (hwf : WF t) :
    ∃ ws t', t.drainAll = some (ws, t') ∧ WF t' ∧ t'.met = [] ∧
      (∀ d w, Waits t' d w ↔ (Waits t d w ∧ d ∉ t.met)) ∧
      (∀ w, w ∈ ws ↔ ∃ d, d ∈ t.met ∧ Waits t d w) := by
  obtain ⟨ws, t', rel, h, hwf', hmet, hrel, hrelmet, hperm, hnone⟩ := drainAll_spec t hwf
  refine ⟨ws, t', h, hwf', hmet, ?_, ?_⟩
  · intro d w
    unfold Waits
    rw [hperm.mem_iff, List.mem_append]
    constructor
    · intro h'
      refine ⟨Or.inr h', ?_⟩
      intro hd
      exact hnone d hd (keys_of_mem_pairs h')
    · rintro ⟨h1 | h1, h2⟩
      · exact absurd (hrelmet _ h1) h2
      · exact h1
  · intro w
    rw [← hrel, List.mem_map]
    constructor
    · rintro ⟨p, hp, rfl⟩
      refine ⟨p.1, hrelmet p hp, ?_⟩
      unfold Waits
      rw [hperm.mem_iff]
      exact List.mem_append_left _ hp
    · rintro ⟨d, hd, hw⟩
      unfold Waits at hw
      rw [hperm.mem_iff, List.mem_append] at hw
      rcases hw with hw | hw
      · exact ⟨(d, w), hw, rfl⟩
      · exact absurd (keys_of_mem_pairs hw) (hnone d hd)

end HabuVerif.Tracker
