import HabuVerif.Proofs.Confluence2
/-!
# Order independence, part 3: assembling the facts about one run and about two runs
-/
set_option autoImplicit false
set_option linter.unusedSectionVars false
set_option linter.unusedVariables false

namespace HabuVerif
open Tracker

variable {N I F V S : Type} [DecidableEq N] [DecidableEq I] [DecidableEq F]
variable {C : Cat N I F V S}

theorem addForms_refused {σ : Sched N I} : ∀ (fs : List F) {s s' : St N I F V S},
    addForms C σ fs s = .ok s' → s'.refused = s.refused := by
  intro fs
  induction fs with
  | nil => intro s s' h; simp only [addForms] at h; cases h; rfl
  | cons f fs ih =>
    intro s s' h
    simp only [addForms] at h
    cases ha : addForm C σ s f false with
    | error e => simp [ha] at h
    | ok s1 =>
      simp only [ha] at h
      obtain ⟨_, _, _, _, _, _, hr, _⟩ := addForm_ok ha
      rw [ih h, hr]

theorem addExtra_refused {σ : Sched N I} : ∀ (ns : List N) {s s' : St N I F V S},
    addExtra σ ns s = .ok s' → s'.refused = s.refused := by
  intro ns
  induction ns with
  | nil => intro s s' h; simp only [addExtra] at h; cases h; rfl
  | cons n ns ih =>
    intro s s' h
    simp only [addExtra] at h
    split at h
    · have := ih h
      exact this
    · simp at h

/-- the prompt function `solve` uses for a mode -/
abbrev PromptMode.fn (mode : PromptMode S I N) : Nat → I → List N → Option S :=
  mode.toP.getD fun _ _ _ => Option.none

/-- Everything the development knows about the final state of one run. -/
structure RunFacts (mode : PromptMode S I N) (file : List (I × S)) (forms : List F)
    (extra : List N) (s : St N I F V S) : Prop where
  inv : Inv C [] s
  lc : loopCond s = false
  closed : Closed (C := C) mode.isTotal s
  src : Src file mode.fn s
  /-- what was there when the loop started is still there -/
  startSol : ∀ n, ((∃ f, f ∈ forms ∧ n ∈ C.required f) ∨ n ∈ extra) → n ∈ s.solving
  startForms : ∀ f, f ∈ forms → f ∈ s.forms
  startSpecs : ∀ x, (∃ f, f ∈ forms ∧ x ∈ C.inputs f) → x ∈ s.specs

theorem initSt_mem (inp : List (I × S)) (b : Bool) :
    (initSt inp b : St N I F V S).solving = [] ∧ (initSt inp b : St N I F V S).forms = [] ∧
    (initSt inp b : St N I F V S).specs = [] ∧ (initSt inp b : St N I F V S).v = [] ∧
    (initSt inp b : St N I F V S).inp = inp ∧ (initSt inp b : St N I F V S).refused = !b := by
  simp [initSt]

theorem run_facts (hC : CatWF C) {σ : Sched N I} (hσ : SchedOK σ) {mode : PromptMode S I N}
    {file : List (I × S)} {forms : List F} {extra : List N} {fuel qfuel : Nat} {s : St N I F V S}
    (h : solve C σ mode.toP file forms extra fuel qfuel = .ok (some s)) :
    RunFacts (C := C) mode file forms extra s := by
  obtain ⟨hinv, hlc, _⟩ := solve_inv hC hσ h
  obtain ⟨s1, s2, h1, h2, h3⟩ := solve_split h
  obtain ⟨i1, i2, i3, i4, i5, i6⟩ := initSt_mem (N := N) (F := F) (V := V) file mode.toP.isSome
  obtain ⟨a1, a2, a3, a4, a5⟩ := addForms_mem forms h1
  obtain ⟨b1, b2, b3, b4, b5⟩ := addExtra_mem extra h2
  have hinp2 : s2.inp = file := by rw [b5, a5, i5]
  -- provenance
  have hsrc2 : Src file mode.fn s2 := by
    refine ⟨?_, ?_⟩
    · intro x t hx; unfold St.inpf; rw [hinp2]; exact hx
    · intro x t hx; unfold St.inpf at hx; rw [hinp2] at hx; exact Or.inl hx
  have hsrc : Src file mode.fn s :=
    solve_pres (Po := mode.toP) hC hσ (Src.stepPres file mode.fn hC hσ) h1 h2 h3 hsrc2
  -- growth from the start
  have hgrow : Grow s2 s := solve_pres (Po := mode.toP) hC hσ (Grow.stepPres mode.fn s2) h1 h2 h3 (Grow.refl s2)
  -- refused stays false under a total prompt
  have href : mode.isTotal = true → s.refused = false := by
    intro ht
    cases mode with
    | none => cases ht
    | total ans =>
      have hr2 : s2.refused = false := by
        rw [addExtra_refused extra h2, addForms_refused forms h1, i6]; rfl
      exact solve_pres (Po := (PromptMode.total ans).toP) hC hσ
        (refused_false_stepPres (PromptMode.total ans).fn (fun k x nb => ⟨ans x, rfl⟩) hC hσ)
        h1 h2 h3 hr2
  refine ⟨hinv, hlc, closed_of_final hinv hlc href, hsrc, ?_, ?_, ?_⟩
  · intro n hn
    apply hgrow.sol
    rw [b1 n, a1 n, i1]
    rcases hn with hn | hn
    · exact Or.inl (Or.inr hn)
    · exact Or.inr hn
  · intro f hf
    apply hgrow.forms
    rw [b2, a2 f, i2]; exact Or.inr hf
  · intro x hx
    apply hgrow.specs
    rw [b3, a3 x, i3]; exact Or.inr hx

/-- **A run ends below every closed state that contains its request** (`T` need not come from a
run: any state satisfying the invariant, closedness and input provenance will do). So the final
state is the LEAST such state: the demand closure of the request. -/
theorem below_of_closed (hC : CatWF C) {σ : Sched N I} (hσ : SchedOK σ)
    {mode : PromptMode S I N} {file : List (I × S)} {forms forms' : List F} {extra extra' : List N}
    {f1 q1 : Nat} {s T : St N I F V S}
    (hs : solve C σ mode.toP file forms extra f1 q1 = .ok (some s))
    (fT : RunFacts (C := C) mode file forms' extra' T)
    (hforms : ∀ f, f ∈ forms → f ∈ forms') (hextra : ∀ n, n ∈ extra → n ∈ extra') : Below s T := by
  obtain ⟨s1, s2, h1, h2, h3⟩ := solve_split hs
  obtain ⟨i1, i2, i3, i4, i5, i6⟩ := initSt_mem (N := N) (F := F) (V := V) file mode.toP.isSome
  obtain ⟨a1, a2, a3, a4, a5⟩ := addForms_mem forms h1
  obtain ⟨b1, b2, b3, b4, b5⟩ := addExtra_mem extra h2
  have hinp2 : s2.inp = file := by rw [b5, a5, i5]
  have hv2 : s2.v = [] := by rw [b4, a4, i4]
  have hb2 : Below s2 T := by
    refine ⟨?_, ?_, ?_, ?_, ?_⟩
    · intro n hn
      rw [b1 n, a1 n, i1] at hn
      rcases hn with (hn | ⟨f, hf, hn⟩) | hn
      · simp at hn
      · exact fT.startSol n (Or.inl ⟨f, hforms f hf, hn⟩)
      · exact fT.startSol n (Or.inr (hextra n hn))
    · intro f hf
      rw [b2, a2 f, i2] at hf
      rcases hf with hf | hf
      · simp at hf
      · exact fT.startForms f (hforms f hf)
    · intro x hx
      rw [b3, a3 x, i3] at hx
      rcases hx with hx | ⟨f, hf, hx⟩
      · simp at hx
      · exact fT.startSpecs x ⟨f, hforms f hf, hx⟩
    · intro k y hk; unfold St.vf at hk; rw [hv2] at hk; simp [List.lookup] at hk
    · intro x t hx; unfold St.inpf at hx; rw [hinp2] at hx; exact fT.src.fileIn x t hx
  have hsrc2 : Src file mode.fn s2 := by
    refine ⟨?_, ?_⟩
    · intro x t hx; unfold St.inpf; rw [hinp2]; exact hx
    · intro x t hx; unfold St.inpf at hx; rw [hinp2] at hx; exact Or.inl hx
  cases mode with
  | none =>
    have hr2 : s2.refused = true := by
      rw [addExtra_refused extra h2, addForms_refused forms h1, i6]; rfl
    exact (solve_pres (Po := (PromptMode.none : PromptMode S I N).toP) hC hσ
      (below_stepPres_noPrompt file hC hσ fT.inv fT.closed) h1 h2 h3 ⟨hr2, hb2⟩).2
  | total ans =>
    exact (solve_pres (Po := (PromptMode.total ans).toP) hC hσ
      (below_stepPres (P := (PromptMode.total ans).fn) (ans := ans) (fun _ _ _ => rfl) file hC hσ
        fT.inv fT.closed fT.src) h1 h2 h3 ⟨hsrc2, hb2⟩).2

/-- **Every run ends below every other run's end** (same inputs and prompt mode; the two requests
may list the forms in different orders, or with repetitions). -/
theorem below_of_runs (hC : CatWF C) {σ τ : Sched N I} (hσ : SchedOK σ) (hτ : SchedOK τ)
    {mode : PromptMode S I N} {file : List (I × S)} {forms forms' : List F} {extra extra' : List N}
    {f1 q1 f2 q2 : Nat} {s T : St N I F V S}
    (hs : solve C σ mode.toP file forms extra f1 q1 = .ok (some s))
    (hT : solve C τ mode.toP file forms' extra' f2 q2 = .ok (some T))
    (hforms : ∀ f, f ∈ forms → f ∈ forms') (hextra : ∀ n, n ∈ extra → n ∈ extra') : Below s T :=
  below_of_closed hC hσ hs (run_facts hC hτ hT) hforms hextra

theorem ext_antisymm {K X : Type} {a b : K → Option X} (h1 : Ext a b) (h2 : Ext b a) : a = b := by
  funext k
  cases ha : a k with
  | some x => exact (h1 k x ha).symm
  | none =>
    cases hb : b k with
    | none => rfl
    | some x => have := h2 k x hb; rw [ha] at this; cases this

/-- the attempt outcome of every line is the same function in two mutually-below states -/
theorem attempt_eq_of_below {s T : St N I F V S} (h1 : Below s T) (h2 : Below T s) (n : N) :
    s.attempt C n = T.attempt C n := by
  have hv : s.vf = T.vf := ext_antisymm h1.v h2.v
  have hi : s.inpf = T.inpf := ext_antisymm h1.inp h2.inp
  have hinf : s.inf C = T.inf C := by
    funext x
    simp only [inf_def, hi]
    by_cases hx : x ∈ s.specs
    · simp [hx, h1.specs x hx]
    · have : x ∉ T.specs := fun hx' => hx (h2.specs x hx')
      simp [hx, this]
  have hf : s.ff = T.ff := by
    funext f
    simp only [St.ff]
    by_cases hfm : f ∈ s.forms
    · simp [hfm, h1.forms f hfm]
    · have : f ∉ T.forms := fun h' => hfm (h2.forms f h')
      simp [hfm, this]
  unfold St.attempt; rw [hv, hinf, hf]

/-- the verdict is a function of the demanded set and the values -/
theorem solved_iff {s : St N I F V S} (hinv : Inv C [] s) (hlc : loopCond s = false) :
    s.solved = true ↔ ∀ n, n ∈ s.solving → s.vf n ≠ none := by
  obtain ⟨hq, him, hfm, _⟩ := loopCond_false hlc
  constructor
  · intro hs n hn
    simp only [St.solved, Bool.and_eq_true, Bool.not_eq_eq_eq_not, Bool.not_true,
      List.isEmpty_iff] at hs
    obtain ⟨⟨h1, h2⟩, h3⟩ := hs
    have hfu := hasUnmet_false_unmet_nil hinv.fwf hfm h1
    have hiu := hasUnmet_false_unmet_nil hinv.iwf him h2
    rcases final_outcome hinv hlc n hn with ⟨x, hx, _⟩ | ⟨m, hw, _⟩ | ⟨x, hw, _⟩ | ⟨hu, _⟩
    · rw [hx]; simp
    · exact absurd hw (no_waits_of_unmet_nil hfu m n)
    · exact absurd hw (no_waits_of_unmet_nil hiu x n)
    · rw [h3] at hu; simp at hu
  · intro hall
    have novalue_contra : ∀ n, n ∈ s.solving → ∀ o, s.attempt C n = o → (∀ x, o ≠ .val x) → False := by
      intro n hn o ho hne
      cases hv : s.vf n with
      | none => exact hall n hn hv
      | some x => exact hne x (by rw [← ho]; exact hinv.vSound n x hv)
    have hfu : s.fdeps.unmet = [] := by
      cases hu : s.fdeps.unmet with
      | nil => rfl
      | cons p l =>
        exfalso
        have hk : p.1 ∈ keys s.fdeps.unmet := by rw [hu]; simp [keys]
        obtain ⟨w, hw⟩ := waits_of_key hinv.fwf hk
        obtain ⟨a, _, c⟩ := hinv.fWait p.1 w hw
        rcases c with c | c
        · rw [hfm] at c; simp at c
        · exact novalue_contra w a _ c.2 (by intro x hx; cases hx)
    have hiu : s.ideps.unmet = [] := by
      cases hu : s.ideps.unmet with
      | nil => rfl
      | cons p l =>
        exfalso
        have hk : p.1 ∈ keys s.ideps.unmet := by rw [hu]; simp [keys]
        obtain ⟨w, hw⟩ := waits_of_key hinv.iwf hk
        obtain ⟨a, c⟩ := hinv.iWait p.1 w hw
        rcases c with c | c
        · rw [him] at c; simp at c
        · exact novalue_contra w a _ c.2 (by intro x hx; cases hx)
    have hun : s.unimpl = [] := by
      cases hu : s.unimpl with
      | nil => rfl
      | cons n l =>
        exfalso
        obtain ⟨a, b⟩ := hinv.unimplSound n (by rw [hu]; simp)
        exact novalue_contra n a _ b (by intro x hx; cases hx)
    simp [St.solved, hasUnmet, hfu, hiu, hun]

end HabuVerif
