import HabuVerif.Core.Solver
import HabuVerif.Proofs.TreeLemmas
import HabuVerif.Proofs.TrackerLemmas
/-!
# Solver model: views of the state, growth of the stores, and the invariant

Everything here is for an arbitrary catalogue `C` (any set of forms, any line semantics), an
arbitrary schedule `σ` whose four ordering functions are permutations, and an arbitrary prompt.
-/
set_option autoImplicit false
set_option linter.unusedSectionVars false

namespace HabuVerif
open Tracker

variable {N I F V S : Type} [DecidableEq N] [DecidableEq I] [DecidableEq F]

/-! ## association lists -/

theorem lookup_map_replace {K X : Type} [DecidableEq K] (l : List (K × X)) (k : K) (x : X) (k' : K) :
    (l.map fun p => if p.1 = k then (k, x) else p).lookup k' =
      if k' = k then (l.lookup k).map (fun _ => x) else l.lookup k' := by
  induction l with
  | nil => simp [List.lookup]
  | cons p l ih =>
    obtain ⟨a, b⟩ := p
    simp only [List.map_cons, List.lookup]
    by_cases hak : a = k
    · subst hak
      simp only [if_true]
      by_cases hk' : k' = a
      · subst hk'; simp [List.lookup]
      · have h1 : (k' == a) = false := by simpa using hk'
        simp only [List.lookup, h1, hk', if_false] at ih ⊢
        exact ih
    · simp only [hak, if_false]
      by_cases hk' : k' = a
      · subst hk'
        simp [List.lookup, hak]
      · have h1 : (k' == a) = false := by simpa using hk'
        simp only [List.lookup, h1]
        by_cases hkk : k' = k
        · subst hkk
          have h2 : (k' == a) = false := h1
          simp only [if_true, h2] at ih ⊢
          exact ih
        · simp only [hkk, if_false] at ih ⊢
          exact ih

theorem lookup_append_single {K X : Type} [DecidableEq K] (l : List (K × X)) (k : K) (x : X) (k' : K) :
    (l ++ [(k, x)]).lookup k' = match l.lookup k' with
      | some y => some y
      | none => if k' = k then some x else none := by
  induction l with
  | nil =>
    by_cases hk' : k' = k
    · subst hk'; simp [List.lookup]
    · have h1 : (k' == k) = false := by simpa using hk'
      simp [List.lookup, h1, hk']
  | cons p l ih =>
    obtain ⟨a, b⟩ := p
    simp only [List.cons_append, List.lookup]
    split
    · rfl
    · exact ih

theorem assocSet_lookup {K X : Type} [DecidableEq K] (l : List (K × X)) (k : K) (x : X) (k' : K) :
    (assocSet l k x).lookup k' = if k' = k then some x else l.lookup k' := by
  unfold assocSet
  split
  · rename_i hsome
    rw [lookup_map_replace]
    by_cases hk' : k' = k
    · simp only [hk', if_true]
      cases h : l.lookup k with
      | none => simp [h] at hsome
      | some y => rfl
    · simp [hk']
  · rename_i hnone
    have hnone' : l.lookup k = none := by
      cases h : l.lookup k with
      | none => rfl
      | some v => simp [h] at hnone
    rw [lookup_append_single]
    by_cases hk' : k' = k
    · subst hk'; simp [hnone']
    · simp only [hk', if_false]
      cases l.lookup k' <;> rfl

/-! ## views -/

/-- raw text of an input as the store holds it -/
def St.inpf (s : St N I F V S) : I → Option S := fun x => s.inp.lookup x

variable (C : Cat N I F V S)

theorem inf_def (s : St N I F V S) (x : I) :
    s.inf C x = if x ∈ s.specs then
      (match s.inpf x with
        | none => InpRes.missing
        | some str => match C.parse x str with
          | none => .invalid
          | some v => .ok v)
      else .noSpec := rfl

/-- The stores of `s'` extend those of `s`. -/
structure StoreLe (s s' : St N I F V S) : Prop where
  v : Ext s.vf s'.vf
  i : InpLe (s.inf C) (s'.inf C)
  f : FormLe s.ff s'.ff

theorem StoreLe.refl (s : St N I F V S) : StoreLe C s s :=
  ⟨Ext.refl _, InpLe.refl _, FormLe.refl _⟩

theorem StoreLe.trans {a b c : St N I F V S} (h1 : StoreLe C a b) (h2 : StoreLe C b c) :
    StoreLe C a c :=
  ⟨h1.v.trans h2.v, h1.i.trans h2.i, h1.f.trans h2.f⟩

/-- growth of specs and raw text gives growth of the typed input view -/
theorem inpLe_of {s s' : St N I F V S} (hspecs : ∀ x, x ∈ s.specs → x ∈ s'.specs)
    (hinp : Ext s.inpf s'.inpf) : InpLe (s.inf C) (s'.inf C) := by
  intro x
  simp only [inf_def]
  by_cases hx : x ∈ s.specs
  · have hx' := hspecs x hx
    simp only [hx, hx', if_true]
    cases h : s.inpf x with
    | none =>
      refine ⟨by simp, by simp, ?_⟩
      intro _
      cases h' : s'.inpf x with
      | none => simp
      | some t => cases hp : C.parse x t <;> simp [hp]
    | some t =>
      rw [hinp x t h]
      cases hp : C.parse x t <;> simp [hp]
  · simp only [hx, if_false]
    refine ⟨by simp, by simp, by simp⟩

section attempt
variable {C}
variable {s s' : St N I F V S}

theorem attempt_val_stable (h : StoreLe C s s') {n : N} {x : V}
    (ha : s.attempt C n = .val x) : s'.attempt C n = .val x :=
  run_val_stable h.v h.i h.f _ _ ha

theorem attempt_notImpl_stable (h : StoreLe C s s') {n : N}
    (ha : s.attempt C n = .notImpl) : s'.attempt C n = .notImpl :=
  run_notImpl_stable h.v h.i h.f _ ha

theorem attempt_needV_stable (h : StoreLe C s s') {n m : N}
    (ha : s.attempt C n = .needV m) (hm : s'.vf m = none) : s'.attempt C n = .needV m :=
  run_needV_stable h.v h.i h.f _ _ ha hm

theorem attempt_needI_stable (h : StoreLe C s s') {n : N} {x : I}
    (ha : s.attempt C n = .needI x) (hm : s'.inf C x = .missing) : s'.attempt C n = .needI x :=
  run_needI_stable h.v h.i h.f _ _ ha hm
end attempt

/-! ## hypotheses on catalogue and schedule -/

/-- The catalogue's tables are consistent with its naming functions. (For the shipped forms this
is how names are built: `form.field`; for generated catalogues it holds by construction.) -/
structure CatWF : Prop where
  fieldsForm : ∀ f n, n ∈ C.fields f → C.formOfN n = some f
  requiredSub : ∀ f n, n ∈ C.required f → n ∈ C.fields f
  inputsForm : ∀ f x, x ∈ C.inputs f → C.formOfI x = some f

/-- A schedule only reorders. -/
structure SchedOK (σ : Sched N I) : Prop where
  q : ∀ l, (σ.sortQ l).Perm l
  w : ∀ l, (σ.sortW l).Perm l
  i : ∀ l, (σ.sortI l).Perm l
  r : ∀ l, (σ.sortR l).Perm l

/-! ## the invariant -/

/-- Invariant of the solver state between two primitive steps. `L` lists the lines that have been
taken out of the queue or out of a tracker and are about to be attempted. -/
structure Inv (L : List N) (s : St N I F V S) : Prop where
  /-- every stored value is what its line yields on the current stores (C03) -/
  vSound : ∀ n x, s.vf n = some x → s.attempt C n = .val x
  vDem : ∀ n x, s.vf n = some x → n ∈ s.solving
  fwf : WF s.fdeps
  iwf : WF s.ideps
  /-- a line waits for line `m` only if it really is blocked on `m`, or `m` was just met -/
  fWait : ∀ m n, Waits s.fdeps m n → n ∈ s.solving ∧ m ∈ s.solving ∧
    (m ∈ s.fdeps.met ∨ (s.vf m = none ∧ s.attempt C n = .needV m))
  fMet : ∀ m, m ∈ s.fdeps.met → s.vf m ≠ none
  iWait : ∀ x n, Waits s.ideps x n → n ∈ s.solving ∧
    (x ∈ s.ideps.met ∨ (s.inf C x = .missing ∧ s.attempt C n = .needI x))
  iMet : ∀ x, x ∈ s.ideps.met → ∃ v, s.inf C x = .ok v
  unimplSound : ∀ n, n ∈ s.unimpl → n ∈ s.solving ∧ s.attempt C n = .notImpl
  /-- every demanded line is accounted for (C01) -/
  part : ∀ n, n ∈ s.solving → n ∈ s.queue ∨ n ∈ L ∨ s.vf n ≠ none ∨ (∃ m, Waits s.fdeps m n) ∨
    (∃ x, Waits s.ideps x n) ∨ n ∈ s.unimpl
  qDem : ∀ n, n ∈ s.queue ∨ n ∈ L → n ∈ s.solving
  solFmap : ∀ n, n ∈ s.solving → n ∈ s.fmap
  fmapForm : ∀ n, n ∈ s.fmap → ∃ f, f ∈ s.forms ∧ n ∈ C.fields f
  formsLoaded : ∀ f, f ∈ s.forms → (∀ n, n ∈ C.fields f → n ∈ s.fmap) ∧
    (∀ n, n ∈ C.required f → n ∈ s.solving) ∧ (∀ x, x ∈ C.inputs f → x ∈ s.specs) ∧
    C.status f = .ok
  specsForm : ∀ x, x ∈ s.specs → ∃ f, x ∈ C.inputs f ∧ ∀ y, y ∈ C.inputs f → y ∈ s.specs

end HabuVerif
