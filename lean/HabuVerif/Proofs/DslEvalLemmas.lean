import HabuVerif.Proofs.DslRun
import HabuVerif.Proofs.F64Lemmas
/-!
# Evaluation lemmas for the expression shapes the translated line programs are made of
-/
set_option autoImplicit false
set_option linter.unusedSimpArgs false
open HabuVerif HabuVerif.Dsl

namespace HabuVerif.Dsl
variable (vs : String → Option Val) (is : String → InpRes Val) (fs : String → Bool)

/-- lift of a pure result into outcomes -/
def liftOut {α : Type} : R α → POut α
  | .ok a => .pure a
  | .error e => .err e

@[simp] theorem runP_lift {α : Type} (r : R α) : runP vs is fs (Prog.lift r) = liftOut r := by
  cases r <;> rfl

/-- the fully qualified name a key denotes inside a line of `ctx` -/
def qual (ctx : Ctx) (k : String) : String :=
  if k.toList.contains '.' then k else formName ctx.form ctx.inst ++ "." ++ k

theorem qualify_str (ctx : Ctx) (k : String) : qualify ctx (.str k) = .ok (qual ctx k) := rfl

theorem runP_const (ctx : Ctx) (env : Env) (v : Val) :
    runP vs is fs (evalExpr ctx env (.const v)) = .pure v := by
  simp [evalExpr]

theorem runP_readV_lit (ctx : Ctx) (env : Env) (k : String) :
    runP vs is fs (evalExpr ctx env (.readV (.const (.str k)))) =
      match vs (qual ctx k) with
      | some v => .pure v
      | none => .needV (qual ctx k) := by
  simp only [evalExpr, runP_bind, runP_pure, POut.bind_pure, qualify_str, runP_lift, liftOut, runP]
  cases vs (qual ctx k) <;> rfl

theorem runP_readI_lit (ctx : Ctx) (env : Env) (k : String) :
    runP vs is fs (evalExpr ctx env (.readI (.const (.str k)))) =
      match is (qual ctx k) with
      | .ok v => .pure v
      | .noSpec => .needSpec (qual ctx k)
      | .missing => .needI (qual ctx k)
      | .invalid => .invalid (qual ctx k) := by
  simp only [evalExpr, runP_bind, runP_pure, POut.bind_pure, qualify_str, runP_lift, liftOut, runP]
  cases is (qual ctx k) <;> rfl

theorem runP_bin (ctx : Ctx) (env : Env) (op : BinOp) (a b : Expr) :
    runP vs is fs (evalExpr ctx env (.bin op a b)) =
      (runP vs is fs (evalExpr ctx env a)).bind fun x =>
        (runP vs is fs (evalExpr ctx env b)).bind fun y => liftOut (applyBin op x y) := by
  simp only [evalExpr, runP_bind, runP_lift]

theorem runP_cmp1 (ctx : Ctx) (env : Env) (op : CmpOp) (a b : Expr) :
    runP vs is fs (evalExpr ctx env (.cmp a [op] [b])) =
      (runP vs is fs (evalExpr ctx env a)).bind fun x =>
        (runP vs is fs (evalExpr ctx env b)).bind fun y =>
          (liftOut (applyCmp op x y)).bind fun c => .pure (.bool c) := by
  simp only [evalExpr, evalCmp, runP_bind, runP_lift]
  congr; funext x; congr; funext y; congr; funext c
  cases c <;> simp

theorem runP_ite (ctx : Ctx) (env : Env) (c a b : Expr) :
    runP vs is fs (evalExpr ctx env (.ite c a b)) =
      (runP vs is fs (evalExpr ctx env c)).bind fun x =>
        if x.truthy then runP vs is fs (evalExpr ctx env a) else runP vs is fs (evalExpr ctx env b) := by
  simp only [evalExpr, runP_bind]
  congr; funext x
  split <;> rfl

/-- a body that is a single `return e` -/
theorem runP_body_ret (ctx : Ctx) (d : LineDecl) (e : Expr) (h : d.body = [.ret e]) :
    runP vs is fs (evalBody ctx d) = runP vs is fs (evalExpr ctx d.defaults e) := by
  simp only [evalBody, h, execBlock, execStmt, runP_bind, runP_pure, POut.bind_pure, Flow.result]
  cases runP vs is fs (evalExpr ctx d.defaults e) <;> rfl


/-- `qual` only looks at the form name and instance -/
def qual' (form : String) (inst : Option String) (k : String) : String :=
  if k.toList.contains '.' then k else formName form inst ++ "." ++ k

theorem qual_eq (ctx : Ctx) (k : String) : qual ctx k = qual' ctx.form ctx.inst k := rfl

theorem applyBin_sub_float (a b : F64) :
    applyBin .sub (.float a) (.float b) = .ok (.float (F64.sub a b)) := rfl
theorem applyBin_add_float (a b : F64) :
    applyBin .add (.float a) (.float b) = .ok (.float (F64.add a b)) := rfl

/-- the three-way comparison of two non-nan doubles -/
theorem cmpNum_float (a b : F64) (ha : a.isNaN = false) (hb : b.isNaN = false) :
    Val.cmpNum (.f a) (.f b) =
      some (if F64.lt a b then .lt else if F64.lt b a then .gt else .eq) := by
  simp only [Val.cmpNum]
  by_cases h1 : F64.lt a b = true
  · simp [h1]
  · by_cases h2 : F64.lt b a = true
    · simp [h1, h2]
    · have e : F64.eq a b = true := by
        rw [F64.lt_eq_not_le ha hb] at h1
        rw [F64.lt_eq_not_le hb ha] at h2
        exact F64.le_antisymm (by simpa using h2) (by simpa using h1)
      simp [h1, h2, e]

theorem lt_asymm' {a b : F64} (ha : a.isNaN = false) (hb : b.isNaN = false)
    (h : F64.lt a b = true) : F64.lt b a = false := by
  rw [F64.lt_eq_not_le hb ha]
  simp [F64.le_of_lt h]

theorem applyCmp_gt_float (a b : F64) (ha : a.isNaN = false) (hb : b.isNaN = false) :
    applyCmp .gt (.float a) (.float b) = .ok (F64.lt b a) := by
  simp only [applyCmp, Val.ordCmp, Val.num?, cmpNum_float a b ha hb]
  by_cases h1 : F64.lt a b = true
  · simp [h1, lt_asymm' ha hb h1, Val.OrdOp.holds]
  · by_cases h2 : F64.lt b a = true <;> simp [h1, h2, Val.OrdOp.holds]

theorem applyCmp_lt_float (a b : F64) (ha : a.isNaN = false) (hb : b.isNaN = false) :
    applyCmp .lt (.float a) (.float b) = .ok (F64.lt a b) := by
  simp only [applyCmp, Val.ordCmp, Val.num?, cmpNum_float a b ha hb]
  by_cases h1 : F64.lt a b = true
  · simp [h1, Val.OrdOp.holds]
  · by_cases h2 : F64.lt b a = true <;> simp [h1, h2, Val.OrdOp.holds]

theorem applyCmp_ge_float (a b : F64) (ha : a.isNaN = false) (hb : b.isNaN = false) :
    applyCmp .ge (.float a) (.float b) = .ok (!F64.lt a b) := by
  simp only [applyCmp, Val.ordCmp, Val.num?, cmpNum_float a b ha hb]
  by_cases h1 : F64.lt a b = true
  · simp [h1, Val.OrdOp.holds]
  · by_cases h2 : F64.lt b a = true <;> simp [h1, h2, Val.OrdOp.holds]

theorem applyCmp_le_float (a b : F64) (ha : a.isNaN = false) (hb : b.isNaN = false) :
    applyCmp .le (.float a) (.float b) = .ok (!F64.lt b a) := by
  simp only [applyCmp, Val.ordCmp, Val.num?, cmpNum_float a b ha hb]
  by_cases h1 : F64.lt a b = true
  · simp [h1, lt_asymm' ha hb h1, Val.OrdOp.holds]
  · by_cases h2 : F64.lt b a = true <;> simp [h1, h2, Val.OrdOp.holds]

theorem wrap_float (p : Nat) (x : F64) :
    FieldKind.wrap (.float p) (.float x) = .inl (.float (F64.roundN x p)) := rfl
theorem wrap_float_none (p : Nat) :
    FieldKind.wrap (.float p) .none = .inl (.float (F64.roundN F64.zero p)) := rfl

/-- whatever a money line stores is a double rounded to its places -/
theorem wrap_float_out (p : Nat) (v w : Val) (h : FieldKind.wrap (.float p) v = .inl w) :
    ∃ x, w = .float (F64.roundN x p) := by
  unfold FieldKind.wrap at h
  cases v with
  | none => simp [FieldKind.empty] at h; exact ⟨_, h.symm⟩
  | float x => simp at h; exact ⟨_, h.symm⟩
  | str s =>
    by_cases hb : (Val.pyStrip s).isEmpty = true
    · simp [hb, FieldKind.empty] at h; exact ⟨_, h.symm⟩
    · simp [hb] at h
  | bool b => simp at h
  | int i => simp at h
  | enumv e m => simp at h
  | tuple xs => simp at h
  | list xs => simp at h
  | dict ks vs => simp at h

end HabuVerif.Dsl
