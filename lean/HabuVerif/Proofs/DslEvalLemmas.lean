import HabuVerif.Proofs.DslRun
/-!
# Evaluation lemmas for the expression shapes the translated line programs are made of
-/
set_option autoImplicit false
set_option linter.unusedSimpArgs false
open HabuVerif HabuVerif.Dsl

namespace HabuVerif.Dsl
variable (vs : String → Option Val) (is : String → InpRes Val) (fs : String → Bool)

/-- lift of a pure result into outcomes -/
def liftOut {α : Type} : R α → POut α
  | .ok a => .pure a
  | .error e => .err e

@[simp] theorem runP_lift {α : Type} (r : R α) : runP vs is fs (Prog.lift r) = liftOut r := by
  cases r <;> rfl

/-- the fully qualified name a key denotes inside a line of `ctx` -/
def qual (ctx : Ctx) (k : String) : String :=
  if k.toList.contains '.' then k else formName ctx.form ctx.inst ++ "." ++ k

theorem qualify_str (ctx : Ctx) (k : String) : qualify ctx (.str k) = .ok (qual ctx k) := rfl

theorem runP_const (ctx : Ctx) (env : Env) (v : Val) :
    runP vs is fs (evalExpr ctx env (.const v)) = .pure v := by
  simp [evalExpr]

theorem runP_readV_lit (ctx : Ctx) (env : Env) (k : String) :
    runP vs is fs (evalExpr ctx env (.readV (.const (.str k)))) =
      match vs (qual ctx k) with
      | some v => .pure v
      | none => .needV (qual ctx k) := by
  simp only [evalExpr, runP_bind, runP_pure, POut.bind_pure, qualify_str, runP_lift, liftOut, runP]
  cases vs (qual ctx k) <;> rfl

theorem runP_readI_lit (ctx : Ctx) (env : Env) (k : String) :
    runP vs is fs (evalExpr ctx env (.readI (.const (.str k)))) =
      match is (qual ctx k) with
      | .ok v => .pure v
      | .noSpec => .needSpec (qual ctx k)
      | .missing => .needI (qual ctx k)
      | .invalid => .invalid (qual ctx k) := by
  simp only [evalExpr, runP_bind, runP_pure, POut.bind_pure, qualify_str, runP_lift, liftOut, runP]
  cases is (qual ctx k) <;> rfl

theorem runP_bin (ctx : Ctx) (env : Env) (op : BinOp) (a b : Expr) :
    runP vs is fs (evalExpr ctx env (.bin op a b)) =
      (runP vs is fs (evalExpr ctx env a)).bind fun x =>
        (runP vs is fs (evalExpr ctx env b)).bind fun y => liftOut (applyBin op x y) := by
  simp only [evalExpr, runP_bind, runP_lift]

theorem runP_cmp1 (ctx : Ctx) (env : Env) (op : CmpOp) (a b : Expr) :
    runP vs is fs (evalExpr ctx env (.cmp a [op] [b])) =
      (runP vs is fs (evalExpr ctx env a)).bind fun x =>
        (runP vs is fs (evalExpr ctx env b)).bind fun y =>
          (liftOut (applyCmp op x y)).bind fun c => .pure (.bool c) := by
  simp only [evalExpr, evalCmp, runP_bind, runP_lift]
  congr; funext x; congr; funext y; congr; funext c
  cases c <;> simp

theorem runP_ite (ctx : Ctx) (env : Env) (c a b : Expr) :
    runP vs is fs (evalExpr ctx env (.ite c a b)) =
      (runP vs is fs (evalExpr ctx env c)).bind fun x =>
        if x.truthy then runP vs is fs (evalExpr ctx env a) else runP vs is fs (evalExpr ctx env b) := by
  simp only [evalExpr, runP_bind]
  congr; funext x
  split <;> rfl

/-- a body that is a single `return e` -/
theorem runP_body_ret (ctx : Ctx) (d : LineDecl) (e : Expr) (h : d.body = [.ret e]) :
    runP vs is fs (evalBody ctx d) = runP vs is fs (evalExpr ctx d.defaults e) := by
  simp only [evalBody, h, execBlock, execStmt, runP_bind, runP_pure, POut.bind_pure, Flow.result]
  cases runP vs is fs (evalExpr ctx d.defaults e) <;> rfl

end HabuVerif.Dsl
