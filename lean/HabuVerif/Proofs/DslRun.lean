import HabuVerif.Dsl.Eval
/-!
# Running a DSL program against stores, compositionally

`runP` is `run` for the evaluator's `Prog` monad; `runP_bind` lets one evaluate a translated line
definition symbolically, statement by statement, against stores described by hypotheses.
-/
set_option autoImplicit false

namespace HabuVerif.Dsl
open HabuVerif

inductive POut (α : Type) where
  | pure (a : α)
  | needV (n : String)
  | needI (x : String)
  | needSpec (x : String)
  | notImpl
  | invalid (x : String)
  | noForm (f : String)
  | err (e : PyErr)

variable {α β : Type}

def runP (vs : String → Option Val) (is : String → InpRes Val) (fs : String → Bool) :
    Prog α → POut α
  | .pure a => .pure a
  | .notImpl => .notImpl
  | .err e => .err e
  | .readV n k => match vs n with
    | some v => runP vs is fs (k v)
    | none => .needV n
  | .readI x k => match is x with
    | .ok v => runP vs is fs (k v)
    | .noSpec => .needSpec x
    | .missing => .needI x
    | .invalid => .invalid x
  | .needForm f k => if fs f then runP vs is fs k else .noForm f

def POut.bind : POut α → (α → POut β) → POut β
  | .pure a, g => g a
  | .needV n, _ => .needV n
  | .needI x, _ => .needI x
  | .needSpec x, _ => .needSpec x
  | .notImpl, _ => .notImpl
  | .invalid x, _ => .invalid x
  | .noForm f, _ => .noForm f
  | .err e, _ => .err e

variable (vs : String → Option Val) (is : String → InpRes Val) (fs : String → Bool)

theorem runP_bind (p : Prog α) (g : α → Prog β) :
    runP vs is fs (p.bind g) = (runP vs is fs p).bind fun a => runP vs is fs (g a) := by
  induction p with
  | pure a => simp [Prog.bind, runP, POut.bind]
  | notImpl => simp [Prog.bind, runP, POut.bind]
  | err e => simp [Prog.bind, runP, POut.bind]
  | readV n k ih =>
    simp only [Prog.bind, runP]
    cases vs n with
    | none => simp [POut.bind]
    | some v => exact ih v
  | readI x k ih =>
    simp only [Prog.bind, runP]
    cases is x with
    | ok v => exact ih v
    | noSpec => simp [POut.bind]
    | missing => simp [POut.bind]
    | invalid => simp [POut.bind]
  | needForm f k ih =>
    simp only [Prog.bind, runP]
    cases fs f with
    | false => simp [POut.bind]
    | true => simpa using ih

/-- outcome of the line = outcome of the body pushed through the typed-field wrapper -/
def POut.toOut (w : Val → Sum Val Nat) : POut Val → Out String String String Val
  | .pure v => match w v with
    | .inl x => .val x
    | .inr c => .err c
  | .needV n => .needV n
  | .needI x => .needI x
  | .needSpec x => .needSpec x
  | .notImpl => .notImpl
  | .invalid x => .invalid x
  | .noForm f => .noForm f
  | .err e => .err e.code

theorem run_toTree_mapOut (p : Prog Val) (w : Val → Sum Val Nat) :
    run vs is fs (p.toTree.mapOut w) = (runP vs is fs p).toOut w := by
  induction p with
  | pure v =>
    simp only [Prog.toTree, Tree.mapOut, runP, POut.toOut]
    cases w v <;> simp [run]
  | notImpl => simp [Prog.toTree, Tree.mapOut, runP, POut.toOut, run]
  | err e => simp [Prog.toTree, Tree.mapOut, runP, POut.toOut, run]
  | readV n k ih =>
    simp only [Prog.toTree, Tree.mapOut, runP, run]
    cases vs n with
    | none => simp [POut.toOut]
    | some v => exact ih v
  | readI x k ih =>
    simp only [Prog.toTree, Tree.mapOut, runP, run]
    cases is x with
    | ok v => exact ih v
    | noSpec => simp [POut.toOut]
    | missing => simp [POut.toOut]
    | invalid => simp [POut.toOut]
  | needForm f k ih =>
    simp only [Prog.toTree, Tree.mapOut, runP, run]
    cases fs f with
    | false => simp [POut.toOut]
    | true => simpa using ih

/-- the outcome of a translated line on given stores -/
theorem run_evalLine (year : YearDecl) (c : ClassDecl) (inst : Option String) (d : LineDecl) :
    run vs is fs (evalLine year c inst d) =
      (runP vs is fs (evalBody { year := year, form := c.name, inst := inst, thresholds := c.thresholds } d)).toOut
        (FieldKind.wrap d.kind) := by
  unfold evalLine
  exact run_toTree_mapOut vs is fs _ _

@[simp] theorem runP_pure (a : α) : runP vs is fs (Prog.pure a : Prog α) = .pure a := rfl
@[simp] theorem runP_err (e : PyErr) : runP vs is fs (Prog.err e : Prog α) = .err e := rfl
@[simp] theorem runP_notImpl : runP vs is fs (Prog.notImpl : Prog α) = .notImpl := rfl
@[simp] theorem runP_lift_ok (a : α) : runP vs is fs (Prog.lift (.ok a : R α)) = .pure a := rfl
@[simp] theorem runP_lift_error (e : PyErr) : runP vs is fs (Prog.lift (.error e : R α)) = .err e := rfl
@[simp] theorem POut.bind_pure (a : α) (g : α → POut β) : (POut.pure a).bind g = g a := rfl

theorem runP_readV_some {n : String} {v : Val} (h : vs n = some v) :
    runP vs is fs (Prog.readV n Prog.pure) = .pure v := by simp [runP, h]
theorem runP_readV_none {n : String} (h : vs n = none) :
    runP vs is fs (Prog.readV n (Prog.pure : Val → Prog Val)) = .needV n := by simp [runP, h]
theorem runP_readI_ok {x : String} {v : Val} (h : is x = .ok v) :
    runP vs is fs (Prog.readI x Prog.pure) = .pure v := by simp [runP, h]

end HabuVerif.Dsl
