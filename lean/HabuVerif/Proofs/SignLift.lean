import HabuVerif.Proofs.SignSound2
import HabuVerif.Proofs.SolverTermination
import HabuVerif.Proofs.DslCatWF
/-!
# C15 sign analysis — the lift to solver states

`solved_lines_not_negative`: for a closed set `S` (`closedWith false y S = true`, the generated `sign_closed_<year>`),
if the texts of the initial input store and the prompt's answers parse to not-negative values, then in EVERY state the
solver returns (any schedule, solved or not) every stored value of a line of `S` is a not-negative number.

The invariant `LiftInv` (stored values of lines of `S` are not-negative numbers; stored input texts parse to
not-negative values) is threaded through the solver with `StepPres` / `solve_pres` (`Proofs/SolverPres.lean`) and
`attemptField_cases` (`Proofs/SolverTermination.lean`); the only step that stores a value stores
`run s.vf (s.inf C) s.ff (C.sem n)`, which `semBridge` identifies as the evaluation of a line of `S`, and
`closed_line_sound'` (`Proofs/SignSound2.lean`) finishes.
-/
set_option autoImplicit false
set_option linter.unusedVariables false
set_option linter.unusedSectionVars false

namespace HabuVerif.Sign
open HabuVerif HabuVerif.Dsl

abbrev DSt := St String String String Val String

/-- a catalogue name in the set denotes a line of a class of the year that is in the set (by `code`) -/
def SemBridge (y : YearDecl) (S : SSet) : Prop :=
  ∀ (n : String) (vs : String → Option Val) (is : String → InpRes Val) (fs : String → Bool) (x : Val),
    keyIn S n = true → run vs is fs ((mkCat y).sem n) = .val x →
    ∃ (c : ClassDecl) (l : LineDecl) (inst : Option String), c ∈ y.classes ∧ l ∈ c.lines ∧
      S.has (code (nats c.name)) (code (nats l.name)) = true ∧ (mkCat y).sem n = evalLine y c inst l

def LiftInv (y : YearDecl) (S : SSet) (s : DSt) : Prop :=
  (∀ n v, s.vf n = some v → keyIn S n = true → Val.NN v = true ∧ Val.isNum v = true) ∧
  (∀ x str v, s.inp.lookup x = some str → (mkCat y).parse x str = some v → Val.NN v = true)

variable {y : YearDecl} {S : SSet}

theorem liftInv_congr {s s' : DSt} (q : LiftInv y S s) (hv : s'.v = s.v) (hi : s'.inp = s.inp) :
    LiftInv y S s' := by
  refine ⟨fun n v h => q.1 n v ?_, fun x str v h => q.2 x str v ?_⟩
  · unfold St.vf at h ⊢; rw [← hv]; exact h
  · rw [← hi]; exact h

theorem inf_NN {s : DSt} (q : LiftInv y S s) (k : String) (v : Val) (h : s.inf (mkCat y) k = .ok v) :
    Val.NN v = true := by
  unfold St.inf at h
  split at h
  · cases hl : s.inp.lookup k with
    | none => rw [hl] at h; cases h
    | some str =>
      rw [hl] at h
      dsimp only at h
      cases hp : (mkCat y).parse k str with
      | none => rw [hp] at h; cases h
      | some w =>
        rw [hp] at h
        injection h with h
        subst h
        exact q.2 k str w hl hp
  · cases h

theorem demand_frame {C : Cat String String String Val String} {σ : Sched String String} {s s1 : DSt}
    {m : String} (h : demand C σ s m = .ok s1) : s1.v = s.v ∧ s1.inp = s.inp := by
  unfold demand at h
  split at h
  · cases h; exact ⟨rfl, rfl⟩
  · rename_i hms
    by_cases hm : m ∈ s.fmap
    · simp only [hm, if_true, hms, if_false] at h
      cases h; exact ⟨rfl, rfl⟩
    · simp only [hm, if_false] at h
      cases hf : C.formOfN m with
      | none => simp [hf] at h
      | some f =>
        simp only [hf] at h
        cases ha : addForm C σ s f false with
        | error e => simp [ha] at h
        | ok s2 =>
          simp only [ha] at h
          obtain ⟨_, hv, hi, _⟩ := addForm_ok ha
          split at h
          · split at h
            · cases h; exact ⟨hv, hi⟩
            · cases h; exact ⟨hv, hi⟩
          · cases h

theorem field_val (hB : SemBridge y S) (hS : closedWith false y S = true) {s : DSt} {n : String} {x : Val}
    (q : LiftInv y S s) (hx : s.attempt (mkCat y) n = .val x) (s' : DSt)
    (hv : s'.v = assocSet s.v n x) (hi : s'.inp = s.inp) : LiftInv y S s' := by
  refine ⟨fun n' v h hk => ?_, fun a str v h => q.2 a str v (by rw [← hi]; exact h)⟩
  unfold St.vf at h
  rw [hv, assocSet_lookup] at h
  by_cases hn : n' = n
  · subst hn
    simp only [if_true, Option.some.injEq] at h
    subst h
    unfold St.attempt at hx
    obtain ⟨c, l, inst, hcm, hl, hin, hsem⟩ := hB n' _ _ _ _ hk hx
    rw [hsem] at hx
    exact closed_line_sound' hS hcm hl hin inst s.vf (s.inf (mkCat y)) s.ff (inf_NN q) q.1 _ hx
  · simp only [hn, if_false] at h
    exact q.1 n' v h hk

theorem liftInv_stepPres (hB : SemBridge y S) (hS : closedWith false y S = true)
    {σ : Sched String String} (hσ : SchedOK σ) (P : Nat → String → List String → Option String)
    (hP : ∀ k x nb str v, P k x nb = some str → (mkCat y).parse x str = some v → Val.NN v = true) :
    StepPres (mkCat y) σ P (LiftInv y S) where
  congr := fun q hv hi _ _ _ _ => liftInv_congr q hv hi
  field := by
    intro L s s' n hinv q h
    refine attemptField_cases (mkCat_wf y) hσ (L := L) (n := n)
      (fun a b => LiftInv y S a → LiftInv y S b) ?_ ?_ ?_ ?_ ?_ specFuel s s' hinv h q
    · intro a x _ hx qa
      exact field_val hB hS qa hx _ rfl rfl
    · intro a a1 m _ _ hd qa
      obtain ⟨hv, hi⟩ := demand_frame hd
      exact liftInv_congr qa hv hi
    · intro a x _ _ qa
      exact liftInv_congr qa rfl rfl
    · intro a _ _ qa
      exact liftInv_congr qa rfl rfl
    · intro a a1 a' x f _ _ _ hadd _ _ hM qa
      obtain ⟨_, hv, hi, _⟩ := addForm_ok hadd
      exact hM (liftInv_congr qa hv hi)
  input := by
    intro L s s' x _ _ _ q h
    unfold attemptInput at h
    cases hud : s.ideps.unmetDependents x with
    | none => simp [hud] at h
    | some nb =>
      simp only [hud] at h
      cases hPx : P s.nprompts x nb with
      | none =>
        simp only [hPx] at h
        cases h
        exact liftInv_congr q rfl rfl
      | some str =>
        simp only [hPx] at h
        cases hp : (mkCat y).parse x str with
        | none => simp [hp] at h
        | some w =>
          simp only [hp] at h
          cases h
          refine ⟨q.1, fun a t v hl hpa => ?_⟩
          rw [assocSet_lookup] at hl
          by_cases ha : a = x
          · subst ha
            simp only [if_true, Option.some.injEq] at hl
            subst hl
            exact hP _ _ _ _ _ hPx hpa
          · simp only [ha, if_false] at hl
            exact q.2 a t v hl hpa

theorem addForms_frame {C : Cat String String String Val String} {σ : Sched String String} :
    ∀ (fs : List String) {s s' : DSt}, addForms C σ fs s = .ok s' → s'.v = s.v ∧ s'.inp = s.inp := by
  intro fs
  induction fs with
  | nil => intro s s' h; simp only [addForms] at h; cases h; exact ⟨rfl, rfl⟩
  | cons f fs ih =>
    intro s s' h
    simp only [addForms] at h
    cases ha : addForm C σ s f false with
    | error e => simp [ha] at h
    | ok s1 =>
      simp only [ha] at h
      obtain ⟨_, hv, hi, _⟩ := addForm_ok ha
      obtain ⟨hv', hi'⟩ := ih h
      exact ⟨hv'.trans hv, hi'.trans hi⟩

theorem addExtra_frame {σ : Sched String String} :
    ∀ (ns : List String) {s s' : DSt}, addExtra σ ns s = .ok s' → s'.v = s.v ∧ s'.inp = s.inp := by
  intro ns
  induction ns with
  | nil => intro s s' h; simp only [addExtra] at h; cases h; exact ⟨rfl, rfl⟩
  | cons n ns ih =>
    intro s s' h
    simp only [addExtra] at h
    split at h
    · obtain ⟨a, b⟩ := ih h
      exact ⟨a, b⟩
    · cases h

/-- **The lift, relative to the bridge between catalogue names and line declarations.** -/
theorem solved_lines_not_negative_partial (hB : SemBridge y S) (hS : closedWith false y S = true)
    {σ : Sched String String} (hσ : SchedOK σ)
    {Po : Option (Nat → String → List String → Option String)}
    {inp : List (String × String)} {forms : List String} {extra : List String} {fuel qfuel : Nat} {s : DSt}
    (hinp : ∀ x str v, inp.lookup x = some str → (mkCat y).parse x str = some v → Val.NN v = true)
    (hans : ∀ P, Po = some P → ∀ k x nb str v, P k x nb = some str → (mkCat y).parse x str = some v →
      Val.NN v = true)
    (h : solve (mkCat y) σ Po inp forms extra fuel qfuel = .ok (some s)) :
    ∀ n v, s.vf n = some v → keyIn S n = true → Val.NN v = true ∧ Val.isNum v = true := by
  obtain ⟨s1, s2, h1, h2, h3⟩ := solve_split h
  obtain ⟨hv1, hi1⟩ := addForms_frame forms h1
  obtain ⟨hv2, hi2⟩ := addExtra_frame extra h2
  have q0 : LiftInv y S (initSt inp Po.isSome : DSt) :=
    ⟨fun n v hh _ => by simp [St.vf, initSt] at hh, fun x str v hl hp => hinp x str v hl hp⟩
  have q2 : LiftInv y S s2 := liftInv_congr q0 (hv2.trans hv1) (hi2.trans hi1)
  have hP : ∀ k x nb str v, (Po.getD fun _ _ _ => none) k x nb = some str →
      (mkCat y).parse x str = some v → Val.NN v = true := by
    cases Po with
    | none => intro k x nb str v hh; simp at hh
    | some P => exact hans P rfl
  exact (solve_pres (mkCat_wf y) hσ (liftInv_stepPres hB hS hσ _ hP) h1 h2 h3 q2).1

/-! ## The bridge: a catalogue name that evaluates to a value IS a line of a class, and `keyIn` reads off its
class and line (`splitName` / `nameAndInstance` inverted: `class[:inst].line`, no dot in the form name or the line name,
no colon in the class name) -/

theorem go_ne_nil (c : Char) : ∀ (xs acc : List Char), splitOnChar.go c acc xs ≠ [] := by
  intro xs
  induction xs with
  | nil => intro acc; rw [splitOnChar.go]; simp
  | cons d ds ih =>
    intro acc
    rw [splitOnChar.go]
    split
    · simp
    · exact ih _

theorem contains_cons_ne {c d : Char} {ds : List Char} (hd : (d == c) = false) :
    (d :: ds).contains c = ds.contains c := by
  rw [List.contains_cons]
  have : (c == d) = false := by
    simp only [beq_eq_false_iff_ne, ne_eq] at hd ⊢
    exact fun e => hd e.symm
  rw [this, Bool.false_or]

theorem go_one (c : Char) : ∀ (xs acc b : List Char), splitOnChar.go c acc xs = [b] →
    b = acc.reverse ++ xs ∧ xs.contains c = false := by
  intro xs
  induction xs with
  | nil =>
    intro acc b h
    rw [splitOnChar.go] at h
    simp only [List.cons.injEq, and_true] at h
    exact ⟨by rw [← h]; simp, rfl⟩
  | cons d ds ih =>
    intro acc b h
    rw [splitOnChar.go] at h
    split at h
    · exfalso
      simp only [List.cons.injEq] at h
      exact go_ne_nil c ds [] h.2
    · rename_i hd
      have hd' : (d == c) = false := by simpa using hd
      obtain ⟨h1, h2⟩ := ih _ _ h
      exact ⟨by rw [h1]; simp, by rw [contains_cons_ne hd']; exact h2⟩

theorem go_two (c : Char) : ∀ (xs acc a b : List Char), splitOnChar.go c acc xs = [a, b] →
    ∃ p, xs = p ++ c :: b ∧ a = acc.reverse ++ p ∧ p.contains c = false ∧ b.contains c = false := by
  intro xs
  induction xs with
  | nil => intro acc a b h; rw [splitOnChar.go] at h; simp at h
  | cons d ds ih =>
    intro acc a b h
    rw [splitOnChar.go] at h
    split at h
    · rename_i hd
      have hdc : d = c := by simpa using hd
      simp only [List.cons.injEq] at h
      obtain ⟨h1, h2⟩ := h
      obtain ⟨e1, e2⟩ := go_one c ds [] b h2
      have e1' : b = ds := by rw [e1]; simp
      subst e1'
      refine ⟨[], ?_, by rw [← h1]; simp, rfl, e2⟩
      rw [hdc]; simp
    · rename_i hd
      have hd' : (d == c) = false := by simpa using hd
      obtain ⟨p, e1, e2, e3, e4⟩ := ih _ _ _ h
      refine ⟨d :: p, by rw [e1]; simp, by rw [e2]; simp, by rw [contains_cons_ne hd']; exact e3, e4⟩

theorem splitOn_one {c : Char} {s f : String} (h : splitOnChar c s = [f]) :
    f = s ∧ s.toList.contains c = false := by
  unfold splitOnChar at h
  cases hg : splitOnChar.go c [] s.toList with
  | nil => rw [hg] at h; simp at h
  | cons a t =>
    cases t with
    | cons b t2 => rw [hg] at h; simp at h
    | nil =>
      rw [hg] at h
      simp only [List.map_cons, List.map_nil, List.cons.injEq, and_true] at h
      obtain ⟨e1, e2⟩ := go_one c _ _ _ hg
      refine ⟨?_, e2⟩
      rw [← h, e1]; simp [String.ofList_toList]

theorem splitOn_two {c : Char} {s f k : String} (h : splitOnChar c s = [f, k]) :
    s.toList = f.toList ++ c :: k.toList ∧ f.toList.contains c = false ∧ k.toList.contains c = false := by
  unfold splitOnChar at h
  cases hg : splitOnChar.go c [] s.toList with
  | nil => rw [hg] at h; simp at h
  | cons a t =>
    cases t with
    | nil => rw [hg] at h; simp at h
    | cons b t2 =>
      cases t2 with
      | cons b2 t3 => rw [hg] at h; simp at h
      | nil =>
        rw [hg] at h
        simp only [List.map_cons, List.map_nil, List.cons.injEq, and_true] at h
        obtain ⟨h1, h2⟩ := h
        obtain ⟨p, e1, e2, e3, e4⟩ := go_two c _ _ _ _ hg
        simp only [List.reverse_nil, List.nil_append] at e2
        subst e2
        rw [← h1, ← h2]
        simp only [String.toList_ofList]
        exact ⟨e1, e3, e4⟩


theorem char_eq_colon (c : Char) : (':' == c) = (58 == c.toNat) := by
  by_cases h : c = ':'
  · subst h; rfl
  · have h1 : (':' == c) = false := by
      simp only [beq_eq_false_iff_ne, ne_eq]; exact fun h' => h h'.symm
    have h2 : (58 == c.toNat) = false := by
      simp only [beq_eq_false_iff_ne, ne_eq]
      intro h'
      apply h
      rw [← Char.ofNat_toNat c, ← h']
    rw [h1, h2]

theorem contains_colon_list (l : List Char) : l.contains ':' = (l.map Char.toNat).contains 58 := by
  induction l with
  | nil => rfl
  | cons c t ih => rw [List.map_cons, List.contains_cons, List.contains_cons, ih, char_eq_colon]

theorem nonstop_of {l : List Char} (h1 : l.contains ':' = false) (h2 : l.contains '.' = false) :
    (l.map Char.toNat).all (fun n => !isStop n) = true := by
  rw [contains_colon_list] at h1
  rw [contains_dot_list] at h2
  rw [List.all_eq_true]
  intro x hx
  cases hs : isStop x with
  | false => rfl
  | true =>
    exfalso
    unfold isStop at hs
    simp only [Bool.or_eq_true, beq_iff_eq] at hs
    rcases hs with e | e
    · subst e
      have : List.contains (l.map Char.toNat) 58 = true := List.contains_iff_mem.2 hx
      rw [this] at h1; cases h1
    · subst e
      have : List.contains (l.map Char.toNat) 46 = true := List.contains_iff_mem.2 hx
      rw [this] at h2; cases h2

theorem splitName_parts {n f k : String} (h : splitName n = some (f, k)) :
    n.toList = f.toList ++ '.' :: k.toList ∧ k.toList.contains '.' = false := by
  unfold splitName at h
  split at h
  · rename_i f' k' hs
    simp only [Option.some.injEq, Prod.mk.injEq] at h
    obtain ⟨rfl, rfl⟩ := h
    obtain ⟨a, _, c⟩ := splitOn_two hs
    exact ⟨a, c⟩
  · cases h

theorem nameAndInstance_parts {f cn : String} {inst : Option String} (h : nameAndInstance f = some (cn, inst)) :
    (cn = f ∧ f.toList.contains ':' = false) ∨
    (∃ i : String, f.toList = cn.toList ++ ':' :: i.toList ∧ cn.toList.contains ':' = false) := by
  unfold nameAndInstance at h
  split at h
  · rename_i c hs
    simp only [Option.some.injEq, Prod.mk.injEq] at h
    obtain ⟨rfl, _⟩ := h
    obtain ⟨a, b⟩ := splitOn_one hs
    exact Or.inl ⟨a, b⟩
  · rename_i c i hs
    simp only [Option.some.injEq, Prod.mk.injEq] at h
    obtain ⟨rfl, _⟩ := h
    obtain ⟨a, b, _⟩ := splitOn_two hs
    exact Or.inr ⟨i, a, b⟩
  · cases h

theorem resolveIn_parts {fm : List (String × ClassDecl × Bool)} {f : String} {c : ClassDecl}
    {inst : Option String} (h : resolveIn fm f = some (c, inst)) :
    ∃ cn ok, nameOk f = true ∧ nameAndInstance f = some (cn, inst) ∧ fm.lookup cn = some (c, ok) := by
  unfold resolveIn at h
  split at h
  · exact absurd h (by simp)
  · rename_i hf
    split at h
    · exact absurd h (by simp)
    · rename_i cn inst' hni
      split at h
      · exact absurd h (by simp)
      · rename_i c' ok hl
        split at h
        · simp only [Option.some.injEq, Prod.mk.injEq] at h
          obtain ⟨rfl, rfl⟩ := h
          exact ⟨cn, ok, by simpa using hf, hni, hl⟩
        · exact absurd h (by simp)

theorem formMap_lookup {y : YearDecl} {cn : String} {c : ClassDecl} {ok : Bool}
    (h : y.formMap.lookup cn = some (c, ok)) : c ∈ y.classes ∧ c.name = cn := by
  have hm := mem_of_lookup h
  unfold YearDecl.formMap at hm
  obtain ⟨c', hc', he⟩ := List.mem_map.1 hm
  simp only [Prod.mk.injEq] at he
  obtain ⟨e1, e2, _⟩ := he
  subst e2
  exact ⟨List.mem_reverse.1 hc', e1⟩

theorem nats_of_toList {s : String} {a b : List Char} {c : Char} (h : s.toList = a ++ c :: b) :
    nats s = a.map Char.toNat ++ c.toNat :: b.map Char.toNat := by
  unfold nats; rw [h, List.map_append, List.map_cons]

theorem semBridge (y : YearDecl) (S : SSet) : SemBridge y S := by
  intro n vs is fs x hk hrun
  simp only [mkCat, mkCatOf] at hrun ⊢
  cases hsn : splitName n with
  | none => simp only [hsn] at hrun; simp [run] at hrun
  | some fk =>
    obtain ⟨f, k⟩ := fk
    simp only [hsn] at hrun ⊢
    cases hres : resolveIn y.formMap f with
    | none => simp only [hres] at hrun; simp [run] at hrun
    | some ci =>
      obtain ⟨c, inst⟩ := ci
      simp only [hres] at hrun ⊢
      cases hfind : c.lines.find? (fun d => d.name == k) with
      | none => simp only [hfind] at hrun; simp [run] at hrun
      | some d =>
        simp only [hfind] at hrun ⊢
        obtain ⟨cn, ok, hfok, hni, hlk⟩ := resolveIn_parts hres
        obtain ⟨hcm, hcn⟩ := formMap_lookup hlk
        have hdm : d ∈ c.lines := List.mem_of_find?_eq_some hfind
        have hdn : d.name = k := by
          have := List.find?_some hfind
          simpa using this
        obtain ⟨hn, hkdot⟩ := splitName_parts hsn
        have hfdot : f.toList.contains '.' = false := (nameOk_iff f).1 hfok
        refine ⟨c, d, inst, hcm, hdm, ?_, rfl⟩
        unfold keyIn at hk
        have hnn := nats_of_toList hn
        have hk46 : (nats k).contains 46 = false := by
          unfold nats; rw [← contains_dot_list]; exact hkdot
        have hline : lineNats (nats n) = nats k := by
          rw [hnn]; exact lineNats_rel _ _ hk46
        have hcls : clsNats (nats n) = nats cn := by
          rcases nameAndInstance_parts hni with ⟨e, hcol⟩ | ⟨i, hf, hcol⟩
          · subst e
            rw [hnn]
            exact clsNats_rel _ _ 46 (nonstop_of hcol hfdot) (by decide)
          · have hcdot : cn.toList.contains '.' = false := by
              rw [hf, List.contains_append] at hfdot
              simp only [Bool.or_eq_false_iff] at hfdot
              exact hfdot.1
            have : nats n = nats cn ++ 58 :: (i.toList.map Char.toNat ++ 46 :: nats k) := by
              rw [hnn, hf]
              simp only [List.map_append, List.map_cons, List.append_assoc, List.cons_append]
              rfl
            rw [this]
            exact clsNats_rel _ _ 58 (nonstop_of hcol hcdot) (by decide)
        rw [hline, hcls] at hk
        rw [hcn, hdn]
        exact hk


/-- **In every state the solver returns** (any schedule, any prompt, solved or not), for a closed set `S`
(`closedWith false y S = true`: the generated `sign_closed_<year>`): if every text of the initial input store and every
answer of the prompt that parses, parses to a not-negative value (`Val.NN`), then every stored value of a line of `S`
is a not-negative number. -/
theorem solved_lines_not_negative {y : YearDecl} {S : SSet} (hS : closedWith false y S = true)
    {σ : Sched String String} (hσ : SchedOK σ)
    {Po : Option (Nat → String → List String → Option String)}
    {inp : List (String × String)} {forms : List String} {extra : List String} {fuel qfuel : Nat} {s : DSt}
    (hinp : ∀ x str v, inp.lookup x = some str → (mkCat y).parse x str = some v → Val.NN v = true)
    (hans : ∀ P, Po = some P → ∀ k x nb str v, P k x nb = some str → (mkCat y).parse x str = some v →
      Val.NN v = true)
    (h : solve (mkCat y) σ Po inp forms extra fuel qfuel = .ok (some s)) :
    ∀ n v, s.vf n = some v → keyIn S n = true → Val.NN v = true ∧ Val.isNum v = true :=
  solved_lines_not_negative_partial (semBridge y S) hS hσ hinp hans h

end HabuVerif.Sign

#print axioms HabuVerif.Sign.solved_lines_not_negative_partial
#print axioms HabuVerif.Sign.semBridge
#print axioms HabuVerif.Sign.solved_lines_not_negative
