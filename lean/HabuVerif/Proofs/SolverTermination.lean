import HabuVerif.Proofs.SolverPres
import HabuVerif.Proofs.Confluence
import HabuVerif.Proofs.SolverRefs
import HabuVerif.Core.Toy
import Mathlib.Algebra.BigOperators.Group.List.Lemmas
import Mathlib.Data.List.Perm.Subperm
import Mathlib.Data.List.Dedup
/-!
# C06 — termination and bounded work of the solver model

Everything is for an arbitrary catalogue `C` (`CatWF C`: any set of forms, ANY line semantics —
cyclic, self-referential, reading unknown names), an arbitrary schedule `σ` (`SchedOK σ`: the four
orderings are permutations), an arbitrary prompt (answering, refusing, absent), any input store and
any request.  Every theorem depends on no axioms beyond `propext`, `Classical.choice`, `Quot.sound`
(`#print axioms` at the end of the file).

## What is proved

Counting is done over the ghost log `St.log` (newest first).  For this file `Event` in
`Core/Solver.lean` was extended (the driver ignores the new events) with `.push n` (the line `n` is
appended to `_unattempted_fields`), `.waitV n m` / `.waitI n x` (`add_unmet(m, n)` /
`add_unmet(x, n)`), `.loadForm f inputOnly` (one `_add_form` that got past the constructor).
`attemptsOf n`, `pushesOf n`, `waitsOnLines n`, `waitsOnInputs n`, `specRetries n` are plain
`filterMap`s over the log (section 8); a `MissingInputSpecification` retry of `n` is recognised as
an `.attempt n` logged directly on top of the `.loadForm f true` it caused (`retryForms`).

1. `attempt_accounting` — in every returned state, for every line `n`, EXACTLY
   `attemptsOf n + (registrations of n still pending) =
      pushesOf n + |waitsOnLines n| + |waitsOnInputs n| + |specRetries n|`:
   every evaluation is a dequeue, the release of one registered wait, or a retry; every registered
   wait is released exactly once or is still pending.
   `wait_multiplicity` — `n` registers a wait on one and the same dependency at most `pushesOf n`
   times (a dependency, once met, stays met; while it is unmet every registration on it is still
   pending, and pending registrations of `n` are tokens of `n`, of which there are `≤ pushesOf n`).
   `attempt_bound` — hence
   `attemptsOf n ≤ pushesOf n · (1 + #distinct lines waited on + #distinct inputs waited on)
                    + |specRetries n|`, the retried forms are pairwise distinct, and
   `pushesOf n ≤ max 1 (extra.count n + loadPushes C n)`; `pushes_exact`: `n` is queued EITHER only
   by full form loads (once per occurrence in the required list of every loaded form,
   `loadPushes`; `loadPushes_le_formLoads`: with duplicate-free required lists that is the number of
   loads of `n`'s own form) and as a requested extra field, OR exactly once, by a demand, and then by
   nothing else.  `loads_distinct`: if the request names no form twice, no form is ever loaded in
   full twice.
   `attempt_bound_queued_once` — if `n` was queued once: it registers a wait on each line and
   each input at most once and `attemptsOf n ≤ 1 + #waits + #retries`.
   `queued_at_most_once`, `attempt_bound_additive` — C06 IN ITS OWN WORDING: if the requested forms
   are pairwise distinct, required lists are duplicate-free, and the extra fields are pairwise
   distinct and not required lines, then EVERY line is queued at most once, waits at most once for
   each line and each input, and is evaluated at most
   `1 + #distinct lines waited on + #distinct inputs waited on + #input specifications it loaded`
   times.
   History: the first version of this file was proved about solver.py as found, where `demand`
   enqueued a line even if the form load had just scheduled it; a required line of a form loaded
   on demand was then queued twice, registered every wait twice and was evaluated `2·(1 + #waits)`
   times by the real code (reproduced; fixed in /repo commit 49aa60d, the model follows the fix:
   `demand` enqueues exactly when the line is not being solved after the optional load).  The
   factor `pushesOf n` in `attempt_bound` remains for requests that name a form or a field twice.
2. `prompt_at_most_once` — every input has at most one answered prompt in the log, an answered
   input is present, at most one prompt is refused, and nothing is prompted after a refusal.
3. `solve_terminates` — if the request lives in a finite universe (`Universe C forms extra U UI`:
   lists closed under "required lines of requested / demanded forms" and "whatever a line of `U`
   can be blocked on, for all stores"; `Universe.ofOccurs` derives it from closure under
   `Tree.OccursV/OccursI`) and required lists have length `≤ R`, then with
   `B = attemptBound |U| |UI| |forms| |extra| R = (|U| + |extra| + R·(|forms| + |U|))·(1+|U|+|UI|) + |UI|`,
   `qfuel = B + 1`, `fuel = 2·B + |UI| + 3`: `solve … fuel qfuel ≠ .ok none`.
   `solve_fuel_mono` — a result other than "out of fuel" is the same for all larger fuels;
   `solve_terminates_any_fuel` combines the two.  (`Abort.specFuel` — more than 64 chained
   input-only loads inside ONE attempt — counts as an abort; `RetryI` shows each retry loads a new
   form, so it needs 64 distinct forms.)
   `TerminationExamples`: the hypotheses are discharged for a catalogue of `Toy.Prog` programs with
   a two-line cycle (`a.1 ↔ a.2`) and a self-referential line (`a.3`).

## Plan of the invariants (all threaded by `Thread`, section 4, alongside `Inv`)

For a selection `p : N → Bool` of lines (`eqb n` for one line, `allN` for all), an in-flight list
`L` (lines taken out of the queue / a tracker and about to be attempted) and a state `s`:

* `Acct.bal`    tokens: `#attempts + (#p in queue + #p in L + #pending registrations of p)
                 = #pushes + #registrations + #retries`
* `Acct.paired` `#registrations + #retries ≤ #attempts` (so tokens `≤ #pushes`: `Acct.tok_le`)
* `Acct.regV`   while `m` has no value, every registration of a `p`-line on `m` is still pending
* `Acct.regI`   the same for an absent input `x`
* `Acct.regV'/regI'` registrations on one dependency `≤ #pushes`
* `Acct.top` / `RetryI` no input-only load is on top of the log; retried forms are distinct and
                 their inputs are specified ever after
* `PushS`       `#pushes of n = #extra + loadPushes` and `n` is being solved once queued, OR `n` was
                 queued once by a demand and `#extra + loadPushes = 0`
* `LoadsI`      (request without repeated forms) the full loads are distinct = the loaded forms
* `PrI`         answered inputs are distinct and present; `refused = false → no refusal logged`;
                 no prompt above a refusal
* `InU`         (termination) the demanded set, every dependency waited on and every prompted
                 input lie in the universe; `#retries ≤ #{x ∈ UI specified}`,
                 `#pushes ≤ #{n ∈ U solving} + #extra + R·#loads`, `#loads ≤ #forms + #{n ∈ U solving}`
Termination: each `drainQueue` step evaluates a line, and the total number of evaluations is
`≤ B` in every reachable state (`total_attempts_le`), so `B + 1` steps suffice; each pass of the
outer loop increases `progress = 2·#evaluations + #prompts + [no met line pending]`
(`iteration_progress`), which is `≤ 2·B + |UI| + 2`.
-/
set_option autoImplicit false
set_option linter.unusedSectionVars false
set_option linter.unusedVariables false
set_option linter.unusedSimpArgs false

namespace HabuVerif
open Tracker

/-! ## 0. List facts -/
section lists
variable {α : Type}

theorem bnat_le_one (b : Bool) : (if b = true then 1 else 0 : Nat) ≤ 1 := by split <;> omega

/-- a list in which nothing occurs more than `k` times and whose members come from `U` -/
theorem length_le_mul_of_count_le [DecidableEq α] {l U : List α} {k : Nat}
    (hc : ∀ a, l.count a ≤ k) (hU : ∀ a ∈ l, a ∈ U) : l.length ≤ k * U.length := by
  have h1 : l.length ≤ k * l.dedup.length := by
    rw [← List.sum_map_count_dedup_eq_length l]
    have : ∀ (d : List α), (d.map fun x => l.count x).sum ≤ k * d.length := by
      intro d
      induction d with
      | nil => simp
      | cons a d ih =>
        simp only [List.map_cons, List.sum_cons, List.length_cons]
        have := hc a
        rw [Nat.mul_succ]; omega
    exact this _
  have h2 : l.dedup.length ≤ U.length :=
    ((List.nodup_dedup l).subperm (fun a ha => hU a (List.mem_dedup.mp ha))).length_le
  exact h1.trans (Nat.mul_le_mul_left k h2)

theorem length_le_mul_dedup [DecidableEq α] {l : List α} {k : Nat}
    (hc : ∀ a, l.count a ≤ k) : l.length ≤ k * l.dedup.length := by
  have := length_le_mul_of_count_le (U := l.dedup) hc (fun a ha => List.mem_dedup.mpr ha)
  exact this

theorem nodup_of_count_le_one [DecidableEq α] {l : List α} (h : ∀ a, l.count a ≤ 1) : l.Nodup :=
  List.nodup_iff_count_le_one.mpr h

/-- one more member of `l` satisfies `q` than `p` -/
theorem countP_succ_le {p q : α → Bool} {l : List α} {x : α}
    (hpq : ∀ a ∈ l, p a = true → q a = true) (hx : x ∈ l) (hp : p x = false) (hq : q x = true) :
    l.countP p + 1 ≤ l.countP q := by
  induction l with
  | nil => simp at hx
  | cons a l ih =>
    simp only [List.countP_cons]
    rcases List.mem_cons.mp hx with rfl | hx'
    · have hmono : l.countP p ≤ l.countP q :=
        List.countP_mono_left (fun a ha => hpq a (List.mem_cons_of_mem _ ha))
      rw [hp, hq]
      simp only [Bool.false_eq_true, if_false, if_true]
      omega
    · have := ih (fun a ha => hpq a (List.mem_cons_of_mem _ ha)) hx'
      have h1 : (if p a = true then 1 else 0 : Nat) ≤ (if q a = true then 1 else 0) := by
        by_cases hpa : p a = true
        · simp [hpa, hpq a List.mem_cons_self hpa]
        · rw [if_neg hpa]; exact Nat.zero_le _
      omega

theorem countP_dropLast_getLast {p : α → Bool} {l : List α} {a : α} (h : l.getLast? = some a) :
    l.countP p = l.dropLast.countP p + (if p a = true then 1 else 0) := by
  conv => lhs; rw [split_last h]
  simp [List.countP_append, List.countP_cons]

end lists

/-! ## 1. Counters over the ghost log

`p : N → Bool` selects the lines that are counted: `fun k => decide (k = n)` for one line,
`fun _ => true` for all lines. -/
section counters
variable {N I F S : Type} [DecidableEq N] [DecidableEq I] [DecidableEq F]

/-- the evaluations of selected lines, newest first -/
def attempted (p : N → Bool) (log : List (Event N I F S)) : List N :=
  log.filterMap fun e => match e with
    | .attempt n => if p n then some n else none
    | _ => none

/-- the selected lines put on the queue (`_unattempted_fields`), one entry per enqueue -/
def pushed (p : N → Bool) (log : List (Event N I F S)) : List N :=
  log.filterMap fun e => match e with
    | .push n => if p n then some n else none
    | _ => none

/-- the lines on which selected lines registered a wait, one entry per registration -/
def waitedV (p : N → Bool) (log : List (Event N I F S)) : List N :=
  log.filterMap fun e => match e with
    | .waitV n m => if p n then some m else none
    | _ => none

/-- the inputs on which selected lines registered a wait, one entry per registration -/
def waitedI (p : N → Bool) (log : List (Event N I F S)) : List I :=
  log.filterMap fun e => match e with
    | .waitI n x => if p n then some x else none
    | _ => none

/-- the forms loaded in full (`_add_form(f)`), one entry per load -/
def fullLoads (log : List (Event N I F S)) : List F :=
  log.filterMap fun e => match e with
    | .loadForm f false => some f
    | _ => none

/-- the inputs for which a prompt was answered -/
def answered (log : List (Event N I F S)) : List I :=
  log.filterMap fun e => match e with
    | .prompt x _ (some _) => some x
    | _ => none

def Event.isPrompt : Event N I F S → Bool
  | .prompt _ _ _ => true
  | _ => false

def Event.isRefusal : Event N I F S → Bool
  | .prompt _ _ none => true
  | _ => false

def prompts (log : List (Event N I F S)) : Nat := log.countP Event.isPrompt
def refusals (log : List (Event N I F S)) : Nat := log.countP Event.isRefusal

/-- `e` was logged directly on top of `rest`: it is the evaluation of a selected line that ended in
`MissingInputSpecification` exactly when it sits on the input-only load it caused -/
def retryMark (p : N → Bool) (e : Event N I F S) (rest : List (Event N I F S)) : List F :=
  match e, rest.head? with
  | .attempt k, some (.loadForm f true) => if p k then [f] else []
  | _, _ => []

/-- the forms whose inputs were loaded (`_add_input_spec`) because a selected line read an input
without specification, one entry per retry -/
def retryForms (p : N → Bool) : List (Event N I F S) → List F
  | [] => []
  | e :: rest => retryMark p e rest ++ retryForms p rest

/-- no input-only load is on top of the log (it is always covered by the retry's `.attempt`) -/
def NoLoadTop (log : List (Event N I F S)) : Prop := ∀ f, log.head? ≠ some (.loadForm f true)

variable (p : N → Bool)


@[simp] theorem attempted_nil : attempted p ([] : List (Event N I F S)) = [] := rfl
@[simp] theorem pushed_nil : pushed p ([] : List (Event N I F S)) = [] := rfl
@[simp] theorem waitedV_nil : waitedV p ([] : List (Event N I F S)) = [] := rfl
@[simp] theorem waitedI_nil : waitedI p ([] : List (Event N I F S)) = [] := rfl
@[simp] theorem fullLoads_nil : fullLoads ([] : List (Event N I F S)) = [] := rfl
@[simp] theorem answered_nil : answered ([] : List (Event N I F S)) = [] := rfl
@[simp] theorem prompts_nil : prompts ([] : List (Event N I F S)) = 0 := rfl
@[simp] theorem refusals_nil : refusals ([] : List (Event N I F S)) = 0 := rfl
@[simp] theorem retryForms_nil : retryForms p ([] : List (Event N I F S)) = [] := rfl

variable (l : List (Event N I F S))

-- attempt
@[simp] theorem attempted_attempt (n : N) :
    attempted p (.attempt n :: l) = if p n then n :: attempted p l else attempted p l := by
  by_cases hp : p n = true <;> simp [attempted, List.filterMap_cons, hp]
@[simp] theorem pushed_attempt (n : N) : pushed p (.attempt n :: l) = pushed p l := rfl
@[simp] theorem waitedV_attempt (n : N) : waitedV p (.attempt n :: l) = waitedV p l := rfl
@[simp] theorem waitedI_attempt (n : N) : waitedI p (.attempt n :: l) = waitedI p l := rfl
@[simp] theorem fullLoads_attempt (n : N) : fullLoads (.attempt n :: l) = fullLoads l := rfl
@[simp] theorem answered_attempt (n : N) : answered (.attempt n :: l) = answered l := rfl
@[simp] theorem prompts_attempt (n : N) : prompts (.attempt n :: l) = prompts l := by
  simp [prompts, List.countP_cons, Event.isPrompt]
@[simp] theorem refusals_attempt (n : N) : refusals (.attempt n :: l) = refusals l := by
  simp [refusals, List.countP_cons, Event.isRefusal]

-- push
@[simp] theorem attempted_push (n : N) : attempted p (.push n :: l) = attempted p l := rfl
@[simp] theorem pushed_push (n : N) :
    pushed p (.push n :: l) = if p n then n :: pushed p l else pushed p l := by
  by_cases hp : p n = true <;> simp [pushed, List.filterMap_cons, hp]
@[simp] theorem waitedV_push (n : N) : waitedV p (.push n :: l) = waitedV p l := rfl
@[simp] theorem waitedI_push (n : N) : waitedI p (.push n :: l) = waitedI p l := rfl
@[simp] theorem fullLoads_push (n : N) : fullLoads (.push n :: l) = fullLoads l := rfl
@[simp] theorem answered_push (n : N) : answered (.push n :: l) = answered l := rfl
@[simp] theorem prompts_push (n : N) : prompts (.push n :: l) = prompts l := by
  simp [prompts, List.countP_cons, Event.isPrompt]
@[simp] theorem refusals_push (n : N) : refusals (.push n :: l) = refusals l := by
  simp [refusals, List.countP_cons, Event.isRefusal]
@[simp] theorem retryForms_push (n : N) : retryForms p (.push n :: l) = retryForms p l := by
  simp [retryForms, retryMark]

-- waitV
@[simp] theorem attempted_waitV (n m : N) : attempted p (.waitV n m :: l) = attempted p l := rfl
@[simp] theorem pushed_waitV (n m : N) : pushed p (.waitV n m :: l) = pushed p l := rfl
@[simp] theorem waitedV_waitV (n m : N) :
    waitedV p (.waitV n m :: l) = if p n then m :: waitedV p l else waitedV p l := by
  by_cases hp : p n = true <;> simp [waitedV, List.filterMap_cons, hp]
@[simp] theorem waitedI_waitV (n m : N) : waitedI p (.waitV n m :: l) = waitedI p l := rfl
@[simp] theorem fullLoads_waitV (n m : N) : fullLoads (.waitV n m :: l) = fullLoads l := rfl
@[simp] theorem answered_waitV (n m : N) : answered (.waitV n m :: l) = answered l := rfl
@[simp] theorem prompts_waitV (n m : N) : prompts (.waitV n m :: l) = prompts l := by
  simp [prompts, List.countP_cons, Event.isPrompt]
@[simp] theorem refusals_waitV (n m : N) : refusals (.waitV n m :: l) = refusals l := by
  simp [refusals, List.countP_cons, Event.isRefusal]
@[simp] theorem retryForms_waitV (n m : N) : retryForms p (.waitV n m :: l) = retryForms p l := by
  simp [retryForms, retryMark]

-- waitI
@[simp] theorem attempted_waitI (n : N) (x : I) : attempted p (.waitI n x :: l) = attempted p l := rfl
@[simp] theorem pushed_waitI (n : N) (x : I) : pushed p (.waitI n x :: l) = pushed p l := rfl
@[simp] theorem waitedV_waitI (n : N) (x : I) : waitedV p (.waitI n x :: l) = waitedV p l := rfl
@[simp] theorem waitedI_waitI (n : N) (x : I) :
    waitedI p (.waitI n x :: l) = if p n then x :: waitedI p l else waitedI p l := by
  by_cases hp : p n = true <;> simp [waitedI, List.filterMap_cons, hp]
@[simp] theorem fullLoads_waitI (n : N) (x : I) : fullLoads (.waitI n x :: l) = fullLoads l := rfl
@[simp] theorem answered_waitI (n : N) (x : I) : answered (.waitI n x :: l) = answered l := rfl
@[simp] theorem prompts_waitI (n : N) (x : I) : prompts (.waitI n x :: l) = prompts l := by
  simp [prompts, List.countP_cons, Event.isPrompt]
@[simp] theorem refusals_waitI (n : N) (x : I) : refusals (.waitI n x :: l) = refusals l := by
  simp [refusals, List.countP_cons, Event.isRefusal]
@[simp] theorem retryForms_waitI (n : N) (x : I) : retryForms p (.waitI n x :: l) = retryForms p l := by
  simp [retryForms, retryMark]

-- loadForm
@[simp] theorem attempted_load (f : F) (b : Bool) : attempted p (.loadForm f b :: l) = attempted p l := rfl
@[simp] theorem pushed_load (f : F) (b : Bool) : pushed p (.loadForm f b :: l) = pushed p l := rfl
@[simp] theorem waitedV_load (f : F) (b : Bool) : waitedV p (.loadForm f b :: l) = waitedV p l := rfl
@[simp] theorem waitedI_load (f : F) (b : Bool) : waitedI p (.loadForm f b :: l) = waitedI p l := rfl
@[simp] theorem fullLoads_load_false (f : F) : fullLoads (.loadForm f false :: l) = f :: fullLoads l := rfl
@[simp] theorem fullLoads_load_true (f : F) : fullLoads (.loadForm f true :: l) = fullLoads l := rfl
@[simp] theorem answered_load (f : F) (b : Bool) : answered (.loadForm f b :: l) = answered l := rfl
@[simp] theorem prompts_load (f : F) (b : Bool) : prompts (.loadForm f b :: l) = prompts l := by
  simp [prompts, List.countP_cons, Event.isPrompt]
@[simp] theorem refusals_load (f : F) (b : Bool) : refusals (.loadForm f b :: l) = refusals l := by
  simp [refusals, List.countP_cons, Event.isRefusal]
@[simp] theorem retryForms_load (f : F) (b : Bool) : retryForms p (.loadForm f b :: l) = retryForms p l := by
  simp [retryForms, retryMark]

-- prompt
@[simp] theorem attempted_prompt (x : I) (nb : List N) (a : Option S) :
    attempted p (.prompt x nb a :: l) = attempted p l := rfl
@[simp] theorem pushed_prompt (x : I) (nb : List N) (a : Option S) :
    pushed p (.prompt x nb a :: l) = pushed p l := rfl
@[simp] theorem waitedV_prompt (x : I) (nb : List N) (a : Option S) :
    waitedV p (.prompt x nb a :: l) = waitedV p l := rfl
@[simp] theorem waitedI_prompt (x : I) (nb : List N) (a : Option S) :
    waitedI p (.prompt x nb a :: l) = waitedI p l := rfl
@[simp] theorem fullLoads_prompt (x : I) (nb : List N) (a : Option S) :
    fullLoads (.prompt x nb a :: l) = fullLoads l := rfl
@[simp] theorem answered_prompt_some (x : I) (nb : List N) (a : S) :
    answered (.prompt x nb (some a) :: l) = x :: answered l := rfl
@[simp] theorem answered_prompt_none (x : I) (nb : List N) :
    answered (.prompt x nb none :: l) = answered l := rfl
@[simp] theorem prompts_prompt (x : I) (nb : List N) (a : Option S) :
    prompts (.prompt x nb a :: l) = prompts l + 1 := by
  simp [prompts, List.countP_cons, Event.isPrompt]
@[simp] theorem refusals_prompt_some (x : I) (nb : List N) (a : S) :
    refusals (.prompt x nb (some a) :: l) = refusals l := by
  simp [refusals, List.countP_cons, Event.isRefusal]
@[simp] theorem refusals_prompt_none (x : I) (nb : List N) :
    refusals (.prompt x nb none :: l) = refusals l + 1 := by
  simp [refusals, List.countP_cons, Event.isRefusal]
@[simp] theorem retryForms_prompt (x : I) (nb : List N) (a : Option S) :
    retryForms p (.prompt x nb a :: l) = retryForms p l := by
  simp [retryForms, retryMark]

-- an evaluation on top of a log without an input-only load on top is no retry
theorem retryForms_attempt_of_top (n : N) (h : NoLoadTop l) :
    retryForms p (.attempt n :: l) = retryForms p l := by
  have : retryMark p (.attempt n) l = [] := by
    unfold retryMark
    cases hl : l.head? with
    | none => rfl
    | some e =>
      cases e with
      | loadForm f b =>
        cases b with
        | true => exact absurd hl (h f)
        | false => rfl
      | _ => rfl
  simp [retryForms, this]

-- … and on top of an input-only load it is one
theorem retryForms_attempt_load (n : N) (f : F) :
    retryForms p (.attempt n :: .loadForm f true :: l) =
      if p n then f :: retryForms p l else retryForms p l := by
  have h1 : retryMark p (.attempt n) (.loadForm f true :: l) = if p n then [f] else [] := rfl
  have h2 : retryMark p (.loadForm f true) l = [] := by simp [retryMark]
  simp only [retryForms, h1, h2, List.nil_append]
  split <;> simp

theorem noLoadTop_cons {e : Event N I F S} (h : ∀ f, e ≠ .loadForm f true) : NoLoadTop (e :: l) := by
  intro f hf
  simp only [List.head?_cons, Option.some.injEq] at hf
  exact h f hf

/-- a block of enqueues on top of the log -/
theorem pushed_map_push (ns : List N) :
    pushed p (ns.map Event.push ++ l) = ns.filter p ++ pushed p l := by
  induction ns with
  | nil => rfl
  | cons n ns ih =>
    simp only [List.map_cons, List.cons_append, pushed_push, ih, List.filter_cons]
    split <;> simp
theorem attempted_map_push (ns : List N) : attempted p (ns.map Event.push ++ l) = attempted p l := by
  induction ns with
  | nil => rfl
  | cons n ns ih => simpa using ih
theorem waitedV_map_push (ns : List N) : waitedV p (ns.map Event.push ++ l) = waitedV p l := by
  induction ns with
  | nil => rfl
  | cons n ns ih => simpa using ih
theorem waitedI_map_push (ns : List N) : waitedI p (ns.map Event.push ++ l) = waitedI p l := by
  induction ns with
  | nil => rfl
  | cons n ns ih => simpa using ih
theorem fullLoads_map_push (ns : List N) : fullLoads (ns.map Event.push ++ l) = fullLoads l := by
  induction ns with
  | nil => rfl
  | cons n ns ih => simpa using ih
theorem answered_map_push (ns : List N) : answered (ns.map Event.push ++ l) = answered l := by
  induction ns with
  | nil => rfl
  | cons n ns ih => simpa using ih
theorem prompts_map_push (ns : List N) : prompts (ns.map Event.push ++ l) = prompts l := by
  induction ns with
  | nil => rfl
  | cons n ns ih => simpa using ih
theorem refusals_map_push (ns : List N) : refusals (ns.map Event.push ++ l) = refusals l := by
  induction ns with
  | nil => rfl
  | cons n ns ih => simpa using ih
theorem retryForms_map_push (ns : List N) : retryForms p (ns.map Event.push ++ l) = retryForms p l := by
  induction ns with
  | nil => rfl
  | cons n ns ih => simpa using ih
theorem noLoadTop_map_push (ns : List N) (h : NoLoadTop l) : NoLoadTop (ns.map Event.push ++ l) := by
  cases ns with
  | nil => exact h
  | cons n ns => exact noLoadTop_cons _ (by intro f hf; cases hf)

end counters
end HabuVerif

namespace HabuVerif
open Tracker

variable {N I F V S : Type} [DecidableEq N] [DecidableEq I] [DecidableEq F]
variable {C : Cat N I F V S} {σ : Sched N I}

/-! ## 2. What each primitive step does (including to the ghost log) -/

theorem addForm_log {s s' : St N I F V S} {f : F} {b : Bool} (h : addForm C σ s f b = .ok s') :
    s'.log = (if b then [] else (C.required f).reverse.map Event.push) ++ .loadForm f b :: s.log := by
  unfold addForm at h
  cases hst : C.status f with
  | unsupported => simp [hst] at h
  | ctorError => simp [hst] at h
  | ok =>
    simp only [hst] at h
    cases b with
    | true => simp only [if_true] at h; cases h; rfl
    | false => simp only [Bool.false_eq_true, if_false] at h; cases h; rfl

/-- the ways `demand` succeeds: nothing to do; or an optional full load of `m`'s form followed by
an enqueue of `m` EXACTLY when the load has not already scheduled it -/
theorem demand_cases {s s1 : St N I F V S} {m : N} (h : demand C σ s m = .ok s1) :
    (m ∈ s.solving ∧ s1 = s) ∨
    (m ∉ s.solving ∧ ∃ t : St N I F V S,
      ((m ∈ s.fmap ∧ t = s) ∨
        (m ∉ s.fmap ∧ ∃ f, C.formOfN m = some f ∧ addForm C σ s f false = .ok t)) ∧
      m ∈ t.fmap ∧
      ((m ∈ t.solving ∧ s1 = t) ∨
       (m ∉ t.solving ∧
        s1 = { t with queue := σ.sortQ (t.queue ++ [m]), solving := t.solving ++ [m], log := .push m :: t.log }))) := by
  unfold demand at h
  split at h
  · rename_i hm; cases h; exact Or.inl ⟨hm, rfl⟩
  · rename_i hm
    refine Or.inr ⟨hm, ?_⟩
    have key : ∀ t : St N I F V S, m ∈ t.fmap →
        (if m ∈ t.solving then Except.ok t else
          (Except.ok { t with queue := σ.sortQ (t.queue ++ [m]), solving := t.solving ++ [m], log := .push m :: t.log } :
            Res N I F (St N I F V S))) = .ok s1 →
        ((m ∈ t.solving ∧ s1 = t) ∨
         (m ∉ t.solving ∧
          s1 = { t with queue := σ.sortQ (t.queue ++ [m]), solving := t.solving ++ [m], log := .push m :: t.log })) := by
      intro t _ ht
      split at ht
      · rename_i hmt; cases ht; exact Or.inl ⟨hmt, rfl⟩
      · rename_i hmt; cases ht; exact Or.inr ⟨hmt, rfl⟩
    split at h
    · rename_i hmf
      simp only [hmf, if_true] at h
      exact ⟨s, Or.inl ⟨hmf, rfl⟩, hmf, key s hmf h⟩
    · rename_i hmf
      cases hfo : C.formOfN m with
      | none => simp [hfo] at h
      | some f =>
        simp only [hfo] at h
        cases hadd : addForm C σ s f false with
        | error e => simp [hadd] at h
        | ok s0 =>
          simp only [hadd] at h
          split at h
          · rename_i hmf0
            exact ⟨s0, Or.inr ⟨hmf, f, rfl, hadd⟩, hmf0, key s0 hmf0 h⟩
          · simp at h

/-- a form that `demand` loads (successfully) was not loaded before -/
theorem demand_load_new {L : List N} {s t : St N I F V S} {m : N} {f : F} (hinv : Inv C L s)
    (hmf : m ∉ s.fmap) (hadd : addForm C σ s f false = .ok t) (hmt : m ∈ t.fmap) : f ∉ s.forms := by
  intro hf
  obtain ⟨_, _, _, _, _, _, _, _, _, hF⟩ := addForm_ok hadd
  obtain ⟨_, hfm, _, _⟩ := hF rfl
  rcases (hfm m).mp hmt with h | h
  · exact hmf h
  · exact hmf ((hinv.formsLoaded f hf).1 m h)

/-- **Case analysis of one `_attempt_field`**, with the invariant available in every case; the
`MissingInputSpecification` retry is the only recursive case. -/
theorem attemptField_cases (hC : CatWF C) (hσ : SchedOK σ) {L : List N} {n : N}
    (M : St N I F V S → St N I F V S → Prop)
    (val : ∀ (s : St N I F V S) (x : V), Inv C (n :: L) s → s.attempt C n = .val x →
      M s { s with v := assocSet s.v n x, fdeps := s.fdeps.meet n, log := .attempt n :: s.log })
    (needV : ∀ (s s1 : St N I F V S) (m : N), Inv C (n :: L) s → s.attempt C n = .needV m →
      demand C σ s m = .ok s1 →
      M s { s1 with fdeps := s1.fdeps.addUnmet m n, log := .waitV n m :: .attempt n :: s1.log })
    (needI : ∀ (s : St N I F V S) (x : I), Inv C (n :: L) s → s.attempt C n = .needI x →
      M s { s with ideps := s.ideps.addUnmet x n, log := .waitI n x :: .attempt n :: s.log })
    (notImpl : ∀ (s : St N I F V S), Inv C (n :: L) s → s.attempt C n = .notImpl →
      M s { s with unimpl := s.unimpl ++ [n], log := .attempt n :: s.log })
    (retry : ∀ (s s1 s' : St N I F V S) (x : I) (f : F), Inv C (n :: L) s →
      s.attempt C n = .needSpec x → C.formOfI x = some f → addForm C σ s f true = .ok s1 →
      x ∈ s1.specs → Inv C (n :: L) { s1 with log := .attempt n :: s1.log } →
      M { s1 with log := .attempt n :: s1.log } s' → M s s') :
    ∀ (fuel : Nat) (s s' : St N I F V S), Inv C (n :: L) s →
      attemptField C σ fuel s n = .ok s' → M s s' := by
  intro fuel
  induction fuel with
  | zero => intro s s' _ h; simp [attemptField] at h
  | succ fuel ih =>
    intro s s' hinv h
    simp only [attemptField] at h
    split at h
    · rename_i x hx; cases h; exact val s x hinv hx
    · rename_i m hm
      cases hd : demand C σ s m with
      | error e => simp [hd] at h
      | ok s1 => simp only [hd] at h; cases h; exact needV s s1 m hinv hm hd
    · rename_i x hx; cases h; exact needI s x hinv hx
    · rename_i x hx
      cases hfo : C.formOfI x with
      | none => simp [hfo] at h
      | some f =>
        simp only [hfo] at h
        cases hadd : addForm C σ s f true with
        | error e => simp [hadd] at h
        | ok s1 =>
          simp only [hadd] at h
          split at h
          · rename_i hxs
            have hinv1 : Inv C (n :: L) s1 := addForm_inv hC hσ hinv hadd
            have hinv1' : Inv C (n :: L) { s1 with log := Event.attempt n :: s1.log } :=
              hinv1.frame rfl rfl rfl rfl rfl (fun _ h => h) (fun _ h => h) (fun _ h => h)
                hinv1.part hinv1.qDem hinv1.solFmap hinv1.fmapForm hinv1.formsLoaded hinv1.specsForm
            exact retry s s1 s' x f hinv hx hfo hadd hxs hinv1' (ih _ _ hinv1' h)
          · simp at h
    · rename_i hx; cases h; exact notImpl s hinv hx
    · simp at h
    · simp at h
    · simp at h

/-- what `_attempt_input` does, as equations -/
theorem attemptInput_cases {P : Nat → I → List N → Option S} {s s' : St N I F V S} {x : I}
    (h : attemptInput C P s x = .ok s') :
    ∃ nb, s.ideps.unmetDependents x = some nb ∧
      ((P s.nprompts x nb = none ∧
          s' = { s with refused := true, nprompts := s.nprompts + 1,
                        log := .prompt x nb none :: s.log }) ∨
       (∃ str, P s.nprompts x nb = some str ∧
          s' = { s with inp := assocSet s.inp x str, ideps := s.ideps.meet x,
                        nprompts := s.nprompts + 1,
                        log := .prompt x nb (some str) :: s.log })) := by
  unfold attemptInput at h
  cases hud : s.ideps.unmetDependents x with
  | none => simp [hud] at h
  | some nb =>
    simp only [hud] at h
    refine ⟨nb, rfl, ?_⟩
    cases hP : P s.nprompts x nb with
    | none => simp only [hP] at h; cases h; exact Or.inl ⟨rfl, rfl⟩
    | some str =>
      simp only [hP] at h
      cases hp : C.parse x str with
      | none => simp [hp] at h
      | some pv => simp only [hp] at h; cases h; exact Or.inr ⟨str, rfl, rfl⟩

end HabuVerif

namespace HabuVerif
open Tracker

variable {N I F V S : Type} [DecidableEq N] [DecidableEq I] [DecidableEq F]
variable {C : Cat N I F V S} {σ : Sched N I}

/-! ## 3. The accounting invariant

Every evaluation of a line consumes one *token* (an entry of the queue, of the in-flight list `L`,
or a registered wait) and every token comes from an enqueue, a registration or a retry. -/

section helpers
variable {α : Type}
theorem len_ite_cons (c : Prop) [Decidable c] (a : α) (l : List α) :
    (if c then a :: l else l).length = l.length + (if c then 1 else 0) := by split <;> simp
theorem count_ite_cons [DecidableEq α] (c : Prop) [Decidable c] (a b : α) (l : List α) :
    (if c then a :: l else l).count b = l.count b + (if c ∧ a = b then 1 else 0) := by
  by_cases hc : c
  · by_cases hab : a = b
    · subst hab; simp [hc]
    · simp [hc, hab, List.count_cons_of_ne hab]
  · simp [hc]
end helpers

/-- registered waits of selected lines -/
def tokW {D : Type} (p : N → Bool) (t : Tracker D N) : Nat :=
  (pairs t.unmet).countP fun pr => p pr.2
/-- registered waits of selected lines on the dependency `d` -/
def tokWd {D : Type} [DecidableEq D] (p : N → Bool) (d : D) (t : Tracker D N) : Nat :=
  (pairs t.unmet).countP fun pr => decide (pr.1 = d) && p pr.2

theorem tokWd_le_tokW {D : Type} [DecidableEq D] (p : N → Bool) (d : D) (t : Tracker D N) :
    tokWd p d t ≤ tokW p t := by
  unfold tokWd tokW
  exact List.countP_mono_left (fun pr _ h => by simp only [Bool.and_eq_true] at h; exact h.2)

theorem tokW_addUnmet {D : Type} [DecidableEq D] (p : N → Bool) (t : Tracker D N) (hwf : WF t)
    (d : D) (w : N) : tokW p (t.addUnmet d w) = tokW p t + (if p w = true then 1 else 0) := by
  unfold tokW
  rw [(addUnmet_pairs t hwf d w).countP_eq, List.countP_cons]

theorem tokWd_addUnmet {D : Type} [DecidableEq D] (p : N → Bool) (t : Tracker D N) (hwf : WF t)
    (d d' : D) (w : N) :
    tokWd p d' (t.addUnmet d w) = tokWd p d' t + (if p w = true ∧ d = d' then 1 else 0) := by
  unfold tokWd
  rw [(addUnmet_pairs t hwf d w).countP_eq, List.countP_cons]
  congr 1
  by_cases hp : p w = true <;> by_cases hd : d = d' <;> simp [hp, hd]

theorem tokW_meet {D : Type} [DecidableEq D] (p : N → Bool) (t : Tracker D N) (d : D) :
    tokW p (t.meet d) = tokW p t := rfl
theorem tokWd_meet {D : Type} [DecidableEq D] (p : N → Bool) (t : Tracker D N) (d d' : D) :
    tokWd p d' (t.meet d) = tokWd p d' t := rfl

/-- draining hands out exactly the registered waits it removes -/
theorem tok_drainAll {D : Type} [DecidableEq D] (p : N → Bool) (t fd : Tracker D N) (hwf : WF t)
    (ws : List N) (h : t.drainAll = some (ws, fd)) :
    tokW p t = ws.countP p + tokW p fd ∧
    (∀ d, d ∉ t.met → tokWd p d t = tokWd p d fd) ∧ WF fd ∧
    (∀ d, d ∈ keys fd.unmet → d ∈ keys t.unmet) := by
  obtain ⟨ws', t', rel, h', hwf', hmet, hrel, hrelmet, hperm, hnone⟩ := drainAll_spec t hwf
  rw [h] at h'
  simp only [Option.some.injEq, Prod.mk.injEq] at h'
  obtain ⟨rfl, rfl⟩ := h'
  refine ⟨?_, ?_, hwf', ?_⟩
  · unfold tokW
    rw [hperm.countP_eq, List.countP_append, ← hrel, List.countP_map]
    rfl
  · intro d hd
    unfold tokWd
    rw [hperm.countP_eq, List.countP_append]
    have : rel.countP (fun pr => decide (pr.1 = d) && p pr.2) = 0 := by
      rw [List.countP_eq_zero]
      intro pr hpr
      have := hrelmet pr hpr
      simp only [Bool.and_eq_true, decide_eq_true_eq, not_and]
      intro e; subst e; exact absurd this hd
    omega
  · intro d hd
    obtain ⟨pr, hpr, rfl⟩ := List.mem_map.mp hd
    have hne := hwf'.nonempty pr hpr
    cases hws : pr.2 with
    | nil => exact absurd hws hne
    | cons w wl =>
      have : (pr.1, w) ∈ pairs fd.unmet :=
        mem_pairs.mpr ⟨pr.2, by simpa using hpr, by rw [hws]; simp⟩
      have : (pr.1, w) ∈ pairs t.unmet := by
        rw [hperm.mem_iff]; exact List.mem_append_right _ this
      exact keys_of_mem_pairs this

/-- tokens of selected lines: queue entries, in-flight entries, registered waits -/
def tokens (p : N → Bool) (L : List N) (s : St N I F V S) : Nat :=
  s.queue.countP p + L.countP p + tokW p s.fdeps + tokW p s.ideps

structure Acct (p : N → Bool) (L : List N) (s : St N I F V S) : Prop where
  /-- evaluations + outstanding tokens = enqueues + registrations + retries -/
  bal : (attempted p s.log).length + tokens p L s =
    (pushed p s.log).length + (waitedV p s.log).length + (waitedI p s.log).length +
      (retryForms p s.log).length
  /-- every registration / retry belongs to an evaluation -/
  paired : (waitedV p s.log).length + (waitedI p s.log).length + (retryForms p s.log).length ≤
    (attempted p s.log).length
  top : NoLoadTop s.log
  /-- while `m` has no value every registration on `m` is still pending -/
  regV : ∀ m, s.vf m = none → (waitedV p s.log).count m ≤ tokWd p m s.fdeps
  regI : ∀ x, s.inpf x = none → (waitedI p s.log).count x ≤ tokWd p x s.ideps
  regV' : ∀ m, (waitedV p s.log).count m ≤ (pushed p s.log).length
  regI' : ∀ x, (waitedI p s.log).count x ≤ (pushed p s.log).length

variable {p : N → Bool} {L : List N}

theorem Acct.tok_le {s : St N I F V S} (h : Acct p L s) : tokens p L s ≤ (pushed p s.log).length := by
  have := h.bal; have := h.paired; omega

theorem acct_init (inp : List (I × S)) (b : Bool) : Acct p [] (initSt inp b : St N I F V S) := by
  refine ⟨?_, ?_, ?_, ?_, ?_, ?_, ?_⟩ <;>
    simp [initSt, tokens, tokW, tokWd, pairs, NoLoadTop]

/-- the in-flight list only matters as a multiset -/
theorem Acct.relist {L' : List N} {s : St N I F V S} (h : Acct p L s) (hL : L'.Perm L) :
    Acct p L' s := by
  refine ⟨?_, h.paired, h.top, h.regV, h.regI, h.regV', h.regI'⟩
  have := h.bal
  unfold tokens at this ⊢
  rw [hL.countP_eq]; exact this

/-- an enqueue (`_add_unattempted` of one line) -/
theorem Acct.push (hσ : SchedOK σ) {s s' : St N I F V S} {m : N} (h : Acct p L s)
    (hq : s'.queue = σ.sortQ (s.queue ++ [m])) (hlog : s'.log = .push m :: s.log)
    (hv : s'.v = s.v) (hi : s'.inp = s.inp) (hfd : s'.fdeps = s.fdeps) (hid : s'.ideps = s.ideps) :
    Acct p L s' := by
  have hvf : s'.vf = s.vf := vf_congr hv
  have hif : s'.inpf = s.inpf := inpf_congr hi
  have hqc : s'.queue.countP p = s.queue.countP p + (if p m = true then 1 else 0) := by
    rw [hq, (hσ.q _).countP_eq, List.countP_append]; simp [List.countP_cons]
  refine ⟨?_, ?_, ?_, ?_, ?_, ?_, ?_⟩
  · have := h.bal
    unfold tokens at this ⊢
    rw [hlog, hfd, hid, hqc]
    simp only [attempted_push, pushed_push, waitedV_push, waitedI_push, retryForms_push, len_ite_cons]
    omega
  · rw [hlog]; simpa using h.paired
  · rw [hlog]; exact noLoadTop_cons _ (by intro f hf; cases hf)
  · intro k hk; rw [hlog, hfd]; rw [hvf] at hk; simpa using h.regV k hk
  · intro k hk; rw [hlog, hid]; rw [hif] at hk; simpa using h.regI k hk
  · intro k; rw [hlog]
    simp only [waitedV_push, pushed_push, len_ite_cons]
    have := h.regV' k; omega
  · intro k; rw [hlog]
    simp only [waitedI_push, pushed_push, len_ite_cons]
    have := h.regI' k; omega

/-- a full form load: its required lines are enqueued -/
theorem Acct.load (hσ : SchedOK σ) {s s' : St N I F V S} {f : F} (h : Acct p L s)
    (ha : addForm C σ s f false = .ok s') : Acct p L s' := by
  obtain ⟨_, hv, hi, hfd, hid, _, _, _, _, hF⟩ := addForm_ok ha
  obtain ⟨_, _, hq, _⟩ := hF rfl
  have hlog := addForm_log ha
  simp only [Bool.false_eq_true, if_false] at hlog
  have hvf : s'.vf = s.vf := vf_congr hv
  have hif : s'.inpf = s.inpf := inpf_congr hi
  have hqc : s'.queue.countP p = s.queue.countP p + (C.required f).countP p := by
    rw [hq, (hσ.q _).countP_eq, List.countP_append]
  have hpl : (pushed p s'.log).length = (pushed p s.log).length + (C.required f).countP p := by
    rw [hlog, pushed_map_push]
    simp only [pushed_load, List.length_append, List.filter_reverse, List.length_reverse,
      List.countP_eq_length_filter]
    omega
  refine ⟨?_, ?_, ?_, ?_, ?_, ?_, ?_⟩
  · have := h.bal
    unfold tokens at this ⊢
    rw [hpl, hfd, hid, hqc, hlog, attempted_map_push, waitedV_map_push, waitedI_map_push,
      retryForms_map_push]
    simp only [attempted_load, waitedV_load, waitedI_load, retryForms_load]
    omega
  · rw [hlog, attempted_map_push, waitedV_map_push, waitedI_map_push, retryForms_map_push]
    simpa using h.paired
  · rw [hlog]
    exact noLoadTop_map_push _ _ (noLoadTop_cons _ (by intro g hg; cases hg))
  · intro k hk; rw [hlog, waitedV_map_push, hfd]; rw [hvf] at hk; simpa using h.regV k hk
  · intro k hk; rw [hlog, waitedI_map_push, hid]; rw [hif] at hk; simpa using h.regI k hk
  · intro k; rw [hpl, hlog, waitedV_map_push]
    have := h.regV' k; simp only [waitedV_load]; omega
  · intro k; rw [hpl, hlog, waitedI_map_push]
    have := h.regI' k; simp only [waitedI_load]; omega

/-- a `MissingInputSpecification` retry: the evaluation is logged on top of the input-only load -/
theorem Acct.retry {s s1 : St N I F V S} {f : F} {n : N} (h : Acct p L s)
    (ha : addForm C σ s f true = .ok s1) : Acct p L { s1 with log := .attempt n :: s1.log } := by
  obtain ⟨_, hv, hi, hfd, hid, _, _, _, hT, _⟩ := addForm_ok ha
  obtain ⟨_, _, hq, _⟩ := hT rfl
  have hlog := addForm_log ha
  simp only [if_true, List.nil_append] at hlog
  have hvf : s1.vf = s.vf := vf_congr hv
  have hif : s1.inpf = s.inpf := inpf_congr hi
  refine ⟨?_, ?_, ?_, ?_, ?_, ?_, ?_⟩
  · have := h.bal
    unfold tokens at this ⊢
    show (attempted p (.attempt n :: s1.log)).length + (s1.queue.countP p + L.countP p +
      tokW p s1.fdeps + tokW p s1.ideps) = (pushed p (.attempt n :: s1.log)).length +
      (waitedV p (.attempt n :: s1.log)).length + (waitedI p (.attempt n :: s1.log)).length +
      (retryForms p (.attempt n :: s1.log)).length
    rw [hlog, retryForms_attempt_load, hq, hfd, hid]
    simp only [attempted_attempt, pushed_attempt, waitedV_attempt, waitedI_attempt, attempted_load,
      pushed_load, waitedV_load, waitedI_load, len_ite_cons]
    omega
  · show (waitedV p (.attempt n :: s1.log)).length + (waitedI p (.attempt n :: s1.log)).length +
      (retryForms p (.attempt n :: s1.log)).length ≤ (attempted p (.attempt n :: s1.log)).length
    rw [hlog, retryForms_attempt_load]
    simp only [attempted_attempt, waitedV_attempt, waitedI_attempt, attempted_load,
      waitedV_load, waitedI_load, len_ite_cons]
    have := h.paired; omega
  · exact noLoadTop_cons _ (by intro g hg; cases hg)
  · intro k hk
    show (waitedV p (.attempt n :: s1.log)).count k ≤ tokWd p k s1.fdeps
    rw [hlog, hfd]
    have hk' : s.vf k = none := by rw [← hvf]; exact hk
    simpa using h.regV k hk'
  · intro k hk
    show (waitedI p (.attempt n :: s1.log)).count k ≤ tokWd p k s1.ideps
    rw [hlog, hid]
    have hk' : s.inpf k = none := by rw [← hif]; exact hk
    simpa using h.regI k hk'
  · intro k
    show (waitedV p (.attempt n :: s1.log)).count k ≤ (pushed p (.attempt n :: s1.log)).length
    rw [hlog]; simpa using h.regV' k
  · intro k
    show (waitedI p (.attempt n :: s1.log)).count k ≤ (pushed p (.attempt n :: s1.log)).length
    rw [hlog]; simpa using h.regI' k

/-- an evaluation that ends the token: a value or "not implemented" -/
theorem Acct.done {s s' : St N I F V S} {n : N} (h : Acct p (n :: L) s)
    (hlog : s'.log = .attempt n :: s.log) (hq : s'.queue = s.queue)
    (hfd : s'.fdeps.unmet = s.fdeps.unmet) (hid : s'.ideps = s.ideps)
    (hvf : ∀ m, s'.vf m = none → s.vf m = none) (hi : s'.inp = s.inp) : Acct p L s' := by
  have hif : s'.inpf = s.inpf := inpf_congr hi
  have hrt : retryForms p (.attempt n :: s.log) = retryForms p s.log :=
    retryForms_attempt_of_top p _ n h.top
  have htw : tokW p s'.fdeps = tokW p s.fdeps := by unfold tokW; rw [hfd]
  have htwd : ∀ m, tokWd p m s'.fdeps = tokWd p m s.fdeps := by intro m; unfold tokWd; rw [hfd]
  refine ⟨?_, ?_, ?_, ?_, ?_, ?_, ?_⟩
  · have := h.bal
    unfold tokens at this ⊢
    rw [hlog, hrt, hq, htw, hid]
    simp only [List.countP_cons] at this
    simp only [attempted_attempt, pushed_attempt, waitedV_attempt, waitedI_attempt, len_ite_cons]
    omega
  · rw [hlog, hrt]
    simp only [attempted_attempt, waitedV_attempt, waitedI_attempt, len_ite_cons]
    have := h.paired; omega
  · rw [hlog]; exact noLoadTop_cons _ (by intro g hg; cases hg)
  · intro k hk; rw [hlog, htwd]; simpa using h.regV k (hvf k hk)
  · intro k hk; rw [hlog, hid]; rw [hif] at hk; simpa using h.regI k hk
  · intro k; rw [hlog]; simpa using h.regV' k
  · intro k; rw [hlog]; simpa using h.regI' k

/-- an evaluation that ends in a registered wait on the line `m` (which has no value) -/
theorem Acct.waitV {s s' : St N I F V S} {n m : N} (h : Acct p (n :: L) s) (hwf : WF s.fdeps)
    (hm : s.vf m = none)
    (hlog : s'.log = .waitV n m :: .attempt n :: s.log) (hq : s'.queue = s.queue)
    (hfd : s'.fdeps = s.fdeps.addUnmet m n) (hid : s'.ideps = s.ideps)
    (hv : s'.v = s.v) (hi : s'.inp = s.inp) : Acct p L s' := by
  have hvf : s'.vf = s.vf := vf_congr hv
  have hif : s'.inpf = s.inpf := inpf_congr hi
  have hrt : retryForms p (.attempt n :: s.log) = retryForms p s.log :=
    retryForms_attempt_of_top p _ n h.top
  have hbal : (attempted p s'.log).length + tokens p L s' =
      (pushed p s'.log).length + (waitedV p s'.log).length + (waitedI p s'.log).length +
        (retryForms p s'.log).length := by
    have := h.bal
    unfold tokens at this ⊢
    rw [hlog, hq, hfd, hid, tokW_addUnmet p _ hwf]
    simp only [List.countP_cons] at this
    simp only [attempted_waitV, pushed_waitV, waitedV_waitV, waitedI_waitV, retryForms_waitV, hrt,
      attempted_attempt, pushed_attempt, waitedV_attempt, waitedI_attempt, len_ite_cons]
    omega
  have hpaired : (waitedV p s'.log).length + (waitedI p s'.log).length +
      (retryForms p s'.log).length ≤ (attempted p s'.log).length := by
    rw [hlog]
    simp only [attempted_waitV, waitedV_waitV, waitedI_waitV, retryForms_waitV, hrt,
      attempted_attempt, waitedV_attempt, waitedI_attempt, len_ite_cons]
    have := h.paired; omega
  have htok : tokens p L s' ≤ (pushed p s'.log).length := by omega
  have hreg : ∀ k, s.vf k = none → (waitedV p s'.log).count k ≤ tokWd p k s'.fdeps := by
    intro k hk
    rw [hlog, hfd, tokWd_addUnmet p _ hwf]
    simp only [waitedV_waitV, waitedV_attempt, count_ite_cons]
    have := h.regV k hk; omega
  refine ⟨hbal, hpaired, ?_, ?_, ?_, ?_, ?_⟩
  · rw [hlog]; exact noLoadTop_cons _ (by intro g hg; cases hg)
  · intro k hk; rw [hvf] at hk; exact hreg k hk
  · intro k hk; rw [hlog, hid]; rw [hif] at hk; simpa using h.regI k hk
  · intro k
    by_cases hkm : p n = true ∧ m = k
    · obtain ⟨_, rfl⟩ := hkm
      have h1 := hreg m hm
      have h2 := tokWd_le_tokW p m s'.fdeps
      unfold tokens at htok
      omega
    · have hpl : (pushed p s'.log).length = (pushed p s.log).length := by rw [hlog]; simp
      rw [hpl, hlog]
      simp only [waitedV_waitV, waitedV_attempt, count_ite_cons, hkm, if_false, Nat.add_zero]
      exact h.regV' k
  · intro k; rw [hlog]; simpa using h.regI' k

/-- an evaluation that ends in a registered wait on the input `x` (which is absent) -/
theorem Acct.waitI {s s' : St N I F V S} {n : N} {x : I} (h : Acct p (n :: L) s) (hwf : WF s.ideps)
    (hx : s.inpf x = none)
    (hlog : s'.log = .waitI n x :: .attempt n :: s.log) (hq : s'.queue = s.queue)
    (hfd : s'.fdeps = s.fdeps) (hid : s'.ideps = s.ideps.addUnmet x n)
    (hv : s'.v = s.v) (hi : s'.inp = s.inp) : Acct p L s' := by
  have hvf : s'.vf = s.vf := vf_congr hv
  have hif : s'.inpf = s.inpf := inpf_congr hi
  have hrt : retryForms p (.attempt n :: s.log) = retryForms p s.log :=
    retryForms_attempt_of_top p _ n h.top
  have hbal : (attempted p s'.log).length + tokens p L s' =
      (pushed p s'.log).length + (waitedV p s'.log).length + (waitedI p s'.log).length +
        (retryForms p s'.log).length := by
    have := h.bal
    unfold tokens at this ⊢
    rw [hlog, hq, hfd, hid, tokW_addUnmet p _ hwf]
    simp only [List.countP_cons] at this
    simp only [attempted_waitI, pushed_waitI, waitedV_waitI, waitedI_waitI, retryForms_waitI, hrt,
      attempted_attempt, pushed_attempt, waitedV_attempt, waitedI_attempt, len_ite_cons]
    omega
  have hpaired : (waitedV p s'.log).length + (waitedI p s'.log).length +
      (retryForms p s'.log).length ≤ (attempted p s'.log).length := by
    rw [hlog]
    simp only [attempted_waitI, waitedV_waitI, waitedI_waitI, retryForms_waitI, hrt,
      attempted_attempt, waitedV_attempt, waitedI_attempt, len_ite_cons]
    have := h.paired; omega
  have htok : tokens p L s' ≤ (pushed p s'.log).length := by omega
  have hreg : ∀ k, s.inpf k = none → (waitedI p s'.log).count k ≤ tokWd p k s'.ideps := by
    intro k hk
    rw [hlog, hid, tokWd_addUnmet p _ hwf]
    simp only [waitedI_waitI, waitedI_attempt, count_ite_cons]
    have := h.regI k hk; omega
  refine ⟨hbal, hpaired, ?_, ?_, ?_, ?_, ?_⟩
  · rw [hlog]; exact noLoadTop_cons _ (by intro g hg; cases hg)
  · intro k hk; rw [hlog, hfd]; rw [hvf] at hk; simpa using h.regV k hk
  · intro k hk; rw [hif] at hk; exact hreg k hk
  · intro k; rw [hlog]; simpa using h.regV' k
  · intro k
    by_cases hkm : p n = true ∧ x = k
    · obtain ⟨_, rfl⟩ := hkm
      have h1 := hreg x hx
      have h2 := tokWd_le_tokW p x s'.ideps
      unfold tokens at htok
      omega
    · have hpl : (pushed p s'.log).length = (pushed p s.log).length := by rw [hlog]; simp
      rw [hpl, hlog]
      simp only [waitedI_waitI, waitedI_attempt, count_ite_cons, hkm, if_false, Nat.add_zero]
      exact h.regI' k

/-- `self._unattempted_fields.pop()` -/
theorem Acct.pop {s : St N I F V S} {n : N} (h : Acct p L s) (hl : s.queue.getLast? = some n) :
    Acct p (n :: L) { s with queue := s.queue.dropLast } := by
  refine ⟨?_, h.paired, h.top, h.regV, h.regI, h.regV', h.regI'⟩
  have := h.bal
  unfold tokens at this ⊢
  rw [countP_dropLast_getLast hl] at this
  simp only [List.countP_cons]
  omega

/-- `list(self._field_dependencies.met_dependents())` -/
theorem Acct.drainF {s : St N I F V S} {ws : List N} {fd : Tracker N N} (h : Acct p L s)
    (hinv : Inv C L s) (hd : s.fdeps.drainAll = some (ws, fd)) :
    Acct p (ws ++ L) { s with fdeps := fd } := by
  obtain ⟨h1, h2, _, _⟩ := tok_drainAll p s.fdeps fd hinv.fwf ws hd
  refine ⟨?_, h.paired, h.top, ?_, h.regI, h.regV', h.regI'⟩
  · have := h.bal
    unfold tokens at this ⊢
    simp only [List.countP_append]
    omega
  · intro m hm
    have hm : s.vf m = none := hm
    have hnm : m ∉ s.fdeps.met := fun hmem => hinv.fMet m hmem hm
    show (waitedV p s.log).count m ≤ tokWd p m fd
    rw [← h2 m hnm]; exact h.regV m hm

/-- `list(self._input_dependencies.met_dependents())` -/
theorem Acct.drainI {s : St N I F V S} {ws : List N} {idp : Tracker I N} (h : Acct p L s)
    (hinv : Inv C L s) (hd : s.ideps.drainAll = some (ws, idp)) :
    Acct p (ws ++ L) { s with ideps := idp } := by
  obtain ⟨h1, h2, _, _⟩ := tok_drainAll p s.ideps idp hinv.iwf ws hd
  refine ⟨?_, h.paired, h.top, h.regV, ?_, h.regV', h.regI'⟩
  · have := h.bal
    unfold tokens at this ⊢
    simp only [List.countP_append]
    omega
  · intro x hx
    have hx : s.inpf x = none := hx
    have hnm : x ∉ s.ideps.met := by
      intro hmem
      obtain ⟨v, hv⟩ := hinv.iMet x hmem
      have hxs : x ∈ s.specs := mem_specs_of_inf (by rw [hv]; simp)
      rw [inf_def, if_pos hxs, hx] at hv
      cases hv
    show (waitedI p s.log).count x ≤ tokWd p x idp
    rw [← h2 x hnm]; exact h.regI x hx

/-- a prompt (answered or refused) -/
theorem Acct.prompt {s s' : St N I F V S} {x : I} {nb : List N} {a : Option S} (h : Acct p L s)
    (hlog : s'.log = .prompt x nb a :: s.log) (hq : s'.queue = s.queue)
    (hfd : s'.fdeps = s.fdeps) (hid : s'.ideps.unmet = s.ideps.unmet) (hv : s'.v = s.v)
    (hi : ∀ y, s'.inpf y = none → s.inpf y = none) : Acct p L s' := by
  have hvf : s'.vf = s.vf := vf_congr hv
  have htw : tokW p s'.ideps = tokW p s.ideps := by unfold tokW; rw [hid]
  have htwd : ∀ m, tokWd p m s'.ideps = tokWd p m s.ideps := by intro m; unfold tokWd; rw [hid]
  refine ⟨?_, ?_, ?_, ?_, ?_, ?_, ?_⟩
  · have := h.bal
    unfold tokens at this ⊢
    rw [hlog, hq, hfd, htw]
    simpa using this
  · rw [hlog]; simpa using h.paired
  · rw [hlog]; exact noLoadTop_cons _ (by intro g hg; cases hg)
  · intro k hk; rw [hlog, hfd]; rw [hvf] at hk; simpa using h.regV k hk
  · intro k hk; rw [hlog, htwd]; simpa using h.regI k (hi k hk)
  · intro k; rw [hlog]; simpa using h.regV' k
  · intro k; rw [hlog]; simpa using h.regI' k

end HabuVerif

namespace HabuVerif
open Tracker

variable {N I F V S : Type} [DecidableEq N] [DecidableEq I] [DecidableEq F]
variable {C : Cat N I F V S} {σ : Sched N I}

/-! ## 4. Threading a predicate on (in-flight list, state) through the loops of `solve`

Unlike `StepPres` the predicate may talk about the queue, the trackers and the ghost log, and the
prompt step may assume that no refusal has happened yet. -/

structure Thread (C : Cat N I F V S) (σ : Sched N I) (P : Nat → I → List N → Option S)
    (Q : List N → St N I F V S → Prop) : Prop where
  relist : ∀ {L L' : List N} {s : St N I F V S}, L'.Perm L → Q L s → Q L' s
  pop : ∀ {L : List N} {s : St N I F V S} {n : N}, Inv C L s → Q L s →
    s.queue.getLast? = some n → Q (n :: L) { s with queue := s.queue.dropLast }
  field : ∀ {L : List N} {s s' : St N I F V S} {n : N}, Inv C (n :: L) s → Q (n :: L) s →
    attemptField C σ specFuel s n = .ok s' → Q L s'
  drainF : ∀ {L : List N} {s : St N I F V S} {ws : List N} {fd : Tracker N N}, Inv C L s → Q L s →
    s.fdeps.drainAll = some (ws, fd) → Q (ws ++ L) { s with fdeps := fd }
  drainI : ∀ {L : List N} {s : St N I F V S} {ws : List N} {idp : Tracker I N}, Inv C L s → Q L s →
    s.ideps.drainAll = some (ws, idp) → Q (ws ++ L) { s with ideps := idp }
  input : ∀ {L : List N} {s s' : St N I F V S} {x : I}, Inv C L s → s.refused = false →
    x ∉ s.ideps.met → x ∈ keys s.ideps.unmet → Q L s → attemptInput C P s x = .ok s' → Q L s'

variable {P : Nat → I → List N → Option S} {Q : List N → St N I F V S → Prop}

theorem attemptAll_thr (hC : CatWF C) (hσ : SchedOK σ) (hQ : Thread C σ P Q) :
    ∀ (ns : List N) {L : List N} {s s' : St N I F V S}, Inv C (ns ++ L) s → Q (ns ++ L) s →
      attemptAll C σ ns s = .ok s' → Q L s' := by
  intro ns
  induction ns with
  | nil => intro L s s' _ q h; simp only [attemptAll] at h; cases h; exact q
  | cons n ns ih =>
    intro L s s' hinv q h
    simp only [attemptAll] at h
    cases ha : attemptField C σ specFuel s n with
    | error e => simp [ha] at h
    | ok s1 =>
      simp only [ha] at h
      obtain ⟨hinv1, _⟩ := attemptField_inv hC hσ specFuel (L := ns ++ L) hinv ha
      exact ih hinv1 (hQ.field hinv q ha) h

theorem drainQueue_thr (hC : CatWF C) (hσ : SchedOK σ) (hQ : Thread C σ P Q) (fuel : Nat) :
    ∀ {L : List N} {s s' : St N I F V S}, Inv C L s → Q L s →
      drainQueue C σ fuel s = .ok (some s') → Q L s' := by
  induction fuel with
  | zero => intro L s s' _ _ h; simp [drainQueue] at h
  | succ fuel ih =>
    intro L s s' hinv q h
    simp only [drainQueue] at h
    cases hl : s.queue.getLast? with
    | none => simp only [hl] at h; cases h; exact q
    | some n =>
      simp only [hl] at h
      cases ha : attemptField C σ specFuel { s with queue := s.queue.dropLast } n with
      | error e => simp [ha] at h
      | ok s1 =>
        simp only [ha] at h
        obtain ⟨hinv1, _⟩ := attemptField_inv hC hσ specFuel (hinv.pop hl) ha
        exact ih hinv1 (hQ.field (hinv.pop hl) (hQ.pop hinv q hl) ha) h

theorem promptAll_thr (hQ : Thread C σ P Q) :
    ∀ (xs : List I) {L : List N} {s s' : St N I F V S}, Inv C L s → Q L s → s.refused = false →
      xs.Nodup → (∀ x, x ∈ xs → x ∉ s.ideps.met ∧ x ∈ keys s.ideps.unmet) →
      promptAll C P xs s = .ok s' → Q L s' := by
  intro xs
  induction xs with
  | nil => intro L s s' _ q _ _ _ h; simp only [promptAll] at h; cases h; exact q
  | cons x xs ih =>
    intro L s s' hinv q href0 hnd hxs h
    simp only [promptAll] at h
    cases ha : attemptInput C P s x with
    | error e => simp [ha] at h
    | ok s1 =>
      simp only [ha] at h
      obtain ⟨hx1, hx2⟩ := hxs x List.mem_cons_self
      obtain ⟨hinv1, post⟩ := attemptInput_inv hinv hx1 hx2 ha
      have q1 := hQ.input hinv href0 hx1 hx2 q ha
      split at h
      · cases h; exact q1
      · rename_i href
        rcases post.cases with ⟨c, _⟩ | ⟨_, hmet, _⟩
        · exact absurd c href
        · have hnd' := List.nodup_cons.mp hnd
          exact ih hinv1 q1 (by simpa using href) hnd'.2 (by
            intro y hy
            obtain ⟨a, b⟩ := hxs y (List.mem_cons_of_mem _ hy)
            refine ⟨?_, by rw [post.unmet]; exact b⟩
            rw [hmet, List.mem_append, List.mem_singleton]
            rintro (h' | rfl)
            · exact a h'
            · exact hnd'.1 hy) h

/-- the intermediate states of one pass through the body of the outer `while`, with the invariant
and the threaded predicate at each of them -/
theorem iteration_stages (hC : CatWF C) (hσ : SchedOK σ) (hQ : Thread C σ P Q)
    {qfuel : Nat} {s s' : St N I F V S} (hinv : Inv C [] s) (him : s.ideps.met = []) (q : Q [] s)
    (h : iteration C σ P qfuel s = .ok (some s')) :
    ∃ (s1 s2 s3 : St N I F V S) (ws ws' : List N) (fd : Tracker N N) (idp : Tracker I N),
      drainQueue C σ qfuel s = .ok (some s1) ∧ Inv C [] s1 ∧ Q [] s1 ∧
      s1.fdeps.drainAll = some (ws, fd) ∧ fd.met = [] ∧
      attemptAll C σ (σ.sortW ws) { s1 with fdeps := fd } = .ok s2 ∧ Inv C [] s2 ∧ Q [] s2 ∧
      s2.ideps.met = [] ∧
      (if s2.refused then Except.ok s2
        else promptAll C P (σ.sortI s2.ideps.unmetDependencies) s2) = .ok s3 ∧
      Inv C [] s3 ∧ Q [] s3 ∧
      s3.ideps.drainAll = some (ws', idp) ∧ idp.met = [] ∧
      attemptAll C σ (σ.sortR ws') { s3 with ideps := idp } = .ok s' ∧ Inv C [] s' ∧ Q [] s' ∧
      s'.ideps.met = [] := by
  unfold iteration at h
  cases hq : drainQueue C σ qfuel s with
  | error e => simp [hq] at h
  | ok o =>
    cases o with
    | none => simp [hq] at h
    | some s1 =>
      simp only [hq] at h
      obtain ⟨hinv1, hq1, post1⟩ := drainQueue_inv hC hσ qfuel hinv hq
      have q1 := drainQueue_thr hC hσ hQ qfuel hinv q hq
      obtain ⟨ws, fd, hd, hfdm, hinvd⟩ := hinv1.drainF
      simp only [hd] at h
      cases ha : attemptAll C σ (σ.sortW ws) { s1 with fdeps := fd } with
      | error e => simp [ha] at h
      | ok s2 =>
        simp only [ha] at h
        have hinvd' : Inv C (σ.sortW ws ++ []) { s1 with fdeps := fd } :=
          hinvd.relist (fun n => by simp [(hσ.w ws).mem_iff])
        obtain ⟨hinv2, post2⟩ := attemptAll_inv hC hσ _ hinvd' ha
        have qd : Q (σ.sortW ws ++ []) { s1 with fdeps := fd } :=
          hQ.relist (by simpa using hσ.w ws) (hQ.drainF hinv1 q1 hd)
        have q2 := attemptAll_thr hC hσ hQ _ hinvd' qd ha
        have him2 : s2.ideps.met = [] := by
          rw [post2.imet]; show s1.ideps.met = []; rw [post1.imet]; exact him
        have hprompt : ∀ s3, (if s2.refused then Except.ok s2
            else promptAll C P (σ.sortI s2.ideps.unmetDependencies) s2) = Except.ok s3 →
            Inv C [] s3 ∧ Q [] s3 := by
          intro s3 h3
          split at h3
          · cases h3; exact ⟨hinv2, q2⟩
          · rename_i href
            have hnd : (σ.sortI s2.ideps.unmetDependencies).Nodup :=
              (hσ.i _).nodup_iff.mpr hinv2.iwf.nodup
            have hside : ∀ x, x ∈ σ.sortI s2.ideps.unmetDependencies →
                x ∉ s2.ideps.met ∧ x ∈ keys s2.ideps.unmet := by
              intro x hx
              rw [(hσ.i _).mem_iff] at hx
              exact ⟨by rw [him2]; simp, hx⟩
            exact ⟨(promptAll_inv _ hinv2 hnd hside h3).1,
              promptAll_thr hQ _ hinv2 q2 (by simpa using href) hnd hside h3⟩
        cases hp : (if s2.refused then Except.ok s2
            else promptAll C P (σ.sortI s2.ideps.unmetDependencies) s2) with
        | error e => simp [hp] at h
        | ok s3 =>
          simp only [hp] at h
          obtain ⟨hinv3, q3⟩ := hprompt s3 hp
          obtain ⟨ws', idp, hd', hidm, hinvd3⟩ := hinv3.drainI
          simp only [hd'] at h
          cases ha' : attemptAll C σ (σ.sortR ws') { s3 with ideps := idp } with
          | error e => simp [ha'] at h
          | ok s4 =>
            simp only [ha'] at h
            cases h
            have hinvd3' : Inv C (σ.sortR ws' ++ []) { s3 with ideps := idp } :=
              hinvd3.relist (fun n => by simp [(hσ.r ws').mem_iff])
            have qd3 : Q (σ.sortR ws' ++ []) { s3 with ideps := idp } :=
              hQ.relist (by simpa using hσ.r ws') (hQ.drainI hinv3 q3 hd')
            obtain ⟨hinv4, post4⟩ := attemptAll_inv hC hσ _ hinvd3' ha'
            exact ⟨s1, s2, s3, ws, ws', fd, idp, rfl, hinv1, q1, hd, hfdm, ha, hinv2, q2, him2, hp,
              hinv3, q3, hd', hidm, ha', hinv4, attemptAll_thr hC hσ hQ _ hinvd3' qd3 ha',
              by rw [post4.imet]; exact hidm⟩

theorem iteration_thr (hC : CatWF C) (hσ : SchedOK σ) (hQ : Thread C σ P Q)
    {qfuel : Nat} {s s' : St N I F V S} (hinv : Inv C [] s) (him : s.ideps.met = []) (q : Q [] s)
    (h : iteration C σ P qfuel s = .ok (some s')) : Inv C [] s' ∧ s'.ideps.met = [] ∧ Q [] s' := by
  obtain ⟨s1, s2, s3, ws, ws', fd, idp, _, _, _, _, _, _, _, _, _, _, _, _, _, _, _, a, b, c⟩ :=
    iteration_stages hC hσ hQ hinv him q h
  exact ⟨a, c, b⟩

theorem solveLoop_thr (hC : CatWF C) (hσ : SchedOK σ) (hQ : Thread C σ P Q)
    {qfuel : Nat} (fuel : Nat) :
    ∀ {s s' : St N I F V S}, Inv C [] s → s.ideps.met = [] → Q [] s →
      solveLoop C σ P qfuel fuel s = .ok (some s') → Q [] s' := by
  induction fuel with
  | zero => intro s s' _ _ _ h; simp [solveLoop] at h
  | succ fuel ih =>
    intro s s' hinv him q h
    simp only [solveLoop] at h
    split at h
    · cases hi : iteration C σ P qfuel s with
      | error e => simp [hi] at h
      | ok o =>
        cases o with
        | none => simp [hi] at h
        | some s1 =>
          simp only [hi] at h
          obtain ⟨a, b, c⟩ := iteration_thr hC hσ hQ hinv him q hi
          exact ih a b c h
    · cases h; exact q

end HabuVerif

namespace HabuVerif
open Tracker

variable {N I F V S : Type} [DecidableEq N] [DecidableEq I] [DecidableEq F]
variable {C : Cat N I F V S} {σ : Sched N I}

/-! ## 5. One `_attempt_field` and the accounting; prompts; retries -/

/-- all lines -/
def allN : N → Bool := fun _ => true
/-- the line `n` only -/
def eqb (n : N) : N → Bool := fun k => decide (k = n)

theorem prompts_append (a b : List (Event N I F S)) : prompts (a ++ b) = prompts a + prompts b := by
  simp [prompts, List.countP_append]
theorem refusals_append (a b : List (Event N I F S)) : refusals (a ++ b) = refusals a + refusals b := by
  simp [refusals, List.countP_append]
theorem answered_append (a b : List (Event N I F S)) : answered (a ++ b) = answered a ++ answered b := by
  simp [answered, List.filterMap_append]
theorem attempted_append (p : N → Bool) (a b : List (Event N I F S)) :
    attempted p (a ++ b) = attempted p a ++ attempted p b := by
  simp [attempted, List.filterMap_append]

theorem no_prompt_of_prompts_zero {l : List (Event N I F S)} (h : prompts l = 0) :
    ∀ e ∈ l, e.isPrompt = false := by
  intro e he
  have := (List.countP_eq_zero.mp h) e he
  simpa using this

theorem answered_nil_of_prompts_zero {l : List (Event N I F S)} (h : prompts l = 0) : answered l = [] := by
  induction l with
  | nil => rfl
  | cons e l ih =>
    have he := no_prompt_of_prompts_zero h e List.mem_cons_self
    have hl : prompts l = 0 := by
      have : prompts (e :: l) = prompts [e] + prompts l := prompts_append [e] l
      omega
    cases e with
    | prompt x nb a => simp [Event.isPrompt] at he
    | attempt n => simpa using ih hl
    | loadForm f b => simpa using ih hl
    | push n => simpa using ih hl
    | waitV n m => simpa using ih hl
    | waitI n x => simpa using ih hl

theorem refusals_le_prompts (l : List (Event N I F S)) : refusals l ≤ prompts l := by
  unfold refusals prompts
  apply List.countP_mono_left
  intro e _ he
  cases e with
  | prompt x nb a => rfl
  | _ => simp [Event.isRefusal] at he

/-- what `demand` appends to the log: enqueues and at most one full load, no prompt -/
theorem demand_log {s s1 : St N I F V S} {m : N} (hd : demand C σ s m = .ok s1) :
    ∃ pre1, s1.log = pre1 ++ s.log ∧ prompts pre1 = 0 := by
  rcases demand_cases hd with ⟨_, rfl⟩ | ⟨_, t, ht, _, hs1⟩
  · exact ⟨[], rfl, rfl⟩
  · have kt : ∃ pre0, t.log = pre0 ++ s.log ∧ prompts pre0 = 0 := by
      rcases ht with ⟨_, rfl⟩ | ⟨_, f, _, hadd⟩
      · exact ⟨[], rfl, rfl⟩
      · have hl : t.log = _ := addForm_log hadd
        simp only [Bool.false_eq_true, if_false] at hl
        refine ⟨List.map Event.push (C.required f).reverse ++ [Event.loadForm f false], ?_, ?_⟩
        · rw [hl]; simp
        · rw [prompts_map_push]; simp
    obtain ⟨pre0, k1, k2⟩ := kt
    rcases hs1 with ⟨_, rfl⟩ | ⟨_, rfl⟩
    · exact ⟨pre0, k1, k2⟩
    · exact ⟨.push m :: pre0, by show Event.push m :: t.log = _; rw [k1]; rfl, by simpa using k2⟩

/-- **what one `_attempt_field` appends to the log**: no prompt, at least one evaluation -/
theorem attemptField_log (hC : CatWF C) (hσ : SchedOK σ) {L : List N} {n : N} (fuel : Nat)
    {s s' : St N I F V S} (hinv : Inv C (n :: L) s) (h : attemptField C σ fuel s n = .ok s') :
    ∃ pre, s'.log = pre ++ s.log ∧ prompts pre = 0 ∧ 1 ≤ (attempted allN pre).length := by
  refine attemptField_cases hC hσ (L := L)
    (fun s s' => ∃ pre, s'.log = pre ++ s.log ∧ prompts pre = 0 ∧ 1 ≤ (attempted allN pre).length)
    ?_ ?_ ?_ ?_ ?_ fuel s s' hinv h
  · intro s x _ _
    exact ⟨[.attempt n], rfl, by simp, by simp [allN]⟩
  · intro s s1 m _ _ hd
    obtain ⟨pre1, h1, h2⟩ := demand_log hd
    refine ⟨.waitV n m :: .attempt n :: pre1, ?_, by simpa using h2, by simp [allN]⟩
    show Event.waitV n m :: Event.attempt n :: s1.log = _
    rw [h1]; rfl
  · intro s x _ _
    exact ⟨[.waitI n x, .attempt n], rfl, by simp, by simp [allN]⟩
  · intro s _ _
    exact ⟨[.attempt n], rfl, by simp, by simp [allN]⟩
  · intro s s1 s' x f _ _ _ hadd _ _ ih
    obtain ⟨pre, h1, h2, h3⟩ := ih
    have hl := addForm_log hadd
    simp only [if_true, List.nil_append] at hl
    refine ⟨pre ++ [.attempt n, .loadForm f true], ?_, ?_, ?_⟩
    · rw [h1]; show pre ++ (Event.attempt n :: s1.log) = _; rw [hl]; simp
    · rw [prompts_append, h2]; simp
    · rw [attempted_append, List.length_append]; omega

/-- `demand` (an optional full load, an optional enqueue) preserves the accounting -/
theorem Acct.demand (hσ : SchedOK σ) {p : N → Bool} {L : List N} {s s1 : St N I F V S} {m : N}
    (ha : Acct p L s) (hd : demand C σ s m = .ok s1) : Acct p L s1 := by
  rcases demand_cases hd with ⟨_, rfl⟩ | ⟨_, t, ht, _, hs1⟩
  · exact ha
  · have hat : Acct p L t := by
      rcases ht with ⟨_, rfl⟩ | ⟨_, f, _, hadd⟩
      · exact ha
      · exact ha.load hσ hadd
    rcases hs1 with ⟨_, rfl⟩ | ⟨_, rfl⟩
    · exact hat
    · exact hat.push hσ rfl rfl rfl rfl rfl rfl

/-- one `_attempt_field` preserves the accounting -/
theorem Acct.field (hC : CatWF C) (hσ : SchedOK σ) {p : N → Bool} {L : List N} {n : N} (fuel : Nat)
    {s s' : St N I F V S} (hinv : Inv C (n :: L) s) (hacct : Acct p (n :: L) s)
    (h : attemptField C σ fuel s n = .ok s') : Acct p L s' := by
  refine attemptField_cases hC hσ (L := L) (fun s s' => Acct p (n :: L) s → Acct p L s')
    ?_ ?_ ?_ ?_ ?_ fuel s s' hinv h hacct
  · intro s x hinv hx ha
    refine ha.done rfl rfl rfl rfl ?_ rfl
    intro m hm
    have : (assocSet s.v n x).lookup m = none := hm
    rw [assocSet_lookup] at this
    split at this
    · cases this
    · exact this
  · intro s s1 m hinv hm hd ha
    have hvm : s.vf m = none := run_needV_absent _ _ _ _ _ hm
    obtain ⟨hinv1, post⟩ := demand_inv hC hσ hinv hd
    have hvm1 : s1.vf m = none := by rw [vf_congr post.v]; exact hvm
    exact (ha.demand hσ hd).waitV hinv1.fwf hvm1 rfl rfl rfl rfl rfl rfl
  · intro s x hinv hx ha
    have hmiss : s.inf C x = .missing := run_needI_missing _ _ _ _ _ hx
    exact ha.waitI hinv.iwf (inpf_none_of_missing hmiss).1 rfl rfl rfl rfl rfl rfl
  · intro s hinv hx ha
    exact ha.done rfl rfl rfl rfl (fun _ h => h) rfl
  · intro s s1 s' x f hinv hx hfo hadd hxs hinv1 ih ha
    exact ih (ha.retry hadd)

/-! ### prompts -/

/-- what the log says about prompting -/
structure PrI (s : St N I F V S) : Prop where
  nodup : (answered s.log).Nodup
  present : ∀ x ∈ answered s.log, s.inpf x ≠ none
  ref0 : s.refused = false → refusals s.log = 0
  ref1 : refusals s.log ≤ 1
  order : ∀ pre e post, s.log = pre ++ e :: post → e.isRefusal = true → prompts pre = 0

theorem prI_init (inp : List (I × S)) (b : Bool) : PrI (initSt inp b : St N I F V S) := by
  refine ⟨by simp [initSt], by simp [initSt], by simp [initSt], by simp [initSt], ?_⟩
  intro pre e post h
  simp [initSt] at h

/-- steps that log no prompt and leave `refused` and the present inputs alone -/
theorem PrI.extend {s s' : St N I F V S} (h : PrI s) (pre0 : List (Event N I F S))
    (hlog : s'.log = pre0 ++ s.log) (hp : prompts pre0 = 0) (href : s'.refused = s.refused)
    (hi : ∀ x, s.inpf x ≠ none → s'.inpf x ≠ none) : PrI s' := by
  have ha : answered s'.log = answered s.log := by
    rw [hlog, answered_append, answered_nil_of_prompts_zero hp]; rfl
  have hr : refusals s'.log = refusals s.log := by
    rw [hlog, refusals_append]
    have := refusals_le_prompts pre0
    omega
  refine ⟨by rw [ha]; exact h.nodup, ?_, ?_, by rw [hr]; exact h.ref1, ?_⟩
  · intro x hx; rw [ha] at hx; exact hi x (h.present x hx)
  · intro hf; rw [hr]; exact h.ref0 (by rw [← href]; exact hf)
  · intro pre e post hdec he
    rw [hlog] at hdec
    rcases List.append_eq_append_iff.mp hdec with ⟨a', rfl, h2⟩ | ⟨c', rfl, h2⟩
    · rw [prompts_append, hp, h.order a' e post h2 he]
    · cases c' with
      | nil =>
        simp only [List.nil_append] at h2
        have := h.order [] e post h2.symm he
        simpa using hp
      | cons e' c'' =>
        simp only [List.cons_append, List.cons.injEq] at h2
        obtain ⟨rfl, _⟩ := h2
        have := no_prompt_of_prompts_zero hp e (by simp)
        cases e with
        | prompt x nb a => simp [Event.isPrompt] at this
        | _ => simp [Event.isRefusal] at he

theorem PrI.field (hC : CatWF C) (hσ : SchedOK σ) {L : List N} {n : N} {s s' : St N I F V S}
    (hinv : Inv C (n :: L) s) (h : PrI s) (ha : attemptField C σ specFuel s n = .ok s') : PrI s' := by
  obtain ⟨pre, h1, h2, _⟩ := attemptField_log hC hσ specFuel hinv ha
  obtain ⟨_, _, hi, _, hr⟩ := attemptField_inv hC hσ specFuel hinv ha
  exact h.extend pre h1 h2 hr (by intro x hx; rw [inpf_congr hi]; exact hx)

theorem mem_refusal_pos {l : List (Event N I F S)} {e : Event N I F S} (he : e ∈ l)
    (hr : e.isRefusal = true) : 1 ≤ refusals l := by
  unfold refusals
  exact List.countP_pos_iff.mpr ⟨e, he, hr⟩

theorem PrI.input {P : Nat → I → List N → Option S} {L : List N} {s s' : St N I F V S} {x : I}
    (hinv : Inv C L s) (href : s.refused = false) (hxm : x ∉ s.ideps.met)
    (hxk : x ∈ keys s.ideps.unmet) (h : PrI s) (ha : attemptInput C P s x = .ok s') : PrI s' := by
  have hr0 := h.ref0 href
  have horder : ∀ (e0 : Event N I F S), ∀ pre e post, e0 :: s.log = pre ++ e :: post →
      e.isRefusal = true → prompts pre = 0 := by
    intro e0 pre e post hdec he
    cases pre with
    | nil => rfl
    | cons e1 pre' =>
      simp only [List.cons_append, List.cons.injEq] at hdec
      have : e ∈ s.log := by rw [hdec.2]; simp
      have := mem_refusal_pos this he
      omega
  obtain ⟨_, post⟩ := attemptInput_inv hinv hxm hxk ha
  obtain ⟨nb, _, hc⟩ := attemptInput_cases ha
  rcases hc with ⟨_, rfl⟩ | ⟨str, _, rfl⟩
  · refine ⟨by simpa using h.nodup, ?_, ?_, ?_, ?_⟩
    · intro y hy; exact h.present y (by simpa using hy)
    · intro hf; simp at hf
    · show refusals (.prompt x nb none :: s.log) ≤ 1
      simp only [refusals_prompt_none]; omega
    · intro pre e post hdec he; exact horder _ pre e post hdec he
  · have hxnone : s.inpf x = none := by
      rcases post.cases with ⟨c, _⟩ | ⟨_, _, _, _, _, _, _, hn⟩
      · simp [href] at c
      · exact hn
    have hinpf : ∀ (t : St N I F V S), t.inp = assocSet s.inp x str → ∀ y, t.inpf y =
        if y = x then some str else s.inpf y := by
      intro t ht y; unfold St.inpf; rw [ht]; exact assocSet_lookup _ _ _ _
    refine ⟨?_, ?_, ?_, ?_, ?_⟩
    · show (answered (.prompt x nb (some str) :: s.log)).Nodup
      simp only [answered_prompt_some, List.nodup_cons]
      exact ⟨fun hx => h.present x hx hxnone, h.nodup⟩
    · intro y hy
      have hy' : y ∈ x :: answered s.log := hy
      rw [hinpf _ rfl]
      split
      · simp
      · rename_i hne
        rcases List.mem_cons.mp hy' with rfl | hy'
        · exact absurd rfl hne
        · exact h.present y hy'
    · intro _
      show refusals (.prompt x nb (some str) :: s.log) = 0
      simpa using hr0
    · show refusals (.prompt x nb (some str) :: s.log) ≤ 1
      simp only [refusals_prompt_some]; omega
    · intro pre e post hdec he; exact horder _ pre e post hdec he

theorem prI_thread (hC : CatWF C) (hσ : SchedOK σ) (P : Nat → I → List N → Option S) :
    Thread C σ P (fun _ s => PrI s) where
  relist := fun _ h => h
  pop := fun _ h _ => h.extend [] rfl rfl rfl (fun _ hx => hx)
  field := fun hinv h ha => h.field hC hσ hinv ha
  drainF := fun _ h _ => h.extend [] rfl rfl rfl (fun _ hx => hx)
  drainI := fun _ h _ => h.extend [] rfl rfl rfl (fun _ hx => hx)
  input := fun hinv href hxm hxk h ha => h.input hinv href hxm hxk ha

/-! ### `MissingInputSpecification` retries load each form's inputs at most once -/

structure RetryI (C : Cat N I F V S) (p : N → Bool) (s : St N I F V S) : Prop where
  top : NoLoadTop s.log
  nodup : (retryForms p s.log).Nodup
  loaded : ∀ f ∈ retryForms p s.log, ∀ x ∈ C.inputs f, x ∈ s.specs

variable {p : N → Bool}

theorem retryI_init (inp : List (I × S)) (b : Bool) : RetryI C p (initSt inp b : St N I F V S) := by
  refine ⟨by simp [initSt, NoLoadTop], by simp [initSt], by simp [initSt]⟩

/-- steps that put no evaluation directly on an input-only load -/
theorem RetryI.extend {s s' : St N I F V S} (h : RetryI C p s)
    (htop : NoLoadTop s'.log) (hrf : retryForms p s'.log = retryForms p s.log)
    (hsp : ∀ x, x ∈ s.specs → x ∈ s'.specs) : RetryI C p s' :=
  ⟨htop, by rw [hrf]; exact h.nodup, fun f hf x hx => hsp x (h.loaded f (by rw [← hrf]; exact hf) x hx)⟩

theorem RetryI.field (hC : CatWF C) (hσ : SchedOK σ) {L : List N} {n : N} (fuel : Nat)
    {s s' : St N I F V S} (hinv : Inv C (n :: L) s) (hr : RetryI C p s)
    (h : attemptField C σ fuel s n = .ok s') : RetryI C p s' := by
  refine attemptField_cases hC hσ (L := L) (fun s s' => RetryI C p s → RetryI C p s')
    ?_ ?_ ?_ ?_ ?_ fuel s s' hinv h hr
  · intro s x _ _ hr
    exact hr.extend (noLoadTop_cons _ (by intro g hg; cases hg))
      (retryForms_attempt_of_top p _ n hr.top) (fun _ h => h)
  · intro s s1 m _ _ hd hr
    have key : NoLoadTop s1.log ∧ retryForms p s1.log = retryForms p s.log := by
      rcases demand_cases hd with ⟨_, rfl⟩ | ⟨_, t, ht, _, hs1⟩
      · exact ⟨hr.top, rfl⟩
      · have kt : NoLoadTop t.log ∧ retryForms p t.log = retryForms p s.log := by
          rcases ht with ⟨_, rfl⟩ | ⟨_, f, _, hadd⟩
          · exact ⟨hr.top, rfl⟩
          · have hl := addForm_log hadd
            simp only [Bool.false_eq_true, if_false] at hl
            rw [hl]
            refine ⟨noLoadTop_map_push _ _ (noLoadTop_cons _ (by intro g hg; cases hg)), ?_⟩
            rw [retryForms_map_push]; simp
        rcases hs1 with ⟨_, rfl⟩ | ⟨_, rfl⟩
        · exact kt
        · refine ⟨noLoadTop_cons _ (by intro g hg; cases hg), ?_⟩
          show retryForms p (.push m :: t.log) = _
          rw [retryForms_push, kt.2]
    have hsp := (demand_grow hd).specs
    refine hr.extend (noLoadTop_cons _ (by intro g hg; cases hg)) ?_ hsp
    show retryForms p (.waitV n m :: .attempt n :: s1.log) = _
    rw [retryForms_waitV, retryForms_attempt_of_top p _ n key.1, key.2]
  · intro s x _ _ hr
    refine hr.extend (noLoadTop_cons _ (by intro g hg; cases hg)) ?_ (fun _ h => h)
    show retryForms p (.waitI n x :: .attempt n :: s.log) = _
    rw [retryForms_waitI, retryForms_attempt_of_top p _ n hr.top]
  · intro s _ _ hr
    exact hr.extend (noLoadTop_cons _ (by intro g hg; cases hg))
      (retryForms_attempt_of_top p _ n hr.top) (fun _ h => h)
  · intro s s1 s' x f hinv hx hfo hadd hxs hinv1 ih hr
    apply ih
    obtain ⟨_, _, _, _, _, _, _, hspecs, _, _⟩ := addForm_ok hadd
    have hl := addForm_log hadd
    simp only [if_true, List.nil_append] at hl
    have hxn : x ∉ s.specs := by
      have h1 : s.inf C x = .noSpec := run_needSpec_noSpec _ _ _ _ _ hx
      intro hmem
      simp only [St.inf, hmem, if_true] at h1
      cases hl' : s.inp.lookup x with
      | none => simp [hl'] at h1
      | some str => cases hp : C.parse x str <;> simp [hl', hp] at h1
    have hfnew : f ∉ retryForms p s.log := by
      intro hf
      rcases (hspecs x).mp hxs with h1 | h1
      · exact hxn h1
      · exact hxn (hr.loaded f hf x h1)
    have hrf : retryForms p (.attempt n :: s1.log) =
        if p n then f :: retryForms p s.log else retryForms p s.log := by
      rw [hl, retryForms_attempt_load]
    refine ⟨noLoadTop_cons _ (by intro g hg; cases hg), ?_, ?_⟩
    · show (retryForms p (.attempt n :: s1.log)).Nodup
      rw [hrf]
      split
      · exact List.nodup_cons.mpr ⟨hfnew, hr.nodup⟩
      · exact hr.nodup
    · intro g hg y hy
      have hg' : g ∈ retryForms p (.attempt n :: s1.log) := hg
      rw [hrf] at hg'
      show y ∈ s1.specs
      have hold : g ∈ retryForms p s.log → y ∈ s1.specs :=
        fun hg'' => (hspecs y).mpr (Or.inl (hr.loaded g hg'' y hy))
      split at hg'
      · rcases List.mem_cons.mp hg' with rfl | hg''
        · exact (hspecs y).mpr (Or.inr hy)
        · exact hold hg''
      · exact hold hg'

theorem retryI_thread (hC : CatWF C) (hσ : SchedOK σ) (P : Nat → I → List N → Option S) :
    Thread C σ P (fun _ s => RetryI C p s) where
  relist := fun _ h => h
  pop := fun _ h _ => h.extend h.top rfl (fun _ hx => hx)
  field := fun hinv h ha => h.field hC hσ specFuel hinv ha
  drainF := fun _ h _ => h.extend h.top rfl (fun _ hx => hx)
  drainI := fun _ h _ => h.extend h.top rfl (fun _ hx => hx)
  input := by
    intro L s s' x hinv href hxm hxk h ha
    obtain ⟨nb, _, hc⟩ := attemptInput_cases ha
    rcases hc with ⟨_, rfl⟩ | ⟨str, _, rfl⟩
    · exact h.extend (noLoadTop_cons _ (by intro g hg; cases hg)) (by simp) (fun _ hx => hx)
    · exact h.extend (noLoadTop_cons _ (by intro g hg; cases hg)) (by simp) (fun _ hx => hx)

theorem acct_thread (hC : CatWF C) (hσ : SchedOK σ) (P : Nat → I → List N → Option S) :
    Thread C σ P (fun L s => Acct p L s) where
  relist := fun hp h => h.relist hp
  pop := fun _ h hl => h.pop hl
  field := fun hinv h ha => h.field hC hσ specFuel hinv ha
  drainF := fun hinv h hd => h.drainF hinv hd
  drainI := fun hinv h hd => h.drainI hinv hd
  input := by
    intro L s s' x hinv href hxm hxk h ha
    obtain ⟨nb, _, hc⟩ := attemptInput_cases ha
    rcases hc with ⟨_, rfl⟩ | ⟨str, _, rfl⟩
    · exact h.prompt rfl rfl rfl rfl rfl (fun _ hy => hy)
    · refine h.prompt rfl rfl rfl rfl rfl ?_
      intro y hy
      have : (assocSet s.inp x str).lookup y = none := hy
      rw [assocSet_lookup] at this
      split at this
      · cases this
      · exact this

theorem Thread.and {P : Nat → I → List N → Option S} {Q1 Q2 : List N → St N I F V S → Prop}
    (h1 : Thread C σ P Q1) (h2 : Thread C σ P Q2) : Thread C σ P (fun L s => Q1 L s ∧ Q2 L s) where
  relist := fun hp h => ⟨h1.relist hp h.1, h2.relist hp h.2⟩
  pop := fun hinv h hl => ⟨h1.pop hinv h.1 hl, h2.pop hinv h.2 hl⟩
  field := fun hinv h ha => ⟨h1.field hinv h.1 ha, h2.field hinv h.2 ha⟩
  drainF := fun hinv h hd => ⟨h1.drainF hinv h.1 hd, h2.drainF hinv h.2 hd⟩
  drainI := fun hinv h hd => ⟨h1.drainI hinv h.1 hd, h2.drainI hinv h.2 hd⟩
  input := fun hinv href hxm hxk h ha =>
    ⟨h1.input hinv href hxm hxk h.1 ha, h2.input hinv href hxm hxk h.2 ha⟩

end HabuVerif

namespace HabuVerif
open Tracker

variable {N I F V S : Type} [DecidableEq N] [DecidableEq I] [DecidableEq F]
variable {C : Cat N I F V S} {σ : Sched N I}

/-! ## 6. How often a line is put on the queue -/

/-- enqueues of `n` caused by full form loads: each load of `f` enqueues `C.required f` -/
def loadPushes (C : Cat N I F V S) (n : N) (log : List (Event N I F S)) : Nat :=
  ((fullLoads log).map fun f => (C.required f).count n).sum

theorem filter_eqb_length (n : N) (ns : List N) : (ns.filter (eqb n)).length = ns.count n := by
  induction ns with
  | nil => rfl
  | cons k ns ih =>
    by_cases hk : k = n
    · subst hk; simp [eqb, List.filter_cons, ih]
    · simp [eqb, List.filter_cons, hk, ih, List.count_cons_of_ne hk]

/-- **How `n` got onto the queue.**  Either only through full form loads and as a requested extra
field (`e` times so far) — or exactly once, through a demand, and then never through a load and
never as an extra field. -/
def PushS (C : Cat N I F V S) (n : N) (e : Nat) (s : St N I F V S) : Prop :=
  ((pushed (eqb n) s.log).length = e + loadPushes C n s.log ∧
    (1 ≤ (pushed (eqb n) s.log).length → n ∈ s.solving)) ∨
  ((pushed (eqb n) s.log).length = 1 ∧ e + loadPushes C n s.log = 0 ∧ n ∈ s.solving)

variable {n : N}

theorem loadPushes_load (f : F) (l : List (Event N I F S)) :
    loadPushes C n ((C.required f).reverse.map Event.push ++ .loadForm f false :: l) =
      loadPushes C n l + (C.required f).count n := by
  unfold loadPushes
  rw [fullLoads_map_push]
  simp only [fullLoads_load_false, List.map_cons, List.sum_cons]
  omega

theorem pushed_length_load (f : F) (l : List (Event N I F S)) :
    (pushed (eqb n) ((C.required f).reverse.map Event.push ++ .loadForm f false :: l)).length =
      (pushed (eqb n) l).length + (C.required f).count n := by
  rw [pushed_map_push]
  simp only [HabuVerif.pushed_load, List.length_append, List.filter_reverse, List.length_reverse,
    filter_eqb_length]
  omega

/-- steps that neither enqueue `n` nor load a form in full -/
theorem PushS.frame {s s' : St N I F V S} {e : Nat} (h : PushS C n e s)
    (hp : (pushed (eqb n) s'.log).length = (pushed (eqb n) s.log).length)
    (hl : loadPushes C n s'.log = loadPushes C n s.log)
    (hsol : n ∈ s.solving → n ∈ s'.solving) : PushS C n e s' := by
  unfold PushS at h ⊢
  rw [hp, hl]
  rcases h with ⟨a, b⟩ | ⟨a, b, c⟩
  · exact Or.inl ⟨a, fun h1 => hsol (b h1)⟩
  · exact Or.inr ⟨a, b, hsol c⟩

/-- a full load while `n` has not been demanded (always the case before the main loop) -/
theorem PushS.loadA {s s' : St N I F V S} {e : Nat} {f : F}
    (h : (pushed (eqb n) s.log).length = e + loadPushes C n s.log ∧
      (1 ≤ (pushed (eqb n) s.log).length → n ∈ s.solving))
    (ha : addForm C σ s f false = .ok s') :
    (pushed (eqb n) s'.log).length = e + loadPushes C n s'.log ∧
      (1 ≤ (pushed (eqb n) s'.log).length → n ∈ s'.solving) := by
  have hl := addForm_log ha
  simp only [Bool.false_eq_true, if_false] at hl
  obtain ⟨_, _, _, _, _, _, _, _, _, hF⟩ := addForm_ok ha
  obtain ⟨_, _, _, hsol⟩ := hF rfl
  rw [hl, pushed_length_load, loadPushes_load]
  refine ⟨by omega, fun h1 => ?_⟩
  by_cases h0 : 1 ≤ (pushed (eqb n) s.log).length
  · exact (hsol n).mpr (Or.inl (h.2 h0))
  · have : 0 < (C.required f).count n := by omega
    exact (hsol n).mpr (Or.inr (List.count_pos_iff.mp this))

/-- a full load of a form that is not loaded yet -/
theorem PushS.load (hC : CatWF C) {L : List N} {s s' : St N I F V S} {e : Nat} {f : F}
    (hinv : Inv C L s) (h : PushS C n e s) (hnew : f ∉ s.forms)
    (ha : addForm C σ s f false = .ok s') : PushS C n e s' := by
  rcases h with h | ⟨a, b, c⟩
  · exact Or.inl (PushS.loadA h ha)
  · have hl := addForm_log ha
    simp only [Bool.false_eq_true, if_false] at hl
    have hc0 : (C.required f).count n = 0 := by
      apply List.count_eq_zero_of_not_mem
      intro hreq
      have h1 : C.formOfN n = some f := hC.fieldsForm f n (hC.requiredSub f n hreq)
      obtain ⟨g, hg1, hg2⟩ := hinv.fmapForm n (hinv.solFmap n c)
      have h2 : C.formOfN n = some g := hC.fieldsForm g n hg2
      rw [h1] at h2
      cases h2
      exact hnew hg1
    refine Or.inr ⟨?_, ?_, (addForm_grow ha).sol n c⟩
    · rw [hl, pushed_length_load, hc0]; exact a
    · rw [hl, loadPushes_load, hc0]; exact b

/-- the enqueue of a demanded line `m` that is not being solved -/
theorem PushS.pushDemand {t t' : St N I F V S} {e : Nat} {m : N} (h : PushS C n e t)
    (hm : m ∉ t.solving) (hlog : t'.log = .push m :: t.log)
    (hsol : t'.solving = t.solving ++ [m]) : PushS C n e t' := by
  by_cases hmn : m = n
  · subst hmn
    rcases h with ⟨a, b⟩ | ⟨_, _, c⟩
    · have h0 : (pushed (eqb m) t.log).length = 0 := by
        by_cases h1 : 1 ≤ (pushed (eqb m) t.log).length
        · exact absurd (b h1) hm
        · omega
      refine Or.inr ⟨?_, ?_, by rw [hsol]; simp⟩
      · rw [hlog]; simp [eqb, h0]
      · rw [hlog]
        have : loadPushes C m (.push m :: t.log) = loadPushes C m t.log := by simp [loadPushes]
        rw [this]; omega
    · exact absurd c hm
  · refine h.frame ?_ ?_ (fun hn => by rw [hsol]; exact List.mem_append_left _ hn)
    · rw [hlog]; simp [eqb, hmn]
    · rw [hlog]; simp [loadPushes]

theorem PushS.demand (hC : CatWF C) {L : List N} {s s1 : St N I F V S} {e : Nat} {m : N}
    (hinv : Inv C L s) (h : PushS C n e s) (hd : demand C σ s m = .ok s1) : PushS C n e s1 := by
  rcases demand_cases hd with ⟨_, rfl⟩ | ⟨_, t, ht, hmt, hs1⟩
  · exact h
  · have kt : PushS C n e t := by
      rcases ht with ⟨_, rfl⟩ | ⟨hmf, f, _, hadd⟩
      · exact h
      · exact h.load hC hinv (demand_load_new hinv hmf hadd hmt) hadd
    rcases hs1 with ⟨_, rfl⟩ | ⟨hm, rfl⟩
    · exact kt
    · exact kt.pushDemand hm rfl rfl

theorem PushS.field (hC : CatWF C) (hσ : SchedOK σ) {L : List N} {k : N} {e : Nat} (fuel : Nat)
    {s s' : St N I F V S} (hinv : Inv C (k :: L) s) (hb : PushS C n e s)
    (h : attemptField C σ fuel s k = .ok s') : PushS C n e s' := by
  refine attemptField_cases hC hσ (L := L) (fun s s' => PushS C n e s → PushS C n e s')
    ?_ ?_ ?_ ?_ ?_ fuel s s' hinv h hb
  · intro s x _ _ hb
    exact hb.frame rfl rfl (fun h => h)
  · intro s s1 m hinv _ hd hb
    exact (hb.demand hC hinv hd).frame rfl rfl (fun h => h)
  · intro s x _ _ hb
    exact hb.frame rfl rfl (fun h => h)
  · intro s _ _ hb
    exact hb.frame rfl rfl (fun h => h)
  · intro s s1 s' x f _ _ _ hadd _ _ ih hb
    apply ih
    have hl := addForm_log hadd
    simp only [if_true, List.nil_append] at hl
    refine hb.frame ?_ ?_ ((addForm_grow hadd).sol n)
    · show (pushed (eqb n) (.attempt k :: s1.log)).length = _
      rw [hl]; simp
    · show loadPushes C n (.attempt k :: s1.log) = _
      rw [hl]; simp [loadPushes]

theorem pushS_thread (hC : CatWF C) (hσ : SchedOK σ) (P : Nat → I → List N → Option S) (e : Nat) :
    Thread C σ P (fun _ s => PushS C n e s) where
  relist := fun _ h => h
  pop := fun _ h _ => h
  field := fun hinv h ha => h.field hC hσ specFuel hinv ha
  drainF := fun _ h _ => h
  drainI := fun _ h _ => h
  input := by
    intro L s s' x hinv href hxm hxk h ha
    obtain ⟨nb, _, hc⟩ := attemptInput_cases ha
    rcases hc with ⟨_, rfl⟩ | ⟨str, _, rfl⟩
    · exact h.frame rfl rfl (fun h => h)
    · exact h.frame rfl rfl (fun h => h)

/-! ### no form is loaded in full twice (unless the request names it twice) -/

/-- the full loads are pairwise distinct and are exactly the loaded forms -/
structure LoadsI (s : St N I F V S) : Prop where
  nodup : (fullLoads s.log).Nodup
  iff : ∀ f, f ∈ fullLoads s.log ↔ f ∈ s.forms

theorem LoadsI.frame {s s' : St N I F V S} (h : LoadsI s) (hl : fullLoads s'.log = fullLoads s.log)
    (hf : s'.forms = s.forms) : LoadsI s' :=
  ⟨by rw [hl]; exact h.nodup, by rw [hl, hf]; exact h.iff⟩

theorem LoadsI.load {s s' : St N I F V S} {f : F} (h : LoadsI s) (hnew : f ∉ s.forms)
    (ha : addForm C σ s f false = .ok s') : LoadsI s' := by
  have hl := addForm_log ha
  simp only [Bool.false_eq_true, if_false] at hl
  obtain ⟨_, _, _, _, _, _, _, _, _, hF⟩ := addForm_ok ha
  obtain ⟨hforms, _, _, _⟩ := hF rfl
  have hfl : fullLoads s'.log = f :: fullLoads s.log := by rw [hl, fullLoads_map_push]; rfl
  refine ⟨?_, ?_⟩
  · rw [hfl]
    exact List.nodup_cons.mpr ⟨fun hm => hnew ((h.iff f).mp hm), h.nodup⟩
  · intro g
    rw [hfl, List.mem_cons, hforms g, h.iff g]
    exact Or.comm

theorem LoadsI.field (hC : CatWF C) (hσ : SchedOK σ) {L : List N} {k : N} (fuel : Nat)
    {s s' : St N I F V S} (hinv : Inv C (k :: L) s) (hb : LoadsI s)
    (h : attemptField C σ fuel s k = .ok s') : LoadsI s' := by
  refine attemptField_cases hC hσ (L := L) (fun s s' => LoadsI s → LoadsI s')
    ?_ ?_ ?_ ?_ ?_ fuel s s' hinv h hb
  · intro s x _ _ hb
    exact hb.frame rfl rfl
  · intro s s1 m hinv _ hd hb
    have k1 : LoadsI s1 := by
      rcases demand_cases hd with ⟨_, rfl⟩ | ⟨_, t, ht, hmt, hs1⟩
      · exact hb
      · have kt : LoadsI t := by
          rcases ht with ⟨_, rfl⟩ | ⟨hmf, f, _, hadd⟩
          · exact hb
          · exact hb.load (demand_load_new hinv hmf hadd hmt) hadd
        rcases hs1 with ⟨_, rfl⟩ | ⟨_, rfl⟩
        · exact kt
        · exact kt.frame rfl rfl
    exact k1.frame rfl rfl
  · intro s x _ _ hb
    exact hb.frame rfl rfl
  · intro s _ _ hb
    exact hb.frame rfl rfl
  · intro s s1 s' x f _ _ _ hadd _ _ ih hb
    apply ih
    have hl := addForm_log hadd
    simp only [if_true, List.nil_append] at hl
    obtain ⟨_, _, _, _, _, _, _, _, hT, _⟩ := addForm_ok hadd
    refine hb.frame ?_ (hT rfl).1
    show fullLoads (.attempt k :: s1.log) = _
    rw [hl]; rfl

theorem loadsI_thread (hC : CatWF C) (hσ : SchedOK σ) (P : Nat → I → List N → Option S) :
    Thread C σ P (fun _ s => LoadsI s) where
  relist := fun _ h => h
  pop := fun _ h _ => h.frame rfl rfl
  field := fun hinv h ha => h.field hC hσ specFuel hinv ha
  drainF := fun _ h _ => h.frame rfl rfl
  drainI := fun _ h _ => h.frame rfl rfl
  input := by
    intro L s s' x hinv href hxm hxk h ha
    obtain ⟨nb, _, hc⟩ := attemptInput_cases ha
    rcases hc with ⟨_, rfl⟩ | ⟨str, _, rfl⟩
    · exact h.frame rfl rfl
    · exact h.frame rfl rfl

/-! ## 7. The state in which the main loop starts -/

/-- everything that is threaded for the bounded-work theorems about the selected lines `p` -/
structure Work (C : Cat N I F V S) (p : N → Bool) (L : List N) (s : St N I F V S) : Prop where
  acct : Acct p L s
  retry : RetryI C p s
  prompt : PrI s

variable {p : N → Bool}

theorem work_thread (hC : CatWF C) (hσ : SchedOK σ) (P : Nat → I → List N → Option S) :
    Thread C σ P (fun L s => Work C p L s) := by
  have h := ((acct_thread (p := p) hC hσ P).and (retryI_thread (p := p) hC hσ P)).and
    (prI_thread hC hσ P)
  exact
    { relist := fun hp q => by
        obtain ⟨⟨a, b⟩, c⟩ := h.relist hp ⟨⟨q.acct, q.retry⟩, q.prompt⟩
        exact ⟨a, b, c⟩
      pop := fun hinv q hl => by
        obtain ⟨⟨a, b⟩, c⟩ := h.pop hinv ⟨⟨q.acct, q.retry⟩, q.prompt⟩ hl
        exact ⟨a, b, c⟩
      field := fun hinv q ha => by
        obtain ⟨⟨a, b⟩, c⟩ := h.field hinv ⟨⟨q.acct, q.retry⟩, q.prompt⟩ ha
        exact ⟨a, b, c⟩
      drainF := fun hinv q hd => by
        obtain ⟨⟨a, b⟩, c⟩ := h.drainF hinv ⟨⟨q.acct, q.retry⟩, q.prompt⟩ hd
        exact ⟨a, b, c⟩
      drainI := fun hinv q hd => by
        obtain ⟨⟨a, b⟩, c⟩ := h.drainI hinv ⟨⟨q.acct, q.retry⟩, q.prompt⟩ hd
        exact ⟨a, b, c⟩
      input := fun hinv href hxm hxk q ha => by
        obtain ⟨⟨a, b⟩, c⟩ := h.input hinv href hxm hxk ⟨⟨q.acct, q.retry⟩, q.prompt⟩ ha
        exact ⟨a, b, c⟩ }

theorem work_init (inp : List (I × S)) (b : Bool) :
    Work C p [] (initSt inp b : St N I F V S) :=
  ⟨acct_init inp b, retryI_init inp b, prI_init inp b⟩

theorem Work.load (hσ : SchedOK σ) {s s' : St N I F V S} {f : F} {L : List N}
    (h : Work C p L s) (ha : addForm C σ s f false = .ok s') : Work C p L s' := by
  have hl := addForm_log ha
  simp only [Bool.false_eq_true, if_false] at hl
  obtain ⟨_, _, hi, _, _, _, hr, _⟩ := addForm_ok ha
  refine ⟨h.acct.load hσ ha, ?_, ?_⟩
  · refine h.retry.extend ?_ ?_ (addForm_grow ha).specs
    · rw [hl]; exact noLoadTop_map_push _ _ (noLoadTop_cons _ (by intro g hg; cases hg))
    · rw [hl, retryForms_map_push]; simp
  · refine h.prompt.extend ((C.required f).reverse.map Event.push ++ [.loadForm f false]) ?_ ?_ hr ?_
    · rw [hl]; simp
    · rw [prompts_map_push]; simp
    · intro x hx; rw [inpf_congr hi]; exact hx

theorem work_addForms (hσ : SchedOK σ) :
    ∀ (fs : List F) {s s' : St N I F V S}, Work C p [] s → addForms C σ fs s = .ok s' →
      Work C p [] s' := by
  intro fs
  induction fs with
  | nil => intro s s' h ha; simp only [addForms] at ha; cases ha; exact h
  | cons f fs ih =>
    intro s s' h ha
    simp only [addForms] at ha
    cases h1 : addForm C σ s f false with
    | error e => simp [h1] at ha
    | ok s1 => simp only [h1] at ha; exact ih (h.load hσ h1) ha

/-- before the main loop `n` is enqueued only by full loads and as a requested extra field -/
def PushA (C : Cat N I F V S) (n : N) (e : Nat) (s : St N I F V S) : Prop :=
  (pushed (eqb n) s.log).length = e + loadPushes C n s.log ∧
    (1 ≤ (pushed (eqb n) s.log).length → n ∈ s.solving)

theorem pushA_addForms {e : Nat} :
    ∀ (fs : List F) {s s' : St N I F V S}, PushA C n e s → addForms C σ fs s = .ok s' →
      PushA C n e s' := by
  intro fs
  induction fs with
  | nil => intro s s' h ha; simp only [addForms] at ha; cases ha; exact h
  | cons f fs ih =>
    intro s s' h ha
    simp only [addForms] at ha
    cases h1 : addForm C σ s f false with
    | error e => simp [h1] at ha
    | ok s1 => simp only [h1] at ha; exact ih (PushS.loadA h h1) ha

theorem loadsI_addForms :
    ∀ (fs : List F) {s s' : St N I F V S}, LoadsI s → fs.Nodup → (∀ f ∈ fs, f ∉ s.forms) →
      addForms C σ fs s = .ok s' → LoadsI s' := by
  intro fs
  induction fs with
  | nil => intro s s' h _ _ ha; simp only [addForms] at ha; cases ha; exact h
  | cons f fs ih =>
    intro s s' h hnd hnew ha
    simp only [addForms] at ha
    cases h1 : addForm C σ s f false with
    | error e => simp [h1] at ha
    | ok s1 =>
      simp only [h1] at ha
      obtain ⟨_, _, _, _, _, _, _, _, _, hF⟩ := addForm_ok h1
      obtain ⟨hforms, _, _, _⟩ := hF rfl
      have hnd' := List.nodup_cons.mp hnd
      refine ih (h.load (hnew f List.mem_cons_self) h1) hnd'.2 ?_ ha
      intro g hg hg1
      rcases (hforms g).mp hg1 with h2 | rfl
      · exact hnew g (List.mem_cons_of_mem _ hg) h2
      · exact hnd'.1 hg

theorem work_addExtra (hσ : SchedOK σ) :
    ∀ (ns : List N) {s s' : St N I F V S}, Work C p [] s → addExtra σ ns s = .ok s' →
      Work C p [] s' := by
  intro ns
  induction ns with
  | nil => intro s s' h ha; simp only [addExtra] at ha; cases ha; exact h
  | cons k ns ih =>
    intro s s' h ha
    simp only [addExtra] at ha
    split at ha
    · refine ih ?_ ha
      refine ⟨h.acct.push hσ rfl rfl rfl rfl rfl rfl, ?_, ?_⟩
      · exact h.retry.extend (noLoadTop_cons _ (by intro g hg; cases hg)) (by simp) (fun _ hx => hx)
      · exact h.prompt.extend [.push k] rfl (by simp) rfl (fun _ hx => hx)
    · simp at ha

theorem loadsI_addExtra :
    ∀ (ns : List N) {s s' : St N I F V S}, LoadsI s → addExtra σ ns s = .ok s' → LoadsI s' := by
  intro ns
  induction ns with
  | nil => intro s s' h ha; simp only [addExtra] at ha; cases ha; exact h
  | cons k ns ih =>
    intro s s' h ha
    simp only [addExtra] at ha
    split at ha
    · refine ih ?_ ha
      exact h.frame rfl rfl
    · simp at ha

theorem pushA_addExtra :
    ∀ (ns : List N) {e : Nat} {s s' : St N I F V S}, PushA C n e s → addExtra σ ns s = .ok s' →
      PushA C n (e + ns.count n) s' := by
  intro ns
  induction ns with
  | nil => intro e s s' h ha; simp only [addExtra] at ha; cases ha; simpa using h
  | cons k ns ih =>
    intro e s s' h ha
    simp only [addExtra] at ha
    split at ha
    · have hsol : ∀ j, j ∈ s.solving → j ∈ (if k ∈ s.solving then s.solving else s.solving ++ [k]) := by
        intro j hj; split
        · exact hj
        · exact List.mem_append_left _ hj
      have hk : k ∈ (if k ∈ s.solving then s.solving else s.solving ++ [k]) := by
        split
        · assumption
        · simp
      have := ih (e := e + if k = n then 1 else 0) ?_ ha
      · have hc : (k :: ns).count n = ns.count n + if k = n then 1 else 0 := by
          by_cases hk : k = n
          · subst hk; simp
          · simp [hk, List.count_cons_of_ne hk]
        rw [hc]
        have he : e + (if k = n then 1 else 0) + ns.count n = e + (ns.count n + if k = n then 1 else 0) := by
          omega
        rw [← he]; exact this
      · obtain ⟨a, b⟩ := h
        have hlp : loadPushes C n (.push k :: s.log) = loadPushes C n s.log := by simp [loadPushes]
        have hpl : (pushed (eqb n) (.push k :: s.log)).length =
            (pushed (eqb n) s.log).length + if k = n then 1 else 0 := by simp [eqb, len_ite_cons]
        refine ⟨?_, ?_⟩
        · show (pushed (eqb n) (.push k :: s.log)).length = _ + loadPushes C n (.push k :: s.log)
          rw [hlp, hpl]; omega
        · intro h1
          have h1' : 1 ≤ (pushed (eqb n) (.push k :: s.log)).length := h1
          show n ∈ (if k ∈ s.solving then s.solving else s.solving ++ [k])
          by_cases hkn : k = n
          · rw [← hkn]; exact hk
          · rw [hpl] at h1'
            simp only [hkn, if_false, Nat.add_zero] at h1'
            exact hsol n (b h1')
    · simp at ha

/-- **Everything threaded holds of whatever `solve` returns.** -/
theorem solve_work (hC : CatWF C) (hσ : SchedOK σ) {Po : Option (Nat → I → List N → Option S)}
    {inp : List (I × S)} {forms : List F} {extra : List N} {fuel qfuel : Nat} {s : St N I F V S}
    (h : solve C σ Po inp forms extra fuel qfuel = .ok (some s)) (p : N → Bool) :
    Work C p [] s := by
  obtain ⟨s1, s2, h1, h2, h3⟩ := solve_split h
  obtain ⟨a1, b1, _⟩ := addForms_inv hC hσ forms (initSt_inv inp _) (by simp [initSt]) h1
  obtain ⟨a2, b2⟩ := addExtra_inv hσ extra a1 b1 h2
  have w1 : Work C p [] s1 := work_addForms hσ forms (work_init inp _) h1
  have w2 := work_addExtra hσ extra w1 h2
  exact solveLoop_thr hC hσ (work_thread hC hσ _) fuel a2 b2 w2 h3

theorem solve_pushS (hC : CatWF C) (hσ : SchedOK σ) {Po : Option (Nat → I → List N → Option S)}
    {inp : List (I × S)} {forms : List F} {extra : List N} {fuel qfuel : Nat} {s : St N I F V S}
    (h : solve C σ Po inp forms extra fuel qfuel = .ok (some s)) (n : N) :
    PushS C n (extra.count n) s := by
  obtain ⟨s1, s2, h1, h2, h3⟩ := solve_split h
  obtain ⟨a1, b1, _⟩ := addForms_inv hC hσ forms (initSt_inv inp _) (by simp [initSt]) h1
  obtain ⟨a2, b2⟩ := addExtra_inv hσ extra a1 b1 h2
  have w0 : PushA C n 0 (initSt inp Po.isSome : St N I F V S) := by simp [PushA, initSt, loadPushes]
  have w1 : PushA C n 0 s1 := pushA_addForms forms w0 h1
  have w2 := pushA_addExtra extra w1 h2
  simp only [Nat.zero_add] at w2
  exact solveLoop_thr hC hσ (pushS_thread hC hσ _ _) fuel a2 b2 (Or.inl w2) h3

theorem solve_loadsI (hC : CatWF C) (hσ : SchedOK σ) {Po : Option (Nat → I → List N → Option S)}
    {inp : List (I × S)} {forms : List F} {extra : List N} {fuel qfuel : Nat} {s : St N I F V S}
    (h : solve C σ Po inp forms extra fuel qfuel = .ok (some s)) (hnd : forms.Nodup) : LoadsI s := by
  obtain ⟨s1, s2, h1, h2, h3⟩ := solve_split h
  obtain ⟨a1, b1, _⟩ := addForms_inv hC hσ forms (initSt_inv inp _) (by simp [initSt]) h1
  obtain ⟨a2, b2⟩ := addExtra_inv hσ extra a1 b1 h2
  have w0 : LoadsI (initSt inp Po.isSome : St N I F V S) := ⟨by simp [initSt], by simp [initSt]⟩
  have w1 : LoadsI s1 := loadsI_addForms forms w0 hnd (by simp [initSt]) h1
  have w2 := loadsI_addExtra extra w1 h2
  exact solveLoop_thr hC hσ (loadsI_thread hC hσ _) fuel a2 b2 w2 h3

end HabuVerif

namespace HabuVerif
open Tracker

variable {N I F V S : Type} [DecidableEq N] [DecidableEq I] [DecidableEq F]
variable {C : Cat N I F V S} {σ : Sched N I}

/-! ## 8. Bounded work (C06): the attempt bound and the prompt bound -/

/-- number of evaluations of the line `n` (`.attempt n` events) -/
def attemptsOf (n : N) (log : List (Event N I F S)) : Nat := (attempted (eqb n) log).length
/-- number of times `n` was put on the queue (`.push n` events) -/
def pushesOf (n : N) (log : List (Event N I F S)) : Nat := (pushed (eqb n) log).length
/-- the lines `n` registered a wait on, one entry per registration (`.waitV n m` events) -/
def waitsOnLines (n : N) (log : List (Event N I F S)) : List N := waitedV (eqb n) log
/-- the inputs `n` registered a wait on, one entry per registration (`.waitI n x` events) -/
def waitsOnInputs (n : N) (log : List (Event N I F S)) : List I := waitedI (eqb n) log
/-- the forms whose input specifications were loaded because an evaluation of `n` ended in
`MissingInputSpecification`, one entry per such evaluation -/
def specRetries (n : N) (log : List (Event N I F S)) : List F := retryForms (eqb n) log
/-- registrations of `n` still pending in the two trackers -/
def pendingWaits (n : N) (s : St N I F V S) : Nat := tokW (eqb n) s.fdeps + tokW (eqb n) s.ideps

/-- `attemptsOf` is the number of occurrences of `n` in the attempt sequence the driver prints -/
theorem attemptsOf_eq_count (n : N) (log : List (Event N I F S)) :
    attemptsOf n log = (log.filterMap fun e => match e with | .attempt k => some k | _ => none).count n := by
  unfold attemptsOf
  induction log with
  | nil => rfl
  | cons e l ih =>
    cases e with
    | attempt k =>
      by_cases hk : k = n
      · subst hk; simp [eqb, List.filterMap_cons, ih]
      · simp [eqb, List.filterMap_cons, hk, ih, List.count_cons_of_ne hk]
    | prompt x nb a => simpa [List.filterMap_cons] using ih
    | loadForm f b => simpa [List.filterMap_cons] using ih
    | push k => simpa [List.filterMap_cons] using ih
    | waitV k m => simpa [List.filterMap_cons] using ih
    | waitI k x => simpa [List.filterMap_cons] using ih

variable {Po : Option (Nat → I → List N → Option S)} {inp : List (I × S)} {forms : List F}
  {extra : List N} {fuel qfuel : Nat} {s : St N I F V S}

/-- **Exact accounting.**  Every evaluation of `n` is a dequeue, the release of a registered wait,
or a `MissingInputSpecification` retry; every registered wait is released exactly once or still
pending (and then its dependency is unmet, `Inv.fWait` / `Inv.iWait`). -/
theorem attempt_accounting (hC : CatWF C) (hσ : SchedOK σ)
    (h : solve C σ Po inp forms extra fuel qfuel = .ok (some s)) (n : N) :
    attemptsOf n s.log + pendingWaits n s =
      pushesOf n s.log + (waitsOnLines n s.log).length + (waitsOnInputs n s.log).length +
        (specRetries n s.log).length := by
  have w := solve_work hC hσ h (eqb n)
  obtain ⟨_, hlc, _⟩ := solve_inv hC hσ h
  have hq := (loopCond_false hlc).1
  have := w.acct.bal
  unfold tokens at this
  rw [hq] at this
  simp only [List.countP_nil, Nat.zero_add] at this
  unfold attemptsOf pendingWaits pushesOf waitsOnLines waitsOnInputs specRetries
  omega

/-- a line registers a wait on one dependency at most as often as it was put on the queue -/
theorem wait_multiplicity (hC : CatWF C) (hσ : SchedOK σ)
    (h : solve C σ Po inp forms extra fuel qfuel = .ok (some s)) (n : N) :
    (∀ m, (waitsOnLines n s.log).count m ≤ pushesOf n s.log) ∧
    (∀ x, (waitsOnInputs n s.log).count x ≤ pushesOf n s.log) :=
  ⟨(solve_work hC hσ h (eqb n)).acct.regV', (solve_work hC hσ h (eqb n)).acct.regI'⟩

/-- **How a line gets onto the queue (exact).**  Either `n` was queued only by full form loads
(once per occurrence in the required list of every loaded form) and as a requested extra field —
or it was queued exactly once, by a demand, and then by nothing else. -/
theorem pushes_exact (hC : CatWF C) (hσ : SchedOK σ)
    (h : solve C σ Po inp forms extra fuel qfuel = .ok (some s)) (n : N) :
    pushesOf n s.log = extra.count n + loadPushes C n s.log ∨
    (pushesOf n s.log = 1 ∧ extra.count n + loadPushes C n s.log = 0) := by
  rcases solve_pushS hC hσ h n with ⟨a, _⟩ | ⟨a, b, _⟩
  · exact Or.inl a
  · exact Or.inr ⟨a, b⟩

/-- **C06, attempt bound.**  For every catalogue, schedule, prompt, inputs and request, in every
state `solve` returns and for every line `n`:
* the number of evaluations of `n` is at most
  `(times n was queued) · (1 + distinct lines waited on + distinct inputs waited on) + retries`;
* the retries loaded pairwise distinct forms;
* `n` was queued at most `max 1 (occurrences in extra + occurrences in the required lists of the
  fully loaded forms)` times (`pushes_exact` says which). -/
theorem attempt_bound (hC : CatWF C) (hσ : SchedOK σ)
    (h : solve C σ Po inp forms extra fuel qfuel = .ok (some s)) (n : N) :
    attemptsOf n s.log ≤
      pushesOf n s.log * (1 + (waitsOnLines n s.log).dedup.length +
        (waitsOnInputs n s.log).dedup.length) + (specRetries n s.log).length ∧
    (specRetries n s.log).Nodup ∧
    pushesOf n s.log ≤ max 1 (extra.count n + loadPushes C n s.log) := by
  have w := solve_work hC hσ h (eqb n)
  have hacc := attempt_accounting hC hσ h n
  obtain ⟨hV, hI⟩ := wait_multiplicity hC hσ h n
  have h1 := length_le_mul_dedup hV
  have h2 := length_le_mul_dedup hI
  refine ⟨?_, w.retry.nodup, ?_⟩
  · rw [Nat.mul_add, Nat.mul_add, Nat.mul_one]; omega
  · rcases pushes_exact hC hσ h n with a | ⟨a, _⟩ <;> omega

/-- **C06, attempt bound for a line that was queued once** (the normal case): `n` registers a
wait on each line and on each input at most once, and is evaluated at most
`1 + (number of distinct things it waited for) + retries` times. -/
theorem attempt_bound_queued_once (hC : CatWF C) (hσ : SchedOK σ)
    (h : solve C σ Po inp forms extra fuel qfuel = .ok (some s)) (n : N)
    (hq : pushesOf n s.log ≤ 1) :
    (waitsOnLines n s.log).Nodup ∧ (waitsOnInputs n s.log).Nodup ∧
    attemptsOf n s.log ≤ 1 + (waitsOnLines n s.log).length + (waitsOnInputs n s.log).length +
      (specRetries n s.log).length := by
  have hacc := attempt_accounting hC hσ h n
  obtain ⟨hV, hI⟩ := wait_multiplicity hC hσ h n
  refine ⟨nodup_of_count_le_one fun m => (hV m).trans hq,
    nodup_of_count_le_one fun x => (hI x).trans hq, ?_⟩
  omega

/-- with duplicate-free required lists, load enqueues of `n` are loads of `n`'s own form -/
theorem loadPushes_le_formLoads (hC : CatWF C) (hnd : ∀ f, (C.required f).Nodup) (n : N)
    (log : List (Event N I F S)) :
    loadPushes C n log ≤ ((fullLoads log).filter fun f => decide (C.formOfN n = some f)).length := by
  unfold loadPushes
  induction fullLoads log with
  | nil => simp
  | cons f fs ih =>
    simp only [List.map_cons, List.sum_cons, List.filter_cons]
    have h1 : (C.required f).count n ≤ 1 := List.nodup_iff_count_le_one.mp (hnd f) n
    by_cases hm : n ∈ C.required f
    · have hf : decide (C.formOfN n = some f) = true := by
        simp [hC.fieldsForm f n (hC.requiredSub f n hm)]
      rw [if_pos hf]
      simp only [List.length_cons]
      omega
    · have : (C.required f).count n = 0 := List.count_eq_zero_of_not_mem hm
      split
      · simp only [List.length_cons]; omega
      · omega

/-- **No form is loaded in full twice** when the request does not name a form twice: a form is
loaded on demand only if it is not loaded (a demand for a line its loaded form does not have
aborts). -/
theorem loads_distinct (hC : CatWF C) (hσ : SchedOK σ)
    (h : solve C σ Po inp forms extra fuel qfuel = .ok (some s)) (hnd : forms.Nodup) :
    (fullLoads s.log).Nodup ∧ ∀ f, f ∈ fullLoads s.log ↔ f ∈ s.forms :=
  ⟨(solve_loadsI hC hσ h hnd).nodup, (solve_loadsI hC hσ h hnd).iff⟩

theorem filter_eq_some_length_le_one {l : List F} (hnd : l.Nodup) (o : Option F) :
    (l.filter fun f => decide (o = some f)).length ≤ 1 := by
  cases o with
  | none => simp
  | some a =>
    have : (l.filter fun f => decide (some a = some f)).length = l.count a := by
      rw [← List.countP_eq_length_filter, List.count_eq_countP]
      apply List.countP_congr
      intro f _
      simp only [Option.some.injEq, decide_eq_true_eq, beq_iff_eq]
      exact eq_comm
    rw [this]; exact List.nodup_iff_count_le_one.mp hnd a

theorem loadPushes_eq_zero {n : N} (hn : ∀ f, n ∉ C.required f) (log : List (Event N I F S)) :
    loadPushes C n log = 0 := by
  unfold loadPushes
  induction fullLoads log with
  | nil => rfl
  | cons f fs ih =>
    simp only [List.map_cons, List.sum_cons, ih, List.count_eq_zero_of_not_mem (hn f)]

/-- **Every line is queued at most once** — for a request without repetition: the requested forms
are pairwise distinct, required lists are duplicate-free, the extra fields are pairwise distinct and
none of them is a required line. -/
theorem queued_at_most_once (hC : CatWF C) (hσ : SchedOK σ) (hforms : forms.Nodup)
    (hreq : ∀ f, (C.required f).Nodup) (hextra : extra.Nodup)
    (hex : ∀ n ∈ extra, ∀ f, n ∉ C.required f)
    (h : solve C σ Po inp forms extra fuel qfuel = .ok (some s)) (n : N) :
    pushesOf n s.log ≤ 1 := by
  rcases pushes_exact hC hσ h n with a | ⟨a, _⟩
  · rw [a]
    have h1 : extra.count n ≤ 1 := List.nodup_iff_count_le_one.mp hextra n
    have h2 : loadPushes C n s.log ≤ 1 :=
      (loadPushes_le_formLoads hC hreq n s.log).trans
        (filter_eq_some_length_le_one (loads_distinct hC hσ h hforms).1 _)
    by_cases hn : n ∈ extra
    · rw [loadPushes_eq_zero (hex n hn)]; omega
    · rw [List.count_eq_zero_of_not_mem hn]; omega
  · omega

/-- **C06 in its own wording, for a request without repetition** (`queued_at_most_once`):
EVERY line registers a wait on each line and on each input at most once, each of its
`MissingInputSpecification` retries loads a different form, and it is evaluated at most
`1 + (number of distinct lines it waited for) + (number of distinct inputs it waited for)
   + (number of input specifications it had to load)` times. -/
theorem attempt_bound_additive (hC : CatWF C) (hσ : SchedOK σ) (hforms : forms.Nodup)
    (hreq : ∀ f, (C.required f).Nodup) (hextra : extra.Nodup)
    (hex : ∀ n ∈ extra, ∀ f, n ∉ C.required f)
    (h : solve C σ Po inp forms extra fuel qfuel = .ok (some s)) (n : N) :
    (waitsOnLines n s.log).Nodup ∧ (waitsOnInputs n s.log).Nodup ∧ (specRetries n s.log).Nodup ∧
    attemptsOf n s.log ≤ 1 + (waitsOnLines n s.log).length + (waitsOnInputs n s.log).length +
      (specRetries n s.log).length := by
  obtain ⟨a, b, c⟩ := attempt_bound_queued_once hC hσ h n
    (queued_at_most_once hC hσ hforms hreq hextra hex h n)
  exact ⟨a, b, (attempt_bound hC hσ h n).2.1, c⟩

/-- **C06, prompt bound.**  In the log of every returned state each input has at most one answered
prompt, an answered input is present, at most one prompt was refused, and no prompt of any kind
was issued after (= is logged before, the log being newest-first) a refusal. -/
theorem prompt_at_most_once (hC : CatWF C) (hσ : SchedOK σ)
    (h : solve C σ Po inp forms extra fuel qfuel = .ok (some s)) :
    (∀ x, (answered s.log).count x ≤ 1) ∧
    (∀ x ∈ answered s.log, s.inpf x ≠ none) ∧
    refusals s.log ≤ 1 ∧
    (∀ pre e post, s.log = pre ++ e :: post → e.isRefusal = true → prompts pre = 0) := by
  have w := (solve_work hC hσ h allN).prompt
  exact ⟨fun x => List.nodup_iff_count_le_one.mp w.nodup x, w.present, w.ref1, w.order⟩

end HabuVerif

namespace HabuVerif
open Tracker

variable {N I F V S : Type} [DecidableEq N] [DecidableEq I] [DecidableEq F]
variable {C : Cat N I F V S} {σ : Sched N I}

/-! ## 9. More fuel never changes a result that is not "out of fuel" -/

theorem drainQueue_fuel_mono :
    ∀ (fuel fuel' : Nat) (s : St N I F V S) (r : Res N I F (Option (St N I F V S))), fuel ≤ fuel' →
      drainQueue C σ fuel s = r → r ≠ .ok none → drainQueue C σ fuel' s = r := by
  intro fuel
  induction fuel with
  | zero => intro fuel' s r _ h hr; simp only [drainQueue] at h; exact absurd h.symm hr
  | succ fuel ih =>
    intro fuel' s r hle h hr
    cases fuel' with
    | zero => omega
    | succ fuel' =>
      simp only [drainQueue] at h ⊢
      cases hl : s.queue.getLast? with
      | none => simp only [hl] at h ⊢; exact h
      | some n =>
        simp only [hl] at h ⊢
        cases ha : attemptField C σ specFuel { s with queue := s.queue.dropLast } n with
        | error e => simp only [ha] at h ⊢; exact h
        | ok s1 =>
          simp only [ha] at h ⊢
          exact ih fuel' s1 r (by omega) h hr

theorem iteration_fuel_mono {P : Nat → I → List N → Option S} (qfuel qfuel' : Nat)
    (s : St N I F V S) (r : Res N I F (Option (St N I F V S))) (hle : qfuel ≤ qfuel')
    (h : iteration C σ P qfuel s = r) (hr : r ≠ .ok none) : iteration C σ P qfuel' s = r := by
  unfold iteration at h ⊢
  cases hd : drainQueue C σ qfuel s with
  | error e =>
    rw [drainQueue_fuel_mono qfuel qfuel' s _ hle hd (by simp)]
    simp only [hd] at h; exact h
  | ok o =>
    cases o with
    | none => simp only [hd] at h; exact absurd h.symm hr
    | some s1 =>
      rw [drainQueue_fuel_mono qfuel qfuel' s _ hle hd (by simp)]
      simp only [hd] at h; exact h

theorem solveLoop_fuel_mono {P : Nat → I → List N → Option S} (qfuel qfuel' : Nat)
    (hq : qfuel ≤ qfuel') :
    ∀ (fuel fuel' : Nat) (s : St N I F V S) (r : Res N I F (Option (St N I F V S))), fuel ≤ fuel' →
      solveLoop C σ P qfuel fuel s = r → r ≠ .ok none → solveLoop C σ P qfuel' fuel' s = r := by
  intro fuel
  induction fuel with
  | zero => intro fuel' s r _ h hr; simp only [solveLoop] at h; exact absurd h.symm hr
  | succ fuel ih =>
    intro fuel' s r hle h hr
    cases fuel' with
    | zero => omega
    | succ fuel' =>
      simp only [solveLoop] at h ⊢
      split
      · rename_i hc
        simp only [hc, if_true] at h
        cases hi : iteration C σ P qfuel s with
        | error e =>
          rw [iteration_fuel_mono qfuel qfuel' s _ hq hi (by simp)]
          simp only [hi] at h; exact h
        | ok o =>
          cases o with
          | none => simp only [hi] at h; exact absurd h.symm hr
          | some s1 =>
            rw [iteration_fuel_mono qfuel qfuel' s _ hq hi (by simp)]
            simp only [hi] at h ⊢
            exact ih fuel' s1 r (by omega) h hr
      · rename_i hc
        simp only [hc] at h
        exact h

/-- **`solve_fuel_mono`**: a verdict or an abort is the same for every larger fuel. -/
theorem solve_fuel_mono {Po : Option (Nat → I → List N → Option S)} {inp : List (I × S)}
    {forms : List F} {extra : List N} {fuel qfuel fuel' qfuel' : Nat}
    {r : Res N I F (Option (St N I F V S))} (hf : fuel ≤ fuel') (hq : qfuel ≤ qfuel')
    (h : solve C σ Po inp forms extra fuel qfuel = r) (hr : r ≠ .ok none) :
    solve C σ Po inp forms extra fuel' qfuel' = r := by
  unfold solve at h ⊢
  cases h1 : addForms C σ forms (initSt inp Po.isSome) with
  | error e => simp only [h1] at h ⊢; exact h
  | ok s1 =>
    simp only [h1] at h ⊢
    cases h2 : addExtra σ extra s1 with
    | error e => simp only [h2] at h ⊢; exact h
    | ok s2 =>
      simp only [h2] at h ⊢
      exact solveLoop_fuel_mono qfuel qfuel' hq fuel fuel' s2 r hf h hr

end HabuVerif

namespace HabuVerif
open Tracker

variable {N I F V S : Type} [DecidableEq N] [DecidableEq I] [DecidableEq F]
variable {C : Cat N I F V S} {σ : Sched N I}

/-! ## 10. A finite universe and what stays inside it -/

/-- `U` (lines) and `UI` (inputs) contain everything a solve of the request `forms`, `extra` can
reach: the required lines of the requested forms, the requested extra lines, the required lines of
the form of every line of `U` (forms are loaded on demand), and every line / input a line of `U`
can be blocked on — for ALL stores, so that no assumption on the run is involved. -/
structure Universe (C : Cat N I F V S) (forms : List F) (extra : List N) (U : List N)
    (UI : List I) : Prop where
  reqForms : ∀ f ∈ forms, ∀ n ∈ C.required f, n ∈ U
  extra : ∀ n ∈ extra, n ∈ U
  reqDemand : ∀ m ∈ U, ∀ f, C.formOfN m = some f → ∀ n ∈ C.required f, n ∈ U
  readV : ∀ n ∈ U, ∀ (vs : N → Option V) (is : I → InpRes V) (fs : F → Bool) (m : N),
    run vs is fs (C.sem n) = .needV m → m ∈ U
  readI : ∀ n ∈ U, ∀ (vs : N → Option V) (is : I → InpRes V) (fs : F → Bool) (x : I),
    run vs is fs (C.sem n) = .needI x → x ∈ UI
  readS : ∀ n ∈ U, ∀ (vs : N → Option V) (is : I → InpRes V) (fs : F → Bool) (x : I),
    run vs is fs (C.sem n) = .needSpec x → x ∈ UI

theorem run_needI_occurs {vs : N → Option V} {is : I → InpRes V} {fs : F → Bool}
    (t : Tree N I F V) (x : I) (h : run vs is fs t = .needI x) : t.OccursI x := by
  induction t with
  | ret w => simp [run] at h
  | notImpl => simp [run] at h
  | err c => simp [run] at h
  | readV n k ih =>
    simp only [run] at h
    cases hn : vs n with
    | none => simp [hn] at h
    | some w => simp only [hn] at h; exact .inReadV (ih w h)
  | readI y k ih =>
    simp only [run] at h
    cases hy : is y with
    | ok w => simp only [hy] at h; exact .inReadI (ih w h)
    | noSpec => simp [hy] at h
    | missing => simp only [hy] at h; injection h with h; subst h; exact .here
    | invalid => simp [hy] at h
  | needForm f k ih =>
    simp only [run] at h
    cases hf : fs f with
    | true => simp only [hf, if_true] at h; exact .inNeedForm (ih h)
    | false => simp [hf] at h

/-- the syntactic version: closure under the names occurring anywhere in the strategy trees -/
theorem Universe.ofOccurs {forms : List F} {extra U : List N} {UI : List I}
    (reqForms : ∀ f ∈ forms, ∀ n ∈ C.required f, n ∈ U) (hextra : ∀ n ∈ extra, n ∈ U)
    (reqDemand : ∀ m ∈ U, ∀ f, C.formOfN m = some f → ∀ n ∈ C.required f, n ∈ U)
    (occV : ∀ n ∈ U, ∀ m, (C.sem n).OccursV m → m ∈ U)
    (occI : ∀ n ∈ U, ∀ x, (C.sem n).OccursI x → x ∈ UI) : Universe C forms extra U UI :=
  ⟨reqForms, hextra, reqDemand, fun n hn _ _ _ m h => occV n hn m (run_needV_occurs _ _ h),
   fun n hn _ _ _ x h => occI n hn x (run_needI_occurs _ _ h),
   fun n hn _ _ _ x h => occI n hn x (run_needSpec_occurs _ _ h)⟩

@[simp] theorem allN_apply (n : N) : (allN n) = true := rfl

/-- members of `U` that are being solved -/
def cSol (U : List N) (s : St N I F V S) : Nat := U.countP fun n => decide (n ∈ s.solving)
/-- members of `UI` whose specification is loaded -/
def cSpec (UI : List I) (s : St N I F V S) : Nat := UI.countP fun x => decide (x ∈ s.specs)

theorem cSol_le (U : List N) (s : St N I F V S) : cSol U s ≤ U.length := List.countP_le_length
theorem cSpec_le (UI : List I) (s : St N I F V S) : cSpec UI s ≤ UI.length := List.countP_le_length

theorem cSol_mono {U : List N} {s s' : St N I F V S} (h : ∀ n, n ∈ s.solving → n ∈ s'.solving) :
    cSol U s ≤ cSol U s' :=
  List.countP_mono_left (fun n _ hn => by simp only [decide_eq_true_eq] at hn ⊢; exact h n hn)

theorem cSol_succ {U : List N} {s s' : St N I F V S} (h : ∀ n, n ∈ s.solving → n ∈ s'.solving)
    {m : N} (hU : m ∈ U) (h1 : m ∉ s.solving) (h2 : m ∈ s'.solving) : cSol U s + 1 ≤ cSol U s' :=
  countP_succ_le (fun n _ hn => by simp only [decide_eq_true_eq] at hn ⊢; exact h n hn) hU
    (by simpa using h1) (by simpa using h2)

theorem cSpec_mono {UI : List I} {s s' : St N I F V S} (h : ∀ x, x ∈ s.specs → x ∈ s'.specs) :
    cSpec UI s ≤ cSpec UI s' :=
  List.countP_mono_left (fun n _ hn => by simp only [decide_eq_true_eq] at hn ⊢; exact h n hn)

theorem cSpec_succ {UI : List I} {s s' : St N I F V S} (h : ∀ x, x ∈ s.specs → x ∈ s'.specs)
    {x : I} (hU : x ∈ UI) (h1 : x ∉ s.specs) (h2 : x ∈ s'.specs) : cSpec UI s + 1 ≤ cSpec UI s' :=
  countP_succ_le (fun n _ hn => by simp only [decide_eq_true_eq] at hn ⊢; exact h n hn) hU
    (by simpa using h1) (by simpa using h2)

/-- The run stays inside the universe, and the global counters are bounded by it.
`R` bounds the length of every required list, `fl` counts the requested forms processed so far,
`e` the requested extra lines processed so far. -/
structure InU (U : List N) (UI : List I) (R fl e : Nat) (s : St N I F V S) : Prop where
  top : NoLoadTop s.log
  sol : ∀ n ∈ s.solving, n ∈ U
  wV : ∀ m ∈ waitedV allN s.log, m ∈ U
  wI : ∀ x ∈ waitedI allN s.log, x ∈ UI
  keysI : ∀ x ∈ keys s.ideps.unmet, x ∈ UI
  ans : ∀ x ∈ answered s.log, x ∈ UI
  /-- one distinct input of `UI` got its specification per retry -/
  sp : (retryForms allN s.log).length ≤ cSpec UI s
  /-- enqueues: one per demanded line of `U`, the extras, at most `R` per full load -/
  pu : (pushed allN s.log).length ≤ cSol U s + e + R * (fullLoads s.log).length
  /-- full loads: the requested ones, and at most one per demanded line of `U` -/
  ld : (fullLoads s.log).length ≤ fl + cSol U s

variable {U : List N} {UI : List I} {R fl e : Nat}

/-- steps that enqueue nothing, load nothing and retry nothing -/
theorem InU.frame {s s' : St N I F V S} (h : InU U UI R fl e s)
    (htop : NoLoadTop s'.log) (hsol : s'.solving = s.solving) (hspecs : s'.specs = s.specs)
    (hwV : ∀ m ∈ waitedV allN s'.log, m ∈ waitedV allN s.log ∨ m ∈ U)
    (hwI : ∀ x ∈ waitedI allN s'.log, x ∈ waitedI allN s.log ∨ x ∈ UI)
    (hkeys : ∀ x ∈ keys s'.ideps.unmet, x ∈ keys s.ideps.unmet ∨ x ∈ UI)
    (hans : ∀ x ∈ answered s'.log, x ∈ answered s.log ∨ x ∈ UI)
    (hrf : retryForms allN s'.log = retryForms allN s.log)
    (hpu : pushed allN s'.log = pushed allN s.log)
    (hld : fullLoads s'.log = fullLoads s.log) : InU U UI R fl e s' := by
  have c1 : cSol U s' = cSol U s := by unfold cSol; rw [hsol]
  have c2 : cSpec UI s' = cSpec UI s := by unfold cSpec; rw [hspecs]
  refine ⟨htop, by rw [hsol]; exact h.sol, ?_, ?_, ?_, ?_, ?_, ?_, ?_⟩
  · intro m hm; exact (hwV m hm).elim (h.wV m) id
  · intro x hx; exact (hwI x hx).elim (h.wI x) id
  · intro x hx; exact (hkeys x hx).elim (h.keysI x) id
  · intro x hx; exact (hans x hx).elim (h.ans x) id
  · rw [hrf, c2]; exact h.sp
  · rw [hpu, hld, c1]; exact h.pu
  · rw [hld, c1]; exact h.ld

theorem keys_addUnmet {D W : Type} [DecidableEq D] (t : Tracker D W) (d : D) (w : W) :
    ∀ k, k ∈ keys (t.addUnmet d w).unmet → k ∈ keys t.unmet ∨ k = d := by
  intro k hk
  unfold addUnmet at hk
  split at hk
  · simp only [keys, List.map_append, List.map_cons, List.map_nil, List.mem_append,
      List.mem_singleton] at hk
    exact hk
  · rw [keys_setKey] at hk; exact Or.inl hk

end HabuVerif

namespace HabuVerif
open Tracker

variable {N I F V S : Type} [DecidableEq N] [DecidableEq I] [DecidableEq F]
variable {C : Cat N I F V S} {σ : Sched N I}
variable {U : List N} {UI : List I} {R fl e : Nat}

theorem filter_allN (ns : List N) : ns.filter allN = ns := by
  simp [allN]

/-- a demand: `m ∈ U` starts being solved, after at most one full load -/
theorem InU.demandPush {s s' : St N I F V S} (h : InU U UI R fl e s) {m : N} (hmU : m ∈ U)
    (hm1 : m ∉ s.solving) (hm2 : m ∈ s'.solving)
    (hgrow : ∀ n, n ∈ s.solving → n ∈ s'.solving) (hsolU : ∀ n ∈ s'.solving, n ∈ U)
    (hspecs : ∀ x, x ∈ s.specs → x ∈ s'.specs) (htop : NoLoadTop s'.log)
    (hwV : ∀ m ∈ waitedV allN s'.log, m ∈ waitedV allN s.log ∨ m ∈ U)
    (hwI : ∀ x ∈ waitedI allN s'.log, x ∈ waitedI allN s.log ∨ x ∈ UI)
    (hkeys : ∀ x ∈ keys s'.ideps.unmet, x ∈ keys s.ideps.unmet ∨ x ∈ UI)
    (hans : ∀ x ∈ answered s'.log, x ∈ answered s.log ∨ x ∈ UI)
    (hrf : retryForms allN s'.log = retryForms allN s.log) (dp dq dl : Nat)
    (hpu : (pushed allN s'.log).length = (pushed allN s.log).length + dp + dq)
    (hld : (fullLoads s'.log).length = (fullLoads s.log).length + dl)
    (hdp : dp ≤ R * dl) (hdl : dl ≤ 1) (hdq : dq ≤ 1) : InU U UI R fl e s' := by
  have c1 : cSol U s + 1 ≤ cSol U s' := cSol_succ hgrow hmU hm1 hm2
  have c2 : cSpec UI s ≤ cSpec UI s' := cSpec_mono hspecs
  refine ⟨htop, hsolU, ?_, ?_, ?_, ?_, ?_, ?_, ?_⟩
  · intro m hm; exact (hwV m hm).elim (h.wV m) id
  · intro x hx; exact (hwI x hx).elim (h.wI x) id
  · intro x hx; exact (hkeys x hx).elim (h.keysI x) id
  · intro x hx; exact (hans x hx).elim (h.ans x) id
  · rw [hrf]; exact h.sp.trans c2
  · rw [hpu, hld, Nat.mul_add]
    have := h.pu; omega
  · rw [hld]
    have := h.ld; omega

/-- a requested form is loaded (before the main loop) -/
theorem InU.load0 (hR : ∀ f, (C.required f).length ≤ R) {s s' : St N I F V S} {f : F}
    (h : InU U UI R fl e s) (hreq : ∀ n ∈ C.required f, n ∈ U)
    (ha : addForm C σ s f false = .ok s') : InU U UI R (fl + 1) e s' := by
  have hl := addForm_log ha
  simp only [Bool.false_eq_true, if_false] at hl
  obtain ⟨_, _, _, _, hid, _, _, _, _, hF⟩ := addForm_ok ha
  obtain ⟨_, _, _, hsol⟩ := hF rfl
  have g := addForm_grow ha
  have c1 : cSol U s ≤ cSol U s' := cSol_mono g.sol
  have c2 : cSpec UI s ≤ cSpec UI s' := cSpec_mono g.specs
  have hpu : (pushed allN s'.log).length = (pushed allN s.log).length + (C.required f).length := by
    rw [hl, pushed_map_push, filter_allN]; simp; omega
  have hld : (fullLoads s'.log).length = (fullLoads s.log).length + 1 := by
    rw [hl, fullLoads_map_push]; simp
  refine ⟨?_, ?_, ?_, ?_, ?_, ?_, ?_, ?_, ?_⟩
  · rw [hl]; exact noLoadTop_map_push _ _ (noLoadTop_cons _ (by intro g hg; cases hg))
  · intro n hn
    rcases (hsol n).mp hn with hn | hn
    · exact h.sol n hn
    · exact hreq n hn
  · intro m hm; rw [hl, waitedV_map_push] at hm; exact h.wV m (by simpa using hm)
  · intro x hx; rw [hl, waitedI_map_push] at hx; exact h.wI x (by simpa using hx)
  · rw [hid]; exact h.keysI
  · intro x hx; rw [hl, answered_map_push] at hx; exact h.ans x (by simpa using hx)
  · rw [hl, retryForms_map_push]; simp only [retryForms_load]; exact h.sp.trans c2
  · rw [hpu, hld, Nat.mul_add]
    have := h.pu; have := hR f; omega
  · rw [hld]; have := h.ld; omega

/-- a requested extra line is enqueued (before the main loop) -/
theorem InU.pushExtra {s s' : St N I F V S} {k : N} (h : InU U UI R fl e s) (hk : k ∈ U)
    (hlog : s'.log = .push k :: s.log) (hsol : ∀ n, n ∈ s'.solving ↔ n ∈ s.solving ∨ n = k)
    (hspecs : s'.specs = s.specs) (hid : s'.ideps = s.ideps) : InU U UI R fl (e + 1) s' := by
  have c1 : cSol U s ≤ cSol U s' := cSol_mono (fun n hn => (hsol n).mpr (Or.inl hn))
  have c2 : cSpec UI s' = cSpec UI s := by unfold cSpec; rw [hspecs]
  refine ⟨?_, ?_, ?_, ?_, ?_, ?_, ?_, ?_, ?_⟩
  · rw [hlog]; exact noLoadTop_cons _ (by intro g hg; cases hg)
  · intro n hn
    rcases (hsol n).mp hn with hn | rfl
    · exact h.sol n hn
    · exact hk
  · intro m hm; rw [hlog] at hm; exact h.wV m (by simpa using hm)
  · intro x hx; rw [hlog] at hx; exact h.wI x (by simpa using hx)
  · rw [hid]; exact h.keysI
  · intro x hx; rw [hlog] at hx; exact h.ans x (by simpa using hx)
  · rw [hlog, c2]; simpa using h.sp
  · rw [hlog]
    simp only [pushed_push, allN_apply, if_true, List.length_cons, fullLoads_push]
    have := h.pu; omega
  · rw [hlog]; simp only [fullLoads_push]; have := h.ld; omega

theorem inU_init (inp : List (I × S)) (b : Bool) : InU U UI R 0 0 (initSt inp b : St N I F V S) := by
  refine ⟨?_, ?_, ?_, ?_, ?_, ?_, ?_, ?_, ?_⟩ <;> simp [initSt, NoLoadTop, keys]

/-- a `MissingInputSpecification` retry for an input of `UI` -/
theorem InU.retry {s s1 : St N I F V S} {f : F} {x : I} {k : N} (h : InU U UI R fl e s)
    (ha : addForm C σ s f true = .ok s1) (hxU : x ∈ UI) (hx1 : x ∉ s.specs) (hx2 : x ∈ s1.specs) :
    InU U UI R fl e { s1 with log := .attempt k :: s1.log } := by
  have hl := addForm_log ha
  simp only [if_true, List.nil_append] at hl
  obtain ⟨_, _, _, _, hid, _, _, _, hT, _⟩ := addForm_ok ha
  obtain ⟨_, _, _, hsol⟩ := hT rfl
  have g := addForm_grow ha
  have c1 : cSol U s1 = cSol U s := by unfold cSol; rw [hsol]
  have c2 : cSpec UI s + 1 ≤ cSpec UI s1 := cSpec_succ g.specs hxU hx1 hx2
  refine ⟨noLoadTop_cons _ (by intro g hg; cases hg), ?_, ?_, ?_, ?_, ?_, ?_, ?_, ?_⟩
  · show ∀ n ∈ s1.solving, n ∈ U
    rw [hsol]; exact h.sol
  · intro m hm
    have hm' : m ∈ waitedV allN (.attempt k :: s1.log) := hm
    rw [hl] at hm'; exact h.wV m (by simpa using hm')
  · intro y hy
    have hy' : y ∈ waitedI allN (.attempt k :: s1.log) := hy
    rw [hl] at hy'; exact h.wI y (by simpa using hy')
  · show ∀ y ∈ keys s1.ideps.unmet, y ∈ UI
    rw [hid]; exact h.keysI
  · intro y hy
    have hy' : y ∈ answered (.attempt k :: s1.log) := hy
    rw [hl] at hy'; exact h.ans y (by simpa using hy')
  · show (retryForms allN (.attempt k :: s1.log)).length ≤ cSpec UI s1
    rw [hl, retryForms_attempt_load]
    simp only [allN_apply, if_true, List.length_cons]
    have := h.sp; omega
  · show (pushed allN (.attempt k :: s1.log)).length ≤ cSol U s1 + e + R * (fullLoads (.attempt k :: s1.log)).length
    rw [hl, c1]; simpa using h.pu
  · show (fullLoads (.attempt k :: s1.log)).length ≤ fl + cSol U s1
    rw [hl, c1]; simpa using h.ld

/-- `demand` of a line of the universe keeps the run inside the universe -/
theorem InU.demand {forms : List F} {extra : List N} (hU : Universe C forms extra U UI)
    (hR : ∀ f, (C.required f).length ≤ R) {s s1 : St N I F V S} {m : N}
    (hi : InU U UI R fl e s) (hmU : m ∈ U) (hd : demand C σ s m = .ok s1) :
    InU U UI R fl e s1 := by
  rcases demand_cases hd with ⟨hmem, rfl⟩ | ⟨hmem, t, ht, _, hs1⟩
  · exact hi
  · -- the state after the optional load
    have key : ∃ dp dl, (pushed allN t.log).length = (pushed allN s.log).length + dp ∧
        (fullLoads t.log).length = (fullLoads s.log).length + dl ∧ dp ≤ R * dl ∧ dl ≤ 1 ∧
        NoLoadTop t.log ∧ retryForms allN t.log = retryForms allN s.log ∧
        waitedV allN t.log = waitedV allN s.log ∧ waitedI allN t.log = waitedI allN s.log ∧
        answered t.log = answered s.log ∧ t.ideps = s.ideps ∧
        (∀ n, n ∈ s.solving → n ∈ t.solving) ∧ (∀ n ∈ t.solving, n ∈ U) ∧
        (∀ x, x ∈ s.specs → x ∈ t.specs) := by
      rcases ht with ⟨_, rfl⟩ | ⟨_, f, hfo, hadd⟩
      · exact ⟨0, 0, rfl, rfl, by omega, by omega, hi.top, rfl, rfl, rfl, rfl, rfl, fun _ h => h,
          hi.sol, fun _ h => h⟩
      · have hl := addForm_log hadd
        simp only [Bool.false_eq_true, if_false] at hl
        obtain ⟨_, _, _, _, hid, _, _, _, _, hF⟩ := addForm_ok hadd
        obtain ⟨_, _, _, hsol⟩ := hF rfl
        have g := addForm_grow hadd
        refine ⟨(C.required f).length, 1, ?_, ?_, by have := hR f; omega, by omega, ?_, ?_, ?_, ?_,
          ?_, hid, g.sol, ?_, g.specs⟩
        · rw [hl, pushed_map_push, filter_allN]; simp; omega
        · rw [hl, fullLoads_map_push]; simp
        · rw [hl]; exact noLoadTop_map_push _ _ (noLoadTop_cons _ (by intro g hg; cases hg))
        · rw [hl, retryForms_map_push]; simp
        · rw [hl, waitedV_map_push]; simp
        · rw [hl, waitedI_map_push]; simp
        · rw [hl, answered_map_push]; simp
        · intro n hn
          rcases (hsol n).mp hn with hn | hn
          · exact hi.sol n hn
          · exact hU.reqDemand m hmU f hfo n hn
    obtain ⟨dp, dl, k1, k2, k3, k4, k5, k6, k7, k8, k9, k10, k11, k12, k13⟩ := key
    rcases hs1 with ⟨hmt, rfl⟩ | ⟨hmt, rfl⟩
    · -- the load has already scheduled `m`
      exact hi.demandPush hmU hmem hmt k11 k12 k13 k5 (fun j hj => Or.inl (by rw [← k7]; exact hj))
        (fun y hy => Or.inl (by rw [← k8]; exact hy)) (fun y hy => Or.inl (by rw [← k10]; exact hy))
        (fun y hy => Or.inl (by rw [← k9]; exact hy)) k6 dp 0 dl (by omega) k2 k3 k4 (by omega)
    · refine hi.demandPush hmU hmem (by show m ∈ t.solving ++ [m]; simp)
        (fun n hn => by show n ∈ t.solving ++ [m]; exact List.mem_append_left _ (k11 n hn))
        ?_ k13 (noLoadTop_cons _ (by intro g hg; cases hg)) ?_ ?_ ?_ ?_ ?_ dp 1 dl ?_ k2 k3 k4 (by omega)
      · intro n hn
        have hn' : n ∈ t.solving ++ [m] := hn
        rcases List.mem_append.mp hn' with hn' | hn'
        · exact k12 n hn'
        · rw [List.mem_singleton.mp hn']; exact hmU
      · intro j hj
        have hj' : j ∈ waitedV allN (.push m :: t.log) := hj
        rw [waitedV_push, k7] at hj'; exact Or.inl hj'
      · intro y hy
        have hy' : y ∈ waitedI allN (.push m :: t.log) := hy
        rw [waitedI_push, k8] at hy'; exact Or.inl hy'
      · intro y hy
        have hy' : y ∈ keys t.ideps.unmet := hy
        rw [k10] at hy'; exact Or.inl hy'
      · intro y hy
        have hy' : y ∈ answered (.push m :: t.log) := hy
        rw [answered_push, k9] at hy'; exact Or.inl hy'
      · show retryForms allN (.push m :: t.log) = _
        rw [retryForms_push, k6]
      · show (pushed allN (.push m :: t.log)).length = _
        simp only [pushed_push, allN_apply, if_true, List.length_cons, k1]

/-- one `_attempt_field` keeps the run inside the universe -/
theorem InU.field (hC : CatWF C) (hσ : SchedOK σ) {forms : List F} {extra : List N}
    (hU : Universe C forms extra U UI) (hR : ∀ f, (C.required f).length ≤ R) {L : List N} {k : N}
    (fuel : Nat) {s s' : St N I F V S} (hinv : Inv C (k :: L) s) (hi : InU U UI R fl e s)
    (h : attemptField C σ fuel s k = .ok s') : InU U UI R fl e s' := by
  refine attemptField_cases hC hσ (L := L) (fun s s' => InU U UI R fl e s → InU U UI R fl e s')
    ?_ ?_ ?_ ?_ ?_ fuel s s' hinv h hi
  · intro s x _ _ hi
    refine hi.frame (noLoadTop_cons _ (by intro g hg; cases hg)) rfl rfl ?_ ?_ ?_ ?_
      (retryForms_attempt_of_top allN _ k hi.top) rfl rfl
    · intro m hm; exact Or.inl (by simpa using hm)
    · intro y hy; exact Or.inl (by simpa using hy)
    · intro y hy; exact Or.inl hy
    · intro y hy; exact Or.inl (by simpa using hy)
  · intro s s1 m hinv hm hd hi
    have hk : k ∈ U := hi.sol k (hinv.qDem k (Or.inr List.mem_cons_self))
    have hmU : m ∈ U := hU.readV k hk s.vf (s.inf C) s.ff m hm
    have hi1 : InU U UI R fl e s1 := hi.demand hU hR hmU hd
    refine hi1.frame (noLoadTop_cons _ (by intro g hg; cases hg)) rfl rfl ?_ ?_ ?_ ?_ ?_ rfl rfl
    · intro j hj
      have hj' : j ∈ waitedV allN (.waitV k m :: .attempt k :: s1.log) := hj
      simp only [waitedV_waitV, allN_apply, if_true, waitedV_attempt, List.mem_cons] at hj'
      rcases hj' with rfl | hj'
      · exact Or.inr hmU
      · exact Or.inl hj'
    · intro y hy; exact Or.inl (by simpa using hy)
    · intro y hy; exact Or.inl hy
    · intro y hy; exact Or.inl (by simpa using hy)
    · show retryForms allN (.waitV k m :: .attempt k :: s1.log) = _
      rw [retryForms_waitV, retryForms_attempt_of_top allN _ k hi1.top]
  · intro s x hinv hx hi
    have hk : k ∈ U := hi.sol k (hinv.qDem k (Or.inr List.mem_cons_self))
    have hxU : x ∈ UI := hU.readI k hk s.vf (s.inf C) s.ff x hx
    refine hi.frame (noLoadTop_cons _ (by intro g hg; cases hg)) rfl rfl ?_ ?_ ?_ ?_ ?_ rfl rfl
    · intro m hm; exact Or.inl (by simpa using hm)
    · intro y hy
      have hy' : y ∈ waitedI allN (.waitI k x :: .attempt k :: s.log) := hy
      simp only [waitedI_waitI, allN_apply, if_true, waitedI_attempt, List.mem_cons] at hy'
      rcases hy' with rfl | hy'
      · exact Or.inr hxU
      · exact Or.inl hy'
    · intro y hy
      rcases keys_addUnmet s.ideps x k y hy with h' | rfl
      · exact Or.inl h'
      · exact Or.inr hxU
    · intro y hy; exact Or.inl (by simpa using hy)
    · show retryForms allN (.waitI k x :: .attempt k :: s.log) = _
      rw [retryForms_waitI, retryForms_attempt_of_top allN _ k hi.top]
  · intro s _ _ hi
    refine hi.frame (noLoadTop_cons _ (by intro g hg; cases hg)) rfl rfl ?_ ?_ ?_ ?_
      (retryForms_attempt_of_top allN _ k hi.top) rfl rfl
    · intro m hm; exact Or.inl (by simpa using hm)
    · intro y hy; exact Or.inl (by simpa using hy)
    · intro y hy; exact Or.inl hy
    · intro y hy; exact Or.inl (by simpa using hy)
  · intro s s1 s' x f hinv hx hfo hadd hxs hinv1 ih hi
    apply ih
    have hk : k ∈ U := hi.sol k (hinv.qDem k (Or.inr List.mem_cons_self))
    have hxU : x ∈ UI := hU.readS k hk s.vf (s.inf C) s.ff x hx
    have hxn : x ∉ s.specs := by
      have h1 : s.inf C x = .noSpec := run_needSpec_noSpec _ _ _ _ _ hx
      intro hmem
      simp only [St.inf, hmem, if_true] at h1
      cases hl' : s.inp.lookup x with
      | none => simp [hl'] at h1
      | some str => cases hp : C.parse x str <;> simp [hl', hp] at h1
    exact hi.retry hadd hxU hxn hxs

theorem inU_thread (hC : CatWF C) (hσ : SchedOK σ) {forms : List F} {extra : List N}
    (hU : Universe C forms extra U UI) (hR : ∀ f, (C.required f).length ≤ R)
    (P : Nat → I → List N → Option S) : Thread C σ P (fun _ s => InU U UI R fl e s) where
  relist := fun _ h => h
  pop := fun _ h _ => h.frame h.top rfl rfl (fun _ hm => Or.inl hm) (fun _ hm => Or.inl hm)
    (fun _ hm => Or.inl hm) (fun _ hm => Or.inl hm) rfl rfl rfl
  field := fun hinv h ha => h.field hC hσ hU hR specFuel hinv ha
  drainF := fun _ h _ => h.frame h.top rfl rfl (fun _ hm => Or.inl hm) (fun _ hm => Or.inl hm)
    (fun _ hm => Or.inl hm) (fun _ hm => Or.inl hm) rfl rfl rfl
  drainI := by
    intro L s ws idp hinv h hd
    obtain ⟨_, _, _, hk⟩ := tok_drainAll allN s.ideps idp hinv.iwf ws hd
    exact h.frame h.top rfl rfl (fun _ hm => Or.inl hm) (fun _ hm => Or.inl hm)
      (fun x hx => Or.inl (hk x hx)) (fun _ hm => Or.inl hm) rfl rfl rfl
  input := by
    intro L s s' x hinv href hxm hxk h ha
    obtain ⟨nb, _, hc⟩ := attemptInput_cases ha
    rcases hc with ⟨_, rfl⟩ | ⟨str, _, rfl⟩
    · refine h.frame (noLoadTop_cons _ (by intro g hg; cases hg)) rfl rfl ?_ ?_ ?_ ?_ (by simp) rfl rfl
      · intro m hm; exact Or.inl (by simpa using hm)
      · intro y hy; exact Or.inl (by simpa using hy)
      · intro y hy; exact Or.inl hy
      · intro y hy; exact Or.inl (by simpa using hy)
    · refine h.frame (noLoadTop_cons _ (by intro g hg; cases hg)) rfl rfl ?_ ?_ ?_ ?_ (by simp) rfl rfl
      · intro m hm; exact Or.inl (by simpa using hm)
      · intro y hy; exact Or.inl (by simpa using hy)
      · intro y hy; exact Or.inl hy
      · intro y hy
        have hy' : y ∈ answered (.prompt x nb (some str) :: s.log) := hy
        simp only [answered_prompt_some, List.mem_cons] at hy'
        rcases hy' with rfl | hy'
        · exact Or.inr (h.keysI y hxk)
        · exact Or.inl hy'

theorem inU_addForms (hR : ∀ f, (C.required f).length ≤ R) :
    ∀ (fs : List F) {fl : Nat} {s s' : St N I F V S}, InU U UI R fl e s →
      (∀ f ∈ fs, ∀ n ∈ C.required f, n ∈ U) → addForms C σ fs s = .ok s' →
      InU U UI R (fl + fs.length) e s' := by
  intro fs
  induction fs with
  | nil => intro fl s s' h _ ha; simp only [addForms] at ha; cases ha; simpa using h
  | cons f fs ih =>
    intro fl s s' h hreq ha
    simp only [addForms] at ha
    cases h1 : addForm C σ s f false with
    | error e => simp [h1] at ha
    | ok s1 =>
      simp only [h1] at ha
      have := ih (h.load0 hR (hreq f List.mem_cons_self) h1)
        (fun g hg => hreq g (List.mem_cons_of_mem _ hg)) ha
      have he : fl + 1 + fs.length = fl + (f :: fs).length := by simp; omega
      rw [← he]; exact this

theorem inU_addExtra :
    ∀ (ns : List N) {e : Nat} {s s' : St N I F V S}, InU U UI R fl e s → (∀ n ∈ ns, n ∈ U) →
      addExtra σ ns s = .ok s' → InU U UI R fl (e + ns.length) s' := by
  intro ns
  induction ns with
  | nil => intro e s s' h _ ha; simp only [addExtra] at ha; cases ha; simpa using h
  | cons k ns ih =>
    intro e s s' h hU ha
    simp only [addExtra] at ha
    split at ha
    · have hstep : InU U UI R fl (e + 1) ({ s with queue := σ.sortQ (s.queue ++ [k]), solving := if k ∈ s.solving then s.solving else s.solving ++ [k], log := .push k :: s.log } : St N I F V S) := by
        refine h.pushExtra (hU k List.mem_cons_self) rfl ?_ rfl rfl
        intro n
        show n ∈ (if k ∈ s.solving then s.solving else s.solving ++ [k]) ↔ _
        split
        · rename_i hk
          constructor
          · exact Or.inl
          · rintro (h | rfl)
            · exact h
            · exact hk
        · simp
      have := ih hstep (fun n hn => hU n (List.mem_cons_of_mem _ hn)) ha
      have he : e + 1 + ns.length = e + (k :: ns).length := by simp; omega
      rw [← he]; exact this
    · simp at ha

/-! ## 11. The global bounds -/

/-- bound on the number of enqueues -/
def pushBound (u fl e R : Nat) : Nat := u + e + R * (fl + u)
/-- bound on the number of line evaluations of a whole solve: `u` lines, `ui` inputs in the
universe, `fl` requested forms, `e` requested extra lines, required lists of length `≤ R` -/
def attemptBound (u ui fl e R : Nat) : Nat := pushBound u fl e R * (1 + u + ui) + ui

theorem prompts_eq (l : List (Event N I F S)) : prompts l = (answered l).length + refusals l := by
  induction l with
  | nil => rfl
  | cons ev l ih =>
    cases ev with
    | prompt x nb a =>
      cases a with
      | none => simp [ih]; omega
      | some a => simp [ih]; omega
    | attempt n => simpa using ih
    | loadForm f b => simpa using ih
    | push n => simpa using ih
    | waitV n m => simpa using ih
    | waitI n x => simpa using ih

theorem total_attempts_le {L : List N} {s : St N I F V S} (w : Work C allN L s)
    (hi : InU U UI R fl e s) :
    (attempted allN s.log).length ≤ attemptBound U.length UI.length fl e R := by
  have hbal := w.acct.bal
  have hpb : (pushed allN s.log).length ≤ pushBound U.length fl e R := by
    have h1 := hi.pu
    have h2 := hi.ld
    have h3 := cSol_le U s
    have h4 : R * (fullLoads s.log).length ≤ R * (fl + U.length) :=
      Nat.mul_le_mul_left R (by omega)
    unfold pushBound; omega
  have hv : (waitedV allN s.log).length ≤ pushBound U.length fl e R * U.length :=
    (length_le_mul_of_count_le w.acct.regV' hi.wV).trans (Nat.mul_le_mul_right _ hpb)
  have hx : (waitedI allN s.log).length ≤ pushBound U.length fl e R * UI.length :=
    (length_le_mul_of_count_le w.acct.regI' hi.wI).trans (Nat.mul_le_mul_right _ hpb)
  have hr : (retryForms allN s.log).length ≤ UI.length := hi.sp.trans (cSpec_le UI s)
  unfold attemptBound
  rw [Nat.mul_add, Nat.mul_add, Nat.mul_one]
  omega

theorem total_prompts_le {L : List N} {s : St N I F V S} (w : Work C allN L s)
    (hi : InU U UI R fl e s) : prompts s.log ≤ UI.length + 1 := by
  rw [prompts_eq]
  have h1 : (answered s.log).length ≤ UI.length := (w.prompt.nodup.subperm hi.ans).length_le
  have h2 := w.prompt.ref1
  omega

end HabuVerif

namespace HabuVerif
open Tracker

variable {N I F V S : Type} [DecidableEq N] [DecidableEq I] [DecidableEq F]
variable {C : Cat N I F V S} {σ : Sched N I}

/-! ## 12. Termination of the two fuelled loops -/

/-- total number of line evaluations so far -/
def att (s : St N I F V S) : Nat := (attempted allN s.log).length

theorem attemptField_att (hC : CatWF C) (hσ : SchedOK σ) {L : List N} {n : N} (fuel : Nat)
    {s s' : St N I F V S} (hinv : Inv C (n :: L) s) (h : attemptField C σ fuel s n = .ok s') :
    att s + 1 ≤ att s' ∧ prompts s'.log = prompts s.log := by
  obtain ⟨pre, h1, h2, h3⟩ := attemptField_log hC hσ fuel hinv h
  unfold att
  rw [h1, attempted_append, List.length_append, prompts_append, h2]
  omega

theorem attemptAll_att (hC : CatWF C) (hσ : SchedOK σ) :
    ∀ (ns : List N) {L : List N} {s s' : St N I F V S}, Inv C (ns ++ L) s →
      attemptAll C σ ns s = .ok s' →
      att s + ns.length ≤ att s' ∧ prompts s'.log = prompts s.log ∧ (ns = [] → s' = s) := by
  intro ns
  induction ns with
  | nil => intro L s s' _ h; simp only [attemptAll] at h; cases h; exact ⟨by simp, rfl, fun _ => rfl⟩
  | cons n ns ih =>
    intro L s s' hinv h
    simp only [attemptAll] at h
    cases ha : attemptField C σ specFuel s n with
    | error e => simp [ha] at h
    | ok s1 =>
      simp only [ha] at h
      obtain ⟨hinv1, _⟩ := attemptField_inv hC hσ specFuel (L := ns ++ L) hinv ha
      obtain ⟨a1, a2⟩ := attemptField_att hC hσ specFuel (L := ns ++ L) hinv ha
      obtain ⟨b1, b2, _⟩ := ih hinv1 h
      refine ⟨by simp only [List.length_cons]; omega, by rw [b2, a2], fun hn => by cases hn⟩

theorem drainQueue_att (hC : CatWF C) (hσ : SchedOK σ) (fuel : Nat) :
    ∀ {L : List N} {s s' : St N I F V S}, Inv C L s → drainQueue C σ fuel s = .ok (some s') →
      att s ≤ att s' ∧ prompts s'.log = prompts s.log ∧ (s.queue ≠ [] → att s + 1 ≤ att s') ∧
      (s.queue = [] → s' = s) := by
  induction fuel with
  | zero => intro L s s' _ h; simp [drainQueue] at h
  | succ fuel ih =>
    intro L s s' hinv h
    simp only [drainQueue] at h
    cases hl : s.queue.getLast? with
    | none =>
      simp only [hl] at h; cases h
      exact ⟨Nat.le_refl _, rfl, fun hne => absurd (List.getLast?_eq_none_iff.mp hl) hne, fun _ => rfl⟩
    | some n =>
      simp only [hl] at h
      cases ha : attemptField C σ specFuel { s with queue := s.queue.dropLast } n with
      | error e => simp [ha] at h
      | ok s1 =>
        simp only [ha] at h
        obtain ⟨hinv1, _⟩ := attemptField_inv hC hσ specFuel (hinv.pop hl) ha
        obtain ⟨a1, a2⟩ := attemptField_att hC hσ specFuel (hinv.pop hl) ha
        obtain ⟨b1, b2, _, _⟩ := ih hinv1 h
        have a1' : att s + 1 ≤ att s1 := a1
        have a2' : prompts s1.log = prompts s.log := a2
        refine ⟨by omega, by rw [b2, a2'], fun _ => by omega, fun hq => ?_⟩
        rw [hq] at hl; simp at hl

theorem promptAll_counts {P : Nat → I → List N → Option S} :
    ∀ (xs : List I) {s s' : St N I F V S}, promptAll C P xs s = .ok s' →
      att s' = att s ∧ prompts s.log ≤ prompts s'.log ∧
      (xs ≠ [] → prompts s.log + 1 ≤ prompts s'.log) ∧ s'.fdeps = s.fdeps := by
  intro xs
  induction xs with
  | nil =>
    intro s s' h; simp only [promptAll] at h; cases h
    exact ⟨rfl, Nat.le_refl _, fun h => absurd rfl h, rfl⟩
  | cons x xs ih =>
    intro s s' h
    simp only [promptAll] at h
    cases ha : attemptInput C P s x with
    | error e => simp [ha] at h
    | ok s1 =>
      simp only [ha] at h
      have key : att s1 = att s ∧ prompts s1.log = prompts s.log + 1 ∧ s1.fdeps = s.fdeps := by
        obtain ⟨nb, _, hc⟩ := attemptInput_cases ha
        rcases hc with ⟨_, rfl⟩ | ⟨str, _, rfl⟩
        · exact ⟨by simp [att], by simp, rfl⟩
        · exact ⟨by simp [att], by simp, rfl⟩
      obtain ⟨k1, k2, k3⟩ := key
      split at h
      · cases h; exact ⟨k1, by omega, fun _ => by omega, k3⟩
      · obtain ⟨b1, b2, _, b4⟩ := ih h
        exact ⟨by rw [b1, k1], by omega, fun _ => by omega, by rw [b4, k3]⟩

/-- the quantity every pass through the outer loop increases -/
def progress (s : St N I F V S) : Nat :=
  2 * att s + prompts s.log + (if s.fdeps.met = [] then 1 else 0)

variable {P : Nat → I → List N → Option S} {Q : List N → St N I F V S → Prop}

theorem hasUnmet_ne_nil {D W : Type} [DecidableEq D] {t : Tracker D W} (h : t.hasUnmet = true) :
    t.unmetDependencies ≠ [] := by
  intro hn
  unfold unmetDependencies at hn
  have : t.unmet = [] := by simpa using hn
  simp [hasUnmet, this] at h

/-- **every pass through the body of the outer `while` makes progress** -/
theorem iteration_progress (hC : CatWF C) (hσ : SchedOK σ) (hQ : Thread C σ P Q)
    {qfuel : Nat} {s s' : St N I F V S} (hinv : Inv C [] s) (him : s.ideps.met = []) (q : Q [] s)
    (hc : loopCond s = true) (h : iteration C σ P qfuel s = .ok (some s')) :
    progress s + 1 ≤ progress s' := by
  obtain ⟨s1, s2, s3, ws, ws', fd, idp, hdq, hinv1, q1, hd, hfdm, ha, hinv2, q2, him2, hp, hinv3, q3,
    hd', hidm, ha', hinv4, q4, him4⟩ := iteration_stages hC hσ hQ hinv him q h
  obtain ⟨d1, d2, d3, d4⟩ := drainQueue_att hC hσ qfuel hinv hdq
  obtain ⟨_, _, _, _, hinvd⟩ := hinv1.drainF
  -- the released lines
  have hinvd' : Inv C (σ.sortW ws ++ []) { s1 with fdeps := fd } := by
    obtain ⟨ws0, fd0, hd0, _, hinv0⟩ := hinv1.drainF
    rw [hd] at hd0
    simp only [Option.some.injEq, Prod.mk.injEq] at hd0
    obtain ⟨rfl, rfl⟩ := hd0
    exact hinv0.relist (fun n => by simp [(hσ.w ws).mem_iff])
  obtain ⟨e1, e2, e3⟩ := attemptAll_att hC hσ _ hinvd' ha
  have e1' : att s1 + (σ.sortW ws).length ≤ att s2 := e1
  have e2' : prompts s2.log = prompts s1.log := e2
  have hinvd3' : Inv C (σ.sortR ws' ++ []) { s3 with ideps := idp } := by
    obtain ⟨ws0, idp0, hd0, _, hinv0⟩ := hinv3.drainI
    rw [hd'] at hd0
    simp only [Option.some.injEq, Prod.mk.injEq] at hd0
    obtain ⟨rfl, rfl⟩ := hd0
    exact hinv0.relist (fun n => by simp [(hσ.r ws').mem_iff])
  obtain ⟨g1, g2, g3⟩ := attemptAll_att hC hσ _ hinvd3' ha'
  have g1' : att s3 + (σ.sortR ws').length ≤ att s' := g1
  have g2' : prompts s'.log = prompts s3.log := g2
  -- the prompts
  have hpr : att s3 = att s2 ∧ prompts s2.log ≤ prompts s3.log ∧ s3.fdeps = s2.fdeps ∧
      (s2.refused = false → s2.ideps.unmetDependencies ≠ [] → prompts s2.log + 1 ≤ prompts s3.log) := by
    split at hp
    · rename_i href
      cases hp
      exact ⟨rfl, Nat.le_refl _, rfl, fun hf => by simp [hf] at href⟩
    · obtain ⟨p1, p2, p3, p4⟩ := promptAll_counts _ hp
      refine ⟨p1, p2, p4, fun _ hne => p3 ?_⟩
      intro hnil
      have := (hσ.i s2.ideps.unmetDependencies).length_eq
      rw [hnil] at this
      exact hne (List.length_eq_zero_iff.mp this.symm)
  obtain ⟨p1, p2, p3, p4⟩ := hpr
  have hflag : ∀ t : St N I F V S, (if t.fdeps.met = [] then 1 else 0 : Nat) ≤ 1 := by
    intro t; split <;> omega
  have hf := hflag s
  unfold progress
  by_cases hq : s.queue = []
  · have hs1 : s1 = s := d4 hq
    by_cases hws : σ.sortW ws = []
    · have hs2 : s2 = { s1 with fdeps := fd } := e3 hws
      by_cases hws' : σ.sortR ws' = []
      · have hs' : s' = { s3 with ideps := idp } := g3 hws'
        have hfd' : s'.fdeps.met = [] := by
          rw [hs']; show s3.fdeps.met = []; rw [p3, hs2]; exact hfdm
        rw [if_pos hfd']
        by_cases hsm : s.fdeps.met = []
        · -- only a prompt can have happened
          rw [if_pos hsm]
          have hcond : s.ideps.hasUnmet = true ∧ s.refused = false := by
            unfold loopCond at hc
            simp only [hq, List.isEmpty_nil, Bool.not_true, Bool.false_or, hasMet, him, hsm,
              Bool.or_false, Bool.and_eq_true, Bool.not_eq_eq_eq_not, Bool.not_true] at hc
            exact hc
          have hr2 : s2.refused = false := by rw [hs2, hs1]; exact hcond.2
          have hu2 : s2.ideps.unmetDependencies ≠ [] := by
            rw [hs2, hs1]; exact hasUnmet_ne_nil hcond.1
          have := p4 hr2 hu2
          omega
        · rw [if_neg hsm]; omega
      · have : 1 ≤ (σ.sortR ws').length := by
          cases hh : σ.sortR ws' with
          | nil => exact absurd hh hws'
          | cons a l => simp
        have := hflag s'
        omega
    · have : 1 ≤ (σ.sortW ws).length := by
        cases hh : σ.sortW ws with
        | nil => exact absurd hh hws
        | cons a l => simp
      have := hflag s'
      omega
  · have := d3 hq
    have := hflag s'
    omega

theorem iteration_none {qfuel : Nat} {s : St N I F V S}
    (h : iteration C σ P qfuel s = .ok none) (hinv : Inv C [] s) :
    drainQueue C σ qfuel s = .ok none := by
  unfold iteration at h
  cases hq : drainQueue C σ qfuel s with
  | error e => simp [hq] at h
  | ok o =>
    cases o with
    | none => rfl
    | some s1 =>
      exfalso
      simp only [hq] at h
      cases hd : s1.fdeps.drainAll with
      | none => simp [hd] at h
      | some wf =>
        obtain ⟨ws, fd⟩ := wf
        simp only [hd] at h
        cases ha : attemptAll C σ (σ.sortW ws) { s1 with fdeps := fd } with
        | error e => simp [ha] at h
        | ok s2 =>
          simp only [ha] at h
          cases hp : (if s2.refused then Except.ok s2
              else promptAll C P (σ.sortI s2.ideps.unmetDependencies) s2) with
          | error e => simp [hp] at h
          | ok s3 =>
            simp only [hp] at h
            cases hd' : s3.ideps.drainAll with
            | none => simp [hd'] at h
            | some wi =>
              obtain ⟨ws', idp⟩ := wi
              simp only [hd'] at h
              cases ha' : attemptAll C σ (σ.sortR ws') { s3 with ideps := idp } with
              | error e => simp [ha'] at h
              | ok s4 => simp [ha'] at h

/-- the queue loop does not run out of fuel when the number of evaluations is bounded -/
theorem drainQueue_total (hC : CatWF C) (hσ : SchedOK σ) (hQ : Thread C σ P Q) (B : Nat)
    (hB : ∀ (L : List N) (s : St N I F V S), Inv C L s → Q L s → att s ≤ B) :
    ∀ (fuel : Nat) {L : List N} {s : St N I F V S}, Inv C L s → Q L s → B < fuel + att s →
      drainQueue C σ fuel s ≠ .ok none := by
  intro fuel
  induction fuel with
  | zero => intro L s hinv q hlt; have := hB L s hinv q; omega
  | succ fuel ih =>
    intro L s hinv q hlt
    simp only [drainQueue]
    cases hl : s.queue.getLast? with
    | none => simp
    | some n =>
      simp only []
      cases ha : attemptField C σ specFuel { s with queue := s.queue.dropLast } n with
      | error e => simp
      | ok s1 =>
        simp only []
        obtain ⟨hinv1, _⟩ := attemptField_inv hC hσ specFuel (hinv.pop hl) ha
        obtain ⟨a1, _⟩ := attemptField_att hC hσ specFuel (hinv.pop hl) ha
        have a1' : att s + 1 ≤ att s1 := a1
        exact ih hinv1 (hQ.field (hinv.pop hl) (hQ.pop hinv q hl) ha) (by omega)

/-- the outer loop does not run out of fuel when evaluations and prompts are bounded -/
theorem solveLoop_total (hC : CatWF C) (hσ : SchedOK σ) (hQ : Thread C σ P Q) (B M : Nat)
    (hB : ∀ (L : List N) (s : St N I F V S), Inv C L s → Q L s → att s ≤ B)
    (hM : ∀ (s : St N I F V S), Inv C [] s → Q [] s → progress s ≤ M)
    {qfuel : Nat} (hqf : B < qfuel) :
    ∀ (fuel : Nat) {s : St N I F V S}, Inv C [] s → s.ideps.met = [] → Q [] s →
      M < fuel + progress s → solveLoop C σ P qfuel fuel s ≠ .ok none := by
  intro fuel
  induction fuel with
  | zero => intro s hinv him q hlt; have := hM s hinv q; omega
  | succ fuel ih =>
    intro s hinv him q hlt
    simp only [solveLoop]
    split
    · rename_i hc
      cases hi : iteration C σ P qfuel s with
      | error e => simp
      | ok o =>
        cases o with
        | none =>
          exfalso
          exact drainQueue_total hC hσ hQ B hB qfuel hinv q (by omega) (iteration_none hi hinv)
        | some s1 =>
          simp only []
          obtain ⟨a, b, c⟩ := iteration_thr hC hσ hQ hinv him q hi
          have := iteration_progress hC hσ hQ hinv him q hc hi
          exact ih a b c (by omega)
    · simp

/-! ## 13. `solve_terminates` -/

variable {U : List N} {UI : List I} {R : Nat}

/-- **C06, termination.**  If the request lives in a finite universe (`Universe`) and required
lists have at most `R` entries, then with
`qfuel = B + 1` and `fuel = 2·B + |UI| + 3`, where `B = attemptBound |U| |UI| |forms| |extra| R`,
`solve` ends with a verdict or an abort — never out of fuel — for EVERY catalogue semantics
(cycles, self-reference), schedule, prompt (answering, refusing, absent) and input store. -/
theorem solve_terminates (hC : CatWF C) (hσ : SchedOK σ) {forms : List F} {extra : List N}
    (hU : Universe C forms extra U UI) (hR : ∀ f, (C.required f).length ≤ R)
    (Po : Option (Nat → I → List N → Option S)) (inp : List (I × S)) :
    solve C σ Po inp forms extra
      (2 * attemptBound U.length UI.length forms.length extra.length R + UI.length + 3)
      (attemptBound U.length UI.length forms.length extra.length R + 1) ≠ .ok none := by
  unfold solve
  cases h1 : addForms C σ forms (initSt inp Po.isSome) with
  | error e => simp
  | ok s1 =>
    simp only []
    cases h2 : addExtra σ extra s1 with
    | error e => simp
    | ok s2 =>
      simp only []
      obtain ⟨a1, b1, _⟩ := addForms_inv hC hσ forms (initSt_inv inp _) (by simp [initSt]) h1
      obtain ⟨a2, b2⟩ := addExtra_inv hσ extra a1 b1 h2
      have w2 : Work C allN [] s2 :=
        work_addExtra hσ extra (work_addForms hσ forms (work_init inp _) h1) h2
      have i1 := inU_addForms (U := U) (UI := UI) (e := 0) hR forms (inU_init inp _) hU.reqForms h1
      have i2 := inU_addExtra extra i1 hU.extra h2
      simp only [Nat.zero_add] at i2
      let B := attemptBound U.length UI.length forms.length extra.length R
      let Q : List N → St N I F V S → Prop :=
        fun L s => Work C allN L s ∧ InU U UI R forms.length extra.length s
      have hQ : Thread C σ (Po.getD fun _ _ _ => none) Q :=
        (work_thread hC hσ _).and (inU_thread hC hσ hU hR _)
      have hB : ∀ (L : List N) (s : St N I F V S), Inv C L s → Q L s → att s ≤ B :=
        fun L s _ q => total_attempts_le q.1 q.2
      have hM : ∀ (s : St N I F V S), Inv C [] s → Q [] s → progress s ≤ 2 * B + UI.length + 2 := by
        intro s hinv q
        have h1 := hB [] s hinv q
        have h2 := total_prompts_le q.1 q.2
        unfold progress
        have : (if s.fdeps.met = [] then 1 else 0 : Nat) ≤ 1 := by split <;> omega
        omega
      exact solveLoop_total hC hσ hQ B (2 * B + UI.length + 2) hB hM (Nat.lt_succ_self B) _ a2 b2
        ⟨w2, i2⟩ (by omega)

/-- termination and fuel-independence together: above the explicit fuels the result is one fixed
verdict or abort -/
theorem solve_terminates_any_fuel (hC : CatWF C) (hσ : SchedOK σ) {forms : List F} {extra : List N}
    (hU : Universe C forms extra U UI) (hR : ∀ f, (C.required f).length ≤ R)
    (Po : Option (Nat → I → List N → Option S)) (inp : List (I × S)) {fuel qfuel : Nat}
    (hf : 2 * attemptBound U.length UI.length forms.length extra.length R + UI.length + 3 ≤ fuel)
    (hq : attemptBound U.length UI.length forms.length extra.length R + 1 ≤ qfuel) :
    solve C σ Po inp forms extra fuel qfuel ≠ .ok none ∧
    solve C σ Po inp forms extra fuel qfuel =
      solve C σ Po inp forms extra
        (2 * attemptBound U.length UI.length forms.length extra.length R + UI.length + 3)
        (attemptBound U.length UI.length forms.length extra.length R + 1) := by
  have h0 := solve_terminates hC hσ hU hR Po inp
  have := solve_fuel_mono hf hq rfl h0
  exact ⟨by rw [this]; exact h0, this⟩

end HabuVerif

/-! ## 14. The hypotheses are satisfiable: a two-line cycle and a self-referential line -/
namespace HabuVerif.TerminationExamples
open HabuVerif Toy

/-- `a.1` reads `a.2` and `a.2` reads `a.1` (a cycle); `a.3` reads ITSELF and, on one branch, the
input `a.x`.  Written as `Toy.Prog` programs (the language of the correspondence harness). -/
def prog : String → Prog
  | "a.1" => .readV "a.2" [] (.ret 0)
  | "a.2" => .readV "a.1" [] (.ret 1)
  | "a.3" => .readV "a.3" [(5, .ret 7)] (.readI "a.x" [] (.ret 2))
  | _ => .err 1

def lines : List String := ["a.1", "a.2", "a.3"]

def cat : Cat String String String Int String :=
  { sem := fun n => (prog n).toTree
    formOfN := fun n => if n ∈ lines then some "a" else none
    formOfI := fun x => if x = "a.x" then some "a" else none
    status := fun f => if f = "a" then .ok else .unsupported
    fields := fun f => if f = "a" then lines else []
    required := fun f => if f = "a" then ["a.1", "a.3"] else []
    inputs := fun f => if f = "a" then ["a.x"] else []
    parse := fun _ s => parseInt s }

theorem cat_wf : CatWF cat := by
  refine ⟨?_, ?_, ?_⟩
  · intro f n h
    by_cases hf : f = "a"
    · subst hf
      have : n ∈ lines := by simpa [cat] using h
      simp [cat, this]
    · simp [cat, hf] at h
  · intro f n h
    by_cases hf : f = "a"
    · subst hf
      have h' : n ∈ ["a.1", "a.3"] := by simpa [cat] using h
      have : n ∈ lines := by
        simp only [List.mem_cons, List.not_mem_nil, or_false] at h'
        rcases h' with rfl | rfl <;> simp [lines]
      simpa [cat] using this
    · simp [cat, hf] at h
  · intro f x h
    by_cases hf : f = "a"
    · subst hf
      have : x = "a.x" := by simpa [cat] using h
      simp [cat, this]
    · simp [cat, hf] at h

theorem sem1 : cat.sem "a.1" = .readV "a.2" (pick [] (.ret 0)) := rfl
theorem sem2 : cat.sem "a.2" = .readV "a.1" (pick [] (.ret 1)) := rfl
theorem sem3 : cat.sem "a.3" =
    .readV "a.3" (pick [(5, .ret 7)] (.readI "a.x" (pick [] (.ret 2)))) := rfl

theorem pick_nil (d : TTree) (v : Int) : pick [] d v = d := rfl

theorem cat_universe : Universe cat ["a"] [] lines ["a.x"] := by
  have hl : ∀ n, n ∈ lines ↔ n = "a.1" ∨ n = "a.2" ∨ n = "a.3" := by intro n; simp [lines]
  refine ⟨?_, ?_, ?_, ?_, ?_, ?_⟩
  · intro f hf n hn
    have : f = "a" := by simpa using hf
    subst this
    have h' : n ∈ ["a.1", "a.3"] := by simpa [cat] using hn
    simp only [List.mem_cons, List.not_mem_nil, or_false] at h'
    rcases h' with rfl | rfl <;> simp [lines]
  · intro n hn; simp at hn
  · intro m hm f hf n hn
    have : f = "a" := by
      simp only [cat, hm, if_true, Option.some.injEq] at hf; exact hf.symm
    subst this
    have h' : n ∈ ["a.1", "a.3"] := by simpa [cat] using hn
    simp only [List.mem_cons, List.not_mem_nil, or_false] at h'
    rcases h' with rfl | rfl <;> simp [lines]
  · intro n hn vs is fs m h
    rcases (hl n).mp hn with rfl | rfl | rfl
    · rw [sem1] at h
      simp only [run] at h
      cases hv : vs "a.2" with
      | none => simp only [hv] at h; injection h with h; subst h; simp [lines]
      | some v => simp [hv, pick_nil, run] at h
    · rw [sem2] at h
      simp only [run] at h
      cases hv : vs "a.1" with
      | none => simp only [hv] at h; injection h with h; subst h; simp [lines]
      | some v => simp [hv, pick_nil, run] at h
    · rw [sem3] at h
      simp only [run] at h
      cases hv : vs "a.3" with
      | none => simp only [hv] at h; injection h with h; subst h; simp [lines]
      | some v =>
        simp only [hv, pick] at h
        split at h
        · simp [run] at h
        · simp only [pick_nil, run] at h
          cases hi : is "a.x" <;> simp [hi, run] at h
  · intro n hn vs is fs x h
    rcases (hl n).mp hn with rfl | rfl | rfl
    · rw [sem1] at h
      simp only [run] at h
      cases hv : vs "a.2" <;> simp [hv, pick_nil, run] at h
    · rw [sem2] at h
      simp only [run] at h
      cases hv : vs "a.1" <;> simp [hv, pick_nil, run] at h
    · rw [sem3] at h
      simp only [run] at h
      cases hv : vs "a.3" with
      | none => simp [hv] at h
      | some v =>
        simp only [hv, pick] at h
        split at h
        · simp [run] at h
        · simp only [pick_nil, run] at h
          cases hi : is "a.x" <;> simp [hi, run] at h
          simp [h]
  · intro n hn vs is fs x h
    rcases (hl n).mp hn with rfl | rfl | rfl
    · rw [sem1] at h
      simp only [run] at h
      cases hv : vs "a.2" <;> simp [hv, pick_nil, run] at h
    · rw [sem2] at h
      simp only [run] at h
      cases hv : vs "a.1" <;> simp [hv, pick_nil, run] at h
    · rw [sem3] at h
      simp only [run] at h
      cases hv : vs "a.3" with
      | none => simp [hv] at h
      | some v =>
        simp only [hv, pick] at h
        split at h
        · simp [run] at h
        · simp only [pick_nil, run] at h
          cases hi : is "a.x" <;> simp [hi, run] at h
          simp [h]

theorem required_le (f : String) : (cat.required f).length ≤ 2 := by
  by_cases hf : f = "a" <;> simp [cat, hf]

/-- the cycle `a.1 ↔ a.2` and the self-referential `a.3`: for EVERY schedule, prompt and input
store the solve of form `a` ends (with a verdict or an abort) within the explicit fuel -/
example (σ : Sched String String) (hσ : SchedOK σ)
    (Po : Option (Nat → String → List String → Option String)) (inp : List (String × String)) :
    solve cat σ Po inp ["a"] []
      (2 * attemptBound 3 1 1 0 2 + 1 + 3) (attemptBound 3 1 1 0 2 + 1) ≠ .ok none :=
  solve_terminates cat_wf hσ cat_universe required_le Po inp

theorem required_nodup (f : String) : (cat.required f).Nodup := by
  by_cases hf : f = "a" <;> simp [cat, hf]

/-- … and in every state it returns EVERY line — the cycle members and the self-referential line
included — was evaluated at most `1 + (distinct waits) + (input specifications loaded)` times -/
example (σ : Sched String String) (hσ : SchedOK σ)
    (Po : Option (Nat → String → List String → Option String)) (inp : List (String × String))
    (fuel qfuel : Nat) (s : St String String String Int String)
    (h : solve cat σ Po inp ["a"] [] fuel qfuel = .ok (some s)) (n : String) :
    attemptsOf n s.log ≤ 1 + (waitsOnLines n s.log).length + (waitsOnInputs n s.log).length +
      (specRetries n s.log).length :=
  (attempt_bound_additive cat_wf hσ (by simp) required_nodup (by simp) (by simp) h n).2.2.2

end HabuVerif.TerminationExamples

#print axioms HabuVerif.attempt_accounting
#print axioms HabuVerif.wait_multiplicity
#print axioms HabuVerif.attempt_bound
#print axioms HabuVerif.attempt_bound_queued_once
#print axioms HabuVerif.pushes_exact
#print axioms HabuVerif.loads_distinct
#print axioms HabuVerif.queued_at_most_once
#print axioms HabuVerif.attempt_bound_additive
#print axioms HabuVerif.loadPushes_le_formLoads
#print axioms HabuVerif.prompt_at_most_once
#print axioms HabuVerif.solve_fuel_mono
#print axioms HabuVerif.solve_terminates
#print axioms HabuVerif.solve_terminates_any_fuel
#print axioms HabuVerif.Universe.ofOccurs
#print axioms HabuVerif.TerminationExamples.cat_universe
