import HabuVerif.Proofs.SignSound
/-!
# C15 sign analysis — discharging the operator facts of `Proofs/SignSound.lean` (`OpFacts`)

See the summary at the end of the file (`nnLine_sound_partial2`).
-/
set_option autoImplicit false
set_option linter.unusedVariables false
namespace HabuVerif.Sign
open HabuVerif HabuVerif.Dsl

def NumNN : Val.Num → Prop
  | .i n => 0 ≤ n
  | .f x => F64.isNeg x = false

/-- `float(k)` of a not-negative int is not negative.  A closed fact about `Val.intToFloat` (= `F64.ofInt`, proved
for `F64.ofInt` as `F64.ofInt_notNeg`); every attempt to case-split `match F64.ofInt k with …` inside `Val.intToFloat`
made Lean evaluate `k.natAbs * 2^1074` symbolically (time-out), so the one-line lift is left as a named hypothesis. -/
def IntToFloatNN : Prop := ∀ (k : Int) (f : F64), 0 ≤ k → Val.intToFloat k = .ok f → F64.isNeg f = false

/-- the numeric branch of `+`, `-`, `*` -/
def numBin (k : Int → Int → Int) (g : F64 → F64 → F64) (x y : Val.Num) : R Val :=
  match x, y with
  | .i p, .i q => .ok (.int (k p q))
  | x, y => (do let fx ← x.toF; let fy ← y.toF; pure (.float (g fx fy)))

theorem NN_float (x : F64) : (Val.float x).NN = true ↔ F64.isNeg x = false := by
  simp [Val.NN, F64.lt_zero_eq]

theorem NN_int (n : Int) : (Val.int n).NN = true ↔ 0 ≤ n := by
  simp [Val.NN]

theorem num_NN {a : Val} {n : Val.Num} (h : a.num? = some n) (ha : a.NN = true) : NumNN n := by
  cases a <;> simp only [Val.num?, Option.some.injEq] at h <;> try (exact absurd h (by simp))
  · subst h; rename_i b; cases b <;> simp [NumNN]
  · subst h; simpa [NumNN, Val.NN] using ha
  · subst h; exact (NN_float _).1 ha

theorem isNum_num {a : Val} (h : a.isNum = true) : ∃ n, a.num? = some n := by
  cases a <;> first | exact ⟨_, rfl⟩ | cases h

theorem NN_of_num_none {r : Val} (h : r.num? = none) : r.NN = true := by
  cases r <;> first | rfl | cases h


theorem toF_NN (hI : IntToFloatNN) {n : Val.Num} {f : F64} (hn : NumNN n) (h : n.toF = .ok f) :
    F64.isNeg f = false := by
  cases n with
  | i k => exact hI k f hn h
  | f x =>
    have h' : (Except.ok x : R F64) = .ok f := h
    have : x = f := by injection h'
    subst this; exact hn

/-- the float branch of the numeric operators -/
theorem floatOp_NN (hI : IntToFloatNN) {x y : Val.Num} {g : F64 → F64 → F64} {r : Val}
    (hg : ∀ u v, F64.isNeg u = false → F64.isNeg v = false → F64.isNeg (g u v) = false)
    (hx : NumNN x) (hy : NumNN y)
    (h : (do let fx ← x.toF; let fy ← y.toF; pure (Val.float (g fx fy)) : R Val) = .ok r) :
    r.NN = true ∧ r.isNum = true := by
  cases h1 : x.toF with
  | error e => rw [h1] at h; exact absurd h (by intro h'; cases h')
  | ok fx =>
    cases h2 : y.toF with
    | error e => rw [h1, h2] at h; exact absurd h (by intro h'; cases h')
    | ok fy =>
      rw [h1, h2] at h
      have : Val.float (g fx fy) = r := by injection h
      subst this
      exact ⟨(NN_float _).2 (hg _ _ (toF_NN hI hx h1) (toF_NN hI hy h2)), rfl⟩


theorem add_num {a b : Val} {x y : Val.Num} (ha : a.num? = some x) (hb : b.num? = some y) :
    Val.add a b = numBin (fun p q => p + q) F64.add x y := by
  cases a <;> cases b <;> simp only [Val.num?, Option.some.injEq, reduceCtorEq] at ha hb <;>
    subst ha <;> subst hb <;> rfl

theorem mul_num {a b : Val} {x y : Val.Num} (ha : a.num? = some x) (hb : b.num? = some y) :
    Val.mul a b = numBin (fun p q => p * q) F64.mul x y := by
  cases a <;> cases b <;> simp only [Val.num?, Option.some.injEq, reduceCtorEq] at ha hb <;>
    subst ha <;> subst hb <;> rfl

theorem sub_num {a b : Val} {x y : Val.Num} (ha : a.num? = some x) (hb : b.num? = some y) :
    Val.sub a b = numBin (fun p q => p - q) F64.sub x y := by
  cases a <;> cases b <;> simp only [Val.num?, Option.some.injEq, reduceCtorEq] at ha hb <;>
    subst ha <;> subst hb <;> rfl

theorem add_nonnum {a b r : Val} (h : Val.add a b = .ok r) (hn : a.num? = none ∨ b.num? = none) :
    r.num? = none := by
  cases a <;> cases b <;> first
    | (exfalso; (rcases hn with hn | hn <;> cases hn); done)
    | (injection h with h; subst h; rfl)
    | (injection h)

theorem sub_nonnum {a b r : Val} (h : Val.sub a b = .ok r) (hn : a.num? = none ∨ b.num? = none) : False := by
  cases a <;> cases b <;> first
    | ((rcases hn with hn | hn <;> cases hn); done)
    | (injection h)

theorem add_NN (hI : IntToFloatNN) {a b r : Val} (h : Val.add a b = .ok r) (ha : a.NN = true) (hb : b.NN = true) : r.NN = true := by
  cases hx : a.num? with
  | none => exact NN_of_num_none (add_nonnum h (Or.inl hx))
  | some x =>
    cases hy : b.num? with
    | none => exact NN_of_num_none (add_nonnum h (Or.inr hy))
    | some y =>
      rw [add_num hx hy] at h
      unfold numBin at h
      have nx := num_NN hx ha
      have ny := num_NN hy hb
      cases x with
      | i p =>
        cases y with
        | i q =>
          have : Val.int (p + q) = r := by injection h
          subst this
          have h1 : 0 ≤ p := nx
          have h2 : 0 ≤ q := ny
          exact (NN_int _).2 (by omega)
        | f v => exact (floatOp_NN hI (fun _ _ => F64.add_notNeg) nx ny h).1
      | f u =>
        cases y with
        | i q => exact (floatOp_NN hI (fun _ _ => F64.add_notNeg) nx ny h).1
        | f v => exact (floatOp_NN hI (fun _ _ => F64.add_notNeg) nx ny h).1

theorem numOp_isNum {x y : Val.Num} {g : F64 → F64 → F64} {k : Int → Int → Int} {r : Val}
    (h : numBin k g x y = .ok r) : r.isNum = true := by
  unfold numBin at h
  have fl : ∀ x y : Val.Num, (do let fx ← x.toF; let fy ← y.toF; pure (Val.float (g fx fy)) : R Val) = .ok r →
      r.isNum = true := by
    intro x y h
    cases h1 : x.toF with
    | error e => rw [h1] at h; exact absurd h (by intro h'; cases h')
    | ok fx =>
      cases h2 : y.toF with
      | error e => rw [h1, h2] at h; exact absurd h (by intro h'; cases h')
      | ok fy =>
        rw [h1, h2] at h
        have : Val.float (g fx fy) = r := by injection h
        subst this; rfl
  cases x with
  | i p =>
    cases y with
    | i q => have : Val.int (k p q) = r := by injection h
             subst this; rfl
    | f v => exact fl _ _ h
  | f u =>
    cases y with
    | i q => exact fl _ _ h
    | f v => exact fl _ _ h

theorem add_isNum {a b r : Val} (h : Val.add a b = .ok r) (ha : a.isNum = true) (hb : b.isNum = true) :
    r.isNum = true := by
  obtain ⟨x, hx⟩ := isNum_num ha
  obtain ⟨y, hy⟩ := isNum_num hb
  rw [add_num hx hy] at h
  exact numOp_isNum h

theorem mul_isNum {a b r : Val} (h : Val.mul a b = .ok r) (ha : a.isNum = true) (hb : b.isNum = true) :
    r.isNum = true := by
  obtain ⟨x, hx⟩ := isNum_num ha
  obtain ⟨y, hy⟩ := isNum_num hb
  rw [mul_num hx hy] at h
  exact numOp_isNum h

theorem sub_isNum {a b r : Val} (h : Val.sub a b = .ok r) : r.isNum = true := by
  cases hx : a.num? with
  | none => exact (sub_nonnum h (Or.inl hx)).elim
  | some x =>
    cases hy : b.num? with
    | none => exact (sub_nonnum h (Or.inr hy)).elim
    | some y =>
      rw [sub_num hx hy] at h
      exact numOp_isNum h

theorem itemsNN_cases {v : Val} (h : v.itemsNN = true) :
    (∃ xs, v = .list xs ∧ xs.all Val.NN = true) ∨ (∃ xs, v = .tuple xs ∧ xs.all Val.NN = true) := by
  cases v <;> first | exact Or.inl ⟨_, rfl, h⟩ | exact Or.inr ⟨_, rfl, h⟩ | cases h

theorem add_items {a b r : Val} (h : Val.add a b = .ok r) (ha : a.itemsNN = true) (hb : b.itemsNN = true) :
    r.itemsNN = true := by
  rcases itemsNN_cases ha with ⟨xs, rfl, hxs⟩ | ⟨xs, rfl, hxs⟩ <;>
    rcases itemsNN_cases hb with ⟨ys, rfl, hys⟩ | ⟨ys, rfl, hys⟩
  · have : Val.list (xs ++ ys) = r := by injection h
    subst this; simp only [Val.itemsNN, List.all_append, hxs, hys, Bool.and_self]
  · exact absurd h (by intro h'; cases h')
  · exact absurd h (by intro h'; cases h')
  · have : Val.tuple (xs ++ ys) = r := by injection h
    subst this; simp only [Val.itemsNN, List.all_append, hxs, hys, Bool.and_self]

theorem neg_isNum {x r : Val} (h : Val.neg x = .ok r) : r.isNum = true := by
  cases x <;> first
    | (injection h with h; subst h; rfl)
    | (injection h)

theorem pos_isNum {x r : Val} (h : Val.pos x = .ok r) : r.isNum = true := by
  cases x <;> first
    | (injection h with h; subst h; rfl)
    | (injection h)

theorem iterItems_items {v : Val} {xs : List Val} (hv : v.itemsNN = true) (h : Val.iterItems v = .ok xs) :
    xs.all Val.NN = true := by
  rcases itemsNN_cases hv with ⟨ys, rfl, hys⟩ | ⟨ys, rfl, hys⟩
  · have : ys = xs := by injection h
    subst this; exact hys
  · have : ys = xs := by injection h
    subst this; exact hys

theorem bind_ok {α β : Type} {m : R α} {f : α → R β} {r : β} (h : (m >>= f) = .ok r) :
    ∃ a, m = .ok a ∧ f a = .ok r := by
  cases m with
  | error e => cases h
  | ok a => exact ⟨a, rfl, h⟩
theorem getD_NN {xs : List Val} (h : xs.all Val.NN = true) (k : Nat) : (xs.getD k Val.none).NN = true := by
  rw [List.getD_eq_getElem?_getD]
  cases hk : xs[k]? with
  | none => rfl
  | some x =>
    rw [List.all_eq_true] at h
    exact h x (List.mem_of_getElem? hk)
theorem seqItem_NN {xs : List Val} {i r : Val} (hxs : xs.all Val.NN = true)
    (h : (match Val.asIndexInt i with
      | some j => (do let k ← Val.normIndex j xs.length; pure (xs.getD k .none) : R Val)
      | Option.none => .error .typeError) = .ok r) : r.NN = true := by
  cases hi : Val.asIndexInt i with
  | none => rw [hi] at h; cases h
  | some j =>
    rw [hi] at h
    obtain ⟨k, _, hk⟩ := bind_ok h
    have : xs.getD k Val.none = r := by injection hk
    subst this; exact getD_NN hxs k
theorem getItem_items {x i r : Val} (hx : x.itemsNN = true) (h : Val.getItem x i = .ok r) : r.NN = true := by
  rcases itemsNN_cases hx with ⟨xs, rfl, hxs⟩ | ⟨xs, rfl, hxs⟩
  · exact seqItem_NN hxs h
  · exact seqItem_NN hxs h

/-! ## From the premises of the property and the remaining closed facts to `OpFacts` -/

/-- The closed facts about the Python operators that are NOT yet proved (no stores, no evaluator: statements about
total functions of `Dsl/Val.lean` / `Dsl/Eval.lean` and the analysis' own rule tables).  Proved here and no longer
hypotheses: `+` (not-negative, numeric, items), `-`, `*` (numeric), unary `-`/`+`, `x += iterable`, `append`, iteration
over a list of not-negative items, `x[i]` of such a list, the input premise, the shape of `readKey`. -/
structure RestFacts (K : SCtx) (ctx : Ctx) : Prop where
  intToFloat : IntToFloatNN
  mulNN : ∀ x y r, Val.mul x y = .ok r → x.NN = true → y.NN = true → r.NN = true
  div : ∀ x y r, Val.div x y = .ok r → r.isNum = true ∧ (x.NN = true → y.NN = true → r.NN = true)
  call : ∀ f vs as r, List.Forall₂ Approx vs as → applyBuiltin f vs = .ok r → Approx r (callFlags K f as)
  fstr : ∀ vs as s, List.Forall₂ Approx vs as → fmtAll vs = .ok s → ∀ cl, fstrKey as = some cl → IsKey (.str s) cl
  thresh : ∀ n k r a, Approx n a → lookupThreshold ctx.thresholds n k = .ok r → Approx r (threshVal K.ths a)
  /-- when `readKey` answers "not negative", the run-time key denotes a line of the set -/
  key : ∀ k a n, Approx k a → qualify ctx k = .ok n → (readKey K a).nn = true → keyIn K.S n = true
  wrap : WrapFact

theorem readKey_cases (K : SCtx) {a : SVal} (hb : a.bot = false) : readKey K a = .numNN ∨ readKey K a = .any := by
  unfold readKey
  rw [hb]
  simp only [Bool.false_eq_true, if_false]
  split
  · split <;> split <;> simp
  · simp
  · split
    · split <;> simp
    · simp

theorem all_append_single {xs : List Val} {v : Val} (h1 : xs.all Val.NN = true) (h2 : v.NN = true) :
    (xs ++ [v]).all Val.NN = true := by
  simp only [List.all_append, h1, List.all_cons, h2, List.all_nil, Bool.and_self]

theorem opFacts_of {K : SCtx} {ctx : Ctx} {σ : Gates.Stores} (hr : RestFacts K ctx) (ht : K.trustSum = false)
    (ha : ∀ k v, σ.is k = .ok v → v.NN = true)
    (hb : ∀ k v, σ.vs k = some v → keyIn K.S k = true → v.NN = true ∧ v.isNum = true) : OpFacts K ctx σ where
  bin := by
    intro op x y r a b hx hy h
    cases op with
    | add =>
      have h' : Val.add x y = .ok r := h
      simp only [binFlags, hx.nb, hy.nb, Bool.or_self, Bool.false_eq_true, if_false]
      refine approx_flags (fun hh => ?_) (fun hh => ?_) (fun hh => ?_)
      · simp only [Bool.and_eq_true] at hh
        exact add_NN hr.intToFloat h' (hx.nn hh.1) (hy.nn hh.2)
      · simp only [Bool.and_eq_true] at hh
        exact add_isNum h' (hx.num hh.1) (hy.num hh.2)
      · simp only [Bool.and_eq_true] at hh
        exact add_items h' (hx.items hh.1) (hy.items hh.2)
    | sub =>
      have h' : Val.sub x y = .ok r := h
      simp only [binFlags, hx.nb, hy.nb, Bool.or_self, Bool.false_eq_true, if_false]
      exact approx_flags (by simp) (fun _ => sub_isNum h') (by simp)
    | mul =>
      have h' : Val.mul x y = .ok r := h
      simp only [binFlags, hx.nb, hy.nb, Bool.or_self, Bool.false_eq_true, if_false]
      refine approx_flags (fun hh => ?_) (fun hh => ?_) (by simp)
      · simp only [Bool.and_eq_true] at hh
        exact hr.mulNN x y r h' (hx.nn hh.1) (hy.nn hh.2)
      · simp only [Bool.and_eq_true] at hh
        exact mul_isNum h' (hx.num hh.1) (hy.num hh.2)
    | div =>
      have h' : Val.div x y = .ok r := h
      simp only [binFlags, hx.nb, hy.nb, Bool.or_self, Bool.false_eq_true, if_false]
      refine approx_flags (fun hh => ?_) (fun _ => (hr.div x y r h').1) (by simp)
      simp only [Bool.and_eq_true] at hh
      exact (hr.div x y r h').2 (hx.nn hh.1) (hy.nn hh.2)
  augList := by
    intro xs v ys a b hx hv hys
    simp only [binFlags, hx.nb, hv.nb, Bool.or_self, Bool.false_eq_true, if_false]
    refine approx_flags (fun _ => rfl) (fun hh => ?_) (fun hh => ?_)
    · simp only [Bool.and_eq_true] at hh
      exact absurd (hx.num hh.1) (by simp [Val.isNum])
    · simp only [Bool.and_eq_true] at hh
      have h1 : xs.all Val.NN = true := hx.items hh.1
      have h2 := iterItems_items (hv.items hh.2) hys
      simp only [Val.itemsNN, List.all_append, h1, h2, Bool.and_self]
  call := hr.call
  sumGen := by
    intro step items r htrue
    rw [ht] at htrue; cases htrue
  readV := by
    intro k a n v hk hq hv
    rcases readKey_cases K hk.nb with h | h
    · have hnn : (readKey K a).nn = true := by rw [h]; rfl
      have hin := hr.key k a n hk hq hnn
      obtain ⟨h1, h2⟩ := hb n v hv hin
      rw [h]; exact approx_numNN h1 h2
    · rw [h]; exact approx_any v
  readI := ha
  fstr := hr.fstr
  thresh := hr.thresh
  index := by
    intro x i r a hx hit hget
    exact getItem_items (hx.items hit) hget
  items := by
    intro v a xs hv hit x hx
    unfold SVal.itemOf
    split
    · rename_i hi
      have hall := iterItems_items (hv.items hi) hit
      rw [List.all_eq_true] at hall
      exact approx_nnOnly (hall x hx)
    · exact approx_any x
  neg := fun x r h => neg_isNum h
  pos := fun x r h => pos_isNum h
  append := by
    intro xs v a b hx hv
    refine approx_flags (fun _ => rfl) (by simp) (fun hh => ?_)
    simp only [Bool.and_eq_true] at hh
    have h1 : xs.all Val.NN = true := hx.items hh.1
    exact all_append_single h1 (hv.nn hh.2)

/-- **Soundness of the sign analysis (`sum` unknown), from the premises of the property.**
If `nnLine y S c l = true` then for every instance and all stores such that (a) every input that evaluates is not
negative and (b) every stored value under a key `k` with `keyIn S k` is a not-negative number: whenever the line
evaluates to `v`, `v` is not negative (and a number).  PARTIAL: relative to the closed operator facts `RestFacts`
that are not yet proved (see its fields; each is a statement about total functions of the model, with no stores). -/
theorem nnLine_sound_partial2 {y : YearDecl} {S : SSet} {c : ClassDecl} {l : LineDecl}
    (h : nnLine y S c l = true) (inst : Option String)
    (vs : String → Option Val) (is : String → InpRes Val) (fs : String → Bool)
    (hrest : RestFacts (mkK false y S c) { year := y, form := c.name, inst := inst, thresholds := c.thresholds })
    (ha : ∀ k v, is k = .ok v → Val.NN v = true)
    (hb : ∀ k v, vs k = some v → keyIn S k = true → Val.NN v = true ∧ Val.isNum v = true)
    (v : Val) (hrun : run vs is fs (evalLine y c inst l) = .val v) :
    Val.NN v = true ∧ Val.isNum v = true :=
  nnLineWith_sound_partial h inst vs is fs
    (opFacts_of (σ := ⟨vs, is, fs⟩) hrest rfl ha hb) hrest.wrap v hrun

/-! ## Round 3: the field wrapper, the builtin table, `/`, `*`, thresholds -/


theorem isNeg_zero : F64.isNeg F64.zero = false := rfl

theorem wrap_float {p : Nat} {v w : Val} (hv : v.NN = true) (h : FieldKind.wrap (.float p) v = .inl w) :
    w.NN = true ∧ w.isNum = true := by
  cases v with
  | none =>
    injection h with h; subst h
    exact ⟨(NN_float _).2 (F64.roundN_notNeg isNeg_zero p), rfl⟩
  | float x =>
    injection h with h; subst h
    exact ⟨(NN_float _).2 (F64.roundN_notNeg ((NN_float x).1 hv) p), rfl⟩
  | str s =>
    revert h
    unfold FieldKind.wrap
    dsimp only
    cases (Val.pyStrip s).isEmpty
    · intro h; injection h
    · intro h
      injection h with h; subst h
      exact ⟨(NN_float _).2 (F64.roundN_notNeg isNeg_zero p), rfl⟩
  | bool b => injection h
  | int i => injection h
  | enumv e m => injection h
  | tuple xs => injection h
  | list xs => injection h
  | dict ks vs => injection h

theorem wrap_int {v w : Val} (hv : v.NN = true) (h : FieldKind.wrap .int v = .inl w) :
    w.NN = true ∧ w.isNum = true := by
  cases v with
  | none => injection h with h; subst h; exact ⟨rfl, rfl⟩
  | int i => injection h with h; subst h; exact ⟨hv, rfl⟩
  | str s =>
    revert h
    unfold FieldKind.wrap
    dsimp only
    cases (Val.pyStrip s).isEmpty
    · intro h; injection h
    · intro h
      injection h with h; subst h
      exact ⟨rfl, rfl⟩
  | bool b => injection h
  | float x => injection h
  | enumv e m => injection h
  | tuple xs => injection h
  | list xs => injection h
  | dict ks vs => injection h

theorem wrapFact : WrapFact := by
  intro k v w hk hv h
  cases k with
  | float p => exact wrap_float hv h
  | int => exact wrap_int hv h
  | str => cases hk
  | bool => cases hk
  | enum e => cases hk

theorem pyLen_fact {x r : Val} (h : Val.pyLen x = .ok r) : r.NN = true ∧ r.isNum = true := by
  cases x <;> first
    | (injection h with h; subst h; exact ⟨(NN_int _).2 (Int.natCast_nonneg _), rfl⟩)
    | (injection h)

theorem map_str_fact {m : R String} {r : Val} (h : m.map Val.str = .ok r) : r.NN = true := by
  cases m with
  | error e => cases h
  | ok s => injection h with h; subst h; rfl

theorem pyList_fact {x r : Val} (h : Val.pyList x = .ok r) :
    r.NN = true ∧ (x.itemsNN = true → r.itemsNN = true) := by
  obtain ⟨xs, h1, h2⟩ := bind_ok (show (Val.iterItems x >>= fun xs => pure (Val.list xs)) = .ok r from h)
  have : Val.list xs = r := by injection h2
  subst this
  exact ⟨rfl, fun hx => iterItems_items hx h1⟩

theorem rangeList_NN (n : Int) : (Val.rangeList 0 n).all Val.NN = true := by
  unfold Val.rangeList
  rw [List.all_eq_true]
  intro v hv
  obtain ⟨k, _, hk⟩ := List.mem_map.1 hv
  subst hk
  exact (NN_int _).2 (by omega)

theorem pyRange1_fact {b r : Val} (h : Val.pyRange [b] = .ok r) : r.NN = true ∧ r.itemsNN = true := by
  have h' : (match Val.asIndexInt b with
    | some n => if n ≤ 1000000 then (.ok (.list (Val.rangeList 0 n)) : R Val) else .error .unsupported
    | Option.none => .error .typeError) = .ok r := h
  cases hb : Val.asIndexInt b with
  | none => rw [hb] at h'; cases h'
  | some n =>
    rw [hb] at h'
    dsimp only at h'
    by_cases hn : n ≤ 1000000
    · rw [if_pos hn] at h'
      have : Val.list (Val.rangeList 0 n) = r := by injection h'
      subst this
      exact ⟨rfl, rangeList_NN n⟩
    · rw [if_neg hn] at h'; cases h'

theorem pyRange2_fact {a b r : Val} (h : Val.pyRange [a, b] = .ok r) : r.NN = true := by
  have h' : (match Val.asIndexInt a, Val.asIndexInt b with
    | some m, some n => if n - m ≤ 1000000 then (.ok (.list (Val.rangeList m n)) : R Val) else .error .unsupported
    | _, _ => .error .typeError) = .ok r := h
  cases ha : Val.asIndexInt a with
  | none => rw [ha] at h'; cases h'
  | some m =>
    cases hb : Val.asIndexInt b with
    | none => rw [ha, hb] at h'; cases h'
    | some n =>
      rw [ha, hb] at h'
      dsimp only at h'
      by_cases hn : n - m ≤ 1000000
      · rw [if_pos hn] at h'
        have : Val.list (Val.rangeList m n) = r := by injection h'
        subst this; rfl
      · rw [if_neg hn] at h'; cases h'

theorem floatToInt_fact {f : F64} {o : Option Int} {r : Val} (h : Val.floatToInt f o = .ok r) :
    ∃ i, o = some i ∧ r = .int i := by
  cases o with
  | some i => exact ⟨i, rfl, by injection h with h; exact h.symm⟩
  | none =>
    exfalso
    have h' : (if f.isNaN = true then (.error .valueError : R Val) else .error .overflowError) = .ok r := h
    by_cases hn : f.isNaN = true
    · rw [if_pos hn] at h'; cases h'
    · rw [if_neg hn] at h'; cases h'

theorem pyCeil_fact {x r : Val} (h : Val.pyCeil x = .ok r) : r.isNum = true ∧ (x.NN = true → r.NN = true) := by
  cases x with
  | float f =>
    obtain ⟨i, hi, hr⟩ := floatToInt_fact (show Val.floatToInt f (F64.ceil f) = .ok r from h)
    subst hr
    exact ⟨rfl, fun hx => (NN_int _).2 (F64.ceil_notNeg ((NN_float f).1 hx) hi)⟩
  | int i => injection h with h; subst h; exact ⟨rfl, fun hx => hx⟩
  | bool b => injection h with h; subst h; exact ⟨rfl, fun _ => by cases b <;> rfl⟩
  | none => injection h
  | str s => injection h
  | enumv e m => injection h
  | tuple xs => injection h
  | list xs => injection h
  | dict ks vs => injection h

theorem pyFloat_fact (hI : IntToFloatNN) {x r : Val} (h : Val.pyFloat x = .ok r) :
    r.isNum = true ∧ (x.NN = true → x.isNum = true → r.NN = true) := by
  cases x with
  | float f => injection h with h; subst h; exact ⟨rfl, fun hx _ => hx⟩
  | int i =>
    obtain ⟨f, h1, h2⟩ := bind_ok (show (Val.intToFloat i >>= fun x => pure (Val.float x)) = .ok r from h)
    have : Val.float f = r := by injection h2
    subst this
    exact ⟨rfl, fun hx _ => (NN_float _).2 (hI i f ((NN_int i).1 hx) h1)⟩
  | bool b =>
    injection h with h; subst h
    refine ⟨rfl, fun _ _ => (NN_float _).2 ?_⟩
    cases b
    · exact isNeg_zero
    · exact F64.ofIntD_notNeg (by decide)
  | str s =>
    obtain ⟨f, h1, h2⟩ := bind_ok (show (Val.parseFloatStr s >>= fun x => pure (Val.float x)) = .ok r from h)
    have : Val.float f = r := by injection h2
    subst this
    exact ⟨rfl, fun _ hn => by cases hn⟩
  | none => injection h
  | enumv e m => injection h
  | tuple xs => injection h
  | list xs => injection h
  | dict ks vs => injection h

theorem extremum_mem (isMax : Bool) : ∀ (xs : List Val) (best r : Val), Val.extremum isMax best xs = .ok r →
    r = best ∨ r ∈ xs := by
  intro xs
  induction xs with
  | nil => intro best r h; left; injection h with h; exact h.symm
  | cons x xs ih =>
    intro best r h
    obtain ⟨better, _, h2⟩ := bind_ok (show (Val.ordCmp (if isMax then .gt else .lt) x best >>= fun better =>
      Val.extremum isMax (if better then x else best) xs) = .ok r from h)
    rcases ih _ r h2 with h3 | h3
    · cases better
      · left; simpa using h3
      · right; rw [h3]; simp
    · right; exact List.mem_cons_of_mem _ h3


def ofNum : Val.Num → Val
  | .i p => .int p
  | .f u => .float u

theorem ofNum_num (n : Val.Num) : (ofNum n).num? = some n := by cases n <;> rfl

theorem div_num_congr {a b a' b' : Val} (ha : a.num? = a'.num?) (hb : b.num? = b'.num?) :
    Val.div a b = Val.div a' b' := by
  unfold Val.div; rw [ha, hb]

theorem div_nonnum {a b r : Val} (h : Val.div a b = .ok r) (hn : a.num? = none ∨ b.num? = none) : False := by
  cases a <;> cases b <;> first
    | ((rcases hn with hn | hn <;> cases hn); done)
    | (injection h)

theorem div_float_fact (hI : IntToFloatNN) {x y : Val.Num} {r : Val}
    (h : (x.toF >>= fun fx => y.toF >>= fun fy =>
      (match F64.div fx fy with
       | some r => (pure (Val.float r) : R Val)
       | Option.none => throw .zeroDivisionError)) = .ok r) :
    r.isNum = true ∧ (NumNN x → NumNN y → r.NN = true) := by
  obtain ⟨fx, h1, h2⟩ := bind_ok h
  obtain ⟨fy, h3, h4⟩ := bind_ok h2
  cases hd : F64.div fx fy with
  | none => rw [hd] at h4; cases h4
  | some z =>
    rw [hd] at h4
    have : Val.float z = r := by injection h4
    subst this
    exact ⟨rfl, fun hx hy => (NN_float _).2 (F64.div_notNeg (toF_NN hI hx h1) (toF_NN hI hy h3) hd)⟩

theorem div_int_fact {p q : Int} {r : Val} (h : Val.div (.int p) (.int q) = .ok r) :
    r.isNum = true ∧ (0 ≤ p → 0 ≤ q → r.NN = true) := by
  unfold Val.div at h
  simp only [Val.num?] at h
  by_cases hq : q = 0
  · rw [if_pos hq] at h; cases h
  · rw [if_neg hq] at h
    by_cases hp : p = 0
    · rw [if_pos hp] at h
      have : Val.float (F64.finite (decide (q < 0)) 0 0) = r := by injection h
      subst this
      exact ⟨rfl, fun _ _ => (NN_float _).2 (by simp [F64.isNeg])⟩
    · rw [if_neg hp] at h
      generalize hz : F64.ofScaled (decide ((p < 0) ≠ (q < 0))) (p.natAbs * F64.one) q.natAbs = z at h
      have hr : ∃ w, r = .float w ∧ w = z := by
        cases z with
        | inf s => cases h
        | nan => exact ⟨_, by injection h with h; exact h.symm, rfl⟩
        | finite n m e => exact ⟨_, by injection h with h; exact h.symm, rfl⟩
      obtain ⟨w, rfl, rfl⟩ := hr
      refine ⟨rfl, fun h1 h2 => (NN_float _).2 ?_⟩
      have hd : decide ((p < 0) ≠ (q < 0)) = false := by
        have a1 : ¬ p < 0 := by omega
        have a2 : ¬ q < 0 := by omega
        simp [a1, a2]
      rw [← hz, hd]
      exact F64.isNeg_ofScaled_false _ _

theorem div_fact (hI : IntToFloatNN) {x y r : Val} (h : Val.div x y = .ok r) :
    r.isNum = true ∧ (x.NN = true → y.NN = true → r.NN = true) := by
  cases hx : x.num? with
  | none => exact (div_nonnum h (Or.inl hx)).elim
  | some nx =>
    cases hy : y.num? with
    | none => exact (div_nonnum h (Or.inr hy)).elim
    | some ny =>
      rw [div_num_congr (hx.trans (ofNum_num nx).symm) (hy.trans (ofNum_num ny).symm)] at h
      have key : r.isNum = true ∧ (NumNN nx → NumNN ny → r.NN = true) := by
        cases nx with
        | i p =>
          cases ny with
          | i q => exact div_int_fact h
          | f v => exact div_float_fact hI (x := .i p) (y := .f v) h
        | f u =>
          cases ny with
          | i q => exact div_float_fact hI (x := .f u) (y := .i q) h
          | f v => exact div_float_fact hI (x := .f u) (y := .f v) h
      exact ⟨key.1, fun h1 h2 => key.2 (num_NN hx h1) (num_NN hy h2)⟩

theorem seqRepeat_nonnum {α : Type} {xs : List α} {n : Int} {mk : List α → Val} {r : Val}
    (hmk : ∀ l, (mk l).num? = none) (h : Val.mul.seqRepeat xs n mk = .ok r) : r.num? = none := by
  unfold Val.mul.seqRepeat at h
  by_cases hc : Val.repeatOk xs n = true
  · rw [if_pos hc] at h
    have : mk (Val.repeatList xs n) = r := by injection h
    subst this; exact hmk _
  · rw [if_neg hc] at h; cases h

theorem mul_nonnum {a b r : Val} (h : Val.mul a b = .ok r) (hn : a.num? = none ∨ b.num? = none) :
    r.num? = none := by
  cases a <;> cases b <;> first
    | (exfalso; (rcases hn with hn | hn <;> cases hn); done)
    | (exact seqRepeat_nonnum (fun _ => rfl) h)
    | (unfold Val.mul at h; simp only [Val.num?, Val.asIndexInt] at h; exact seqRepeat_nonnum (fun _ => rfl) h)
    | (injection h)

theorem mul_NN (hI : IntToFloatNN) {a b r : Val} (h : Val.mul a b = .ok r) (ha : a.NN = true) (hb : b.NN = true) :
    r.NN = true := by
  cases hx : a.num? with
  | none => exact NN_of_num_none (mul_nonnum h (Or.inl hx))
  | some x =>
    cases hy : b.num? with
    | none => exact NN_of_num_none (mul_nonnum h (Or.inr hy))
    | some y =>
      rw [mul_num hx hy] at h
      unfold numBin at h
      have nx := num_NN hx ha
      have ny := num_NN hy hb
      cases x with
      | i p =>
        cases y with
        | i q =>
          have : Val.int (p * q) = r := by injection h
          subst this
          exact (NN_int _).2 (Int.mul_nonneg nx ny)
        | f v => exact (floatOp_NN hI (fun _ _ => F64.mul_notNeg) nx ny h).1
      | f u =>
        cases y with
        | i q => exact (floatOp_NN hI (fun _ _ => F64.mul_notNeg) nx ny h).1
        | f v => exact (floatOp_NN hI (fun _ _ => F64.mul_notNeg) nx ny h).1


theorem scan_mem (k : Val) : ∀ (rows : List (ThreshKey × Val)) (r : Val),
    lookupThreshold.scan k rows = .ok r → ∃ row, row ∈ rows ∧ row.2 = r := by
  intro rows
  induction rows with
  | nil => intro r h; cases h
  | cons row rest ih =>
    intro r h
    obtain ⟨key, v⟩ := row
    have tail : lookupThreshold.scan k rest = .ok r → ∃ row, row ∈ (key, v) :: rest ∧ row.2 = r := by
      intro h'
      obtain ⟨row, hm, hr⟩ := ih r h'
      exact ⟨row, List.mem_cons_of_mem _ hm, hr⟩
    have here : (Except.ok v : R Val) = .ok r → ∃ row, row ∈ (key, v) :: rest ∧ row.2 = r := by
      intro h'
      exact ⟨(key, v), List.mem_cons_self, by injection h'⟩
    cases key with
    | one kk =>
      unfold lookupThreshold.scan at h
      split at h
      · split at h
        · exact here h
        · exact tail h
      · split at h
        · exact here h
        · exact tail h
        · cases h
    | many ks =>
      unfold lookupThreshold.scan at h
      split at h
      · split at h
        · exact here h
        · exact tail h
      · split at h
        · exact here h
        · exact tail h

theorem lookupThreshold_str {ths : List (String × Thresh)} {nm : String} {k : Option Val} {r : Val}
    (h : lookupThreshold ths (.str nm) k = .ok r) :
    (∃ v, ths.lookup nm = some (.scalar v) ∧ r = v) ∨
    (∃ rows row, ths.lookup nm = some (.table rows) ∧ row ∈ rows ∧ row.2 = r) := by
  unfold lookupThreshold at h
  dsimp only at h
  cases hl : ths.lookup nm with
  | none => rw [hl] at h; cases h
  | some t =>
    rw [hl] at h
    cases t with
    | scalar v =>
      left
      refine ⟨v, rfl, ?_⟩
      dsimp only at h
      split at h
      · injection h with h; exact h.symm
      · injection h with h; exact h.symm
      · cases h
    | table rows =>
      right
      dsimp only at h
      split at h
      · cases h
      · cases h
      · obtain ⟨row, hm, hr⟩ := scan_mem _ rows r h
        exact ⟨rows, row, rfl, hm, hr⟩

theorem thresh_sound {ths : List (String × Thresh)} {n : Val} {k : Option Val} {r : Val} {a : SVal}
    (hn : Approx n a) (h : lookupThreshold ths n k = .ok r) : Approx r (threshVal ths a) := by
  unfold threshVal
  rw [hn.nb]
  simp only [Bool.false_eq_true, if_false]
  cases hk : a.known with
  | none => exact approx_any r
  | some c =>
    have hc := hn.known c hk
    subst hc
    cases n with
    | str nm =>
      dsimp only
      rcases lookupThreshold_str h with ⟨v, hl, rfl⟩ | ⟨rows, row, hl, hm, rfl⟩
      · rw [hl]; exact approx_flags (fun hh => hh) (fun hh => hh) (by simp)
      · rw [hl]
        refine approx_flags (fun hh => ?_) (fun hh => ?_) (by simp)
        · rw [List.all_eq_true] at hh; exact hh row hm
        · rw [List.all_eq_true] at hh; exact hh row hm
    | none => exact approx_any r
    | bool b => exact approx_any r
    | int i => exact approx_any r
    | float x => exact approx_any r
    | enumv e m => exact approx_any r
    | tuple xs => exact approx_any r
    | list xs => exact approx_any r
    | dict ks vs => exact approx_any r

theorem forall2_all_num {vs : List Val} {as : List SVal} (h : List.Forall₂ Approx vs as)
    (hall : as.all (·.num) = true) : vs.all Val.isNum = true := by
  induction h with
  | nil => rfl
  | cons h1 _ ih =>
    simp only [List.all_cons, Bool.and_eq_true] at hall ⊢
    exact ⟨h1.num hall.1, ih hall.2⟩


/-- `max` with a not-negative FIRST operand, or a not-negative real constant anywhere, is not negative -/
def MaxFact : Prop :=
  ∀ (x : Val) (rest : List Val) (r : Val), Val.extremum true x rest = .ok r →
    (x.NN = true ∨ ∃ c, c ∈ x :: rest ∧ c.NNreal = true) → r.NN = true

/-- `round(x[, n])` is a number, not negative when `x` is not negative -/
def RoundFact : Prop :=
  ∀ (x : Val) (rest : List Val) (r : Val), Val.pyRound (x :: rest) = .ok r →
    r.isNum = true ∧ (x.NN = true → r.NN = true)

theorem all_mem {p : Val → Bool} {vs : List Val} (h : vs.all p = true) {r : Val} (hr : r ∈ vs) : p r = true := by
  rw [List.all_eq_true] at h; exact h r hr

theorem minmax1_mem {isMax : Bool} {it r : Val} (h : Val.pyMinMax isMax [it] = .ok r) :
    ∃ xs, Val.iterItems it = .ok xs ∧ r ∈ xs := by
  obtain ⟨xs, h1, h2⟩ := bind_ok (show (Val.iterItems it >>= fun xs =>
    (match xs with
     | [] => (throw .valueError : R Val)
     | x :: rest => Val.extremum isMax x rest)) = .ok r from h)
  refine ⟨xs, h1, ?_⟩
  cases xs with
  | nil => cases h2
  | cons x rest =>
    rcases extremum_mem isMax rest x r h2 with h3 | h3
    · rw [h3]; exact List.mem_cons_self
    · exact List.mem_cons_of_mem _ h3

theorem minmax2_mem {isMax : Bool} {x y r : Val} {rest : List Val}
    (h : Val.pyMinMax isMax (x :: y :: rest) = .ok r) : r ∈ x :: y :: rest := by
  rcases extremum_mem isMax (y :: rest) x r h with h3 | h3
  · rw [h3]; exact List.mem_cons_self
  · exact List.mem_cons_of_mem _ h3

theorem call_minmax1 {K : SCtx} {isMax : Bool} {v r : Val} {a : SVal} (ha : Approx v a)
    (h : Val.pyMinMax isMax [v] = .ok r) : Approx r (if a.items = true then SVal.nnOnly else SVal.any) := by
  split
  · rename_i hi
    obtain ⟨xs, h1, h2⟩ := minmax1_mem h
    exact approx_nnOnly (all_mem (iterItems_items (ha.items hi) h1) h2)
  · exact approx_any r

theorem realConst_mem {vs : List Val} {as : List SVal} (h : List.Forall₂ Approx vs as)
    (hany : as.any SVal.isRealConst = true) : ∃ c, c ∈ vs ∧ c.NNreal = true := by
  induction h with
  | nil => simp at hany
  | @cons v a vs' as' h1 _ ih =>
    simp only [List.any_cons, Bool.or_eq_true] at hany
    rcases hany with hh | hh
    · unfold SVal.isRealConst at hh
      cases hk : a.known with
      | none => rw [hk] at hh; cases hh
      | some c =>
        rw [hk] at hh
        have := h1.known c hk
        subst this
        exact ⟨v, List.mem_cons_self, hh⟩
    · obtain ⟨c, hc, hr⟩ := ih hh
      exact ⟨c, List.mem_cons_of_mem _ hc, hr⟩

theorem call_sound (hI : IntToFloatNN) (hmax : MaxFact) (hround : RoundFact) {K : SCtx} (ht : K.trustSum = false) :
    ∀ (f : Builtin) (vs : List Val) (as : List SVal) (r : Val), List.Forall₂ Approx vs as →
      applyBuiltin f vs = .ok r → Approx r (callFlags K f as) := by
  intro f vs as r hvs h
  cases hvs with
  | nil => cases f <;> first | exact approx_any r | exact approx_nnOnly (by injection h with h; subst h; rfl)
  | @cons v a vs' as' h1 t =>
    cases t with
    | nil =>
      cases f with
      | sum =>
        show Approx r (if (a.items && K.trustSum) = true then SVal.numNN else SVal.any)
        rw [ht]; simp only [Bool.and_false, Bool.false_eq_true, if_false]; exact approx_any r
      | min => exact call_minmax1 (K := K) h1 h
      | max => exact call_minmax1 (K := K) h1 h
      | float =>
        obtain ⟨p, q⟩ := pyFloat_fact hI (show Val.pyFloat v = .ok r from h)
        refine approx_flags (fun hh => ?_) (fun _ => p) (by simp)
        simp only [Bool.and_eq_true] at hh
        exact q (h1.nn hh.1) (h1.num hh.2)
      | str => exact approx_nnOnly (map_str_fact (show (Val.pyStr v).map Val.str = .ok r from h))
      | len =>
        obtain ⟨p, q⟩ := pyLen_fact (show Val.pyLen v = .ok r from h)
        exact approx_numNN p q
      | round =>
        obtain ⟨p, q⟩ := hround v [] r h
        exact approx_flags (fun hh => q (h1.nn hh)) (fun _ => p) (by simp)
      | ceil =>
        obtain ⟨p, q⟩ := pyCeil_fact (show Val.pyCeil v = .ok r from h)
        exact approx_flags (fun hh => q (h1.nn hh)) (fun _ => p) (by simp)
      | list =>
        obtain ⟨p, q⟩ := pyList_fact (show Val.pyList v = .ok r from h)
        exact approx_flags (fun _ => p) (by simp) (fun hh => q (h1.items hh))
      | range =>
        obtain ⟨p, q⟩ := pyRange1_fact h
        exact approx_flags (fun _ => p) (by simp) (fun _ => q)
    | @cons v2 a2 vs2 as2 h2 t2 =>
      cases f with
      | sum => exact approx_any r
      | min =>
        have hm := minmax2_mem h
        have hall : List.Forall₂ Approx (v :: v2 :: vs2) (a :: a2 :: as2) := .cons h1 (.cons h2 t2)
        exact approx_flags (fun hh => all_mem (forall2_all_nn hall hh) hm)
          (fun hh => all_mem (forall2_all_num hall hh) hm) (by simp)
      | max =>
        have hm := minmax2_mem h
        have hall : List.Forall₂ Approx (v :: v2 :: vs2) (a :: a2 :: as2) := .cons h1 (.cons h2 t2)
        refine approx_flags (fun hh => ?_) (fun hh => all_mem (forall2_all_num hall hh) hm) (by simp)
        simp only [Bool.or_eq_true] at hh
        refine hmax v (v2 :: vs2) r h ?_
        rcases hh with hh | hh
        · exact Or.inl (h1.nn hh)
        · exact Or.inr (realConst_mem hall hh)
      | float => exact approx_any r
      | str => exact approx_nnOnly (by injection h)
      | len => exact approx_any r
      | round =>
        obtain ⟨p, q⟩ := hround v (v2 :: vs2) r h
        exact approx_flags (fun hh => q (h1.nn hh)) (fun _ => p) (by simp)
      | ceil => exact approx_any r
      | list => exact approx_any r
      | range =>
        cases t2 with
        | nil => exact approx_flags (fun _ => pyRange2_fact h) (by simp) (by simp)
        | cons h3 t3 => exact approx_any r


/-! ### the NaN-safe `max` rule -/

def numCmp (op : Val.OrdOp) (p q : Option Val.Num) : R Bool :=
  match p, q with
  | some x, some y =>
    (match Val.cmpNum x y with
     | some o => .ok (op.holds o)
     | Option.none => .ok false)
  | _, _ => .error .typeError

def NumReal : Val.Num → Prop
  | .i a => 0 ≤ a
  | .f x => F64.isNeg x = false ∧ x.isNaN = false

theorem ordCmp_num {op : Val.OrdOp} {x b : Val} (hx : x.isNum = true) :
    Val.ordCmp op x b = numCmp op x.num? b.num? := by
  cases x <;> first | (cases hx; done) | (cases b <;> rfl)

theorem NN_of_not_isNum {x : Val} (h : x.isNum = false) : x.NN = true := by
  cases x <;> first | rfl | cases h

theorem NN_of_num {b : Val} {q : Val.Num} (h : b.num? = some q) (hq : NumNN q) : b.NN = true := by
  cases b <;> first
    | (cases h; done)
    | rfl
    | (injection h with h; subst h; exact (NN_int _).2 hq)
    | (injection h with h; subst h; exact (NN_float _).2 hq)

theorem one_pos_int : (0 : Int) < ((F64.one : Nat) : Int) := by
  exact_mod_cast F64.one_pos

theorem isNeg_signed {n : Bool} {m e : Nat} (h : F64.isNeg (F64.finite n m e) = true) :
    F64.signed n (m * 2 ^ e) < 0 := by
  simp only [F64.isNeg, Bool.and_eq_true, decide_eq_true_eq] at h
  rw [F64.signed_lt_zero]
  exact ⟨h.1, Nat.mul_pos (Nat.pos_of_ne_zero h.2) (Nat.two_pow_pos _)⟩

theorem notNeg_of_signed {n : Bool} {m e : Nat} (h : 0 ≤ F64.signed n (m * 2 ^ e)) :
    F64.isNeg (F64.finite n m e) = false := by
  cases hn : F64.isNeg (F64.finite n m e) with
  | false => rfl
  | true => have := isNeg_signed hn; omega

theorem cmpNum_gt_NN {p q : Val.Num} (h : Val.cmpNum p q = some .gt) (hq : NumNN q) : NumNN p := by
  cases p with
  | i a =>
    cases q with
    | i b =>
      have h' : some (compare a b) = some Ordering.gt := h
      injection h' with h'
      rw [Int.compare_eq_gt] at h'
      have hb : 0 ≤ b := hq
      show 0 ≤ a
      omega
    | f y =>
      have h' : (F64.cmpInt y a).map Ordering.swap = some Ordering.gt := h
      have hy : F64.isNeg y = false := hq
      show 0 ≤ a
      cases y with
      | nan => cases h'
      | inf n =>
        cases n with
        | true => cases hy
        | false => cases h'
      | finite n m e =>
        have h2 : (compare (F64.signed n (m * 2 ^ e)) (a * ((F64.one : Nat) : Int))).swap = Ordering.gt := by
          injection h'
        have h3 : compare (F64.signed n (m * 2 ^ e)) (a * ((F64.one : Nat) : Int)) = Ordering.lt := by
          cases hc : compare (F64.signed n (m * 2 ^ e)) (a * ((F64.one : Nat) : Int)) <;> rw [hc] at h2 <;>
            first | rfl | cases h2
        rw [Int.compare_eq_lt] at h3
        have hs := F64.signed_nonneg_of_notNeg hy (2 ^ e)
        by_contra hneg
        have ha : a ≤ 0 := by omega
        have := Int.mul_le_mul_of_nonneg_right ha (Int.le_of_lt one_pos_int)
        rw [Int.zero_mul] at this
        generalize a * ((F64.one : Nat) : Int) = t at *
        omega
  | f x =>
    show F64.isNeg x = false
    cases q with
    | i b =>
      have h' : F64.cmpInt x b = some Ordering.gt := h
      have hb : 0 ≤ b := hq
      cases x with
      | nan => cases h'
      | inf n =>
        cases n with
        | true => cases h'
        | false => rfl
      | finite n m e =>
        have h2 : compare (F64.signed n (m * 2 ^ e)) (b * ((F64.one : Nat) : Int)) = Ordering.gt := by
          injection h'
        rw [Int.compare_eq_gt] at h2
        have ht : 0 ≤ b * ((F64.one : Nat) : Int) := Int.mul_nonneg hb (Int.le_of_lt one_pos_int)
        apply notNeg_of_signed
        generalize b * ((F64.one : Nat) : Int) = t at *
        omega
    | f y =>
      have hy : F64.isNeg y = false := hq
      have h' : (if F64.lt x y = true then some Ordering.lt else if F64.lt y x = true then some Ordering.gt
        else if F64.eq x y = true then some Ordering.eq else Option.none) = some Ordering.gt := h
      by_cases h1 : F64.lt x y = true
      · rw [if_pos h1] at h'; cases h'
      · rw [if_neg h1] at h'
        by_cases h2 : F64.lt y x = true
        · exact F64.notNeg_of_lt hy h2
        · rw [if_neg h2] at h'
          by_cases h3 : F64.eq x y = true
          · rw [if_pos h3] at h'; cases h'
          · rw [if_neg h3] at h'; cases h'

theorem gt_NN {x b : Val} (h : Val.ordCmp .gt x b = .ok true) (hb : b.NN = true) : x.NN = true := by
  cases hx : x.isNum with
  | false => exact NN_of_not_isNum hx
  | true =>
    rw [ordCmp_num hx] at h
    obtain ⟨p, hp⟩ := isNum_num hx
    cases hq : b.num? with
    | none => rw [hp, hq] at h; cases h
    | some q =>
      rw [hp, hq] at h
      unfold numCmp at h
      dsimp only at h
      cases hc : Val.cmpNum p q with
      | none => rw [hc] at h; cases h
      | some o =>
        rw [hc] at h
        have ho : o = .gt := by
          cases o <;> first | rfl | (exfalso; cases h)
        subst ho
        exact NN_of_num hp (cmpNum_gt_NN hc (num_NN hq hb))

theorem max_inv : ∀ (rest : List Val) (best r : Val), Val.extremum true best rest = .ok r →
    best.NN = true → r.NN = true := by
  intro rest
  induction rest with
  | nil => intro best r h hb; injection h with h; subst h; exact hb
  | cons x xs ih =>
    intro best r h hb
    obtain ⟨better, h1, h2⟩ := bind_ok (show (Val.ordCmp .gt x best >>= fun better =>
      Val.extremum true (if better then x else best) xs) = .ok r from h)
    cases better with
    | true => exact ih x r h2 (gt_NN h1 hb)
    | false => exact ih best r h2 hb


theorem cmpNum_notgt {p q : Val.Num} (hp : NumReal p)
    (h : (match Val.cmpNum p q with
      | some o => Val.OrdOp.holds .gt o
      | Option.none => false) = false) : NumNN q := by
  cases p with
  | i a =>
    have ha : 0 ≤ a := hp
    cases q with
    | i b =>
      show 0 ≤ b
      have h' : Val.OrdOp.holds .gt (compare a b) = false := h
      by_contra hneg
      have : compare a b = Ordering.gt := by rw [Int.compare_eq_gt]; omega
      rw [this] at h'; cases h'
    | f y =>
      show F64.isNeg y = false
      have h' : (match (F64.cmpInt y a).map Ordering.swap with
        | some o => Val.OrdOp.holds .gt o
        | Option.none => false) = false := h
      cases y with
      | nan => rfl
      | inf n =>
        cases n with
        | false => rfl
        | true => cases h'
      | finite n m e =>
        apply notNeg_of_signed
        by_contra hneg
        have hlt : compare (F64.signed n (m * 2 ^ e)) (a * ((F64.one : Nat) : Int)) = Ordering.lt := by
          rw [Int.compare_eq_lt]
          have ht : 0 ≤ a * ((F64.one : Nat) : Int) := Int.mul_nonneg ha (Int.le_of_lt one_pos_int)
          generalize a * ((F64.one : Nat) : Int) = t at *
          omega
        have h2 : (match (some (compare (F64.signed n (m * 2 ^ e)) (a * ((F64.one : Nat) : Int)))).map Ordering.swap with
          | some o => Val.OrdOp.holds .gt o
          | Option.none => false) = false := h'
        rw [hlt] at h2; cases h2
  | f x =>
    obtain ⟨hx, hxn⟩ : F64.isNeg x = false ∧ x.isNaN = false := hp
    cases q with
    | i b =>
      show 0 ≤ b
      have h' : (match F64.cmpInt x b with
        | some o => Val.OrdOp.holds .gt o
        | Option.none => false) = false := h
      cases x with
      | nan => cases hxn
      | inf n =>
        cases n with
        | true => cases hx
        | false => cases h'
      | finite n m e =>
        by_contra hneg
        have hs := F64.signed_nonneg_of_notNeg hx (2 ^ e)
        have hgt : compare (F64.signed n (m * 2 ^ e)) (b * ((F64.one : Nat) : Int)) = Ordering.gt := by
          rw [Int.compare_eq_gt]
          have hb : b ≤ -1 := by omega
          have := Int.mul_le_mul_of_nonneg_right hb (Int.le_of_lt one_pos_int)
          have h1 := one_pos_int
          generalize b * ((F64.one : Nat) : Int) = t at *
          generalize ((F64.one : Nat) : Int) = o at *
          omega
        have h2 : (match some (compare (F64.signed n (m * 2 ^ e)) (b * ((F64.one : Nat) : Int))) with
          | some o => Val.OrdOp.holds .gt o
          | Option.none => false) = false := h'
        rw [hgt] at h2; cases h2
    | f y =>
      show F64.isNeg y = false
      have h' : (match (if F64.lt x y = true then some Ordering.lt else if F64.lt y x = true then some Ordering.gt
        else if F64.eq x y = true then some Ordering.eq else Option.none) with
        | some o => Val.OrdOp.holds .gt o
        | Option.none => false) = false := h
      by_cases h1 : F64.lt x y = true
      · exact F64.notNeg_of_lt hx h1
      · cases hy : F64.isNeg y with
        | false => rfl
        | true =>
          have h2 := F64.lt_of_isNeg_notNeg hy hx hxn
          rw [if_neg h1, if_pos h2] at h'
          cases h'

theorem NNreal_real {c : Val} (hc : c.NNreal = true) : c.isNum = true ∧ c.NN = true ∧
    ∀ p, c.num? = some p → NumReal p := by
  cases c with
  | bool b => exact ⟨rfl, rfl, fun p hp => by injection hp with hp; subst hp; cases b <;> simp [NumReal]⟩
  | int i =>
    exact ⟨rfl, hc, fun p hp => by injection hp with hp; subst hp; exact (NN_int i).1 hc⟩
  | float x =>
    simp only [Val.NNreal, Bool.and_eq_true, Bool.not_eq_true'] at hc
    have h1 : F64.isNeg x = false := by rw [← F64.lt_zero_eq]; exact hc.1
    exact ⟨rfl, (NN_float x).2 h1, fun p hp => by injection hp with hp; subst hp; exact ⟨h1, hc.2⟩⟩
  | none => cases hc
  | str s => cases hc
  | enumv e m => cases hc
  | tuple xs => cases hc
  | list xs => cases hc
  | dict ks vs => cases hc

theorem notgt_NN {c b : Val} (hc : c.NNreal = true) (h : Val.ordCmp .gt c b = .ok false) : b.NN = true := by
  obtain ⟨hnum, _, hreal⟩ := NNreal_real hc
  rw [ordCmp_num hnum] at h
  obtain ⟨p, hp⟩ := isNum_num hnum
  cases hq : b.num? with
  | none => rw [hp, hq] at h; cases h
  | some q =>
    rw [hp, hq] at h
    unfold numCmp at h
    dsimp only at h
    refine NN_of_num hq (cmpNum_notgt (hreal p hp) ?_)
    cases hcm : Val.cmpNum p q with
    | none => rfl
    | some o =>
      rw [hcm] at h
      injection h with h

theorem max_const : ∀ (rest : List Val) (best r : Val), Val.extremum true best rest = .ok r →
    (∃ c, c ∈ rest ∧ c.NNreal = true) → r.NN = true := by
  intro rest
  induction rest with
  | nil => intro best r h hc; obtain ⟨c, hm, _⟩ := hc; cases hm
  | cons x xs ih =>
    intro best r h hc
    obtain ⟨better, h1, h2⟩ := bind_ok (show (Val.ordCmp .gt x best >>= fun better =>
      Val.extremum true (if better then x else best) xs) = .ok r from h)
    obtain ⟨c, hm, hcr⟩ := hc
    rcases List.mem_cons.1 hm with hx | hx
    · subst hx
      cases better with
      | true => exact max_inv xs c r h2 (NNreal_real hcr).2.1
      | false => exact max_inv xs best r h2 (notgt_NN hcr h1)
    · exact ih _ r h2 ⟨c, hx, hcr⟩

theorem maxFact : MaxFact := by
  intro x rest r h hyp
  rcases hyp with hx | ⟨c, hm, hc⟩
  · exact max_inv rest x r h hx
  · rcases List.mem_cons.1 hm with hx | hx
    · subst hx; exact max_inv rest c r h (NNreal_real hc).2.1
    · exact max_const rest x r h ⟨c, hx, hc⟩


/-- The closed facts that are STILL assumed after round 3 (each a statement about total functions of the model, no
stores): `float(int)` of a not-negative int (`IntToFloatNN`, see there), `round` (`RoundFact`), and the two key-string facts (`fstr`: the pattern `prefix{…}suffix` has the claimed class / line codes;
`key`: when `readKey` answers "not negative" the run-time key is in the set). -/
structure RestFacts3 (K : SCtx) (ctx : Ctx) : Prop where
  intToFloat : IntToFloatNN
  roundFact : RoundFact
  fstr : ∀ vs as s, List.Forall₂ Approx vs as → fmtAll vs = .ok s → ∀ cl, fstrKey as = some cl → IsKey (.str s) cl
  key : ∀ k a n, Approx k a → qualify ctx k = .ok n → (readKey K a).nn = true → keyIn K.S n = true

theorem restFacts_of {K : SCtx} {ctx : Ctx} (hths : ctx.thresholds = K.ths) (ht : K.trustSum = false)
    (h3 : RestFacts3 K ctx) : RestFacts K ctx where
  intToFloat := h3.intToFloat
  mulNN := fun x y r h a b => mul_NN h3.intToFloat h a b
  div := fun x y r h => div_fact h3.intToFloat h
  call := call_sound h3.intToFloat maxFact h3.roundFact ht
  fstr := h3.fstr
  thresh := fun n k r a hn h => by rw [hths] at h; exact thresh_sound hn h
  key := h3.key
  wrap := wrapFact

/-- **Soundness of the sign analysis (`sum` unknown), round 3.**  As `nnLine_sound_partial2`, with the field wrapper,
the builtin table (`min`, `max` (`maxFact`: the NaN-safe rule), `float`, `ceil`, `len`, `list`, `range`, `str`; `round` up to
`RoundFact`), `/`, `*` and the thresholds proved; what is still assumed is `RestFacts3`. -/
theorem nnLine_sound_partial3 {y : YearDecl} {S : SSet} {c : ClassDecl} {l : LineDecl}
    (h : nnLine y S c l = true) (inst : Option String)
    (vs : String → Option Val) (is : String → InpRes Val) (fs : String → Bool)
    (h3 : RestFacts3 (mkK false y S c) { year := y, form := c.name, inst := inst, thresholds := c.thresholds })
    (ha : ∀ k v, is k = .ok v → Val.NN v = true)
    (hb : ∀ k v, vs k = some v → keyIn S k = true → Val.NN v = true ∧ Val.isNum v = true)
    (v : Val) (hrun : run vs is fs (evalLine y c inst l) = .val v) :
    Val.NN v = true ∧ Val.isNum v = true :=
  nnLine_sound_partial2 h inst vs is fs (restFacts_of rfl rfl h3) ha hb v hrun

/-! ## Round 4: `float(int)` of a not-negative int is not negative — proved

`Val.intToFloat` is `Val.intToFloatOf (F64.ofInt i)` (the model definition was split in two for exactly this
reason: a case split on the abstract option does not make the elaborator normalise `F64.ofInt i`, i.e.
`i.natAbs * 2^1074`, under a `match`). -/

theorem intToFloatOf_ok (o : Option F64) (f : F64) (h : Val.intToFloatOf o = .ok f) : o = some f := by
  cases o with
  | none => cases h
  | some x => cases h; rfl

theorem intToFloatNN : IntToFloatNN :=
  fun k f hk h => F64.ofInt_notNeg hk (intToFloatOf_ok _ f h)

/-- what is STILL assumed: `round` preserves sign, and the two key-string facts -/
structure RestFacts4 (K : SCtx) (ctx : Ctx) : Prop where
  roundFact : RoundFact
  fstr : ∀ vs as s, List.Forall₂ Approx vs as → fmtAll vs = .ok s → ∀ cl, fstrKey as = some cl → IsKey (.str s) cl
  key : ∀ k a n, Approx k a → qualify ctx k = .ok n → (readKey K a).nn = true → keyIn K.S n = true

/-- **Soundness of the sign analysis (`sum` unknown), round 4**: three closed facts left (`RestFacts4`). -/
theorem nnLine_sound_partial4 {y : YearDecl} {S : SSet} {c : ClassDecl} {l : LineDecl}
    (h : nnLine y S c l = true) (inst : Option String)
    (vs : String → Option Val) (is : String → InpRes Val) (fs : String → Bool)
    (h4 : RestFacts4 (mkK false y S c) { year := y, form := c.name, inst := inst, thresholds := c.thresholds })
    (ha : ∀ k v, is k = .ok v → Val.NN v = true)
    (hb : ∀ k v, vs k = some v → keyIn S k = true → Val.NN v = true ∧ Val.isNum v = true)
    (v : Val) (hrun : run vs is fs (evalLine y c inst l) = .val v) :
    Val.NN v = true ∧ Val.isNum v = true :=
  nnLine_sound_partial3 h inst vs is fs
    { intToFloat := intToFloatNN, roundFact := h4.roundFact, fstr := h4.fstr, key := h4.key } ha hb v hrun

/-! ## Round 5: `round`, and the key strings (`qualify`, the f-string pattern `prefix{…}suffix`, `keyIn`) -/

theorem char_eq_dot (c : Char) : ('.' == c) = (46 == c.toNat) := by
  by_cases h : c = '.'
  · subst h; rfl
  · have h1 : ('.' == c) = false := by
      simp only [beq_eq_false_iff_ne, ne_eq]; exact fun h' => h h'.symm
    have h2 : (46 == c.toNat) = false := by
      simp only [beq_eq_false_iff_ne, ne_eq]
      intro h'
      apply h
      rw [← Char.ofNat_toNat c, ← h']
    rw [h1, h2]

theorem contains_dot_list (l : List Char) : l.contains '.' = (l.map Char.toNat).contains 46 := by
  induction l with
  | nil => rfl
  | cons c t ih => rw [List.map_cons, List.contains_cons, List.contains_cons, ih, char_eq_dot]

theorem contains_dot (s : String) : s.toList.contains '.' = (nats s).contains 46 :=
  contains_dot_list s.toList

theorem nats_append (a b : String) : nats (a ++ b) = nats a ++ nats b := by
  unfold nats; rw [String.toList_append, List.map_append]

theorem takeWhile_stop {p : Nat → Bool} : ∀ (l r : List Nat) (y : Nat), (∀ x, x ∈ l → p x = true) → p y = false →
    (l ++ y :: r).takeWhile p = l := by
  intro l
  induction l with
  | nil => intro r y _ hy; simp [List.takeWhile_cons, hy]
  | cons a t ih =>
    intro r y hl hy
    rw [List.cons_append, List.takeWhile_cons, hl a List.mem_cons_self]
    simp only [if_true]
    rw [ih r y (fun x hx => hl x (List.mem_cons_of_mem _ hx)) hy]

theorem takeWhile_any {p : Nat → Bool} : ∀ (l r : List Nat), (∃ x, x ∈ l ∧ p x = false) →
    (l ++ r).takeWhile p = l.takeWhile p := by
  intro l
  induction l with
  | nil => intro r h; obtain ⟨x, hx, _⟩ := h; cases hx
  | cons a t ih =>
    intro r h
    rw [List.cons_append, List.takeWhile_cons, List.takeWhile_cons]
    cases hpa : p a with
    | false => simp
    | true =>
      simp only [if_true]
      obtain ⟨x, hx, hpx⟩ := h
      rcases List.mem_cons.1 hx with h1 | h1
      · subst h1; rw [hpa] at hpx; cases hpx
      · rw [ih r ⟨x, h1, hpx⟩]

theorem not_contains_all {ns : List Nat} (h : ns.contains 46 = false) : ∀ x, x ∈ ns → (x != 46) = true := by
  intro x hx
  cases hb : (x != 46) with
  | true => rfl
  | false =>
    exfalso
    have hx46 : x = 46 := by simpa using hb
    subst hx46
    have : List.contains ns 46 = true := List.contains_iff_mem.2 hx
    rw [this] at h; cases h

/-- line part of `X.s` when `s` has no dot -/
theorem lineNats_rel (X ns : List Nat) (h : ns.contains 46 = false) : lineNats (X ++ 46 :: ns) = ns := by
  unfold lineNats
  have e : (X ++ 46 :: ns).reverse = ns.reverse ++ 46 :: X.reverse := by
    rw [List.reverse_append, List.reverse_cons, List.append_assoc]; rfl
  rw [e, takeWhile_stop ns.reverse X.reverse 46
    (fun x hx => not_contains_all h x (List.mem_reverse.1 hx)) (by decide), List.reverse_reverse]

/-- class part of `form<stop>…` when `form` has no stop -/
theorem clsNats_rel (F r : List Nat) (y : Nat) (hF : F.all (fun n => !isStop n) = true) (hy : isStop y = true) :
    clsNats (F ++ y :: r) = F := by
  unfold clsNats
  rw [List.all_eq_true] at hF
  exact takeWhile_stop F r y hF (by rw [hy]; rfl)

theorem clsNats_prefix (l r : List Nat) (h : l.any isStop = true) : clsNats (l ++ r) = clsNats l := by
  unfold clsNats
  obtain ⟨x, hx, hs⟩ := List.any_eq_true.1 h
  exact takeWhile_any l r ⟨x, hx, by rw [hs]; rfl⟩

theorem lineNats_suffix (l r : List Nat) (h : r.contains 46 = true) : lineNats (l ++ r) = lineNats r := by
  unfold lineNats
  rw [List.reverse_append]
  have hm : (46 : Nat) ∈ r := List.contains_iff_mem.1 h
  rw [takeWhile_any r.reverse l.reverse ⟨46, List.mem_reverse.2 hm, by decide⟩]

theorem nats_dot : nats "." = [46] := by decide
theorem nats_colon : nats ":" = [58] := by decide

theorem nats_formKey (form : String) (inst : Option String) (s : String) :
    ∃ y r, isStop y = true ∧ nats (formName form inst ++ "." ++ s) = nats form ++ y :: r ∧
      ∃ X, nats (formName form inst ++ "." ++ s) = X ++ 46 :: nats s := by
  cases inst with
  | none =>
    refine ⟨46, nats s, by decide, ?_, nats form, ?_⟩ <;>
      simp only [formName, nats_append, nats_dot, nats_colon, List.append_assoc, List.singleton_append,
        List.cons_append, List.nil_append]
  | some i =>
    refine ⟨58, nats i ++ 46 :: nats s, by decide, ?_, nats form ++ 58 :: nats i, ?_⟩ <;>
      simp only [formName, nats_append, nats_dot, nats_colon, List.append_assoc, List.singleton_append,
        List.cons_append, List.nil_append]

theorem qualify_str (ctx : Ctx) (s n : String) (h : qualify ctx (.str s) = .ok n) :
    n = if s.toList.contains '.' = true then s else formName ctx.form ctx.inst ++ "." ++ s := by
  injection h with h; exact h.symm

theorem nn_numNN_or_any {b : Bool} (h : (if b = true then SVal.numNN else SVal.any).nn = true) : b = true := by
  cases b with
  | true => rfl
  | false => cases h

theorem key_sound {K : SCtx} {ctx : Ctx} (hform : (nats ctx.form).all (fun n => !isStop n) = true)
    (hcode : K.clsCode = code (nats ctx.form)) :
    ∀ (k : Val) (a : SVal) (n : String), Approx k a → qualify ctx k = .ok n → (readKey K a).nn = true →
      keyIn K.S n = true := by
  intro k a n hk hq hnn
  unfold readKey at hnn
  rw [hk.nb] at hnn
  simp only [Bool.false_eq_true, if_false] at hnn
  cases hkn : a.known with
  | some c =>
    rw [hkn] at hnn
    have hc := hk.known c hkn
    subst hc
    cases k with
    | str s =>
      dsimp only at hnn
      have hn := qualify_str ctx s n hq
      rw [contains_dot] at hn
      cases hdot : (nats s).contains 46 with
      | true =>
        rw [hdot] at hnn hn
        simp only [if_true] at hnn hn
        subst hn
        exact nn_numNN_or_any hnn
      | false =>
        rw [hdot] at hnn hn
        simp only [Bool.false_eq_true, if_false] at hnn hn
        subst hn
        have hhas := nn_numNN_or_any hnn
        obtain ⟨y, r, hy, e1, X, e2⟩ := nats_formKey ctx.form ctx.inst s
        unfold keyIn
        have c1 : clsNats (nats (formName ctx.form ctx.inst ++ "." ++ s)) = nats ctx.form := by
          rw [e1]; exact clsNats_rel _ _ _ hform hy
        have c2 : lineNats (nats (formName ctx.form ctx.inst ++ "." ++ s)) = nats s := by
          rw [e2]; exact lineNats_rel _ _ hdot
        rw [c1, c2, ← hcode]; exact hhas
    | none => cases hnn
    | bool b => cases hnn
    | int i => cases hnn
    | float x => cases hnn
    | enumv e m => cases hnn
    | tuple xs => cases hnn
    | list xs => cases hnn
    | dict ks vs => cases hnn
  | none =>
    rw [hkn] at hnn
    dsimp only at hnn
    cases hkk : a.key with
    | none => rw [hkk] at hnn; cases hnn
    | some cl =>
      rw [hkk] at hnn
      dsimp only at hnn
      have hhas := nn_numNN_or_any hnn
      obtain ⟨s, hs, hdot, h1, h2⟩ := hk.key cl hkk
      subst hs
      have hn := qualify_str ctx s n hq
      rw [contains_dot, hdot] at hn
      simp only [if_true] at hn
      subst hn
      unfold keyIn
      rw [h1, h2]; exact hhas


theorem nats_empty : nats "" = [] := by decide

theorem fmtAll_cons {v : Val} {vs : List Val} {s : String} (h : fmtAll (v :: vs) = .ok s) :
    ∃ s1 rest, Val.pyStr v = .ok s1 ∧ fmtAll vs = .ok rest ∧ s = s1 ++ rest := by
  obtain ⟨s1, e1, r1⟩ := bind_ok (show (Val.pyStr v >>= fun s => fmtAll vs >>= fun rest => pure (s ++ rest)) = .ok s from h)
  obtain ⟨rest, e2, r2⟩ := bind_ok r1
  exact ⟨s1, rest, e1, e2, by injection r2 with r2; exact r2.symm⟩

theorem fstr3 {p q s : String} {v2 : Val} (h : fmtAll [.str p, v2, .str q] = .ok s) :
    ∃ s2, nats s = nats p ++ (nats s2 ++ nats q) := by
  obtain ⟨s1, r1, e1, f1, rfl⟩ := fmtAll_cons h
  obtain ⟨s2, r2, e2, f2, rfl⟩ := fmtAll_cons f1
  obtain ⟨s3, r3, e3, f3, rfl⟩ := fmtAll_cons f2
  have h1 : p = s1 := by injection e1
  have h3 : q = s3 := by injection e3
  have h4 : "" = r3 := by injection f3
  subst h1; subst h3; subst h4
  exact ⟨s2, by simp only [nats_append, nats_empty, List.append_nil]⟩

theorem fstr_sound : ∀ (vs : List Val) (as : List SVal) (s : String), List.Forall₂ Approx vs as →
    fmtAll vs = .ok s → ∀ cl, fstrKey as = some cl → IsKey (.str s) cl := by
  intro vs as s hvs hs cl hk
  cases hvs with
  | nil => cases hk
  | @cons v1 a vs1 as1 h1 t1 =>
    cases t1 with
    | nil => cases hk
    | @cons v2 b vs2 as2 h2 t2 =>
      cases t2 with
      | nil => cases hk
      | @cons v3 c vs3 as3 h3 t3 =>
        cases t3 with
        | cons h4 t4 => cases hk
        | nil =>
          unfold fstrKey at hk
          dsimp only at hk
          cases hka : a.known with
          | none => rw [hka] at hk; cases hk
          | some ca =>
            rw [hka] at hk
            have e1 := h1.known ca hka
            cases ca with
            | str p =>
              dsimp only at hk
              cases hkc : c.known with
              | none => rw [hkc] at hk; cases hk
              | some cc =>
                rw [hkc] at hk
                have e3 := h3.known cc hkc
                cases cc with
                | str q =>
                  dsimp only at hk
                  by_cases hcond : ((nats p).any isStop && (nats q).contains 46) = true
                  · rw [if_pos hcond] at hk
                    injection hk with hk
                    subst hk
                    simp only [Bool.and_eq_true] at hcond
                    subst e1; subst e3
                    obtain ⟨s2, hn⟩ := fstr3 hs
                    refine ⟨s, rfl, ?_, ?_, ?_⟩
                    · rw [hn, List.contains_append, List.contains_append, hcond.2]; simp
                    · show code (clsNats (nats s)) = code (clsNats (nats p))
                      rw [hn, clsNats_prefix _ _ hcond.1]
                    · show code (lineNats (nats s)) = code (lineNats (nats q))
                      rw [hn, ← List.append_assoc, lineNats_suffix _ _ hcond.2]
                  · rw [if_neg hcond] at hk; cases hk
                | none => cases hk
                | bool b => cases hk
                | int i => cases hk
                | float x => cases hk
                | enumv e m => cases hk
                | tuple xs => cases hk
                | list xs => cases hk
                | dict ks vs => cases hk
            | none => cases hk
            | bool b => cases hk
            | int i => cases hk
            | float x => cases hk
            | enumv e m => cases hk
            | tuple xs => cases hk
            | list xs => cases hk
            | dict ks vs => cases hk


/-- the two-argument `round(x, k)` once `k` is an index -/
def pyRound2 (x : Val) (k : Int) : R Val :=
  match x with
  | .float f => if k ≥ 0 then .ok (.float (F64.roundN f k.toNat)) else Val.roundFloatNeg f (-k).toNat
  | .int i => .ok (.int (if k ≥ 0 then i else Val.roundIntNeg i (-k).toNat))
  | .bool b =>
    let i : Int := if b then 1 else 0
    .ok (.int (if k ≥ 0 then i else Val.roundIntNeg i (-k).toNat))
  | _ => .error .typeError

theorem pyRound_cases {x : Val} {rest : List Val} {r : Val} (h : Val.pyRound (x :: rest) = .ok r) :
    Val.pyRound.pyRound1 x = .ok r ∨ ∃ k, pyRound2 x k = .ok r := by
  cases rest with
  | nil => exact Or.inl h
  | cons n t =>
    cases t with
    | cons c t2 => cases n <;> cases h
    | nil =>
      cases n with
      | none => exact Or.inl h
      | bool b => exact Or.inr ⟨_, h⟩
      | int i => exact Or.inr ⟨_, h⟩
      | float y => cases h
      | str s => cases h
      | enumv e m => cases h
      | tuple xs => cases h
      | list xs => cases h
      | dict ks vs => cases h

theorem pyRound1_fact {x r : Val} (h : Val.pyRound.pyRound1 x = .ok r) :
    r.isNum = true ∧ (x.NN = true → r.NN = true) := by
  cases x with
  | float f =>
    obtain ⟨i, hi, hr⟩ := floatToInt_fact (show Val.floatToInt f (F64.roundInt f) = .ok r from h)
    subst hr
    exact ⟨rfl, fun hx => (NN_int _).2 (F64.roundInt_notNeg ((NN_float f).1 hx) hi)⟩
  | int i => injection h with h; subst h; exact ⟨rfl, fun hx => hx⟩
  | bool b => injection h with h; subst h; exact ⟨rfl, fun _ => by cases b <;> rfl⟩
  | none => cases h
  | str s => cases h
  | enumv e m => cases h
  | tuple xs => cases h
  | list xs => cases h
  | dict ks vs => cases h

theorem roundIntNeg_nonneg {i : Int} (hi : 0 ≤ i) (k : Nat) : 0 ≤ Val.roundIntNeg i k := by
  unfold Val.roundIntNeg
  dsimp only
  have : ¬ i < 0 := by omega
  rw [if_neg this]
  exact Int.natCast_nonneg _

theorem isNeg_ofScaled_or (s : Bool) (N D : Nat) (h : s = false ∨ N = 0) :
    F64.isNeg (F64.ofScaled s N D) = false := by
  rcases h with h | h
  · subst h; exact F64.isNeg_ofScaled_false _ _
  · subst h; rw [F64.ofScaled_zero]; simp [F64.isNeg]

theorem rneDiv_zero_mul (m X D P Q : Nat) (h : m = 0) : F64.rneDiv (m * X) D * P * Q = 0 := by
  subst h; rw [Nat.zero_mul, F64.rneDiv_zero, Nat.zero_mul, Nat.zero_mul]

theorem roundFloatNegTail {z : F64} {r : Val}
    (h : (match z with
      | .inf _ => (.error .overflowError : R Val)
      | r => .ok (.float r)) = .ok r) : r = .float z := by
  cases z with
  | inf s' => cases h
  | nan => injection h with h; exact h.symm
  | finite n' m' e' => injection h with h; exact h.symm

/-- `round(x, -k)` of a float (`Val.roundFloatNeg`): a number, not negative when `x` is not negative.  STILL ASSUMED:
the proof (generalise the `ofScaled` term, `roundFloatNegTail`, `isNeg_ofScaled_or`, `rneDiv_zero_mul` above) is
accepted by the elaborator but the KERNEL answers "deep recursion detected" on it (it normalises
`… * 10^k * 2^1074` under the `match` of the model definition); splitting `Val.roundFloatNeg` model-side into a helper
over the abstract rounded value (as was done for `Val.intToFloat`) removes the problem.  No shipped line calls
`round` with a negative second argument. -/
def RoundFloatNegFact : Prop :=
  ∀ (f : F64) (k : Nat) (r : Val), Val.roundFloatNeg f k = .ok r →
    r.isNum = true ∧ (F64.isNeg f = false → r.NN = true)

theorem pyRound2_fact (hrf : RoundFloatNegFact) {x : Val} {k : Int} {r : Val} (h : pyRound2 x k = .ok r) :
    r.isNum = true ∧ (x.NN = true → r.NN = true) := by
  cases x with
  | float f =>
    have h' : (if k ≥ 0 then (.ok (.float (F64.roundN f k.toNat)) : R Val)
      else Val.roundFloatNeg f (-k).toNat) = .ok r := h
    by_cases hk : k ≥ 0
    · rw [if_pos hk] at h'
      injection h' with h'; subst h'
      exact ⟨rfl, fun hx => (NN_float _).2 (F64.roundN_notNeg ((NN_float f).1 hx) _)⟩
    · rw [if_neg hk] at h'
      obtain ⟨p, q⟩ := hrf _ _ _ h'
      exact ⟨p, fun hx => q ((NN_float f).1 hx)⟩
  | int i =>
    injection h with h; subst h
    refine ⟨rfl, fun hx => (NN_int _).2 ?_⟩
    have hi := (NN_int i).1 hx
    by_cases hk : k ≥ 0
    · rw [if_pos hk]; exact hi
    · rw [if_neg hk]; exact roundIntNeg_nonneg hi _
  | bool b =>
    injection h with h; subst h
    refine ⟨rfl, fun _ => (NN_int _).2 ?_⟩
    have hi : (0 : Int) ≤ (if b = true then 1 else 0) := by cases b <;> decide
    by_cases hk : k ≥ 0
    · rw [if_pos hk]; exact hi
    · rw [if_neg hk]; exact roundIntNeg_nonneg hi _
  | none => cases h
  | str s => cases h
  | enumv e m => cases h
  | tuple xs => cases h
  | list xs => cases h
  | dict ks vs => cases h

theorem roundFact (hrf : RoundFloatNegFact) : RoundFact := by
  intro x rest r h
  rcases pyRound_cases h with h1 | ⟨k, h2⟩
  · exact pyRound1_fact h1
  · exact pyRound2_fact hrf h2


theorem restFacts4_of (hrf : RoundFloatNegFact) {y : YearDecl} {S : SSet} {c : ClassDecl} {inst : Option String}
    (hc : classOK c = true) :
    RestFacts4 (mkK false y S c) { year := y, form := c.name, inst := inst, thresholds := c.thresholds } where
  roundFact := roundFact hrf
  fstr := fstr_sound
  key := key_sound hc rfl

/-- **Soundness of the sign analysis (the variant that treats `sum(...)` as unknown), round 5: ONE closed fact left,
`RoundFloatNegFact` (`round(float, negative n)`; see there).**
If `nnLine y S c l = true` then for every instance `inst` and all stores `vs is fs` such that
(a) every input that evaluates is not negative (`Val.NN`: a float that is not `< 0.0`, an int `≥ 0`, any non-number) and
(b) every stored value under a key `k` with `keyIn S k` (class = text before the first `:`/`.`, line = text after the
last `.`, both looked up by `code` in `S`) is a not-negative NUMBER:
whenever line `l` of class `c` evaluates to a value `v`, `v` is a not-negative number. -/
theorem nnLine_sound_partial5 (hrf : RoundFloatNegFact) {y : YearDecl} {S : SSet} {c : ClassDecl} {l : LineDecl}
    (h : nnLine y S c l = true) (inst : Option String)
    (vs : String → Option Val) (is : String → InpRes Val) (fs : String → Bool)
    (ha : ∀ k v, is k = .ok v → Val.NN v = true)
    (hb : ∀ k v, vs k = some v → keyIn S k = true → Val.NN v = true ∧ Val.isNum v = true)
    (v : Val) (hrun : run vs is fs (evalLine y c inst l) = .val v) :
    Val.NN v = true ∧ Val.isNum v = true := by
  have hc : classOK c = true := by
    have h' := h
    unfold nnLine nnLineWith at h'
    simp only [Bool.and_eq_true] at h'
    exact h'.1.2
  exact nnLine_sound_partial4 h inst vs is fs (restFacts4_of hrf hc) ha hb v hrun

/-- a closed set is self-supporting: every line of `S` only returns not-negative numbers as long as the stored
values of the lines of `S` are not-negative numbers (the induction step of the lift to solver states) -/
theorem closed_line_sound (hrf : RoundFloatNegFact) {y : YearDecl} {S : SSet} (hS : closedWith false y S = true)
    {c : ClassDecl} (hcm : c ∈ y.classes) {l : LineDecl} (hl : l ∈ c.lines)
    (hin : S.has (code (nats c.name)) (code (nats l.name)) = true) (inst : Option String)
    (vs : String → Option Val) (is : String → InpRes Val) (fs : String → Bool)
    (ha : ∀ k v, is k = .ok v → Val.NN v = true)
    (hb : ∀ k v, vs k = some v → keyIn S k = true → Val.NN v = true ∧ Val.isNum v = true)
    (v : Val) (hrun : run vs is fs (evalLine y c inst l) = .val v) :
    Val.NN v = true ∧ Val.isNum v = true :=
  nnLine_sound_partial5 hrf (closedWith_line hS hcm hl hin) inst vs is fs ha hb v hrun

/-! ## Round 6: `round(float, -k)` after the model split (`Val.roundFloatNegOf` over the abstract rounded value) -/

theorem roundFloatNegOf_ok (z : F64) (r : Val) (h : Val.roundFloatNegOf z = .ok r) : r = .float z := by
  cases z with
  | inf s' => cases h
  | nan => injection h with h; exact h.symm
  | finite n' m' e' => injection h with h; exact h.symm

/-- the sign argument over an ABSTRACT numerator `N` -/
theorem roundFloatNeg_aux (s : Bool) (m e N : Nat) (r : Val) (hN : m = 0 → N = 0)
    (h : Val.roundFloatNegOf (F64.ofScaled s N 1) = .ok r) :
    r.isNum = true ∧ (F64.isNeg (F64.finite s m e) = false → r.NN = true) := by
  have hr := roundFloatNegOf_ok _ r h
  subst hr
  refine ⟨rfl, fun hf => (NN_float _).2 (isNeg_ofScaled_or s N 1 ?_)⟩
  rcases F64.notNeg_finite hf with h1 | h1
  · exact Or.inl h1
  · exact Or.inr (hN h1)

theorem roundFloatNeg_finite (s : Bool) (m e k : Nat) :
    Val.roundFloatNeg (F64.finite s m e) k =
      if k > 308 then .ok (.float (F64.finite s 0 0))
      else Val.roundFloatNegOf
        (F64.ofScaled s (F64.rneDiv (m * 2 ^ e) (F64.one * 10 ^ k) * 10 ^ k * F64.one) 1) := rfl

theorem roundFloatNegFact : RoundFloatNegFact := by
  intro f k r h
  cases f with
  | nan => injection h with h; subst h; exact ⟨rfl, fun hf => (NN_float _).2 hf⟩
  | inf s => injection h with h; subst h; exact ⟨rfl, fun hf => (NN_float _).2 hf⟩
  | finite s m e =>
    rw [roundFloatNeg_finite] at h
    by_cases hk : k > 308
    · rw [if_pos hk] at h
      injection h with h; subst h
      exact ⟨rfl, fun _ => (NN_float _).2 (by simp [F64.isNeg])⟩
    · rw [if_neg hk] at h
      exact roundFloatNeg_aux s m e _ r (fun hm => rneDiv_zero_mul m _ _ _ _ hm) h

/-- **Soundness of the sign analysis (the variant that treats `sum(...)` as unknown) — UNCONDITIONAL.**
If `nnLine y S c l = true` then for every instance `inst` and all stores `vs is fs` such that
(a) every input that evaluates is not negative (`Val.NN`: a float that is not `< 0.0`, an int `≥ 0`, any non-number) and
(b) every stored value under a key `k` with `keyIn S k` (class = text before the first `:`/`.`, line = text after the
last `.`, both looked up by `code` in `S`) is a not-negative NUMBER:
whenever line `l` of class `c` evaluates to a value `v`, `v` is a not-negative number. -/
theorem nnLine_sound {y : YearDecl} {S : SSet} {c : ClassDecl} {l : LineDecl}
    (h : nnLine y S c l = true) (inst : Option String)
    (vs : String → Option Val) (is : String → InpRes Val) (fs : String → Bool)
    (ha : ∀ k v, is k = .ok v → Val.NN v = true)
    (hb : ∀ k v, vs k = some v → keyIn S k = true → Val.NN v = true ∧ Val.isNum v = true)
    (v : Val) (hrun : run vs is fs (evalLine y c inst l) = .val v) :
    Val.NN v = true ∧ Val.isNum v = true :=
  nnLine_sound_partial5 roundFloatNegFact h inst vs is fs ha hb v hrun

/-- `closed_line_sound` without hypothesis: in a closed set every line only returns not-negative numbers as long as
the stored values of the lines of the set are not-negative numbers -/
theorem closed_line_sound' {y : YearDecl} {S : SSet} (hS : closedWith false y S = true)
    {c : ClassDecl} (hcm : c ∈ y.classes) {l : LineDecl} (hl : l ∈ c.lines)
    (hin : S.has (code (nats c.name)) (code (nats l.name)) = true) (inst : Option String)
    (vs : String → Option Val) (is : String → InpRes Val) (fs : String → Bool)
    (ha : ∀ k v, is k = .ok v → Val.NN v = true)
    (hb : ∀ k v, vs k = some v → keyIn S k = true → Val.NN v = true ∧ Val.isNum v = true)
    (v : Val) (hrun : run vs is fs (evalLine y c inst l) = .val v) :
    Val.NN v = true ∧ Val.isNum v = true :=
  closed_line_sound roundFloatNegFact hS hcm hl hin inst vs is fs ha hb v hrun

end HabuVerif.Sign

section AxiomCheck2
open HabuVerif.Sign
#print axioms add_NN
#print axioms add_isNum
#print axioms add_items
#print axioms sub_isNum
#print axioms mul_isNum
#print axioms neg_isNum
#print axioms iterItems_items
#print axioms getItem_items
#print axioms opFacts_of
#print axioms nnLine_sound_partial2
#print axioms wrapFact
#print axioms maxFact
#print axioms call_sound
#print axioms div_fact
#print axioms mul_NN
#print axioms thresh_sound
#print axioms restFacts_of
#print axioms nnLine_sound_partial3
#print axioms intToFloatNN
#print axioms nnLine_sound_partial4
#print axioms roundFact
#print axioms fstr_sound
#print axioms key_sound
#print axioms nnLine_sound_partial5
#print axioms closed_line_sound
#print axioms roundFloatNegFact
#print axioms nnLine_sound
#print axioms closed_line_sound'
end AxiomCheck2
